/-
  Props/C12Solve — C12 completed with C16: `from_file(save(S))` gives equal `solve()` and `rail_rep()`.

  `Props/C12` + `Props/C12Layout` prove that the saved document of a well-formed description `s` loads to a
  description `s'` with `SysEquiv s' s` (same registries, node lists equal up to order and `CompEquiv`).
  `Props/C16Renumber` / `Props/C16Rail` prove that two solver-level systems related by a renumbering `C16R.Iso`
  (EQUAL components) give the same table / rail report up to row order.  This file is the bridge.

  1. `SysDesc.toSSys s topo`   the solver's view of a description: node id = position in `s.nodes`, `_parents` resolved
        by name in declaration order (`SysDesc.idOf`), `_childs` = the components listing the node among their parents
        (`childrenOf`, newest first), phase configuration / group / rail / phases decoded from the raw registries by
        name (`pvPhaseConf`, `regStr`, `pvPhases`); `topo` = rustworkx's topological order by name (a parameter).
  2. `LawEq c' c`, `compEquiv_laws`
        `CompEquiv` is weaker than equality in exactly two fields: (a) `limits` — only the keys applicable to the kind
        are compared (finding F29: `save` drops the others, the loader fills defaults in); (b) `par` — a 2-D table is
        compared up to its diagonal annotation (`Param.sameData`).  (a) is harmless: `_solv_get_warns` only reads
        applicable keys, so `CompEquiv c' c` + equal interpolators ⇒ the four laws, the three initial-guess functions,
        name, kind, rs agree (`LawEq`).  (b) is NOT harmless in the model (last example: same data, other diagonal,
        other value), hence the explicit interpolator hypothesis.
     `SameLaws t s`, `SameLaws.solve_eq`
        replacing every component by one with the same laws (same node ids) leaves `solve()` unchanged — the same
        `Except` value; proved function by function through Model/Solver and Model/Table.
     `IsoUpTo σ a b := ∃ m, Iso σ a m ∧ SameLaws b m`, `IsoUpTo.solve`, `.solve_error`, `.rail_rep`
        the C16 results generalised from `Iso` to "renumbering up to the laws".
  3. `perm_iso`                permuting the node list of a description (distinct names, parents exist) is a `C16R.Iso`
                               for σ = `renum s s'` = "position of the same name in `s'`".
     `sameLaws_of_nodeAgree`   node lists related position by position by `CompEquiv` + equal interpolators ⇒ `SameLaws`.
     `sysEquiv_isoUpTo_partial`  SysEquiv s' s, SolveWF s, InterpAgree s' s ⇒ IsoUpTo (renum s s') (s.toSSys topo) (s'.toSSys topo').
     `sysEquiv_iso_partial`      under "equivalent components are equal" a plain `Iso`.
     `toSSys_tableWF`, `toSSys_railsUnique`   `C16R.TableWF` / `RailsUnique` from `SolveWF`, `TopoOK`, `DescRailsUnique`.
     `sysEquiv_same_table_partial`, `sysEquiv_same_error_partial`, `sysEquiv_same_rail_rep_partial`.
  4. `roundtrip_explicit`      `from_file(save(s)) = ok (reloadedDesc topo s)` (the result of `roundtrip_partial` spelled out)
     `reload_same_table_partial`, `reload_same_rail_rep_partial`   the composition, for `DescWF topo s`.

  What makes the `_partial` theorems partial (all hypotheses explicit):
   * `hres` — no Source / PMux is called "system" (finding F15, inherited from `roundtrip_wf_partial`);
   * `DiagInsensitive s` / `InterpAgree s' s` — the model carries scipy's diagonal choice of a 2-D table as an
     annotation that is not part of the saved document, so the model's loader rebuilds 2-D tables with the default
     diagonal; the theorems assume the interpolators do not depend on it (constants, 1-D tables, 2-D tables with the
     default annotation: `diagInsensitive_of_not_tab2`, `diagInsensitive_of_dropDiag`).  In the implementation the
     diagonal is a function of the table data, so this is a restriction of the MODEL's parameterisation, not of the code;
   * `TopoOK topo' s` — the order in which rustworkx processes the reloaded system (a parameter) lists every component
     once, parents first; `DescWF topo s` gives the same for `topo`;
   * `DescRailsUnique s` (rail report only) — rail names are unique, as `_chk_name` enforces;
   * `0 ≤ cfg.atol`; groups / rails registries non-empty and the version string parses (from `roundtrip_wf_partial`).
  Not covered: `params(limits=True)` and `phases()` of the reloaded system (Props/C16Reports treats them for edit
  histories; they are not connected to `SysDesc` here); the ORDER of rows (rustworkx's choice on both sides); which law
  exception escapes when several components fail in one sweep (`solve_renumber_error`'s caveat).

  Non-vacuity: `eSys` of Props/C12Layout, and `eSysR` (the same graph with groups, four rails, two phases, a phase
  table on a load, the PMux active in one phase only, a Source carrying a non-applicable limit): both are `DescWF`,
  solve (kernel-evaluated at ℚ), the theorems are applied with a DIFFERENT processing order for the reloaded system,
  both sides are evaluated (`decide +kernel`): different row orders, equal rail reports, unequal components.
-/
import SysLoss.Props.C12Layout
import SysLoss.Props.C16Rail

set_option linter.unusedSectionVars false
set_option linter.unusedVariables false
set_option linter.unusedSimpArgs false

namespace SysLoss
namespace C12
open C16R
variable {α : Type} [Field α] [LinearOrder α] [IsStrictOrderedRing α]

/-! ### 1. the solver's view of a description -/

/-- a `phase_conf` entry: a list of phase names, or a dict phase ↦ value -/
def pvPhaseConf (x : PV α) : PhaseConf α :=
  match x with
  | .list l => .names (l.filterMap fun y => match y with | .str p => some p | _ => none)
  | .dict d => .table (d.filterMap fun kv => kv.2.num?.map fun v => (kv.1, v))
  | _ => .table []

/-- `attrs["phases"]`: phase ↦ duration -/
def pvPhases (x : PV α) : List (String × α) :=
  match x with
  | .dict d => d.filterMap fun kv => kv.2.num?.map fun v => (kv.1, v)
  | _ => []

/-- a string-valued registry (`groups`, `rails`) at a component name -/
def regStr (reg : PV α) (name : String) : String :=
  match reg.get? name with
  | some (.str r) => r
  | _ => ""

/-- node id of a component: its position in the node list -/
def _root_.SysLoss.SysDesc.idOf (s : SysDesc α) (name : String) : Nat := s.names.idxOf name

def _root_.SysLoss.SysDesc.pconfOf (s : SysDesc α) (name : String) : PhaseConf α :=
  match s.phaseConf.get? name with
  | some x => pvPhaseConf x
  | none => .table []

/-- what `_rel_update()` / `_set_phase_lkup()` hand to the solver for one component: parents resolved by name in
    declaration order, children = the components that list it among their parents (newest first, as rustworkx
    does), configuration / group / rail looked up by name -/
def _root_.SysLoss.SysDesc.snode (s : SysDesc α) (n : Node α) : SNode α :=
  { comp := n.comp
    parents := n.parents.map s.idOf
    childs := (childrenOf s n.name).map fun c => s.idOf c.name
    pconf := s.pconfOf n.name
    group := regStr s.groups n.name
    rail := regStr s.rails n.name }

/-- the solver-level system of a description; `topo` = rustworkx's topological order, by name (a parameter) -/
def _root_.SysLoss.SysDesc.toSSys (s : SysDesc α) (topo : List String) : SSys α :=
  { nodes := (s.nodes.map fun n => some (s.snode n)).toArray
    topo := topo.map s.idOf
    phases := pvPhases s.phases }

/-! ### 2. components with the same laws -/

/-- everything the solver and the table assembly read of a component -/
structure LawEq (c' c : Comp α) : Prop where
  name : c'.name = c.name
  kind : c'.kind = c.kind
  rs : c'.rs = c.rs
  outp : ∀ vi io ph off, c'.solvOutpVolt vi io ph off = c.solvOutpVolt vi io ph off
  inp : ∀ vi io ph off, c'.solvInpCurr vi io ph off = c.solvInpCurr vi io ph off
  loss : ∀ vi vo ii io ta ph, c'.solvPwrLoss vi vo ii io ta ph = c.solvPwrLoss vi vo ii io ta ph
  warns : ∀ vi vo ii io ta ph, c'.solvGetWarns vi vo ii io ta ph = c.solvGetWarns vi vo ii io ta ph
  initVolt : ∀ ph, c'.initVolt ph = c.initVolt ph
  initCurr : ∀ ph, c'.initCurr ph = c.initCurr ph
  initOff : ∀ ph, c'.initOff ph = c.initOff ph

theorem LawEq.refl (c : Comp α) : LawEq c c :=
  ⟨rfl, rfl, rfl, fun _ _ _ _ => rfl, fun _ _ _ _ => rfl, fun _ _ _ _ _ _ => rfl, fun _ _ _ _ _ _ => rfl,
   fun _ => rfl, fun _ => rfl, fun _ => rfl⟩

theorem LawEq.priInp {c' c : Comp α} (h : LawEq c' c) (off : List Bool) (vi : List α) :
    c'.priInp off vi = c.priInp off vi := by
  unfold Comp.priInp; rw [h.kind]

theorem getWarns_congr (l' l : List (String × (α × α))) (checks : List (String × α))
    (h : ∀ kv ∈ checks, lookupLimit l' kv.1 = lookupLimit l kv.1) : getWarns l' checks = getWarns l checks := by
  unfold getWarns
  congr 1
  apply List.filter_congr
  intro kv hkv
  rw [h kv hkv]

/-- **`CompEquiv` components whose interpolators agree have the same laws**: `CompEquiv` leaves free (a) the limits
    on keys that do not apply to the kind — never read by `_solv_get_warns` — and (b) the diagonal choice of a 2-D
    table, which is why the interpolators are compared separately -/
theorem compEquiv_laws {c' c : Comp α} (h : CompEquiv c' c)
    (hi : ∀ x y, c'.par.interp x y = c.par.interp x y) : LawEq c' c := by
  have hloss : ∀ vi vo ii io ta ph, c'.solvPwrLoss vi vo ii io ta ph = c.solvPwrLoss vi vo ii io ta ph := by
    intro vi vo ii io ta ph
    unfold Comp.solvPwrLoss finishPL
    simp only [h.kind, h.vo, h.rs, h.rsList, h.vdrop, h.iq, h.iis, h.rt, h.pwr, h.pwrs, h.ii, h.loss, h.diode, hi]
  refine ⟨h.name, h.kind, h.rs, ?_, ?_, hloss, ?_, ?_, ?_, ?_⟩
  · intro vi io ph off
    unfold Comp.solvOutpVolt
    simp only [h.name, h.kind, h.vo, h.rs, h.rsList, h.vdrop, h.diode, hi]
  · intro vi io ph off
    unfold Comp.solvInpCurr
    simp only [h.kind, h.vo, h.rs, h.iq, h.iis, h.pwr, h.pwrs, h.ii, h.diode, hi]
  · intro vi vo ii io ta ph
    unfold Comp.solvGetWarns
    simp only [h.kind, hloss]
    split_ifs
    · rfl
    · apply getWarns_congr
      intro kv hkv
      obtain ⟨k, hk, hkx⟩ := List.mem_filterMap.mp hkv
      cases hl : List.lookup k [("vi", vi), ("vo", vo), ("vd", nabs vi - nabs vo), ("ii", ii), ("io", io),
          ("pi", (c.solvPwrLoss vi vo ii io ta ph).pwr),
          ("po", (c.solvPwrLoss vi vo ii io ta ph).pwr - (c.solvPwrLoss vi vo ii io ta ph).loss),
          ("pl", (c.solvPwrLoss vi vo ii io ta ph).loss), ("tr", (c.solvPwrLoss vi vo ii io ta ph).tr),
          ("tp", (c.solvPwrLoss vi vo ii io ta ph).tp)] with
      | none => rw [hl] at hkx; simp at hkx
      | some x =>
        rw [hl] at hkx
        simp only [Option.map_some, Option.some.injEq] at hkx
        subst hkx
        exact h.limits k hk
  · intro ph; unfold Comp.initVolt; simp only [h.kind, h.vo]
  · intro ph; unfold Comp.initCurr; simp only [h.kind, h.ii, h.iis, h.iq, hi]
  · intro ph; unfold Comp.initOff; simp only [h.kind, h.vo]

/-! ### 3. systems with the same laws at every node -/

/-- node payloads that the solver cannot tell apart -/
structure NodeLaw (nd' nd : SNode α) : Prop where
  comp : LawEq nd'.comp nd.comp
  parents : nd'.parents = nd.parents
  childs : nd'.childs = nd.childs
  pconf : nd'.pconf = nd.pconf
  group : nd'.group = nd.group
  rail : nd'.rail = nd.rail

inductive OptLaw : Option (SNode α) → Option (SNode α) → Prop
  | none : OptLaw none none
  | some {a b : SNode α} : NodeLaw a b → OptLaw (some a) (some b)

/-- `t` is `s` with every component replaced by one with the same laws (same node ids) -/
structure SameLaws (t s : SSys α) : Prop where
  nodes : List.Forall₂ OptLaw t.nodes.toList s.nodes.toList
  topo : t.topo = s.topo
  phases : t.phases = s.phases

theorem forall₂_getElem? {β γ : Type} {R : β → γ → Prop} {l : List β} {l' : List γ} (h : List.Forall₂ R l l')
    (n : Nat) : (l[n]? = none ∧ l'[n]? = none) ∨ ∃ a b, l[n]? = some a ∧ l'[n]? = some b ∧ R a b := by
  induction h generalizing n with
  | nil => left; simp
  | cons hab _ ih =>
    cases n with
    | zero => right; exact ⟨_, _, by simp, by simp, hab⟩
    | succ n => simpa using ih n

section same
variable {t s : SSys α}

theorem SameLaws.hidx (h : SameLaws t s) : t.hidx = s.hidx := by
  have := h.nodes.length_eq
  simpa [SSys.hidx] using this

theorem SameLaws.node (h : SameLaws t s) (n : Nat) :
    (t.node? n = none ∧ s.node? n = none) ∨ ∃ a b, t.node? n = some a ∧ s.node? n = some b ∧ NodeLaw a b := by
  unfold SSys.node?
  rw [Array.getD_eq_getD_getElem?, Array.getD_eq_getD_getElem?, ← Array.getElem?_toList, ← Array.getElem?_toList]
  rcases forall₂_getElem? h.nodes n with ⟨h1, h2⟩ | ⟨a, b, h1, h2, hr⟩
  · left; simp [h1, h2]
  · rw [h1, h2]
    cases hr with
    | none => left; simp
    | some hl => right; exact ⟨_, _, rfl, rfl, hl⟩

def initV (s : SSys α) (ph : String) (n : Nat) : α :=
  match s.node? n with | some nd => nd.comp.initVolt (nd.pconf.ctx ph) | none => 0
def initI (s : SSys α) (ph : String) (n : Nat) : α :=
  match s.node? n with | some nd => nd.comp.initCurr (nd.pconf.ctx ph) | none => 0
def initO (s : SSys α) (ph : String) (n : Nat) : Bool :=
  match s.node? n with | some nd => nd.comp.initOff (nd.pconf.ctx ph) | none => false
def initS (s : SSys α) (ph : String) (n : Nat) : List Bool :=
  match s.node? n with
  | some nd => if nd.parents.isEmpty then [initO s ph n] else nd.parents.map (initO s ph)
  | none => []

theorem init_def (s : SSys α) (ph : String) :
    s.init ph = (((List.range s.hidx).map (initV s ph)).toArray, ((List.range s.hidx).map (initI s ph)).toArray,
      ((List.range s.hidx).map (initS s ph)).toArray) := rfl

theorem SameLaws.init_eq (h : SameLaws t s) (ph : String) : t.init ph = s.init ph := by
  have e1 : initV t ph = initV s ph := by
    funext n
    unfold initV
    rcases h.node n with ⟨h1, h2⟩ | ⟨a, b, h1, h2, hl⟩
    · simp only [h1, h2]
    · simp only [h1, h2, hl.comp.initVolt, hl.pconf]
  have e2 : initI t ph = initI s ph := by
    funext n
    unfold initI
    rcases h.node n with ⟨h1, h2⟩ | ⟨a, b, h1, h2, hl⟩
    · simp only [h1, h2]
    · simp only [h1, h2, hl.comp.initCurr, hl.pconf]
  have e3 : initO t ph = initO s ph := by
    funext n
    unfold initO
    rcases h.node n with ⟨h1, h2⟩ | ⟨a, b, h1, h2, hl⟩
    · simp only [h1, h2]
    · simp only [h1, h2, hl.comp.initOff, hl.pconf]
  have e4 : initS t ph = initS s ph := by
    funext n
    unfold initS
    rcases h.node n with ⟨h1, h2⟩ | ⟨a, b, h1, h2, hl⟩
    · simp only [h1, h2]
    · simp only [h1, h2, hl.parents, e3]
  rw [init_def, init_def, h.hidx, e1, e2, e4]

theorem SameLaws.childShare_eq (h : SameLaws t s) : t.childShare = s.childShare := by
  funext node i v st c
  unfold SSys.childShare
  rcases h.node c with ⟨h1, h2⟩ | ⟨a, b, h1, h2, hl⟩
  · simp only [h1, h2]
  · simp only [h1, h2, hl.parents, hl.comp.priInp]

theorem SameLaws.childCurr_eq (h : SameLaws t s) : t.childCurr = s.childCurr := by
  funext node i v st
  unfold SSys.childCurr
  rcases h.node node with ⟨h1, h2⟩ | ⟨a, b, h1, h2, hl⟩
  · simp only [h1, h2]
  · simp only [h1, h2, hl.childs, h.childShare_eq]

theorem SameLaws.lawArgs_eq (h : SameLaws t s) {a b : SNode α} (hl : NodeLaw a b) (n : Nat) (v i : Vec α) (st : St) :
    t.lawArgs a n v i st = s.lawArgs b n v i st := by
  unfold SSys.lawArgs
  simp only [hl.parents, hl.childs, h.childCurr_eq]

theorem SameLaws.fwdAt_eq (h : SameLaws t s) : t.fwdAt = s.fwdAt := by
  funext ph v i st n
  unfold SSys.fwdAt
  rcases h.node n with ⟨h1, h2⟩ | ⟨a, b, h1, h2, hl⟩
  · simp only [h1, h2]
  · simp only [h1, h2, h.lawArgs_eq hl, hl.comp.outp, hl.pconf]

theorem SameLaws.backAt_eq (h : SameLaws t s) : t.backAt = s.backAt := by
  funext ph v i st n
  unfold SSys.backAt
  rcases h.node n with ⟨h1, h2⟩ | ⟨a, b, h1, h2, hl⟩
  · simp only [h1, h2]
  · simp only [h1, h2, h.lawArgs_eq hl, hl.comp.inp, hl.pconf]

theorem SameLaws.fwdProp_eq (h : SameLaws t s) : t.fwdProp = s.fwdProp := by
  funext ph v i st
  unfold SSys.fwdProp
  rw [h.topo, h.hidx, h.fwdAt_eq]

theorem SameLaws.backProp_eq (h : SameLaws t s) : t.backProp = s.backProp := by
  funext ph v i st
  unfold SSys.backProp
  rw [h.topo, h.hidx, h.backAt_eq]

theorem SameLaws.loop_eq (h : SameLaws t s) (cfg : Cfg α) (ph : String) :
    ∀ (fuel : Nat) (v i : Vec α) (st : St) (it : Nat), t.loop cfg ph fuel v i st it = s.loop cfg ph fuel v i st it := by
  intro fuel
  induction fuel with
  | zero => intro v i st it; rfl
  | succ f ih =>
    intro v i st it
    rw [loop_succ, loop_succ, h.fwdProp_eq, h.backProp_eq]
    simp only [ih]

theorem SameLaws.solvePhase_eq (h : SameLaws t s) (cfg : Cfg α) (ph : String) :
    t.solvePhase cfg ph = s.solvePhase cfg ph := by
  unfold SSys.solvePhase SSys.solveRaw
  rw [h.init_eq]
  simp only [h.loop_eq]

theorem SameLaws.nameOf_eq (h : SameLaws t s) : t.nameOf = s.nameOf := by
  funext n
  unfold SSys.nameOf
  rcases h.node n with ⟨h1, h2⟩ | ⟨a, b, h1, h2, hl⟩
  · simp only [h1, h2]
  · simp only [h1, h2, hl.comp.name]

theorem SameLaws.parentName_eq (h : SameLaws t s) : t.parentName = s.parentName := by
  funext n
  unfold SSys.parentName
  rcases h.node n with ⟨h1, h2⟩ | ⟨a, b, h1, h2, hl⟩
  · simp only [h1, h2]
  · simp only [h1, h2, hl.parents, h.nameOf_eq]

theorem SameLaws.rootOf_eq (h : SameLaws t s) : ∀ (f n : Nat), t.rootOf f n = s.rootOf f n := by
  intro f
  induction f with
  | zero => intro n; rfl
  | succ f ih =>
    intro n
    rcases h.node n with ⟨h1, h2⟩ | ⟨a, b, h1, h2, hl⟩
    · simp only [SSys.rootOf, h1, h2]
    · simp only [SSys.rootOf, h1, h2, hl.parents, ih]

theorem SameLaws.findDomain_eq (h : SameLaws t s) : t.findDomain = s.findDomain := by
  funext n d v
  unfold SSys.findDomain
  rcases h.node n with ⟨h1, h2⟩ | ⟨a, b, h1, h2, hl⟩
  · simp only [h1, h2]
  · simp only [h1, h2, hl.parents, hl.comp.kind, hl.comp.name, h.nameOf_eq, h.rootOf_eq, h.hidx]

theorem NodeLaw.selOf {a b : SNode α} (hl : NodeLaw a b) (n : Nat) (v : Vec α) (st : St) :
    selOf a n v st = selOf b n v st := by
  unfold C16R.selOf
  simp only [hl.parents, hl.comp.priInp]

theorem NodeLaw.muxSelOf {a b : SNode α} (hl : NodeLaw a b) (n : Nat) (v : Vec α) (st : St) :
    muxSelOf a n v st = muxSelOf b n v st := by
  unfold C16R.muxSelOf
  simp only [hl.parents, hl.comp.priInp]

theorem SameLaws.pnOf_eq (h : SameLaws t s) {a b : SNode α} (hl : NodeLaw a b) (n : Nat) (v : Vec α) (st : St) :
    pnOf t a n v st = pnOf s b n v st := by
  unfold C16R.pnOf
  simp only [hl.parents, hl.muxSelOf, hl.selOf, h.nameOf_eq, h.parentName_eq]

theorem NodeLaw.viOf {a b : SNode α} (hl : NodeLaw a b) (n : Nat) (v i : Vec α) (st : St) :
    viOf a n v i st = viOf b n v i st := by
  unfold C16R.viOf
  simp only [hl.selOf, hl.comp.rs]

theorem SameLaws.ioOf_eq (h : SameLaws t s) {a b : SNode α} (hl : NodeLaw a b) (n : Nat) (v i : Vec α) (st : St) :
    ioOf t a n v i st = ioOf s b n v i st := by
  unfold C16R.ioOf
  simp only [hl.parents, hl.childs, h.childCurr_eq]

theorem find?_rail {l l' : List (Option (SNode α))} (h : List.Forall₂ OptLaw l l') (pn : String) :
    ((l.filterMap id).find? (fun x => x.comp.name == pn)).map (·.rail) =
      ((l'.filterMap id).find? (fun x => x.comp.name == pn)).map (·.rail) := by
  induction h with
  | nil => rfl
  | cons hab _ ih =>
    cases hab with
    | none => simpa using ih
    | some hl =>
      simp only [List.filterMap_cons, id, List.find?_cons, hl.comp.name]
      cases (_ == pn)
      · simpa using ih
      · simp [hl.rail]

theorem SameLaws.railInOf_eq (h : SameLaws t s) (pn : String) : railInOf t pn = railInOf s pn := by
  unfold C16R.railInOf
  have := find?_rail h.nodes pn
  cases h1 : (t.nodes.toList.filterMap id).find? (fun x => x.comp.name == pn) <;>
    cases h2 : (s.nodes.toList.filterMap id).find? (fun x => x.comp.name == pn) <;>
    simp only [h1, h2, Option.map_none, Option.map_some, Option.some.injEq, reduceCtorEq] at this <;>
    simp only [this]

theorem NodeLaw.mkRow {a b : SNode α} (hl : NodeLaw a b) (phases : List (String × α)) (ph : String) (ta : α)
    (dom : String) (vi vo ii io : α) (pn railIn : String) :
    mkRow phases a ph ta dom vi vo ii io pn railIn = mkRow phases b ph ta dom vi vo ii io pn railIn := by
  unfold C16R.mkRow
  simp only [hl.comp.loss, hl.comp.warns, hl.comp.kind, hl.comp.name, hl.pconf, hl.group, hl.rail]

theorem SameLaws.compRow_eq (h : SameLaws t s) : t.compRow = s.compRow := by
  funext ph ta v i st n d
  rcases h.node n with ⟨h1, h2⟩ | ⟨a, b, h1, h2, hl⟩
  · unfold SSys.compRow; simp only [h1, h2]
  · rw [C16R.compRow_eq t ph ta v i st h1, C16R.compRow_eq s ph ta v i st h2, h.findDomain_eq, h.phases,
      hl.viOf, h.ioOf_eq hl, h.pnOf_eq hl, h.railInOf_eq, hl.mkRow]

theorem SameLaws.compRows_eq (h : SameLaws t s) : t.compRows = s.compRows := by
  funext ph ta v i st
  unfold SSys.compRows
  rw [h.topo, h.compRow_eq]
  congr 1
  apply List.foldl_ext
  intro acc n _
  rcases h.node n with ⟨h1, h2⟩ | ⟨a, b, h1, h2, hl⟩
  · simp only [h1, h2]
  · simp only [h1, h2, hl.parents]

theorem SameLaws.phaseTable_eq (h : SameLaws t s) : t.phaseTable = s.phaseTable := by
  funext ph ta v i st
  unfold SSys.phaseTable
  rw [h.compRows_eq, h.phases]

/-- **a system whose components are replaced by components with the same laws gives the same `solve()`**: the
    very same `Except` value (table or exception) -/
theorem SameLaws.solve_eq (h : SameLaws t s) (cfg : Cfg α) (pa : String) (ta : α) :
    t.solve cfg pa ta = s.solve cfg pa ta := by
  unfold SSys.solve SSys.assemble
  rw [h.phases, h.phaseTable_eq]
  simp only [h.solvePhase_eq]

end same

/-! ### 4. the node list in another order: a renumbering -/

section desc

theorem names_length (s : SysDesc α) : s.names.length = s.nodes.length := by simp [SysDesc.names]

theorem names_getElem (s : SysDesc α) {k : Nat} (hk : k < s.nodes.length) :
    s.names[k]'(by rw [names_length]; exact hk) = s.nodes[k].name := by simp [SysDesc.names]

theorem name_mem (s : SysDesc α) {n : Node α} (hn : n ∈ s.nodes) : n.name ∈ s.names :=
  List.mem_map_of_mem hn

theorem toSSys_node? (s : SysDesc α) (topo : List String) (k : Nat) :
    (s.toSSys topo).node? k = (s.nodes[k]?).map s.snode := by
  unfold SSys.node? SysDesc.toSSys
  simp only [Array.getD_eq_getD_getElem?, List.getElem?_toArray, List.getElem?_map]
  cases s.nodes[k]? <;> rfl

theorem toSSys_node_lt (s : SysDesc α) (topo : List String) {k : Nat} (hk : k < s.nodes.length) :
    (s.toSSys topo).node? k = some (s.snode s.nodes[k]) := by
  rw [toSSys_node?, List.getElem?_eq_getElem hk]; rfl

theorem toSSys_node_some {s : SysDesc α} {topo : List String} {k : Nat} {nd : SNode α}
    (h : (s.toSSys topo).node? k = some nd) : ∃ hk : k < s.nodes.length, nd = s.snode s.nodes[k] := by
  rw [toSSys_node?] at h
  cases hn : s.nodes[k]? with
  | none => rw [hn] at h; cases h
  | some N =>
    rw [hn] at h
    obtain ⟨hk, hN⟩ := List.getElem?_eq_some_iff.mp hn
    refine ⟨hk, ?_⟩
    simp only [Option.map_some, Option.some.injEq] at h
    rw [hN, h]

theorem idOf_lt {s : SysDesc α} {x : String} : s.idOf x < s.nodes.length ↔ x ∈ s.names := by
  unfold SysDesc.idOf
  rw [← names_length]
  exact List.idxOf_lt_length_iff

theorem idOf_name {s : SysDesc α} (hnd : s.names.Nodup) {k : Nat} (hk : k < s.nodes.length) :
    s.idOf s.nodes[k].name = k := by
  unfold SysDesc.idOf
  have := hnd.idxOf_getElem k (by rw [names_length]; exact hk)
  rwa [names_getElem s hk] at this

theorem node_idOf {s : SysDesc α} {x : String} (hx : x ∈ s.names) :
    ∃ hk : s.idOf x < s.nodes.length, s.nodes[s.idOf x].name = x := by
  have hk := idOf_lt.mpr hx
  refine ⟨hk, ?_⟩
  rw [← names_getElem s hk]
  exact List.getElem_idxOf _

theorem idOf_inj {s : SysDesc α} {x y : String} (hx : x ∈ s.names) (e : s.idOf x = s.idOf y) : x = y :=
  (List.idxOf_inj hx).mp e

theorem idx_eq_of_name_eq {s : SysDesc α} (hnd : s.names.Nodup) {n m : Nat} (hn : n < s.nodes.length)
    (hm : m < s.nodes.length) (e : s.nodes[n].name = s.nodes[m].name) : n = m := by
  rw [← idOf_name hnd hn, ← idOf_name hnd hm, e]

/-- the renumbering: position in `s` ↦ position of the component with the same name in `s'` -/
def renum (s s' : SysDesc α) (k : Nat) : Nat := s'.idOf ((s.names[k]?).getD "")

theorem renum_lt (s s' : SysDesc α) {k : Nat} (hk : k < s.nodes.length) :
    renum s s' k = s'.idOf s.nodes[k].name := by
  unfold renum
  have hk' : k < s.names.length := by rw [names_length]; exact hk
  rw [List.getElem?_eq_getElem hk', Option.getD_some, names_getElem s hk]

theorem toSSys_topo_iff {s : SysDesc α} (hnd : s.names.Nodup) {topo : List String}
    (ht : ∀ x, x ∈ topo ↔ x ∈ s.names) (n : Nat) :
    n ∈ (s.toSSys topo).topo ↔ ∃ nd, (s.toSSys topo).node? n = some nd := by
  show n ∈ topo.map s.idOf ↔ _
  constructor
  · intro hn
    obtain ⟨x, hx, rfl⟩ := List.mem_map.mp hn
    exact ⟨_, toSSys_node_lt s topo (idOf_lt.mpr ((ht x).mp hx))⟩
  · rintro ⟨nd, hn⟩
    obtain ⟨hk, -⟩ := toSSys_node_some hn
    exact List.mem_map.mpr ⟨s.nodes[n].name, (ht _).mpr (name_mem s (List.getElem_mem hk)), idOf_name hnd hk⟩

theorem childrenOf_perm {s sl : SysDesc α} (hp : sl.nodes.Perm s.nodes) (x : String) :
    (childrenOf sl x).Perm (childrenOf s x) := by
  unfold childrenOf
  exact (List.reverse_perm _).trans ((hp.filter _).trans (List.reverse_perm _).symm)

/-- **a description with its node list permuted is a renumbering of the solver-level system** (equal components) -/
theorem perm_iso {s sl : SysDesc α} (hp : sl.nodes.Perm s.nodes) (hnd : s.names.Nodup)
    (hpc : sl.phaseConf = s.phaseConf) (hg : sl.groups = s.groups) (hr : sl.rails = s.rails)
    (hph : sl.phases = s.phases) (hpe : ∀ n ∈ s.nodes, ∀ p ∈ n.parents, p ∈ s.names)
    {topo topo' : List String} (ht : ∀ x, x ∈ topo ↔ x ∈ s.names) (ht' : ∀ x, x ∈ topo' ↔ x ∈ s.names) :
    Iso (renum s sl) (s.toSSys topo) (sl.toSSys topo') := by
  have hpn : sl.names.Perm s.names := hp.map _
  have hnd' : sl.names.Nodup := hpn.nodup_iff.mpr hnd
  have hmem : ∀ x, x ∈ sl.names ↔ x ∈ s.names := fun x => hpn.mem_iff
  have hσid : ∀ x, x ∈ s.names → renum s sl (s.idOf x) = sl.idOf x := by
    intro x hx
    obtain ⟨hk, hname⟩ := node_idOf hx
    rw [renum_lt s sl hk, hname]
  have hat : ∀ k (hk : k < s.nodes.length),
      (sl.toSSys topo').node? (renum s sl k) = some (sl.snode s.nodes[k]) := by
    intro k hk
    have hN : s.nodes[k] ∈ sl.nodes := hp.mem_iff.mpr (List.getElem_mem hk)
    obtain ⟨hk', hname⟩ := node_idOf (name_mem sl hN)
    rw [renum_lt s sl hk, toSSys_node_lt sl topo' hk',
      node_ext_of_nodup sl hnd' (List.getElem_mem hk') hN hname]
  refine ⟨?_, ?_, ?_, toSSys_topo_iff hnd ht, toSSys_topo_iff hnd' (fun x => (ht' x).trans (hmem x).symm), ?_, ?_, ?_⟩
  · intro n m nd md hn hm e
    obtain ⟨hkn, -⟩ := toSSys_node_some hn
    obtain ⟨hkm, -⟩ := toSSys_node_some hm
    rw [renum_lt s sl hkn, renum_lt s sl hkm] at e
    exact idx_eq_of_name_eq hnd hkn hkm
      (idOf_inj ((hmem _).mpr (name_mem s (List.getElem_mem hkn))) e)
  · intro n nd hn
    obtain ⟨hk, rfl⟩ := toSSys_node_some hn
    refine ⟨_, hat n hk, rfl, ?_, ?_, ?_, ?_, ?_⟩
    · show sl.pconfOf _ = s.pconfOf _
      unfold SysDesc.pconfOf; rw [hpc]
    · show regStr sl.groups _ = regStr s.groups _
      rw [hg]
    · show regStr sl.rails _ = regStr s.rails _
      rw [hr]
    · show s.nodes[n].parents.map sl.idOf = (s.nodes[n].parents.map s.idOf).map (renum s sl)
      rw [List.map_map]
      apply List.map_congr_left
      intro p hp'
      exact (hσid p (hpe _ (List.getElem_mem hk) p hp')).symm
    · show ((childrenOf sl s.nodes[n].name).map fun c => sl.idOf c.name).Perm
        (((childrenOf s s.nodes[n].name).map fun c => s.idOf c.name).map (renum s sl))
      rw [List.map_map]
      refine ((childrenOf_perm hp _).map _).trans ?_
      apply List.Perm.of_eq
      apply List.map_congr_left
      intro c hc
      exact (hσid c.name (name_mem s ((mem_childrenOf s _ c).mp hc).1)).symm
  · intro m nd' hm
    obtain ⟨hk', rfl⟩ := toSSys_node_some hm
    have hx : sl.nodes[m].name ∈ s.names := (hmem _).mp (name_mem sl (List.getElem_mem hk'))
    obtain ⟨hk, hname⟩ := node_idOf hx
    refine ⟨s.idOf sl.nodes[m].name, _, toSSys_node_lt s topo hk, ?_⟩
    rw [hσid _ hx]
    exact idOf_name hnd' hk'
  · intro n nd hn p hp'
    obtain ⟨hk, rfl⟩ := toSSys_node_some hn
    obtain ⟨q, hq, rfl⟩ := List.mem_map.mp hp'
    exact ⟨_, toSSys_node_lt s topo (idOf_lt.mpr (hpe _ (List.getElem_mem hk) q hq))⟩
  · intro n nd hn c hc
    obtain ⟨hk, rfl⟩ := toSSys_node_some hn
    obtain ⟨cn, hcn, rfl⟩ := List.mem_map.mp hc
    exact ⟨_, toSSys_node_lt s topo (idOf_lt.mpr (name_mem s ((mem_childrenOf s _ cn).mp hcn).1))⟩
  · show pvPhases sl.phases = pvPhases s.phases
    rw [hph]

/-! ### 5. node lists that agree position by position up to `CompEquiv` -/

theorem forall₂_map_eq {β γ δ : Type} {R : β → γ → Prop} {f : β → δ} {g : γ → δ} {l : List β} {l' : List γ}
    (h : List.Forall₂ R l l') (hfg : ∀ a b, R a b → f a = g b) : l.map f = l'.map g := by
  induction h with
  | nil => rfl
  | cons hab _ ih => simp only [List.map_cons, hfg _ _ hab, ih]

theorem forall₂_filter_map_eq {β γ δ : Type} {R : β → γ → Prop} {f : β → δ} {g : γ → δ} {p : β → Bool}
    {q : γ → Bool} {l : List β} {l' : List γ} (h : List.Forall₂ R l l')
    (hfg : ∀ a b, R a b → f a = g b) (hpq : ∀ a b, R a b → p a = q b) :
    (l.filter p).map f = (l'.filter q).map g := by
  induction h with
  | nil => rfl
  | cons hab _ ih =>
    simp only [List.filter_cons, hpq _ _ hab]
    split_ifs
    · simp only [List.map_cons, hfg _ _ hab, ih]
    · exact ih

/-- node for node `NodeEquiv` and the same interpolator -/
def NodeAgree (n' n : Node α) : Prop :=
  NodeEquiv n' n ∧ ∀ x y, n'.comp.par.interp x y = n.comp.par.interp x y

theorem NodeAgree.name {n' n : Node α} (h : NodeAgree n' n) : n'.name = n.name := h.1.1.name

/-- **descriptions that agree node by node up to `CompEquiv` (and in their interpolators) give solver-level systems
    with the same laws** -/
theorem sameLaws_of_nodeAgree {s' sl : SysDesc α} (hF : List.Forall₂ NodeAgree s'.nodes sl.nodes)
    (hpc : s'.phaseConf = sl.phaseConf) (hg : s'.groups = sl.groups) (hr : s'.rails = sl.rails)
    (hph : s'.phases = sl.phases) (topo : List String) :
    SameLaws (s'.toSSys topo) (sl.toSSys topo) := by
  have hnames : s'.names = sl.names := forall₂_map_eq hF fun a b hab => hab.name
  have hid : s'.idOf = sl.idOf := by
    funext x; unfold SysDesc.idOf; rw [hnames]
  have hch : ∀ x, (childrenOf s' x).map Node.name = (childrenOf sl x).map Node.name := by
    intro x
    unfold childrenOf
    rw [List.map_reverse, List.map_reverse]
    congr 1
    exact forall₂_filter_map_eq hF (fun a b hab => hab.name) (fun a b hab => by rw [hab.1.2])
  refine ⟨?_, ?_, ?_⟩
  · show List.Forall₂ OptLaw (s'.nodes.map fun n => some (s'.snode n)) (sl.nodes.map fun n => some (sl.snode n))
    rw [List.forall₂_map_left_iff, List.forall₂_map_right_iff]
    refine hF.imp ?_
    intro n' n hab
    refine OptLaw.some ⟨compEquiv_laws hab.1.1 hab.2, ?_, ?_, ?_, ?_, ?_⟩
    · show n'.parents.map s'.idOf = n.parents.map sl.idOf
      rw [hab.1.2, hid]
    · show (childrenOf s' n'.name).map (fun c => s'.idOf c.name) = (childrenOf sl n.name).map (fun c => sl.idOf c.name)
      have e1 : (childrenOf s' n'.name).map (fun c => s'.idOf c.name) =
          ((childrenOf s' n'.name).map Node.name).map s'.idOf := by rw [List.map_map]; rfl
      have e2 : (childrenOf sl n.name).map (fun c => sl.idOf c.name) =
          ((childrenOf sl n.name).map Node.name).map sl.idOf := by rw [List.map_map]; rfl
      rw [e1, e2, hab.name, hch, hid]
    · show s'.pconfOf n'.name = sl.pconfOf n.name
      unfold SysDesc.pconfOf; rw [hab.name, hpc]
    · show regStr s'.groups n'.name = regStr sl.groups n.name
      rw [hab.name, hg]
    · show regStr s'.rails n'.name = regStr sl.rails n.name
      rw [hab.name, hr]
  · show topo.map s'.idOf = topo.map sl.idOf
    rw [hid]
  · show pvPhases s'.phases = pvPhases sl.phases
    rw [hph]

/-! ### 6. the table hypotheses, from the description -/

/-- what `TableWF` and `Iso` need of a description (part of `DescWF`): distinct names, parents are components,
    only Sources are roots -/
structure SolveWF (s : SysDesc α) : Prop where
  nodup : s.names.Nodup
  parentsExist : ∀ n ∈ s.nodes, ∀ p ∈ n.parents, p ∈ s.names
  roots : ∀ n ∈ s.nodes, n.parents = [] → n.comp.kind = .source

/-- `topo` (rustworkx's topological order, a parameter) lists every component once, parents first -/
structure TopoOK (topo : List String) (s : SysDesc α) : Prop where
  nodup : topo.Nodup
  mem : ∀ x, x ∈ topo ↔ x ∈ s.names
  order : ∀ n ∈ s.nodes, ∀ p ∈ n.parents, topo.idxOf p < topo.idxOf n.name

theorem DescWF.solveWF {topo : List String} {s : SysDesc α} (h : DescWF topo s) : SolveWF s :=
  ⟨h.nodup, h.parentsExist, fun n hn hp => (h.sourceIff n hn).mpr hp⟩

theorem DescWF.topoOK {topo : List String} {s : SysDesc α} (h : DescWF topo s) : TopoOK topo s :=
  ⟨h.topoPerm.nodup_iff.mpr h.nodup, fun x => h.topoPerm.mem_iff, h.topoOrder⟩

theorem toSSys_tableWF {s : SysDesc α} {topo : List String} (hw : SolveWF s) (ht : TopoOK topo s) :
    TableWF (s.toSSys topo) := by
  refine ⟨?_, ?_, ?_, ?_⟩
  · intro n m nd md hn hm e
    obtain ⟨hkn, rfl⟩ := toSSys_node_some hn
    obtain ⟨hkm, rfl⟩ := toSSys_node_some hm
    exact idx_eq_of_name_eq hw.nodup hkn hkm e
  · show (topo.map s.idOf).Nodup
    refine List.Nodup.map_on ?_ ht.nodup
    intro x hx y _ e
    exact idOf_inj ((ht.mem x).mp hx) e
  · intro pre k post hsplit nd p rest hn hpar
    obtain ⟨hk, rfl⟩ := toSSys_node_some hn
    have hsplit' : topo.map s.idOf = pre ++ k :: post := hsplit
    obtain ⟨tpre, trest, htopo, hpre, hrest⟩ := List.map_eq_append_iff.mp hsplit'
    obtain ⟨x, tpost, hrest', hxk, -⟩ := List.map_eq_cons_iff.mp hrest
    subst hrest'
    have hxmem : x ∈ s.names := (ht.mem x).mp (by rw [htopo]; simp)
    have hx : x = s.nodes[k].name := idOf_inj hxmem (by rw [hxk, idOf_name hw.nodup hk])
    have hpar' : s.nodes[k].parents.map s.idOf = p :: rest := hpar
    obtain ⟨q, qrest, hq, hqp, -⟩ := List.map_eq_cons_iff.mp hpar'
    have hlt := ht.order _ (List.getElem_mem hk) q (by rw [hq]; simp)
    have hnd := ht.nodup
    rw [htopo] at hlt hnd
    have hxnot : x ∉ tpre := fun hm => (List.nodup_append.mp hnd).2.2 x hm x (by simp) rfl
    rw [← hx, List.idxOf_append_of_notMem hxnot, List.idxOf_cons_self] at hlt
    have hqin : q ∈ tpre := by
      by_contra hq'
      rw [List.idxOf_append_of_notMem hq'] at hlt
      omega
    rw [← hpre, ← hqp]
    exact List.mem_map_of_mem hqin
  · intro n nd hn hpar
    obtain ⟨hk, rfl⟩ := toSSys_node_some hn
    have : s.nodes[n].parents.map s.idOf = [] := hpar
    exact hw.roots _ (List.getElem_mem hk) (List.map_eq_nil_iff.mp this)

/-- no two components carry the same non-empty rail name (`_chk_name`: "Rail name … is already used!") -/
def DescRailsUnique (s : SysDesc α) : Prop :=
  ∀ n ∈ s.nodes, ∀ m ∈ s.nodes, regStr s.rails n.name = regStr s.rails m.name → regStr s.rails n.name ≠ "" →
    n.name = m.name

theorem toSSys_railsUnique {s : SysDesc α} (hnd : s.names.Nodup) (hu : DescRailsUnique s) (topo : List String) :
    RailsUnique (s.toSSys topo) := by
  intro n m nd md hn hm e hne
  obtain ⟨hkn, rfl⟩ := toSSys_node_some hn
  obtain ⟨hkm, rfl⟩ := toSSys_node_some hm
  exact idx_eq_of_name_eq hnd hkn hkm (hu _ (List.getElem_mem hkn) _ (List.getElem_mem hkm) e hne)

/-! ### 7. renumbering up to the laws -/

theorem LawEq.symm {c' c : Comp α} (h : LawEq c' c) : LawEq c c' :=
  ⟨h.name.symm, h.kind.symm, h.rs.symm, fun a b c d => (h.outp a b c d).symm, fun a b c d => (h.inp a b c d).symm,
   fun a b c d e f => (h.loss a b c d e f).symm, fun a b c d e f => (h.warns a b c d e f).symm,
   fun a => (h.initVolt a).symm, fun a => (h.initCurr a).symm, fun a => (h.initOff a).symm⟩

theorem SameLaws.tableWF {t s : SSys α} (h : SameLaws t s) (hw : TableWF t) : TableWF s := by
  have hsome : ∀ n nd, s.node? n = some nd → ∃ a, t.node? n = some a ∧ NodeLaw a nd := by
    intro n nd hn
    rcases h.node n with ⟨_, h2⟩ | ⟨a, b, h1, h2, hl⟩
    · rw [h2] at hn; cases hn
    · rw [h2] at hn; cases hn; exact ⟨a, h1, hl⟩
  refine ⟨?_, ?_, ?_, ?_⟩
  · intro n m nd md hn hm e
    obtain ⟨a, ha, hla⟩ := hsome n nd hn
    obtain ⟨b, hb, hlb⟩ := hsome m md hm
    exact hw.names n m a b ha hb (by rw [hla.comp.name, hlb.comp.name, e])
  · rw [← h.topo]; exact hw.nodup
  · intro pre n post hsplit nd p rest hn hpar
    obtain ⟨a, ha, hla⟩ := hsome n nd hn
    exact hw.order pre n post (by rw [h.topo]; exact hsplit) a p rest ha (by rw [hla.parents]; exact hpar)
  · intro n nd hn hpar
    obtain ⟨a, ha, hla⟩ := hsome n nd hn
    rw [← hla.comp.kind]
    exact hw.roots n a ha (by rw [hla.parents]; exact hpar)

/-- `b` is `a` with its node ids renamed by `σ` and every component replaced by one with the same laws
    (`C16R.Iso` demands EQUAL components; `CompEquiv` is weaker: this is the relation `from_file(save(S))` satisfies) -/
def IsoUpTo (σ : Nat → Nat) (a b : SSys α) : Prop := ∃ m, Iso σ a m ∧ SameLaws b m

theorem IsoUpTo.of_iso {σ : Nat → Nat} {a b : SSys α} (h : Iso σ a b) : IsoUpTo σ a b := by
  refine ⟨b, h, ?_, rfl, rfl⟩
  generalize b.nodes.toList = l
  induction l with
  | nil => exact .nil
  | cons o l ih =>
    refine .cons ?_ ih
    cases o with
    | none => exact .none
    | some nd => exact .some ⟨LawEq.refl _, rfl, rfl, rfl, rfl, rfl⟩

/-- `C16R.solve_renumber` through `IsoUpTo` -/
theorem IsoUpTo.solve {σ : Nat → Nat} {a b : SSys α} (h : IsoUpTo σ a b) (hwa : TableWF a) (hwb : TableWF b)
    (cfg : Cfg α) (hatol : 0 ≤ cfg.atol) (pa : String) (ta : α) (T : Table α) (hT : a.solve cfg pa ta = .ok T) :
    ∃ T', b.solve cfg pa ta = .ok T' ∧
      List.Forall₂ (fun p p' => p'.1 = p.1 ∧ PTRel p.2 p'.2) T.phases T'.phases ∧ T'.avg = T.avg := by
  obtain ⟨m, hi, hs⟩ := h
  rw [hs.solve_eq]
  exact solve_renumber hi hwa (hs.tableWF hwb) cfg hatol pa ta T hT

/-- `C16R.solve_renumber_error` through `IsoUpTo` -/
theorem IsoUpTo.solve_error {σ : Nat → Nat} {a b : SSys α} (h : IsoUpTo σ a b)
    (cfg : Cfg α) (hatol : 0 ≤ cfg.atol) (pa : String) (ta : α) (e : Err) (he : a.solve cfg pa ta = .error e) :
    ∃ e', b.solve cfg pa ta = .error e' ∧ (b.topo = a.topo.map σ → e' = e) := by
  obtain ⟨m, hi, hs⟩ := h
  rw [hs.solve_eq, hs.topo]
  exact solve_renumber_error hi cfg hatol pa ta e he

/-- `C16R.rail_rep_renumber` through `IsoUpTo` -/
theorem IsoUpTo.rail_rep {σ : Nat → Nat} {a b : SSys α} (h : IsoUpTo σ a b) (hwa : TableWF a) (hwb : TableWF b)
    (hu : RailsUnique a) (cfg : Cfg α) (hatol : 0 ≤ cfg.atol) (pa : String) (ta : α) (T : Table α)
    (hT : a.solve cfg pa ta = .ok T) :
    ∃ T', b.solve cfg pa ta = .ok T' ∧ RailPerm (railRep T) (railRep T') := by
  obtain ⟨m, hi, hs⟩ := h
  rw [hs.solve_eq]
  exact rail_rep_renumber hi hwa (hs.tableWF hwb) hu cfg hatol pa ta T hT

/-! ### 8. `SysEquiv` descriptions -/

theorem forall₂_mem {β γ : Type} {R : β → γ → Prop} {l : List β} {l' : List γ} (h : List.Forall₂ R l l') :
    List.Forall₂ (fun a b => R a b ∧ a ∈ l ∧ b ∈ l') l l' := by
  induction h with
  | nil => exact .nil
  | cons hab _ ih =>
    exact .cons ⟨hab, by simp, by simp⟩ (ih.imp fun a b h => ⟨h.1, by simp [h.2.1], by simp [h.2.2]⟩)

theorem forall₂_exists_right {β γ : Type} {R : β → γ → Prop} {l : List β} {l' : List γ} (h : List.Forall₂ R l l')
    {a : β} (ha : a ∈ l) : ∃ b ∈ l', R a b := by
  induction h with
  | nil => simp at ha
  | cons hab _ ih =>
    rcases List.mem_cons.mp ha with rfl | ha
    · exact ⟨_, by simp, hab⟩
    · obtain ⟨b, hb, hr⟩ := ih ha
      exact ⟨b, by simp [hb], hr⟩

/-- the two descriptions have the same interpolator under every name (`CompEquiv` leaves the diagonal choice of a
    2-D table free) -/
def InterpAgree (s' s : SysDesc α) : Prop :=
  ∀ n' ∈ s'.nodes, ∀ n ∈ s.nodes, n'.name = n.name → ∀ x y, n'.comp.par.interp x y = n.comp.par.interp x y

theorem SysEquiv.exists_node {s' s : SysDesc α} (he : SysEquiv s' s) {n' : Node α} (hn' : n' ∈ s'.nodes) :
    ∃ n ∈ s.nodes, NodeEquiv n' n := by
  obtain ⟨l, hl, hF⟩ := he.nodes
  obtain ⟨n, hn, hr⟩ := forall₂_exists_right hF hn'
  exact ⟨n, hl.mem_iff.mp hn, hr⟩

theorem SysEquiv.names_perm {s' s : SysDesc α} (he : SysEquiv s' s) : s'.names.Perm s.names := by
  obtain ⟨l, hl, hF⟩ := he.nodes
  have : s'.names = l.map Node.name := forall₂_map_eq hF fun a b hab => hab.1.name
  rw [this]
  exact hl.map _

theorem SysEquiv.solveWF {s' s : SysDesc α} (he : SysEquiv s' s) (hw : SolveWF s) : SolveWF s' := by
  refine ⟨he.names_perm.nodup_iff.mpr hw.nodup, ?_, ?_⟩
  · intro n' hn' p hp
    obtain ⟨n, hn, hr⟩ := he.exists_node hn'
    rw [hr.2] at hp
    exact he.names_perm.mem_iff.mpr (hw.parentsExist n hn p hp)
  · intro n' hn' hp
    obtain ⟨n, hn, hr⟩ := he.exists_node hn'
    rw [hr.2] at hp
    rw [hr.1.kind]
    exact hw.roots n hn hp

theorem SysEquiv.topoOK {s' s : SysDesc α} (he : SysEquiv s' s) {topo : List String} (ht : TopoOK topo s) :
    TopoOK topo s' := by
  refine ⟨ht.nodup, fun x => (ht.mem x).trans he.names_perm.mem_iff.symm, ?_⟩
  intro n' hn' p hp
  obtain ⟨n, hn, hr⟩ := he.exists_node hn'
  rw [hr.2] at hp
  have : n'.name = n.name := hr.1.name
  rw [this]
  exact ht.order n hn p hp

/-- **the bridge from `SysEquiv` to a renumbering** (task item 2).  Partial in one respect only: `CompEquiv` does not
    fix the diagonal choice of 2-D tables (a model parameter), so the interpolators are assumed to agree
    (`InterpAgree`); the limits on non-applicable keys, which `CompEquiv` also leaves free, need no hypothesis. -/
theorem sysEquiv_isoUpTo_partial {s' s : SysDesc α} (he : SysEquiv s' s) (hw : SolveWF s) (hia : InterpAgree s' s)
    {topo topo' : List String} (ht : ∀ x, x ∈ topo ↔ x ∈ s.names) (ht' : ∀ x, x ∈ topo' ↔ x ∈ s.names) :
    IsoUpTo (renum s s') (s.toSSys topo) (s'.toSSys topo') := by
  obtain ⟨l, hl, hF⟩ := he.nodes
  let sl : SysDesc α := { s with nodes := l }
  have hnames : s'.names = sl.names := forall₂_map_eq hF fun a b hab => hab.1.name
  have hren : renum s s' = renum s sl := by
    funext k; unfold renum SysDesc.idOf; rw [hnames]
  have hA : List.Forall₂ NodeAgree s'.nodes sl.nodes := by
    refine (forall₂_mem hF).imp ?_
    intro n' n h
    exact ⟨h.1, hia n' h.2.1 n (hl.mem_iff.mp h.2.2) h.1.1.name⟩
  refine ⟨sl.toSSys topo', ?_, ?_⟩
  · rw [hren]
    exact perm_iso (sl := sl) hl hw.nodup rfl rfl rfl rfl hw.parentsExist ht ht'
  · exact sameLaws_of_nodeAgree hA he.phaseConf he.groups he.rails he.phases topo'

/-- the bridge under the extra hypothesis that equivalent components are EQUAL (same stored limits list, same diagonal
    annotation): then a plain `C16R.Iso` holds.  Not applicable to `from_file(save(S))` in general — the loader
    always normalises the limits list (`reloaded`), see the example `eSysR` below. -/
theorem sysEquiv_iso_partial {s' s : SysDesc α} (he : SysEquiv s' s) (hw : SolveWF s)
    (hEq : ∀ n' ∈ s'.nodes, ∀ n ∈ s.nodes, n'.name = n.name → n'.comp = n.comp)
    {topo topo' : List String} (ht : ∀ x, x ∈ topo ↔ x ∈ s.names) (ht' : ∀ x, x ∈ topo' ↔ x ∈ s.names) :
    Iso (renum s s') (s.toSSys topo) (s'.toSSys topo') := by
  obtain ⟨l, hl, hF⟩ := he.nodes
  have hnodes : s'.nodes = l := by
    rw [← List.forall₂_eq_eq_eq]
    refine (forall₂_mem hF).imp ?_
    intro n' n h
    have hc := hEq n' h.2.1 n (hl.mem_iff.mp h.2.2) h.1.1.name
    have hp := h.1.2
    cases n'; cases n
    simp only at hc hp
    rw [hc, hp]
  exact perm_iso (by rw [hnodes]; exact hl) hw.nodup he.phaseConf he.groups he.rails he.phases hw.parentsExist ht ht'

/-- **equivalent descriptions solve to the same table up to row order** -/
theorem sysEquiv_same_table_partial {s' s : SysDesc α} (he : SysEquiv s' s) (hw : SolveWF s)
    (hia : InterpAgree s' s) {topo topo' : List String} (ht : TopoOK topo s) (ht' : TopoOK topo' s)
    (cfg : Cfg α) (hatol : 0 ≤ cfg.atol) (pa : String) (ta : α) (T : Table α)
    (hT : (s.toSSys topo).solve cfg pa ta = .ok T) :
    ∃ T', (s'.toSSys topo').solve cfg pa ta = .ok T' ∧
      List.Forall₂ (fun p p' => p'.1 = p.1 ∧ PTRel p.2 p'.2) T.phases T'.phases ∧ T'.avg = T.avg :=
  (sysEquiv_isoUpTo_partial he hw hia ht.mem ht'.mem).solve (toSSys_tableWF hw ht)
    (toSSys_tableWF (he.solveWF hw) (he.topoOK ht')) cfg hatol pa ta T hT

/-- … and raise together -/
theorem sysEquiv_same_error_partial {s' s : SysDesc α} (he : SysEquiv s' s) (hw : SolveWF s)
    (hia : InterpAgree s' s) {topo topo' : List String} (ht : TopoOK topo s) (ht' : TopoOK topo' s)
    (cfg : Cfg α) (hatol : 0 ≤ cfg.atol) (pa : String) (ta : α) (e : Err)
    (hE : (s.toSSys topo).solve cfg pa ta = .error e) :
    ∃ e', (s'.toSSys topo').solve cfg pa ta = .error e' ∧
      ((s'.toSSys topo').topo = (s.toSSys topo).topo.map (renum s s') → e' = e) :=
  (sysEquiv_isoUpTo_partial he hw hia ht.mem ht'.mem).solve_error cfg hatol pa ta e hE

/-- **equivalent descriptions give the same rail report** up to the order of the rows and of the warning texts -/
theorem sysEquiv_same_rail_rep_partial {s' s : SysDesc α} (he : SysEquiv s' s) (hw : SolveWF s)
    (hia : InterpAgree s' s) (hu : DescRailsUnique s) {topo topo' : List String} (ht : TopoOK topo s)
    (ht' : TopoOK topo' s) (cfg : Cfg α) (hatol : 0 ≤ cfg.atol) (pa : String) (ta : α) (T : Table α)
    (hT : (s.toSSys topo).solve cfg pa ta = .ok T) :
    ∃ T', (s'.toSSys topo').solve cfg pa ta = .ok T' ∧ RailPerm (railRep T) (railRep T') :=
  (sysEquiv_isoUpTo_partial he hw hia ht.mem ht'.mem).rail_rep (toSSys_tableWF hw ht)
    (toSSys_tableWF (he.solveWF hw) (he.topoOK ht')) (toSSys_railsUnique hw.nodup hu topo) cfg hatol pa ta T hT

/-! ### 9. `from_file(save(S))` -/

/-- the description `from_file` returns for the saved document of `s`: every component `reloaded` (2-D tables
    without the diagonal annotation, applicable limits only), in the order of the layout -/
def reloadedDesc (topo : List String) (s : SysDesc α) : SysDesc α :=
  { name := s.name, nodes := (flatLayout (layoutOf topo s)).map rl, phases := s.phases,
    phaseConf := s.phaseConf, groups := s.groups, rails := s.rails }

/-- `Props/C12.roundtrip_partial` with the result spelled out -/
theorem roundtrip_explicit (ver : String) (topo : List String) (s : SysDesc α) (h : Saveable ver topo s)
    (hres : ∀ b ∈ layoutOf topo s, b.root.name ≠ "system") :
    fromFile ver (save ver topo s) = .ok (reloadedDesc topo s) := by
  obtain ⟨hn, _⟩ := layout_roots_fresh [] _ h.layout
  have hdoc := docOf_eq ver s (layoutOf topo s) hn hres
  have hblocks := loadBlocks_ok [] (layoutOf topo s) true (fun _ => rfl) (fun _ => h.sourceFirst) h.layout
  simp only [List.map_nil, List.nil_append] at hblocks
  have hlen : ¬ (layoutDoc (layoutOf topo s)).length + 1 ≤ 1 := by
    have : (layoutOf topo s).length ≠ 0 := fun e => h.nonempty (List.length_eq_zero_iff.mp e)
    simp only [layoutDoc, List.length_map]
    omega
  have e1 : getMand (save ver topo s) "system" = .ok (sysBlock ver s) := by
    rw [save, hdoc]; exact getMand_dict_some _ _ _ (by simp [List.lookup])
  have e2 : getMand (sysBlock ver s) "name" = .ok (.str s.name) :=
    getMand_dict_some _ _ _ (by simp [List.lookup])
  have e3 : getMand (sysBlock ver s) "version" = .ok (.str ver) :=
    getMand_dict_some _ _ _ (by simp [List.lookup])
  have e4 : getMand (sysBlock ver s) "phase_conf" = .ok s.phaseConf :=
    getMand_dict_some _ _ _ (by simp [List.lookup])
  have e5 : getOpt (sysBlock ver s) "phases" (.dict []) = .ok s.phases := by
    unfold sysBlock; rw [getOpt_dict]; simp [List.lookup]
  have e6 : getOpt (sysBlock ver s) "groups" (.dict []) = .ok s.groups := by
    unfold sysBlock; rw [getOpt_dict]; simp [List.lookup]
  have e7 : getOpt (sysBlock ver s) "rails" (.dict []) = .ok s.rails := by
    unfold sysBlock; rw [getOpt_dict]; simp [List.lookup]
  simp only [fromFile, e1, e2, e3, versionGate_self ver h.version, ex_bind_ok, bind, Except.bind]
  simp only [loadBody, e1, e2, ex_bind_ok, bind, Except.bind, pure, Except.pure]
  rw [save, hdoc]
  simp only [List.drop_one, List.tail_cons, hblocks, List.length_cons, if_neg hlen, e4, e5, e6, e7,
    backfill_nonempty _ _ h.groups, backfill_nonempty _ _ h.rails, strOf, reloadedDesc]

theorem reloadedDesc_equiv (ver : String) (topo : List String) (s : SysDesc α) (h : Saveable ver topo s) :
    SysEquiv (reloadedDesc topo s) s := by
  refine ⟨rfl, rfl, rfl, rfl, rfl, flatLayout (layoutOf topo s), h.complete, ?_⟩
  show List.Forall₂ NodeEquiv ((flatLayout (layoutOf topo s)).map rl) _
  rw [List.forall₂_map_left_iff]
  exact List.forall₂_same.mpr fun n _ => ⟨reloaded_equiv n.comp, rfl⟩

/-- the model carries scipy's diagonal choice for the cells of a 2-D table as an annotation (`__diag`) that the Python
    never sees and `save` therefore cannot write; the model's loader rebuilds 2-D tables with the default diagonal.
    `DiagInsensitive s`: the interpolators of `s` do not depend on that annotation (true for constants, 1-D tables,
    and 2-D tables that carry the default annotation) -/
def DiagInsensitive (s : SysDesc α) : Prop :=
  ∀ n ∈ s.nodes, ∀ x y, n.comp.par.dropDiag.interp x y = n.comp.par.interp x y

theorem diagInsensitive_of_dropDiag {s : SysDesc α} (h : ∀ n ∈ s.nodes, n.comp.par.dropDiag = n.comp.par) :
    DiagInsensitive s := fun n hn x y => by rw [h n hn]

theorem diagInsensitive_of_not_tab2 {s : SysDesc α}
    (h : ∀ n ∈ s.nodes, ∀ xs ys f d, n.comp.par ≠ .tab2 xs ys f d) : DiagInsensitive s := by
  apply diagInsensitive_of_dropDiag
  intro n hn
  cases hp : n.comp.par with
  | const c => rfl
  | tab1 xs fs => rfl
  | tab2 xs ys f d => exact absurd hp (h n hn xs ys f d)

theorem reloadedDesc_interpAgree (ver : String) (topo : List String) (s : SysDesc α) (h : Saveable ver topo s)
    (hnd : s.names.Nodup) (hd : DiagInsensitive s) : InterpAgree (reloadedDesc topo s) s := by
  intro n' hn' n hn hname x y
  obtain ⟨n0, hn0, rfl⟩ := List.mem_map.mp hn'
  have hn0' : n0 ∈ s.nodes := h.complete.mem_iff.mp hn0
  have : n0 = n := node_ext_of_nodup s hnd hn0' hn hname
  subst this
  exact hd n0 hn0' x y

/-- **C12 completed with C16: `from_file(save(S))` solves to the same table.**  For a well-formed description `s`
    (`DescWF`) whose top-level blocks are not called "system" (finding F15) and whose interpolators do not depend on
    the diagonal annotation: the saved document loads, the loaded description is `SysEquiv` to `s`, and — whatever
    topological orders `topo`, `topo'` rustworkx picks for the two systems — if `solve()` succeeds on `s` it succeeds
    on the reloaded system with, phase by phase, the same component rows and subsystem rows up to their order, equal
    "System total" rows and an equal "System average" row; if it raises on `s` it raises on the reloaded system (the
    same exception when the nodes are processed in the corresponding order). -/
theorem reload_same_table_partial (ver : String) (topo : List String) (s : SysDesc α) (h : DescWF topo s)
    (hv : (parseVer ver).isSome = true) (hg : s.groups ≠ .dict []) (hr : s.rails ≠ .dict [])
    (hres : ∀ n ∈ s.nodes, n.comp.kind = .source ∨ n.comp.kind = .pmux → n.name ≠ "system")
    (hd : DiagInsensitive s) {topo' : List String} (ht' : TopoOK topo' s)
    (cfg : Cfg α) (hatol : 0 ≤ cfg.atol) (pa : String) (ta : α) :
    ∃ s', fromFile ver (save ver topo s) = .ok s' ∧ SysEquiv s' s ∧
      (∀ T, (s.toSSys topo).solve cfg pa ta = .ok T →
        ∃ T', (s'.toSSys topo').solve cfg pa ta = .ok T' ∧
          List.Forall₂ (fun p p' => p'.1 = p.1 ∧ PTRel p.2 p'.2) T.phases T'.phases ∧ T'.avg = T.avg) ∧
      (∀ e, (s.toSSys topo).solve cfg pa ta = .error e →
        ∃ e', (s'.toSSys topo').solve cfg pa ta = .error e' ∧
          ((s'.toSSys topo').topo = (s.toSSys topo).topo.map (renum s s') → e' = e)) := by
  have hsv := saveable_of_wf ver topo s h hv hg hr
  have hres' : ∀ b ∈ layoutOf topo s, b.root.name ≠ "system" := by
    intro b hb
    refine hres b.root ?_ (layout_root_kinds [] _ hsv.layout b hb)
    apply hsv.complete.subset
    simp only [flatLayout, List.mem_flatMap]
    exact ⟨b, hb, by simp [Block.nodes]⟩
  have he := reloadedDesc_equiv ver topo s hsv
  have hia := reloadedDesc_interpAgree ver topo s hsv h.nodup hd
  refine ⟨reloadedDesc topo s, roundtrip_explicit ver topo s hsv hres', he, ?_, ?_⟩
  · intro T hT
    exact sysEquiv_same_table_partial he h.solveWF hia h.topoOK ht' cfg hatol pa ta T hT
  · intro e hE
    exact sysEquiv_same_error_partial he h.solveWF hia h.topoOK ht' cfg hatol pa ta e hE

/-- **… and to the same `rail_rep()`**: the rail report of the reloaded system consists of the rows of the original
    one, up to their order and the order of the distinct warning texts inside a row; every number is equal.
    Additionally `DescRailsUnique s` (no two components carry the same non-empty rail name: `_chk_name`). -/
theorem reload_same_rail_rep_partial (ver : String) (topo : List String) (s : SysDesc α) (h : DescWF topo s)
    (hv : (parseVer ver).isSome = true) (hg : s.groups ≠ .dict []) (hr : s.rails ≠ .dict [])
    (hres : ∀ n ∈ s.nodes, n.comp.kind = .source ∨ n.comp.kind = .pmux → n.name ≠ "system")
    (hd : DiagInsensitive s) (hu : DescRailsUnique s) {topo' : List String} (ht' : TopoOK topo' s)
    (cfg : Cfg α) (hatol : 0 ≤ cfg.atol) (pa : String) (ta : α) :
    ∃ s', fromFile ver (save ver topo s) = .ok s' ∧
      ∀ T, (s.toSSys topo).solve cfg pa ta = .ok T →
        ∃ T', (s'.toSSys topo').solve cfg pa ta = .ok T' ∧ RailPerm (railRep T) (railRep T') := by
  have hsv := saveable_of_wf ver topo s h hv hg hr
  have hres' : ∀ b ∈ layoutOf topo s, b.root.name ≠ "system" := by
    intro b hb
    refine hres b.root ?_ (layout_root_kinds [] _ hsv.layout b hb)
    apply hsv.complete.subset
    simp only [flatLayout, List.mem_flatMap]
    exact ⟨b, hb, by simp [Block.nodes]⟩
  have he := reloadedDesc_equiv ver topo s hsv
  have hia := reloadedDesc_interpAgree ver topo s hsv h.nodup hd
  refine ⟨reloadedDesc topo s, roundtrip_explicit ver topo s hsv hres', ?_⟩
  intro T hT
  exact sysEquiv_same_rail_rep_partial he h.solveWF hia hu h.topoOK ht' cfg hatol pa ta T hT

end desc

/-! ### 10. non-vacuity -/

/-- another topological order of `eSys` (and of `eSysR`): the reloaded system is processed in this order -/
def eTopo' : List String := ["S1", "A", "L1", "LA", "S2", "B", "M", "C", "LC", "LM"]

/-- a Source that was given a limit on a key that does not apply to it (finding F29: dropped by `save`) and a
    non-default applicable one -/
def eSrcLim (n : String) : Comp ℚ :=
  { name := n, kind := Kind.source, vo := 5, par := Param.const 0,
    limits := [("vi", (1, 2)), ("io", (0, 3))],
    params := [("name", PV.str n), ("vo", PV.float 5), ("rs", PV.float 0), ("rt", PV.float 0)] }

theorem eSrcLim_built (n : String) : Built (eSrcLim n) :=
  ⟨[("vo", .float 5), ("limits", .dict [("vi", .list [.float 1, .float 2]), ("io", .list [.float 0, .float 3])])], by
    simp [mkComp, req, arg, List.lookup, absArg, numArg, PV.num?, checkLimits, allLimitKeys, List.foldlM, eSrcLim,
      bind, Except.bind, pure, Except.pure]⟩

/-- `eSys` with groups, rails (`V1` on S1, `VA` on A, `VB` on B, `VM` on M), two phases, the mux active in "run" only,
    `LM` drawing 0.5 A in "run" and nothing in "sleep", and `S2` carrying a non-applicable limit -/
def eSysR : SysDesc ℚ :=
  SysDesc.ofParts "e"
    [(⟨wSrc "S1", []⟩, "g1", "V1", .list []), (⟨eLoss "A", ["S1"]⟩, "g1", "VA", .list []),
     (⟨eSrcLim "S2", []⟩, "g2", "", .list []), (⟨eLoss "B", ["S2"]⟩, "g2", "VB", .list []),
     (⟨eMux "M", ["A", "B"]⟩, "", "VM", .list [.str "run"]), (⟨eLoss "C", ["M"]⟩, "", "", .list []),
     (⟨eLoad "LC", ["C"]⟩, "", "", .dict []), (⟨eLoad "LM", ["M"]⟩, "", "", .dict [("run", .float (1/2))]),
     (⟨eLoad "LA", ["A"]⟩, "", "", .dict []), (⟨eLoad "L1", ["S1"]⟩, "", "", .dict [])]
    (.dict [("run", .float 10), ("sleep", .float 50)])

theorem eSysR_wf : DescWF eTopo eSysR where
  built := by
    intro n hn
    simp only [eSysR, SysDesc.ofParts, List.map_cons, List.map_nil, List.mem_cons, List.not_mem_nil, or_false] at hn
    rcases hn with rfl | rfl | rfl | rfl | rfl | rfl | rfl | rfl | rfl | rfl
    · exact wSrc_built _
    · exact eLoss_built _
    · exact eSrcLim_built _
    · exact eLoss_built _
    · exact eMux_built _
    · exact eLoss_built _
    · exact eLoad_built _
    · exact eLoad_built _
    · exact eLoad_built _
    · exact eLoad_built _
  named := by decide
  nodup := by decide
  nonempty := by simp [eSysR, SysDesc.ofParts]
  topoPerm := by decide
  topoOrder := by decide
  parentsExist := by decide
  parentsNodup := by decide
  sourceIff := by decide
  single := by decide
  oneMux := by decide
  loadsLeaf := by decide

theorem eSys_diag : DiagInsensitive eSys := by
  apply diagInsensitive_of_dropDiag
  intro n hn
  simp only [eSys, SysDesc.ofParts, List.map_cons, List.map_nil, List.mem_cons, List.not_mem_nil, or_false] at hn
  rcases hn with rfl | rfl | rfl | rfl | rfl | rfl | rfl | rfl | rfl | rfl <;> rfl

theorem eSysR_diag : DiagInsensitive eSysR := by
  apply diagInsensitive_of_dropDiag
  intro n hn
  simp only [eSysR, SysDesc.ofParts, List.map_cons, List.map_nil, List.mem_cons, List.not_mem_nil, or_false] at hn
  rcases hn with rfl | rfl | rfl | rfl | rfl | rfl | rfl | rfl | rfl | rfl <;> rfl

theorem eTopo'_ok : TopoOK eTopo' eSys :=
  ⟨by decide, fun x => (by decide : eTopo'.Perm eSys.names).mem_iff, by decide⟩
theorem eTopo'_okR : TopoOK eTopo' eSysR :=
  ⟨by decide, fun x => (by decide : eTopo'.Perm eSysR.names).mem_iff, by decide⟩
theorem eSysR_rails : DescRailsUnique eSysR := by unfold DescRailsUnique; decide

theorem eSys_solve_ok : ∃ T, (eSys.toSSys eTopo).solve exCfg "" 25 = .ok T := by
  cases hx : (eSys.toSSys eTopo).solve exCfg "" 25 with
  | ok T => exact ⟨T, rfl⟩
  | error e =>
    have : (((eSys.toSSys eTopo).solve exCfg "" 25).toOption.map (fun T => T.phases.length)).isSome = true := by
      decide +kernel
    rw [hx] at this; cases this

theorem eSysR_solve_ok : ∃ T, (eSysR.toSSys eTopo).solve exCfg "" 25 = .ok T := by
  cases hx : (eSysR.toSSys eTopo).solve exCfg "" 25 with
  | ok T => exact ⟨T, rfl⟩
  | error e =>
    have : (((eSysR.toSSys eTopo).solve exCfg "" 25).toOption.map (fun T => T.phases.length)).isSome = true := by
      decide +kernel
    rw [hx] at this; cases this

/-- non-vacuity of `reload_same_table_partial` on `eSys` (Props/C12Layout): the document loads, the original solves,
    so the reloaded system — processed in ANOTHER topological order — solves to the same rows -/
example (ver : String) (hv : (parseVer ver).isSome = true) :
    ∃ s' T T', fromFile ver (save ver eTopo eSys) = .ok s' ∧ (eSys.toSSys eTopo).solve exCfg "" 25 = .ok T ∧
      (s'.toSSys eTopo').solve exCfg "" 25 = .ok T' ∧
      List.Forall₂ (fun p p' => p'.1 = p.1 ∧ PTRel p.2 p'.2) T.phases T'.phases ∧ T'.avg = T.avg := by
  obtain ⟨s', hs', _, hok, _⟩ := reload_same_table_partial ver eTopo eSys eSys_wf hv
    (by simp [eSys, SysDesc.ofParts]) (by simp [eSys, SysDesc.ofParts]) (by decide) eSys_diag eTopo'_ok
    exCfg (by norm_num [exCfg]) "" 25
  obtain ⟨T, hT⟩ := eSys_solve_ok
  obtain ⟨T', hT', hrows, havg⟩ := hok T hT
  exact ⟨s', T, T', hs', hT, hT', hrows, havg⟩

/-- the same on `eSysR` (groups, rails, two phases, a phase table, a non-applicable limit): table and rail report -/
example (ver : String) (hv : (parseVer ver).isSome = true) :
    ∃ s' T T', fromFile ver (save ver eTopo eSysR) = .ok s' ∧ (eSysR.toSSys eTopo).solve exCfg "" 25 = .ok T ∧
      (s'.toSSys eTopo').solve exCfg "" 25 = .ok T' ∧
      List.Forall₂ (fun p p' => p'.1 = p.1 ∧ PTRel p.2 p'.2) T.phases T'.phases ∧ T'.avg = T.avg ∧
      RailPerm (railRep T) (railRep T') := by
  obtain ⟨s', hs', _, hok, _⟩ := reload_same_table_partial ver eTopo eSysR eSysR_wf hv
    (by simp [eSysR, SysDesc.ofParts]) (by simp [eSysR, SysDesc.ofParts]) (by decide) eSysR_diag eTopo'_okR
    exCfg (by norm_num [exCfg]) "" 25
  obtain ⟨s'', hs'', hrail⟩ := reload_same_rail_rep_partial ver eTopo eSysR eSysR_wf hv
    (by simp [eSysR, SysDesc.ofParts]) (by simp [eSysR, SysDesc.ofParts]) (by decide) eSysR_diag eSysR_rails
    eTopo'_okR exCfg (by norm_num [exCfg]) "" 25
  rw [hs'] at hs''
  cases hs''
  obtain ⟨T, hT⟩ := eSysR_solve_ok
  obtain ⟨T', hT', hrows, havg⟩ := hok T hT
  obtain ⟨T'', hT'', hperm⟩ := hrail T hT
  rw [hT'] at hT''
  cases hT''
  exact ⟨s', T, T', hs', hT, hT', hrows, havg, hperm⟩

/-- the two sides evaluated (kernel, ℚ): the rows come out in different orders, the rail report is the same, and the
    reloaded components are NOT equal to the original ones (`CompEquiv` only: the limits differ) — so `C16R.Iso`
    alone would not apply -/
example :
    (((eSysR.toSSys eTopo).solve exCfg "" 25).toOption.map fun T =>
        (T.phases.map fun p => (p.1, p.2.comps.map (·.name)), (railRep T).map fun r => (r.phase, r.rail, r.volt, r.curr)))
      = some ([("run", ["S2", "B", "S1", "L1", "A", "LA", "M", "LM", "C", "LC"]),
               ("sleep", ["S2", "B", "S1", "L1", "A", "LA", "M", "LM", "C", "LC"])],
              [("run", "V1", 5, 7/2), ("run", "VA", 5/2, 5/2), ("run", "VM", 5/2, 3/2),
               ("sleep", "V1", 5, 2), ("sleep", "VA", 4, 1), ("sleep", "VM", 0, 0)]) ∧
    ((((reloadedDesc eTopo eSysR).toSSys eTopo').solve exCfg "" 25).toOption.map fun T =>
        (T.phases.map fun p => (p.1, p.2.comps.map (·.name)), (railRep T).map fun r => (r.phase, r.rail, r.volt, r.curr)))
      = some ([("run", ["S1", "A", "L1", "LA", "S2", "B", "M", "C", "LC", "LM"]),
               ("sleep", ["S1", "A", "L1", "LA", "S2", "B", "M", "C", "LC", "LM"])],
              [("run", "V1", 5, 7/2), ("run", "VA", 5/2, 5/2), ("run", "VM", 5/2, 3/2),
               ("sleep", "V1", 5, 2), ("sleep", "VA", 4, 1), ("sleep", "VM", 0, 0)]) ∧
    (reloadedDesc eTopo eSysR).nodes.map (fun n => (n.name, n.comp.limits.map (·.1))) ≠
      eSysR.nodes.map (fun n => (n.name, n.comp.limits.map (·.1))) ∧
    (eSysR.nodes.map fun n => (n.name, n.comp.limits.map (·.1))).head? = some ("S1", []) ∧
    ((reloadedDesc eTopo eSysR).nodes.map fun n => (n.name, n.comp.limits.map (·.1))).head? =
      some ("S2", ["io", "po", "pl"]) := by
  refine ⟨by decide +kernel, by decide +kernel, by decide +kernel, by decide +kernel, by decide +kernel⟩

/-- non-vacuity of `compEquiv_laws` where `CompEquiv` is strictly weaker than equality: the Source with a limit on
    the non-applicable key `vi` and its reloaded form (that limit gone) have the same laws -/
example : LawEq (reloaded (eSrcLim "S2")) (eSrcLim "S2") ∧
    (reloaded (eSrcLim "S2")).limits.lookup "vi" = none ∧ (eSrcLim "S2").limits.lookup "vi" = some (1, 2) :=
  ⟨compEquiv_laws (reloaded_equiv _) (fun _ _ => rfl), by decide +kernel, by decide +kernel⟩

/-- `InterpAgree` is needed by the MODEL: the same 2-D table with the two diagonal choices is `sameData` but
    interpolates differently inside the cell -/
example : (Param.tab2 [0, 1] [0, 1] [[0, 0], [0, 1]] [[true]] : Param ℚ).sameData (.tab2 [0, 1] [0, 1] [[0, 0], [0, 1]] [[false]]) ∧
    (Param.tab2 [0, 1] [0, 1] [[0, 0], [0, 1]] [[true]] : Param ℚ).interp (1/4) (1/4) ≠
      (Param.tab2 [0, 1] [0, 1] [[0, 0], [0, 1]] [[false]] : Param ℚ).interp (1/4) (1/4) := by
  refine ⟨⟨rfl, rfl, rfl⟩, ?_⟩
  decide +kernel

end C12
end SysLoss
