/-
  Props/C08 — the rail report is the solve() table summed per supply rail.

   * `rail_row_spec`  : every row of the report belongs to a phase and a named rail that feeds at least
                        one component in that phase; its current / power / loss are the sums of Iin /
                        Power / Loss over exactly the component rows whose "Rail in" is that rail, its
                        voltage is the Vin of those rows, and its warnings are exactly the distinct
                        non-empty warning texts of those rows (the union of their warnings).
   * `rail_complete`  : conversely every (phase, named rail feeding a component) has a row.
   * `no_rails_empty` : without any named rail feeding a component the report has no rows
                        (the Python then returns the solve() table / None; see DESIGN.md C08).
-/
import SysLoss.Proofs.Basic
import SysLoss.Model.Table

set_option linter.unusedSectionVars false
set_option linter.unusedVariables false

namespace SysLoss
namespace C08
variable {α : Type} [Field α] [LinearOrder α] [IsStrictOrderedRing α]

/-- the component rows of a phase table fed from rail `r` -/
def members (pt : PhaseTable α) (r : String) : List (Row α) := pt.comps.filter (·.railIn == r)

theorem rail_row_spec (t : Table α) (r : RailRow α) (h : r ∈ railRep t) :
    ∃ pt ∈ t.phases, r.phase = pt.1 ∧ r.rail ≠ "" ∧ members pt.2 r.rail ≠ [] ∧
      r.curr = optSum ((members pt.2 r.rail).map (·.iin)) ∧
      r.pwr = optSum ((members pt.2 r.rail).map (·.pwr)) ∧
      r.loss = optSum ((members pt.2 r.rail).map (·.loss)) ∧
      r.volt = (((members pt.2 r.rail).head?).bind (·.vin)).getD 0 ∧
      (∀ w, w ∈ r.warn ↔ w ≠ "" ∧ ∃ row ∈ members pt.2 r.rail, row.warn = w) := by
  unfold railRep at h
  simp only [List.mem_flatMap, List.mem_filterMap] at h
  obtain ⟨pt, hpt, rail, hrail, hr⟩ := h
  have hne : rail ≠ "" := by
    have := (List.mem_filter.mp hrail).2
    simpa using this
  refine ⟨pt, hpt, ?_⟩
  unfold members
  by_cases hemp : (pt.2.comps.filter (·.railIn == rail)).isEmpty = true
  · simp [hemp] at hr
  · simp only [hemp, Bool.false_eq_true, if_false, Option.some.injEq] at hr
    subst hr
    refine ⟨rfl, hne, ?_, rfl, rfl, rfl, rfl, ?_⟩
    · intro e; apply hemp; simp [e]
    · intro w
      simp only [List.mem_filter, List.mem_eraseDups, List.mem_map, bne_iff_ne, ne_eq, beq_iff_eq]
      constructor
      · rintro ⟨⟨row, hrow, rfl⟩, hw⟩; exact ⟨hw, row, hrow, rfl⟩
      · rintro ⟨hw, row, hrow, rfl⟩; exact ⟨⟨row, hrow, rfl⟩, hw⟩

theorem rail_complete (t : Table α) (pt : String × PhaseTable α) (hpt : pt ∈ t.phases)
    (row : Row α) (hrow : row ∈ pt.2.comps) (hrail : row.railIn ≠ "") :
    ∃ r ∈ railRep t, r.phase = pt.1 ∧ r.rail = row.railIn := by
  unfold railRep
  simp only [List.mem_flatMap, List.mem_filterMap]
  have hmem : row ∈ pt.2.comps.filter (·.railIn == row.railIn) := by
    simp [List.mem_filter, hrow]
  have hne : (pt.2.comps.filter (·.railIn == row.railIn)).isEmpty = false := by
    cases hl : pt.2.comps.filter (·.railIn == row.railIn) with
    | nil => rw [hl] at hmem; cases hmem
    | cons a l => rfl
  let rows := pt.2.comps.filter (·.railIn == row.railIn)
  refine ⟨{ phase := pt.1, rail := row.railIn, volt := ((rows.head?).bind (·.vin)).getD 0,
            curr := optSum (rows.map (·.iin)), pwr := optSum (rows.map (·.pwr)),
            loss := optSum (rows.map (·.loss)),
            eff := if isZ (optSum (rows.map (·.loss))) then 100
                   else 100 * optSum (rows.map (·.pwr)) / (optSum (rows.map (·.pwr)) + optSum (rows.map (·.loss))),
            warn := ((rows.map (·.warn)).eraseDups).filter (· != "") },
          ⟨pt, hpt, row.railIn, ?_, ?_⟩, rfl, rfl⟩
  · apply List.mem_filter.mpr
    refine ⟨List.mem_eraseDups.mpr ?_, by simpa using hrail⟩
    simp only [List.mem_map, List.mem_flatMap]
    exact ⟨row, ⟨pt, hpt, hrow⟩, rfl⟩
  · simp only [hne, Bool.false_eq_true, if_false]; rfl

theorem no_rails_empty (t : Table α)
    (h : ∀ pt ∈ t.phases, ∀ row ∈ pt.2.comps, row.railIn = "") : railRep t = [] := by
  by_contra hne
  obtain ⟨r, hr⟩ := List.exists_mem_of_ne_nil _ hne
  obtain ⟨pt, hpt, _, hrail, hmem, _⟩ := rail_row_spec t r hr
  obtain ⟨row, hrow⟩ := List.exists_mem_of_ne_nil _ hmem
  have := List.mem_filter.mp hrow
  have h2 := h pt hpt row this.1
  have h3 : row.railIn = r.rail := by simpa using this.2
  exact hrail (h3 ▸ h2)

end C08
end SysLoss
