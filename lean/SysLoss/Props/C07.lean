/-
  Props/C07 — subsystem, total, average and energy rows are exact aggregates.

   * `energy_nophase`, `energy_phase` : 24 h energy = power × 24 (no phases), resp. power × the phase's
                                        share of 24 h.
   * `energies_add_up`                : the per-phase energies of a row add up to the energy of its
                                        duration-weighted average power.
   * `subs_spec`                      : each Subsystem row reports its source's voltage, output current
                                        and power, and the sum of the losses of exactly the rows
                                        attributed to it; efficiency = 100·(P−L)/P.
   * `total_spec`                     : System total = Σ subsystem powers, Σ subsystem losses.
   * `total_eff_le_100`               : … with efficiency never above 100 when 0 ≤ Loss ≤ Power.
   * `average_spec`                   : System average = duration-weighted means of the per-phase totals.
   * `domain_step`                    : a row's Domain is its own name (Source), the source above the
                                        selected input (PMux) or the domain inherited from its parent
                                        (everything else) — after fix 8389da8.
-/
import SysLoss.Proofs.Basic
import SysLoss.Model.Table
import SysLoss.Proofs.Domain
import Mathlib.Algebra.BigOperators.Group.List.Basic
import Mathlib.Algebra.BigOperators.Ring.List
import Mathlib.Algebra.Order.BigOperators.Ring.List

set_option linter.unusedSectionVars false
set_option linter.unusedVariables false

namespace SysLoss
namespace C07
variable {α : Type} [Field α] [LinearOrder α] [IsStrictOrderedRing α]

/-- without phases: energy per 24 h = power × 24 -/
theorem energy_nophase (phases : List (String × α)) (p : α) : calcEnergy phases "" p = p * 24 := by
  unfold calcEnergy; simp

/-- with phases: energy = power × 24 × (duration of the phase / total duration) -/
theorem energy_phase (phases : List (String × α)) (ph : String) (hph : ph ≠ "") (d p : α)
    (hd : phases.lookup ph = some d) (htot : (phases.map (·.2)).sum ≠ 0) :
    calcEnergy phases ph p = p * 24 * (d / (phases.map (·.2)).sum) := by
  unfold calcEnergy
  have h1 : (ph == "") = false := by simpa using hph
  simp only [h1, Bool.false_eq_true, if_false, hd, Option.getD_some, sumL_eq_sum]
  field_simp

theorem lookup_self_of_nodup (l : List (String × α)) (hn : (l.map (·.1)).Nodup) (pd : String × α)
    (hm : pd ∈ l) : l.lookup pd.1 = some pd.2 := by
  induction l with
  | nil => cases hm
  | cons q rest ih =>
    simp only [List.map_cons, List.nodup_cons, List.mem_map, not_exists, not_and] at hn
    obtain ⟨a, b⟩ := q
    rcases List.mem_cons.mp hm with rfl | hm'
    · simp [List.lookup]
    · have hne : (pd.1 == a) = false := by
        have : pd.1 ≠ a := fun e => hn.1 pd hm' e
        simpa using this
      simp only [List.lookup_cons]
      rw [hne]
      exact ih hn.2 hm'

/-- **Energies add up.**  For any per-phase powers `P`, the per-phase 24 h energies sum to 24 × the
    duration-weighted mean power — which is what the "System average" row reports as its energy. -/
theorem energies_add_up (phases : List (String × α)) (P : String → α)
    (hn : (phases.map (·.1)).Nodup) (hne : ∀ pd ∈ phases, pd.1 ≠ "")
    (htot : (phases.map (·.2)).sum ≠ 0) :
    (phases.map fun pd => calcEnergy phases pd.1 (P pd.1)).sum
      = calcEnergy phases "" ((phases.map fun pd => P pd.1 * pd.2).sum / (phases.map (·.2)).sum) := by
  rw [energy_nophase]
  have h : ∀ pd ∈ phases, calcEnergy phases pd.1 (P pd.1)
      = (P pd.1 * pd.2) * (24 / (phases.map (·.2)).sum) := by
    intro pd hm
    rw [energy_phase phases pd.1 (hne pd hm) pd.2 (P pd.1) (lookup_self_of_nodup phases hn pd hm) htot]
    ring
  rw [List.map_congr_left h, List.sum_map_mul_right]
  field_simp

/-- Total / subsystem efficiency never exceeds 100 when the losses are within the power. -/
theorem total_eff_le_100 (p l : α) (hl0 : 0 ≤ l) (hl : l ≤ p) : getEff p (p - l) 100 ≤ 100 := by
  unfold getEff
  split_ifs with hp
  · rw [nabs_eq_abs, abs_of_nonneg (div_nonneg (by linarith) hp.le)]
    have : (p - l) / p ≤ 1 := by rw [div_le_one hp]; linarith
    nlinarith
  · exact le_refl _

/-- **Subsystem rows.**  One row per source (in order of appearance); the row of source `d` reports
    the source row's Iout and Power, the sum of the Loss cells of exactly the component rows whose
    Domain is `d`, the efficiency `_get_eff(P, P − L)`, and "Yes" iff one of those rows warns. -/
theorem subs_spec (s : SSys α) (phase : String) (ta : α) (v i : Vec α) (st : St) (sub : Row α)
    (h : sub ∈ (s.phaseTable phase ta v i st).subs) :
    let comps := s.compRows phase ta v i st
    ∃ d, d ∈ (comps.filter (·.typ == "SOURCE")).map (·.domain) ∧ sub.name = "Subsystem " ++ d ∧
      sub.loss = some (optSum ((comps.filter (·.domain == d)).map (·.loss))) ∧
      sub.iout = ((comps.filter fun r => r.domain == d && r.typ == "SOURCE").head?).bind (·.iout) ∧
      sub.pwr = some ((((comps.filter fun r => r.domain == d && r.typ == "SOURCE").head?).bind (·.pwr)).getD 0) ∧
      (∀ P L, sub.pwr = some P → sub.loss = some L → sub.eff = some (getEff P (P - L) 100)) ∧
      (sub.warn = "Yes" ↔ ∃ r ∈ comps, r.domain = d ∧ r.warn ≠ "") := by
  intro comps
  unfold SSys.phaseTable at h
  simp only [List.mem_map] at h
  obtain ⟨d, hd, rfl⟩ := h
  refine ⟨d, ?_, rfl, rfl, rfl, rfl, ?_, ?_⟩
  · have := List.mem_eraseDups.mp hd
    simpa using this
  · intro P L hP hL
    simp only [Option.some.injEq] at hP hL
    subst hP; subst hL; rfl
  · show (if ((comps.filter (·.domain == d)).any (·.warn != "")) = true then "Yes" else "") = "Yes" ↔ _
    have key : ((comps.filter (·.domain == d)).any (·.warn != "")) = true ↔ ∃ r ∈ comps, r.domain = d ∧ r.warn ≠ "" := by
      simp only [List.any_eq_true, List.mem_filter, beq_iff_eq, bne_iff_ne, ne_eq]
      constructor
      · rintro ⟨r, ⟨hr, hdm⟩, hwn⟩; exact ⟨r, hr, hdm, hwn⟩
      · rintro ⟨r, hr, hdm, hwn⟩; exact ⟨r, ⟨hr, hdm⟩, hwn⟩
    rw [← key]
    by_cases hW : ((comps.filter (·.domain == d)).any (·.warn != "")) = true
    · simp [hW]
    · simp [hW]

/-- **System total** = sum of the subsystem (= source) powers and of the subsystem losses. -/
theorem total_spec (s : SSys α) (phase : String) (ta : α) (v i : Vec α) (st : St) :
    let T := s.phaseTable phase ta v i st
    T.total.pwr = some (optSum (T.subs.map (·.pwr))) ∧
    T.total.loss = some (optSum (T.subs.map (·.loss))) ∧
    T.total.eff = some (getEff (optSum (T.subs.map (·.pwr)))
                    (optSum (T.subs.map (·.pwr)) - optSum (T.subs.map (·.loss))) 100) := by
  intro T
  exact ⟨rfl, rfl, rfl⟩

/-- **System average** = duration-weighted means of the per-phase totals. -/
theorem average_spec (phases : List (String × α)) (tabs : List (String × PhaseTable α)) :
    let ts := tabs.map fun pt => (phases.lookup pt.1).getD 0
    (averageRow phases tabs).pwr =
      some ((List.zipWith (fun pt t => (pt.2.total.pwr.getD 0) * t) tabs ts).sum / ts.sum) ∧
    (averageRow phases tabs).loss =
      some ((List.zipWith (fun pt t => (pt.2.total.loss.getD 0) * t) tabs ts).sum / ts.sum) ∧
    (averageRow phases tabs).eff =
      some ((List.zipWith (fun pt t => (pt.2.total.eff.getD 0) * t) tabs ts).sum / ts.sum) ∧
    (∀ P, (averageRow phases tabs).pwr = some P → (averageRow phases tabs).ener = some (P * 24)) := by
  intro ts
  unfold averageRow
  simp only [sumL_eq_sum]
  refine ⟨rfl, rfl, rfl, ?_⟩
  intro P hP
  simp only [Option.some.injEq] at hP
  rw [← hP, energy_nophase]

/-- **Domain of a row** (one step of the table loop, after fix 8389da8): a Source is its own domain,
    a PMux takes the source above its first input at non-zero voltage, every other component keeps the
    domain `inherited` from its first parent. -/
theorem domain_step (s : SSys α) (phase : String) (ta : α) (v i : Vec α) (st : St) (n : Nat)
    (nd : SNode α) (hnode : s.node? n = some nd) (inherited : String) :
    (s.compRow phase ta v i st n inherited).1.domain = (s.compRow phase ta v i st n inherited).2 ∧
    (nd.comp.kind = .source → (s.compRow phase ta v i st n inherited).2 = nd.comp.name) ∧
    (nd.comp.kind ≠ .source → nd.comp.kind ≠ .pmux → (s.compRow phase ta v i st n inherited).2 = inherited) ∧
    (nd.comp.kind = .pmux → (s.compRow phase ta v i st n inherited).2 =
        s.nameOf (s.rootOf s.hidx (nd.parents.getD (firstNonZero (nd.parents.map (vget v)) 0) 0))) := by
  unfold SSys.compRow SSys.findDomain
  simp only [hnode]
  refine ⟨trivial, ?_, ?_, ?_⟩
  · intro hk; simp [hk]
  · intro h1 h2; cases hk : nd.comp.kind <;> simp_all
  · intro hk; simp [hk]

/-- **Domain column of the whole table.**  For every topological order of the nodes (no repetitions,
    parents listed before their children — whatever rustworkx returns), the component rows come out one
    per node in that order, every Source row is its own domain, and every other non-mux row carries the
    domain of its (first) parent's row.  By induction along the path to the root a component is therefore
    attributed to the source at the top of its supply path, for *every* valid order and every way the
    system was built (this is what fix 8389da8 established; before it the domain of the previously
    listed row was used). -/
theorem domain_table (s : SSys α) (phase : String) (ta : α) (v i : Vec α) (st : St)
    (hnodup : s.topo.Nodup) (hnodes : ∀ n ∈ s.topo, ∃ nd, s.node? n = some nd)
    (hpar : ∀ (pre : List Nat) (n : Nat) (post : List Nat), s.topo = pre ++ n :: post →
        ∀ nd p rest, s.node? n = some nd → nd.parents = p :: rest → p ∈ pre) :
    let rows := s.compRows phase ta v i st
    rows.length = s.topo.length ∧
    (∀ k (hk : k < s.topo.length) (hk' : k < rows.length) nd, s.node? s.topo[k] = some nd →
        nd.comp.kind = .source → (rows[k]).domain = nd.comp.name) ∧
    (∀ k (hk : k < s.topo.length) (hk' : k < rows.length) nd p rest, s.node? s.topo[k] = some nd →
        nd.parents = p :: rest → nd.comp.kind ≠ .source → nd.comp.kind ≠ .pmux →
        ∃ j, ∃ (hj : j < k) (hj' : j < rows.length), s.topo[j]'(by omega) = p ∧ (rows[k]).domain = (rows[j]).domain) := by
  intro rows
  have h0 : DomInv s phase ta v i st [] ([], "none", []) :=
    ⟨rfl, fun j hj => absurd hj (by simp), fun k hk => absurd hk (by simp), fun k hk => absurd hk (by simp)⟩
  have h := domInv_foldl s phase ta v i st s.topo [] ([], "none", []) h0 (by simpa using hnodup) hnodes
    (by intro pre n post hl nd p rest hn hp; simpa using hpar pre n post hl nd p rest hn hp)
  simp only [List.nil_append] at h
  have hrows : rows = (s.topo.foldl (rowStep s phase ta v i st) ([], "none", [])).1 :=
    compRows_eq_foldl s phase ta v i st
  refine ⟨by rw [hrows]; exact h.len, ?_, ?_⟩
  · intro k hk hk' nd hn hsrc
    have := h.src k hk (by rw [← hrows]; exact hk') nd hn hsrc
    simpa [hrows] using this
  · intro k hk hk' nd p rest hn hp hns hnm
    obtain ⟨j, hj, hj', hdj, hdom⟩ := h.inh k hk (by rw [← hrows]; exact hk') nd p rest hn hp hns hnm
    exact ⟨j, hj, by rw [hrows]; exact hj', hdj, by simpa [hrows] using hdom⟩

end C07
end SysLoss
