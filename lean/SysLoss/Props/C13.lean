/-
  Props/C13 — a component loaded from a TOML file equals the constructor call.

  Subject: `fromToml` (Model/Toml.lean: `_Component.from_file`, `LinReg.from_file`) against `mkComp`
  (Model/Ctor.lean: the constructors).  All statements hold at every carrier (they are about the plumbing of
  values, not about arithmetic), in particular at `Rat` and `Float` where the driver runs them.

   1. `toml_eq_ctor`            file with well-typed present keys  →  loader = constructor call on the file's keys
      `toml_eq_ctor_filled`     … = constructor call on `P ∪ schema defaults`
      `linreg_toml_eq_ctor`     the LinReg loader (deprecated `iq`, no type gates)
   2. `defaults_agree`          schema default of every optional key = default of the constructor signature (tables)
      `ctor_default_semantic`   the constructor model reads its arguments only through the keywords of its signature
                                with exactly those defaults (ties the table `ctorKeys` to `mkComp`)
      `defaults_well_typed`     every schema default passes its own type gate
   3. `missing_mandatory`, `missing_table` → KeyError;  `wrong_type` → ValueError;  `bad_file_never_builds`
   4. `schema_complete`         every constructor keyword (but `limits`) is a schema key;
      `mandatory_mismatch`      the only key the schema demands although the constructor defaults it: Rectifier `vdrop`
      observations: `converter_int_eff_rejected` (typ `[float, dict]`), `linreg_no_type_gate` (F13b),
      `inline_table_accepted` (finding F28, repaired: every mapping passes the `dict` gate)
-/
import SysLoss.Model.Toml

set_option linter.unusedSectionVars false
set_option linter.unusedVariables false
set_option linter.unusedSimpArgs false

namespace SysLoss
namespace C13
variable {α : Type} [Add α] [Sub α] [Mul α] [Div α] [Neg α] [LT α] [DecidableLT α]
  [OfNat α 0] [OfNat α 1] [OfNat α 2] [OfNat α 100] [OfNat α 1000000]

/-! ### the constructor model reads exactly the keywords of its signature -/

/-- `a` and `a'` give every keyword of `Kind.__init__` the same value once the signature's defaults are
    applied (required keywords: the same presence and value) -/
def AgreeOn (k : Kind) (a a' : Args α) : Prop :=
  (∀ kd ∈ k.ctorKeys, match kd.2 with
      | none => a.lookup kd.1 = a'.lookup kd.1
      | some d => arg a kd.1 (d.toPV : PV α) = arg a' kd.1 d.toPV) ∧
  arg a "limits" .null = arg a' "limits" .null

/-- `mkComp` depends on its keyword arguments only through `ctorKeys` with the listed defaults, and `limits`. -/
theorem ctor_default_semantic (k : Kind) (n : String) (a a' : Args α) (h : AgreeOn k a a') :
    mkComp k n a = mkComp k n a' := by
  obtain ⟨h, hl⟩ := h
  cases k <;>
  · simp only [Kind.ctorKeys, List.forall_mem_cons, Dflt.toPV] at h
    unfold mkComp
    simp only [req, linregIgc, h, hl]

/-! ### table facts (finite, by evaluation) -/

def _root_.SysLoss.Dflt.ty : Dflt → PyTy
  | .zero => .float
  | .no => .bool

theorem typeOk_dflt (d : Dflt) (typ : List PyTy) : typeOk (d.toPV : PV α) typ = typ.contains d.ty := by
  cases d <;> rfl

/-- 2a. schema default = constructor default, for every optional schema key of every kind -/
theorem defaults_agree :
    ∀ k ∈ allKinds, ∀ sk ∈ k.schema, sk.opt = true →
      sk.dflt.isSome = true ∧ k.ctorKeys.lookup sk.key = some sk.dflt := by decide

/-- 2c. every schema default passes the type gate of its own key (generic loader) -/
theorem defaults_well_typed_tbl :
    ∀ k ∈ allKinds, k.genericLoader = true → ∀ sk ∈ k.schema, sk.opt = true →
      sk.typ.contains (sk.dflt.getD .zero).ty = true := by decide

theorem defaults_well_typed (k : Kind) (hk : k.genericLoader = true) (sk : SchemaKey) (hs : sk ∈ k.schema)
    (ho : sk.opt = true) : typeOk ((sk.dflt.getD .zero).toPV : PV α) sk.typ = true := by
  rw [typeOk_dflt]
  exact defaults_well_typed_tbl k (by cases k <;> simp [allKinds]) hk sk hs ho

/-- 4a. every constructor keyword except `limits` occurs in the schema of its kind (for LinReg: among the
    keys its loader reads) -/
theorem schema_complete :
    ∀ k ∈ allKinds, ∀ kd ∈ k.ctorKeys, kd.1 ∈ k.schema.map (·.key) := by decide

/-- and conversely: the schema has no key the constructor does not know -/
theorem schema_sound :
    ∀ k ∈ allKinds, ∀ sk ∈ k.schema, sk.key ∈ k.ctorKeys.map (·.1) := by decide

/-- keys the file format demands although the constructor has a default for them -/
def mandatoryMismatch : List (Kind × String) :=
  allKinds.flatMap fun k => k.schema.filterMap fun sk =>
    match k.ctorKeys.lookup sk.key with
    | some (some _) => if sk.opt then none else some (k, sk.key)
    | _ => none

/-- 4b. the only such key: `vdrop` of a Rectifier (`Rectifier(name, rs=…)` builds a MOSFET bridge, the same
    parameters in a file are a KeyError) — an observation, the shipped `rect2.toml` writes `vdrop = 0.0` -/
theorem mandatory_mismatch : mandatoryMismatch = [(.rectifier, "vdrop")] := by decide

theorem schema_keys_nodup : ∀ k ∈ allKinds, (k.schema.map (·.key)).Nodup := by decide

theorem schema_no_limits : ∀ k ∈ allKinds, "limits" ∉ k.schema.map (·.key) := by decide

theorem tomlName_ne_limits (k : Kind) : ("limits" == k.tomlName) = false := by cases k <;> decide

theorem mem_allKinds (k : Kind) : k ∈ allKinds := by cases k <;> simp [allKinds]

/-! ### the generic loader -/

/-- is the schema key fine in the table `P` of the file: present with an accepted type, or absent and optional -/
def keyOk (P : Args α) (sk : SchemaKey) : Bool :=
  match P.lookup sk.key with
  | some v => typeOk v sk.typ
  | none => sk.opt

/-- every schema key is fine -/
def FileOk (k : Kind) (P : Args α) : Prop := ∀ sk ∈ k.schema, keyOk P sk = true

def fillOne (P : Args α) (sk : SchemaKey) : Option (String × PV α) :=
  match P.lookup sk.key with
  | some v => some (sk.key, v)
  | none => if sk.opt then some (sk.key, ((sk.dflt.getD .zero).toPV : PV α)) else none

def fillOf (ks : List SchemaKey) (P : Args α) : Args α := ks.filterMap (fillOne P)

theorem fillDefaults_eq (k : Kind) (P : Args α) : fillDefaults k P = fillOf k.schema P := rfl

/-- the optional argument of the file for `limits` -/
def limArg (L : Option (PV α)) : Args α :=
  match L with
  | some l => [("limits", l)]
  | none => []

theorem pySub_encode (k : Kind) (P : Args α) (L : Option (PV α)) :
    pySub (encodeToml k P L) k.tomlName = .ok (.dict P) := by
  simp [encodeToml, pySub, List.lookup]

theorem limitsArg_encode (k : Kind) (P : Args α) (L : Option (PV α)) :
    limitsArg (encodeToml k P L) = limArg L := by
  cases L <;> simp [encodeToml, limitsArg, limArg, List.lookup, tomlName_ne_limits]

theorem getOpt_dict (P : Args α) (key : String) (d : PV α) :
    getOpt (.dict P) key d = .ok ((P.lookup key).getD d) := by
  simp only [getOpt, pyLookup, bind, Except.bind, pure, Except.pure]
  cases P.lookup key <;> rfl

theorem getMand_dict (P : Args α) (key : String) :
    getMand (.dict P) key = match P.lookup key with
      | some v => .ok v
      | none => .error (.key ("Parameter dict is missing entry for '" ++ key ++ "'")) := by
  simp only [getMand, pyLookup, bind, Except.bind, pure, Except.pure, throw, throwThe, MonadExceptOf.throw]
  cases P.lookup key <;> rfl

/-- one step of the loop on a fine key -/
theorem loadKeys_step_ok (k : Kind) (P : Args α) (L : Option (PV α)) (sk : SchemaKey) (rest : List SchemaKey)
    (acc : Args α) (hd : sk.opt = true → typeOk ((sk.dflt.getD .zero).toPV : PV α) sk.typ = true)
    (h : keyOk P sk = true) :
    loadKeys (encodeToml k P L) k.tomlName (sk :: rest) acc =
      loadKeys (encodeToml k P L) k.tomlName rest (acc ++ (fillOne P sk).toList) := by
  unfold keyOk at h
  unfold fillOne
  rw [loadKeys, pySub_encode]
  simp only [getOpt_dict, getMand_dict, bind, Except.bind, pure, Except.pure, throw, throwThe,
    MonadExceptOf.throw]
  cases ho : sk.opt <;> cases hl : P.lookup sk.key <;> simp_all

theorem loadKeys_ok (k : Kind) (P : Args α) (L : Option (PV α)) (ks : List SchemaKey) (acc : Args α)
    (hd : ∀ sk ∈ ks, sk.opt = true → typeOk ((sk.dflt.getD .zero).toPV : PV α) sk.typ = true)
    (h : ∀ sk ∈ ks, keyOk P sk = true) :
    loadKeys (encodeToml k P L) k.tomlName ks acc = .ok (acc ++ fillOf ks P) := by
  induction ks generalizing acc with
  | nil => simp [loadKeys, fillOf]
  | cons sk rest ih =>
    rw [loadKeys_step_ok k P L sk rest acc (hd sk (by simp)) (h sk (by simp))]
    rw [ih _ (fun s hs => hd s (by simp [hs])) (fun s hs => h s (by simp [hs]))]
    simp only [fillOf, List.filterMap_cons]
    cases fillOne P sk <;> simp

/-- 1b. on a fine file the generic loader is the constructor call on `P ∪ defaults` (and the limits table) -/
theorem toml_eq_ctor_filled (k : Kind) (hk : k.genericLoader = true) (n : String) (P : Args α)
    (L : Option (PV α)) (h : FileOk k P) :
    fromToml k n (encodeToml k P L) = mkComp k n (fillDefaults k P ++ limArg L) := by
  have hload := loadKeys_ok k P L k.schema [] (fun sk hs ho => defaults_well_typed k hk sk hs ho) h
  have : fromToml k n (encodeToml k P L) =
      (loadKeys (encodeToml k P L) k.tomlName k.schema []).bind
        (fun fp => mkComp k n (fp ++ limitsArg (encodeToml k P L))) := by
    cases k <;> first | (simp [Kind.genericLoader] at hk; done) | rfl
  rw [this, hload, limitsArg_encode, fillDefaults_eq]
  simp [Except.bind]

/-! ### lookups in `P ∪ defaults` -/

theorem fillOne_key {P : Args α} {sk : SchemaKey} {p : String × PV α} (h : fillOne P sk = some p) :
    p.1 = sk.key := by
  unfold fillOne at h
  cases hl : P.lookup sk.key <;> cases ho : sk.opt <;> simp [hl, ho] at h <;> rw [← h]

theorem fillOf_cons (sk : SchemaKey) (rest : List SchemaKey) (P : Args α) :
    fillOf (sk :: rest) P = (fillOne P sk).toList ++ fillOf rest P := by
  simp only [fillOf, List.filterMap_cons]
  cases fillOne P sk <;> rfl

theorem lookup_toList_ne (o : Option (String × PV α)) (key : String)
    (h : ∀ p, o = some p → (key == p.1) = false) : o.toList.lookup key = none := by
  cases o with
  | none => rfl
  | some p =>
    obtain ⟨a, b⟩ := p
    have := h (a, b) rfl
    simp only at this
    simp [List.lookup, this]

theorem lookup_fillOf_not_mem (ks : List SchemaKey) (P : Args α) (key : String)
    (h : key ∉ ks.map (·.key)) : (fillOf ks P).lookup key = none := by
  induction ks with
  | nil => rfl
  | cons sk rest ih =>
    simp only [List.map_cons, List.mem_cons, not_or] at h
    rw [fillOf_cons, List.lookup_append, ih h.2, lookup_toList_ne]
    · rfl
    · intro p hp
      rw [fillOne_key hp]
      simpa using h.1

theorem lookup_fillOf (ks : List SchemaKey) (P : Args α) (sk : SchemaKey)
    (hn : (ks.map (·.key)).Nodup) (hs : sk ∈ ks) :
    (fillOf ks P).lookup sk.key = (fillOne P sk).map (·.2) := by
  induction ks with
  | nil => simp at hs
  | cons s rest ih =>
    simp only [List.map_cons, List.nodup_cons] at hn
    rw [fillOf_cons, List.lookup_append]
    rcases List.mem_cons.mp hs with rfl | hr
    · rw [lookup_fillOf_not_mem rest P sk.key hn.1]
      cases hf : fillOne P sk with
      | none => rfl
      | some p =>
        obtain ⟨a, b⟩ := p
        have := fillOne_key hf
        simp only at this
        subst this
        simp [List.lookup]
    · have hne : sk.key ≠ s.key := by
        intro e; exact hn.1 (e ▸ List.mem_map_of_mem (f := (·.key)) hr)
      rw [lookup_toList_ne, ih hn.2 hr]
      · rfl
      · intro p hp
        rw [fillOne_key hp]
        simpa using hne

theorem lookup_of_mem_nodup {β : Type} (l : List (String × β)) (a : String) (b : β)
    (hm : (a, b) ∈ l) (hn : (l.map (·.1)).Nodup) : l.lookup a = some b := by
  induction l with
  | nil => simp at hm
  | cons p rest ih =>
    obtain ⟨x, y⟩ := p
    simp only [List.map_cons, List.nodup_cons] at hn
    rcases List.mem_cons.mp hm with e | hr
    · cases e; simp [List.lookup]
    · have hne : (a == x) = false := by
        have : a ≠ x := by
          intro e; subst e; exact hn.1 (List.mem_map_of_mem (f := (·.1)) hr)
        simpa using this
      simp [List.lookup, hne, ih hr hn.2]

theorem lookup_limArg (L : Option (PV α)) (key : String) (h : (key == "limits") = false) :
    (limArg L).lookup key = none := by
  cases L <;> simp [limArg, List.lookup, h]

/-- 1a. **the property**: on a file whose present keys have accepted types (mandatory keys present), the loader
    returns exactly what the constructor returns on the file's own keys — absent optional keys take the
    constructor's defaults because these equal the schema's (`defaults_agree`, used through
    `ctor_default_semantic`). -/
theorem toml_eq_ctor (k : Kind) (hk : k.genericLoader = true) (n : String) (P : Args α)
    (L : Option (PV α)) (h : FileOk k P) (hnl : P.lookup "limits" = none) :
    fromToml k n (encodeToml k P L) = mkComp k n (P ++ limArg L) := by
  rw [toml_eq_ctor_filled k hk n P L h]
  apply ctor_default_semantic
  have hmem := mem_allKinds k
  have hnd := schema_keys_nodup k hmem
  have hnolim := schema_no_limits k hmem
  constructor
  · intro kd hkd
    -- the schema entry of this keyword
    have hin := schema_complete k hmem kd hkd
    obtain ⟨sk, hsk, hkey⟩ := List.mem_map.mp hin
    have hne : (kd.1 == "limits") = false := by
      have : kd.1 ≠ "limits" := by intro e; exact hnolim (e ▸ hin)
      simpa using this
    have hfill : (fillDefaults k P ++ limArg L).lookup kd.1 = (fillOne P sk).map (·.2) := by
      rw [List.lookup_append, fillDefaults_eq, ← hkey, lookup_fillOf k.schema P sk hnd hsk]
      rw [hkey, lookup_limArg L kd.1 hne]; simp
    have hP : (P ++ limArg L).lookup kd.1 = P.lookup sk.key := by
      rw [List.lookup_append, lookup_limArg L kd.1 hne, hkey]; simp
    have hok := h sk hsk
    unfold keyOk at hok
    obtain ⟨kd1, kd2⟩ := kd
    simp only at hkey hfill hP hne ⊢
    subst hkey
    cases hl : P.lookup sk.key with
    | some v =>
      have : (fillOne P sk) = some (sk.key, v) := by simp [fillOne, hl]
      cases kd2 <;> simp [arg, hfill, hP, hl, this]
    | none =>
      rw [hl] at hok
      have hda := defaults_agree k hmem sk hsk hok
      have hlk : k.ctorKeys.lookup sk.key = some kd2 := by
        have hnd2 : ∀ k ∈ allKinds, (k.ctorKeys.map (·.1)).Nodup := by decide
        exact lookup_of_mem_nodup _ _ _ hkd (hnd2 k hmem)
      have hd : kd2 = sk.dflt := by
        have := hda.2; rw [hlk] at this; exact Option.some.inj this
      have hf : fillOne P sk = some (sk.key, ((sk.dflt.getD .zero).toPV : PV α)) := by simp [fillOne, hl, hok]
      subst hd
      cases hdf : sk.dflt with
      | none => simp [hdf] at hda
      | some d => simp [arg, hfill, hP, hl, hf, hdf]
  · have hlimfill : (fillDefaults k P).lookup "limits" = none :=
      lookup_fillOf_not_mem k.schema P "limits" hnolim
    simp [arg, List.lookup_append, hlimfill, hnl]

/-! ### 3. error behaviour of the generic loader -/

theorem fromToml_generic (k : Kind) (hk : k.genericLoader = true) (n : String) (cfg : PV α) :
    fromToml k n cfg = (loadKeys cfg k.tomlName k.schema []).bind (fun fp => mkComp k n (fp ++ limitsArg cfg)) := by
  cases k <;> first | (simp [Kind.genericLoader] at hk; done) | rfl

theorem loadKeys_prefix (k : Kind) (P : Args α) (L : Option (PV α)) (pre ks : List SchemaKey) (acc : Args α)
    (hd : ∀ sk ∈ pre, sk.opt = true → typeOk ((sk.dflt.getD .zero).toPV : PV α) sk.typ = true)
    (h : ∀ sk ∈ pre, keyOk P sk = true) :
    loadKeys (encodeToml k P L) k.tomlName (pre ++ ks) acc =
      loadKeys (encodeToml k P L) k.tomlName ks (acc ++ fillOf pre P) := by
  induction pre generalizing acc with
  | nil => simp [fillOf]
  | cons sk rest ih =>
    rw [List.cons_append, loadKeys_step_ok k P L sk (rest ++ ks) acc (hd sk (by simp)) (h sk (by simp))]
    rw [ih _ (fun s hs => hd s (by simp [hs])) (fun s hs => h s (by simp [hs])), fillOf_cons]
    simp

theorem loadKeys_step_missing (k : Kind) (P : Args α) (L : Option (PV α)) (sk : SchemaKey)
    (rest : List SchemaKey) (acc : Args α) (ho : sk.opt = false) (hl : P.lookup sk.key = none) :
    loadKeys (encodeToml k P L) k.tomlName (sk :: rest) acc =
      .error (.key ("Parameter dict is missing entry for '" ++ sk.key ++ "'")) := by
  rw [loadKeys, pySub_encode]
  simp [getMand_dict, bind, Except.bind, ho, hl]

theorem loadKeys_step_type (k : Kind) (P : Args α) (L : Option (PV α)) (sk : SchemaKey)
    (rest : List SchemaKey) (acc : Args α) (v : PV α) (hl : P.lookup sk.key = some v)
    (ht : typeOk v sk.typ = false) :
    loadKeys (encodeToml k P L) k.tomlName (sk :: rest) acc =
      .error (.value ("Parameter " ++ sk.key ++ " is not of the correct type")) := by
  rw [loadKeys, pySub_encode]
  cases ho : sk.opt <;>
    simp [getMand_dict, getOpt_dict, bind, Except.bind, pure, Except.pure, throw, throwThe,
      MonadExceptOf.throw, ho, hl, ht]

/-- 3a. a missing mandatory key raises `KeyError` (every schema key before it being fine) -/
theorem missing_mandatory (k : Kind) (hk : k.genericLoader = true) (n : String) (P : Args α)
    (L : Option (PV α)) (pre post : List SchemaKey) (sk : SchemaKey)
    (hs : k.schema = pre ++ sk :: post) (hpre : ∀ s ∈ pre, keyOk P s = true)
    (ho : sk.opt = false) (hl : P.lookup sk.key = none) :
    fromToml k n (encodeToml k P L) =
      .error (.key ("Parameter dict is missing entry for '" ++ sk.key ++ "'")) := by
  rw [fromToml_generic k hk, hs, loadKeys_prefix k P L pre (sk :: post) []
        (fun s hm ho => defaults_well_typed k hk s (by rw [hs]; simp [hm]) ho) hpre,
      loadKeys_step_missing k P L sk post _ ho hl]
  rfl

/-- 3b. a value of a type the schema does not list raises `ValueError` — no component is built -/
theorem wrong_type (k : Kind) (hk : k.genericLoader = true) (n : String) (P : Args α)
    (L : Option (PV α)) (pre post : List SchemaKey) (sk : SchemaKey) (v : PV α)
    (hs : k.schema = pre ++ sk :: post) (hpre : ∀ s ∈ pre, keyOk P s = true)
    (hl : P.lookup sk.key = some v) (ht : typeOk v sk.typ = false) :
    fromToml k n (encodeToml k P L) =
      .error (.value ("Parameter " ++ sk.key ++ " is not of the correct type")) := by
  rw [fromToml_generic k hk, hs, loadKeys_prefix k P L pre (sk :: post) []
        (fun s hm ho => defaults_well_typed k hk s (by rw [hs]; simp [hm]) ho) hpre,
      loadKeys_step_type k P L sk post _ v hl ht]
  rfl

/-- 3c. a file without the `[kind]` table raises `KeyError` -/
theorem missing_table (k : Kind) (n : String) (cfg : List (String × PV α))
    (h : cfg.lookup k.tomlName = none) : ∃ m, fromToml k n (.dict cfg) = .error (.key m) := by
  have hsub : pySub (PV.dict cfg) k.tomlName = .error (.key k.tomlName) := by simp [pySub, h]
  cases hk : k.genericLoader
  · have : k = .linreg := by cases k <;> simp_all [Kind.genericLoader]
    subst this
    refine ⟨Kind.linreg.tomlName, ?_⟩
    simp only [fromToml, linregFromToml, bind, Except.bind]
    rw [show "linreg" = Kind.linreg.tomlName from rfl, hsub]
  · obtain ⟨sk, rest, hs⟩ : ∃ sk rest, k.schema = sk :: rest := by cases k <;> exact ⟨_, _, rfl⟩
    refine ⟨k.tomlName, ?_⟩
    rw [fromToml_generic k hk, hs, loadKeys, hsub]
    rfl

theorem first_bad (P : Args α) (ks : List SchemaKey) (h : ∃ s ∈ ks, keyOk P s = false) :
    ∃ pre sk post, ks = pre ++ sk :: post ∧ (∀ s ∈ pre, keyOk P s = true) ∧ keyOk P sk = false := by
  induction ks with
  | nil => obtain ⟨s, hs, _⟩ := h; simp at hs
  | cons a rest ih =>
    cases ha : keyOk P a with
    | false => exact ⟨[], a, rest, rfl, by simp, ha⟩
    | true =>
      obtain ⟨s, hs, hb⟩ := h
      have : ∃ s ∈ rest, keyOk P s = false := by
        rcases List.mem_cons.mp hs with e | hr
        · subst e; rw [ha] at hb; cases hb
        · exact ⟨s, hr, hb⟩
      obtain ⟨pre, sk, post, e, hp, hb'⟩ := ih this
      refine ⟨a :: pre, sk, post, by rw [e]; rfl, ?_, hb'⟩
      intro s hs
      rcases List.mem_cons.mp hs with e | hr
      · subst e; exact ha
      · exact hp s hr

/-- 3d. a file that is not fine never yields a component: the loader stops with `KeyError` or `ValueError` -/
theorem bad_file_never_builds (k : Kind) (hk : k.genericLoader = true) (n : String) (P : Args α)
    (L : Option (PV α)) (h : ¬ FileOk k P) :
    ∃ m, fromToml k n (encodeToml k P L) = .error (.key m) ∨
         fromToml k n (encodeToml k P L) = .error (.value m) := by
  have : ∃ s ∈ k.schema, keyOk P s = false := by
    unfold FileOk at h
    apply Classical.byContradiction
    intro hc
    apply h
    intro sk hsk
    cases hk' : keyOk P sk with
    | true => rfl
    | false => exact absurd ⟨sk, hsk, hk'⟩ hc
  obtain ⟨pre, sk, post, hs, hpre, hbad⟩ := first_bad P k.schema this
  unfold keyOk at hbad
  cases hl : P.lookup sk.key with
  | none =>
    rw [hl] at hbad
    exact ⟨_, Or.inl (missing_mandatory k hk n P L pre post sk hs hpre hbad hl)⟩
  | some v =>
    rw [hl] at hbad
    exact ⟨_, Or.inr (wrong_type k hk n P L pre post sk v hs hpre hl hbad)⟩

/-! ### the LinReg loader -/

/-- `mkComp .linreg` reads its arguments through `vo`, `vdrop`, `linregIgc` (`iq` / `ig`), `iis`, `rt`, `limits` -/
theorem mkComp_linreg_congr (n : String) (a a' : Args α) (hvo : a.lookup "vo" = a'.lookup "vo")
    (hvd : arg a "vdrop" (.float 0) = arg a' "vdrop" (.float 0)) (hig : linregIgc a = linregIgc a')
    (his : arg a "iis" (.float 0) = arg a' "iis" (.float 0)) (hrt : arg a "rt" (.float 0) = arg a' "rt" (.float 0))
    (hl : arg a "limits" .null = arg a' "limits" .null) :
    mkComp .linreg n a = mkComp .linreg n a' := by
  unfold mkComp
  simp only [req, hvo, hvd, hig, his, hrt, hl]

theorem dictSet_of_lookup_none {β : Type} (l : List (String × β)) (k : String) (v : β)
    (h : l.lookup k = none) : dictSet l k v = l ++ [(k, v)] := by
  induction l with
  | nil => rfl
  | cons p rest ih =>
    obtain ⟨a, b⟩ := p
    have hne : (a == k) = false := by
      cases hab : (k == a) with
      | true => simp [List.lookup, hab] at h
      | false => simpa [beq_eq_false_iff_ne, ne_comm] using hab
    have hr : rest.lookup k = none := by
      cases hab : (k == a) with
      | true => simp [List.lookup, hab] at h
      | false => simpa [List.lookup, hab] using h
    simp [dictSet, hne, ih hr]

/-- the argument list `LinReg.from_file` hands to the constructor -/
def linregCall (P : Args α) (L : Option (PV α)) (v ig : PV α) : Args α :=
  [("vo", v), ("vdrop", (P.lookup "vdrop").getD (.float 0)), ("ig", ig)] ++ limArg L ++
    [("iis", (P.lookup "iis").getD (.float 0)), ("rt", (P.lookup "rt").getD (.float 0))]

theorem linregFromToml_eq (n : String) (P : Args α) (L : Option (PV α)) (v : PV α)
    (hvo : P.lookup "vo" = some v) :
    fromToml .linreg n (encodeToml .linreg P L) =
      (linregFileIg (.dict P)).bind (fun ig => mkComp .linreg n (linregCall P L v ig)) := by
  have e : pySub (encodeToml (α := α) .linreg P L) "linreg" = .ok (.dict P) := pySub_encode .linreg P L
  have el : limitsArg (encodeToml (α := α) .linreg P L) = limArg L := limitsArg_encode .linreg P L
  simp only [fromToml, linregFromToml, e, el, getMand_dict, getOpt_dict, hvo, bind, Except.bind, pure,
    Except.pure, linregCall]

/-- 1c. `LinReg.from_file` = `LinReg(name, **P, limits=L)`: the loader moves a non-zero deprecated `iq` into
    `ig` exactly as the constructor does.  Hypotheses: `vo` present; a tabulated `iq` carries its data under
    `"iq"` and has no `"ig"` entry (otherwise both sides raise, but different exceptions / the Python replaces
    in place); the carrier's `0 < 0` is false (any ordered field, `Rat`, `Float`). -/
theorem linreg_toml_eq_ctor (h0 : ¬ (0 : α) < 0) (n : String) (P : Args α) (L : Option (PV α)) (v : PV α)
    (hvo : P.lookup "vo" = some v) (hnl : P.lookup "limits" = none)
    (hiq : ∀ d, P.lookup "iq" = some (.dict d) →
      (d.lookup "iq").isSome = true ∧ (d.filter fun kv => kv.1 != "iq").lookup "ig" = none) :
    fromToml .linreg n (encodeToml .linreg P L) = mkComp .linreg n (P ++ limArg L) := by
  have hz : isZ (0 : α) = true := by simp [isZ, h0]
  have hlim : ∀ key, (key == "limits") = false → (P ++ limArg L).lookup key = P.lookup key := by
    intro key hk
    rw [List.lookup_append, lookup_limArg L key hk]; simp
  -- what the loader computes for `ig`, and that the constructor computes the same from `P`
  obtain ⟨ig, hl, hctor⟩ : ∃ ig : PV α, linregFileIg (.dict P) = .ok ig ∧ linregIgc (P ++ limArg L) = .ok ig := by
    simp only [linregIgc, arg, hlim _ (by decide : ("iq" == "limits") = false),
      hlim _ (by decide : ("ig" == "limits") = false), linregFileIg, getOpt_dict, bind, Except.bind, pure,
      Except.pure]
    cases hq : P.lookup "iq" with
    | none => exact ⟨(P.lookup "ig").getD (.float 0), by simp [nonZeroArg, PV.num?, hz], by simp [nonZeroArg, PV.num?, hz]⟩
    | some iq =>
      cases hnz : nonZeroArg iq with
      | false => exact ⟨(P.lookup "ig").getD (.float 0), by simp [hnz], by simp [hnz]⟩
      | true =>
        cases iq with
        | dict d =>
          obtain ⟨hsome, hnoig⟩ := hiq d hq
          obtain ⟨z, hzq⟩ := Option.isSome_iff_exists.mp hsome
          exact ⟨.dict ((d.filter fun kv => kv.1 != "iq") ++ [("ig", z)]),
            by simp [hnz, hzq, dictSet_of_lookup_none _ _ _ hnoig], by simp [hnz, hzq]⟩
        | null => exact ⟨.null, by simp [hnz], by simp [hnz]⟩
        | str s => exact ⟨.str s, by simp [hnz], by simp [hnz]⟩
        | list l => exact ⟨.list l, by simp [hnz], by simp [hnz]⟩
        | bool b => exact ⟨.bool b, by simp [hnz], by simp [hnz]⟩
        | int x => exact ⟨.int x, by simp [hnz], by simp [hnz]⟩
        | float x => exact ⟨.float x, by simp [hnz], by simp [hnz]⟩
  have hload : fromToml .linreg n (encodeToml .linreg P L) = mkComp .linreg n (linregCall P L v ig) := by
    rw [linregFromToml_eq n P L v hvo, hl]; rfl
  rw [hload]
  have c1 : (linregCall P L v ig).lookup "vo" = some v := by simp [linregCall, List.lookup]
  have c2 : (linregCall P L v ig).lookup "vdrop" = some ((P.lookup "vdrop").getD (.float 0)) := by
    simp [linregCall, List.lookup]
  have c3 : (linregCall P L v ig).lookup "ig" = some ig := by simp [linregCall, List.lookup]
  have c4 : (linregCall P L v ig).lookup "iq" = none := by cases L <;> simp [linregCall, limArg, List.lookup]
  have c5 : (linregCall P L v ig).lookup "iis" = some ((P.lookup "iis").getD (.float 0)) := by
    cases L <;> simp [linregCall, limArg, List.lookup]
  have c6 : (linregCall P L v ig).lookup "rt" = some ((P.lookup "rt").getD (.float 0)) := by
    cases L <;> simp [linregCall, limArg, List.lookup]
  have c7 : (linregCall P L v ig).lookup "limits" = (limArg L).lookup "limits" := by
    cases L <;> simp [linregCall, limArg, List.lookup]
  apply mkComp_linreg_congr
  · rw [c1, hlim _ (by decide), hvo]
  · simp only [arg, c2, hlim _ (by decide : ("vdrop" == "limits") = false)]; simp
  · rw [hctor]
    simp [linregIgc, arg, c3, c4, nonZeroArg, PV.num?, hz]
    rfl
  · simp only [arg, c5, hlim _ (by decide : ("iis" == "limits") = false)]; simp
  · simp only [arg, c6, hlim _ (by decide : ("rt" == "limits") = false)]; simp
  · simp only [arg, c7, List.lookup_append, hnl]; simp

/-! ### observations -/

/-- finding F28 (repaired in /repo b74ceae): every mapping — in particular an inline table — passes a gate
    that lists `dict` -/
theorem inline_table_accepted (d : List (String × PV α)) (typ : List PyTy) (h : PyTy.dict ∈ typ) :
    typeOk (.dict d) typ = true := by
  simpa [typeOk, PV.pyTy?] using h

/-- `Converter.eff` accepts `float | dict` in a file but not `int`, although `Converter(eff=1)` is accepted -/
theorem converter_int_eff_rejected (n : String) (vo : PV α) (one : α) (hv : typeOk vo [.int, .float] = true) :
    fromToml .converter n (encodeToml .converter [("vo", vo), ("eff", .int one)] none) =
      .error (.value "Parameter eff is not of the correct type") := by
  have := wrong_type (α := α) .converter rfl n [("vo", vo), ("eff", .int one)] none
    [{ key := "vo", typ := [.int, .float], opt := false }]
    [{ key := "iq", typ := [.int, .float], opt := true, dflt := some .zero },
     { key := "iis", typ := [.int, .float], opt := true, dflt := some .zero },
     { key := "rt", typ := [.int, .float], opt := true, dflt := some .zero }]
    { key := "eff", typ := [.float, .dict], opt := false } (.int one) rfl
    (by intro s hs; simp at hs; subst hs; simpa [keyOk, List.lookup] using hv)
    (by simp [List.lookup]) rfl
  simpa using this

/-- finding F13b (observation; the property exempts LinReg): its loader has no type gate — a string for `vo`
    reaches the constructor and fails there with `TypeError`, not `ValueError` -/
theorem linreg_no_type_gate (n s : String) :
    ∃ m, fromToml (α := α) .linreg n (encodeToml .linreg [("vo", .str s)] none) = .error (.type m) := by
  refine ⟨"not a number: vo", ?_⟩
  have e : pySub (encodeToml (α := α) .linreg [("vo", .str s)] none) "linreg" = .ok (.dict [("vo", .str s)]) :=
    pySub_encode .linreg _ none
  have el : limitsArg (encodeToml (α := α) .linreg [("vo", .str s)] none) = [] := limitsArg_encode .linreg _ none
  simp only [fromToml, linregFromToml, e, el, getMand_dict, getOpt_dict, bind, Except.bind, pure, Except.pure]
  by_cases h0 : (0 : α) < 0 <;>
    simp [h0, List.lookup, nonZeroArg, PV.num?, isZ, mkComp, req, linregFileIg, getOpt_dict, numArg, bind, Except.bind, pure, Except.pure]

/-! ### non-vacuity: the statements have instances at `Rat` that build components / raise as stated -/

section Examples

private def swFile : Args Rat := [("rs", .float (-1/2)), ("ig", .int 0)]
private def swLimits : PV Rat := .dict [("vi", .list [.float 0, .float 6])]

example : fromToml .pswitch "SW" (encodeToml .pswitch swFile (some swLimits)) =
    mkComp .pswitch "SW" (swFile ++ [("limits", swLimits)]) :=
  toml_eq_ctor .pswitch rfl "SW" swFile (some swLimits) (by unfold FileOk; decide) rfl

example : (mkComp .pswitch "SW" (swFile ++ [("limits", swLimits)])).isOk = true := by decide

example : (fromToml .pswitch "SW" (encodeToml .pswitch swFile (some swLimits))).isOk = true := by decide

/-- `rs` absent: the loader fills in `RS_DEFAULT`, the constructor its own default — same component -/
example : fromToml (α := Rat) .source "S" (encodeToml .source [("vo", .int 5)] none) =
    mkComp .source "S" [("vo", .int 5)] :=
  toml_eq_ctor .source rfl "S" _ none (by unfold FileOk; decide) rfl

example : (mkComp (α := Rat) .source "S" [("vo", .int 5)]).isOk = true := by decide

/-- missing `vo` -/
example : fromToml (α := Rat) .source "S" (encodeToml .source [("rs", .float 1)] none) =
    .error (.key "Parameter dict is missing entry for 'vo'") :=
  missing_mandatory .source rfl "S" _ none [] _ _ rfl (by simp) rfl rfl

/-- `bool` is not `int` -/
example : fromToml (α := Rat) .source "S" (encodeToml .source [("vo", .bool true)] none) =
    .error (.value "Parameter vo is not of the correct type") :=
  wrong_type .source rfl "S" _ none [] _ _ (.bool true) rfl (by simp) rfl rfl

/-- a MOSFET bridge cannot be written without `vdrop` although `Rectifier("R", rs=0.1)` is accepted -/
example : fromToml (α := Rat) .rectifier "R" (encodeToml .rectifier [("rs", .float (1/10))] none) =
    .error (.key "Parameter dict is missing entry for 'vdrop'") :=
  missing_mandatory .rectifier rfl "R" _ none [] _ _ rfl (by simp) rfl rfl

example : (mkComp (α := Rat) .rectifier "R" [("rs", .float (1/10))]).isOk = true := by decide

/-- deprecated `iq` of a LinReg file ends up as `ig`, as in the constructor -/
example : fromToml (α := Rat) .linreg "L" (encodeToml .linreg [("vo", .float 3), ("iq", .int 2)] none) =
    mkComp .linreg "L" [("vo", .float 3), ("iq", .int 2)] :=
  linreg_toml_eq_ctor (by decide) "L" _ none (.float 3) rfl rfl (by intro d h; simp [List.lookup] at h)

example : (mkComp (α := Rat) .linreg "L" [("vo", .float 3), ("iq", .int 2)]).isOk = true := by
  simp [mkComp, req, arg, List.lookup, numArg, absArg, PV.num?, linregIgc, nonZeroArg, isZ, nabs, mkIg, checkLimits,
    bind, Except.bind, pure, Except.pure, Except.isOk, Except.toBool]
  decide

/-- `Converter(eff=1)` is accepted by the constructor -/
example : (mkComp (α := Rat) .converter "C" [("vo", .float 5), ("eff", .int 1)]).isOk = true := by decide

end Examples

end C13
end SysLoss
