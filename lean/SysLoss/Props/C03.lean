/-
  Props/C03 — solve() returns only converged, physical steady states, else raises; it terminates.

   * `loop_iters`, `solve_terminates` : the sweep loop is structurally recursive on its fuel
                                        (`maxiter + 1`) and reports `iters ≤ maxiter + 1`.
   * `solvePhase_sound`               : a returned `(v, i, state)` is exactly a triple on which the
                                        exit test fired: one more forward sweep `v'` and backward
                                        sweep `i'` exist with `allclose(v, v') ∧ allclose(i, i')`.
   * `solvePhase_error`               : the only other outcomes are `RuntimeError` (no convergence
                                        within `maxiter` sweeps) and an exception of a voltage law.
   * `passive_ok_physical`            : a voltage law that returns (rather than raises) for a passive
                                        series element never inverts and never amplifies its input
                                        (after the four `fix:` commits that added the missing guards);
                                        `_partial` for the Source: a negative Source with resistance
                                        still amplifies (finding F01, test-pinned).
-/
import SysLoss.Proofs.Basic
import SysLoss.Spec.Phys
import SysLoss.Model.Solver

set_option linter.unusedSectionVars false
set_option linter.unusedVariables false

namespace SysLoss
namespace C03
variable {α : Type} [Field α] [LinearOrder α] [IsStrictOrderedRing α]

/-- the exit test of `_solve` fired on `(v, i, st)` -/
def ConvergedAt (s : SSys α) (cfg : Cfg α) (phase : String) (v i : Vec α) (st : St) : Prop :=
  ∃ v' st', s.fwdProp phase v i st = .ok (v', st') ∧
    converged cfg v v' i (s.backProp phase v' i st) = true

/-- The loop either returns a triple on which the exit test fired, or runs out of fuel; in both
    cases the sweep counter stays within `start + fuel`. -/
theorem loop_spec (s : SSys α) (cfg : Cfg α) (phase : String) :
    ∀ (fuel : Nat) (v i : Vec α) (st : St) (it : Nat) (r : SolveOut α),
      s.loop cfg phase fuel v i st it = .ok r →
      r.iters ≤ it + fuel ∧ (ConvergedAt s cfg phase r.v r.i r.st ∨ r.iters = it + fuel) := by
  intro fuel
  induction fuel with
  | zero =>
    intro v i st it r h
    simp only [SSys.loop, Except.ok.injEq] at h
    subst h; exact ⟨le_refl _, Or.inr rfl⟩
  | succ n ih =>
    intro v i st it r h
    unfold SSys.loop at h
    cases hf : s.fwdProp phase v i st with
    | error e => rw [hf] at h; simp [bind, Except.bind] at h
    | ok p =>
      obtain ⟨v', st'⟩ := p
      rw [hf] at h
      simp only [bind, Except.bind] at h
      by_cases hc : converged cfg v v' i (s.backProp phase v' i st) = true
      · rw [if_pos hc] at h
        simp only [Except.ok.injEq] at h
        subst h
        exact ⟨by show it + 1 ≤ it + (n + 1); omega, Or.inl ⟨v', st', hf, hc⟩⟩
      · rw [if_neg hc] at h
        obtain ⟨h1, h2⟩ := ih _ _ _ _ _ h
        refine ⟨by omega, ?_⟩
        rcases h2 with h2 | h2
        · exact Or.inl h2
        · exact Or.inr (by omega)

/-- **Termination**: `_solve` performs at most `maxiter + 1` sweeps. -/
theorem solve_terminates (s : SSys α) (cfg : Cfg α) (phase : String) (r : SolveOut α)
    (h : s.solveRaw cfg phase = .ok r) : r.iters ≤ cfg.maxiter + 1 := by
  unfold SSys.solveRaw at h
  have := (loop_spec s cfg phase _ _ _ _ _ _ h).1
  omega

/-- **Soundness**: whatever `solve()` returns for a phase is a converged state — never an
    intermediate iterate. -/
theorem solvePhase_sound (s : SSys α) (cfg : Cfg α) (phase : String) (r : SolveOut α)
    (h : s.solvePhase cfg phase = .ok r) : ConvergedAt s cfg phase r.v r.i r.st := by
  unfold SSys.solvePhase at h
  cases hr : s.solveRaw cfg phase with
  | error e => rw [hr] at h; simp [bind, Except.bind] at h
  | ok r0 =>
    rw [hr] at h
    simp only [bind, Except.bind] at h
    split_ifs at h with hgt
    simp only [pure, Except.pure, Except.ok.injEq] at h
    subst h
    unfold SSys.solveRaw at hr
    rcases (loop_spec s cfg phase _ _ _ _ _ _ hr).2 with hc | hc
    · exact hc
    · omega

/-- the exception classes `solve()` can raise for a phase: `RuntimeError`, or whatever a voltage law
    raised during a forward sweep -/
theorem solvePhase_error (s : SSys α) (cfg : Cfg α) (phase : String) (e : Err)
    (h : s.solvePhase cfg phase = .error e) :
    e = .runtime "Steady-state not achieved" ∨ ∃ v i st, s.fwdProp phase v i st = .error e := by
  unfold SSys.solvePhase at h
  cases hr : s.solveRaw cfg phase with
  | ok r0 =>
    rw [hr] at h
    simp only [bind, Except.bind] at h
    split_ifs at h with hgt
    · simp only [Except.error.injEq] at h; exact Or.inl h.symm
    · simp [pure, Except.pure] at h
  | error e0 =>
    rw [hr] at h
    simp only [bind, Except.bind, Except.error.injEq] at h
    subst h
    right
    unfold SSys.solveRaw at hr
    -- an error of the loop is an error of some forward sweep
    have key : ∀ (fuel : Nat) (v i : Vec α) (st : St) (it : Nat),
        s.loop cfg phase fuel v i st it = .error e0 → ∃ v i st, s.fwdProp phase v i st = .error e0 := by
      intro fuel
      induction fuel with
      | zero => intro v i st it h; simp [SSys.loop] at h
      | succ n ih =>
        intro v i st it h
        unfold SSys.loop at h
        cases hf : s.fwdProp phase v i st with
        | error e1 =>
          rw [hf] at h; simp only [bind, Except.bind, Except.error.injEq] at h
          exact ⟨v, i, st, by rw [hf, h]⟩
        | ok p =>
          rw [hf] at h
          simp only [bind, Except.bind] at h
          split_ifs at h with hc
          exact ih _ _ _ _ h
    exact key _ _ _ _ _ hr

/-- **Physical outputs.**  A passive series element whose voltage law returns does not invert and
    does not amplify: the output is 0 or has the sign of the input, and |Vout| ≤ |Vin|.
    (For a rectifier "sign" means non-negative.)  The Source is stated separately. -/
theorem passive_ok_physical (c : Comp α) (hc : c.Phys)
    (hk : c.kind = .rloss ∨ c.kind = .vloss ∨ c.kind = .pswitch ∨ c.kind = .rectifier)
    (vi : List α) (io : α) (hio : 0 ≤ io) (ph : PhaseCtx α) (off : List Bool)
    {v : α} {b : Bool} (h : c.solvOutpVolt vi io ph off = .ok (v, b)) :
    |v| ≤ |vi.headD 0| ∧
      (v = 0 ∨ (c.kind ≠ .rectifier → (0 < v ↔ 0 < vi.headD 0)) ∧ (c.kind = .rectifier → 0 < v)) := by
  have hrs := hc.rs
  have hpar := hc.par (nabs io) (nabs (vi.headD 0))
  unfold Comp.solvOutpVolt at h
  generalize vi.headD 0 = vi0 at *
  rcases hk with hk | hk | hk | hk <;> simp only [hk] at h
  · -- rloss
    split_ifs at h with hz he
    · simp only [Except.ok.injEq, Prod.mk.injEq] at h; rw [← h.1]; simp [abs_nonneg]
    · simp only [Except.ok.injEq, Prod.mk.injEq] at h
      rw [eqB_iff] at he
      have hd : 0 ≤ c.rs * io := mul_nonneg hrs hio
      rcases lt_trichotomy vi0 0 with hn | hn | hn
      · rw [nsign_eq_iff_neg hn] at he
        rw [nsign_of_neg hn] at he h
        rw [← h.1]
        refine ⟨?_, Or.inr ⟨fun _ => ?_, fun hh => by rw [hk] at hh; exact absurd hh (by decide)⟩⟩
        · rw [abs_of_neg he, abs_of_neg hn]; linarith
        · constructor <;> intro hh <;> linarith
      · subst hn; simp at hz
      · rw [nsign_eq_iff_pos hn] at he
        rw [nsign_of_pos hn] at he h
        rw [← h.1]
        refine ⟨?_, Or.inr ⟨fun _ => ?_, fun hh => by rw [hk] at hh; exact absurd hh (by decide)⟩⟩
        · rw [abs_of_pos he, abs_of_pos hn]; linarith
        · constructor <;> intro hh <;> linarith
  · -- vloss
    split_ifs at h with hz he
    · simp only [Except.ok.injEq, Prod.mk.injEq] at h; rw [← h.1]; simp [abs_nonneg]
    · simp only [Except.ok.injEq, Prod.mk.injEq] at h
      rw [eqB_iff] at he
      rcases lt_trichotomy vi0 0 with hn | hn | hn
      · rw [nsign_eq_iff_neg hn] at he
        rw [nsign_of_neg hn] at he h
        rw [← h.1]
        refine ⟨?_, Or.inr ⟨fun _ => ?_, fun hh => by rw [hk] at hh; exact absurd hh (by decide)⟩⟩
        · rw [abs_of_neg he, abs_of_neg hn]; linarith
        · constructor <;> intro hh <;> linarith
      · subst hn; simp at hz
      · rw [nsign_eq_iff_pos hn] at he
        rw [nsign_of_pos hn] at he h
        rw [← h.1]
        refine ⟨?_, Or.inr ⟨fun _ => ?_, fun hh => by rw [hk] at hh; exact absurd hh (by decide)⟩⟩
        · rw [abs_of_pos he, abs_of_pos hn]; linarith
        · constructor <;> intro hh <;> linarith
  · -- pswitch
    have hd : 0 ≤ c.rs * io := mul_nonneg hrs hio
    split_ifs at h with hz hi hpos hneg
    · simp only [Except.ok.injEq, Prod.mk.injEq] at h; rw [← h.1]; simp [abs_nonneg]
    · simp only [Except.ok.injEq, Prod.mk.injEq] at h; rw [← h.1]; simp [abs_nonneg]
    · simp only [Except.ok.injEq, Prod.mk.injEq] at h
      have hp : 0 < |vi0| - c.rs * io := by simpa using hpos
      rw [← h.1]
      refine ⟨?_, Or.inr ⟨fun _ => ?_, fun hh => by rw [hk] at hh; exact absurd hh (by decide)⟩⟩
      · rw [abs_neg, abs_of_pos (by simpa using hp)]; simp only [nabs_eq_abs]; linarith
      · simp only [nabs_eq_abs]; constructor <;> intro hh <;> linarith
    · simp only [Except.ok.injEq, Prod.mk.injEq] at h
      have hp : 0 < |vi0| - c.rs * io := by simpa using hpos
      have hne : vi0 ≠ 0 := by intro e; subst e; simp at hz
      have hvp : 0 < vi0 := lt_of_le_of_ne (not_lt.mp hneg) (Ne.symm hne)
      rw [← h.1]
      refine ⟨?_, Or.inr ⟨fun _ => ?_, fun hh => by rw [hk] at hh; exact absurd hh (by decide)⟩⟩
      · simp only [nabs_eq_abs]; rw [abs_of_pos hp]; linarith
      · simp only [nabs_eq_abs]; constructor <;> intro hh <;> linarith
  · -- rectifier
    split_ifs at h with hz hd he
    · simp only [Except.ok.injEq, Prod.mk.injEq] at h; rw [← h.1]; simp [abs_nonneg]
    · simp only [Except.ok.injEq, Prod.mk.injEq] at h
      rw [eqB_iff] at he
      simp only [nabs_eq_abs] at he h hpar
      generalize c.par.interp |io| |vi0| = d at *
      rcases lt_trichotomy vi0 0 with hn | hn | hn
      · rw [nsign_eq_iff_neg hn] at he
        rw [nsign_of_neg hn] at he h
        rw [← h.1]
        refine ⟨?_, Or.inr ⟨fun hh => absurd hk hh, fun _ => abs_pos.mpr (ne_of_lt he)⟩⟩
        rw [abs_abs, abs_of_neg he, abs_of_neg hn]; linarith
      · subst hn; simp at hz
      · rw [nsign_eq_iff_pos hn] at he
        rw [nsign_of_pos hn] at he h
        rw [← h.1]
        refine ⟨?_, Or.inr ⟨fun hh => absurd hk hh, fun _ => abs_pos.mpr (ne_of_gt he)⟩⟩
        rw [abs_abs, abs_of_pos he, abs_of_pos hn]; linarith
    · cases hl : c.rsList <;> simp [hl] at h
    · rename_i hpos
      cases hl : c.rsList with
      | some l => simp [hl] at h
      | none =>
        simp only [hl, Except.ok.injEq, Prod.mk.injEq] at h
        have hp : 0 < |vi0| - 2 * c.rs * io := by simpa using hpos
        have hd : 0 ≤ 2 * c.rs * io := by have := mul_nonneg hrs hio; linarith
        rw [← h.1]
        refine ⟨?_, Or.inr ⟨fun hh => absurd hk hh, fun _ => ?_⟩⟩
        · simp only [nabs_eq_abs, abs_abs]; rw [abs_of_pos hp]; linarith
        · simp only [nabs_eq_abs]; rw [abs_of_pos hp]; exact hp

/-- Source with non-negative EMF: the returned output keeps the sign and does not exceed the EMF. -/
theorem source_ok_physical_partial (c : Comp α) (hc : c.Phys) (hk : c.kind = .source) (hvo : 0 ≤ c.vo)
    (vi : List α) (io : α) (hio : 0 ≤ io) (ph : PhaseCtx α) (off : List Bool)
    {v : α} {b : Bool} (h : c.solvOutpVolt vi io ph off = .ok (v, b)) :
    |v| ≤ |c.vo| ∧ (v = 0 ∨ 0 < v) := by
  have hd : 0 ≤ c.rs * io := mul_nonneg hc.rs hio
  unfold Comp.solvOutpVolt at h
  simp only [hk] at h
  split_ifs at h with hi hz he
  · simp only [Except.ok.injEq, Prod.mk.injEq] at h; rw [← h.1]; simp [abs_nonneg]
  · simp only [Except.ok.injEq, Prod.mk.injEq] at h; rw [← h.1]; simp [abs_nonneg]
  · simp only [Except.ok.injEq, Prod.mk.injEq] at h
    rw [eqB_iff] at he
    have hne : c.vo ≠ 0 := by
      intro e
      have : isZ c.vo = true := (isZ_iff _).mpr e
      simp [this] at hz
    have hp : 0 < c.vo := lt_of_le_of_ne hvo (Ne.symm hne)
    rw [nsign_eq_iff_pos hp] at he
    rw [← h.1]
    exact ⟨by rw [abs_of_pos he, abs_of_pos hp]; linarith, Or.inr he⟩

/-- The full Source clause ("never amplified") fails for the code as it stands: a negative Source
    with series resistance returns a magnitude above its EMF (finding F01, test-pinned). -/
def source_ok_physical_full : Prop :=
  ∀ (vo rs io : ℚ), 0 ≤ rs → 0 ≤ io → ∀ v b,
    (Comp.solvOutpVolt { name := "S", kind := .source, par := .const 0, vo := vo, rs := rs }
        [vo] io PhaseCtx.none [false]) = .ok (v, b) → |v| ≤ |vo|

theorem source_ok_physical_full_fails : ¬ source_ok_physical_full := by
  intro h
  have := h (-12) 1 1 (by norm_num) (by norm_num) (-13) false (by decide +kernel)
  norm_num at this

/-! ### a first liveness fact: an exact fixed point is returned by the very next sweep -/

theorem isClose_self (atol rtol a : α) (ha : 0 ≤ atol) (hr : 0 ≤ rtol) : isClose atol rtol a a = true := by
  unfold isClose
  rw [leB_iff, nabs_eq_abs, nabs_eq_abs, sub_self, abs_zero]
  exact add_nonneg ha (mul_nonneg hr (abs_nonneg _))

theorem allClose_self (atol rtol : α) (l : List α) (ha : 0 ≤ atol) (hr : 0 ≤ rtol) :
    allClose atol rtol l l = true := by
  unfold allClose
  induction l with
  | nil => simp
  | cons x xs ih =>
    simp only [List.zipWith_cons_cons, List.all_cons, id_eq, Bool.and_eq_true]
    exact ⟨isClose_self atol rtol x ha hr, ih⟩

/-- If one forward and one backward sweep reproduce `(v, i)` exactly, the loop stops at this sweep and
    returns `(v, i)` — whatever the (non-negative) tolerances.  (The general liveness clause of C03 —
    convergence *to* a modest-drop steady state from the solver's initial guess — is not proved.) -/
theorem exact_fixed_point_returns (s : SSys α) (cfg : Cfg α) (phase : String) (fuel : Nat)
    (v i : Vec α) (st st' : St) (it : Nat)
    (hat : 0 ≤ cfg.atol) (hv : 0 ≤ cfg.vtol) (hi : 0 ≤ cfg.itol)
    (hf : s.fwdProp phase v i st = .ok (v, st')) (hb : s.backProp phase v i st = i) :
    s.loop cfg phase (fuel + 1) v i st it = .ok ⟨v, i, it + 1, st⟩ := by
  unfold SSys.loop
  rw [hf]
  simp only [bind, Except.bind, hb]
  have hc : converged cfg v v i i = true := by
    unfold converged
    rw [allClose_self _ _ _ hat hv, allClose_self _ _ _ hat hi]; rfl
  rw [if_pos hc]

end C03
end SysLoss
