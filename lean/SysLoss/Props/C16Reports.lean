/-
  Props/C16Reports — the configuration reports `params()`, `limits()`, `phases()`, `tree()` (Model/Reports.lean, the
  model of system.py `_pars_and_limits` / `_filt_lim` / `phases` / `tree`, tied to the code by harness/reportscheck.py).
  C16: "every report lists exactly the live components; params(), limits() and phases() show for each component the
  parameters, non-default limits and per-phase values it was configured with (tables as 'interp')", and results do not
  depend on the order rustworkx happens to process the nodes in.

  Vocabulary.  `TopoLive s`: `_topo_nodes` lists exactly the live ids, once each.  `liveNames s`: the names of the live
  components.  `PhasesWF s`: the first parent of a node is live and listed before it, only SOURCEs are roots (what the
  running-domain bookkeeping of `phases()` relies on).  `TreeWF s`: children are live, every live node hangs below a
  source.  All three hold for every reachable system (C14) and are hypotheses here.  `withTopo s t`: `s` processed in
  the order `t`.

  Fully proved (no hypothesis beyond the ones named):
    params_lists_live, limits_lists_live   [TopoLive]  Component column = names in `_topo_nodes` order = a permutation
                                           of the live components' names (each node once)
    params_show_config                     (any component) the cell of a parameter column is `_get_params`'s value:
                                           blank / "interp" for a stored table / the stored value
    params_show_normalised                 (components built by `mkComp`) which columns a kind fills; the NUMBER shown is the
                                           normalised field the laws use (`normField`), `ig` up to its sign; "interp" iff
                                           the stored parameter is a table (iff the interpolator is a table); `loss` flag
    limits_show_nondefault                 a limit cell is shown iff the key is configured with a pair ≠ LIMITS_DEFAULT,
                                           and then IS that pair; blank iff the limit the warnings use is the default
    phases_rows_keys                       (Component, Active phase) columns = per node, in order, its `ph_names` (never empty)
    phases_lists_live                      [TopoLive] FULL statement: a name is listed iff it is a live component
    phases_show_activity                   source / converter / regulator / switch / mux: one row per system phase listed in
                                           its configuration (= the phases the laws treat a configured component as active
                                           in), a single "N/A" row if none; loss elements and Rectifiers: "N/A"
    phases_show_values                     (loads built by `mkComp`) the row of a system phase shows `loadVal main sleep` of
                                           that phase in the column of the load's kind only; the "N/A" row shows the main
                                           parameter = what the laws use in every phase when there is NO configuration
    phases_domain, phases_rows_wf          [PhasesWF] the Domain cell is the structural domain (source above the component
                                           along first parents), the rows are a function of the structure and the order
    reports_order_free                     (params_order_free, tree_order_free, phases_order_free [PhasesWF on both orders])
                                           another topological order permutes the rows of all four reports — Domain cells
                                           included; `None` / exception agree
  Partial:
    tree_lists_live_partial                [TreeWF] printed labels = live names, printed links = the parent → child links
  Not covered: the text layout of Rich; the DataFrame column order beyond `reportColumns`; that "N/A" is printed both for a
  component without configuration (always active) and for one whose configuration names no system phase (never active,
  a load is then shown with its main parameter although the laws use the sleep value) — `phases_show_values` says so.

  History: before /repo commit f863daa `phases()` had no branch for the RECTIFIER type and listed no Rectifier; the full
  statement was then refuted on the witness `exS`.  `regression_rectifier` keeps that witness: it now lists "RE".

  Non-vacuity: section `examples` (S → {C → I, RE, P} over ℚ with two system phases, a tabulated efficiency, non-default
  and default limits, a second processing order; constructor hypotheses discharged by kernel evaluation of `mkComp`).
-/
import SysLoss.Proofs.Ctor
import SysLoss.Model.Reports
import Mathlib.Data.List.Perm.Basic

set_option linter.unusedSectionVars false
set_option linter.unusedVariables false
set_option linter.unusedSimpArgs false

namespace SysLoss
namespace C16P
variable {α : Type} [Field α] [LinearOrder α] [IsStrictOrderedRing α]

/-! ## 0. Vocabulary -/

/-- `_topo_nodes` lists exactly the live node ids, each once (what `rx.topological_sort` returns) -/
structure TopoLive (s : SSys α) : Prop where
  nodup : s.topo.Nodup
  live  : ∀ n, n ∈ s.topo ↔ ∃ nd, s.node? n = some nd

/-- the live node ids in increasing order -/
def liveIds (s : SSys α) : List Nat := (List.range s.hidx).filter fun n => (s.node? n).isSome

/-- the names of the live components (in id order) -/
def liveNames (s : SSys α) : List String := (liveIds s).map s.nameOf

theorem node?_lt {s : SSys α} {n : Nat} {nd : SNode α} (h : s.node? n = some nd) : n < s.hidx := by
  unfold SSys.node? at h
  unfold SSys.hidx
  by_contra hn
  have : s.nodes.getD n none = none := by
    simp [Array.getD, not_lt.mp hn]
  rw [this] at h; cases h

theorem mem_liveIds (s : SSys α) (n : Nat) : n ∈ liveIds s ↔ ∃ nd, s.node? n = some nd := by
  unfold liveIds
  simp only [List.mem_filter, List.mem_range, Option.isSome_iff_exists]
  constructor
  · rintro ⟨_, h⟩; exact h
  · rintro ⟨nd, h⟩; exact ⟨node?_lt h, nd, h⟩

theorem liveIds_nodup (s : SSys α) : (liveIds s).Nodup :=
  List.Nodup.sublist List.filter_sublist List.nodup_range

theorem topo_perm_liveIds {s : SSys α} (h : TopoLive s) : s.topo.Perm (liveIds s) :=
  (List.perm_ext_iff_of_nodup h.nodup (liveIds_nodup s)).mpr fun n => by
    rw [h.live, mem_liveIds]

theorem nameOf_some {s : SSys α} {n : Nat} {nd : SNode α} (h : s.node? n = some nd) :
    s.nameOf n = nd.comp.name := by
  unfold SSys.nameOf; rw [h]

theorem lookup_map_self {β : Type} (f : String → β) : ∀ (keys : List String) (k : String), k ∈ keys →
    (keys.map fun k => (k, f k)).lookup k = some (f k)
  | [], k, h => by cases h
  | a :: l, k, h => by
    simp only [List.map_cons, List.lookup_cons]
    by_cases e : k = a
    · subst e; simp
    · have : (k == a) = false := by simpa using e
      rw [this]
      exact lookup_map_self f l k (by cases h with | head => exact absurd rfl e | tail _ h => exact h)

/-! ## 1. `params()` / `limits()` list exactly the live components, in `_topo_nodes` order -/

theorem parsAndLimits_eq (s : SSys α) (p l : Bool) :
    s.parsAndLimits p l = (s.topo.filterMap s.node?).map fun nd => nd.comp.paramRow p l := by
  unfold SSys.parsAndLimits
  rw [List.map_filterMap]

theorem parsAndLimits_names (s : SSys α) (p l : Bool) :
    (s.parsAndLimits p l).map (·.name) = s.topo.filterMap fun n => (s.node? n).map (·.comp.name) := by
  unfold SSys.parsAndLimits
  rw [List.map_filterMap]
  congr 1
  funext n
  cases s.node? n <;> rfl

theorem filterMap_names_live {s : SSys α} (h : TopoLive s) :
    (s.topo.filterMap fun n => (s.node? n).map (·.comp.name)) = s.topo.map s.nameOf := by
  have : ∀ l : List Nat, (∀ n ∈ l, ∃ nd, s.node? n = some nd) →
      (l.filterMap fun n => (s.node? n).map (·.comp.name)) = l.map s.nameOf := by
    intro l
    induction l with
    | nil => intro _; rfl
    | cons a l ih =>
      intro hl
      obtain ⟨nd, ha⟩ := hl a (List.mem_cons_self)
      rw [List.filterMap_cons, List.map_cons, ha, nameOf_some ha]
      simp only [Option.map_some]
      rw [ih fun n hn => hl n (List.mem_cons_of_mem _ hn)]
  exact this s.topo fun n hn => (h.live n).mp hn

/-- **params() lists exactly the live components**: the Component column is the list of component names in
    `_topo_nodes` order — hence a permutation of the live components' names, each node once -/
theorem params_lists_live {s : SSys α} (h : TopoLive s) (limits : Bool) :
    (paramsRows s limits).map (·.name) = s.topo.map s.nameOf ∧
    ((paramsRows s limits).map (·.name)).Perm (liveNames s) := by
  have e : (paramsRows s limits).map (·.name) = s.topo.map s.nameOf := by
    unfold paramsRows; rw [parsAndLimits_names, filterMap_names_live h]
  exact ⟨e, e ▸ (topo_perm_liveIds h).map _⟩

/-- **limits() lists exactly the live components** -/
theorem limits_lists_live {s : SSys α} (h : TopoLive s) :
    (limitsRows s).map (·.name) = s.topo.map s.nameOf ∧
    ((limitsRows s).map (·.name)).Perm (liveNames s) := by
  have e : (limitsRows s).map (·.name) = s.topo.map s.nameOf := by
    unfold limitsRows; rw [parsAndLimits_names, filterMap_names_live h]
  exact ⟨e, e ▸ (topo_perm_liveIds h).map _⟩

/-- the row of a live node is the row of its component; `Type` is the component type's name -/
theorem params_row_of_node (s : SSys α) (p l : Bool) (r : ParamRow α) :
    r ∈ s.parsAndLimits p l ↔ ∃ n ∈ s.topo, ∃ nd, s.node? n = some nd ∧ r = nd.comp.paramRow p l := by
  unfold SSys.parsAndLimits
  simp only [List.mem_filterMap, Option.map_eq_some_iff]
  constructor
  · rintro ⟨n, hn, nd, hnd, rfl⟩; exact ⟨n, hn, nd, hnd, rfl⟩
  · rintro ⟨n, hn, nd, hnd, rfl⟩; exact ⟨n, hn, nd, hnd, rfl⟩

/-! ## 2. `limits()`: a limit is shown iff it differs from the default, and then it is the configured pair -/

theorem filtLim_some_iff (lim : List (String × (α × α))) (k : String) (l : α × α) :
    filtLim lim k = some l ↔ lim.lookup k = some l ∧ l ≠ limitsDefault k := by
  unfold filtLim
  cases h : lim.lookup k with
  | none => simp
  | some x =>
    simp only [Option.some.injEq]
    by_cases e : x = limitsDefault k
    · have : (eqB x.1 (limitsDefault (α := α) k).1 && eqB x.2 (limitsDefault (α := α) k).2) = true := by
        rw [e]; simp
      rw [if_pos this]
      constructor
      · intro h'; cases h'
      · rintro ⟨rfl, h'⟩; exact absurd e h'
    · have : ¬ (eqB x.1 (limitsDefault (α := α) k).1 && eqB x.2 (limitsDefault (α := α) k).2) = true := by
        intro h'
        simp only [Bool.and_eq_true, eqB_iff] at h'
        exact e (Prod.ext h'.1 h'.2)
      rw [if_neg this]
      simp only [Option.some.injEq]
      constructor
      · rintro rfl; exact ⟨rfl, e⟩
      · rintro ⟨rfl, _⟩; rfl

/-- `_filt_lim` in terms of the limit the warnings use (`lookupLimit` = `_get_opt(limits, key, LIMITS_DEFAULT[key])`):
    blank iff the effective limit is the default, else the effective limit -/
theorem filtLim_eq (lim : List (String × (α × α))) (k : String) :
    filtLim lim k = if lookupLimit lim k = limitsDefault k then none else some (lookupLimit lim k) := by
  unfold lookupLimit
  cases h : lim.lookup k with
  | none => simp [filtLim, h]
  | some x =>
    simp only
    by_cases e : x = limitsDefault k
    · rw [if_pos e]
      cases h' : filtLim lim k with
      | none => rfl
      | some l => exact absurd ((filtLim_some_iff lim k l).mp h') (by rintro ⟨h1, h2⟩; rw [h] at h1; cases h1; exact h2 e)
    · rw [if_neg e]
      exact (filtLim_some_iff lim k x).mpr ⟨h, e⟩

/-- **limits()/params(limits=True) show exactly the non-default limits**: in the row of a component, the cell of
    limit `k` is the `_filt_lim` value; it is non-blank iff the key was configured with a pair different from
    `LIMITS_DEFAULT[k]`, and then it IS that pair — equivalently, iff the limit the warnings are checked against
    differs from the default. -/
theorem limits_show_nondefault (c : Comp α) (p : Bool) (k : String) (hk : k ∈ allLimitKeys) :
    (c.paramRow p true).lims.lookup k = some (filtLim c.limits k) ∧
    (∀ l, filtLim c.limits k = some l ↔ c.limits.lookup k = some l ∧ l ≠ limitsDefault k) ∧
    (filtLim c.limits k = none ↔ lookupLimit c.limits k = limitsDefault k) ∧
    (∀ l, filtLim c.limits k = some l → lookupLimit c.limits k = l) := by
  refine ⟨?_, fun l => filtLim_some_iff _ _ _, ?_, ?_⟩
  · unfold Comp.paramRow
    simp only [if_true]
    exact lookup_map_self (fun k => filtLim c.limits k) allLimitKeys k hk
  · rw [filtLim_eq]; split_ifs with h <;> simp [h]
  · intro l; rw [filtLim_eq]; split_ifs with h <;> simp

/-- a report without the limits block has no limit cells; one without the parameter block no parameter cells -/
theorem blocks_absent (c : Comp α) : (c.paramRow true false).lims = [] ∧ (c.paramRow false true).pars = [] := by
  constructor <;> rfl

/-! ## 3. `params()`: what a parameter cell shows -/

theorem paramCell_spec (ps : List (String × PV α)) (k : String) :
    (ps.lookup k = none → paramCell ps k = .str "") ∧
    (∀ d, ps.lookup k = some (.dict d) → paramCell ps k = .str "interp") ∧
    (∀ v, ps.lookup k = some v → v.isDict = false → paramCell ps k = v) := by
  unfold paramCell
  refine ⟨fun h => by rw [h], fun d h => by rw [h], fun v h hv => ?_⟩
  rw [h]
  cases v <;> simp [PV.isDict] at hv ⊢

/-- **params() shows the stored parameters** (any component): in the row of a component the cell of parameter key
    `k` is `_get_params`'s value: blank when `_params` has no such key, `"interp"` when the stored value is a table,
    the stored value itself otherwise. -/
theorem params_show_config (c : Comp α) (l : Bool) (k : String) (hk : k ∈ paramKeys) :
    (c.paramRow true l).pars.lookup k = some (paramCell c.params k) ∧
    (c.params.lookup k = none → paramCell c.params k = .str "") ∧
    (∀ d, c.params.lookup k = some (.dict d) → paramCell c.params k = .str "interp") ∧
    (∀ v, c.params.lookup k = some v → v.isDict = false → paramCell c.params k = v) := by
  refine ⟨?_, paramCell_spec c.params k⟩
  unfold Comp.paramRow
  simp only [if_true]
  exact lookup_map_self (fun k => paramCell c.params k) paramKeys k hk

/-- the interpolator is a table -/
def IsTab (p : Param α) : Prop := ∀ x, p ≠ .const x

theorem mkTable_isTab {d : List (String × PV α)} {z : String} {chk : List α → Except Err Unit}
    {p : Param α} {vals : List α} (h : mkTable d z chk = .ok (p, vals)) : IsTab p := by
  obtain ⟨ios, rows, _, _, _, _, hp⟩ := mkTable_ok h
  intro x
  rcases hp with ⟨_, rfl⟩ | ⟨vis, _, _, _, rfl⟩ <;> simp

theorem stripDiag_dict (d : List (String × PV α)) : ∃ d', stripDiag (.dict d : PV α) = .dict d' := ⟨_, rfl⟩

theorem stripDiag_num {x : PV α} {v : α} (h : x.num? = some v) : stripDiag x = x := by
  cases x <;> simp [PV.num?] at h <;> rfl

theorem mkIg_shows {ig : PV α} {p : Param α} (h : mkIg ig = .ok p) :
    (∃ x, (stripDiag ig).num? = some x ∧ p = .const |x|) ∨ (∃ d, stripDiag ig = .dict d ∧ IsTab p) := by
  rcases mkIg_ok h with ⟨v, hv, hp⟩ | ⟨d, vals, rfl, ht⟩
  · left; exact ⟨v, by rw [stripDiag_num hv]; exact hv, hp⟩
  · right; exact ⟨_, rfl, mkTable_isTab ht⟩

theorem mkEff_shows {eff : PV α} {p : Param α} (h : mkEff eff = .ok p) :
    (∃ x, (stripDiag eff).num? = some x ∧ p = .const x) ∨ (∃ d, stripDiag eff = .dict d ∧ IsTab p) := by
  unfold mkEff at h
  cases eff with
  | dict d =>
    right
    simp only at h
    obtain ⟨pv, hpv, h⟩ := ex_bind_eq_ok h
    obtain ⟨p', vals⟩ := pv
    simp at h; subst h
    exact ⟨_, rfl, mkTable_isTab hpv⟩
  | _ =>
    left
    simp only at h
    obtain ⟨e, he, h⟩ := ex_bind_eq_ok h
    have hn := numArg_ok he
    refine ⟨e, by rw [stripDiag_num hn]; exact hn, ?_⟩
    split_ifs at h
    all_goals simp at h
    exact h.symm

theorem mkVdrop_shows {vd : PV α} {ps : Param α × PV α} (h : mkVdrop vd = .ok ps) :
    (∃ x, ps.2 = .float x ∧ ps.1 = .const x) ∨ (∃ d, ps.2 = .dict d ∧ IsTab ps.1) := by
  unfold mkVdrop at h
  cases vd with
  | dict d =>
    right
    simp only at h
    obtain ⟨pv, hpv, h⟩ := ex_bind_eq_ok h
    obtain ⟨p', vals⟩ := pv
    simp at h; subst h
    exact ⟨_, rfl, mkTable_isTab hpv⟩
  | _ =>
    left
    simp only at h
    obtain ⟨v, hv, h⟩ := ex_bind_eq_ok h
    simp at h; subst h
    exact ⟨v, rfl, rfl⟩

theorem mkRsMux_shows {rsA : PV α} {rr : α × Option (List α) × PV α} (h : mkRsMux rsA = .ok rr) :
    (rr.2.1 = none ∧ rr.2.2 = .float rr.1) ∨
    (∃ l, rr.2.2 = .list l ∧ rr.2.1 = some (l.filterMap PV.num?) ∧ l.all PV.isNumber = true) := by
  unfold mkRsMux at h
  cases rsA with
  | list l =>
    right
    simp only at h
    by_cases hl : l.all PV.isNumber = true
    · rw [if_pos hl] at h; simp at h; subst h; exact ⟨l, rfl, rfl, hl⟩
    · rw [if_neg hl] at h; simp at h
  | _ =>
    left
    simp only at h
    obtain ⟨v, hv, h⟩ := ex_bind_eq_ok h
    simp at h; subst h
    exact ⟨rfl, rfl⟩

theorem mkRsRect_shows {rsA : PV α} {rr : α × Option (List α) × PV α} (h : mkRsRect rsA = .ok rr) :
    (rr.2.1 = none ∧ rr.2.2 = .float rr.1) ∨
    (∃ l, rr.2.2 = .list l ∧ rr.2.1 = some (l.filterMap PV.num?) ∧ l.all PV.isNumber = true) := by
  unfold mkRsRect at h
  cases rsA with
  | list l =>
    right
    simp only at h
    by_cases hl : l.all PV.isNumber = true
    · rw [if_pos hl] at h; simp at h; subst h; exact ⟨l, rfl, rfl, hl⟩
    · rw [if_neg hl] at h; simp at h
  | _ =>
    left
    simp only at h
    split_ifs at h with hn
    all_goals (obtain ⟨v, hv, h⟩ := ex_bind_eq_ok h; simp at h; subst h; exact ⟨rfl, rfl⟩)

/-- what the stored `_params` of a constructed component say about the normalised fields the laws use -/
structure Shows (c : Comp α) : Prop where
  vo    : ∀ v, c.params.lookup "vo" = some v → v.num? = some c.vo
  rs    : ∀ v, c.params.lookup "rs" = some v →
            (c.rsList = none ∧ v = .float c.rs) ∨
            (∃ l, v = .list l ∧ c.rsList = some (l.filterMap PV.num?) ∧ l.all PV.isNumber = true)
  vdrop : ∀ v, c.params.lookup "vdrop" = some v →
            (c.kind = .linreg ∧ v = .float c.vdrop) ∨
            (c.kind ≠ .linreg ∧ ((∃ x, v = .float x ∧ c.par = .const x) ∨ (∃ d, v = .dict d ∧ IsTab c.par)))
  eff   : ∀ v, c.params.lookup "eff" = some v →
            (∃ x, v.num? = some x ∧ c.par = .const x) ∨ (∃ d, v = .dict d ∧ IsTab c.par)
  ig    : ∀ v, c.params.lookup "ig" = some v →
            (∃ x, v.num? = some x ∧ c.par = .const |x|) ∨ (∃ d, v = .dict d ∧ IsTab c.par)
  iq    : ∀ v, c.params.lookup "iq" = some v → v = .float c.iq
  ii    : ∀ v, c.params.lookup "ii" = some v → v = .float c.ii
  iis   : ∀ v, c.params.lookup "iis" = some v → v = .float c.iis
  rt    : ∀ v, c.params.lookup "rt" = some v → v = .float c.rt
  pwr   : ∀ v, c.params.lookup "pwr" = some v → v = .float c.pwr
  pwrs  : ∀ v, c.params.lookup "pwrs" = some v → v = .float c.pwrs
  loss  : ∀ v, c.params.lookup "loss" = some v → c.loss = truthy v

/-- the parameter columns a kind fills (`diode`: the Rectifier variant) -/
def kindCols (k : Kind) (diode : Bool) : List String :=
  match k with
  | .source => ["vo", "rs", "rt"]
  | .pload => ["pwr", "pwrs", "rt", "loss"]
  | .iload => ["ii", "iis", "rt", "loss"]
  | .rload => ["rs", "rt", "loss"]
  | .rloss => ["rs", "rt"]
  | .vloss => ["rt", "vdrop"]
  | .converter => ["vo", "eff", "iq", "iis", "rt"]
  | .linreg => ["vo", "vdrop", "ig", "iis", "rt"]
  | .pswitch => ["rs", "ig", "iis", "rt"]
  | .pmux => ["rs", "ig", "iis", "rt"]
  | .rectifier => if diode then ["vdrop", "rt"] else ["rs", "ig", "iq", "rt"]

/-- keys of an association list -/
def keysOf (ps : List (String × PV α)) : List String := ps.map (·.1)

/-- closes the `Shows` fields of a literal `_params` list whose key is absent or stored as `.float field` -/
macro "shows_easy" : tactic =>
  `(tactic| (intro v hv; simp [List.lookup] at hv; try (subst hv; first | rfl | simp [PV.num?])))

theorem mkComp_shows (kind : Kind) (name : String) (a : Args α) (c : Comp α)
    (h : mkComp kind name a = .ok c) :
    Shows c ∧ c.kind = kind ∧ c.name = name ∧
    keysOf c.params = "name" :: (if kind = .rectifier then ["type"] else []) ++ kindCols kind c.diode := by
  unfold mkComp at h
  cases kind <;> simp only at h
  case source =>
    obtain ⟨vo, hvo, h⟩ := ex_bind_eq_ok h
    obtain ⟨rs, hr, h⟩ := ex_bind_eq_ok h
    obtain ⟨lim, hlim, h⟩ := ex_bind_eq_ok h
    obtain ⟨vov, hvov, h⟩ := ex_bind_eq_ok h
    simp only [ex_pure, Except.ok.injEq] at h; subst h
    refine ⟨⟨?_, ?_, ?_, ?_, ?_, ?_, ?_, ?_, ?_, ?_, ?_, ?_⟩, rfl, rfl, rfl⟩
    · intro v hv; simp [List.lookup] at hv; subst hv; exact numArg_ok hvov
    · intro v hv; simp [List.lookup] at hv; subst hv; exact Or.inl ⟨rfl, rfl⟩
    all_goals shows_easy
  case pload =>
    obtain ⟨x, hx, h⟩ := ex_bind_eq_ok h
    obtain ⟨pwr, h1, h⟩ := ex_bind_eq_ok h
    obtain ⟨pwrs, h2, h⟩ := ex_bind_eq_ok h
    obtain ⟨rt, h3, h⟩ := ex_bind_eq_ok h
    obtain ⟨lim, hlim, h⟩ := ex_bind_eq_ok h
    simp only [ex_pure, Except.ok.injEq] at h; subst h
    refine ⟨⟨?_, ?_, ?_, ?_, ?_, ?_, ?_, ?_, ?_, ?_, ?_, ?_⟩, rfl, rfl, rfl⟩
    all_goals shows_easy
  case iload =>
    obtain ⟨x, hx, h⟩ := ex_bind_eq_ok h
    obtain ⟨ii, h1, h⟩ := ex_bind_eq_ok h
    obtain ⟨lim, hlim, h⟩ := ex_bind_eq_ok h
    obtain ⟨iis, h2, h⟩ := ex_bind_eq_ok h
    obtain ⟨rt, h3, h⟩ := ex_bind_eq_ok h
    simp only [ex_pure, Except.ok.injEq] at h; subst h
    refine ⟨⟨?_, ?_, ?_, ?_, ?_, ?_, ?_, ?_, ?_, ?_, ?_, ?_⟩, rfl, rfl, rfl⟩
    all_goals shows_easy
  case rload =>
    obtain ⟨x, hx, h⟩ := ex_bind_eq_ok h
    obtain ⟨rs, h1, h⟩ := ex_bind_eq_ok h
    by_cases hz : isZ rs = true
    · rw [if_pos hz] at h; simp at h
    · rw [if_neg hz] at h
      obtain ⟨rt, h3, h⟩ := ex_bind_eq_ok h
      obtain ⟨lim, hlim, h⟩ := ex_bind_eq_ok h
      simp only [ex_pure, Except.ok.injEq] at h; subst h
      refine ⟨⟨?_, ?_, ?_, ?_, ?_, ?_, ?_, ?_, ?_, ?_, ?_, ?_⟩, rfl, rfl, rfl⟩
      · shows_easy
      · intro v hv; simp [List.lookup] at hv; subst hv; exact Or.inl ⟨rfl, rfl⟩
      all_goals shows_easy
  case rloss =>
    obtain ⟨x, hx, h⟩ := ex_bind_eq_ok h
    obtain ⟨rs, h1, h⟩ := ex_bind_eq_ok h
    obtain ⟨rt, h3, h⟩ := ex_bind_eq_ok h
    obtain ⟨lim, hlim, h⟩ := ex_bind_eq_ok h
    simp only [ex_pure, Except.ok.injEq] at h; subst h
    refine ⟨⟨?_, ?_, ?_, ?_, ?_, ?_, ?_, ?_, ?_, ?_, ?_, ?_⟩, rfl, rfl, rfl⟩
    · shows_easy
    · intro v hv; simp [List.lookup] at hv; subst hv; exact Or.inl ⟨rfl, rfl⟩
    all_goals shows_easy
  case vloss =>
    obtain ⟨x, hx, h⟩ := ex_bind_eq_ok h
    obtain ⟨rt, h3, h⟩ := ex_bind_eq_ok h
    obtain ⟨ps, hps, h⟩ := ex_bind_eq_ok h
    obtain ⟨lim, hlim, h⟩ := ex_bind_eq_ok h
    simp only [ex_pure, Except.ok.injEq] at h; subst h
    refine ⟨⟨?_, ?_, ?_, ?_, ?_, ?_, ?_, ?_, ?_, ?_, ?_, ?_⟩, rfl, rfl, rfl⟩
    · shows_easy
    · shows_easy
    · intro v hv; simp [List.lookup] at hv; subst hv
      exact Or.inr ⟨by simp, mkVdrop_shows hps⟩
    all_goals shows_easy
  case converter =>
    obtain ⟨vo, hvo, h⟩ := ex_bind_eq_ok h
    obtain ⟨eff, heff, h⟩ := ex_bind_eq_ok h
    obtain ⟨par, hpar, h⟩ := ex_bind_eq_ok h
    obtain ⟨iq, h1, h⟩ := ex_bind_eq_ok h
    obtain ⟨iis, h2, h⟩ := ex_bind_eq_ok h
    obtain ⟨rt, h3, h⟩ := ex_bind_eq_ok h
    obtain ⟨lim, hlim, h⟩ := ex_bind_eq_ok h
    obtain ⟨vov, hvov, h⟩ := ex_bind_eq_ok h
    simp only [ex_pure, Except.ok.injEq] at h; subst h
    refine ⟨⟨?_, ?_, ?_, ?_, ?_, ?_, ?_, ?_, ?_, ?_, ?_, ?_⟩, rfl, rfl, rfl⟩
    · intro v hv; simp [List.lookup] at hv; subst hv; exact numArg_ok hvov
    · shows_easy
    · shows_easy
    · intro v hv; simp [List.lookup] at hv; subst hv; exact mkEff_shows hpar
    all_goals shows_easy
  case linreg =>
    obtain ⟨vo, hvo, h⟩ := ex_bind_eq_ok h
    obtain ⟨vov, hvov, h⟩ := ex_bind_eq_ok h
    obtain ⟨vdrop, hvd, h⟩ := ex_bind_eq_ok h
    by_cases hd : (!decide (vdrop < nabs vov)) = true
    · rw [if_pos hd] at h; simp at h
    · rw [if_neg hd] at h
      obtain ⟨igc, higc, h⟩ := ex_bind_eq_ok h
      obtain ⟨par, hpar, h⟩ := ex_bind_eq_ok h
      obtain ⟨iis, h2, h⟩ := ex_bind_eq_ok h
      obtain ⟨rt, h3, h⟩ := ex_bind_eq_ok h
      obtain ⟨lim, hlim, h⟩ := ex_bind_eq_ok h
      simp only [ex_pure, Except.ok.injEq] at h; subst h
      refine ⟨⟨?_, ?_, ?_, ?_, ?_, ?_, ?_, ?_, ?_, ?_, ?_, ?_⟩, rfl, rfl, rfl⟩
      · intro v hv; simp [List.lookup] at hv; subst hv; exact numArg_ok hvov
      · shows_easy
      · intro v hv; simp [List.lookup] at hv; subst hv; exact Or.inl ⟨rfl, rfl⟩
      · shows_easy
      · intro v hv; simp [List.lookup] at hv; subst hv; exact mkIg_shows hpar
      all_goals shows_easy
  case pswitch =>
    obtain ⟨rs, h1, h⟩ := ex_bind_eq_ok h
    obtain ⟨par, hpar, h⟩ := ex_bind_eq_ok h
    obtain ⟨iis, h2, h⟩ := ex_bind_eq_ok h
    obtain ⟨rt, h3, h⟩ := ex_bind_eq_ok h
    obtain ⟨lim, hlim, h⟩ := ex_bind_eq_ok h
    simp only [ex_pure, Except.ok.injEq] at h; subst h
    refine ⟨⟨?_, ?_, ?_, ?_, ?_, ?_, ?_, ?_, ?_, ?_, ?_, ?_⟩, rfl, rfl, rfl⟩
    · shows_easy
    · intro v hv; simp [List.lookup] at hv; subst hv; exact Or.inl ⟨rfl, rfl⟩
    · shows_easy
    · shows_easy
    · intro v hv; simp [List.lookup] at hv; subst hv; exact mkIg_shows hpar
    all_goals shows_easy
  case pmux =>
    obtain ⟨rr, hrr, h⟩ := ex_bind_eq_ok h
    obtain ⟨par, hpar, h⟩ := ex_bind_eq_ok h
    obtain ⟨iis, h2, h⟩ := ex_bind_eq_ok h
    obtain ⟨rt, h3, h⟩ := ex_bind_eq_ok h
    obtain ⟨lim, hlim, h⟩ := ex_bind_eq_ok h
    simp only [ex_pure, Except.ok.injEq] at h; subst h
    refine ⟨⟨?_, ?_, ?_, ?_, ?_, ?_, ?_, ?_, ?_, ?_, ?_, ?_⟩, rfl, rfl, rfl⟩
    · shows_easy
    · intro v hv; simp [List.lookup] at hv; subst hv; exact mkRsMux_shows hrr
    · shows_easy
    · shows_easy
    · intro v hv; simp [List.lookup] at hv; subst hv; exact mkIg_shows hpar
    all_goals shows_easy
  case rectifier =>
    by_cases hnz : nonZeroArg (arg a "vdrop" (.float 0)) = true
    · rw [if_pos hnz] at h
      obtain ⟨ps, hps, h⟩ := ex_bind_eq_ok h
      obtain ⟨rt, h3, h⟩ := ex_bind_eq_ok h
      obtain ⟨lim, hlim, h⟩ := ex_bind_eq_ok h
      simp only [ex_pure, Except.ok.injEq] at h; subst h
      refine ⟨⟨?_, ?_, ?_, ?_, ?_, ?_, ?_, ?_, ?_, ?_, ?_, ?_⟩, rfl, rfl, rfl⟩
      · shows_easy
      · shows_easy
      · intro v hv; simp [List.lookup] at hv; subst hv
        exact Or.inr ⟨by simp, mkVdrop_shows hps⟩
      all_goals shows_easy
    · rw [if_neg hnz] at h
      obtain ⟨rr, hrr, h⟩ := ex_bind_eq_ok h
      obtain ⟨par, hpar, h⟩ := ex_bind_eq_ok h
      obtain ⟨iq, h1, h⟩ := ex_bind_eq_ok h
      obtain ⟨rt, h3, h⟩ := ex_bind_eq_ok h
      obtain ⟨lim, hlim, h⟩ := ex_bind_eq_ok h
      simp only [ex_pure, Except.ok.injEq] at h; subst h
      refine ⟨⟨?_, ?_, ?_, ?_, ?_, ?_, ?_, ?_, ?_, ?_, ?_, ?_⟩, rfl, rfl, rfl⟩
      · shows_easy
      · intro v hv; simp [List.lookup] at hv; subst hv; exact mkRsRect_shows hrr
      · shows_easy
      · shows_easy
      · intro v hv; simp [List.lookup] at hv; subst hv; exact mkIg_shows hpar
      all_goals shows_easy

/-! ### the shown numbers are the normalised fields -/

theorem mem_keys_lookup : ∀ (ps : List (String × PV α)) (k : String), k ∈ keysOf ps ↔ ∃ v, ps.lookup k = some v
  | [], k => by simp [keysOf]
  | (a, w) :: ps, k => by
    have ih := mem_keys_lookup ps k
    unfold keysOf at ih ⊢
    simp only [List.map_cons, List.mem_cons, List.lookup_cons]
    by_cases e : k = a
    · subst e; simp
    · have : (k == a) = false := by simpa using e
      rw [this]; simp only [e, false_or]; exact ih

theorem cell_of_num {ps : List (String × PV α)} {k : String} {v : PV α} {x : α}
    (h : ps.lookup k = some v) (hx : v.num? = some x) : paramCell ps k = v := by
  unfold paramCell; rw [h]
  cases v <;> simp [PV.num?] at hx <;> rfl

theorem cell_of_list {ps : List (String × PV α)} {k : String} {l : List (PV α)}
    (h : ps.lookup k = some (.list l)) : paramCell ps k = .list l := by
  unfold paramCell; rw [h]

theorem cell_of_dict {ps : List (String × PV α)} {k : String} {d : List (String × PV α)}
    (h : ps.lookup k = some (.dict d)) : paramCell ps k = .str "interp" := by
  unfold paramCell; rw [h]

theorem cell_of_none {ps : List (String × PV α)} {k : String}
    (h : ps.lookup k = none) : paramCell ps k = .str "" := by
  unfold paramCell; rw [h]

/-- the normalised field of the component (what the laws read) behind a numeric parameter column; `none` where the
    column can only show a table (`"interp"`), a list, or is stored as given (`ig`, `loss`) -/
def constOf (p : Param α) : Option α :=
  match p with
  | .const x => some x
  | _ => none

def normField (c : Comp α) (k : String) : Option α :=
  match k with
  | "vo" => some c.vo
  | "rs" => if c.rsList.isNone then some c.rs else none
  | "vdrop" => if c.kind = .linreg then some c.vdrop
               else constOf c.par
  | "eff" => constOf c.par
  | "rt" => some c.rt
  | "iq" => some c.iq
  | "ii" => some c.ii
  | "iis" => some c.iis
  | "pwr" => some c.pwr
  | "pwrs" => some c.pwrs
  | _ => none

theorem normField_vdrop (c : Comp α) : normField c "vdrop" =
    if c.kind = .linreg then some c.vdrop else constOf c.par := rfl
theorem normField_eff (c : Comp α) : normField c "eff" = constOf c.par := rfl

theorem isTab_match {p : Param α} (h : IsTab p) : constOf p = none := by
  cases p with
  | const x => exact absurd rfl (h x)
  | _ => rfl

/-- **params() shows the normalised parameters** (components built by a constructor).  For a parameter column `k`:
    * the column is blank unless `k` is one of the kind's columns (`kindCols`), and those are all stored;
    * for every column but `ig` and `loss` the NUMBER shown is exactly the normalised field the laws use
      (`normField`: `vo`, scalar `rs`, LinReg `vdrop`, constant `eff` / `vdrop`, `rt`, `iq`, `ii`, `iis`, `pwr`, `pwrs`), and
      a cell that shows no number shows `"interp"` (tabulated `eff` / `vdrop`) or the list form of `rs`;
    * `ig` is stored as given: a shown number `x` means the ground current is the constant `|x|`, otherwise the cell
      is `"interp"` and the interpolator is a table;
    * `"interp"` is shown iff the stored parameter is a table (every column but `loss`);
    * the `loss` flag of a load is the truth value of what is stored (and shown, unless a dict was passed). -/
theorem params_show_normalised (kind : Kind) (name : String) (a : Args α) (c : Comp α)
    (h : mkComp kind name a = .ok c) (k : String) (hk : k ∈ paramKeys) :
    (k ∈ kindCols kind c.diode ↔ ∃ v, c.params.lookup k = some v) ∧
    (k ∉ kindCols kind c.diode → paramCell c.params k = .str "") ∧
    (k ∈ kindCols kind c.diode → k ≠ "ig" → k ≠ "loss" →
        (paramCell c.params k).num? = normField c k ∧
        ((paramCell c.params k).num? = none →
          (paramCell c.params k = .str "interp" ∧ IsTab c.par) ∨ ∃ l, paramCell c.params k = .list l)) ∧
    (k = "ig" → k ∈ kindCols kind c.diode →
        (∀ x, (paramCell c.params k).num? = some x → c.par = .const |x|) ∧
        ((paramCell c.params k).num? = none → paramCell c.params k = .str "interp" ∧ IsTab c.par)) ∧
    (k ≠ "loss" → (paramCell c.params k = .str "interp" ↔ ∃ d, c.params.lookup k = some (.dict d))) ∧
    (k = "loss" → ∀ v, c.params.lookup k = some v → c.loss = truthy v) := by
  obtain ⟨sh, hkind, hname, hkeys⟩ := mkComp_shows kind name a c h
  have hmem : k ∈ kindCols kind c.diode ↔ ∃ v, c.params.lookup k = some v := by
    rw [← mem_keys_lookup, hkeys]
    have h1 : k ≠ "name" := by intro e; subst e; simp [paramKeys] at hk
    have h2 : k ≠ "type" := by intro e; subst e; simp [paramKeys] at hk
    by_cases hr : kind = .rectifier <;> simp [hr, h1, h2]
  -- what is stored under each key, in a uniform shape
  have hshape : ∀ v, c.params.lookup k = some v → k ≠ "loss" →
      ((∃ x, v.num? = some x ∧ (k ≠ "ig" → normField c k = some x) ∧ (k = "ig" → c.par = .const |x|)) ∨
       (∃ l, v = .list l ∧ normField c k = none ∧ k ≠ "ig") ∨
       (∃ d, v = .dict d ∧ normField c k = none ∧ IsTab c.par)) := by
    intro v hv hloss
    simp only [paramKeys, List.mem_cons, List.mem_nil_iff, or_false] at hk
    rcases hk with rfl | rfl | rfl | rfl | rfl | rfl | rfl | rfl | rfl | rfl | rfl | rfl
    · exact Or.inl ⟨c.vo, sh.vo v hv, fun _ => rfl, fun e => absurd e (by decide)⟩
    · rcases sh.vdrop v hv with ⟨hl, rfl⟩ | ⟨hl, ⟨x, rfl, hp⟩ | ⟨d, rfl, hp⟩⟩
      · exact Or.inl ⟨c.vdrop, rfl, fun _ => by simp [normField, hl], fun e => absurd e (by decide)⟩
      · exact Or.inl ⟨x, rfl, fun _ => by simp [normField, hl, hp, constOf], fun e => absurd e (by decide)⟩
      · exact Or.inr (Or.inr ⟨d, rfl, by rw [normField_vdrop, if_neg hl]; exact isTab_match hp, hp⟩)
    · rcases sh.rs v hv with ⟨hl, rfl⟩ | ⟨l, rfl, hl, _⟩
      · exact Or.inl ⟨c.rs, rfl, fun _ => by simp [normField, hl], fun e => absurd e (by decide)⟩
      · exact Or.inr (Or.inl ⟨l, rfl, by simp [normField, hl], by decide⟩)
    · exact Or.inl ⟨c.rt, by rw [sh.rt v hv]; rfl, fun _ => rfl, fun e => absurd e (by decide)⟩
    · rcases sh.eff v hv with ⟨x, hx, hp⟩ | ⟨d, rfl, hp⟩
      · exact Or.inl ⟨x, hx, fun _ => by simp [normField, hp, constOf], fun e => absurd e (by decide)⟩
      · exact Or.inr (Or.inr ⟨d, rfl, by rw [normField_eff]; exact isTab_match hp, hp⟩)
    · rcases sh.ig v hv with ⟨x, hx, hp⟩ | ⟨d, rfl, hp⟩
      · exact Or.inl ⟨x, hx, fun e => absurd rfl e, fun _ => hp⟩
      · exact Or.inr (Or.inr ⟨d, rfl, rfl, hp⟩)
    · exact Or.inl ⟨c.iq, by rw [sh.iq v hv]; rfl, fun _ => rfl, fun e => absurd e (by decide)⟩
    · exact Or.inl ⟨c.ii, by rw [sh.ii v hv]; rfl, fun _ => rfl, fun e => absurd e (by decide)⟩
    · exact Or.inl ⟨c.iis, by rw [sh.iis v hv]; rfl, fun _ => rfl, fun e => absurd e (by decide)⟩
    · exact Or.inl ⟨c.pwr, by rw [sh.pwr v hv]; rfl, fun _ => rfl, fun e => absurd e (by decide)⟩
    · exact Or.inl ⟨c.pwrs, by rw [sh.pwrs v hv]; rfl, fun _ => rfl, fun e => absurd e (by decide)⟩
    · exact absurd rfl hloss
  refine ⟨hmem, ?_, ?_, ?_, ?_, ?_⟩
  · intro hn
    apply cell_of_none
    cases hl : c.params.lookup k with
    | none => rfl
    | some v => exact absurd (hmem.mpr ⟨v, hl⟩) hn
  · intro hin hig hloss
    obtain ⟨v, hv⟩ := hmem.mp hin
    rcases hshape v hv hloss with ⟨x, hx, hn, _⟩ | ⟨l, rfl, hn, _⟩ | ⟨d, rfl, hn, hp⟩
    · rw [cell_of_num hv hx, hx, hn hig]
      exact ⟨rfl, fun e => (by cases e)⟩
    · rw [cell_of_list hv, hn]
      exact ⟨rfl, fun _ => Or.inr ⟨l, rfl⟩⟩
    · rw [cell_of_dict hv, hn]
      exact ⟨rfl, fun _ => Or.inl ⟨rfl, hp⟩⟩
  · intro hig hin
    obtain ⟨v, hv⟩ := hmem.mp hin
    have hloss : k ≠ "loss" := by rw [hig]; decide
    rcases hshape v hv hloss with ⟨x, hx, _, hp⟩ | ⟨l, rfl, _, hne⟩ | ⟨d, rfl, _, hp⟩
    · rw [cell_of_num hv hx, hx]
      exact ⟨fun y hy => (by cases hy; exact hp hig), fun e => (by cases e)⟩
    · exact absurd hig hne
    · rw [cell_of_dict hv]
      exact ⟨fun y hy => (by cases hy), fun _ => ⟨rfl, hp⟩⟩
  · intro hloss
    cases hl : c.params.lookup k with
    | none => rw [cell_of_none hl]; simp
    | some v =>
      rcases hshape v hl hloss with ⟨x, hx, _, _⟩ | ⟨l, rfl, _, _⟩ | ⟨d, rfl, _, _⟩
      · rw [cell_of_num hl hx]
        constructor
        · intro e; subst e; cases hx
        · rintro ⟨d, hd⟩; cases hd; cases hx
      · rw [cell_of_list hl]
        constructor
        · intro e; cases e
        · rintro ⟨d, hd⟩; cases hd
      · rw [cell_of_dict hl]
        exact ⟨fun _ => ⟨d, rfl⟩, fun _ => rfl⟩
  · intro e v hv; subst e; exact sh.loss v hv

/-! ## 4. `phases()`: the loop, node by node -/

section monad
variable {β γ δ : Type}

theorem ex_bind_pure_map (x : Except Err β) (f : β → γ) :
    (x >>= fun r => pure (f r)) = Except.map f x := by cases x <;> rfl

theorem ex_map_eq_ok {x : Except Err β} {f : β → γ} {c : γ} (h : Except.map f x = .ok c) :
    ∃ v, x = .ok v ∧ f v = c := by
  cases x with
  | error e => cases h
  | ok v => exact ⟨v, rfl, by cases h; rfl⟩

theorem mapM_map_comm (f : β → Except Err γ) (g : γ → δ) : ∀ l : List β,
    l.mapM (fun x => (f x).map g) = (l.mapM f).map (List.map g)
  | [] => by simp [List.mapM_nil]; rfl
  | a :: l => by
    rw [List.mapM_cons, List.mapM_cons, mapM_map_comm f g l]
    cases f a with
    | error e => rfl
    | ok b =>
      cases l.mapM f with
      | error e => rfl
      | ok bs => rfl

theorem mapM_ok_forall₂ {f : β → Except Err γ} : ∀ {l : List β} {vs : List γ}, l.mapM f = .ok vs →
    List.Forall₂ (fun x v => f x = .ok v) l vs
  | [], vs, h => by simp [List.mapM_nil] at h; subst h; exact .nil
  | a :: l, vs, h => by
    rw [List.mapM_cons] at h
    obtain ⟨b, hb, h⟩ := ex_bind_eq_ok h
    obtain ⟨bs, hbs, h⟩ := ex_bind_eq_ok h
    simp at h; subst h
    exact .cons hb (mapM_ok_forall₂ hbs)
end monad

/-- the rows the loop appends for one node, given the node's domain -/
def nodePhaseRows (s : SSys α) (nd : SNode α) (d : String) : Except Err (List (PhaseRow α)) := do
  let phs ← phNames nd.comp.kind.ctype nd.pconf (s.phases.map (·.1))
  phs.mapM fun p => phaseRow nd.comp nd.pconf d p

/-- the running `dname` after the two assignments at the top of the loop body -/
def stepDom (nd : SNode α) (dname : String) (ndom : List (Nat × String)) : String :=
  if nd.comp.kind.ctype == .SOURCE then nd.comp.name
  else match nd.parents with
    | [] => dname
    | p :: _ => (ndom.lookup p).getD dname

theorem phasesStep_live (s : SSys α) (acc : PhAcc α) (n : Nat) (nd : SNode α) (h : s.node? n = some nd) :
    s.phasesStep acc n = (nodePhaseRows s nd (stepDom nd acc.dname acc.ndom)).map fun rows =>
      { rows := acc.rows ++ rows, dname := stepDom nd acc.dname acc.ndom,
        ndom := (n, stepDom nd acc.dname acc.ndom) :: acc.ndom,
        nsrc := if nd.comp.kind.ctype == .SOURCE then acc.nsrc + 1 else acc.nsrc } := by
  unfold SSys.phasesStep nodePhaseRows stepDom
  simp only [h]
  cases phNames nd.comp.kind.ctype nd.pconf (s.phases.map (·.1)) with
  | error e => rfl
  | ok phs =>
    simp only [ex_bind_ok]
    exact ex_bind_pure_map _ _

theorem phasesStep_dead (s : SSys α) (acc : PhAcc α) (n : Nat) (h : s.node? n = none) :
    s.phasesStep acc n = .ok acc := by
  unfold SSys.phasesStep; simp only [h]; rfl

/-- overwrite the Domain cell -/
def setDom (d : String) (r : PhaseRow α) : PhaseRow α := { r with domain := d }

theorem phaseRow_dom (c : Comp α) (pc : PhaseConf α) (d d' p : String) :
    phaseRow c pc d p = (phaseRow c pc d' p).map (setDom d) := by
  unfold phaseRow
  simp only
  split_ifs <;> rfl

theorem nodePhaseRows_dom (s : SSys α) (nd : SNode α) (d d' : String) :
    nodePhaseRows s nd d = (nodePhaseRows s nd d').map (List.map (setDom d)) := by
  unfold nodePhaseRows
  cases phNames nd.comp.kind.ctype nd.pconf (s.phases.map (·.1)) with
  | error e => rfl
  | ok phs =>
    simp only [ex_bind_ok]
    have : (fun p => phaseRow nd.comp nd.pconf d p) = fun p => (phaseRow nd.comp nd.pconf d' p).map (setDom d) := by
      funext p; exact phaseRow_dom _ _ _ _ _
    rw [this, mapM_map_comm]

/-- the rows of node `n` with domain `d` (`[]` for a dead id) -/
def rowsD (s : SSys α) (n : Nat) (d : String) : List (PhaseRow α) :=
  match s.node? n with
  | none => []
  | some nd => match nodePhaseRows s nd d with
    | .ok rows => rows
    | .error _ => []

theorem rowsD_dom (s : SSys α) (n : Nat) (d d' : String) : rowsD s n d = (rowsD s n d').map (setDom d) := by
  unfold rowsD
  cases s.node? n with
  | none => rfl
  | some nd =>
    simp only
    rw [nodePhaseRows_dom s nd d d']
    cases nodePhaseRows s nd d' <;> rfl

/-- the loop body does not raise on node `n` -/
def nodeFine (s : SSys α) (n : Nat) : Prop :=
  ∀ nd, s.node? n = some nd → ∃ rows, nodePhaseRows s nd "" = .ok rows

theorem nodeFine_any {s : SSys α} {n : Nat} {nd : SNode α} (h : nodeFine s n) (hn : s.node? n = some nd)
    (d : String) : ∃ rows, nodePhaseRows s nd d = .ok rows := by
  obtain ⟨rows, hr⟩ := h nd hn
  rw [nodePhaseRows_dom s nd d "", hr]
  exact ⟨_, rfl⟩

theorem nodeFine_of {s : SSys α} {n : Nat} {nd : SNode α} (hn : s.node? n = some nd) {d : String}
    {rows : List (PhaseRow α)} (h : nodePhaseRows s nd d = .ok rows) : nodeFine s n := by
  intro nd' hn'
  rw [hn] at hn'; cases hn'
  rw [nodePhaseRows_dom s nd "" d, h]
  exact ⟨_, rfl⟩

/-- the domain bookkeeping of the loop on its own: `(dname, ndomain)` after node `n` -/
def domStep (s : SSys α) (st : String × List (Nat × String)) (n : Nat) : String × List (Nat × String) :=
  match s.node? n with
  | none => st
  | some nd => (stepDom nd st.1 st.2, (n, stepDom nd st.1 st.2) :: st.2)

/-- the domain the loop assigns to each node of `l`, in order -/
def domRun (s : SSys α) : String × List (Nat × String) → List Nat → List String
  | _, [] => []
  | st, n :: l => (domStep s st n).1 :: domRun s (domStep s st n) l

def isSrcId (s : SSys α) (n : Nat) : Bool :=
  match s.node? n with
  | some nd => nd.comp.kind.ctype == .SOURCE
  | none => false

/-- the loop of `phases()`, decomposed: rows = the per-node rows with the domains of the bookkeeping pass -/
theorem loop_decomp (s : SSys α) : ∀ (l : List Nat) (acc acc' : PhAcc α),
    l.foldlM s.phasesStep acc = .ok acc' →
    acc'.rows = acc.rows ++ (List.zip l (domRun s (acc.dname, acc.ndom) l)).flatMap (fun p => rowsD s p.1 p.2) ∧
    acc'.nsrc = acc.nsrc + l.countP (isSrcId s) ∧ (∀ n ∈ l, nodeFine s n)
  | [], acc, acc', h => by
    simp only [List.foldlM_nil, ex_pure, Except.ok.injEq] at h
    subst h
    simp [domRun]
  | n :: l, acc, acc', h => by
    rw [List.foldlM_cons] at h
    obtain ⟨acc1, h1, h2⟩ := ex_bind_eq_ok h
    cases hn : s.node? n with
    | none =>
      rw [phasesStep_dead s acc n hn] at h1
      cases h1
      obtain ⟨ih1, ih2, ih3⟩ := loop_decomp s l acc acc' h2
      have hd : domStep s (acc.dname, acc.ndom) n = (acc.dname, acc.ndom) := by
        unfold domStep; rw [hn]
      have hr : ∀ d, rowsD s n d = [] := by intro d; unfold rowsD; rw [hn]
      have hs : isSrcId s n = false := by unfold isSrcId; rw [hn]
      refine ⟨?_, ?_, ?_⟩
      · rw [ih1]; simp only [domRun, hd, List.zip_cons_cons, List.flatMap_cons, hr, List.nil_append]
      · rw [ih2, List.countP_cons, hs]; simp
      · intro m hm
        rcases List.mem_cons.mp hm with rfl | hm
        · intro nd hnd; rw [hn] at hnd; cases hnd
        · exact ih3 m hm
    | some nd =>
      rw [phasesStep_live s acc n nd hn] at h1
      obtain ⟨rows, hrows, hacc1⟩ := ex_map_eq_ok h1
      subst hacc1
      obtain ⟨ih1, ih2, ih3⟩ := loop_decomp s l _ acc' h2
      have hd : domStep s (acc.dname, acc.ndom) n =
          (stepDom nd acc.dname acc.ndom, (n, stepDom nd acc.dname acc.ndom) :: acc.ndom) := by
        unfold domStep; rw [hn]
      have hr : rowsD s n (stepDom nd acc.dname acc.ndom) = rows := by
        unfold rowsD; rw [hn]; simp only; rw [hrows]
      have hs : isSrcId s n = (nd.comp.kind.ctype == .SOURCE) := by unfold isSrcId; rw [hn]
      refine ⟨?_, ?_, ?_⟩
      · rw [ih1]
        simp only [domRun, hd, List.zip_cons_cons, List.flatMap_cons, hr, List.append_assoc]
      · rw [ih2, List.countP_cons, hs]
        simp only
        split_ifs <;> omega
      · intro m hm
        rcases List.mem_cons.mp hm with rfl | hm
        · exact nodeFine_of hn hrows
        · exact ih3 m hm

/-- … and the loop succeeds as soon as no node raises -/
theorem loop_ok (s : SSys α) : ∀ (l : List Nat), (∀ n ∈ l, nodeFine s n) → ∀ acc : PhAcc α,
    ∃ acc', l.foldlM s.phasesStep acc = .ok acc'
  | [], _, acc => ⟨acc, rfl⟩
  | n :: l, h, acc => by
    rw [List.foldlM_cons]
    cases hn : s.node? n with
    | none =>
      rw [phasesStep_dead s acc n hn]
      exact loop_ok s l (fun m hm => h m (List.mem_cons_of_mem _ hm)) acc
    | some nd =>
      rw [phasesStep_live s acc n nd hn]
      obtain ⟨rows, hr⟩ := nodeFine_any (h n List.mem_cons_self) hn (stepDom nd acc.dname acc.ndom)
      rw [hr]
      exact loop_ok s l (fun m hm => h m (List.mem_cons_of_mem _ hm)) _

theorem domRun_length (s : SSys α) : ∀ (l : List Nat) (st : String × List (Nat × String)),
    (domRun s st l).length = l.length
  | [], _ => rfl
  | n :: l, st => by simp [domRun, domRun_length s l]

/-- `phases()` returns `None` iff no system phases are defined -/
theorem phases_none_iff (s : SSys α) : phasesRows s = .ok none ↔ s.phases = [] := by
  unfold phasesRows
  by_cases h : s.phases.isEmpty = true
  · rw [if_pos h]; simp [List.isEmpty_iff.mp h]
  · rw [if_neg h]
    have hne : s.phases ≠ [] := fun e => h (by rw [e]; rfl)
    simp only [hne, iff_false]
    intro h'
    obtain ⟨acc, _, h2⟩ := ex_bind_eq_ok h'
    cases h2

/-- `phases()` with system phases: the decomposition of the whole report -/
theorem phases_spec {s : SSys α} {rep : PhasesRep α} (h : phasesRows s = .ok (some rep)) :
    s.phases ≠ [] ∧
    rep.rows = (List.zip s.topo (domRun s ("none", []) s.topo)).flatMap (fun p => rowsD s p.1 p.2) ∧
    rep.showDomain = decide (s.topo.countP (isSrcId s) > 1) ∧ (∀ n ∈ s.topo, nodeFine s n) := by
  unfold phasesRows at h
  by_cases he : s.phases.isEmpty = true
  · rw [if_pos he] at h; cases h
  · rw [if_neg he] at h
    obtain ⟨acc, h1, h2⟩ := ex_bind_eq_ok h
    simp only [ex_pure, Except.ok.injEq, Option.some.injEq] at h2
    subst h2
    obtain ⟨d1, d2, d3⟩ := loop_decomp s s.topo {} acc h1
    refine ⟨fun e => he (by rw [e]; rfl), ?_, ?_, d3⟩
    · rw [d1]; rfl
    · simp only [d2]; simp

/-! ### which rows `phases()` has -/

/-- the (Component, Active phase) cells of a row -/
def rowKey (r : PhaseRow α) : String × String := (r.name, r.phase)

/-- the (Component, Active phase) cells of the rows of node `n` -/
def rowKeys (s : SSys α) (n : Nat) : List (String × String) := (rowsD s n "").map rowKey

theorem rowsD_keys (s : SSys α) (n : Nat) (d : String) : (rowsD s n d).map rowKey = rowKeys s n := by
  unfold rowKeys
  rw [rowsD_dom s n d "", List.map_map]
  rfl

theorem zip_flatMap_keys (s : SSys α) : ∀ (l : List Nat) (st : String × List (Nat × String)),
    ((List.zip l (domRun s st l)).flatMap (fun p => rowsD s p.1 p.2)).map rowKey = l.flatMap (rowKeys s)
  | [], _ => rfl
  | n :: l, st => by
    simp only [domRun, List.zip_cons_cons, List.flatMap_cons, List.map_append, rowsD_keys]
    rw [zip_flatMap_keys s l]

theorem phaseRow_fields {c : Comp α} {pc : PhaseConf α} {d p : String} {r : PhaseRow α}
    (h : phaseRow c pc d p = .ok r) :
    r.name = c.name ∧ r.typ = c.kind.ctype.name ∧ r.domain = d ∧ r.phase = p ∧
    (c.kind.ctype ≠ .LOAD → r.rs = none ∧ r.ii = none ∧ r.pwr = none) := by
  unfold phaseRow at h
  simp only at h
  split_ifs at h with h1 h2 h3 h4
  all_goals (simp only [ex_pure, Except.ok.injEq] at h; subst h)
  all_goals (refine ⟨rfl, rfl, rfl, rfl, fun hne => ?_⟩)
  all_goals first
    | exact absurd (by simpa using h1) hne
    | exact ⟨rfl, rfl, rfl⟩

theorem forall₂_keys {c : Comp α} {pc : PhaseConf α} {d : String} : ∀ {phs : List String} {rows : List (PhaseRow α)},
    List.Forall₂ (fun p r => phaseRow c pc d p = .ok r) phs rows →
    rows.map rowKey = phs.map fun p => (c.name, p)
  | _, _, .nil => rfl
  | _, _, .cons hx hrest => by
    obtain ⟨h1, _, _, h4, _⟩ := phaseRow_fields hx
    simp only [List.map_cons, rowKey, h1, h4]
    congr 1
    exact forall₂_keys hrest

theorem nodeRows_keys {s : SSys α} {nd : SNode α} {d : String} {rows : List (PhaseRow α)} {phs : List String}
    (hp : phNames nd.comp.kind.ctype nd.pconf (s.phases.map (·.1)) = .ok phs)
    (hr : nodePhaseRows s nd d = .ok rows) :
    List.Forall₂ (fun p r => phaseRow nd.comp nd.pconf d p = .ok r) phs rows ∧
    rows.map rowKey = phs.map fun p => (nd.comp.name, p) := by
  unfold nodePhaseRows at hr
  rw [hp] at hr
  simp only [ex_bind_ok] at hr
  have hf := mapM_ok_forall₂ hr
  exact ⟨hf, forall₂_keys hf⟩

theorem activeNames_ne_nil (keys names : List String) : activeNames keys names ≠ [] := by
  unfold activeNames
  simp only
  generalize (if keys.length > 0 then names.filter fun p => keys.contains p else []) = l
  cases l <;> simp

/-- every component gets at least one row (since /repo f863daa a Rectifier too: one "N/A" row) -/
theorem phNames_ne_nil {ct : CType} {pc : PhaseConf α} {names phs : List String}
    (h : phNames ct pc names = .ok phs) : phs ≠ [] := by
  unfold phNames at h
  cases ct <;> simp only [ex_pure, Except.ok.injEq] at h
  case LOAD =>
    cases pc with
    | names l => simp at h
    | table t =>
      simp only [ex_pure, Except.ok.injEq] at h; subst h
      exact activeNames_ne_nil _ _
  all_goals (subst h; first | exact activeNames_ne_nil _ _ | simp)

/-- **phases() lists each component once per active phase** — exact statement: the (Component, Active phase)
    columns are, in `_topo_nodes` order, for every node the pairs (its name, `p`) for `p` in its `ph_names`. -/
theorem phases_rows_keys {s : SSys α} {rep : PhasesRep α} (h : phasesRows s = .ok (some rep)) :
    rep.rows.map rowKey = s.topo.flatMap (rowKeys s) ∧
    ∀ n ∈ s.topo, ∀ nd, s.node? n = some nd →
      ∃ phs, phNames nd.comp.kind.ctype nd.pconf (s.phases.map (·.1)) = .ok phs ∧ phs ≠ [] ∧
        rowKeys s n = phs.map fun p => (nd.comp.name, p) := by
  obtain ⟨_, hrows, _, hfine⟩ := phases_spec h
  refine ⟨by rw [hrows]; exact zip_flatMap_keys s _ _, ?_⟩
  intro n hn nd hnd
  obtain ⟨rows, hr⟩ := hfine n hn nd hnd
  have hr' := hr
  unfold nodePhaseRows at hr'
  obtain ⟨phs, hp, _⟩ := ex_bind_eq_ok hr'
  refine ⟨phs, hp, phNames_ne_nil hp, ?_⟩
  unfold rowKeys rowsD
  rw [hnd]; simp only [hr]
  exact (nodeRows_keys hp hr).2

/-- **phases() lists exactly the live components** (full statement, no exclusion): a name is in the Component column
    iff it is the name of a live component. -/
theorem phases_lists_live {s : SSys α} {rep : PhasesRep α} (hl : TopoLive s)
    (h : phasesRows s = .ok (some rep)) (x : String) :
    x ∈ rep.rows.map (·.name) ↔ x ∈ liveNames s := by
  obtain ⟨hk, hnode⟩ := phases_rows_keys h
  have hcol : rep.rows.map (·.name) = (rep.rows.map rowKey).map (·.1) := by
    rw [List.map_map]; rfl
  rw [hcol, hk]
  unfold liveNames
  simp only [List.mem_map, List.mem_flatMap, mem_liveIds]
  constructor
  · rintro ⟨⟨a, b⟩, ⟨n, hn, hab⟩, rfl⟩
    obtain ⟨nd, hnd⟩ := (hl.live n).mp hn
    obtain ⟨phs, hp, _, hkeys⟩ := hnode n hn nd hnd
    rw [hkeys] at hab
    obtain ⟨p, hp', e⟩ := List.mem_map.mp hab
    cases e
    exact ⟨n, ⟨nd, hnd⟩, nameOf_some hnd⟩
  · rintro ⟨n, ⟨nd, hnd⟩, rfl⟩
    have hn : n ∈ s.topo := (hl.live n).mpr ⟨nd, hnd⟩
    obtain ⟨phs, hp, hne, hkeys⟩ := hnode n hn nd hnd
    obtain ⟨p, hp'⟩ := List.exists_mem_of_ne_nil _ hne
    exact ⟨(nd.comp.name, p), ⟨n, hn, by rw [hkeys]; exact List.mem_map.mpr ⟨p, hp', rfl⟩⟩,
      (nameOf_some hnd).symm⟩

/-! ### what the rows of `phases()` show -/

/-- every row comes from one node and one entry of its `ph_names` -/
theorem phases_row_origin {s : SSys α} {rep : PhasesRep α} (h : phasesRows s = .ok (some rep))
    (r : PhaseRow α) (hr : r ∈ rep.rows) :
    ∃ n ∈ s.topo, ∃ nd d phs, s.node? n = some nd ∧
      phNames nd.comp.kind.ctype nd.pconf (s.phases.map (·.1)) = .ok phs ∧ r.phase ∈ phs ∧
      phaseRow nd.comp nd.pconf d r.phase = .ok r := by
  obtain ⟨_, hrows, _, _⟩ := phases_spec h
  rw [hrows] at hr
  obtain ⟨⟨n, d⟩, hz, hrd⟩ := List.mem_flatMap.mp hr
  have hn : n ∈ s.topo := (List.of_mem_zip hz).1
  simp only at hrd
  unfold rowsD at hrd
  cases hnd : s.node? n with
  | none => rw [hnd] at hrd; cases hrd
  | some nd =>
    rw [hnd] at hrd
    simp only at hrd
    cases hnr : nodePhaseRows s nd d with
    | error e => rw [hnr] at hrd; cases hrd
    | ok rows =>
      rw [hnr] at hrd
      simp only at hrd
      unfold nodePhaseRows at hnr
      obtain ⟨phs, hp, hm⟩ := ex_bind_eq_ok hnr
      obtain ⟨p, hp', hpr⟩ := mapM_ok_mem hm r hrd
      have : r.phase = p := (phaseRow_fields hpr).2.2.2.1
      subst this
      exact ⟨n, hn, nd, d, phs, hnd, hp, hp', hpr⟩

theorem lookup_isSome_keys (t : List (String × α)) (p : String) :
    (t.lookup p).isSome = (t.map (·.1)).contains p := by
  induction t with
  | nil => rfl
  | cons a t ih =>
    obtain ⟨k, v⟩ := a
    simp only [List.lookup_cons, List.map_cons, List.contains_cons]
    by_cases e : p = k
    · subst e; simp
    · have : (p == k) = false := by simpa using e
      rw [this]; simpa using ih

/-- "listed in the configuration" as the laws see it = membership in what `phases()` iterates over -/
theorem ctx_listed (pc : PhaseConf α) (p : String) : (pc.ctx p).listed = pc.keys.contains p := by
  cases pc with
  | names l => rfl
  | table t => exact lookup_isSome_keys t p

theorem ctx_hasConf (pc : PhaseConf α) (p : String) : (pc.ctx p).hasConf = !pc.keys.isEmpty := by
  cases pc with
  | names l => rfl
  | table t => simp [PhaseConf.ctx, PhaseConf.keys]

theorem activeNames_mem (keys names : List String) (p : String) (hNA : "N/A" ∉ names) :
    p ∈ activeNames keys names ↔
      (p ∈ names ∧ p ∈ keys) ∨ (p = "N/A" ∧ ∀ q ∈ names, q ∉ keys) := by
  unfold activeNames
  simp only
  by_cases hk : keys.length > 0
  · rw [if_pos hk]
    by_cases he : (names.filter fun p => keys.contains p).isEmpty = true
    · rw [if_pos he]
      have hall : ∀ q ∈ names, q ∉ keys := by
        intro q hq hqk
        have : q ∈ names.filter fun p => keys.contains p := List.mem_filter.mpr ⟨hq, by simpa using hqk⟩
        rw [List.isEmpty_iff.mp he] at this; cases this
      simp only [List.mem_singleton]
      constructor
      · rintro rfl; exact Or.inr ⟨rfl, hall⟩
      · rintro (⟨h1, h2⟩ | ⟨h1, _⟩)
        · exact absurd h2 (hall p h1)
        · exact h1
    · rw [if_neg he]
      simp only [List.mem_filter, List.contains_iff_mem, decide_eq_true_eq] 
      constructor
      · intro h; exact Or.inl h
      · rintro (h | ⟨rfl, hall⟩)
        · exact h
        · exfalso
          apply he
          rw [List.isEmpty_iff, List.filter_eq_nil_iff]
          intro q hq; simpa using hall q hq
  · rw [if_neg hk]
    have hnil : keys = [] := by cases keys with | nil => rfl | cons a l => simp at hk
    subst hnil
    simp

/-- **phases(): the rows of a source / converter / regulator / switch / mux are its list-form activity.**
    With `"N/A"` not a system phase (`set_sys_phases` refuses it): the component has a row for phase `p` iff `p` is a
    system phase that is listed in its configuration — exactly the phases in which the laws treat it as active
    when it has a configuration — and a single `"N/A"` row iff no system phase is listed (in particular when it has no
    configuration).  A loss element (`SLOSS`) and a Rectifier have exactly one `"N/A"` row. -/
theorem phases_show_activity {ct : CType} {pc : PhaseConf α} {names phs : List String}
    (h : phNames ct pc names = .ok phs) (hNA : "N/A" ∉ names) :
    (ct = .SLOSS ∨ ct = .RECTIFIER → phs = ["N/A"]) ∧
    (ct ≠ .SLOSS → ct ≠ .RECTIFIER → ∀ p, p ∈ phs ↔
      (p ∈ names ∧ (pc.ctx p).listed = true) ∨ (p = "N/A" ∧ ∀ q ∈ names, (pc.ctx q).listed = false)) := by
  have key : ∀ p, p ∈ activeNames pc.keys names ↔
      (p ∈ names ∧ (pc.ctx p).listed = true) ∨ (p = "N/A" ∧ ∀ q ∈ names, (pc.ctx q).listed = false) := by
    intro p
    rw [activeNames_mem _ _ _ hNA]
    simp only [ctx_listed, List.contains_iff_mem, decide_eq_true_eq, decide_eq_false_iff_not]
    simp
  unfold phNames at h
  cases ct <;> simp only [ex_pure, Except.ok.injEq] at h
  case LOAD =>
    cases pc with
    | names l => simp at h
    | table t =>
      simp only [ex_pure, Except.ok.injEq] at h; subst h
      exact ⟨fun e => (by rcases e with e | e <;> cases e), fun _ _ => key⟩
  case SLOSS => subst h; exact ⟨fun _ => rfl, fun e => absurd rfl e⟩
  case RECTIFIER => subst h; exact ⟨fun _ => rfl, fun _ e => absurd rfl e⟩
  all_goals (subst h; exact ⟨fun e => (by rcases e with e | e <;> cases e), fun _ _ => key⟩)

/-- the stored main parameter of a load built by its constructor -/
theorem mkComp_load_params (kind : Kind) (name : String) (a : Args α) (c : Comp α)
    (h : mkComp kind name a = .ok c) :
    (kind = .pload → c.params.lookup "pwr" = some (.float c.pwr)) ∧
    (kind = .iload → c.params.lookup "pwr" = none ∧ c.params.lookup "rs" = none ∧
        c.params.lookup "ii" = some (.float c.ii)) ∧
    (kind = .rload → c.params.lookup "pwr" = none ∧ c.params.lookup "rs" = some (.float c.rs)) := by
  unfold mkComp at h
  refine ⟨?_, ?_, ?_⟩ <;> intro hk <;> subst hk <;> simp only at h
  · obtain ⟨x, hx, h⟩ := ex_bind_eq_ok h
    obtain ⟨pwr, h1, h⟩ := ex_bind_eq_ok h
    obtain ⟨pwrs, h2, h⟩ := ex_bind_eq_ok h
    obtain ⟨rt, h3, h⟩ := ex_bind_eq_ok h
    obtain ⟨lim, hlim, h⟩ := ex_bind_eq_ok h
    simp only [ex_pure, Except.ok.injEq] at h; subst h
    simp [List.lookup]
  · obtain ⟨x, hx, h⟩ := ex_bind_eq_ok h
    obtain ⟨ii, h1, h⟩ := ex_bind_eq_ok h
    obtain ⟨lim, hlim, h⟩ := ex_bind_eq_ok h
    obtain ⟨iis, h2, h⟩ := ex_bind_eq_ok h
    obtain ⟨rt, h3, h⟩ := ex_bind_eq_ok h
    simp only [ex_pure, Except.ok.injEq] at h; subst h
    simp [List.lookup]
  · obtain ⟨x, hx, h⟩ := ex_bind_eq_ok h
    obtain ⟨rs, h1, h⟩ := ex_bind_eq_ok h
    by_cases hz : isZ rs = true
    · rw [if_pos hz] at h; simp at h
    · rw [if_neg hz] at h
      obtain ⟨rt, h3, h⟩ := ex_bind_eq_ok h
      obtain ⟨lim, hlim, h⟩ := ex_bind_eq_ok h
      simp only [ex_pure, Except.ok.injEq] at h; subst h
      simp [List.lookup]

/-- the main / sleep value of a load as the laws use them (`loadVal main sleep`); an RLoad has no sleep value:
    outside its listed phases the laws keep `rs` -/
def loadMain (c : Comp α) : α := match c.kind with | .pload => c.pwr | .iload => c.ii | _ => c.rs
def loadSleep (c : Comp α) : α := match c.kind with | .pload => c.pwrs | .iload => c.iis | _ => c.rs

/-- the cell of a load row in the column of its kind -/
def loadCell (c : Comp α) (r : PhaseRow α) : Option α :=
  match c.kind with | .pload => r.pwr | .iload => r.ii | _ => r.rs

/-- **phases(): a load's row shows the value the laws use.**  For a load built by its constructor, a row of phase `p`
    shows, in the column of its kind only (`pwr (W)` / `ii (A)` / `rs (Ohm)`), for a system phase `p` the value
    `loadVal main sleep (conf.ctx p)` the laws draw in that phase — `p` is then a listed phase — and on the `"N/A"` row
    the main parameter, which is what the laws use in EVERY phase when the load has no configuration.
    (A load whose configuration names no system phase also gets the `"N/A"` row with the main parameter although the
    laws put it to sleep in every phase: the last clause is only claimed for an empty configuration.) -/
theorem phases_show_values (kind : Kind) (name : String) (a : Args α) (c : Comp α)
    (hc : mkComp kind name a = .ok c) (hk : kind.ctype = .LOAD)
    {pc : PhaseConf α} {names phs : List String} {d p : String} {r : PhaseRow α}
    (hph : phNames .LOAD pc names = .ok phs) (hp : p ∈ phs) (hNA : "N/A" ∉ names)
    (hrow : phaseRow c pc d p = .ok r) :
    loadCell c r = some (if p = "N/A" then loadMain c else loadVal (loadMain c) (loadSleep c) (pc.ctx p)) ∧
    (c.kind ≠ .pload → r.pwr = none) ∧ (c.kind ≠ .iload → r.ii = none) ∧ (c.kind ≠ .rload → r.rs = none) ∧
    (p ≠ "N/A" → p ∈ names ∧ (pc.ctx p).listed = true) ∧
    (pc.keys = [] → p = "N/A" ∧ ∀ q, loadVal (loadMain c) (loadSleep c) (pc.ctx q) = loadMain c) := by
  obtain ⟨sh, hkind, _, _⟩ := mkComp_shows kind name a c hc
  obtain ⟨hP, hI, hR⟩ := mkComp_load_params kind name a c hc
  -- the configuration is a dict
  obtain ⟨t, rfl⟩ : ∃ t, pc = .table t := by
    cases pc with
    | names l => simp [phNames] at hph
    | table t => exact ⟨t, rfl⟩
  have hact := (phases_show_activity hph hNA).2 (by decide) (by decide) p
  have hmem := hact.mp hp
  have hval : p ≠ "N/A" → (PhaseConf.table t).value p =
      some (loadVal (loadMain c) (loadSleep c) ((PhaseConf.table t).ctx p)) := by
    intro hne
    rcases hmem with ⟨_, hl⟩ | ⟨e, _⟩
    · have hl' : (t.lookup p).isSome = true := hl
      obtain ⟨x, hx⟩ := Option.isSome_iff_exists.mp hl'
      have hne' : t ≠ [] := by intro e; subst e; cases hx
      unfold loadVal PhaseConf.ctx PhaseConf.value
      cases t with
      | nil => exact absurd rfl hne'
      | cons a t => simp [hx]
    · exact absurd e hne
  have hlast : (PhaseConf.table t).keys = [] → p = "N/A" ∧
      ∀ q, loadVal (loadMain c) (loadSleep c) ((PhaseConf.table t).ctx q) = loadMain c := by
    intro hk0
    have ht : t = [] := by cases t with | nil => rfl | cons a t => simp [PhaseConf.keys] at hk0
    subst ht
    refine ⟨?_, fun q => by simp [loadVal, PhaseConf.ctx]⟩
    rcases hmem with ⟨_, hl⟩ | ⟨e, _⟩
    · cases hl
    · exact e
  have hfirst : p ≠ "N/A" → p ∈ names ∧ ((PhaseConf.table t).ctx p).listed = true := by
    intro hne
    rcases hmem with h | ⟨e, _⟩
    · exact h
    · exact absurd e hne
  have hload : (c.kind.ctype == CType.LOAD) = true := by rw [hkind, hk]; rfl
  unfold phaseRow at hrow
  simp only [hload, if_true] at hrow
  have hkk : kind = .pload ∨ kind = .iload ∨ kind = .rload := by
    cases kind <;> simp [Kind.ctype] at hk <;> simp
  rcases hkk with rfl | rfl | rfl
  · have hl := hP rfl
    simp only [hl, Option.isSome_some, if_true, ex_pure, Except.ok.injEq] at hrow
    subst hrow
    refine ⟨?_, fun e => absurd hkind e, fun _ => rfl, fun _ => rfl, hfirst, hlast⟩
    simp only [loadCell, loadMain, loadSleep, hkind, paramNum, hl, Option.bind_some, PV.num?]
    by_cases e : p = "N/A"
    · simp [e]
    · have := hval e
      simp only [loadMain, loadSleep, hkind] at this
      simp [e, this]
  · obtain ⟨l1, l2, l3⟩ := hI rfl
    simp only [l1, l2, l3, Option.isSome_none, Option.isNone_some, Bool.false_eq_true, if_false, Bool.and_false,
      ex_pure, Except.ok.injEq] at hrow
    subst hrow
    refine ⟨?_, fun _ => rfl, fun e => absurd hkind e, fun _ => rfl, hfirst, hlast⟩
    simp only [loadCell, loadMain, loadSleep, hkind, paramNum, l3, Option.bind_some, PV.num?]
    by_cases e : p = "N/A"
    · simp [e]
    · have := hval e
      simp only [loadMain, loadSleep, hkind] at this
      simp [e, this]
  · obtain ⟨l1, l2⟩ := hR rfl
    simp only [l1, l2, Option.isSome_none, Option.isSome_some, Bool.false_eq_true, if_false, if_true,
      ex_pure, Except.ok.injEq] at hrow
    subst hrow
    refine ⟨?_, fun _ => rfl, fun _ => rfl, fun e => absurd hkind e, hfirst, hlast⟩
    simp only [loadCell, loadMain, loadSleep, hkind, paramNum, l2, Option.bind_some, PV.num?]
    by_cases e : p = "N/A"
    · simp [e]
    · have := hval e
      simp only [loadMain, loadSleep, hkind] at this
      simp [e, this]

/-! ## 5. The reports do not depend on which topological order rustworkx picks -/

/-- the same system processed in another order -/
def withTopo (s : SSys α) (t : List Nat) : SSys α := { s with topo := t }

/-- **params() / limits() are order-free**: another `_topo_nodes` order permutes the rows -/
theorem params_order_free (s : SSys α) (t : List Nat) (hp : t.Perm s.topo) (p l : Bool) :
    ((withTopo s t).parsAndLimits p l).Perm (s.parsAndLimits p l) :=
  List.Perm.filterMap _ hp

theorem childsOf_withTopo (s : SSys α) (t : List Nat) : (withTopo s t).childsOf = s.childsOf := rfl
theorem nameOf_withTopo (s : SSys α) (t : List Nat) : (withTopo s t).nameOf = s.nameOf := rfl

theorem treeLinks_withTopo (s : SSys α) (t : List Nat) : ∀ (f n : Nat),
    (withTopo s t).treeLinks f n = s.treeLinks f n
  | 0, _ => rfl
  | f + 1, n => by
    have ih : (withTopo s t).treeLinks f = s.treeLinks f := funext (treeLinks_withTopo s t f)
    simp only [SSys.treeLinks, childsOf_withTopo, nameOf_withTopo, ih]

theorem treeLines_withTopo (s : SSys α) (t : List Nat) : ∀ (f d n : Nat),
    (withTopo s t).treeLines f d n = s.treeLines f d n
  | 0, _, _ => rfl
  | f + 1, d, n => by
    have ih : (withTopo s t).treeLines f (d + 1) = s.treeLines f (d + 1) :=
      funext (treeLines_withTopo s t f (d + 1))
    simp only [SSys.treeLines, childsOf_withTopo, nameOf_withTopo, ih]

/-- **tree() is order-free**: the printed lines and links are the same up to the order of the source trees -/
theorem tree_order_free (s : SSys α) (t : List Nat) (hp : t.Perm s.topo) :
    (treeEdges (withTopo s t)).Perm (treeEdges s) ∧ (treeLinesAll (withTopo s t)).Perm (treeLinesAll s) := by
  have hs : (withTopo s t).sources.Perm s.sources := List.Perm.filter _ hp
  constructor
  · unfold treeEdges
    have : (withTopo s t).treeLinks (withTopo s t).hidx = s.treeLinks s.hidx := by
      funext n; exact treeLinks_withTopo s t _ n
    rw [this]
    exact List.Perm.flatMap_right _ hs
  · unfold treeLinesAll
    have : (withTopo s t).treeLines (withTopo s t).hidx 0 = s.treeLines s.hidx 0 := by
      funext n; exact treeLines_withTopo s t _ 0 n
    rw [this]
    exact List.Perm.flatMap_right _ hs

/-! ### `phases()`: the Domain column is a function of the structure -/

/-- the domain of a node: a SOURCE is its own domain, every other node has the domain of its first parent -/
inductive Dom (node : Nat → Option (SNode α)) : Nat → String → Prop
  | src {n : Nat} {nd : SNode α} : node n = some nd → nd.comp.kind.ctype = .SOURCE → Dom node n nd.comp.name
  | inh {n : Nat} {nd : SNode α} {p : Nat} {rest : List Nat} {d : String} :
      node n = some nd → nd.comp.kind.ctype ≠ .SOURCE → nd.parents = p :: rest → Dom node p d → Dom node n d

theorem Dom.unique {node : Nat → Option (SNode α)} {n : Nat} {d d' : String}
    (h : Dom node n d) (h' : Dom node n d') : d = d' := by
  induction h generalizing d' with
  | src hn hk =>
    cases h' with
    | src hn' hk' => rw [hn] at hn'; cases hn'; rfl
    | inh hn' hk' _ _ => rw [hn] at hn'; cases hn'; exact absurd hk hk'
  | inh hn hk hp _ ih =>
    cases h' with
    | src hn' hk' => rw [hn] at hn'; cases hn'; exact absurd hk' hk
    | inh hn' hk' hp' hd' =>
      rw [hn] at hn'; cases hn'
      rw [hp] at hp'; cases hp'
      exact ih hd'

/-- what `phases()` relies on for its Domain column: `_topo_nodes` lists the first parent of a node before the node,
    first parents are live, and only SOURCEs are roots (for any other root the Python keeps the domain of the
    previously listed row — order dependent).  True of every reachable system (C14). -/
structure PhasesWF (s : SSys α) : Prop where
  order : ∀ pre n post, s.topo = pre ++ n :: post →
            ∀ nd p rest, s.node? n = some nd → nd.parents = p :: rest → p ∈ pre
  plive : ∀ n nd p rest, s.node? n = some nd → nd.parents = p :: rest → ∃ pd, s.node? p = some pd
  roots : ∀ n nd, s.node? n = some nd → nd.parents = [] → nd.comp.kind.ctype = .SOURCE

/-- invariant of the bookkeeping pass after the nodes `done` -/
structure SInv (s : SSys α) (done : List Nat) (st : String × List (Nat × String)) : Prop where
  dom : ∀ n d, st.2.lookup n = some d → Dom s.node? n d
  recd : ∀ n ∈ done, ∀ nd, s.node? n = some nd → (st.2.lookup n).isSome = true

theorem lookupN_cons_ne (l : List (Nat × String)) (a b : Nat) (d : String) (h : b ≠ a) :
    ((a, d) :: l).lookup b = l.lookup b := by
  simp only [List.lookup_cons]
  have : (b == a) = false := by simpa using h
  rw [this]

theorem lookupN_cons_eq (l : List (Nat × String)) (a : Nat) (d : String) :
    ((a, d) :: l).lookup a = some d := by
  simp [List.lookup_cons]

/-- under `PhasesWF` the loop assigns to every live node its structural domain -/
theorem domRun_dom {s : SSys α} (hw : PhasesWF s) : ∀ (rest done : List Nat) (st : String × List (Nat × String)),
    s.topo = done ++ rest → SInv s done st →
    List.Forall₂ (fun n d => ∀ nd, s.node? n = some nd → Dom s.node? n d) rest (domRun s st rest)
  | [], _, _, _, _ => .nil
  | n :: rest, done, st, htopo, hinv => by
    have htopo' : s.topo = (done ++ [n]) ++ rest := by rw [htopo]; simp
    cases hn : s.node? n with
    | none =>
      have hd : domStep s st n = st := by unfold domStep; rw [hn]
      simp only [domRun, hd]
      refine .cons (fun nd hnd => (by rw [hn] at hnd; cases hnd)) (domRun_dom hw rest (done ++ [n]) st htopo' ⟨hinv.dom, ?_⟩)
      intro m hm nd hnd
      rcases List.mem_append.mp hm with hm | hm
      · exact hinv.recd m hm nd hnd
      · have : m = n := by simpa using hm
        subst this; rw [hn] at hnd; cases hnd
    | some nd =>
      have hd : domStep s st n = (stepDom nd st.1 st.2, (n, stepDom nd st.1 st.2) :: st.2) := by
        unfold domStep; rw [hn]
      have hdom : Dom s.node? n (stepDom nd st.1 st.2) := by
        unfold stepDom
        by_cases hk : nd.comp.kind.ctype = .SOURCE
        · have : (nd.comp.kind.ctype == CType.SOURCE) = true := by rw [hk]; rfl
          rw [if_pos this]; exact .src hn hk
        · have : ¬ (nd.comp.kind.ctype == CType.SOURCE) = true := by simpa using hk
          rw [if_neg this]
          cases hp : nd.parents with
          | nil => exact absurd (hw.roots n nd hn hp) hk
          | cons p r =>
            simp only
            have hpd : p ∈ done := hw.order done n rest htopo nd p r hn hp
            obtain ⟨pd, hpl⟩ := hw.plive n nd p r hn hp
            obtain ⟨dp, hdp⟩ := Option.isSome_iff_exists.mp (hinv.recd p hpd pd hpl)
            rw [hdp]
            exact .inh hn hk hp (hinv.dom p dp hdp)
      simp only [domRun, hd]
      refine .cons (fun nd' hnd' => hdom) (domRun_dom hw rest (done ++ [n]) _ htopo' ⟨?_, ?_⟩)
      · intro m d hm
        by_cases e : m = n
        · subst e; rw [lookupN_cons_eq] at hm; cases hm; exact hdom
        · rw [lookupN_cons_ne _ _ _ _ e] at hm; exact hinv.dom m d hm
      · intro m hm md hmd
        by_cases e : m = n
        · subst e; simp only; rw [lookupN_cons_eq]; rfl
        · simp only; rw [lookupN_cons_ne _ _ _ _ e]
          rcases List.mem_append.mp hm with hm | hm
          · exact hinv.recd m hm md hmd
          · exact absurd (by simpa using hm) e

/-- the structural domain as a function (`""` where there is none) -/
noncomputable def domF (node : Nat → Option (SNode α)) (n : Nat) : String :=
  open Classical in if h : ∃ d, Dom node n d then Classical.choose h else ""

theorem domF_eq {node : Nat → Option (SNode α)} {n : Nat} {d : String} (h : Dom node n d) : domF node n = d := by
  unfold domF
  have hex : ∃ d, Dom node n d := ⟨d, h⟩
  rw [dif_pos hex]
  exact (Classical.choose_spec hex).unique h

theorem zip_flatMap_dom (s : SSys α) : ∀ {l : List Nat} {ds : List String},
    List.Forall₂ (fun n d => ∀ nd, s.node? n = some nd → Dom s.node? n d) l ds →
    (List.zip l ds).flatMap (fun p => rowsD s p.1 p.2) = l.flatMap fun n => rowsD s n (domF s.node? n)
  | _, _, .nil => rfl
  | _, _, .cons (a := n) (b := d) h hrest => by
    simp only [List.zip_cons_cons, List.flatMap_cons]
    rw [zip_flatMap_dom s hrest]
    congr 1
    cases hn : s.node? n with
    | none => unfold rowsD; rw [hn]
    | some nd => rw [domF_eq (h nd hn)]

/-- **phases(): rows in terms of the structure only** (given a valid order): in `_topo_nodes` order, the rows of each
    node with its structural domain -/
theorem phases_rows_wf {s : SSys α} {rep : PhasesRep α} (hw : PhasesWF s) (h : phasesRows s = .ok (some rep)) :
    rep.rows = s.topo.flatMap fun n => rowsD s n (domF s.node? n) := by
  obtain ⟨_, hrows, _, _⟩ := phases_spec h
  rw [hrows]
  exact zip_flatMap_dom s (domRun_dom hw s.topo [] ("none", []) rfl
    ⟨fun n d hm => (by cases hm), fun n hn => (by cases hn)⟩)

/-- the Domain cell of every row is the structural domain of its component: the source above it along first parents -/
theorem phases_domain {s : SSys α} {rep : PhasesRep α} (hw : PhasesWF s) (h : phasesRows s = .ok (some rep))
    (r : PhaseRow α) (hr : r ∈ rep.rows) :
    ∃ n ∈ s.topo, ∃ nd, s.node? n = some nd ∧ r.name = nd.comp.name ∧ r.domain = domF s.node? n := by
  rw [phases_rows_wf hw h] at hr
  obtain ⟨n, hn, hrd⟩ := List.mem_flatMap.mp hr
  unfold rowsD at hrd
  cases hnd : s.node? n with
  | none => rw [hnd] at hrd; cases hrd
  | some nd =>
    rw [hnd] at hrd
    simp only at hrd
    cases hnr : nodePhaseRows s nd (domF s.node? n) with
    | error e => rw [hnr] at hrd; cases hrd
    | ok rows =>
      rw [hnr] at hrd
      simp only at hrd
      unfold nodePhaseRows at hnr
      obtain ⟨phs, hp, hm⟩ := ex_bind_eq_ok hnr
      obtain ⟨p, _, hpr⟩ := mapM_ok_mem hm r hrd
      obtain ⟨h1, _, h3, _, _⟩ := phaseRow_fields hpr
      exact ⟨n, hn, nd, hnd, h1, h3⟩

theorem phasesRows_of_loop {s : SSys α} {acc : PhAcc α} (hne : s.phases ≠ [])
    (h : s.topo.foldlM s.phasesStep {} = .ok acc) :
    phasesRows s = .ok (some { rows := acc.rows, showDomain := decide (acc.nsrc > 1) }) := by
  unfold phasesRows
  have : ¬ s.phases.isEmpty = true := fun e => hne (List.isEmpty_iff.mp e)
  rw [if_neg this, h]
  rfl

/-- one direction of order-freeness for `phases()` -/
theorem phases_transfer (s : SSys α) (t : List Nat) (hp : t.Perm s.topo) (hw : PhasesWF s)
    (hw' : PhasesWF (withTopo s t)) (rep : PhasesRep α) (h : phasesRows s = .ok (some rep)) :
    ∃ rep', phasesRows (withTopo s t) = .ok (some rep') ∧ rep'.rows.Perm rep.rows ∧
      rep'.showDomain = rep.showDomain := by
  obtain ⟨hne, _, hshow, hfine⟩ := phases_spec h
  have hfine' : ∀ n ∈ (withTopo s t).topo, nodeFine (withTopo s t) n :=
    fun n hn => hfine n (hp.subset hn)
  obtain ⟨acc, hacc⟩ := loop_ok (withTopo s t) (withTopo s t).topo hfine' {}
  have h' := phasesRows_of_loop (s := withTopo s t) hne hacc
  refine ⟨_, h', ?_, ?_⟩
  · rw [phases_rows_wf hw' h', phases_rows_wf hw h]
    exact List.Perm.flatMap_right _ hp
  · obtain ⟨_, _, hshow', _⟩ := phases_spec h'
    rw [hshow', hshow]
    have : (withTopo s t).topo.countP (isSrcId (withTopo s t)) = s.topo.countP (isSrcId s) :=
      hp.countP_eq _
    rw [this]

/-- **phases() is order-free**: for two valid processing orders of the same system, `phases()` either returns `None`
    for both, or raises for both, or returns for both a table with the same rows up to their order — Domain cells
    included — and the same decision about the Domain column. -/
theorem phases_order_free (s : SSys α) (t : List Nat) (hp : t.Perm s.topo) (hw : PhasesWF s)
    (hw' : PhasesWF (withTopo s t)) :
    (∀ rep, phasesRows s = .ok (some rep) →
      ∃ rep', phasesRows (withTopo s t) = .ok (some rep') ∧ rep'.rows.Perm rep.rows ∧
        rep'.showDomain = rep.showDomain) ∧
    (phasesRows s = .ok none → phasesRows (withTopo s t) = .ok none) ∧
    (∀ e, phasesRows s = .error e → ∃ e', phasesRows (withTopo s t) = .error e') := by
  refine ⟨phases_transfer s t hp hw hw', ?_, ?_⟩
  · intro h
    exact (phases_none_iff (withTopo s t)).mpr ((phases_none_iff s).mp h)
  · intro e he
    cases h' : phasesRows (withTopo s t) with
    | error e' => exact ⟨e', rfl⟩
    | ok o =>
      exfalso
      cases o with
      | none =>
        have : phasesRows s = .ok none := (phases_none_iff s).mpr ((phases_none_iff (withTopo s t)).mp h')
        rw [this] at he; cases he
      | some rep' =>
        obtain ⟨rep, hrep, _, _⟩ := phases_transfer (withTopo s t) s.topo hp.symm hw' hw rep' h'
        have : phasesRows s = .ok (some rep) := hrep
        rw [this] at he; cases he

/-- **reports_order_free**: two topological orders of the same system give the same rows up to permutation in all
    four reports (`phases()`: for valid orders, see `PhasesWF`; including `None` / exception agreement). -/
theorem reports_order_free (s : SSys α) (t : List Nat) (hp : t.Perm s.topo) (hw : PhasesWF s)
    (hw' : PhasesWF (withTopo s t)) :
    (∀ b, (paramsRows (withTopo s t) b).Perm (paramsRows s b)) ∧
    (limitsRows (withTopo s t)).Perm (limitsRows s) ∧
    (treeEdges (withTopo s t)).Perm (treeEdges s) ∧ (treeLinesAll (withTopo s t)).Perm (treeLinesAll s) ∧
    (∀ rep, phasesRows s = .ok (some rep) →
      ∃ rep', phasesRows (withTopo s t) = .ok (some rep') ∧ rep'.rows.Perm rep.rows ∧
        rep'.showDomain = rep.showDomain) ∧
    (phasesRows s = .ok none → phasesRows (withTopo s t) = .ok none) ∧
    (∀ e, phasesRows s = .error e → ∃ e', phasesRows (withTopo s t) = .error e') :=
  ⟨fun b => params_order_free s t hp true b, params_order_free s t hp false true,
   (tree_order_free s t hp).1, (tree_order_free s t hp).2, phases_order_free s t hp hw hw'⟩

/-! ## 6. `tree()` prints exactly the components below the sources -/

/-- `m` is reached from `n` in at most `k` parent → child steps -/
inductive DescK (s : SSys α) : Nat → Nat → Nat → Prop
  | refl (k n : Nat) : DescK s k n n
  | step {k n c m : Nat} : c ∈ s.childsOf n → DescK s k c m → DescK s (k + 1) n m

theorem DescK.zero {s : SSys α} {n m : Nat} (h : DescK s 0 n m) : m = n := by
  cases h; rfl

theorem DescK.succ {s : SSys α} {k n m : Nat} (h : DescK s k n m) : DescK s (k + 1) n m := by
  induction h with
  | refl k n => exact .refl _ _
  | step hc _ ih => exact .step hc ih

theorem DescK.mono {s : SSys α} {k k' n m : Nat} (h : DescK s k n m) (hk : k ≤ k') : DescK s k' n m := by
  induction hk with
  | refl => exact h
  | step _ ih => exact ih.succ

/-- the labels printed below (and including) `n` are the names of the nodes reached from `n` -/
theorem treeLines_labels (s : SSys α) : ∀ (f d n : Nat) (x : String),
    (∃ d', (d', x) ∈ s.treeLines f d n) ↔ ∃ m, DescK s f n m ∧ s.nameOf m = x
  | 0, d, n, x => by
    simp only [SSys.treeLines, List.mem_singleton, Prod.mk.injEq]
    constructor
    · rintro ⟨d', _, rfl⟩; exact ⟨n, .refl _ _, rfl⟩
    · rintro ⟨m, hm, rfl⟩; rw [hm.zero]; exact ⟨d, rfl, rfl⟩
  | f + 1, d, n, x => by
    simp only [SSys.treeLines, List.mem_cons, List.mem_flatMap, Prod.mk.injEq]
    constructor
    · rintro ⟨d', ⟨_, rfl⟩ | ⟨c, hc, hin⟩⟩
      · exact ⟨n, .refl _ _, rfl⟩
      · obtain ⟨m, hm, hx⟩ := (treeLines_labels s f (d + 1) c x).mp ⟨d', hin⟩
        exact ⟨m, .step hc hm, hx⟩
    · rintro ⟨m, hm, rfl⟩
      cases hm with
      | refl => exact ⟨d, Or.inl ⟨rfl, rfl⟩⟩
      | step hc hd =>
        obtain ⟨d', hin⟩ := (treeLines_labels s f (d + 1) _ _).mpr ⟨m, hd, rfl⟩
        exact ⟨d', Or.inr ⟨_, hc, hin⟩⟩

/-- the links printed below `n` are the parent → child links of the nodes reached from `n` -/
theorem treeLinks_links (s : SSys α) : ∀ (f n : Nat) (a b : String),
    (a, b) ∈ s.treeLinks (f + 1) n ↔
      ∃ m c, DescK s f n m ∧ c ∈ s.childsOf m ∧ a = s.nameOf m ∧ b = s.nameOf c
  | 0, n, a, b => by
    simp only [SSys.treeLinks, List.mem_flatMap, List.mem_cons, Prod.mk.injEq, List.not_mem_nil, or_false]
    constructor
    · rintro ⟨c, hc, rfl, rfl⟩; exact ⟨n, c, .refl _ _, hc, rfl, rfl⟩
    · rintro ⟨m, c, hm, hc, rfl, rfl⟩; rw [hm.zero] at hc ⊢; exact ⟨c, hc, rfl, rfl⟩
  | f + 1, n, a, b => by
    have ih := treeLinks_links s f
    rw [SSys.treeLinks]
    simp only [List.mem_flatMap, List.mem_cons, Prod.mk.injEq]
    constructor
    · rintro ⟨c, hc, ⟨rfl, rfl⟩ | hin⟩
      · exact ⟨n, c, .refl _ _, hc, rfl, rfl⟩
      · obtain ⟨m, c', hm, hc', ha, hb⟩ := (ih c a b).mp hin
        exact ⟨m, c', .step hc hm, hc', ha, hb⟩
    · rintro ⟨m, c', hm, hc', rfl, rfl⟩
      cases hm with
      | refl => exact ⟨c', hc', Or.inl ⟨rfl, rfl⟩⟩
      | step hc hd => exact ⟨_, hc, Or.inr ((ih _ _ _).mpr ⟨m, c', hd, hc', rfl, rfl⟩)⟩

/-- what `tree()` relies on: children of live nodes are live, and every live node hangs below a source (within
    `hidx − 1` levels: a path never has more nodes than the system).  True of every reachable system (C14). -/
structure TreeWF (s : SSys α) : Prop where
  childsLive : ∀ n nd, s.node? n = some nd → ∀ c ∈ nd.childs, ∃ cd, s.node? c = some cd
  reach : ∀ m md, s.node? m = some md → ∃ r ∈ s.sources, DescK s (s.hidx - 1) r m

theorem mem_sources {s : SSys α} {r : Nat} (h : r ∈ s.sources) : ∃ nd, s.node? r = some nd := by
  unfold SSys.sources at h
  obtain ⟨_, hp⟩ := List.mem_filter.mp h
  cases hn : s.node? r with
  | none => rw [hn] at hp; cases hp
  | some nd => exact ⟨nd, rfl⟩

theorem DescK.live {s : SSys α} (hw : TreeWF s) {k n m : Nat} (h : DescK s k n m)
    (hn : ∃ nd, s.node? n = some nd) : ∃ md, s.node? m = some md := by
  induction h with
  | refl => exact hn
  | step hc _ ih =>
    obtain ⟨nd, hnd⟩ := hn
    apply ih
    unfold SSys.childsOf at hc
    rw [hnd] at hc
    exact hw.childsLive _ nd hnd _ hc

/-- **tree() lists exactly the live components — partial** (`TreeWF`): the labels printed are the names of the live
    components, and the links printed are exactly the parent → child links of the structure. -/
theorem tree_lists_live_partial {s : SSys α} (hw : TreeWF s) :
    (∀ x, x ∈ (treeLinesAll s).map (·.2) ↔ x ∈ liveNames s) ∧
    (∀ a b, (a, b) ∈ treeEdges s ↔
      ∃ m md c, s.node? m = some md ∧ c ∈ md.childs ∧ a = md.comp.name ∧ b = s.nameOf c) := by
  constructor
  · intro x
    unfold treeLinesAll liveNames
    simp only [List.mem_map, List.mem_flatMap, mem_liveIds]
    constructor
    · rintro ⟨⟨d, y⟩, ⟨r, hr, hin⟩, rfl⟩
      obtain ⟨m, hm, hx⟩ := (treeLines_labels s s.hidx 0 r y).mp ⟨d, hin⟩
      exact ⟨m, hm.live hw (mem_sources hr), hx⟩
    · rintro ⟨m, ⟨md, hmd⟩, rfl⟩
      obtain ⟨r, hr, hd⟩ := hw.reach m md hmd
      obtain ⟨d', hin⟩ := (treeLines_labels s s.hidx 0 r (s.nameOf m)).mpr ⟨m, hd.mono (Nat.sub_le _ _), rfl⟩
      exact ⟨(d', s.nameOf m), ⟨r, hr, hin⟩, rfl⟩
  · intro a b
    unfold treeEdges
    simp only [List.mem_flatMap]
    constructor
    · rintro ⟨r, hr, hin⟩
      have hpos : s.hidx = (s.hidx - 1) + 1 := by
        obtain ⟨nd, hnd⟩ := mem_sources hr
        have := node?_lt hnd; omega
      rw [hpos] at hin
      obtain ⟨m, c, hm, hc, rfl, rfl⟩ := (treeLinks_links s _ r a b).mp hin
      obtain ⟨md, hmd⟩ := hm.live hw (mem_sources hr)
      unfold SSys.childsOf at hc; rw [hmd] at hc
      exact ⟨m, md, c, hmd, hc, nameOf_some hmd, rfl⟩
    · rintro ⟨m, md, c, hmd, hc, rfl, rfl⟩
      obtain ⟨r, hr, hd⟩ := hw.reach m md hmd
      have hpos : s.hidx = (s.hidx - 1) + 1 := by have := node?_lt hmd; omega
      refine ⟨r, hr, ?_⟩
      rw [hpos]
      refine (treeLinks_links s _ r _ _).mpr ⟨m, c, hd, ?_, (nameOf_some hmd).symm, rfl⟩
      unfold SSys.childsOf; rw [hmd]; exact hc

/-! ## 7. Non-vacuity; regression of the former Rectifier finding -/

/-- a decidable sufficient check of `PhasesWF.order` for concrete systems -/
def orderCheck (s : SSys α) : Bool :=
  s.topo.all fun n => match s.node? n with
    | some nd => (match nd.parents with
        | p :: _ => (s.topo.take (s.topo.idxOf n)).contains p
        | [] => true)
    | none => true

theorem order_of_check {s : SSys α} (hnd : s.topo.Nodup) (h : orderCheck s = true) :
    ∀ pre n post, s.topo = pre ++ n :: post →
      ∀ nd p rest, s.node? n = some nd → nd.parents = p :: rest → p ∈ pre := by
  intro pre n post ht nd p rest hn hp
  have hmem : n ∈ s.topo := by rw [ht]; simp
  have hc := List.all_eq_true.mp h n hmem
  simp only [hn, hp] at hc
  have hnot : n ∉ pre := by
    rw [ht] at hnd
    intro hin
    have := (List.nodup_append.mp hnd).2.2 n hin n (by simp)
    exact this rfl
  have hidx : s.topo.idxOf n = pre.length := by
    rw [ht, List.idxOf_append_of_notMem hnot]; simp
  rw [hidx, ht, List.take_left'] at hc
  · simpa using hc
  · rfl

theorem isSome_ok {β : Type} {x : Except Err β} (h : x.toOption.isSome = true) : ∃ c, x = .ok c := by
  cases x with
  | ok c => exact ⟨c, rfl⟩
  | error e => cases h

section examples

def effTab : PV ℚ := .dict [("vi", .list [.float 5]), ("io", .list [.float 0, .float 1]),
  ("eff", .list [.list [.float (4/5), .float (9/10)]])]

/-- constructor arguments (signs to be normalised) -/
def aC : Args ℚ := [("vo", .float 3), ("eff", effTab), ("iq", .float (-1/1000))]
def aI : Args ℚ := [("ii", .float (-1/10)), ("limits", .dict [("vi", .list [.int 1, .int 4])])]

/-- Source "S" (5 V, 0.1 Ω, limits io = [0, 2] and po = default) -/
def cS : Comp ℚ :=
  { name := "S", kind := .source, vo := 5, rs := 1/10, par := .const 0,
    limits := [("io", (0, 2)), ("po", (0, 1000000))],
    params := [("name", .str "S"), ("vo", .int 5), ("rs", .float (1/10)), ("rt", .float 0)] }
/-- Converter "C" with a tabulated efficiency: what `mkComp .converter "C" aC` builds -/
def cC : Comp ℚ :=
  { name := "C", kind := .converter, vo := 3, par := .tab1 [0, 1] [4/5, 9/10], iq := 1/1000,
    params := [("name", .str "C"), ("vo", .float 3), ("eff", effTab), ("iq", .float (1/1000)),
               ("iis", .float 0), ("rt", .float 0)] }
/-- ILoad "I": what `mkComp .iload "I" aI` builds -/
def cI : Comp ℚ :=
  { name := "I", kind := .iload, ii := 1/10, par := .const 0, limits := [("vi", (1, 4))],
    params := [("name", .str "I"), ("ii", .float (1/10)), ("iis", .float 0), ("rt", .float 0),
               ("loss", .bool false)] }
/-- diode Rectifier "RE" -/
def cRE : Comp ℚ :=
  { name := "RE", kind := .rectifier, par := .const (3/10), diode := true,
    params := [("name", .str "RE"), ("type", .str "diode"), ("vdrop", .float (3/10)), ("rt", .float 0)] }

/-- PLoad "P" without phase configuration -/
def cP : Comp ℚ :=
  { name := "P", kind := .pload, pwr := 2, par := .const 0,
    params := [("name", .str "P"), ("pwr", .float 2), ("pwrs", .float 0), ("rt", .float 0), ("loss", .bool false)] }

def n0 : SNode ℚ := { comp := cS, parents := [], childs := [4, 3, 1], pconf := .names ["run"] }
def n1 : SNode ℚ := { comp := cC, parents := [0], childs := [2], pconf := .names ["run", "sleep", "zz"] }
def n2 : SNode ℚ := { comp := cI, parents := [1], childs := [], pconf := .table [("run", 1/5)] }
def n3 : SNode ℚ := { comp := cRE, parents := [0], childs := [] }
def n4 : SNode ℚ := { comp := cP, parents := [0], childs := [] }

/-- S → {C → I, RE, P}, two system phases -/
def exS : SSys ℚ :=
  { nodes := #[some n0, some n1, some n2, some n3, some n4], topo := [0, 1, 2, 3, 4],
    phases := [("run", 10), ("sleep", 90)] }

/-- the other topological order -/
def exT : List Nat := [0, 4, 3, 1, 2]

theorem exS_cases {n : Nat} {nd : SNode ℚ} (h : exS.node? n = some nd) :
    (n = 0 ∧ nd = n0) ∨ (n = 1 ∧ nd = n1) ∨ (n = 2 ∧ nd = n2) ∨ (n = 3 ∧ nd = n3) ∨ (n = 4 ∧ nd = n4) := by
  have hlt : n < 5 := node?_lt h
  have h0 : exS.node? 0 = some n0 := rfl
  have h1 : exS.node? 1 = some n1 := rfl
  have h2 : exS.node? 2 = some n2 := rfl
  have h3 : exS.node? 3 = some n3 := rfl
  have h4 : exS.node? 4 = some n4 := rfl
  obtain rfl | rfl | rfl | rfl | rfl : n = 0 ∨ n = 1 ∨ n = 2 ∨ n = 3 ∨ n = 4 := by omega
  · rw [h0] at h; exact Or.inl ⟨rfl, (Option.some.inj h).symm⟩
  · rw [h1] at h; exact Or.inr (Or.inl ⟨rfl, (Option.some.inj h).symm⟩)
  · rw [h2] at h; exact Or.inr (Or.inr (Or.inl ⟨rfl, (Option.some.inj h).symm⟩))
  · rw [h3] at h; exact Or.inr (Or.inr (Or.inr (Or.inl ⟨rfl, (Option.some.inj h).symm⟩)))
  · rw [h4] at h; exact Or.inr (Or.inr (Or.inr (Or.inr ⟨rfl, (Option.some.inj h).symm⟩)))

theorem exS_live (t : List Nat) (ht : t.Perm [0, 1, 2, 3, 4]) : TopoLive (withTopo exS t) := by
  refine ⟨ht.nodup_iff.mpr (by decide), fun n => ?_⟩
  show n ∈ t ↔ ∃ nd, exS.node? n = some nd
  rw [ht.mem_iff]
  constructor
  · intro hn
    simp only [List.mem_cons, List.not_mem_nil, or_false] at hn
    rcases hn with rfl | rfl | rfl | rfl | rfl
    exacts [⟨n0, rfl⟩, ⟨n1, rfl⟩, ⟨n2, rfl⟩, ⟨n3, rfl⟩, ⟨n4, rfl⟩]
  · rintro ⟨nd, h⟩
    rcases exS_cases h with ⟨rfl, _⟩ | ⟨rfl, _⟩ | ⟨rfl, _⟩ | ⟨rfl, _⟩ | ⟨rfl, _⟩ <;> simp

theorem exS_topoLive : TopoLive exS := exS_live [0, 1, 2, 3, 4] (List.Perm.refl _)

theorem exS_wf (t : List Nat) (ht : t.Perm [0, 1, 2, 3, 4]) (hc : orderCheck (withTopo exS t) = true) :
    PhasesWF (withTopo exS t) := by
  refine ⟨order_of_check (exS_live t ht).nodup hc, ?_, ?_⟩
  · intro n nd p rest hn hp
    rcases exS_cases hn with ⟨rfl, rfl⟩ | ⟨rfl, rfl⟩ | ⟨rfl, rfl⟩ | ⟨rfl, rfl⟩ | ⟨rfl, rfl⟩
    · cases hp
    · cases hp; exact ⟨n0, rfl⟩
    · cases hp; exact ⟨n1, rfl⟩
    · cases hp; exact ⟨n0, rfl⟩
    · cases hp; exact ⟨n0, rfl⟩
  · intro n nd hn hp
    rcases exS_cases hn with ⟨rfl, rfl⟩ | ⟨rfl, rfl⟩ | ⟨rfl, rfl⟩ | ⟨rfl, rfl⟩ | ⟨rfl, rfl⟩
    · rfl
    · cases hp
    · cases hp
    · cases hp
    · cases hp

theorem exS_phasesWF : PhasesWF exS := exS_wf [0, 1, 2, 3, 4] (List.Perm.refl _) (by decide)
theorem exT_perm : exT.Perm exS.topo := by decide
theorem exT_phasesWF : PhasesWF (withTopo exS exT) := exS_wf exT exT_perm (by decide)

theorem exS_treeWF : TreeWF exS := by
  refine ⟨?_, ?_⟩
  · intro n nd hn c hc
    rcases exS_cases hn with ⟨rfl, rfl⟩ | ⟨rfl, rfl⟩ | ⟨rfl, rfl⟩ | ⟨rfl, rfl⟩ | ⟨rfl, rfl⟩
    · simp only [n0, List.mem_cons, List.not_mem_nil, or_false] at hc
      rcases hc with rfl | rfl | rfl
      exacts [⟨n4, rfl⟩, ⟨n3, rfl⟩, ⟨n1, rfl⟩]
    · simp only [n1, List.mem_cons, List.not_mem_nil, or_false] at hc
      subst hc; exact ⟨n2, rfl⟩
    · cases hc
    · cases hc
    · cases hc
  · intro m md hm
    have hsrc : (0 : Nat) ∈ exS.sources := by decide
    have c1 : (1 : Nat) ∈ exS.childsOf 0 := by decide
    have c3 : (3 : Nat) ∈ exS.childsOf 0 := by decide
    have c2 : (2 : Nat) ∈ exS.childsOf 1 := by decide
    have c4 : (4 : Nat) ∈ exS.childsOf 0 := by decide
    refine ⟨0, hsrc, ?_⟩
    show DescK exS 4 0 m
    rcases exS_cases hm with ⟨rfl, _⟩ | ⟨rfl, _⟩ | ⟨rfl, _⟩ | ⟨rfl, _⟩ | ⟨rfl, _⟩
    · exact .refl _ _
    · exact .step c1 (.refl _ _)
    · exact .step c1 (.step c2 (.refl _ _))
    · exact .step c3 (.refl _ _)
    · exact .step c4 (.refl _ _)

/-- the report of the example: S (listed in "run"), C ("run", "sleep" — "zz" is not a system phase), I (dict: "run" with
    its value 1/5), the Rectifier RE ("N/A"), P (no configuration: "N/A" with its main parameter) -/
theorem exS_phases : ∃ rep, phasesRows exS = .ok (some rep) ∧
    rep.rows.map rowKey =
      [("S", "run"), ("C", "run"), ("C", "sleep"), ("I", "run"), ("RE", "N/A"), ("P", "N/A")] ∧
    rep.rows.map (·.ii) = [none, none, none, some (1/5), none, none] ∧
    rep.rows.map (·.pwr) = [none, none, none, none, none, some 2] ∧
    rep.rows.map (·.domain) = ["S", "S", "S", "S", "S", "S"] ∧ rep.showDomain = false :=
  ⟨_, rfl, rfl, rfl, rfl, rfl, rfl⟩

/-- **regression** (former finding: before /repo f863daa `phases()` had no row for a Rectifier): the live Rectifier
    "RE" of the old witness `exS` is now listed, with one "N/A" row and blank value cells -/
theorem regression_rectifier : ∃ rep, phasesRows exS = .ok (some rep) ∧ "RE" ∈ rep.rows.map (·.name) ∧
    ("RE", "N/A") ∈ rep.rows.map rowKey ∧ "RE" ∈ liveNames exS := by
  obtain ⟨rep, hrep, hkeys, _⟩ := exS_phases
  have hin : "RE" ∈ liveNames exS := by decide
  exact ⟨rep, hrep, (phases_lists_live exS_topoLive hrep "RE").mpr hin, by rw [hkeys]; decide, hin⟩

/-! ### non-vacuity of the main theorems -/

-- params_lists_live / limits_lists_live: hypotheses hold, the Component column is S, C, I, RE, P
example : (paramsRows exS true).map (·.name) = ["S", "C", "I", "RE", "P"] ∧
    ((paramsRows exS true).map (·.name)).Perm (liveNames exS) :=
  ⟨rfl, (params_lists_live exS_topoLive true).2⟩
example : (limitsRows exS).map (·.name) = exS.topo.map exS.nameOf := (limits_lists_live exS_topoLive).1

-- limits_show_nondefault: "vi" of I is configured ≠ default and shown; "po" of S is configured = default and blank;
-- "ii" of I is not configured and blank
example : filtLim cI.limits "vi" = some (1, 4) := by decide +kernel
example : filtLim cS.limits "po" = none := by decide +kernel
example : filtLim cI.limits "ii" = none := by decide +kernel
example : (cI.paramRow false true).lims.lookup "vi" = some (some (1, 4)) :=
  ((limits_show_nondefault cI false "vi" (by decide)).1).trans (by decide +kernel)

-- params_show_config: a table is shown as "interp", a constant as stored, an absent key blank
example : paramCell cC.params "eff" = .str "interp" := rfl
example : paramCell cC.params "iq" = .float (1/1000) := rfl
example : paramCell cC.params "pwr" = .str "" := rfl
example : (cC.paramRow true false).pars.lookup "eff" = some (.str "interp") :=
  (params_show_config cC false "eff" (by decide)).1

-- params_show_normalised: the constructor hypothesis is satisfiable (negative `iq` is shown in magnitude)
example : ∃ c, mkComp .converter "C" aC = .ok c ∧ (paramCell c.params "iq").num? = normField c "iq" := by
  obtain ⟨c, hc⟩ := isSome_ok (x := mkComp .converter "C" aC) (by decide +kernel)
  exact ⟨c, hc, ((params_show_normalised .converter "C" aC c hc "iq" (by decide)).2.2.1
    (by simp [kindCols]) (by decide) (by decide)).1⟩
example : ((mkComp .converter "C" aC).toOption.map fun c => ((paramCell c.params "iq").num?, c.iq)) =
    some (some (1/1000), 1/1000) := by decide +kernel
example : ((mkComp .iload "I" aI).toOption.map fun c => ((paramCell c.params "ii").num?, c.ii, filtLim c.limits "vi")) =
    some (some (1/10), 1/10, some (1, 4)) := by decide +kernel

-- phases_rows_keys / phases_lists_live / phases_show_activity on the example
example : ∃ rep, phasesRows exS = .ok (some rep) ∧ rep.rows.map rowKey = exS.topo.flatMap (rowKeys exS) := by
  obtain ⟨rep, hrep, _⟩ := exS_phases
  exact ⟨rep, hrep, (phases_rows_keys hrep).1⟩
example : ∃ rep, phasesRows exS = .ok (some rep) ∧ ∀ x, x ∈ rep.rows.map (·.name) ↔ x ∈ liveNames exS := by
  obtain ⟨rep, hrep, _⟩ := exS_phases
  exact ⟨rep, hrep, phases_lists_live exS_topoLive hrep⟩
example : phNames (α := ℚ) .RECTIFIER (.table []) ["run", "sleep"] = .ok ["N/A"] := rfl
example : phNames (α := ℚ) .CONVERTER (.names ["run", "sleep", "zz"]) ["run", "sleep"] = .ok ["run", "sleep"] := rfl

-- phases_show_values: a constructed ILoad with the dict {"run": 1/5}: the "run" row shows loadVal = 1/5 in `ii (A)`
example : ∃ c r, mkComp .iload "I" aI = .ok c ∧
    phaseRow c (.table [("run", 1/5)]) "S" "run" = .ok r ∧ r.ii = some (1/5) ∧ r.pwr = none ∧ r.rs = none := by
  obtain ⟨c, hc⟩ := isSome_ok (x := mkComp .iload "I" aI) (by decide +kernel)
  have hk : c.kind = .iload := (mkComp_shows _ _ _ _ hc).2.1
  obtain ⟨r, hr⟩ : ∃ r, phaseRow c (.table [("run", 1/5)]) "S" "run" = .ok r := by
    obtain ⟨_, hI, _⟩ := mkComp_load_params _ _ _ _ hc
    obtain ⟨l1, l2, l3⟩ := hI rfl
    unfold phaseRow
    simp [hk, Kind.ctype, l1, l2, l3]
  have hph : phNames (α := ℚ) .LOAD (.table [("run", 1/5)]) ["run", "sleep"] = .ok ["run"] := rfl
  obtain ⟨h1, h2, _, h4, _⟩ := phases_show_values .iload "I" aI c hc rfl hph (by decide) (by decide) hr
  refine ⟨c, r, hc, hr, ?_, h2 (by rw [hk]; decide), h4 (by rw [hk]; decide)⟩
  have : loadCell c r = r.ii := by unfold loadCell; rw [hk]
  rw [← this, h1]
  simp [loadVal, PhaseConf.ctx, List.lookup]

-- reports_order_free: both orders are valid; the phases() rows come out in another order
example : (∀ b, (paramsRows (withTopo exS exT) b).Perm (paramsRows exS b)) ∧
    (treeEdges (withTopo exS exT)).Perm (treeEdges exS) :=
  let h := reports_order_free exS exT exT_perm exS_phasesWF exT_phasesWF
  ⟨h.1, h.2.2.1⟩
example : ∃ rep rep', phasesRows exS = .ok (some rep) ∧ phasesRows (withTopo exS exT) = .ok (some rep') ∧
    rep'.rows.Perm rep.rows ∧ rep'.rows.map rowKey ≠ rep.rows.map rowKey := by
  obtain ⟨rep, hrep, hk, _⟩ := exS_phases
  obtain ⟨rep', hrep', hperm, _⟩ := (phases_order_free exS exT exT_perm exS_phasesWF exT_phasesWF).1 rep hrep
  refine ⟨rep, rep', hrep, hrep', hperm, ?_⟩
  rw [hk, (phases_rows_keys hrep').1]
  decide
example : (paramsRows (withTopo exS exT) false).map (·.name) = ["S", "P", "RE", "C", "I"] := rfl

-- tree(): printed links and lines of the example; tree_lists_live_partial applies
example : treeEdges exS = [("S", "P"), ("S", "RE"), ("S", "C"), ("C", "I")] := rfl
example : treeLinesAll exS = [(0, "S"), (1, "P"), (1, "RE"), (1, "C"), (2, "I")] := rfl
example : ∀ x, x ∈ (treeLinesAll exS).map (·.2) ↔ x ∈ liveNames exS := (tree_lists_live_partial exS_treeWF).1

end examples

end C16P
end SysLoss
