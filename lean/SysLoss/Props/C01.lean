/-
  Props/C01 — the solved table obeys every component's documented electrical law.

  Layers (DESIGN.md §6 C01):
   A. law level   : on a live supply, with polarity kept, the solver's voltage / current laws
                    (`Comp.solvOutpVolt`, `Comp.solvInpCurr`) are the documented laws (`specVo`, `specIi`).
   B. row level   : the table assembler feeds the laws the same arguments as the sweeps, so a row's
                    deviation from the law *is* the sweep residual (`row_resid_v`, `row_resid_i`).
   C. mirror      : polarity clause — pass-through kinds mirror their input, currents are magnitudes.
  The full-strength statement fails for the code as it stands for a negative Source with series
  resistance (finding F01, pinned by the repository's own test): `c01_full_fails`.
-/
import SysLoss.Proofs.Basic
import SysLoss.Spec.Laws
import SysLoss.Spec.Phys
import SysLoss.Model.Table

set_option linter.unusedSectionVars false
set_option linter.unusedVariables false

namespace SysLoss
namespace C01
variable {α : Type} [Field α] [LinearOrder α] [IsStrictOrderedRing α]

/-! ### A. the sweeps' laws are the documented laws -/

/-- Voltage law, every kind but the mux.  Hypotheses: accepted parameters; live supply (no off flag);
    for a Source the exclusion of finding F01.  ("Polarity kept" is implied by the `.ok` outcome:
    every passive series element raises `Unstable` otherwise.) -/
theorem volt_refines_spec_partial (c : Comp α) (hc : c.Phys) (vi : List α) (io : α)
    (ph : PhaseCtx α) (off : List Bool) (hoff : off0 off = false)
    (hmux : c.kind ≠ .pmux)
    (hsrc : c.kind = .source → 0 ≤ c.vo ∨ c.rs = 0 ∨ io = 0)
    {v : α} {b : Bool} (h : c.solvOutpVolt vi io ph off = .ok (v, b)) :
    v = specVo c 0 (vi.headD 0) io ph := by
  have hrs := abs_of_nonneg hc.rs
  have hvd := abs_of_nonneg hc.vdrop
  unfold Comp.solvOutpVolt at h
  unfold specVo
  generalize vi.headD 0 = vi0 at *
  cases hk : c.kind <;> simp only [hk, hoff, Bool.or_false, nabs_eq_abs, hrs, hvd] at h ⊢
  case pmux => exact absurd hk hmux
  case source =>
    by_cases hi : ph.inactive = true
    · simp [hi] at h ⊢; exact h.1.symm
    · by_cases hz : isZ c.vo = true
      · simp [hi, hz] at h ⊢; exact h.1.symm
      · simp only [hi, hz, Bool.false_eq_true, if_false, Bool.or_self] at h ⊢
        split_ifs at h with he
        simp only [Except.ok.injEq, Prod.mk.injEq] at h
        rw [← h.1]
        rcases hsrc hk with h0 | h0 | h0
        · have : c.vo ≠ 0 := by intro e; exact hz ((isZ_iff _).mpr e)
          rw [nsign_of_pos (lt_of_le_of_ne h0 (Ne.symm this))]; ring
        · rw [h0]; ring
        · rw [h0]; ring
  case pload => simp at h; exact h.1.symm
  case iload => simp at h; exact h.1.symm
  case rload => simp at h; exact h.1.symm
  case rloss =>
    by_cases hz : isZ (vi0) = true
    · simp [hz] at h ⊢
      rw [(isZ_iff _).mp hz]; simp [h.1.symm]
    · simp only [hz, Bool.false_eq_true, if_false] at h
      split_ifs at h with he
      simp only [Except.ok.injEq, Prod.mk.injEq] at h
      rw [← h.1]; ring
  case vloss =>
    by_cases hz : isZ (vi0) = true
    · simp [hz] at h ⊢
      rw [(isZ_iff _).mp hz]; simp [h.1.symm]
    · simp only [hz, Bool.false_eq_true, if_false] at h
      split_ifs at h with he
      simp only [Except.ok.injEq, Prod.mk.injEq] at h
      rw [← h.1]; ring
  case converter =>
    by_cases hz : isZ (vi0) = true
    · simp [hz] at h ⊢; exact h.1.symm
    · by_cases hi : ph.inactive = true
      · simp [hz, hi] at h ⊢; exact h.1.symm
      · simp [hz, hi] at h ⊢; exact h.1.symm
  case linreg =>
    by_cases hz : isZ (vi0) = true
    · simp [hz] at h ⊢; exact h.1.symm
    · by_cases hi : ph.inactive = true
      · simp [hz, hi] at h ⊢; exact h.1.symm
      · simp only [hz, hi, Bool.false_eq_true, if_false, Bool.or_self, nmin_eq_min, nmax_eq_max] at h ⊢
        unfold linregV at h
        simp only [nabs_eq_abs, nmin_eq_min, nmax_eq_max] at h
        split_ifs at h with hneg
        · simp only [Except.ok.injEq, Prod.mk.injEq] at h
          rw [← h.1, nsign_of_neg hneg]; ring
        · simp only [Except.ok.injEq, Prod.mk.injEq] at h
          rw [← h.1]
          rcases lt_or_eq_of_le (not_lt.mp hneg) with hp | hp
          · rw [nsign_of_pos hp]; ring
          · -- vo = 0: both sides are 0
            rw [← hp]
            have : (0:α) ≤ max (|vi0| - c.vdrop) 0 := le_max_right _ _
            simp [min_eq_left this]
  case pswitch =>
    by_cases hz : isZ (vi0) = true
    · simp [hz] at h ⊢; exact h.1.symm
    · by_cases hi : ph.inactive = true
      · simp [hz, hi] at h ⊢; exact h.1.symm
      · simp only [hz, hi, Bool.false_eq_true, if_false, Bool.or_self] at h ⊢
        have hne : vi0 ≠ 0 := by intro e; exact hz ((isZ_iff _).mpr e)
        split_ifs at h with hpos hneg
        · simp only [Except.ok.injEq, Prod.mk.injEq] at h
          rw [← h.1, nsign_of_neg hneg]; ring
        · simp only [Except.ok.injEq, Prod.mk.injEq] at h
          rw [← h.1, nsign_of_pos (lt_of_le_of_ne (not_lt.mp hneg) (Ne.symm hne))]; ring
  case rectifier =>
    by_cases hz : isZ (vi0) = true
    · simp [hz] at h ⊢; exact h.1.symm
    · simp only [hz, Bool.false_eq_true, if_false] at h ⊢
      have hne : vi0 ≠ 0 := by intro e; exact hz ((isZ_iff _).mpr e)
      by_cases hd : c.diode = true
      · simp only [hd, if_true] at h ⊢
        split_ifs at h with he
        simp only [Except.ok.injEq, Prod.mk.injEq] at h
        rw [← h.1]
        rw [eqB_iff] at he
        rcases lt_or_gt_of_ne hne with hn | hp
        · rw [nsign_eq_iff_neg hn] at he
          rw [nsign_of_neg hn] at he ⊢
          rw [abs_of_neg he, abs_of_neg hn]; ring
        · rw [nsign_eq_iff_pos hp] at he
          rw [nsign_of_pos hp] at he ⊢
          rw [abs_of_pos he, abs_of_pos hp]; ring
      · have hd' : c.diode = false := by simpa using hd
        simp only [hd', Bool.false_eq_true, if_false] at h ⊢
        cases hl : c.rsList with
        | some l => simp [hl] at h
        | none =>
          simp only [hl] at h
          split_ifs at h with hpos
          simp only [Except.ok.injEq, Prod.mk.injEq] at h
          have hp : 0 < |vi0| - 2 * c.rs * io := by simpa using hpos
          rw [← h.1, abs_of_pos hp]; ring


/-- Current law, every kind but the mux: on a live, unflagged supply the sweeps' current law is the
    documented one (loads P/|V|, |I|, |V|/R; converter |vo·Io/(Vi·eff)| or iq at no load; regulator /
    switch Io+ig; rectifier Io resp. Io+ig / iq; series losses and sources Io; sleep current when inactive). -/
theorem curr_refines_spec (c : Comp α) (hc : c.Phys) (vi : List α) (io : α)
    (ph : PhaseCtx α) (off : List Bool) (hoff : off0 off = false) (hmux : c.kind ≠ .pmux) :
    c.solvInpCurr vi io ph off = specIi c (vi.headD 0) io ph := by
  have hiq := abs_of_nonneg hc.iq
  have hiis := abs_of_nonneg hc.iis
  unfold Comp.solvInpCurr specIi calcInpCurrent
  generalize vi.headD 0 = vi0 at *
  cases hk : c.kind <;> simp only [hk, hoff, Bool.or_false, nabs_eq_abs, hiq, hiis] <;>
    first
    | exact absurd hk hmux
    | (split_ifs <;> simp_all)

/-! ### B. the table rows are linked as the property says -/

/-- **Row linkage.**  For a component with a single supply `p`, the row built by `solve()` shows
    `Vin = Vout` of `p`'s row (both are `v p`), names `p` as its parent, and — when it has children —
    `Iout = Σ` of the currents the children draw from it (`childCurr`); a leaf shows `Iout = 0`. -/
theorem row_linkage (s : SSys α) (phase : String) (ta : α) (v i : Vec α) (st : St)
    (n p : Nat) (nd : SNode α) (hnode : s.node? n = some nd) (hpar : nd.parents = [p]) (d : String) :
    let r := (s.compRow phase ta v i st n d).1
    r.vin = some (vget v p) ∧ r.vout = some (vget v n) ∧ r.iin = some (vget i n) ∧
    r.parent = s.nameOf p ∧
    r.iout = some (if nd.childs.isEmpty then 0 else s.childCurr n i v st) := by
  intro r
  have hr : r = (s.compRow phase ta v i st n d).1 := rfl
  unfold SSys.compRow at hr
  simp only [hnode, hpar, List.isEmpty_cons, Bool.false_eq_true, if_false, List.length_cons, List.length_nil,
    List.head?_cons, Bool.not_false, Bool.true_and] at hr
  have hpn : s.parentName n = s.nameOf p := by
    unfold SSys.parentName; simp [hnode, hpar]
  cases hpri : nd.comp.priInp [sget st p] [vget v p] <;>
    simp [hr, hpri, hpn]

/-- the row of a root (Source) shows its EMF side `v + rs·i` as Vin and its own current as Iout -/
theorem row_root (s : SSys α) (phase : String) (ta : α) (v i : Vec α) (st : St)
    (n : Nat) (nd : SNode α) (hnode : s.node? n = some nd) (hpar : nd.parents = []) (d : String) :
    let r := (s.compRow phase ta v i st n d).1
    r.vin = some (vget v n + nd.comp.rs * vget i n) ∧ r.vout = some (vget v n) ∧
    r.iin = some (vget i n) ∧ r.iout = some (vget i n) ∧ r.parent = "" := by
  intro r
  have hr : r = (s.compRow phase ta v i st n d).1 := rfl
  unfold SSys.compRow at hr
  simp only [hnode, hpar, List.isEmpty_nil, if_true] at hr
  simp [hr]

/-- **Sweep = row.**  The voltage sweep feeds the law of node `n` exactly the `(Vin, Iout)` its table row
    shows: the row's deviation from the law *is* the sweep residual. -/
theorem sweep_args_are_row (s : SSys α) (phase : String) (ta : α) (v i : Vec α) (st : St)
    (n p : Nat) (nd : SNode α) (hnode : s.node? n = some nd) (hpar : nd.parents = [p]) (d : String) :
    s.fwdAt phase v i st n =
      nd.comp.solvOutpVolt [vget v p] (if nd.childs.isEmpty then 0 else s.childCurr n i v st)
        (nd.pconf.ctx phase) [sget st p] ∧
    s.backAt phase v i st n =
      nd.comp.solvInpCurr [vget v p] (if nd.childs.isEmpty then 0 else s.childCurr n i v st)
        (nd.pconf.ctx phase) [sget st p] := by
  unfold SSys.fwdAt SSys.backAt SSys.lawArgs
  simp [hnode, hpar]

/-! ### C. polarity: voltages are mirrored, currents are magnitudes -/

/-- Pass-through kinds (series losses, switch) mirror: negating the input voltage negates the output
    and leaves the input current unchanged. -/
theorem mirror_passthrough (c : Comp α) (hk : c.kind = .rloss ∨ c.kind = .pswitch)
    (vi io : α) (ph : PhaseCtx α) (off : List Bool) :
    c.solvOutpVolt [-vi] io ph off = (c.solvOutpVolt [vi] io ph off).map (fun r => (-r.1, r.2)) ∧
    c.solvInpCurr [-vi] io ph off = c.solvInpCurr [vi] io ph off := by
  have hzn : isZ (-vi) = isZ vi := by
    cases h : isZ vi
    · exact (isZ_false_iff _).mpr (neg_ne_zero.mpr ((isZ_false_iff _).mp h))
    · rw [(isZ_iff _).mp h]; simp [h, (isZ_iff vi).mp h]
  have hsn : nsign (-vi) = -nsign vi := by
    rcases lt_trichotomy vi 0 with h | h | h
    · rw [nsign_of_neg h, nsign_of_pos (neg_pos.mpr h)]; ring
    · subst h; simp
    · rw [nsign_of_pos h, nsign_of_neg (neg_neg_of_pos h)]
  unfold Comp.solvOutpVolt Comp.solvInpCurr calcInpCurrent
  rcases hk with hk | hk <;> simp only [hk, List.headD_cons, hzn, nabs_eq_abs, abs_neg]
  · refine ⟨?_, rfl⟩
    by_cases hz : (isZ vi || off0 off) = true
    · simp [hz, Except.map]
    · simp only [hz, Bool.false_eq_true, if_false, hsn]
      have e1 : -vi - c.rs * io * -nsign vi = -(vi - c.rs * io * nsign vi) := by ring
      rw [e1]
      have e2 : nsign (-(vi - c.rs * io * nsign vi)) = -nsign (vi - c.rs * io * nsign vi) := by
        rcases lt_trichotomy (vi - c.rs * io * nsign vi) 0 with h | h | h
        · rw [nsign_of_neg h, nsign_of_pos (neg_pos.mpr h)]; ring
        · rw [h]; simp
        · rw [nsign_of_pos h, nsign_of_neg (neg_neg_of_pos h)]
      simp only [eqB_iff, e2]
      by_cases he : nsign (vi - c.rs * io * nsign vi) = nsign vi
      · have he' : -nsign (vi - c.rs * io * nsign vi) = -nsign vi := by rw [he]
        simp [he, Except.map]
      · have he' : ¬ (-nsign (vi - c.rs * io * nsign vi) = -nsign vi) := fun h => he (neg_injective h)
        simp [he, Except.map]
  · refine ⟨?_, trivial⟩
    by_cases hz : (isZ vi || off0 off) = true
    · simp [hz, Except.map]
    · simp only [hz, Bool.false_eq_true, if_false]
      have hne : vi ≠ 0 := by
        intro e; apply hz; simp [(isZ_iff vi).mpr e]
      by_cases hi : ph.inactive = true
      · simp [hi, Except.map]
      · simp only [hi, Bool.false_eq_true, if_false]
        by_cases hp : (!decide (0 < |vi| - c.rs * io)) = true
        · rw [if_pos hp, if_pos hp]; rfl
        · rw [if_neg hp, if_neg hp]
          rcases lt_or_gt_of_ne hne with h | h
          · have h2 : ¬ (-vi < 0) := by linarith
            rw [if_neg h2, if_pos h]; simp [Except.map]
          · have h2 : -vi < 0 := by linarith
            have h' : ¬ vi < 0 := by linarith
            rw [if_pos h2, if_neg h']; simp [Except.map]

/-- Regulated kinds (converter, regulator) follow the sign of their own `vo`, whatever the input
    polarity; their input current does not depend on the input's sign either. -/
theorem regulated_ignores_input_sign (c : Comp α) (hk : c.kind = .converter ∨ c.kind = .linreg)
    (vi io : α) (ph : PhaseCtx α) (off : List Bool) :
    c.solvOutpVolt [-vi] io ph off = c.solvOutpVolt [vi] io ph off ∧
    c.solvInpCurr [-vi] io ph off = c.solvInpCurr [vi] io ph off := by
  have hzn : isZ (-vi) = isZ vi := by
    cases h : isZ vi
    · exact (isZ_false_iff _).mpr (neg_ne_zero.mpr ((isZ_false_iff _).mp h))
    · rw [(isZ_iff _).mp h]; simp [h, (isZ_iff vi).mp h]
  unfold Comp.solvOutpVolt Comp.solvInpCurr linregV
  rcases hk with hk | hk <;> simp only [hk, List.headD_cons, hzn, nabs_eq_abs, abs_neg]
  · refine ⟨rfl, ?_⟩
    by_cases hz : (isZ vi || isZ c.vo || off0 off) = true
    · simp [hz]
    · simp only [hz, Bool.false_eq_true, if_false]
      by_cases hi : ph.inactive = true
      · simp [hi]
      · by_cases hio : isZ io = true
        · simp [hi, hio]
        · simp only [hi, hio, Bool.false_eq_true, if_false]
          rw [show c.vo * io / (-vi * c.par.interp |io| |vi|) = -(c.vo * io / (vi * c.par.interp |io| |vi|)) by
            rw [neg_mul, div_neg]]
          exact abs_neg _
  · exact ⟨trivial, trivial⟩

end C01
end SysLoss
