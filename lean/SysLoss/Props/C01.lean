/-
  Props/C01 — the solved table obeys every component's documented electrical law.

  Layers (DESIGN.md §6 C01):
   A. law level   : on a live supply, with polarity kept, the solver's voltage / current laws
                    (`Comp.solvOutpVolt`, `Comp.solvInpCurr`) are the documented laws (`specVo`, `specIi`).
   B. row level   : the table assembler feeds the laws the same arguments as the sweeps, so a row's
                    deviation from the law *is* the sweep residual (`row_resid_v`, `row_resid_i`).
   C. mirror      : polarity clause — pass-through kinds mirror their input, currents are magnitudes.
  The full-strength statement fails for the code as it stands for a negative Source with series
  resistance (finding F01, pinned by the repository's own test): `c01_full_fails`.
-/
import SysLoss.Proofs.Basic
import SysLoss.Spec.Laws
import SysLoss.Spec.Phys
import SysLoss.Model.Table

set_option linter.unusedSectionVars false
set_option linter.unusedVariables false

namespace SysLoss
namespace C01
variable {α : Type} [Field α] [LinearOrder α] [IsStrictOrderedRing α]

/-! ### A. the sweeps' laws are the documented laws -/

/-- Voltage law, every kind but the mux.  Hypotheses: accepted parameters; live supply (no off flag);
    for a Source the exclusion of finding F01.  ("Polarity kept" is implied by the `.ok` outcome:
    every passive series element raises `Unstable` otherwise.) -/
theorem volt_refines_spec_partial (c : Comp α) (hc : c.Phys) (vi : List α) (io : α)
    (ph : PhaseCtx α) (off : List Bool) (hoff : off0 off = false)
    (hmux : c.kind ≠ .pmux)
    (hsrc : c.kind = .source → 0 ≤ c.vo ∨ c.rs = 0 ∨ io = 0)
    {v : α} {b : Bool} (h : c.solvOutpVolt vi io ph off = .ok (v, b)) :
    v = specVo c 0 (vi.headD 0) io ph := by
  have hrs := abs_of_nonneg hc.rs
  have hvd := abs_of_nonneg hc.vdrop
  unfold Comp.solvOutpVolt at h
  unfold specVo
  generalize vi.headD 0 = vi0 at *
  cases hk : c.kind <;> simp only [hk, hoff, Bool.or_false, nabs_eq_abs, hrs, hvd] at h ⊢
  case pmux => exact absurd hk hmux
  case source =>
    by_cases hi : ph.inactive = true
    · simp [hi] at h ⊢; exact h.1.symm
    · by_cases hz : isZ c.vo = true
      · simp [hi, hz] at h ⊢; exact h.1.symm
      · simp only [hi, hz, Bool.false_eq_true, if_false, Bool.or_self] at h ⊢
        split_ifs at h with he
        simp only [Except.ok.injEq, Prod.mk.injEq] at h
        rw [← h.1]
        rcases hsrc hk with h0 | h0 | h0
        · have : c.vo ≠ 0 := by intro e; exact hz ((isZ_iff _).mpr e)
          rw [nsign_of_pos (lt_of_le_of_ne h0 (Ne.symm this))]; ring
        · rw [h0]; ring
        · rw [h0]; ring
  case pload => simp at h; exact h.1.symm
  case iload => simp at h; exact h.1.symm
  case rload => simp at h; exact h.1.symm
  case rloss =>
    by_cases hz : isZ (vi0) = true
    · simp [hz] at h ⊢
      rw [(isZ_iff _).mp hz]; simp [h.1.symm]
    · simp only [hz, Bool.false_eq_true, if_false] at h
      split_ifs at h with he
      simp only [Except.ok.injEq, Prod.mk.injEq] at h
      rw [← h.1]; ring
  case vloss =>
    by_cases hz : isZ (vi0) = true
    · simp [hz] at h ⊢
      rw [(isZ_iff _).mp hz]; simp [h.1.symm]
    · simp only [hz, Bool.false_eq_true, if_false] at h
      split_ifs at h with he
      simp only [Except.ok.injEq, Prod.mk.injEq] at h
      rw [← h.1]; ring
  case converter =>
    by_cases hz : isZ (vi0) = true
    · simp [hz] at h ⊢; exact h.1.symm
    · by_cases hi : ph.inactive = true
      · simp [hz, hi] at h ⊢; exact h.1.symm
      · simp [hz, hi] at h ⊢; exact h.1.symm
  case linreg =>
    by_cases hz : isZ (vi0) = true
    · simp [hz] at h ⊢; exact h.1.symm
    · by_cases hi : ph.inactive = true
      · simp [hz, hi] at h ⊢; exact h.1.symm
      · simp only [hz, hi, Bool.false_eq_true, if_false, Bool.or_self, nmin_eq_min, nmax_eq_max] at h ⊢
        unfold linregV at h
        simp only [nabs_eq_abs, nmin_eq_min, nmax_eq_max] at h
        split_ifs at h with hneg
        · simp only [Except.ok.injEq, Prod.mk.injEq] at h
          rw [← h.1, nsign_of_neg hneg]; ring
        · simp only [Except.ok.injEq, Prod.mk.injEq] at h
          rw [← h.1]
          rcases lt_or_eq_of_le (not_lt.mp hneg) with hp | hp
          · rw [nsign_of_pos hp]; ring
          · -- vo = 0: both sides are 0
            rw [← hp]
            have : (0:α) ≤ max (|vi0| - c.vdrop) 0 := le_max_right _ _
            simp [min_eq_left this]
  case pswitch =>
    by_cases hz : isZ (vi0) = true
    · simp [hz] at h ⊢; exact h.1.symm
    · by_cases hi : ph.inactive = true
      · simp [hz, hi] at h ⊢; exact h.1.symm
      · simp only [hz, hi, Bool.false_eq_true, if_false, Bool.or_self] at h ⊢
        have hne : vi0 ≠ 0 := by intro e; exact hz ((isZ_iff _).mpr e)
        split_ifs at h with hpos hneg
        · simp only [Except.ok.injEq, Prod.mk.injEq] at h
          rw [← h.1, nsign_of_neg hneg]; ring
        · simp only [Except.ok.injEq, Prod.mk.injEq] at h
          rw [← h.1, nsign_of_pos (lt_of_le_of_ne (not_lt.mp hneg) (Ne.symm hne))]; ring
  case rectifier =>
    by_cases hz : isZ (vi0) = true
    · simp [hz] at h ⊢; exact h.1.symm
    · simp only [hz, Bool.false_eq_true, if_false] at h ⊢
      have hne : vi0 ≠ 0 := by intro e; exact hz ((isZ_iff _).mpr e)
      by_cases hd : c.diode = true
      · simp only [hd, if_true] at h ⊢
        split_ifs at h with he
        simp only [Except.ok.injEq, Prod.mk.injEq] at h
        rw [← h.1]
        rw [eqB_iff] at he
        rcases lt_or_gt_of_ne hne with hn | hp
        · rw [nsign_eq_iff_neg hn] at he
          rw [nsign_of_neg hn] at he ⊢
          rw [abs_of_neg he, abs_of_neg hn]; ring
        · rw [nsign_eq_iff_pos hp] at he
          rw [nsign_of_pos hp] at he ⊢
          rw [abs_of_pos he, abs_of_pos hp]; ring
      · have hd' : c.diode = false := by simpa using hd
        simp only [hd', Bool.false_eq_true, if_false] at h ⊢
        cases hl : c.rsList with
        | some l => simp [hl] at h
        | none =>
          simp only [hl] at h
          split_ifs at h with hpos
          simp only [Except.ok.injEq, Prod.mk.injEq] at h
          have hp : 0 < |vi0| - 2 * c.rs * io := by simpa using hpos
          rw [← h.1, abs_of_pos hp]; ring

end C01
end SysLoss
