/-
  Props/C17Batt — clause 3 of C17: `batt_life()` puts the battery's voltage and resistance back on return and also
  when a callback or the solver raises.

  Subject: `Batt.battLife` (Model/Batt.lean), which follows the repaired code (/repo 366dc68: the restore of `vo, rs`
  sits in a `finally` around the depletion loop).

    batt_restores          for EVERY callback script (incl. an exception at the probe or at the k-th deplete call, for
                           every k) and EVERY solver behaviour (incl. exceptions and non-convergence): the Source's
                           `vo, rs` after the call equal those before
    batt_no_call_before_loop   unknown name / not a Source / raising probe: no deplete call is made at all

  Regression witnesses of finding F22 (before the repair the Source was left at the 2nd deplete result 3.8 V / 0.22 Ω,
  resp. at the probed 4 V / 0.2 Ω) are kept below as `example`s.
-/
import SysLoss.Props.C18

set_option linter.unusedSectionVars false
set_option linter.unusedVariables false

namespace SysLoss
namespace C17
open Batt C18
variable {α : Type} [Field α] [LinearOrder α] [IsStrictOrderedRing α]

/-- **batt_restores.**  Whatever the callbacks and the solver do — return, raise at any call, fail to converge — the
    Source holds its original `vo, rs` when `batt_life` is left. -/
theorem batt_restores (inp : Input α) (solveI : α → α → String → Except Err (α × Nat)) :
    (battLife inp solveI).vo = inp.vo ∧ (battLife inp solveI).rs = inp.rs := by
  rcases run_shape inp solveI with ⟨_, e, he⟩ | ⟨_, p, hp, hrun⟩
  · rw [he]; exact ⟨rfl, rfl⟩
  · rw [hrun]; exact ⟨rfl, rfl⟩

/-- exceptions raised before the loop (unknown name, not a Source, raising probe): no deplete call, no row -/
theorem batt_no_call_before_loop (inp : Input α) (solveI : α → α → String → Except Err (α × Nat))
    (h : ¬ (Accepts inp ∧ ∃ p, inp.probe = .ret p)) :
    (battLife inp solveI).calls = [] ∧ ∃ e, (battLife inp solveI).outcome = .raised e := by
  rcases run_shape inp solveI with ⟨_, e, he⟩ | ⟨ha, p, hp, _⟩
  · rw [he]; exact ⟨rfl, e, rfl⟩
  · exact absurd ⟨ha, p, hp⟩ h

/-! ### non-vacuity and regression witnesses (F22) -/

/-- Source 5 V / 0.1 Ω; probe (1 Ah, 4 V, 0.2 Ω); deplete answers (0.9, 3.9, 0.21), (0.8, 3.8, 0.22), then raises
    `KeyError` at its 3rd call -/
def raisingInput : Input ℚ where
  reg := ⟨[("B", .source), ("L", .iload)], [("B", ""), ("L", "")]⟩
  battery := "B"
  vo := 5
  rs := 1 / 10
  cutoff := 3
  phases := []
  probe := .ret ⟨1, 4, 1 / 5⟩
  deplete := [.ret ⟨9 / 10, 39 / 10, 21 / 100⟩, .ret ⟨8 / 10, 38 / 10, 22 / 100⟩, .raise (.key "boom")]

/-- the raising run really is a run of the loop: three deplete calls were made, the third raised -/
example : (battLife raisingInput (fun _ _ _ => .ok (1 / 2, 5))).calls.length = 3 ∧
    (battLife raisingInput (fun _ _ _ => .ok (1 / 2, 5))).outcome = .raised (.key "boom") := by decide +kernel
/-- … and the Source is back at 5 V / 0.1 Ω (was 3.8 V / 0.22 Ω before the repair) -/
example : (battLife raisingInput (fun _ _ _ => .ok (1 / 2, 5))).vo = 5 ∧
    (battLife raisingInput (fun _ _ _ => .ok (1 / 2, 5))).rs = 1 / 10 := batt_restores _ _
example : (battLife raisingInput (fun _ _ _ => .ok (1 / 2, 5))).vo = 5 := by decide +kernel
/-- a solver exception ("Unstable system") in the first iteration (the probed 4 V / 0.2 Ω stayed before the repair) -/
example : (battLife raisingInput (fun _ _ _ => .error (.unstable "L"))).outcome = .raised (.unstable "L") ∧
    (battLife raisingInput (fun _ _ _ => .error (.unstable "L"))).vo = 5 := by decide +kernel
/-- non-convergence -/
example : (battLife raisingInput (fun _ _ _ => .ok (1 / 2, 10001))).outcome =
    .raised (.runtime "Steady-state not achieved") ∧
    (battLife raisingInput (fun _ _ _ => .ok (1 / 2, 10001))).vo = 5 := by decide +kernel
/-- a returning run -/
example : (battLife C18.demoInput C18.demoSolve).outcome = .ok ∧ (battLife C18.demoInput C18.demoSolve).vo = 5 ∧
    (battLife C18.demoInput C18.demoSolve).rs = 1 / 10 := by decide +kernel
/-- a raising probe: nothing is called -/
example : (battLife { raisingInput with probe := .raise (.key "x") } (fun _ _ _ => .ok (1 / 2, 5))).calls = [] :=
  (batt_no_call_before_loop _ _ (by rintro ⟨_, p, hp⟩; cases hp)).1

end C17
end SysLoss
