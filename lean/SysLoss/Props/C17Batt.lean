/-
  Props/C17Batt — clause 3 of C17: `batt_life()` puts the battery's voltage and resistance back.

  Subject: `Batt.battLife` (Model/Batt.lean).  The Python restores `vo, rs` *after* the depletion loop and has no
  `try/finally`, so the clause holds for runs that return and for exceptions raised before the loop, and fails for an
  exception from a deplete call or from the solver (design finding F22):

    batt_restores_partial            the call returns (no exception)            → vo, rs as before
    batt_restores_before_loop        unknown name / not a Source / raising probe → vo, rs as before, no deplete call
    batt_restores_full               the clause as stated (a `def … : Prop`)
    batt_restores_full_fails         ¬ batt_restores_full: KeyError from the 3rd deplete call leaves the 2nd result
    batt_restores_full_fails_solver  "Unstable system" from the first solve leaves the probed values

  When F22 is repaired (`try: <loop> finally: <restore>`), change `battLife.finish` in Model/Batt.lean to restore for
  every outcome (`⟨row0 :: r.rows, r.calls, voOrg, rsOrg, r.outcome⟩`); `batt_restores_full` is then proved by
  `rcases C18.run_shape inp solveI with ⟨_, e, he⟩ | ⟨_, p, hp, hrun⟩` / `rw [he]` resp. `rw [hrun]` / `exact ⟨rfl, rfl⟩`,
  and the two `_fails` theorems are deleted.
-/
import SysLoss.Props.C18

set_option linter.unusedSectionVars false
set_option linter.unusedVariables false

namespace SysLoss
namespace C17
open Batt C18
variable {α : Type} [Field α] [LinearOrder α] [IsStrictOrderedRing α]

/-- **batt_restores (partial).**  Whenever `batt_life` returns a table — i.e. neither a callback nor the solver raised —
    the Source holds its original `vo, rs` again, whatever the callbacks answered. -/
theorem batt_restores_partial (inp : Input α) (solveI : α → α → String → Except Err α)
    (hok : (battLife inp solveI).outcome = .ok) :
    (battLife inp solveI).vo = inp.vo ∧ (battLife inp solveI).rs = inp.rs := by
  rcases run_shape inp solveI with ⟨_, e, he⟩ | ⟨_, p, hp, hrun⟩
  · rw [he]; exact ⟨rfl, rfl⟩
  · rw [hrun, finish_outcome] at hok
    rw [hrun]; unfold battLife.finish; rw [hok]; exact ⟨rfl, rfl⟩

/-- exceptions raised before the loop (unknown name, not a Source, raising probe) leave the Source untouched -/
theorem batt_restores_before_loop (inp : Input α) (solveI : α → α → String → Except Err α)
    (h : ¬ (Accepts inp ∧ ∃ p, inp.probe = .ret p)) :
    (battLife inp solveI).vo = inp.vo ∧ (battLife inp solveI).rs = inp.rs ∧ (battLife inp solveI).calls = [] := by
  rcases run_shape inp solveI with ⟨_, e, he⟩ | ⟨ha, p, hp, _⟩
  · rw [he]; exact ⟨rfl, rfl, rfl⟩
  · exact absurd ⟨ha, p, hp⟩ h

/-- the property's clause as stated: for every callback behaviour and every solver, including exceptions at any call,
    the Source's `vo, rs` after `batt_life` equal those before -/
def batt_restores_full : Prop :=
  ∀ (inp : Input ℚ) (solveI : ℚ → ℚ → String → Except Err ℚ), (battLife inp solveI).outcome ≠ .exhausted →
    (battLife inp solveI).vo = inp.vo ∧ (battLife inp solveI).rs = inp.rs

/-- witness (F22): Source 5 V / 0.1 Ω; probe (1 Ah, 4 V, 0.2 Ω); deplete answers (0.9, 3.9, 0.21), (0.8, 3.8, 0.22), then
    raises `KeyError` at its 3rd call -/
def raisingInput : Input ℚ where
  reg := ⟨[("B", .source), ("L", .iload)], [("B", ""), ("L", "")]⟩
  battery := "B"
  vo := 5
  rs := 1 / 10
  cutoff := 3
  phases := []
  probe := .ret ⟨1, 4, 1 / 5⟩
  deplete := [.ret ⟨9 / 10, 39 / 10, 21 / 100⟩, .ret ⟨8 / 10, 38 / 10, 22 / 100⟩, .raise (.key "boom")]

theorem batt_restores_full_fails : ¬ batt_restores_full := by
  intro h
  have h1 := h raisingInput (fun _ _ _ => .ok (1 / 2)) (by decide +kernel)
  have h2 : (battLife raisingInput (fun _ _ _ => .ok (1 / 2))).vo = 38 / 10 := by decide +kernel
  rw [h2] at h1
  exact absurd h1.1 (by decide +kernel)

/-- the same for a solver exception ("Unstable system" in the first iteration): the probed values stay in the Source -/
theorem batt_restores_full_fails_solver :
    (battLife raisingInput (fun _ _ _ => .error (.unstable "L"))).vo = 4 ∧
    (battLife raisingInput (fun _ _ _ => .error (.unstable "L"))).outcome = .raised (.unstable "L") := by
  decide +kernel

/-! ### non-vacuity -/

example : (battLife C18.demoInput C18.demoSolve).vo = 5 ∧ (battLife C18.demoInput C18.demoSolve).rs = 1 / 10 :=
  batt_restores_partial C18.demoInput C18.demoSolve (by decide +kernel)
/-- the raising run really is a run of the loop: three deplete calls were made -/
example : (battLife raisingInput (fun _ _ _ => .ok (1 / 2))).calls.length = 3 := by decide +kernel
example : (battLife raisingInput (fun _ _ _ => .ok (1 / 2))).outcome = .raised (.key "boom") := by decide +kernel
/-- a raising probe -/
example : (battLife { raisingInput with probe := .raise (.key "x") } (fun _ _ _ => .ok (1 / 2))).vo = 5 :=
  (batt_restores_before_loop _ _ (by rintro ⟨_, p, hp⟩; cases hp)).1

end C17
end SysLoss
