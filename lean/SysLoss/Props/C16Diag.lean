/-
  Props/C16Diag — C16 / C19 for the diagrams: `make_diag()` / `make_hdiag()` depend on the FINAL STRUCTURE only, not on
  the edit history.  The bridge from the edit-history model (`Sys π ν`, Model/Graph) to the inputs of `Diagram.diag`.

  `Props/C19Order` shows that `Diagram.diag sysName comps edges cfg group heat` does not depend on the ORDER of
  `comps`, `edges` and of the rows of the loss table; `Props/C16Final` that two histories with the same final
  structure (`AStruct.Same`) solve to the same table up to row order.  Here:

    diagComps s, diagEdges s     what `_diag` reads of a state, statement by statement: `for n in attrs["nodes"]`
                                 (name, class of `sys._g[attrs["nodes"][n]]`, `attrs["groups"][n]`) and
                                 `for e in edge_indices()` through the inverse dictionary
                                 `p = dict(zip(nodes.values(), nodes.keys()))` (`idxName`: the LAST key of an index)
    ReadsOk s, readsOk, histories_readsOk, diagComps_length, diagEdges_length
                                 the three lookups (`sys._g[i]`: IndexError, `groups[n]` / `p[i]`: KeyError) cannot
                                 raise in a legal well-formed state — in particular in no reachable state — so the
                                 total functions `diagComps` / `diagEdges` drop nothing
    diagComps_factor, mem_diagEdges, diagEdges_nodup
                                 they factor through the name-keyed structure `abs s`: the components are the entries
                                 (name, kind, group), the links are the (feeder name, entry name) pairs; no pair twice
                                 (`multigraph=False` is `Sane.edges_nodup`, names are distinct: proved, no hypothesis)
    diagComps_perm, diagEdges_perm   Legal ∧ WF (both), `Same`  ⇒  `List.Perm` of the component lists / link lists
    name_step, name_run, name_init   `attrs["name"]` is the constructor's argument for ever
    same_structure_same_diagram      Legal ∧ WF (both), `Same`, same name ⇒ `ResEquiv` of the two `diag` results, for every
                                     configuration, `group` flag and (common) loss table
    histories_same_diagram, histories_same_mdiag   (MAIN, plain mode) two constructor calls with the same name, any two
                                     histories (accepted or rejected calls) ending in `Same` structures: `make_diag`
                                     raises on both or returns diagrams that are `DotGraph.Equiv`.  No hypothesis left.
    heatOf phases T              `_prep_loss`'s input from a `solve()` table: the names of the component rows of the first
                                 phase, `get_sys_phases()`, the `Loss (W)` column of every phase in row order
    solve_aligned, lossRows_by_name, lossRows_perm
                                 every phase of a `solve()` table lists the components in `_topo_nodes` order, so
                                 `_prep_loss`'s positional arithmetic is a map over the names (look-ups by name), and two
                                 tables whose rows are permutations of each other phase by phase give (name, loss) rows
                                 that are permutations of each other
    same_structure_same_heat_diagram, histories_same_heat_table
                                 `solve()` succeeds on the first ⇒ on the second, the loss inputs are `HeatSame`, the heat
                                 diagrams are `ResEquiv` (any `phase` argument)
    hdiag, histories_same_heat_diagram   (MAIN, heat mode, carrier ℚ — `diag` takes a `HeatIn Rat`) `make_hdiag` =
                                 `solve()` then `_diag(loss=df)`: raises on both systems (from `solve()` or from `_diag`)
                                 or returns `Equiv` diagrams.  NOT partial: exactly the hypotheses of
                                 `histories_same_table` (`ValidTopo` for the two topological orders rustworkx picks,
                                 `0 ≤ atol`); unique row names come from `TableWF` (`toSSys_tableWF`), not assumed.

  What `ResEquiv` does not say (see Props/C19Order): which exception escapes when several things are wrong at once;
  Graphviz' layout.  Modelled, not verified: `solve()`'s topological order and tolerances are parameters of `hdiag`;
  `heatOf` takes `PhaseTable.comps` for the rows with `Type != ""` (the subsystem / total rows are kept apart by the
  model) and assumes the phase names are distinct as in a Python dict.
  `Sys` lacks nothing `_diag` reads.  Two order details that are inside `Equiv` anyway: Python walks
  `attrs["groups"]` (not `attrs["nodes"]`) to collect the cluster names — `Diagram.groupsOf` walks the component list;
  and `edge_indices()` lists edge slots in index order and rustworkx re-uses freed slots (checked on 0.18.1: after a
  `remove_node` the next new edge takes the freed index and is listed FIRST), while `Sys.edges` appends — so the list
  order of `diagEdges` is not always the order of the Python loop; both only permute clusters / edges.

  Non-vacuity: `C16.histA` / `C16.histB` (other node numbering, registry order, sibling order): `diagComps` / `diagEdges`
  differ as lists, the diagrams differ, `histories_same_diagram` applies and the Boolean checker `resEquivB` confirms it
  on the graphs; `grpA` / `grpB`: the same with groups (clusters come out in the other order, members too; a different
  structure is told apart); with solver payloads at ℚ (`C16F.hA` / `hB`, grouped `gA` / `gB`): both `make_hdiag` return,
  rows of the two loss tables in different orders, same colours / labels / legend, `Equiv` by theorem and by checker;
  a non-converging `solve()` raises on both.
-/
import SysLoss.Props.C16Final
import SysLoss.Props.C19Order
import SysLoss.Props.C02Table

set_option linter.unusedSectionVars false
set_option linter.unusedVariables false
set_option linter.unusedSimpArgs false

namespace SysLoss
namespace C16D
open Diagram C19

/-! ### 1. what `_diag` reads of a state -/

section
variable {π ν : Type} [CompLike π]

/-- `for n in attrs["nodes"]`: the name `n`, the class of `sys._g[attrs["nodes"][n]]`, `attrs["groups"][n]` -/
def diagComps (s : Sys π ν) : List CompIn :=
  s.nodes.filterMap fun kv =>
    (s.payload? kv.2).map fun c =>
      ({ name := kv.1, kind := kindOfC c, group := (dget s.groups kv.1).getD "" } : CompIn)

/-- `p = dict(zip(attrs["nodes"].values(), attrs["nodes"].keys()))`, `p[i]`: the last key registered for index `i` -/
def idxName (s : Sys π ν) (i : Nat) : Option String :=
  ((s.nodes.filter fun kv => decide (kv.2 = i)).getLast?).map (·.1)

/-- `for e in edge_indices(): (p[ep[0]], p[ep[1]])` -/
def diagEdges (s : Sys π ν) : List (String × String) :=
  s.edges.filterMap fun e =>
    match idxName s e.1, idxName s e.2 with
    | some a, some b => some (a, b)
    | _, _ => none

/-- none of the three reads of `_diag` raises: every registered index is a live node (`sys._g[i]`), every registered
    name has a group (`attrs["groups"][n]`), every end point of an edge has a registered name (`p[i]`) -/
structure ReadsOk (s : Sys π ν) : Prop where
  live : ∀ kv ∈ s.nodes, ∃ c, s.payload? kv.2 = some c
  grouped : ∀ kv ∈ s.nodes, kv.1 ∈ dkeys s.groups
  named : ∀ e ∈ s.edges, (∃ a, idxName s e.1 = some a) ∧ ∃ b, idxName s e.2 = some b

/-- the same data read off the name-keyed structure -/
def _root_.SysLoss.AStruct.diagComps (a : AStruct π ν) : List CompIn :=
  a.comps.map fun e => ({ name := e.name, kind := e.kind, group := (dget a.groups e.name).getD "" } : CompIn)

theorem mem_nodes_iff {s : Sys π ν} (hs : Sane s) (hr : WFr s) {x : String} {i : Nat} :
    (x, i) ∈ s.nodes ↔ ∃ p ∈ s.comps, nameOfC p.2 = x ∧ p.1 = i := by
  constructor
  · intro h
    exact nodes_get_live hr (dget_of_mem_nodup hs.nodes_nodup h)
  · rintro ⟨p, hp, rfl, rfl⟩
    exact dget_some_mem (hr.nodes_get p hp)

/-- in a well-formed state the inverse dictionary `p` maps a live index to the name of its component -/
theorem idxName_eq {s : Sys π ν} (hs : Sane s) (hr : WFr s) {p : Nat × π} (hp : p ∈ s.comps) :
    idxName s p.1 = some (nameOfC p.2) := by
  unfold idxName
  have hmem : (nameOfC p.2, p.1) ∈ s.nodes.filter fun kv => decide (kv.2 = p.1) := by
    simp only [List.mem_filter, decide_eq_true_eq, and_true]
    exact (mem_nodes_iff hs hr).mpr ⟨p, hp, rfl, rfl⟩
  cases hl : (s.nodes.filter fun kv => decide (kv.2 = p.1)).getLast? with
  | none =>
    rw [List.getLast?_eq_none_iff] at hl
    rw [hl] at hmem
    cases hmem
  | some kv =>
    have hkv := List.mem_of_getLast? hl
    simp only [List.mem_filter, decide_eq_true_eq] at hkv
    obtain ⟨q, hq, hqn, hqi⟩ := (mem_nodes_iff (x := kv.1) (i := kv.2) hs hr).mp hkv.1
    have : q = p := eq_of_mem_same_id hs hq hp (hqi.trans hkv.2)
    subst this
    simp only [Option.map_some, hqn]

theorem readsOk {s : Sys π ν} (hs : Sane s) (hr : WFr s) : ReadsOk s := by
  refine ⟨?_, ?_, ?_⟩
  · intro kv hkv
    obtain ⟨p, hp, _, hi⟩ := (mem_nodes_iff (x := kv.1) (i := kv.2) hs hr).mp hkv
    exact ⟨p.2, hi ▸ payload?_of_mem hs hp⟩
  · intro kv hkv
    exact (hr.groups_keys kv.1).mpr (hr.nodes_keys kv.1 (mem_dkeys.mpr ⟨kv.2, hkv⟩))
  · intro e he
    obtain ⟨h1, h2⟩ := hs.edges_live e he
    obtain ⟨c1, hc1⟩ := payload?_of_mem_ids h1
    obtain ⟨c2, hc2⟩ := payload?_of_mem_ids h2
    exact ⟨⟨_, idxName_eq hs hr (mem_of_payload? hc1)⟩, ⟨_, idxName_eq hs hr (mem_of_payload? hc2)⟩⟩

/-! ### 2. they factor through the name-keyed structure -/

theorem mem_diagComps {s : Sys π ν} (hs : Sane s) (hr : WFr s) {c : CompIn} :
    c ∈ diagComps s ↔ c ∈ s.abs.diagComps := by
  have habs : c ∈ s.abs.diagComps ↔ ∃ p ∈ s.comps,
      c = { name := nameOfC p.2, kind := kindOfC p.2, group := (dget s.groups (nameOfC p.2)).getD "" } := by
    unfold AStruct.diagComps
    simp only [List.mem_map]
    constructor
    · rintro ⟨e, he, rfl⟩
      obtain ⟨p, hp, rfl⟩ := mem_abs_comps.mp he
      exact ⟨p, hp, rfl⟩
    · rintro ⟨p, hp, rfl⟩
      exact ⟨s.absEntry p, mem_abs_comps.mpr ⟨p, hp, rfl⟩, rfl⟩
  rw [habs]
  unfold diagComps
  simp only [List.mem_filterMap, Option.map_eq_some_iff]
  constructor
  · rintro ⟨kv, hkv, pc, hpc, rfl⟩
    obtain ⟨p, hp, hn, hi⟩ := (mem_nodes_iff (x := kv.1) (i := kv.2) hs hr).mp hkv
    have : pc = p.2 := by
      have := payload?_of_mem hs hp
      rw [hi, hpc] at this
      exact Option.some.inj this
    subst this
    exact ⟨p, hp, by simp only [hn]⟩
  · rintro ⟨p, hp, rfl⟩
    exact ⟨(nameOfC p.2, p.1), (mem_nodes_iff hs hr).mpr ⟨p, hp, rfl, rfl⟩, p.2, payload?_of_mem hs hp, rfl⟩

theorem diagComps_names_sublist (s : Sys π ν) : ((diagComps s).map CompIn.name).Sublist (dkeys s.nodes) := by
  unfold diagComps dkeys
  induction s.nodes with
  | nil => exact List.Sublist.slnil
  | cons kv t ih =>
    simp only [List.filterMap_cons, List.map_cons]
    cases s.payload? kv.2 with
    | none => exact ih.cons _
    | some c => exact ih.cons_cons _

theorem diagComps_nodup {s : Sys π ν} (hs : Sane s) : (diagComps s).Nodup :=
  List.Nodup.of_map _ (hs.nodes_nodup.sublist (diagComps_names_sublist s))

/-- `make_diag` reads the components off the name-keyed structure (up to the order of `attrs["nodes"]`) -/
theorem diagComps_factor {s : Sys π ν} (hs : Sane s) (hr : WFr s) : (diagComps s).Perm s.abs.diagComps := by
  rw [List.perm_ext_iff_of_nodup (diagComps_nodup hs)]
  · intro c; exact mem_diagComps hs hr
  · apply List.Nodup.of_map CompIn.name
    have : s.abs.diagComps.map CompIn.name = s.names := by
      unfold AStruct.diagComps Sys.abs Sys.absEntry Sys.names
      simp [List.map_map, Function.comp_def]
    rw [this]
    exact hr.names_nodup

/-- structures that are the `Same` list the same components with the same classes and groups -/
theorem abs_diagComps_perm {a b : AStruct π ν} (h : a.Same b) (ha : a.namesDistinct) (hb : b.namesDistinct) :
    a.diagComps.Perm b.diagComps := by
  obtain ⟨l, hl, hf⟩ := h.comps_perm ha hb
  have key : ∀ (la lb : List (AEntry π)), List.Forall₂ AEntry.Match la lb → (∀ e ∈ la, e.name ∈ a.names) →
      la.map (fun e => ({ name := e.name, kind := e.kind, group := (dget a.groups e.name).getD "" } : CompIn)) =
      lb.map (fun e => ({ name := e.name, kind := e.kind, group := (dget b.groups e.name).getD "" } : CompIn)) := by
    intro la lb hf
    induction hf with
    | nil => intro _; rfl
    | @cons e e' t t' hm _ ih =>
      intro hmem
      simp only [List.map_cons, List.cons.injEq]
      refine ⟨?_, ih (fun x hx => hmem x (List.mem_cons_of_mem _ hx))⟩
      have hg := h.2.2.2.1 e.name (hmem e (by simp))
      simp only [AEntry.kind, hm.1, hm.2.1, hg]
  have e : a.diagComps =
      l.map fun e => ({ name := e.name, kind := e.kind, group := (dget b.groups e.name).getD "" } : CompIn) :=
    key a.comps l hf (fun e he => List.mem_map.mpr ⟨e, he, rfl⟩)
  rw [e]
  exact hl.map _

/-- **diagComps_perm.** Legal well-formed states with the same final structure give `_diag` the same components
    (name, class, group), up to the order of `attrs["nodes"]`. -/
theorem diagComps_perm {s₁ s₂ : Sys π ν} (hl₁ : Legal s₁) (hw₁ : s₁.abs.WF) (hl₂ : Legal s₂) (hw₂ : s₂.abs.WF)
    (hsame : s₁.abs.Same s₂.abs) : (diagComps s₁).Perm (diagComps s₂) :=
  ((diagComps_factor hl₁.sane (wfr_of_wf_abs hl₁.sane hw₁)).trans (abs_diagComps_perm hsame hw₁.1 hw₂.1)).trans
    (diagComps_factor hl₂.sane (wfr_of_wf_abs hl₂.sane hw₂)).symm

/-- the links `_diag` draws are exactly the (feeder name, component name) pairs of the name-keyed structure -/
theorem mem_diagEdges {s : Sys π ν} (hs : Sane s) (hr : WFr s) {a b : String} :
    (a, b) ∈ diagEdges s ↔ ∃ e ∈ s.abs.comps, e.name = b ∧ a ∈ e.preds.map (·.1) := by
  unfold diagEdges
  simp only [List.mem_filterMap]
  constructor
  · rintro ⟨e, he, hab⟩
    obtain ⟨h1, h2⟩ := hs.edges_live e he
    obtain ⟨c1, hc1⟩ := payload?_of_mem_ids h1
    obtain ⟨c2, hc2⟩ := payload?_of_mem_ids h2
    have e1 := idxName_eq hs hr (mem_of_payload? hc1)
    have e2 := idxName_eq hs hr (mem_of_payload? hc2)
    simp only at e1 e2
    rw [e1, e2] at hab
    simp only [Option.some.injEq, Prod.mk.injEq] at hab
    obtain ⟨rfl, rfl⟩ := hab
    refine ⟨s.absEntry (e.2, c2), mem_abs_comps.mpr ⟨_, mem_of_payload? hc2, rfl⟩, rfl, ?_⟩
    exact List.mem_map.mpr ⟨(nameOfC c1, kindOfC c1), mem_predInfo.mpr ⟨e.1, mem_preds.mpr he, c1, hc1, rfl⟩, rfl⟩
  · rintro ⟨e, he, rfl, ha⟩
    obtain ⟨p, hp, rfl⟩ := mem_abs_comps.mp he
    obtain ⟨pi, hpi, rfl⟩ := List.mem_map.mp ha
    obtain ⟨q, hq, c, hc, rfl⟩ := mem_predInfo.mp hpi
    refine ⟨(q, p.1), mem_preds.mp hq, ?_⟩
    have e1 := idxName_eq hs hr (mem_of_payload? hc)
    have e2 := idxName_eq hs hr hp
    simp only at e1 e2 ⊢
    rw [e1, e2]
    rfl

/-- `multigraph=False` and unique names: no (parent, child) pair is drawn twice -/
theorem diagEdges_nodup {s : Sys π ν} (hs : Sane s) (hr : WFr s) : (diagEdges s).Nodup := by
  unfold diagEdges
  have key : ∀ l : List (Nat × Nat), l.Nodup → (∀ e ∈ l, e ∈ s.edges) →
      (l.filterMap fun e => match idxName s e.1, idxName s e.2 with
        | some a, some b => some (a, b)
        | _, _ => none).Nodup := by
    intro l
    induction l with
    | nil => intro _ _; exact List.nodup_nil
    | cons e t ih =>
      intro hn hsub
      have hne := (List.nodup_cons.mp hn)
      have iht := ih hne.2 (fun x hx => hsub x (List.mem_cons_of_mem _ hx))
      obtain ⟨h1, h2⟩ := hs.edges_live e (hsub e (by simp))
      obtain ⟨c1, hc1⟩ := payload?_of_mem_ids h1
      obtain ⟨c2, hc2⟩ := payload?_of_mem_ids h2
      have e1 := idxName_eq hs hr (mem_of_payload? hc1)
      have e2 := idxName_eq hs hr (mem_of_payload? hc2)
      simp only at e1 e2
      simp only [List.filterMap_cons, e1, e2]
      refine List.nodup_cons.mpr ⟨?_, iht⟩
      intro hmem
      obtain ⟨e', he', hab⟩ := List.mem_filterMap.mp hmem
      obtain ⟨h1', h2'⟩ := hs.edges_live e' (hsub e' (List.mem_cons_of_mem _ he'))
      obtain ⟨d1, hd1⟩ := payload?_of_mem_ids h1'
      obtain ⟨d2, hd2⟩ := payload?_of_mem_ids h2'
      have f1 := idxName_eq hs hr (mem_of_payload? hd1)
      have f2 := idxName_eq hs hr (mem_of_payload? hd2)
      simp only at f1 f2
      rw [f1, f2] at hab
      simp only [Option.some.injEq, Prod.mk.injEq] at hab
      have g1 := name_inj hr.names_nodup (mem_of_payload? hd1) (mem_of_payload? hc1) hab.1
      have g2 := name_inj hr.names_nodup (mem_of_payload? hd2) (mem_of_payload? hc2) hab.2
      have : e' = e := Prod.ext (congrArg (fun q : Nat × π => q.1) g1) (congrArg (fun q : Nat × π => q.1) g2)
      exact hne.1 (this ▸ he')
  exact key s.edges hs.edges_nodup (fun _ h => h)

/-- **diagEdges_perm.** Legal well-formed states with the same final structure give `_diag` the same links
    (parent name, child name) — as a multiset, each pair once — up to the order of `edge_indices()`. -/
theorem diagEdges_perm {s₁ s₂ : Sys π ν} (hl₁ : Legal s₁) (hw₁ : s₁.abs.WF) (hl₂ : Legal s₂) (hw₂ : s₂.abs.WF)
    (hsame : s₁.abs.Same s₂.abs) : (diagEdges s₁).Perm (diagEdges s₂) := by
  have hs₁ := hl₁.sane
  have hs₂ := hl₂.sane
  have hr₁ := wfr_of_wf_abs hs₁ hw₁
  have hr₂ := wfr_of_wf_abs hs₂ hw₂
  rw [List.perm_ext_iff_of_nodup (diagEdges_nodup hs₁ hr₁) (diagEdges_nodup hs₂ hr₂)]
  have half : ∀ {t₁ t₂ : Sys π ν}, Sane t₁ → WFr t₁ → Sane t₂ → WFr t₂ → t₁.abs.Sub t₂.abs →
      ∀ ab : String × String, ab ∈ diagEdges t₁ → ab ∈ diagEdges t₂ := by
    intro t₁ t₂ a1 a2 b1 b2 hsub ab hab
    obtain ⟨a, b⟩ := ab
    obtain ⟨e, he, hb, ha⟩ := (mem_diagEdges a1 a2).mp hab
    obtain ⟨e', he', hm⟩ := hsub e he
    exact (mem_diagEdges b1 b2).mpr ⟨e', he', hm.1.trans hb, hm.2.2.2.1 a ha⟩
  intro ab
  exact ⟨half hs₁ hr₁ hs₂ hr₂ hsame.1 ab, half hs₂ hr₂ hs₁ hr₁ hsame.2.1 ab⟩

/-! ### 3. `attrs["name"]` is never written after the constructor -/

theorem name_andThen {n : String} {r : Sys.Res π ν} {f : Sys π ν → Sys.Res π ν} (hr : r.1.name = n)
    (hf : ∀ s, s.name = n → (f s).1.name = n) : (Sys.andThen r f).1.name = n := by
  unfold Sys.andThen
  split
  · exact hf _ hr
  · exact hr

theorem name_addNode (s : Sys π ν) (c : π) : (s.addNode c).1.name = s.name := by
  unfold Sys.addNode; split <;> rfl

theorem name_addEdge (s : Sys π ν) (p c : Nat) : (s.addEdge p c).name = s.name := by
  unfold Sys.addEdge; split <;> rfl

theorem name_addEdges (s : Sys π ν) (i : Nat) (l : List Nat) : (s.addEdges i l).name = s.name := by
  induction l generalizing s with
  | nil => rfl
  | cons p ps ih => unfold Sys.addEdges; rw [ih, name_addEdge]

theorem name_removeNode (s : Sys π ν) (n : Nat) : (s.removeNode n).name = s.name := by
  unfold Sys.removeNode; split <;> rfl

theorem name_delRegs (s : Sys π ν) (x : String) : (s.delRegs x).1.name = s.name := by
  unfold Sys.delRegs Sys.fail
  simp only
  repeat' split
  all_goals rfl

theorem name_delDescendants (s : Sys π ν) (l : List Nat) : (s.delDescendants l).1.name = s.name := by
  induction l generalizing s with
  | nil => rfl
  | cons c cs ih =>
    unfold Sys.delDescendants Sys.fail
    split
    · rfl
    · apply name_andThen (name_delRegs s _)
      intro s1 h1
      rw [ih, name_removeNode, h1]

theorem name_relink (s : Sys π ν) (p0 : Nat) (l : List Nat) : (s.relink p0 l).1.name = s.name := by
  induction l generalizing s with
  | nil => rfl
  | cons c cs ih =>
    unfold Sys.relink Sys.fail
    split
    · rfl
    · split
      · rfl
      · rw [ih, name_addEdge]

theorem name_dedupeChilds (s : Sys π ν) (l : List Nat) : (s.dedupeChilds l).1.name = s.name := by
  induction l generalizing s with
  | nil => rfl
  | cons c cs ih =>
    unfold Sys.dedupeChilds Sys.fail
    split
    · rfl
    · split
      · rfl
      · rw [ih]

theorem name_addSource (s : Sys π ν) (c : π) (g r : String) : (s.addSource c g r).1.name = s.name := by
  unfold Sys.addSource Sys.fail
  split
  · rfl
  · split
    · rfl
    · exact name_addNode s c

theorem name_addComp (s : Sys π ν) (par : ParentArg) (c : π) (g r : String) :
    (s.addComp par c g r).1.name = s.name := by
  unfold Sys.addComp Sys.fail
  simp only
  repeat' split
  all_goals first
    | rfl
    | (rw [name_addEdges]; exact name_addNode s c)

theorem name_changeComp (s : Sys π ν) (x : String) (c : π) (g r : String) :
    (s.changeComp x c g r).1.name = s.name := by
  unfold Sys.changeComp Sys.fail Sys.setPayload
  simp only
  repeat' split
  all_goals rfl

theorem name_delComp (s : Sys π ν) (x : String) (d : Bool) : (s.delComp x d).1.name = s.name := by
  unfold Sys.delComp Sys.fail
  simp only
  split
  · rfl
  · split
    · rfl
    · split
      · rfl
      · split
        · rfl
        · split
          · rfl
          · split
            · rfl
            · split
              · rfl
              · apply name_andThen (n := s.name)
                · split
                  · exact name_delDescendants s _
                  · rfl
                · intro s1 h1
                  apply name_andThen
                  · rw [name_delRegs, name_removeNode, h1]
                  · intro s2 h2
                    split
                    · exact h2
                    · split
                      · exact h2
                      · exact h2
                      · exact h2
                      · apply name_andThen
                        · rw [name_relink, h2]
                        · intro s3 h3
                          split
                          · exact h3
                          · rw [name_dedupeChilds]; exact h3

theorem name_step (s : Sys π ν) (op : Op π ν) : (s.step op).1.name = s.name := by
  cases op with
  | addSource c g r => exact name_addSource s c g r
  | addComp p c g r => exact name_addComp s p c g r
  | changeComp x c g r => exact name_changeComp s x c g r
  | delComp x d => exact name_delComp s x d
  | setSysPhases ph =>
    show (s.setSysPhases ph).1.name = s.name
    unfold Sys.setSysPhases Sys.fail
    repeat' split
    all_goals rfl
  | setCompPhases x pc =>
    show (s.setCompPhases x pc).1.name = s.name
    unfold Sys.setCompPhases Sys.fail
    repeat' split
    all_goals rfl

/-- the diagram's title: the constructor's `name`, whatever the history -/
theorem name_run (s : Sys π ν) (ops : List (Op π ν)) : (s.run ops).name = s.name := by
  induction ops generalizing s with
  | nil => rfl
  | cons op ops ih => unfold Sys.run; rw [ih, name_step]

theorem name_init {name : String} {src : π} {g r : String} {s : Sys π ν} (h : Sys.init name src g r = some s) :
    s.name = name := by
  unfold Sys.init at h
  split at h
  · cases h
  · split at h
    · cases h
    · cases h; rfl

/-! ### 4. `make_diag` depends on the final structure only -/

/-- `make_diag(sys, group=…, config=…)` up to the Graphviz call -/
def mdiag (s : Sys π ν) (cfg : Config) (group : Bool) : Except Err DotGraph :=
  diag s.name (diagComps s) (diagEdges s) cfg group none

/-- legal well-formed states with the same final structure and the same system name: the same diagram up to the
    order of clusters, cluster members, top-level nodes and edges (or both calls raise) -/
theorem same_structure_same_diagram {s₁ s₂ : Sys π ν} (hl₁ : Legal s₁) (hw₁ : s₁.abs.WF) (hl₂ : Legal s₂)
    (hw₂ : s₂.abs.WF) (hsame : s₁.abs.Same s₂.abs) (hname : s₁.name = s₂.name) (cfg : Config) (group : Bool)
    (heat : Option (HeatIn Rat)) :
    ResEquiv (diag s₁.name (diagComps s₁) (diagEdges s₁) cfg group heat)
      (diag s₂.name (diagComps s₂) (diagEdges s₂) cfg group heat) := by
  rw [hname]
  exact diag_order_free (diagComps_perm hl₁ hw₁ hl₂ hw₂ hsame) (diagEdges_perm hl₁ hw₁ hl₂ hw₂ hsame) cfg group heat

/-- **histories_same_diagram.**  Two systems constructed under the same name and then edited by any sequences of
    calls (accepted or rejected) that end in the same structure: for every configuration and `group` flag
    `make_diag` raises on both or returns the same diagram up to order.  No well-formedness hypothesis is left. -/
theorem histories_same_diagram {name : String} {src₁ src₂ : π} {g₁ r₁ g₂ r₂ : String} {a b : Sys π ν}
    (ha : Sys.init name src₁ g₁ r₁ = some a) (hb : Sys.init name src₂ g₂ r₂ = some b) (h₁ h₂ : List (Op π ν))
    (hsame : (a.run h₁).abs.Same (b.run h₂).abs) (cfg : Config) (group : Bool) :
    ResEquiv (diag name (diagComps (a.run h₁)) (diagEdges (a.run h₁)) cfg group none)
      (diag name (diagComps (b.run h₂)) (diagEdges (b.run h₂)) cfg group none) :=
  diag_order_free
    (diagComps_perm (C14.legal_run (C14.legal_init ha) h₁) (C14.wf_always ha h₁)
      (C14.legal_run (C14.legal_init hb) h₂) (C14.wf_always hb h₂) hsame)
    (diagEdges_perm (C14.legal_run (C14.legal_init ha) h₁) (C14.wf_always ha h₁)
      (C14.legal_run (C14.legal_init hb) h₂) (C14.wf_always hb h₂) hsame) cfg group none

/-- the same about `mdiag`, which reads the title from the state (`attrs["name"]` is the constructor's argument) -/
theorem histories_same_mdiag {name : String} {src₁ src₂ : π} {g₁ r₁ g₂ r₂ : String} {a b : Sys π ν}
    (ha : Sys.init name src₁ g₁ r₁ = some a) (hb : Sys.init name src₂ g₂ r₂ = some b) (h₁ h₂ : List (Op π ν))
    (hsame : (a.run h₁).abs.Same (b.run h₂).abs) (cfg : Config) (group : Bool) :
    ResEquiv (mdiag (a.run h₁) cfg group) (mdiag (b.run h₂) cfg group) := by
  unfold mdiag
  rw [name_run, name_run, name_init ha, name_init hb]
  exact histories_same_diagram ha hb h₁ h₂ hsame cfg group

/-- every reachable state can be read by `_diag` without an exception from the three lookups -/
theorem histories_readsOk {name : String} {src : π} {g r : String} {a : Sys π ν}
    (ha : Sys.init name src g r = some a) (h : List (Op π ν)) : ReadsOk (a.run h) :=
  have hl := C14.legal_run (C14.legal_init ha) h
  readsOk hl.sane (wfr_of_wf_abs hl.sane (C14.wf_always ha h))

theorem diagComps_length {s : Sys π ν} (h : ReadsOk s) : (diagComps s).length = s.nodes.length := by
  unfold diagComps
  have : ∀ l : List (String × Nat), (∀ kv ∈ l, ∃ c, s.payload? kv.2 = some c) →
      (l.filterMap fun kv => (s.payload? kv.2).map fun c =>
        ({ name := kv.1, kind := kindOfC c, group := (dget s.groups kv.1).getD "" } : CompIn)).length = l.length := by
    intro l
    induction l with
    | nil => intro _; rfl
    | cons kv t ih =>
      intro hl
      obtain ⟨c, hc⟩ := hl kv (by simp)
      simp only [List.filterMap_cons, hc, Option.map_some, List.length_cons,
        ih (fun x hx => hl x (List.mem_cons_of_mem _ hx))]
  exact this s.nodes h.live

theorem diagEdges_length {s : Sys π ν} (h : ReadsOk s) : (diagEdges s).length = s.edges.length := by
  unfold diagEdges
  have : ∀ l : List (Nat × Nat), (∀ e ∈ l, (∃ a, idxName s e.1 = some a) ∧ ∃ b, idxName s e.2 = some b) →
      (l.filterMap fun e => match idxName s e.1, idxName s e.2 with
        | some a, some b => some (a, b)
        | _, _ => none).length = l.length := by
    intro l
    induction l with
    | nil => intro _; rfl
    | cons e t ih =>
      intro hl
      obtain ⟨⟨a, ha⟩, ⟨b, hb⟩⟩ := hl e (by simp)
      simp only [List.filterMap_cons, ha, hb, List.length_cons, ih (fun x hx => hl x (List.mem_cons_of_mem _ hx))]
  exact this s.edges h.named

end

/-! ### 5. heat mode: what `_prep_loss` reads of the `solve()` table -/

section
variable {α : Type} [Field α] [LinearOrder α] [IsStrictOrderedRing α]

/-- `_prep_loss(sys.solve(), sys.get_sys_phases())`'s input: the component rows (`Type != ""`; `PhaseTable.comps`
    holds exactly those) of the first phase, the system phases, the `Loss (W)` column of every phase in row order -/
def heatOf (phases : List (String × α)) (T : Table α) : HeatIn α :=
  { rows := (T.phases.head?.map fun pt => pt.2.comps.map (·.name)).getD []
    phases := phases
    loss := T.phases.map fun pt => pt.2.comps.map fun r => r.loss.getD 0 }

/-- the `Loss (W)` cell of the row named `x` -/
def lossByName (rows : List (Row α)) (x : String) : α :=
  ((rows.find? fun r => decide (r.name = x)).bind (·.loss)).getD 0

/-- the loss `_prep_loss` computes for the name `x` from per-phase lookups `gs` -/
def wlossN (phases : List (String × α)) (gs : List (String → α)) (x : String) : α :=
  if phases.isEmpty then (gs.head?.map (· x)).getD 0
  else sumL (List.zipWith (fun p g => p.2 * g x) phases gs) / sumL (phases.map (·.2))

theorem find?_key_of_mem {β κ : Type} [DecidableEq κ] (key : β → κ) :
    ∀ {l : List β}, (l.map key).Nodup → ∀ {r : β}, r ∈ l → l.find? (fun y => decide (key y = key r)) = some r := by
  intro l
  induction l with
  | nil => intro _ r hr; cases hr
  | cons a t ih =>
    intro hn r hr
    simp only [List.map_cons, List.nodup_cons] at hn
    rcases List.mem_cons.mp hr with rfl | hr'
    · simp
    · have : key a ≠ key r := fun e => hn.1 (e ▸ List.mem_map.mpr ⟨r, hr', rfl⟩)
      simp only [List.find?_cons, this, decide_false]
      exact ih hn.2 hr'

theorem loss_by_name {rows : List (Row α)} (hn : (rows.map (·.name)).Nodup) :
    rows.map (fun r => r.loss.getD 0) = (rows.map (·.name)).map (lossByName rows) := by
  rw [List.map_map]
  apply List.map_congr_left
  intro r hr
  simp only [Function.comp, lossByName, find?_key_of_mem (fun r : Row α => r.name) hn hr, Option.bind_some]

/-- a loss table whose per-phase lists are look-ups by name: `_prep_loss` is a map over the names -/
theorem lossRows_by_name (h : HeatIn α) (gs : List (String → α)) (hl : h.loss = gs.map fun g => h.rows.map g) :
    lossRows h = h.rows.map fun x => (x, wlossN h.phases gs x) := by
  unfold lossRows
  have key : ∀ ni ∈ h.rows.zipIdx, wloss h ni.2 = wlossN h.phases gs ni.1 := by
    rintro ⟨x, i⟩ hxi
    have hget : h.rows[i]? = some x := List.mem_zipIdx_iff_getElem?.mp hxi
    have hcell : ∀ g : String → α, (h.rows.map g).getD i 0 = g x := by
      intro g
      simp [List.getD_eq_getElem?_getD, List.getElem?_map, hget]
    unfold wloss wlossN
    rw [hl]
    split_ifs
    · cases gs with
      | nil => simp
      | cons g t => simp only [List.map_cons, List.headD_cons, hcell, List.head?_cons, Option.map_some,
          Option.getD_some]
    · congr 2
      rw [List.zipWith_map_right]
      congr 1
      funext p g
      rw [hcell]
  rw [List.map_congr_left (g := fun ni => (ni.1, wlossN h.phases gs ni.1)) (fun ni hni => by rw [key ni hni])]
  have : (fun ni : String × Nat => (ni.1, wlossN h.phases gs ni.1)) =
      (fun x => (x, wlossN h.phases gs x)) ∘ Prod.fst := rfl
  rw [this, ← List.map_map, List.zipIdx_map_fst]

/-- all phases of the table list the same component names, each once, in the same order -/
def Aligned (T : Table α) (N : List String) : Prop := ∀ pt ∈ T.phases, pt.2.comps.map (·.name) = N

theorem heatOf_loss {T : Table α} {N : List String} (ha : Aligned T N) (hn : N.Nodup) (phases : List (String × α)) :
    (heatOf phases T).loss =
      (T.phases.map fun pt => lossByName pt.2.comps).map fun g => (heatOf phases T).rows.map g := by
  unfold heatOf
  simp only [List.map_map]
  cases hT : T.phases with
  | nil => rfl
  | cons p t =>
    have hp : p.2.comps.map (·.name) = N := ha p (by rw [hT]; simp)
    simp only [List.head?_cons, Option.map_some, Option.getD_some, hp]
    apply List.map_congr_left
    intro pt hpt
    have hq : pt.2.comps.map (·.name) = N := ha pt (by rw [hT]; exact hpt)
    simp only [Function.comp]
    rw [loss_by_name (hq ▸ hn), hq]

theorem lossByName_perm {r₁ r₂ : List (Row α)} (hp : r₂.Perm r₁) (hn : (r₁.map (·.name)).Nodup) :
    lossByName r₂ = lossByName r₁ := by
  funext x
  unfold lossByName
  rw [find?_perm_of_nodup (fun r : Row α => r.name) hp.symm hn x]

/-- two tables with the same phases whose component rows are permutations of each other, each table aligned:
    the (name, loss) rows `_prep_loss` computes are permutations of each other -/
theorem lossRows_perm {T₁ T₂ : Table α} {N₁ N₂ : List String} (ha₁ : Aligned T₁ N₁) (hn₁ : N₁.Nodup)
    (ha₂ : Aligned T₂ N₂) (hn₂ : N₂.Nodup)
    (hrel : List.Forall₂ (fun p p' : String × PhaseTable α => p'.2.comps.Perm p.2.comps) T₁.phases T₂.phases)
    (phases : List (String × α)) :
    (lossRows (heatOf phases T₁)).Perm (lossRows (heatOf phases T₂)) := by
  rw [lossRows_by_name _ _ (heatOf_loss ha₁ hn₁ phases), lossRows_by_name _ _ (heatOf_loss ha₂ hn₂ phases)]
  have hgs : (T₂.phases.map fun pt => lossByName pt.2.comps) = (T₁.phases.map fun pt => lossByName pt.2.comps) := by
    have : ∀ (l₁ l₂ : List (String × PhaseTable α)),
        List.Forall₂ (fun p p' : String × PhaseTable α => p'.2.comps.Perm p.2.comps) l₁ l₂ →
        (∀ pt ∈ l₁, pt.2.comps.map (·.name) = N₁) →
        (l₂.map fun pt => lossByName pt.2.comps) = (l₁.map fun pt => lossByName pt.2.comps) := by
      intro l₁ l₂ hf
      induction hf with
      | nil => intro _; rfl
      | @cons p p' t t' hpp _ ih =>
        intro hal
        simp only [List.map_cons, List.cons.injEq]
        exact ⟨lossByName_perm hpp ((hal p (by simp)) ▸ hn₁), ih (fun x hx => hal x (List.mem_cons_of_mem _ hx))⟩
    exact this _ _ hrel ha₁
  rw [hgs]
  apply List.Perm.map
  show (heatOf phases T₁).rows.Perm (heatOf phases T₂).rows
  unfold heatOf
  simp only
  revert hrel
  generalize T₁.phases = l₁
  generalize T₂.phases = l₂
  intro hrel
  cases hrel with
  | nil => exact List.Perm.refl _
  | @cons p p' t t' hpp _ =>
    simp only [List.head?_cons, Option.map_some, Option.getD_some]
    exact (hpp.map _).symm

theorem heatOf_rows_nodup {T : Table α} {N : List String} (ha : Aligned T N) (hn : N.Nodup)
    (phases : List (String × α)) : (heatOf phases T).rows.Nodup := by
  unfold heatOf
  cases hT : T.phases with
  | nil => exact List.nodup_nil
  | cons p t =>
    simp only [List.head?_cons, Option.map_some, Option.getD_some]
    rw [ha p (by rw [hT]; simp)]
    exact hn

end

/-! ### 6. `make_hdiag` depends on the final structure only -/

section
variable {α : Type} [Field α] [LinearOrder α] [IsStrictOrderedRing α]

/-- every phase of a `solve()` table lists the components in `_topo_nodes` order -/
theorem solve_aligned {s : SSys α} {cfg : Cfg α} {pa : String} {ta : α} {T : Table α}
    (h : s.solve cfg pa ta = .ok T) : Aligned T (s.topo.map s.nameOf) := by
  rw [C16R.solve_eq] at h
  cases hpl : phaseList s.phases pa with
  | error e => rw [hpl] at h; cases h
  | ok pl =>
    rw [hpl] at h
    simp only at h
    cases hm : pl.mapM (C16R.phaseStep s cfg) with
    | error e => rw [hm] at h; cases h
    | ok outs =>
      rw [hm] at h
      simp only [Except.ok.injEq] at h
      subst h
      intro pt hpt
      unfold SSys.assemble at hpt
      simp only [List.mem_map] at hpt
      obtain ⟨⟨ph, v, i, st⟩, _, rfl⟩ := hpt
      show (s.compRows ph ta v i st).map (·.name) = _
      rw [C02.compRows_numeric (fun r : Row α => r.name) (fun _ _ => rfl)]
      apply List.map_congr_left
      intro n _
      unfold SSys.compRow SSys.nameOf
      cases s.node? n <;> rfl

theorem topo_names_nodup {s : SSys α} (hw : C16R.TableWF s) (hlive : ∀ n ∈ s.topo, ∃ nd, s.node? n = some nd) :
    (s.topo.map s.nameOf).Nodup := by
  refine nodup_map_on ?_ hw.nodup
  intro a ha b hb hab
  obtain ⟨nd, hnd⟩ := hlive a ha
  obtain ⟨md, hmd⟩ := hlive b hb
  unfold SSys.nameOf at hab
  simp only [hnd, hmd] at hab
  exact hw.names a b nd md hnd hmd hab

end

open C16F in
/-- legal well-formed states with the same final structure (and name): when `solve()` succeeds on the first it
    succeeds on the second, and the two heat diagrams — node colours, loss labels and the legend included — are the
    same up to order (or `_diag` raises on both) -/
theorem same_structure_same_heat_diagram {s₁ s₂ : Sys (Comp ℚ) ℚ} (hl₁ : Legal s₁) (hw₁ : s₁.abs.WF)
    (hl₂ : Legal s₂) (hw₂ : s₂.abs.WF) (hsame : s₁.abs.Same s₂.abs) (hname : s₁.name = s₂.name)
    {topo₁ topo₂ : List Nat} (ht₁ : ValidTopo s₁ topo₁) (ht₂ : ValidTopo s₂ topo₂) (scfg : Cfg ℚ)
    (hatol : 0 ≤ scfg.atol) (pa : String) (ta : ℚ) (T₁ : Table ℚ)
    (h : (s₁.toSSys topo₁).solve scfg pa ta = .ok T₁) :
    ∃ T₂, (s₂.toSSys topo₂).solve scfg pa ta = .ok T₂ ∧
      HeatSame (some (heatOf s₁.phases T₁)) (some (heatOf s₂.phases T₂)) ∧
      ∀ (cfg : Config) (group : Bool),
        ResEquiv (diag s₁.name (diagComps s₁) (diagEdges s₁) cfg group (some (heatOf s₁.phases T₁)))
          (diag s₂.name (diagComps s₂) (diagEdges s₂) cfg group (some (heatOf s₂.phases T₂))) := by
  obtain ⟨T₂, hT₂, hrows, _⟩ := same_structure_same_table hl₁ hw₁ hl₂ hw₂ hsame ht₁ ht₂ scfg hatol pa ta T₁ h
  refine ⟨T₂, hT₂, ?_⟩
  have hph : s₂.phases = s₁.phases := hsame.2.2.2.2.2.symm
  have live : ∀ {s : Sys (Comp ℚ) ℚ} {topo : List Nat}, ValidTopo s topo →
      ∀ n ∈ (s.toSSys topo).topo, ∃ nd, (s.toSSys topo).node? n = some nd :=
    fun ht n hn => toSSys_live.mpr ((ht.live n).mp hn)
  have a₁ := solve_aligned h
  have a₂ := solve_aligned hT₂
  have n₁ := topo_names_nodup (toSSys_tableWF hl₁ hw₁ ht₁) (live ht₁)
  have n₂ := topo_names_nodup (toSSys_tableWF hl₂ hw₂ ht₂) (live ht₂)
  have hp := lossRows_perm a₁ n₁ a₂ n₂ (hrows.imp fun p p' hr => hr.2.1) s₁.phases
  have hh := heatSame_of_perm (heatOf_rows_nodup a₁ n₁ _) hp
  rw [hname, hph]
  exact ⟨hh, fun cfg group => diag_order_free_heat (diagComps_perm hl₁ hw₁ hl₂ hw₂ hsame)
    (diagEdges_perm hl₁ hw₁ hl₂ hw₂ hsame) cfg group hh⟩

/-- `make_hdiag(sys, group=…, config=…)` up to the Graphviz call: `df = sys.solve()`, then `_diag(…, loss=df)`.
    `topo` is rustworkx's topological order, `scfg` / `ta` the defaults of `solve()` (parameters here). -/
def hdiag (s : Sys (Comp ℚ) ℚ) (topo : List Nat) (scfg : Cfg ℚ) (ta : ℚ) (cfg : Config) (group : Bool) :
    Except Err DotGraph :=
  match (s.toSSys topo).solve scfg "" ta with
  | .error e => .error e
  | .ok T => diag s.name (diagComps s) (diagEdges s) cfg group (some (heatOf s.phases T))

open C16F in
/-- **histories_same_heat_diagram.**  Two systems constructed under the same name and edited by any sequences of
    calls that end in the same structure: `make_hdiag` raises on both (from `solve()` or from `_diag`), or returns
    on both with the same diagram up to order — same heat colour and loss label on every node, same legend.
    No hypothesis beyond those of `histories_same_table` (valid topological orders, `0 ≤ atol`). -/
theorem histories_same_heat_diagram {name : String} {src₁ src₂ : Comp ℚ} {g₁ r₁ g₂ r₂ : String}
    {a b : Sys (Comp ℚ) ℚ} (ha : Sys.init name src₁ g₁ r₁ = some a) (hb : Sys.init name src₂ g₂ r₂ = some b)
    (h₁ h₂ : List (Op (Comp ℚ) ℚ)) (hsame : (a.run h₁).abs.Same (b.run h₂).abs) {topo₁ topo₂ : List Nat}
    (ht₁ : ValidTopo (a.run h₁) topo₁) (ht₂ : ValidTopo (b.run h₂) topo₂) (scfg : Cfg ℚ) (hatol : 0 ≤ scfg.atol)
    (ta : ℚ) (cfg : Config) (group : Bool) :
    ResEquiv (hdiag (a.run h₁) topo₁ scfg ta cfg group) (hdiag (b.run h₂) topo₂ scfg ta cfg group) := by
  have hl₁ := C14.legal_run (C14.legal_init ha) h₁
  have hl₂ := C14.legal_run (C14.legal_init hb) h₂
  have hw₁ := C14.wf_always ha h₁
  have hw₂ := C14.wf_always hb h₂
  have hname : (a.run h₁).name = (b.run h₂).name := by rw [name_run, name_run, name_init ha, name_init hb]
  unfold hdiag
  cases hT : ((a.run h₁).toSSys topo₁).solve scfg "" ta with
  | ok T₁ =>
    obtain ⟨T₂, hT₂, _, hd⟩ :=
      same_structure_same_heat_diagram hl₁ hw₁ hl₂ hw₂ hsame hname ht₁ ht₂ scfg hatol "" ta T₁ hT
    rw [hT₂]
    exact hd cfg group
  | error e =>
    obtain ⟨e', he', _⟩ := same_structure_same_error hl₁ hw₁ hl₂ hw₂ hsame ht₁ ht₂ scfg hatol "" ta e hT
    rw [he']
    trivial

/-- the `.ok` form, for any `phase` argument of `solve()`: a table on the first system gives a table on the second
    and the two heat diagrams are the same up to order -/
theorem histories_same_heat_table {name : String} {src₁ src₂ : Comp ℚ} {g₁ r₁ g₂ r₂ : String}
    {a b : Sys (Comp ℚ) ℚ} (ha : Sys.init name src₁ g₁ r₁ = some a) (hb : Sys.init name src₂ g₂ r₂ = some b)
    (h₁ h₂ : List (Op (Comp ℚ) ℚ)) (hsame : (a.run h₁).abs.Same (b.run h₂).abs) {topo₁ topo₂ : List Nat}
    (ht₁ : ValidTopo (a.run h₁) topo₁) (ht₂ : ValidTopo (b.run h₂) topo₂) (scfg : Cfg ℚ) (hatol : 0 ≤ scfg.atol)
    (pa : String) (ta : ℚ) (T₁ : Table ℚ) (h : ((a.run h₁).toSSys topo₁).solve scfg pa ta = .ok T₁) :
    ∃ T₂, ((b.run h₂).toSSys topo₂).solve scfg pa ta = .ok T₂ ∧
      HeatSame (some (heatOf (a.run h₁).phases T₁)) (some (heatOf (b.run h₂).phases T₂)) ∧
      ∀ (cfg : Config) (group : Bool),
        ResEquiv
          (diag name (diagComps (a.run h₁)) (diagEdges (a.run h₁)) cfg group (some (heatOf (a.run h₁).phases T₁)))
          (diag name (diagComps (b.run h₂)) (diagEdges (b.run h₂)) cfg group (some (heatOf (b.run h₂).phases T₂))) := by
  have hn₁ : (a.run h₁).name = name := by rw [name_run, name_init ha]
  have hn₂ : (b.run h₂).name = name := by rw [name_run, name_init hb]
  have := same_structure_same_heat_diagram (C14.legal_run (C14.legal_init ha) h₁) (C14.wf_always ha h₁)
    (C14.legal_run (C14.legal_init hb) h₂) (C14.wf_always hb h₂) hsame (hn₁.trans hn₂.symm) ht₁ ht₂ scfg hatol pa ta
    T₁ h
  rw [hn₁, hn₂] at this
  exact this

/-! ### 7. non-vacuity -/

section
open C14 (s0 s0_init conv pload)
open C16 (histA histB)

/-- the two histories of `Props/C16` leave different registries and edge lists … -/
example :
    diagComps (s0.run histA) =
      [⟨"S", .source, ""⟩, ⟨"B", .converter, ""⟩, ⟨"L", .pload, ""⟩, ⟨"K", .pload, ""⟩] ∧
    diagComps (s0.run histB) =
      [⟨"S", .source, ""⟩, ⟨"K", .pload, ""⟩, ⟨"L", .pload, ""⟩, ⟨"B", .converter, ""⟩] ∧
    diagEdges (s0.run histA) = [("S", "B"), ("B", "L"), ("B", "K")] ∧
    diagEdges (s0.run histB) = [("S", "B"), ("B", "K"), ("B", "L")] ∧
    (s0.run histA).edges = [(0, 1), (1, 2), (1, 3)] ∧ (s0.run histB).edges = [(0, 1), (1, 2), (1, 4)] := by
  decide

/-- … the same structure, hence (`histories_same_diagram`) the same diagram up to order -/
example (cfg : Config) (group : Bool) :
    ResEquiv (diag "s" (diagComps (s0.run histA)) (diagEdges (s0.run histA)) cfg group none)
      (diag "s" (diagComps (s0.run histB)) (diagEdges (s0.run histB)) cfg group none) :=
  histories_same_diagram s0_init s0_init histA histB (by decide) cfg group

example : (diagComps (s0.run histA)).Perm (diagComps (s0.run histB)) ∧
    (diagEdges (s0.run histA)).Perm (diagEdges (s0.run histB)) :=
  ⟨diagComps_perm (C14.legal_run C14.s0_legal histA) (C14.wf_always s0_init histA)
      (C14.legal_run C14.s0_legal histB) (C14.wf_always s0_init histB) (by decide),
    diagEdges_perm (C14.legal_run C14.s0_legal histA) (C14.wf_always s0_init histA)
      (C14.legal_run C14.s0_legal histB) (C14.wf_always s0_init histB) (by decide)⟩

example : ReadsOk (s0.run histB) := histories_readsOk s0_init histB

/-- both calls return, the graphs differ, and the Boolean checker confirms the `Equiv` on the graphs themselves -/
example : namesOf (mdiag (s0.run histA) exCfg true) = some ["S", "B", "L", "K"] ∧
    namesOf (mdiag (s0.run histB) exCfg true) = some ["S", "K", "L", "B"] := by decide +kernel
example : mdiag (s0.run histA) exCfg true ≠ mdiag (s0.run histB) exCfg true := by decide +kernel
example : ResEquiv (mdiag (s0.run histA) exCfg true) (mdiag (s0.run histB) exCfg true) :=
  resEquivB_sound (by decide +kernel)
example : ResEquiv (mdiag (s0.run histA) exCfg true) (mdiag (s0.run histB) exCfg true) :=
  histories_same_mdiag s0_init s0_init histA histB (by decide) exCfg true

/-- the same two histories with groups: B in `pwr`, the loads in `loads`; the detour passes through other groups -/
def grpA : List (Op PComp String) :=
  [.addComp (.one "S") (conv "B") "pwr" "", .addComp (.one "B") (pload "L") "loads" "",
   .addComp (.one "B") (pload "K") "loads" ""]

def grpB : List (Op PComp String) :=
  [.addComp (.one "S") (conv "X") "tmp" "", .addComp (.one "X") (pload "Y") "tmp" "",
   .addComp (.one "S") (pload "Q") "loads" "", .delComp "X" true, .addComp (.one "S") (conv "B0") "old" "",
   .addComp (.one "B0") (pload "K") "loads" "", .addComp (.one "B0") (pload "L") "loads" "",
   .changeComp "B0" (conv "B") "pwr" "", .delComp "Q" true]

theorem grp_same : (s0.run grpA).abs.Same (s0.run grpB).abs := by decide

example : (mdiag (s0.run grpA) exCfg true).toOption.map (fun d => d.clusters.map fun c => (c.name, c.nodes.map (·.name)))
      = some [("cluster_pwr", ["B"]), ("cluster_loads", ["L", "K"])] ∧
    (mdiag (s0.run grpB) exCfg true).toOption.map (fun d => d.clusters.map fun c => (c.name, c.nodes.map (·.name)))
      = some [("cluster_loads", ["K", "L"]), ("cluster_pwr", ["B"])] := by decide +kernel
example : ResEquiv (mdiag (s0.run grpA) exCfg true) (mdiag (s0.run grpB) exCfg true) :=
  histories_same_mdiag s0_init s0_init grpA grpB grp_same exCfg true
example : ResEquiv (mdiag (s0.run grpA) exCfg true) (mdiag (s0.run grpB) exCfg true) :=
  resEquivB_sound (by decide +kernel)
/-- the checker tells another structure apart (K moved to group `pwr`) -/
example : resEquivB (mdiag (s0.run grpA) exCfg true)
    (mdiag (s0.run (grpB ++ [.changeComp "K" (pload "K") "pwr" ""])) exCfg true) = false := by decide +kernel

end

section
open C16F (s0q s0q_init hA hB ex_same ex_topoA ex_topoB liftOp exPhases exKconf sub_of_subB validTopo_of_check)

/-- the ℚ histories of `Props/C16Final` (different node numbering, sibling order and registry order; two phases, a
    per-phase load): `make_hdiag` gives the same heat diagram up to order -/
example : ResEquiv (hdiag (s0q.run hA) [0, 1, 2, 3] C16R.exCfg 25 exCfg true)
    (hdiag (s0q.run hB) [0, 1, 4, 2] C16R.exCfg 25 exCfg true) :=
  histories_same_heat_diagram s0q_init s0q_init hA hB ex_same ex_topoA ex_topoB C16R.exCfg
    (by norm_num [C16R.exCfg]) 25 exCfg true

/-- both calls return: the nodes come out in different orders, with the legend -/
example : namesOf (hdiag (s0q.run hA) [0, 1, 2, 3] C16R.exCfg 25 exCfg true) = some ["S", "B", "L", "K", "Scale"] ∧
    namesOf (hdiag (s0q.run hB) [0, 1, 4, 2] C16R.exCfg 25 exCfg true) = some ["S", "K", "L", "B", "Scale"] := by
  decide +kernel

/-- … and the `Equiv` is confirmed on the two graphs themselves -/
example : ResEquiv (hdiag (s0q.run hA) [0, 1, 2, 3] C16R.exCfg 25 exCfg true)
    (hdiag (s0q.run hB) [0, 1, 4, 2] C16R.exCfg 25 exCfg true) := resEquivB_sound (by decide +kernel)

/-- the warmest component (the converter B, 60.2 mW on average over the two phases) is fully warm in both, the
    loads are cold, the legend carries the largest loss -/
example :
    attrOf (hdiag (s0q.run hA) [0, 1, 2, 3] C16R.exCfg 25 exCfg true) "B" "fillcolor" = some "#ff1210" ∧
    attrOf (hdiag (s0q.run hB) [0, 1, 4, 2] C16R.exCfg 25 exCfg true) "B" "fillcolor" = some "#ff1210" ∧
    attrOf (hdiag (s0q.run hB) [0, 1, 4, 2] C16R.exCfg 25 exCfg true) "B" "label" = some "B\n60.2mW" ∧
    attrOf (hdiag (s0q.run hB) [0, 1, 4, 2] C16R.exCfg 25 exCfg true) "S" "label" = some "S\n1.5mW" ∧
    attrOf (hdiag (s0q.run hB) [0, 1, 4, 2] C16R.exCfg 25 exCfg true) "K" "fillcolor" = some "#2120ff" ∧
    (hdiag (s0q.run hB) [0, 1, 4, 2] C16R.exCfg 25 exCfg true).toOption.map
      (fun d => d.scale.bind fun n => aget n.attrs "label") = some (some "{60.2mW|  |  | 0W}") := by
  decide +kernel

/-- with rustworkx's other valid order for the second system the rows of its `solve()` table — the input of
    `_prep_loss` — come in another order; the theorem covers that too -/
theorem ex_topoB' : ValidTopo (s0q.run hB) [0, 1, 2, 4] := validTopo_of_check (by decide +kernel)

example :
    (((s0q.run hA).toSSys [0, 1, 2, 3]).solve C16R.exCfg "" 25).toOption.map
      (fun T => (heatOf (s0q.run hA).phases T).rows) = some ["S", "B", "L", "K"] ∧
    (((s0q.run hB).toSSys [0, 1, 2, 4]).solve C16R.exCfg "" 25).toOption.map
      (fun T => (heatOf (s0q.run hB).phases T).rows) = some ["S", "B", "K", "L"] := by decide +kernel

example : ResEquiv (hdiag (s0q.run hA) [0, 1, 2, 3] C16R.exCfg 25 exCfg false)
    (hdiag (s0q.run hB) [0, 1, 2, 4] C16R.exCfg 25 exCfg false) :=
  histories_same_heat_diagram s0q_init s0q_init hA hB ex_same ex_topoA ex_topoB' C16R.exCfg
    (by norm_num [C16R.exCfg]) 25 exCfg false

/-- the `.ok` form: the table of the first system yields a table of the second and `HeatSame` loss inputs -/
example : ∃ T₁ T₂, ((s0q.run hA).toSSys [0, 1, 2, 3]).solve C16R.exCfg "" 25 = .ok T₁ ∧
    ((s0q.run hB).toSSys [0, 1, 2, 4]).solve C16R.exCfg "" 25 = .ok T₂ ∧
    HeatSame (some (heatOf (s0q.run hA).phases T₁)) (some (heatOf (s0q.run hB).phases T₂)) := by
  obtain ⟨T₁, hT, _⟩ := C16F.exA_solves
  obtain ⟨T₂, hT₂, hh, _⟩ := histories_same_heat_table s0q_init s0q_init hA hB ex_same ex_topoA ex_topoB' C16R.exCfg
    (by norm_num [C16R.exCfg]) "" 25 T₁ hT
  exact ⟨T₁, T₂, hT, hT₂, hh⟩

/-- the grouped histories `grpA` / `grpB` with solver payloads, phases and K's per-phase power -/
def gA : List (Op (Comp ℚ) ℚ) := grpA.map liftOp ++ [exPhases, exKconf]
def gB : List (Op (Comp ℚ) ℚ) := (grpB.take 7).map liftOp ++ [exKconf] ++ (grpB.drop 7).map liftOp ++ [exPhases]

theorem g_same : (s0q.run gA).abs.Same (s0q.run gB).abs :=
  ⟨sub_of_subB (by decide +kernel), sub_of_subB (by decide +kernel), by decide +kernel, by decide +kernel,
   by decide +kernel, by decide +kernel⟩

theorem g_topoA : ValidTopo (s0q.run gA) [0, 1, 2, 3] := validTopo_of_check (by decide +kernel)
theorem g_topoB : ValidTopo (s0q.run gB) [0, 1, 2, 4] := validTopo_of_check (by decide +kernel)

example : (hdiag (s0q.run gA) [0, 1, 2, 3] C16R.exCfg 25 exCfg true).toOption.map
      (fun d => (d.clusters.map fun c => (c.name, c.nodes.map (·.name)), d.nodes.map (·.name)))
      = some ([("cluster_pwr", ["B"]), ("cluster_loads", ["L", "K"])], ["S"]) ∧
    (hdiag (s0q.run gB) [0, 1, 2, 4] C16R.exCfg 25 exCfg true).toOption.map
      (fun d => (d.clusters.map fun c => (c.name, c.nodes.map (·.name)), d.nodes.map (·.name)))
      = some ([("cluster_loads", ["K", "L"]), ("cluster_pwr", ["B"])], ["S"]) := by decide +kernel

example : ResEquiv (hdiag (s0q.run gA) [0, 1, 2, 3] C16R.exCfg 25 exCfg true)
    (hdiag (s0q.run gB) [0, 1, 2, 4] C16R.exCfg 25 exCfg true) :=
  histories_same_heat_diagram s0q_init s0q_init gA gB g_same g_topoA g_topoB C16R.exCfg
    (by norm_num [C16R.exCfg]) 25 exCfg true

example : ResEquiv (hdiag (s0q.run gA) [0, 1, 2, 3] C16R.exCfg 25 exCfg true)
    (hdiag (s0q.run gB) [0, 1, 2, 4] C16R.exCfg 25 exCfg true) := resEquivB_sound (by decide +kernel)

/-- when `solve()` raises (here: no convergence within one iteration) `make_hdiag` raises on both -/
example : (hdiag (s0q.run gA) [0, 1, 2, 3] { C16R.exCfg with maxiter := 1 } 25 exCfg true).toOption = none ∧
    ResEquiv (hdiag (s0q.run gA) [0, 1, 2, 3] { C16R.exCfg with maxiter := 1 } 25 exCfg true)
      (hdiag (s0q.run gB) [0, 1, 2, 4] { C16R.exCfg with maxiter := 1 } 25 exCfg true) :=
  ⟨by decide +kernel,
   histories_same_heat_diagram s0q_init s0q_init gA gB g_same g_topoA g_topoB _ (by norm_num [C16R.exCfg]) 25 exCfg true⟩

end
end C16D
end SysLoss
