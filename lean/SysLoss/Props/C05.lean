/-
  Props/C05 — a PMux feeds from exactly the first live input, and is reported so.

   * `pri_first_live`        : `_get_pri_inp` returns the least index whose input is not flagged off and
                               has a non-zero voltage; `none` iff there is no such input.
   * `mux_volt`              : output = ±(|V_k| − |rs_k|·Iout) with `rs_k` the k-th list entry or the
                               scalar; it never inverts or amplifies the selected input (after the guard fix).
   * `mux_curr`              : input current = Iout + ig, or the sleep current when inactive.
   * `mux_current_attribution`: the mux's input current is added to the output current of the selected
                               input only — every other input sees none of it.
   * `mux_row_reports_selected`: the table row of the mux names the selected input as its parent and
                               shows that input's voltage as Vin (after fix dfd9166).
   * `mux_dead`              : no live input ⇒ 0 V, flagged off, 0 A (then C04 applies below it).
-/
import SysLoss.Proofs.Basic
import SysLoss.Spec.Laws
import SysLoss.Spec.Phys
import SysLoss.Model.Table

set_option linter.unusedSectionVars false
set_option linter.unusedVariables false

namespace SysLoss
namespace C05
variable {α : Type} [Field α] [LinearOrder α] [IsStrictOrderedRing α]

/-- input `j` is live: not flagged off and at a non-zero voltage -/
def Live (off : List Bool) (vi : List α) (j : Nat) : Prop :=
  ∃ o x, off[j]? = some o ∧ vi[j]? = some x ∧ o = false ∧ x ≠ 0

theorem priInpAux_spec (off : List Bool) (vi : List α) (base : Nat) :
    (∀ k, priInpAux off vi base = some k ↔
        base ≤ k ∧ Live off vi (k - base) ∧ ∀ j, j < k - base → ¬ Live off vi j) ∧
    (priInpAux off vi base = none ↔ ∀ j, ¬ Live off vi j) := by
  induction off generalizing vi base with
  | nil =>
    constructor
    · intro k; cases vi <;> simp [priInpAux, Live]
    · cases vi <;> simp [priInpAux, Live]
  | cons o os ih =>
    cases vi with
    | nil => simp [priInpAux, Live]
    | cons x xs =>
      obtain ⟨ih1, ih2⟩ := ih xs (base + 1)
      have live0 : Live (o :: os) (x :: xs) 0 ↔ (o = false ∧ x ≠ 0) := by
        simp [Live]
      have liveS : ∀ j, Live (o :: os) (x :: xs) (j + 1) ↔ Live os xs j := by
        intro j; simp [Live]
      by_cases h0 : (!o && !isZ x) = true
      · have h0' : o = false ∧ x ≠ 0 := by
          simp only [Bool.and_eq_true, Bool.not_eq_true'] at h0
          exact ⟨h0.1, (isZ_false_iff x).mp h0.2⟩
        simp only [priInpAux, h0, if_true]
        constructor
        · intro k
          constructor
          · intro hk
            simp only [Option.some.injEq] at hk
            subst hk
            refine ⟨le_refl _, ?_, ?_⟩
            · rw [Nat.sub_self]; exact live0.mpr h0'
            · intro j hj; omega
          · rintro ⟨hb, hl, hmin⟩
            simp only [Option.some.injEq]
            by_contra hne
            have : 0 < k - base := by omega
            exact hmin 0 this (live0.mpr h0')
        · simp only [reduceCtorEq, false_iff, not_forall, not_not]
          exact ⟨0, live0.mpr h0'⟩
      · have h0' : ¬ (o = false ∧ x ≠ 0) := by
          intro ⟨ho, hx⟩
          apply h0
          simp [ho, (isZ_false_iff x).mpr hx]
        simp only [priInpAux, h0, Bool.false_eq_true, if_false]
        constructor
        · intro k
          rw [ih1 k]
          constructor
          · rintro ⟨hb, hl, hmin⟩
            refine ⟨by omega, ?_, ?_⟩
            · have : k - base = (k - (base + 1)) + 1 := by omega
              rw [this, liveS]; exact hl
            · intro j hj
              cases j with
              | zero => rw [live0]; exact h0'
              | succ j' => rw [liveS]; exact hmin j' (by omega)
          · rintro ⟨hb, hl, hmin⟩
            have hk : k ≠ base := by
              intro e; subst e; simp only [Nat.sub_self] at hl; exact h0' (live0.mp hl)
            refine ⟨by omega, ?_, ?_⟩
            · have : k - base = (k - (base + 1)) + 1 := by omega
              rw [this, liveS] at hl; exact hl
            · intro j hj
              have := hmin (j + 1) (by omega)
              rwa [liveS] at this
        · rw [ih2]
          constructor
          · intro h j
            cases j with
            | zero => rw [live0]; exact h0'
            | succ j' => rw [liveS]; exact h j'
          · intro h j
            have := h (j + 1)
            rwa [liveS] at this

/-- **First live input.**  `_get_pri_inp` selects index `k` iff input `k` is live and no earlier
    input is; it reports "none" iff no input is live. -/
theorem pri_first_live (off : List Bool) (vi : List α) :
    (∀ k, priInpAux off vi 0 = some k ↔ Live off vi k ∧ ∀ j, j < k → ¬ Live off vi j) ∧
    (priInpAux off vi 0 = none ↔ ∀ j, ¬ Live off vi j) := by
  obtain ⟨h1, h2⟩ := priInpAux_spec off vi 0
  refine ⟨fun k => ?_, h2⟩
  rw [h1 k]; simp

/-- the arithmetic core of the mux's voltage law for a given on-resistance `r ≥ 0` -/
theorem mux_core (name : String) (r vk io v : α) (b : Bool) (hr : 0 ≤ r) (hio : 0 ≤ io) (hvk : vk ≠ 0)
    (h : (if (!decide (0 < nabs vk - r * io)) = true then (Except.error (Err.unstable name) : Except Err (α × Bool))
          else if vk < 0 then .ok (-(nabs vk - r * io), false) else .ok (nabs vk - r * io, false)) = .ok (v, b)) :
    v = nsign vk * (|vk| - r * io) ∧ |v| ≤ |vk| ∧ (0 < v ↔ 0 < vk) ∧ v ≠ 0 := by
  simp only [nabs_eq_abs] at h
  have hd : 0 ≤ r * io := mul_nonneg hr hio
  by_cases hpos : 0 < |vk| - r * io
  · simp only [hpos, decide_true, Bool.not_true, Bool.false_eq_true, if_false] at h
    by_cases hneg : vk < 0
    · simp only [hneg, if_true, Except.ok.injEq, Prod.mk.injEq] at h
      rw [← h.1, nsign_of_neg hneg]
      refine ⟨by ring, ?_, ?_, ?_⟩
      · rw [abs_neg, abs_of_pos hpos]; linarith
      · constructor <;> intro hh <;> linarith
      · linarith
    · simp only [hneg, if_false, Except.ok.injEq, Prod.mk.injEq] at h
      have hvp : 0 < vk := lt_of_le_of_ne (not_lt.mp hneg) (Ne.symm hvk)
      rw [← h.1, nsign_of_pos hvp]
      refine ⟨by ring, ?_, ?_, ?_⟩
      · rw [abs_of_pos hpos]; linarith
      · constructor <;> intro hh <;> linarith
      · linarith
  · simp [hpos] at h

/-- **Mux output.**  Active mux with selected input `k`: Vout = ±(|V_k| − |rs_k|·Iout) — the documented
    law with the on-resistance configured for that input — and the output keeps the polarity and does
    not exceed the selected input. -/
theorem mux_volt (c : Comp α) (hk : c.kind = .pmux) (hrs : 0 ≤ c.rs) (vi : List α) (io : α) (hio : 0 ≤ io)
    (ph : PhaseCtx α) (hact : ph.inactive = false) (off : List Bool) (k : Nat)
    (hsel : priInpAux off vi 0 = some k) {v : α} {b : Bool}
    (h : c.solvOutpVolt vi io ph off = .ok (v, b)) :
    v = specVo c (c.muxRs k) (vi.getD k 0) io ph ∧ |v| ≤ |vi.getD k 0| ∧
      (0 < v ↔ 0 < vi.getD k 0) ∧ v ≠ 0 := by
  unfold Comp.solvOutpVolt at h
  simp only [hk, hsel, hact] at h
  have hvk : vi.getD k 0 ≠ 0 := by
    obtain ⟨_, x, _, hx, _, hne⟩ := ((pri_first_live off vi).1 k).mp hsel |>.1
    simp [List.getD, hx, hne]
  have hz : isZ (vi.getD k 0) = false := (isZ_false_iff _).mpr hvk
  unfold specVo Comp.muxRs
  simp only [hk, hz, hact, Bool.or_self, Bool.false_eq_true, if_false]
  generalize vi.getD k 0 = vk at *
  cases hl : c.rsList with
  | some l =>
    simp only [hl] at h ⊢
    by_cases hlen : l.length < vi.length
    · simp [hlen] at h
    · simp only [hlen, if_false, Bool.false_eq_true] at h
      have := mux_core c.name (nabs (l.getD k 0)) vk io v b (by rw [nabs_eq_abs]; exact abs_nonneg _) hio hvk h
      simpa [nabs_eq_abs, abs_abs] using this
  | none =>
    simp only [hl, Bool.false_eq_true, if_false] at h ⊢
    have := mux_core c.name c.rs vk io v b hrs hio hvk h
    simpa [nabs_eq_abs, abs_of_nonneg hrs] using this

/-- **Mux input current** = documented `Io + ig` (or the sleep current) evaluated at the selected input. -/
theorem mux_curr (c : Comp α) (hk : c.kind = .pmux) (hiis : 0 ≤ c.iis) (vi : List α) (io : α)
    (ph : PhaseCtx α) (off : List Bool) (k : Nat) (hsel : priInpAux off vi 0 = some k) :
    c.solvInpCurr vi io ph off = specIi c (vi.getD k 0) io ph := by
  have hvk : vi.getD k 0 ≠ 0 := by
    obtain ⟨_, x, _, hx, _, hne⟩ := ((pri_first_live off vi).1 k).mp hsel |>.1
    simp [List.getD, hx, hne]
  have hz : isZ (vi.getD k 0) = false := (isZ_false_iff _).mpr hvk
  unfold Comp.solvInpCurr specIi
  simp only [hk, hsel, hz, Bool.false_eq_true, if_false, nabs_eq_abs, abs_of_nonneg hiis]

/-- **No live input ⇒ dead mux.** -/
theorem mux_dead (c : Comp α) (hk : c.kind = .pmux) (vi : List α) (io : α) (ph : PhaseCtx α)
    (off : List Bool) (hnone : ∀ j, ¬ Live off vi j) :
    c.solvOutpVolt vi io ph off = .ok (0, true) ∧ c.solvInpCurr vi io ph off = 0 := by
  have := (pri_first_live off vi).2.mpr hnone
  unfold Comp.solvOutpVolt Comp.solvInpCurr
  simp [hk, this]

/-- **Current attribution.**  With more than one (distinct) input, the current of the mux `c` counts
    towards the output current of the selected input `pp[k]` and of no other input. -/
theorem mux_current_attribution (s : SSys α) (i v : Vec α) (st : St) (c : Nat) (cd : SNode α)
    (hnode : s.node? c = some cd) (hmux : cd.comp.kind = .pmux) (hmany : cd.parents.length > 1)
    (k : Nat) (hsel : priInpAux (cd.parents.map (sget st)) (cd.parents.map (vget v)) 0 = some k)
    (node : Nat) :
    s.childShare node i v st c = if cd.parents.getD k 0 = node then vget i c else 0 := by
  unfold SSys.childShare Comp.priInp
  simp only [hnode, hmux, hsel, hmany, if_true]
  by_cases h : cd.parents.getD k 0 = node <;> simp [h]

/-- a component with a single supply always counts towards that supply -/
theorem single_parent_share (s : SSys α) (i v : Vec α) (st : St) (c : Nat) (cd : SNode α)
    (hnode : s.node? c = some cd) (p : Nat) (hpar : cd.parents = [p]) (node : Nat) :
    s.childShare node i v st c = vget i c := by
  unfold SSys.childShare
  simp only [hnode, hpar, List.length_cons, List.length_nil]
  cases cd.comp.priInp ([p].map (sget st)) ([p].map (vget v)) <;> simp

/-- **The mux row reports the selected input** as parent and shows its voltage as Vin. -/
theorem mux_row_reports_selected (s : SSys α) (phase : String) (ta : α) (v i : Vec α) (st : St)
    (n : Nat) (nd : SNode α) (hnode : s.node? n = some nd) (hmux : nd.comp.kind = .pmux)
    (hmany : nd.parents.length > 1) (k : Nat)
    (hsel : priInpAux (nd.parents.map (sget st)) (nd.parents.map (vget v)) 0 = some k) (d : String) :
    (s.compRow phase ta v i st n d).1.parent = s.nameOf (nd.parents.getD k 0) ∧
    (s.compRow phase ta v i st n d).1.vin = some (vget v (nd.parents.getD k 0)) := by
  have hne : nd.parents.isEmpty = false := by
    cases hp : nd.parents with
    | nil => rw [hp] at hmany; simp at hmany
    | cons a l => rfl
  unfold SSys.compRow Comp.priInp
  simp only [hnode, hmux, hne, hsel, hmany, Bool.false_eq_true, if_false, if_true, Bool.not_false,
    Bool.true_and, decide_true, Option.isSome_some, Bool.and_self, Option.getD_some]
  exact ⟨trivial, trivial⟩

end C05
end SysLoss
