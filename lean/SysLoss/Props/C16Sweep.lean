/-
  Props/C16Sweep — the sweeps do not depend on processing order.

  `_fwd_prop` / `_back_prop` walk `_topo_nodes`, but every iteration reads only the old vectors and
  writes one cell, so the result is the tabulation of the pointwise maps `fwdAt` / `backAt`:
   * `fwdProp_pointwise`, `backProp_pointwise` : cell `n` of the result is `fwdAt n` / `backAt n` for
                                                every listed node, the initial 0 elsewhere;
   * `fwdProp_order_free`, `backProp_order_free`: two topological orders listing the same nodes (whatever
                                                rustworkx returns for whatever insertion history) give
                                                identical vectors;
   * `childCurr_sibling_order`                 : the output current of a node does not depend on the order
                                                in which its children are listed (sibling insertion order).
  Together with `Props/C16` (the relations `_rel_update` computes are functions of the abstract
  structure) this is the order-independence half of C16 at the level of the solver's iterates.
-/
import SysLoss.Proofs.Basic
import SysLoss.Model.Solver
import Mathlib.Algebra.BigOperators.Group.List.Basic

set_option linter.unusedSectionVars false
set_option linter.unusedVariables false

namespace SysLoss
namespace C16
variable {α : Type} [Field α] [LinearOrder α] [IsStrictOrderedRing α]

theorem getD_setIfInBounds {β : Type} (xs : Array β) (i j : Nat) (v d : β) :
    (xs.setIfInBounds i v).getD j d = if i = j ∧ i < xs.size then v else xs.getD j d := by
  simp only [Array.getD_eq_getD_getElem?, Array.getElem?_setIfInBounds]
  by_cases h1 : i = j
  · subst h1
    by_cases h2 : i < xs.size
    · simp [h2]
    · simp [h2, Array.getElem?_eq_none (Nat.le_of_not_lt h2)]
  · simp [h1]

/-- one step of the fold of `_fwd_prop` -/
def fwdStep (s : SSys α) (phase : String) (v i : Vec α) (st : St) (acc : Vec α × St) (n : Nat) :
    Except Err (Vec α × St) := do
  let (x, b) ← s.fwdAt phase v i st n
  pure (acc.1.setIfInBounds n x, acc.2.setIfInBounds n [b])

theorem fwdProp_eq_foldlM (s : SSys α) (phase : String) (v i : Vec α) (st : St) :
    s.fwdProp phase v i st =
      s.topo.foldlM (fwdStep s phase v i st) (Array.replicate s.hidx (0 : α), Array.replicate s.hidx ([] : List Bool)) := rfl

theorem fwd_fold_spec (s : SSys α) (phase : String) (v i : Vec α) (st : St) :
    ∀ (l : List Nat) (acc res : Vec α × St),
      l.foldlM (fwdStep s phase v i st) acc = .ok res →
      res.1.size = acc.1.size ∧ res.2.size = acc.2.size ∧
      (∀ n, n ∈ l → n < acc.1.size → n < acc.2.size →
          ∃ x b, s.fwdAt phase v i st n = .ok (x, b) ∧ res.1.getD n 0 = x ∧ res.2.getD n [] = [b]) ∧
      (∀ n, n ∉ l → res.1.getD n 0 = acc.1.getD n 0 ∧ res.2.getD n [] = acc.2.getD n []) := by
  intro l
  induction l with
  | nil =>
    intro acc res h
    simp only [List.foldlM_nil, pure, Except.pure, Except.ok.injEq] at h
    subst h
    exact ⟨rfl, rfl, fun n hn => absurd hn (by simp), fun n _ => ⟨rfl, rfl⟩⟩
  | cons m l' ih =>
    intro acc res h
    simp only [List.foldlM_cons, bind, Except.bind] at h
    cases hm : fwdStep s phase v i st acc m with
    | error e => rw [hm] at h; simp at h
    | ok acc' =>
      rw [hm] at h
      obtain ⟨hs1, hs2, hin, hout⟩ := ih acc' res h
      -- what the step did
      unfold fwdStep at hm
      cases hf : s.fwdAt phase v i st m with
      | error e => rw [hf] at hm; simp [bind, Except.bind] at hm
      | ok xb =>
        obtain ⟨x, b⟩ := xb
        rw [hf] at hm
        simp only [bind, Except.bind, pure, Except.pure, Except.ok.injEq] at hm
        subst hm
        simp only [Array.size_setIfInBounds] at hs1 hs2 hin
        refine ⟨hs1, hs2, ?_, ?_⟩
        · intro n hn h1 h2
          by_cases hnl : n ∈ l'
          · exact hin n hnl h1 h2
          · have hnm : n = m := by
              rcases List.mem_cons.mp hn with h | h
              · exact h
              · exact absurd h hnl
            subst hnm
            obtain ⟨e1, e2⟩ := hout n hnl
            refine ⟨x, b, hf, ?_, ?_⟩
            · rw [e1, getD_setIfInBounds]; simp [h1]
            · rw [e2, getD_setIfInBounds]; simp [h2]
        · intro n hn
          have hnm : m ≠ n := fun e => hn (by simp [e])
          have hnl : n ∉ l' := fun e => hn (by simp [e])
          obtain ⟨e1, e2⟩ := hout n hnl
          refine ⟨?_, ?_⟩
          · rw [e1, getD_setIfInBounds]; simp [hnm]
          · rw [e2, getD_setIfInBounds]; simp [hnm]

/-- **`_fwd_prop` is a pointwise map.**  Cell `n` of the new voltage vector (and of the new flag vector) is
    `fwdAt n` — computed from the *old* vectors only — for every listed node; untouched (0, no flag) elsewhere. -/
theorem fwdProp_pointwise (s : SSys α) (phase : String) (v i : Vec α) (st : St) (v' : Vec α) (st' : St)
    (h : s.fwdProp phase v i st = .ok (v', st')) :
    v'.size = s.hidx ∧ st'.size = s.hidx ∧
    (∀ n, n ∈ s.topo → n < s.hidx →
        ∃ x b, s.fwdAt phase v i st n = .ok (x, b) ∧ vget v' n = x ∧ st'.getD n [] = [b]) ∧
    (∀ n, n ∉ s.topo → vget v' n = 0 ∧ st'.getD n [] = []) := by
  rw [fwdProp_eq_foldlM] at h
  obtain ⟨h1, h2, h3, h4⟩ := fwd_fold_spec s phase v i st s.topo _ _ h
  simp only [Array.size_replicate] at h1 h2 h3
  refine ⟨h1, h2, fun n hn hb => h3 n hn hb hb, fun n hn => ?_⟩
  obtain ⟨e1, e2⟩ := h4 n hn
  unfold vget
  refine ⟨?_, ?_⟩
  · rw [e1]; simp [Array.getD_eq_getD_getElem?, Array.getElem?_replicate]; split <;> rfl
  · rw [e2]; simp [Array.getD_eq_getD_getElem?, Array.getElem?_replicate]; split <;> rfl

/-- **Order-free.**  Two orders that list the same nodes produce the same voltages and flags. -/
theorem fwdProp_order_free (s s' : SSys α) (hnodes : s'.nodes = s.nodes)
    (hsame : ∀ n, n ∈ s'.topo ↔ n ∈ s.topo) (hb : ∀ n ∈ s.topo, n < s.hidx)
    (phase : String) (v i : Vec α) (st : St) (v1 v2 : Vec α) (st1 st2 : St)
    (h1 : s.fwdProp phase v i st = .ok (v1, st1)) (h2 : s'.fwdProp phase v i st = .ok (v2, st2)) :
    (∀ n, vget v1 n = vget v2 n) ∧ (∀ n, st1.getD n [] = st2.getD n []) := by
  have hidx : s'.hidx = s.hidx := by unfold SSys.hidx; rw [hnodes]
  have hfw : ∀ n, s'.fwdAt phase v i st n = s.fwdAt phase v i st n := by
    intro n
    unfold SSys.fwdAt SSys.lawArgs SSys.childCurr SSys.childShare SSys.node?
    simp only [hnodes]
  obtain ⟨_, _, a3, a4⟩ := fwdProp_pointwise s phase v i st v1 st1 h1
  obtain ⟨_, _, b3, b4⟩ := fwdProp_pointwise s' phase v i st v2 st2 h2
  refine ⟨fun n => ?_, fun n => ?_⟩ <;>
  · by_cases hn : n ∈ s.topo
    · obtain ⟨x, b, e1, e2, e3⟩ := a3 n hn (hb n hn)
      obtain ⟨x', b', e1', e2', e3'⟩ := b3 n ((hsame n).mpr hn) (by rw [hidx]; exact hb n hn)
      rw [hfw n, e1] at e1'
      simp only [Except.ok.injEq, Prod.mk.injEq] at e1'
      first
      | (rw [e2, e2', e1'.1])
      | (rw [e3, e3', e1'.2])
    · have hn' : n ∉ s'.topo := fun e => hn ((hsame n).mp e)
      first
      | (rw [(a4 n hn).1, (b4 n hn').1])
      | (rw [(a4 n hn).2, (b4 n hn').2])

/-! ### the backward (current) sweep -/

theorem back_fold_spec (s : SSys α) (phase : String) (v i : Vec α) (st : St) :
    ∀ (l : List Nat) (acc : Vec α),
      let res := l.foldl (fun acc n => acc.setIfInBounds n (s.backAt phase v i st n)) acc
      res.size = acc.size ∧
      (∀ n, n ∈ l → n < acc.size → res.getD n 0 = s.backAt phase v i st n) ∧
      (∀ n, n ∉ l → res.getD n 0 = acc.getD n 0) := by
  intro l
  induction l with
  | nil => intro acc; exact ⟨rfl, fun n hn => absurd hn (by simp), fun n _ => rfl⟩
  | cons m l' ih =>
    intro acc
    simp only [List.foldl_cons]
    obtain ⟨h1, h2, h3⟩ := ih (acc.setIfInBounds m (s.backAt phase v i st m))
    simp only [Array.size_setIfInBounds] at h1 h2
    refine ⟨h1, ?_, ?_⟩
    · intro n hn hb
      by_cases hnl : n ∈ l'
      · exact h2 n hnl hb
      · have hnm : n = m := by
          rcases List.mem_cons.mp hn with h | h
          · exact h
          · exact absurd h hnl
        subst hnm
        rw [h3 n hnl, getD_setIfInBounds]; simp [hb]
    · intro n hn
      have hnm : m ≠ n := fun e => hn (by simp [e])
      have hnl : n ∉ l' := fun e => hn (by simp [e])
      rw [h3 n hnl, getD_setIfInBounds]; simp [hnm]

/-- **`_back_prop` is a pointwise map**: cell `n` of the new current vector is `backAt n` for every listed node. -/
theorem backProp_pointwise (s : SSys α) (phase : String) (v i : Vec α) (st : St) :
    (s.backProp phase v i st).size = s.hidx ∧
    (∀ n, n ∈ s.topo → n < s.hidx → vget (s.backProp phase v i st) n = s.backAt phase v i st n) ∧
    (∀ n, n ∉ s.topo → vget (s.backProp phase v i st) n = 0) := by
  unfold SSys.backProp
  obtain ⟨h1, h2, h3⟩ := back_fold_spec s phase v i st s.topo.reverse (Array.replicate s.hidx (0 : α))
  simp only [Array.size_replicate] at h1 h2
  refine ⟨h1, fun n hn hb => h2 n (List.mem_reverse.mpr hn) hb, fun n hn => ?_⟩
  unfold vget
  rw [h3 n (fun e => hn (List.mem_reverse.mp e))]
  simp [Array.getD_eq_getD_getElem?, Array.getElem?_replicate]; split <;> rfl

/-- two orders listing the same nodes produce the same currents -/
theorem backProp_order_free (s s' : SSys α) (hnodes : s'.nodes = s.nodes)
    (hsame : ∀ n, n ∈ s'.topo ↔ n ∈ s.topo) (hb : ∀ n ∈ s.topo, n < s.hidx)
    (phase : String) (v i : Vec α) (st : St) :
    ∀ n, vget (s.backProp phase v i st) n = vget (s'.backProp phase v i st) n := by
  have hidx : s'.hidx = s.hidx := by unfold SSys.hidx; rw [hnodes]
  have hbk : ∀ n, s'.backAt phase v i st n = s.backAt phase v i st n := by
    intro n
    unfold SSys.backAt SSys.lawArgs SSys.childCurr SSys.childShare SSys.node?
    simp only [hnodes]
  obtain ⟨_, a2, a3⟩ := backProp_pointwise s phase v i st
  obtain ⟨_, b2, b3⟩ := backProp_pointwise s' phase v i st
  intro n
  by_cases hn : n ∈ s.topo
  · rw [a2 n hn (hb n hn), b2 n ((hsame n).mpr hn) (by rw [hidx]; exact hb n hn), hbk]
  · rw [a3 n hn, b3 n (fun e => hn ((hsame n).mp e))]

/-- **Sibling order.**  Re-ordering the list of children of a node does not change its output current. -/
theorem childCurr_sibling_order (f : Nat → α) (cs cs' : List Nat) (h : cs.Perm cs') :
    sumL (cs.map f) = sumL (cs'.map f) := by
  rw [sumL_eq_sum, sumL_eq_sum]
  exact (h.map f).sum_eq

/-- … stated for the model's `childCurr`: two systems that agree on everything a child contributes and
    list the same children of `node` in a different order give `node` the same output current. -/
theorem childCurr_perm (s s' : SSys α) (node : Nat) (nd nd' : SNode α) (i v : Vec α) (st : St)
    (h1 : s.node? node = some nd) (h2 : s'.node? node = some nd') (hp : nd.childs.Perm nd'.childs)
    (hshare : ∀ c, s.childShare node i v st c = s'.childShare node i v st c) :
    s.childCurr node i v st = s'.childCurr node i v st := by
  unfold SSys.childCurr
  rw [h1, h2]
  have : (nd'.childs.map (s'.childShare node i v st)) = nd'.childs.map (s.childShare node i v st) := by
    apply List.map_congr_left; intro c _; exact (hshare c).symm
  simp only [this]
  exact childCurr_sibling_order _ _ _ hp

end C16
end SysLoss
