/-
  Props/C12Same — C12 / C16: `save()` as a function of the FINAL STRUCTURE.

  Two systems with the same final structure (`SysEquiv s₂ s₁` of Props/C12: same name / phases / phase configuration /
  groups / rails, node lists equal up to order and `CompEquiv`) do NOT write the same document: the blocks follow
  rustworkx's topological order (`topo`, a parameter), the siblings follow the insertion order (`childrenOf`: newest
  edge first).  "save() returns the same values" can therefore only mean that the two documents carry the same
  information: loading them gives equivalent systems.  That is what is proved here, about the existing definitions
  `save`, `fromFile`, `layoutOf` (Model/Persist.lean), `SysEquiv` (Props/C12), `DescWF` (Props/C12Layout),
  `SysDesc.toSSys`, `TopoOK`, `DescRailsUnique` (Props/C12Solve).

   1. `CompEquiv.refl/.symm/.trans`, `NodeEquiv.refl/.symm/.trans`, `SysEquiv.refl/.symm/.trans`
        `CompEquiv` IS symmetric as defined (its `limits` clause ranges over the limit keys of the right-hand kind, and
        the kinds are equal), so `SysEquiv` is an equivalence relation on ALL descriptions — no well-formedness needed.
      `DescWF.of_sysEquiv`     well-formedness travels along `SysEquiv` (all fields but `built`, which is about the
                               constructor and is asked for separately);  `DescWF.retopo`  any other valid order;
                               `DescWF.of_nodes_eq`  it is about the node list only.
   2. `roundtrip_general`      `from_file(save(s))` for a well-formed `s` whose top-level names are not "system", with
                               NO assumption on the version string or the registries: the result is `reloadRes` =
                               version gate, then the two back-fills, then the description with the reloaded nodes.
      `save_same_structure`    FULL strength: `DescWF topo₁ s₁`, `DescWF topo₂ s₂`, `SysEquiv s₂ s₁` ⇒ the two loads are
                               `ResEquiv`: both succeed with `SysEquiv` results, or both raise the SAME exception
                               (version syntax, back-fill on a non-dict `phase_conf`, the reserved name of finding F15).
      `save_same_structure_partial`  the form asked for: under the hypotheses of `roundtrip_wf_partial` (version parses,
                               registries non-empty, no Source / PMux called "system" — stated on `s₁` only, they travel
                               along `SysEquiv`) both loads succeed, `SysEquiv r₂ r₁`, and each is `SysEquiv` to its
                               original.  Partial only in that it asserts success, hence needs those hypotheses.
   3. `reloads_same_table_partial`   ANY two successful loads (no version / registry / reserved-name hypothesis) solve to
                               the same table up to row order and raise together.  Partial only through `0 ≤ cfg.atol`
                               (inherited from `C16R.solve_renumber`) and the `TopoOK` of the two processing orders
                               (rustworkx's, parameters).  No `DiagInsensitive` / `InterpAgree` hypothesis: both sides
                               are RELOADED, so both carry the default diagonal annotation (`dropDiag_eq_of_sameData`).
      `save_same_structure_same_table_partial`, `save_same_structure_same_rail_rep_partial`
                               the composition in the existence form (hypotheses of 2 + `DescRailsUnique s₁` for the
                               rail report).
   4. `save_topo_irrelevant`   FULL strength, ONE description, two valid topological orders: the two loads raise the
                               same exception, or succeed with results that are `SysEquiv` AND whose node lists are
                               permutations of each other (equal components, not just `CompEquiv`), all registries equal.
      `save_topo_irrelevant_partial`   the existence form under the hypotheses of 2.
      The documents themselves differ (example in section 6: other order of the Source blocks, other order of the
      children of `M`).

   5. `RegEquiv`, `SysEquivR` (+ `.refl/.symm/.trans`), `toSSys_congr_regs`, `sysEquivR_same_table_partial`,
      `sysEquivR_same_rail_rep_partial`, `save_same_structure_reg_partial`
        `SysEquiv` compares the registries `phase_conf` / `groups` / `rails` as ORDERED dicts (`PV.dict` is a list).
        Two edit histories that insert the same components in different orders leave registries that are equal as
        Python dicts but differ in key order.  `SysEquivR` is `SysEquiv` up to that (`RegEquiv`: same value, or dicts
        with distinct keys and the same entries in another order); the solver reads the registries by key only, so
        2 and 3 hold for `SysEquivR` as well (existence form; `phases` must still agree as an ordered dict — its order
        is the order of the phase tables in `solve()`).

  Not covered.  The full-strength (`ResEquiv`) form is proved for `SysEquiv` only; for `SysEquivR` the back-fill of an
  EMPTY `groups` / `rails` registry follows the key order of `phase_conf`, so the two back-filled registries agree up
  to `RegEquiv` only — not stated here (the `_partial` form excludes empty registries).
  Which law exception escapes when several components fail in one sweep: `solve_renumber_error`'s caveat.

  Non-vacuity: `eSys` of Props/C12Layout with the two orders `eTopo`, `eTopo'`; `ePerm`, a copy of `eSys` inserted in
  another (parents-first) order with `S2` carrying a limit on a non-applicable key (so `CompEquiv` is strictly weaker
  than `=`); `ePermR`, the same with the registries in that other key order; `eSysR` (rails, phases) for the rail report.
-/
import SysLoss.Props.C12Solve

set_option linter.unusedSectionVars false
set_option linter.unusedVariables false
set_option linter.unusedSimpArgs false

namespace SysLoss
namespace C12
open C16R
variable {α : Type} [Field α] [LinearOrder α] [IsStrictOrderedRing α]

/-! ### 1. `CompEquiv`, `NodeEquiv`, `SysEquiv` are equivalence relations -/

theorem sameData_symm {p q : Param α} (h : p.sameData q) : q.sameData p := by
  cases p <;> cases q <;> simp only [Param.sameData] at h ⊢
  · exact h.symm
  · exact ⟨h.1.symm, h.2.symm⟩
  · exact ⟨h.1.symm, h.2.1.symm, h.2.2.symm⟩

theorem sameData_trans {p q r : Param α} (h1 : p.sameData q) (h2 : q.sameData r) : p.sameData r := by
  cases p <;> cases q <;> simp only [Param.sameData] at h1 <;> cases r <;> simp only [Param.sameData] at h2 ⊢
  · exact h1.trans h2
  · exact ⟨h1.1.trans h2.1, h1.2.trans h2.2⟩
  · exact ⟨h1.1.trans h2.1, h1.2.1.trans h2.2.1, h1.2.2.trans h2.2.2⟩

/-- components with the same interpolation data are EQUAL once the diagonal annotation is dropped -/
theorem dropDiag_eq_of_sameData {p q : Param α} (h : p.sameData q) : p.dropDiag = q.dropDiag := by
  cases p <;> cases q <;> simp only [Param.sameData] at h
  · rw [h]
  · rw [h.1, h.2]
  · obtain ⟨rfl, rfl, rfl⟩ := h; rfl

theorem _root_.SysLoss.CompEquiv.refl (c : Comp α) : CompEquiv c c where
  name := rfl
  kind := rfl
  vo := rfl
  rs := rfl
  rsList := rfl
  par := Param.sameData_refl _
  vdrop := rfl
  iq := rfl
  iis := rfl
  rt := rfl
  pwr := rfl
  pwrs := rfl
  ii := rfl
  loss := rfl
  diode := rfl
  params := rfl
  limits := fun _ _ => rfl

/-- `CompEquiv` is symmetric as defined: the applicable limit keys are those of the common kind -/
theorem _root_.SysLoss.CompEquiv.symm {c' c : Comp α} (h : CompEquiv c' c) : CompEquiv c c' where
  name := h.name.symm
  kind := h.kind.symm
  vo := h.vo.symm
  rs := h.rs.symm
  rsList := h.rsList.symm
  par := sameData_symm h.par
  vdrop := h.vdrop.symm
  iq := h.iq.symm
  iis := h.iis.symm
  rt := h.rt.symm
  pwr := h.pwr.symm
  pwrs := h.pwrs.symm
  ii := h.ii.symm
  loss := h.loss.symm
  diode := h.diode.symm
  params := h.params.symm
  limits := fun key hk => (h.limits key (by rw [← h.kind]; exact hk)).symm

theorem _root_.SysLoss.CompEquiv.trans {a b c : Comp α} (h1 : CompEquiv a b) (h2 : CompEquiv b c) : CompEquiv a c where
  name := h1.name.trans h2.name
  kind := h1.kind.trans h2.kind
  vo := h1.vo.trans h2.vo
  rs := h1.rs.trans h2.rs
  rsList := h1.rsList.trans h2.rsList
  par := sameData_trans h1.par h2.par
  vdrop := h1.vdrop.trans h2.vdrop
  iq := h1.iq.trans h2.iq
  iis := h1.iis.trans h2.iis
  rt := h1.rt.trans h2.rt
  pwr := h1.pwr.trans h2.pwr
  pwrs := h1.pwrs.trans h2.pwrs
  ii := h1.ii.trans h2.ii
  loss := h1.loss.trans h2.loss
  diode := h1.diode.trans h2.diode
  params := h1.params.trans h2.params
  limits := fun key hk => (h1.limits key (by rw [h2.kind]; exact hk)).trans (h2.limits key hk)

theorem NodeEquiv.refl (n : Node α) : NodeEquiv n n := ⟨CompEquiv.refl _, rfl⟩
theorem NodeEquiv.symm {n' n : Node α} (h : NodeEquiv n' n) : NodeEquiv n n' := ⟨h.1.symm, h.2.symm⟩
theorem NodeEquiv.trans {a b c : Node α} (h1 : NodeEquiv a b) (h2 : NodeEquiv b c) : NodeEquiv a c :=
  ⟨h1.1.trans h2.1, h1.2.trans h2.2⟩

theorem forall₂_comp {β γ δ : Type} {R : β → γ → Prop} {S : γ → δ → Prop} {T : β → δ → Prop}
    (hT : ∀ a b c, R a b → S b c → T a c) {l : List β} {m : List γ} {n : List δ}
    (h1 : List.Forall₂ R l m) (h2 : List.Forall₂ S m n) : List.Forall₂ T l n := by
  induction h1 generalizing n with
  | nil => cases h2; exact .nil
  | cons hab _ ih =>
    cases h2 with
    | cons hbc h2' => exact .cons (hT _ _ _ hab hbc) (ih h2')

theorem forall₂_swap {β γ : Type} {R : β → γ → Prop} {S : γ → β → Prop} (hS : ∀ a b, R a b → S b a)
    {l : List β} {m : List γ} (h : List.Forall₂ R l m) : List.Forall₂ S m l := by
  induction h with
  | nil => exact .nil
  | cons hab _ ih => exact .cons (hS _ _ hab) ih

theorem SysEquiv.refl (s : SysDesc α) : SysEquiv s s :=
  ⟨rfl, rfl, rfl, rfl, rfl, s.nodes, List.Perm.refl _, List.forall₂_same.mpr fun n _ => NodeEquiv.refl n⟩

theorem SysEquiv.symm {s' s : SysDesc α} (h : SysEquiv s' s) : SysEquiv s s' := by
  obtain ⟨l, hl, hF⟩ := h.nodes
  have hF' : List.Forall₂ NodeEquiv l s'.nodes := forall₂_swap (fun _ _ hab => hab.symm) hF
  obtain ⟨c, hc1, hc2⟩ := List.perm_comp_forall₂ hl.symm hF'
  exact ⟨h.name.symm, h.phases.symm, h.phaseConf.symm, h.groups.symm, h.rails.symm, c, hc2, hc1⟩

theorem SysEquiv.trans {a b c : SysDesc α} (h1 : SysEquiv a b) (h2 : SysEquiv b c) : SysEquiv a c := by
  obtain ⟨l1, hl1, hF1⟩ := h1.nodes
  obtain ⟨l2, hl2, hF2⟩ := h2.nodes
  obtain ⟨m, hm1, hm2⟩ := List.perm_comp_forall₂ hl1 hF2
  exact ⟨h1.name.trans h2.name, h1.phases.trans h2.phases, h1.phaseConf.trans h2.phaseConf,
    h1.groups.trans h2.groups, h1.rails.trans h2.rails, m, hm2.trans hl2,
    forall₂_comp (R := NodeEquiv) (S := NodeEquiv) (T := NodeEquiv) (fun _ _ _ h1 h2 => NodeEquiv.trans h1 h2) hF1 hm1⟩

/-- `SysEquiv` is an equivalence relation on descriptions -/
theorem sysEquiv_equivalence : Equivalence (SysEquiv (α := α)) :=
  ⟨SysEquiv.refl, SysEquiv.symm, SysEquiv.trans⟩

/-! #### well-formedness along `SysEquiv` and along the choice of the topological order -/

/-- any other order that lists every component once, parents first, is as good -/
theorem DescWF.retopo {topo topo' : List String} {s : SysDesc α} (h : DescWF topo s) (ht : TopoOK topo' s) :
    DescWF topo' s :=
  { h with
    topoPerm := (List.perm_ext_iff_of_nodup ht.nodup h.nodup).mpr ht.mem
    topoOrder := ht.order }

/-- well-formedness is about the node list only -/
theorem DescWF.of_nodes_eq {topo : List String} {s' s : SysDesc α} (h : DescWF topo s) (e : s'.nodes = s.nodes) :
    DescWF topo s' := by
  cases s'; cases s
  simp only at e
  subst e
  exact ⟨h.built, h.named, h.nodup, h.nonempty, h.topoPerm, h.topoOrder, h.parentsExist, h.parentsNodup,
    h.sourceIff, h.single, h.oneMux, h.loadsLeaf⟩

/-- a description equivalent to a well-formed one, with components made by their constructors, is well-formed -/
theorem DescWF.of_sysEquiv {topo : List String} {s' s : SysDesc α} (h : DescWF topo s) (he : SysEquiv s' s)
    (hb : ∀ n ∈ s'.nodes, Built n.comp) : DescWF topo s' := by
  have hnp := he.names_perm
  have hs := he.symm
  refine { built := hb, named := ?_, nodup := hnp.nodup_iff.mpr h.nodup, nonempty := ?_,
           topoPerm := h.topoPerm.trans hnp.symm, topoOrder := ?_, parentsExist := ?_, parentsNodup := ?_,
           sourceIff := ?_, single := ?_, oneMux := ?_, loadsLeaf := ?_ }
  · intro n' hn'
    obtain ⟨n, hn, hr⟩ := he.exists_node hn'
    have : n'.name = n.name := hr.1.name
    rw [this]; exact h.named n hn
  · intro e
    have : s'.names = [] := by simp [SysDesc.names, e]
    rw [this] at hnp
    have : s.nodes = [] := by
      have := hnp.symm.eq_nil
      simpa [SysDesc.names] using this
    exact h.nonempty this
  · intro n' hn' p hp
    obtain ⟨n, hn, hr⟩ := he.exists_node hn'
    have : n'.name = n.name := hr.1.name
    rw [this]; rw [hr.2] at hp
    exact h.topoOrder n hn p hp
  · intro n' hn' p hp
    obtain ⟨n, hn, hr⟩ := he.exists_node hn'
    rw [hr.2] at hp
    exact hnp.mem_iff.mpr (h.parentsExist n hn p hp)
  · intro n' hn'
    obtain ⟨n, hn, hr⟩ := he.exists_node hn'
    rw [hr.2]; exact h.parentsNodup n hn
  · intro n' hn'
    obtain ⟨n, hn, hr⟩ := he.exists_node hn'
    rw [hr.2, hr.1.kind]; exact h.sourceIff n hn
  · intro n' hn'
    obtain ⟨n, hn, hr⟩ := he.exists_node hn'
    rw [hr.2, hr.1.kind]; exact h.single n hn
  · intro n' hn' m' hm' hkn hkm
    obtain ⟨n, hn, hr⟩ := he.exists_node hn'
    obtain ⟨m, hm, hr'⟩ := he.exists_node hm'
    have e1 : n'.name = n.name := hr.1.name
    have e2 : m'.name = m.name := hr'.1.name
    rw [e1, e2]
    exact h.oneMux n hn m hm (by rw [← hr.1.kind]; exact hkn) (by rw [← hr'.1.kind]; exact hkm)
  · intro n' hn' p hp pn' hpn' e
    obtain ⟨n, hn, hr⟩ := he.exists_node hn'
    obtain ⟨pn, hpn, hr'⟩ := he.exists_node hpn'
    rw [hr.2] at hp
    have e2 : pn'.name = pn.name := hr'.1.name
    rw [hr'.1.kind]
    exact h.loadsLeaf n hn p hp pn hpn (by rw [← e2]; exact e)

/-! ### 2. the round trip without assumptions on version string and registries -/

/-- what `from_file` returns for a saved document whose blocks load to `nodes`: the version gate on the library's own
    version string, the two back-fills (`groups`, `rails` when they are `{}`), then the description -/
def reloadRes (ver : String) (s : SysDesc α) (nodes : List (Node α)) : Except Err (SysDesc α) :=
  match versionGate ver (.str ver : PV α) with
  | .error e => .error e
  | .ok _ =>
    match backfill s.groups s.phaseConf with
    | .error e => .error e
    | .ok g =>
      match backfill s.rails s.phaseConf with
      | .error e => .error e
      | .ok r => .ok { name := s.name, nodes := nodes, phases := s.phases, phaseConf := s.phaseConf,
                       groups := g, rails := r }

/-- `Props/C12.roundtrip_partial` without `version`, `groups`, `rails` hypotheses and with the result spelled out -/
theorem roundtrip_general (ver : String) (topo : List String) (s : SysDesc α)
    (hl : LayoutOK [] (layoutOf topo s)) (hsf : ∀ b, (layoutOf topo s).head? = some b → b.isMux = false)
    (hne : layoutOf topo s ≠ []) (hres : ∀ b ∈ layoutOf topo s, b.root.name ≠ "system") :
    fromFile ver (save ver topo s) = reloadRes ver s ((flatLayout (layoutOf topo s)).map rl) := by
  obtain ⟨hn, _⟩ := layout_roots_fresh [] _ hl
  have hdoc := docOf_eq ver s (layoutOf topo s) hn hres
  have hblocks := loadBlocks_ok [] (layoutOf topo s) true (fun _ => rfl) (fun _ => hsf) hl
  simp only [List.map_nil, List.nil_append] at hblocks
  have hlen : ¬ (layoutDoc (layoutOf topo s)).length + 1 ≤ 1 := by
    have : (layoutOf topo s).length ≠ 0 := fun e => hne (List.length_eq_zero_iff.mp e)
    simp only [layoutDoc, List.length_map]
    omega
  have e1 : getMand (save ver topo s) "system" = .ok (sysBlock ver s) := by
    rw [save, hdoc]; exact getMand_dict_some _ _ _ (by simp [List.lookup])
  have e2 : getMand (sysBlock ver s) "name" = .ok (.str s.name) :=
    getMand_dict_some _ _ _ (by simp [List.lookup])
  have e3 : getMand (sysBlock ver s) "version" = .ok (.str ver) :=
    getMand_dict_some _ _ _ (by simp [List.lookup])
  have e4 : getMand (sysBlock ver s) "phase_conf" = .ok s.phaseConf :=
    getMand_dict_some _ _ _ (by simp [List.lookup])
  have e5 : getOpt (sysBlock ver s) "phases" (.dict []) = .ok s.phases := by
    unfold sysBlock; rw [getOpt_dict]; simp [List.lookup]
  have e6 : getOpt (sysBlock ver s) "groups" (.dict []) = .ok s.groups := by
    unfold sysBlock; rw [getOpt_dict]; simp [List.lookup]
  have e7 : getOpt (sysBlock ver s) "rails" (.dict []) = .ok s.rails := by
    unfold sysBlock; rw [getOpt_dict]; simp [List.lookup]
  unfold reloadRes
  cases hvg : versionGate ver (.str ver : PV α) with
  | error e => simp only [fromFile, e1, e2, e3, hvg, ex_bind_ok, bind, Except.bind]
  | ok u =>
    simp only [fromFile, e1, e2, e3, hvg, ex_bind_ok, bind, Except.bind]
    simp only [loadBody, e1, e2, ex_bind_ok, bind, Except.bind, pure, Except.pure]
    rw [save, hdoc]
    cases hg : backfill s.groups s.phaseConf with
    | error e =>
      simp only [List.drop_one, List.tail_cons, hblocks, List.length_cons, if_neg hlen, e4, e5, e6, e7, hg, strOf]
    | ok g =>
      cases hr : backfill s.rails s.phaseConf with
      | error e =>
        simp only [List.drop_one, List.tail_cons, hblocks, List.length_cons, if_neg hlen, e4, e5, e6, e7, hg, hr,
          strOf]
      | ok r =>
        simp only [List.drop_one, List.tail_cons, hblocks, List.length_cons, if_neg hlen, e4, e5, e6, e7, hg, hr,
          strOf]

section wf
variable {topo : List String} {s : SysDesc α}

/-- every Source and the PMux of a well-formed description head a block of the layout -/
theorem root_of_wf (h : DescWF topo s) {n : Node α} (hn : n ∈ s.nodes)
    (hk : n.comp.kind = .source ∨ n.comp.kind = .pmux) : ∃ b ∈ layoutOf topo s, b.root = n := by
  have hmem : ∀ x, x ∈ topo.filterMap s.find? ↔ x ∈ s.nodes := fun x => (ordered_perm h).mem_iff
  rcases hk with hk | hk
  · have hsrc : n ∈ (topo.filterMap s.find?).filter (fun x => x.comp.kind == .source) :=
      List.mem_filter.mpr ⟨(hmem n).mpr hn, by simp [hk]⟩
    have key : ∀ (f : Node α → Block α), (∀ x, (f x).root = x) → ∀ tail : List (Block α),
        ∃ b ∈ ((topo.filterMap s.find?).filter (fun x => x.comp.kind == .source)).map f ++ tail, b.root = n :=
      fun f hf tail => ⟨f n, List.mem_append.mpr (Or.inl (List.mem_map_of_mem hsrc)), hf n⟩
    unfold layoutOf
    exact key _ (fun _ => rfl) _
  · cases hmux : (topo.filterMap s.find?).find? (fun x => x.comp.kind == .pmux) with
    | none =>
      have := List.find?_eq_none.mp hmux n ((hmem n).mpr hn)
      simp [hk] at this
    | some m =>
      have hm : m ∈ s.nodes := (hmem m).mp (List.mem_of_find?_eq_some hmux)
      have hkm : m.comp.kind = .pmux := by simpa using List.find?_some hmux
      have : m = n := h.ext hm hn (h.oneMux m hm n hn hkm hk)
      subst this
      refine ⟨muxBlock s m, ?_, rfl⟩
      unfold layoutOf
      simp only [hmux, List.mem_append, List.mem_singleton]
      exact Or.inr rfl

theorem no_reserved_root (h : DescWF topo s)
    (hres : ∀ n ∈ s.nodes, n.comp.kind = .source ∨ n.comp.kind = .pmux → n.name ≠ "system") :
    ∀ b ∈ layoutOf topo s, b.root.name ≠ "system" := by
  obtain ⟨a1, a2, _⟩ := layout_of_wf h
  intro b hb
  refine hres b.root ?_ (layout_root_kinds [] _ a1 b hb)
  apply a2.subset
  simp only [flatLayout, List.mem_flatMap]
  exact ⟨b, hb, by simp [Block.nodes]⟩

/-- the load of the saved document of a well-formed description none of whose top-level blocks is called "system" -/
theorem fromFile_save_wf (ver : String) (h : DescWF topo s)
    (hres : ∀ n ∈ s.nodes, n.comp.kind = .source ∨ n.comp.kind = .pmux → n.name ≠ "system") :
    fromFile ver (save ver topo s) = reloadRes ver s ((flatLayout (layoutOf topo s)).map rl) := by
  obtain ⟨a1, a2, b, rest, a3, a4⟩ := layout_of_wf h
  refine roundtrip_general ver topo s a1 ?_ ?_ (no_reserved_root h hres)
  · intro b' hb'
    rw [a3] at hb'
    simp only [List.head?_cons, Option.some.injEq] at hb'
    rw [← hb']; exact a4
  · rw [a3]; simp

/-- … and when one is (finding F15): `KeyError`, whatever the order -/
theorem fromFile_save_wf_reserved (ver : String) (h : DescWF topo s) {n : Node α} (hn : n ∈ s.nodes)
    (hk : n.comp.kind = .source ∨ n.comp.kind = .pmux) (hname : n.name = "system") :
    fromFile ver (save ver topo s) = .error (.key "Parameter dict is missing entry for 'name'") := by
  obtain ⟨a1, _, _⟩ := layout_of_wf h
  obtain ⟨b, hb, e⟩ := root_of_wf h hn hk
  exact reserved_name_fails ver topo s b hb (by rw [e]; exact hname) (layout_roots_fresh [] _ a1).1

/-- the reloaded nodes are the nodes of the description, reloaded, in the order of the layout -/
theorem reloadedDesc_equiv_wf (h : DescWF topo s) : SysEquiv (reloadedDesc topo s) s := by
  obtain ⟨_, a2, _⟩ := layout_of_wf h
  refine ⟨rfl, rfl, rfl, rfl, rfl, flatLayout (layoutOf topo s), a2, ?_⟩
  show List.Forall₂ NodeEquiv ((flatLayout (layoutOf topo s)).map rl) _
  rw [List.forall₂_map_left_iff]
  exact List.forall₂_same.mpr fun n _ => ⟨reloaded_equiv n.comp, rfl⟩

end wf

/-- the two outcomes of `from_file` carry the same information: equivalent systems, or the same exception -/
def ResEquiv : Except Err (SysDesc α) → Except Err (SysDesc α) → Prop
  | .ok r₂, .ok r₁ => SysEquiv r₂ r₁
  | .error e₂, .error e₁ => e₂ = e₁
  | _, _ => False

theorem reloadRes_resEquiv (ver : String) {s₁ s₂ : SysDesc α} (he : SysEquiv s₂ s₁) {n₁ n₂ : List (Node α)}
    (hn : ∃ l, l.Perm n₁ ∧ List.Forall₂ NodeEquiv n₂ l) :
    ResEquiv (reloadRes ver s₂ n₂) (reloadRes ver s₁ n₁) := by
  unfold reloadRes
  rw [he.groups, he.rails, he.phaseConf, he.name, he.phases]
  cases versionGate ver (.str ver : PV α) with
  | error e => exact rfl
  | ok u =>
    cases backfill s₁.groups s₁.phaseConf with
    | error e => exact rfl
    | ok g =>
      cases backfill s₁.rails s₁.phaseConf with
      | error e => exact rfl
      | ok r => exact ⟨rfl, rfl, rfl, rfl, rfl, hn⟩

theorem reserved_transfer {s₁ s₂ : SysDesc α} (he : SysEquiv s₂ s₁)
    (hres : ∀ n ∈ s₁.nodes, n.comp.kind = .source ∨ n.comp.kind = .pmux → n.name ≠ "system") :
    ∀ n ∈ s₂.nodes, n.comp.kind = .source ∨ n.comp.kind = .pmux → n.name ≠ "system" := by
  intro n' hn' hk
  obtain ⟨n, hn, hr⟩ := he.exists_node hn'
  have : n'.name = n.name := hr.1.name
  rw [this]
  exact hres n hn (by rw [← hr.1.kind]; exact hk)

/-- **save() as a function of the final structure, full strength.**  Two well-formed descriptions with the same final
    structure, each saved in whatever topological order rustworkx picks: loading the two documents gives equivalent
    systems, or raises the same exception in both cases. -/
theorem save_same_structure (ver : String) {topo₁ topo₂ : List String} {s₁ s₂ : SysDesc α}
    (h₁ : DescWF topo₁ s₁) (h₂ : DescWF topo₂ s₂) (he : SysEquiv s₂ s₁) :
    ResEquiv (fromFile ver (save ver topo₂ s₂)) (fromFile ver (save ver topo₁ s₁)) := by
  by_cases hres : ∀ n ∈ s₁.nodes, n.comp.kind = .source ∨ n.comp.kind = .pmux → n.name ≠ "system"
  · rw [fromFile_save_wf ver h₁ hres, fromFile_save_wf ver h₂ (reserved_transfer he hres)]
    apply reloadRes_resEquiv ver he
    exact (((reloadedDesc_equiv_wf h₂).trans he).trans (reloadedDesc_equiv_wf h₁).symm).nodes
  · push Not at hres
    obtain ⟨n, hn, hk, hname⟩ := hres
    obtain ⟨n', hn', hr⟩ := he.symm.exists_node hn
    have e : n.name = n'.name := hr.1.name
    rw [fromFile_save_wf_reserved ver h₁ hn hk hname,
      fromFile_save_wf_reserved ver h₂ hn' (by rw [← hr.1.kind]; exact hk) (by rw [← e]; exact hname)]
    exact rfl

/-- the shape of a successful load -/
theorem ok_shape (ver : String) {topo : List String} {s r : SysDesc α} (h : DescWF topo s)
    (hr : fromFile ver (save ver topo s) = .ok r) :
    r.nodes = (flatLayout (layoutOf topo s)).map rl ∧
      SysEquiv r { s with groups := r.groups, rails := r.rails } := by
  by_cases hres : ∀ n ∈ s.nodes, n.comp.kind = .source ∨ n.comp.kind = .pmux → n.name ≠ "system"
  · rw [fromFile_save_wf ver h hres] at hr
    unfold reloadRes at hr
    cases hvg : versionGate ver (.str ver : PV α) with
    | error e => rw [hvg] at hr; cases hr
    | ok u =>
      cases hg : backfill s.groups s.phaseConf with
      | error e => rw [hvg, hg] at hr; cases hr
      | ok g =>
        cases hrl : backfill s.rails s.phaseConf with
        | error e => rw [hvg, hg, hrl] at hr; cases hr
        | ok rr =>
          rw [hvg, hg, hrl] at hr
          cases hr
          exact ⟨rfl, rfl, rfl, rfl, rfl, rfl, (reloadedDesc_equiv_wf h).nodes⟩
  · push Not at hres
    obtain ⟨n, hn, hk, hname⟩ := hres
    rw [fromFile_save_wf_reserved ver h hn hk hname] at hr
    cases hr

/-- **the form asked for**: under the hypotheses of `roundtrip_wf_partial` (stated on `s₁`; they travel along
    `SysEquiv`) both documents load, to equivalent systems, each equivalent to its original -/
theorem save_same_structure_partial (ver : String) {topo₁ topo₂ : List String} {s₁ s₂ : SysDesc α}
    (h₁ : DescWF topo₁ s₁) (h₂ : DescWF topo₂ s₂) (he : SysEquiv s₂ s₁)
    (hv : (parseVer ver).isSome = true) (hg : s₁.groups ≠ .dict []) (hr : s₁.rails ≠ .dict [])
    (hres : ∀ n ∈ s₁.nodes, n.comp.kind = .source ∨ n.comp.kind = .pmux → n.name ≠ "system") :
    ∃ r₁ r₂, fromFile ver (save ver topo₁ s₁) = .ok r₁ ∧ fromFile ver (save ver topo₂ s₂) = .ok r₂ ∧
      SysEquiv r₂ r₁ ∧ SysEquiv r₁ s₁ ∧ SysEquiv r₂ s₂ := by
  obtain ⟨r₁, hr₁, he₁⟩ := roundtrip_wf_partial ver topo₁ s₁ h₁ hv hg hr hres
  obtain ⟨r₂, hr₂, he₂⟩ := roundtrip_wf_partial ver topo₂ s₂ h₂ hv (by rw [he.groups]; exact hg)
    (by rw [he.rails]; exact hr) (reserved_transfer he hres)
  exact ⟨r₁, r₂, hr₁, hr₂, (he₂.trans he).trans he₁.symm, he₁, he₂⟩

/-! ### 3. the two reloaded systems solve alike -/

theorem solveWF_regs {s : SysDesc α} (hw : SolveWF s) (g r : PV α) : SolveWF { s with groups := g, rails := r } :=
  ⟨hw.nodup, hw.parentsExist, hw.roots⟩

theorem topoOK_regs {tp : List String} {s : SysDesc α} (ht : TopoOK tp s) (g r : PV α) :
    TopoOK tp { s with groups := g, rails := r } :=
  ⟨ht.nodup, ht.mem, ht.order⟩

/-- both sides are reloaded, so their interpolators agree without any assumption on the diagonal annotation -/
theorem reloaded_interpAgree {topo₁ topo₂ : List String} {s₁ s₂ r₁ r₂ : SysDesc α}
    (h₁ : DescWF topo₁ s₁) (h₂ : DescWF topo₂ s₂) (he : ∀ a' ∈ s₂.nodes, ∃ b ∈ s₁.nodes, NodeEquiv a' b)
    (e₁ : r₁.nodes = (flatLayout (layoutOf topo₁ s₁)).map rl)
    (e₂ : r₂.nodes = (flatLayout (layoutOf topo₂ s₂)).map rl) : InterpAgree r₂ r₁ := by
  intro n' hn' n hn hname x y
  rw [e₂] at hn'
  rw [e₁] at hn
  obtain ⟨a', ha', rfl⟩ := List.mem_map.mp hn'
  obtain ⟨a, ha, rfl⟩ := List.mem_map.mp hn
  have ha1 : a ∈ s₁.nodes := (layout_of_wf h₁).2.1.mem_iff.mp ha
  have ha2 : a' ∈ s₂.nodes := (layout_of_wf h₂).2.1.mem_iff.mp ha'
  obtain ⟨b, hb, hr⟩ := he a' ha2
  have hname' : a'.name = a.name := hname
  have hb' : b.name = a.name := by
    have : a'.name = b.name := hr.1.name
    rw [← this]; exact hname'
  have : b = a := h₁.ext hb ha1 hb'
  subst this
  show a'.comp.par.dropDiag.interp x y = b.comp.par.dropDiag.interp x y
  rw [dropDiag_eq_of_sameData hr.1.par]

/-- **any two successful loads solve to the same table up to row order, and raise together.**  `tp₁`, `tp₂`: the
    orders in which rustworkx processes the two reloaded systems (parameters).  Partial through `0 ≤ cfg.atol` only. -/
theorem reloads_same_table_partial (ver : String) {topo₁ topo₂ : List String} {s₁ s₂ : SysDesc α}
    (h₁ : DescWF topo₁ s₁) (h₂ : DescWF topo₂ s₂) (he : SysEquiv s₂ s₁) {r₁ r₂ : SysDesc α}
    (hr₁ : fromFile ver (save ver topo₁ s₁) = .ok r₁) (hr₂ : fromFile ver (save ver topo₂ s₂) = .ok r₂)
    {tp₁ tp₂ : List String} (ht₁ : TopoOK tp₁ s₁) (ht₂ : TopoOK tp₂ s₂)
    (cfg : Cfg α) (hatol : 0 ≤ cfg.atol) (pa : String) (ta : α) :
    SysEquiv r₂ r₁ ∧
    (∀ T, (r₁.toSSys tp₁).solve cfg pa ta = .ok T →
      ∃ T', (r₂.toSSys tp₂).solve cfg pa ta = .ok T' ∧
        List.Forall₂ (fun p p' => p'.1 = p.1 ∧ PTRel p.2 p'.2) T.phases T'.phases ∧ T'.avg = T.avg) ∧
    (∀ e, (r₁.toSSys tp₁).solve cfg pa ta = .error e →
      ∃ e', (r₂.toSSys tp₂).solve cfg pa ta = .error e' ∧
        ((r₂.toSSys tp₂).topo = (r₁.toSSys tp₁).topo.map (renum r₁ r₂) → e' = e)) := by
  have hE : SysEquiv r₂ r₁ := by
    have := save_same_structure ver h₁ h₂ he
    rw [hr₁, hr₂] at this
    exact this
  obtain ⟨e₁, q₁⟩ := ok_shape ver h₁ hr₁
  obtain ⟨e₂, _⟩ := ok_shape ver h₂ hr₂
  have hw : SolveWF r₁ := q₁.solveWF (solveWF_regs h₁.solveWF _ _)
  have hia := reloaded_interpAgree h₁ h₂ (fun _ h => he.exists_node h) e₁ e₂
  have t₁ : TopoOK tp₁ r₁ := q₁.topoOK (topoOK_regs ht₁ _ _)
  have t₂ : TopoOK tp₂ r₁ := q₁.topoOK (topoOK_regs (he.symm.topoOK ht₂) _ _)
  exact ⟨hE, fun T hT => sysEquiv_same_table_partial hE hw hia t₁ t₂ cfg hatol pa ta T hT,
    fun e hErr => sysEquiv_same_error_partial hE hw hia t₁ t₂ cfg hatol pa ta e hErr⟩

/-- … and to the same rail report, when the rail names of the first reloaded system are unique -/
theorem reloads_same_rail_rep_partial (ver : String) {topo₁ topo₂ : List String} {s₁ s₂ : SysDesc α}
    (h₁ : DescWF topo₁ s₁) (h₂ : DescWF topo₂ s₂) (he : SysEquiv s₂ s₁) {r₁ r₂ : SysDesc α}
    (hr₁ : fromFile ver (save ver topo₁ s₁) = .ok r₁) (hr₂ : fromFile ver (save ver topo₂ s₂) = .ok r₂)
    (hu : DescRailsUnique r₁)
    {tp₁ tp₂ : List String} (ht₁ : TopoOK tp₁ s₁) (ht₂ : TopoOK tp₂ s₂)
    (cfg : Cfg α) (hatol : 0 ≤ cfg.atol) (pa : String) (ta : α) (T : Table α)
    (hT : (r₁.toSSys tp₁).solve cfg pa ta = .ok T) :
    ∃ T', (r₂.toSSys tp₂).solve cfg pa ta = .ok T' ∧ RailPerm (railRep T) (railRep T') := by
  have hE : SysEquiv r₂ r₁ := by
    have := save_same_structure ver h₁ h₂ he
    rw [hr₁, hr₂] at this
    exact this
  obtain ⟨e₁, q₁⟩ := ok_shape ver h₁ hr₁
  obtain ⟨e₂, _⟩ := ok_shape ver h₂ hr₂
  have hw : SolveWF r₁ := q₁.solveWF (solveWF_regs h₁.solveWF _ _)
  have hia := reloaded_interpAgree h₁ h₂ (fun _ h => he.exists_node h) e₁ e₂
  have t₁ : TopoOK tp₁ r₁ := q₁.topoOK (topoOK_regs ht₁ _ _)
  have t₂ : TopoOK tp₂ r₁ := q₁.topoOK (topoOK_regs (he.symm.topoOK ht₂) _ _)
  exact sysEquiv_same_rail_rep_partial hE hw hia hu t₁ t₂ cfg hatol pa ta T hT

/-- rail names stay unique along `SysEquiv` -/
theorem DescRailsUnique.of_sysEquiv {s' s : SysDesc α} (he : SysEquiv s' s) (hu : DescRailsUnique s) :
    DescRailsUnique s' := by
  intro n' hn' m' hm' e hne
  obtain ⟨n, hn, hr⟩ := he.exists_node hn'
  obtain ⟨m, hm, hr'⟩ := he.exists_node hm'
  have e1 : n'.name = n.name := hr.1.name
  have e2 : m'.name = m.name := hr'.1.name
  rw [he.rails, e1, e2] at e
  rw [he.rails, e1] at hne
  rw [e1, e2]
  exact hu n hn m hm e hne

/-- **same final structure ⇒ the two saved documents reload to systems with the same `solve()` table** (up to row
    order; equal "System total" and "System average" rows), raising together -/
theorem save_same_structure_same_table_partial (ver : String) {topo₁ topo₂ : List String} {s₁ s₂ : SysDesc α}
    (h₁ : DescWF topo₁ s₁) (h₂ : DescWF topo₂ s₂) (he : SysEquiv s₂ s₁)
    (hv : (parseVer ver).isSome = true) (hg : s₁.groups ≠ .dict []) (hr : s₁.rails ≠ .dict [])
    (hres : ∀ n ∈ s₁.nodes, n.comp.kind = .source ∨ n.comp.kind = .pmux → n.name ≠ "system")
    {tp₁ tp₂ : List String} (ht₁ : TopoOK tp₁ s₁) (ht₂ : TopoOK tp₂ s₂)
    (cfg : Cfg α) (hatol : 0 ≤ cfg.atol) (pa : String) (ta : α) :
    ∃ r₁ r₂, fromFile ver (save ver topo₁ s₁) = .ok r₁ ∧ fromFile ver (save ver topo₂ s₂) = .ok r₂ ∧
      SysEquiv r₂ r₁ ∧
      (∀ T, (r₁.toSSys tp₁).solve cfg pa ta = .ok T →
        ∃ T', (r₂.toSSys tp₂).solve cfg pa ta = .ok T' ∧
          List.Forall₂ (fun p p' => p'.1 = p.1 ∧ PTRel p.2 p'.2) T.phases T'.phases ∧ T'.avg = T.avg) ∧
      (∀ e, (r₁.toSSys tp₁).solve cfg pa ta = .error e →
        ∃ e', (r₂.toSSys tp₂).solve cfg pa ta = .error e' ∧
          ((r₂.toSSys tp₂).topo = (r₁.toSSys tp₁).topo.map (renum r₁ r₂) → e' = e)) := by
  obtain ⟨r₁, r₂, hr₁, hr₂, _, _, _⟩ := save_same_structure_partial ver h₁ h₂ he hv hg hr hres
  exact ⟨r₁, r₂, hr₁, hr₂, reloads_same_table_partial ver h₁ h₂ he hr₁ hr₂ ht₁ ht₂ cfg hatol pa ta⟩

/-- **… and the same `rail_rep()`** up to the order of the rows and of the warning texts inside a row -/
theorem save_same_structure_same_rail_rep_partial (ver : String) {topo₁ topo₂ : List String} {s₁ s₂ : SysDesc α}
    (h₁ : DescWF topo₁ s₁) (h₂ : DescWF topo₂ s₂) (he : SysEquiv s₂ s₁)
    (hv : (parseVer ver).isSome = true) (hg : s₁.groups ≠ .dict []) (hr : s₁.rails ≠ .dict [])
    (hres : ∀ n ∈ s₁.nodes, n.comp.kind = .source ∨ n.comp.kind = .pmux → n.name ≠ "system")
    (hu : DescRailsUnique s₁)
    {tp₁ tp₂ : List String} (ht₁ : TopoOK tp₁ s₁) (ht₂ : TopoOK tp₂ s₂)
    (cfg : Cfg α) (hatol : 0 ≤ cfg.atol) (pa : String) (ta : α) :
    ∃ r₁ r₂, fromFile ver (save ver topo₁ s₁) = .ok r₁ ∧ fromFile ver (save ver topo₂ s₂) = .ok r₂ ∧
      ∀ T, (r₁.toSSys tp₁).solve cfg pa ta = .ok T →
        ∃ T', (r₂.toSSys tp₂).solve cfg pa ta = .ok T' ∧ RailPerm (railRep T) (railRep T') := by
  obtain ⟨r₁, r₂, hr₁, hr₂, _, q₁, _⟩ := save_same_structure_partial ver h₁ h₂ he hv hg hr hres
  refine ⟨r₁, r₂, hr₁, hr₂, fun T hT => ?_⟩
  exact reloads_same_rail_rep_partial ver h₁ h₂ he hr₁ hr₂ (DescRailsUnique.of_sysEquiv q₁ hu) ht₁ ht₂ cfg hatol
    pa ta T hT

/-! ### 4. one description, two topological orders -/

/-- what the two loads of ONE description have in common: the same exception, or results whose node lists are
    permutations of each other (EQUAL components) with all other fields equal -/
def SameUpToOrder : Except Err (SysDesc α) → Except Err (SysDesc α) → Prop
  | .ok r₂, .ok r₁ => SysEquiv r₂ r₁ ∧ r₂.nodes.Perm r₁.nodes ∧ r₂.name = r₁.name ∧ r₂.phases = r₁.phases ∧
      r₂.phaseConf = r₁.phaseConf ∧ r₂.groups = r₁.groups ∧ r₂.rails = r₁.rails
  | .error e₂, .error e₁ => e₂ = e₁
  | _, _ => False

/-- **the topological order rustworkx picks is irrelevant** (full strength): for one well-formed description and two
    valid orders the two documents reload to the same system up to the order of the node list — or `from_file`
    raises the same exception on both -/
theorem save_topo_irrelevant (ver : String) {topo₁ topo₂ : List String} {s : SysDesc α}
    (h₁ : DescWF topo₁ s) (h₂ : DescWF topo₂ s) :
    SameUpToOrder (fromFile ver (save ver topo₂ s)) (fromFile ver (save ver topo₁ s)) := by
  by_cases hres : ∀ n ∈ s.nodes, n.comp.kind = .source ∨ n.comp.kind = .pmux → n.name ≠ "system"
  · rw [fromFile_save_wf ver h₁ hres, fromFile_save_wf ver h₂ hres]
    have hp : ((flatLayout (layoutOf topo₂ s)).map rl).Perm ((flatLayout (layoutOf topo₁ s)).map rl) :=
      ((layout_of_wf h₂).2.1.trans (layout_of_wf h₁).2.1.symm).map rl
    unfold reloadRes
    cases versionGate ver (.str ver : PV α) with
    | error e => exact rfl
    | ok u =>
      cases backfill s.groups s.phaseConf with
      | error e => exact rfl
      | ok g =>
        cases backfill s.rails s.phaseConf with
        | error e => exact rfl
        | ok r =>
          refine ⟨⟨rfl, rfl, rfl, rfl, rfl, ?_⟩, hp, rfl, rfl, rfl, rfl, rfl⟩
          exact (((reloadedDesc_equiv_wf h₂).trans (SysEquiv.refl s)).trans (reloadedDesc_equiv_wf h₁).symm).nodes
  · push Not at hres
    obtain ⟨n, hn, hk, hname⟩ := hres
    rw [fromFile_save_wf_reserved ver h₁ hn hk hname, fromFile_save_wf_reserved ver h₂ hn hk hname]
    exact rfl

/-- the existence form: under the hypotheses of `roundtrip_wf_partial` both loads succeed -/
theorem save_topo_irrelevant_partial (ver : String) {topo₁ topo₂ : List String} {s : SysDesc α}
    (h₁ : DescWF topo₁ s) (h₂ : DescWF topo₂ s)
    (hv : (parseVer ver).isSome = true) (hg : s.groups ≠ .dict []) (hr : s.rails ≠ .dict [])
    (hres : ∀ n ∈ s.nodes, n.comp.kind = .source ∨ n.comp.kind = .pmux → n.name ≠ "system") :
    ∃ r₁ r₂, fromFile ver (save ver topo₁ s) = .ok r₁ ∧ fromFile ver (save ver topo₂ s) = .ok r₂ ∧
      SysEquiv r₂ r₁ ∧ r₂.nodes.Perm r₁.nodes ∧ SysEquiv r₁ s := by
  obtain ⟨r₁, hr₁, he₁⟩ := roundtrip_wf_partial ver topo₁ s h₁ hv hg hr hres
  obtain ⟨r₂, hr₂, _⟩ := roundtrip_wf_partial ver topo₂ s h₂ hv hg hr hres
  have := save_topo_irrelevant ver h₁ h₂
  rw [hr₁, hr₂] at this
  exact ⟨r₁, r₂, hr₁, hr₂, this.1, this.2.1, he₁⟩

/-! ### 5. registries that are equal as Python dicts (other key order)

  `SysEquiv` compares `phase_conf` / `groups` / `rails` as ordered dicts.  Two edit histories that insert the same
  components in different orders leave registries with the same entries in ANOTHER key order — equal as Python dicts.
  `SysEquivR` is `SysEquiv` up to that; the saved documents then differ in the key order of those three blocks too,
  and still reload to `SysEquivR` systems with the same table (the solver reads the registries by key only). -/

/-- equal as Python dicts: the same value, or dicts with distinct keys and the same entries in another order -/
inductive RegEquiv : PV α → PV α → Prop
  | same (a : PV α) : RegEquiv a a
  | dict (d d' : List (String × PV α)) : d.Perm d' → (d.map (·.1)).Nodup → RegEquiv (.dict d) (.dict d')

theorem RegEquiv.symm {a b : PV α} (h : RegEquiv a b) : RegEquiv b a := by
  cases h with
  | same => exact .same _
  | dict d d' hp hn => exact .dict d' d hp.symm ((hp.map _).nodup_iff.mp hn)

theorem RegEquiv.trans {a b c : PV α} (h1 : RegEquiv a b) (h2 : RegEquiv b c) : RegEquiv a c := by
  cases h1 with
  | same => exact h2
  | dict d d' hp hn =>
    generalize hb : PV.dict d' = b' at h2
    cases h2 with
    | same => subst hb; exact .dict d d' hp hn
    | dict e e' hp' hn' =>
      cases hb
      exact .dict d e' (hp.trans hp') hn

theorem lookup_perm {β : Type} {l₁ l₂ : List (String × β)} (hp : l₁.Perm l₂) (hn : (l₁.map (·.1)).Nodup)
    (k : String) : l₁.lookup k = l₂.lookup k := by
  induction hp with
  | nil => rfl
  | cons x _ ih =>
    obtain ⟨a, b⟩ := x
    simp only [List.map_cons, List.nodup_cons] at hn
    simp only [List.lookup]
    cases (k == a) <;> simp [ih hn.2]
  | swap x y l =>
    obtain ⟨a, b⟩ := x
    obtain ⟨a', b'⟩ := y
    simp only [List.map_cons, List.nodup_cons, List.mem_cons, not_or] at hn
    have hne : a' ≠ a := hn.1.1
    simp only [List.lookup]
    by_cases h1 : k = a
    · subst h1
      have : (k == a') = false := by simpa using (Ne.symm hne)
      simp [this]
    · have : (k == a) = false := by simpa using h1
      simp [this]
  | trans h12 _ ih1 ih2 =>
    rw [ih1 hn, ih2 ((h12.map _).nodup_iff.mp hn)]

/-- registries equal as Python dicts answer every key alike -/
theorem RegEquiv.get?_eq {a b : PV α} (h : RegEquiv a b) (k : String) : a.get? k = b.get? k := by
  cases h with
  | same => rfl
  | dict d d' hp hn => exact lookup_perm hp hn k

theorem RegEquiv.ne_empty {a b : PV α} (h : RegEquiv a b) (hb : b ≠ .dict []) : a ≠ .dict [] := by
  intro e
  subst e
  generalize ha : (PV.dict [] : PV α) = a' at h
  cases h with
  | same => exact hb ha.symm
  | dict d d' hp hn =>
    cases ha
    exact hb (by rw [hp.symm.eq_nil])

/-- the same final structure, registries compared as Python dicts -/
structure SysEquivR (s' s : SysDesc α) : Prop where
  name : s'.name = s.name
  phases : s'.phases = s.phases
  phaseConf : RegEquiv s'.phaseConf s.phaseConf
  groups : RegEquiv s'.groups s.groups
  rails : RegEquiv s'.rails s.rails
  nodes : ∃ l, l.Perm s.nodes ∧ List.Forall₂ NodeEquiv s'.nodes l

theorem SysEquiv.toR {s' s : SysDesc α} (h : SysEquiv s' s) : SysEquivR s' s :=
  ⟨h.name, h.phases, h.phaseConf ▸ .same _, h.groups ▸ .same _, h.rails ▸ .same _, h.nodes⟩

/-- forget the key order: the left description with the registries of the right one is `SysEquiv` to it -/
theorem SysEquivR.normalize {s' s : SysDesc α} (h : SysEquivR s' s) :
    SysEquiv { s' with phaseConf := s.phaseConf, groups := s.groups, rails := s.rails } s :=
  ⟨h.name, h.phases, rfl, rfl, rfl, h.nodes⟩

theorem SysEquivR.refl (s : SysDesc α) : SysEquivR s s := (SysEquiv.refl s).toR

theorem SysEquivR.symm {s' s : SysDesc α} (h : SysEquivR s' s) : SysEquivR s s' := by
  have hn := (SysEquiv.symm (s' := { s' with phaseConf := s.phaseConf, groups := s.groups, rails := s.rails })
    (s := s) h.normalize).nodes
  exact ⟨h.name.symm, h.phases.symm, h.phaseConf.symm, h.groups.symm, h.rails.symm, hn⟩

theorem SysEquivR.trans {a b c : SysDesc α} (h1 : SysEquivR a b) (h2 : SysEquivR b c) : SysEquivR a c := by
  have e1 : SysEquiv { a with phaseConf := c.phaseConf, groups := c.groups, rails := c.rails }
      { b with phaseConf := c.phaseConf, groups := c.groups, rails := c.rails } :=
    ⟨h1.name, h1.phases, rfl, rfl, rfl, h1.nodes⟩
  have hn := (e1.trans h2.normalize).nodes
  exact ⟨h1.name.trans h2.name, h1.phases.trans h2.phases, h1.phaseConf.trans h2.phaseConf,
    h1.groups.trans h2.groups, h1.rails.trans h2.rails, hn⟩

theorem sysEquivR_equivalence : Equivalence (SysEquivR (α := α)) :=
  ⟨SysEquivR.refl, SysEquivR.symm, SysEquivR.trans⟩

/-- the solver's view of a description reads the three registries by key only -/
theorem toSSys_congr_regs (s : SysDesc α) (pc g r : PV α) (hpc : ∀ k, pc.get? k = s.phaseConf.get? k)
    (hg : ∀ k, g.get? k = s.groups.get? k) (hr : ∀ k, r.get? k = s.rails.get? k) (topo : List String) :
    ({ s with phaseConf := pc, groups := g, rails := r } : SysDesc α).toSSys topo = s.toSSys topo := by
  have hs : ∀ n, ({ s with phaseConf := pc, groups := g, rails := r } : SysDesc α).snode n = s.snode n := by
    intro n
    simp only [SysDesc.snode, SysDesc.pconfOf, regStr, hpc, hg, hr]
    rfl
  unfold SysDesc.toSSys
  simp only [hs]
  rfl

/-- **descriptions equal up to node order, `CompEquiv` and the key order of the registries solve to the same table**
    (`sysEquiv_same_table_partial` of Props/C12Solve, generalised; same hypotheses) -/
theorem sysEquivR_same_table_partial {s' s : SysDesc α} (he : SysEquivR s' s) (hw : SolveWF s)
    (hia : InterpAgree s' s) {topo topo' : List String} (ht : TopoOK topo s) (ht' : TopoOK topo' s)
    (cfg : Cfg α) (hatol : 0 ≤ cfg.atol) (pa : String) (ta : α) (T : Table α)
    (hT : (s.toSSys topo).solve cfg pa ta = .ok T) :
    ∃ T', (s'.toSSys topo').solve cfg pa ta = .ok T' ∧
      List.Forall₂ (fun p p' => p'.1 = p.1 ∧ PTRel p.2 p'.2) T.phases T'.phases ∧ T'.avg = T.avg := by
  have := sysEquiv_same_table_partial he.normalize hw (fun n' hn' => hia n' hn') ht ht' cfg hatol pa ta T hT
  rw [show ({ s' with phaseConf := s.phaseConf, groups := s.groups, rails := s.rails } : SysDesc α).toSSys topo' =
      s'.toSSys topo' from
    toSSys_congr_regs s' _ _ _ (fun k => (he.phaseConf.get?_eq k).symm) (fun k => (he.groups.get?_eq k).symm)
      (fun k => (he.rails.get?_eq k).symm) topo'] at this
  exact this

/-- … and give the same rail report -/
theorem sysEquivR_same_rail_rep_partial {s' s : SysDesc α} (he : SysEquivR s' s) (hw : SolveWF s)
    (hia : InterpAgree s' s) (hu : DescRailsUnique s) {topo topo' : List String} (ht : TopoOK topo s)
    (ht' : TopoOK topo' s) (cfg : Cfg α) (hatol : 0 ≤ cfg.atol) (pa : String) (ta : α) (T : Table α)
    (hT : (s.toSSys topo).solve cfg pa ta = .ok T) :
    ∃ T', (s'.toSSys topo').solve cfg pa ta = .ok T' ∧ RailPerm (railRep T) (railRep T') := by
  have := sysEquiv_same_rail_rep_partial he.normalize hw (fun n' hn' => hia n' hn') hu ht ht' cfg hatol pa ta T hT
  rw [show ({ s' with phaseConf := s.phaseConf, groups := s.groups, rails := s.rails } : SysDesc α).toSSys topo' =
      s'.toSSys topo' from
    toSSys_congr_regs s' _ _ _ (fun k => (he.phaseConf.get?_eq k).symm) (fun k => (he.groups.get?_eq k).symm)
      (fun k => (he.rails.get?_eq k).symm) topo'] at this
  exact this

theorem SysEquivR.exists_node {s' s : SysDesc α} (he : SysEquivR s' s) {n' : Node α} (hn' : n' ∈ s'.nodes) :
    ∃ n ∈ s.nodes, NodeEquiv n' n := he.normalize.exists_node hn'

/-- **save() as a function of the final structure, registries compared as Python dicts.**  Hypotheses of
    `roundtrip_wf_partial` on `s₁` (they travel along `SysEquivR`): both documents load, the results are `SysEquivR`,
    and — processed in whatever orders `tp₁`, `tp₂` — they solve to the same table up to row order. -/
theorem save_same_structure_reg_partial (ver : String) {topo₁ topo₂ : List String} {s₁ s₂ : SysDesc α}
    (h₁ : DescWF topo₁ s₁) (h₂ : DescWF topo₂ s₂) (he : SysEquivR s₂ s₁)
    (hv : (parseVer ver).isSome = true) (hg : s₁.groups ≠ .dict []) (hr : s₁.rails ≠ .dict [])
    (hres : ∀ n ∈ s₁.nodes, n.comp.kind = .source ∨ n.comp.kind = .pmux → n.name ≠ "system")
    {tp₁ tp₂ : List String} (ht₁ : TopoOK tp₁ s₁) (ht₂ : TopoOK tp₂ s₂)
    (cfg : Cfg α) (hatol : 0 ≤ cfg.atol) (pa : String) (ta : α) :
    ∃ r₁ r₂, fromFile ver (save ver topo₁ s₁) = .ok r₁ ∧ fromFile ver (save ver topo₂ s₂) = .ok r₂ ∧
      SysEquivR r₂ r₁ ∧
      (∀ T, (r₁.toSSys tp₁).solve cfg pa ta = .ok T →
        ∃ T', (r₂.toSSys tp₂).solve cfg pa ta = .ok T' ∧
          List.Forall₂ (fun p p' => p'.1 = p.1 ∧ PTRel p.2 p'.2) T.phases T'.phases ∧ T'.avg = T.avg) ∧
      (DescRailsUnique s₁ → ∀ T, (r₁.toSSys tp₁).solve cfg pa ta = .ok T →
        ∃ T', (r₂.toSSys tp₂).solve cfg pa ta = .ok T' ∧ RailPerm (railRep T) (railRep T')) := by
  have hres₂ : ∀ n ∈ s₂.nodes, n.comp.kind = .source ∨ n.comp.kind = .pmux → n.name ≠ "system" :=
    fun n hn hk => reserved_transfer he.normalize hres n hn hk
  obtain ⟨r₁, hr₁, q₁⟩ := roundtrip_wf_partial ver topo₁ s₁ h₁ hv hg hr hres
  obtain ⟨r₂, hr₂, q₂⟩ := roundtrip_wf_partial ver topo₂ s₂ h₂ hv (he.groups.ne_empty hg) (he.rails.ne_empty hr) hres₂
  have hE : SysEquivR r₂ r₁ := (q₂.toR.trans he).trans q₁.toR.symm
  obtain ⟨e₁, _⟩ := ok_shape ver h₁ hr₁
  obtain ⟨e₂, _⟩ := ok_shape ver h₂ hr₂
  have hw : SolveWF r₁ := q₁.solveWF h₁.solveWF
  have hia : InterpAgree r₂ r₁ := reloaded_interpAgree h₁ h₂ (fun _ h => he.exists_node h) e₁ e₂
  have t₁ : TopoOK tp₁ r₁ := q₁.topoOK ht₁
  have t₂' := he.symm.normalize.topoOK ht₂
  have t₂ : TopoOK tp₂ r₁ := q₁.topoOK ⟨t₂'.nodup, t₂'.mem, t₂'.order⟩
  refine ⟨r₁, r₂, hr₁, hr₂, hE, ?_, ?_⟩
  · intro T hT
    exact sysEquivR_same_table_partial hE hw hia t₁ t₂ cfg hatol pa ta T hT
  · intro hu T hT
    exact sysEquivR_same_rail_rep_partial hE hw hia (DescRailsUnique.of_sysEquiv q₁ hu) t₁ t₂ cfg hatol pa ta T hT

/-! ### 6. non-vacuity -/

/-- `eSys` in its second topological order -/
theorem eSys_wf' : DescWF eTopo' eSys := eSys_wf.retopo eTopo'_ok

/-- a Source that was given a limit on a key that does not apply to it (finding F29; dropped by `save`) -/
def eSrcVi (n : String) : Comp ℚ :=
  { name := n, kind := Kind.source, vo := 5, par := Param.const 0, limits := [("vi", (1, 2))],
    params := [("name", PV.str n), ("vo", PV.float 5), ("rs", PV.float 0), ("rt", PV.float 0)] }

theorem eSrcVi_built (n : String) : Built (eSrcVi n) :=
  ⟨[("vo", .float 5), ("limits", .dict [("vi", .list [.float 1, .float 2])])], by
    simp [mkComp, req, arg, List.lookup, absArg, numArg, PV.num?, checkLimits, allLimitKeys, List.foldlM, eSrcVi,
      bind, Except.bind, pure, Except.pure]⟩

theorem eSrcVi_equiv (n : String) : CompEquiv (eSrcVi n) (wSrc n) where
  name := rfl
  kind := rfl
  vo := rfl
  rs := rfl
  rsList := rfl
  par := Param.sameData_refl _
  vdrop := rfl
  iq := rfl
  iis := rfl
  rt := rfl
  pwr := rfl
  pwrs := rfl
  ii := rfl
  loss := rfl
  diode := rfl
  params := rfl
  limits := by
    intro key hk
    simp only [wSrc, Kind.limitKeys, List.mem_cons, List.not_mem_nil, or_false] at hk
    rcases hk with rfl | rfl | rfl <;> rfl

/-- the components of `eSys` by position -/
def eNode (i : Nat) : Node ℚ := eSys.nodes.getD i ⟨wSrc "", []⟩
/-- … and with the Source `S2` (position 2) carrying the extra limit -/
def ePNode (i : Nat) : Node ℚ := if i = 2 then ⟨eSrcVi "S2", []⟩ else eNode i

/-- another insertion order of the same graph: `S2, B, S1, A, M, LM, C, LC, L1, LA` (parents first) -/
def ePermIdx : List Nat := [2, 3, 0, 1, 4, 7, 5, 6, 9, 8]

/-- a permuted copy of `eSys`: the same structure built in another order (so `LM` is an OLDER child of `M` than `C`
    here, and `L1`/`LA` come last), and `S2` is equivalent but not equal to the `S2` of `eSys` -/
def ePerm : SysDesc ℚ := { eSys with nodes := ePermIdx.map ePNode }

theorem ePerm_equiv : SysEquiv ePerm eSys := by
  refine ⟨rfl, rfl, rfl, rfl, rfl, ePermIdx.map eNode, ?_, ?_⟩
  · have h1 : eSys.nodes = (List.range 10).map eNode := rfl
    rw [h1]
    exact (by decide : ePermIdx.Perm (List.range 10)).map eNode
  · show List.Forall₂ NodeEquiv (ePermIdx.map ePNode) (ePermIdx.map eNode)
    rw [List.forall₂_map_left_iff, List.forall₂_map_right_iff]
    refine List.forall₂_same.mpr fun i _ => ?_
    by_cases hi : i = 2
    · subst hi
      exact ⟨eSrcVi_equiv "S2", rfl⟩
    · simp only [ePNode, hi, if_false]
      exact NodeEquiv.refl _

theorem ePerm_wf : DescWF eTopo' ePerm := by
  refine eSys_wf'.of_sysEquiv ePerm_equiv ?_
  intro n hn
  simp only [ePerm, ePermIdx, List.map_cons, List.map_nil, List.mem_cons, List.not_mem_nil, or_false] at hn
  rcases hn with rfl | rfl | rfl | rfl | rfl | rfl | rfl | rfl | rfl | rfl
  · exact eSrcVi_built _
  · exact eLoss_built _
  · exact wSrc_built _
  · exact eLoss_built _
  · exact eMux_built _
  · exact eLoad_built _
  · exact eLoss_built _
  · exact eLoad_built _
  · exact eLoad_built _
  · exact eLoad_built _

/-- non-vacuity of `SysEquiv.symm` / `.trans` where the relation is not equality -/
example : SysEquiv eSys ePerm ∧ SysEquiv ePerm ePerm :=
  ⟨ePerm_equiv.symm, ePerm_equiv.trans ePerm_equiv.symm⟩

/-- … and the two descriptions are different: other node order, `S2` with another limits list -/
example : ePerm.names ≠ eSys.names ∧
    (ePerm.nodes.map fun n => (n.name, n.comp.limits.map (·.1))).head? = some ("S2", ["vi"]) := by
  refine ⟨by decide, by decide⟩

/-- non-vacuity of `save_same_structure_partial` (and of `save_same_structure`): `eSys` saved in the order `eTopo`,
    its permuted copy in the order `eTopo'` -/
example (ver : String) (hv : (parseVer ver).isSome = true) :
    ∃ r₁ r₂, fromFile ver (save ver eTopo eSys) = .ok r₁ ∧ fromFile ver (save ver eTopo' ePerm) = .ok r₂ ∧
      SysEquiv r₂ r₁ ∧ SysEquiv r₁ eSys ∧ SysEquiv r₂ ePerm :=
  save_same_structure_partial ver eSys_wf ePerm_wf ePerm_equiv hv (by simp [eSys, SysDesc.ofParts])
    (by simp [eSys, SysDesc.ofParts]) (by decide)

example (ver : String) :
    ResEquiv (fromFile ver (save ver eTopo' ePerm)) (fromFile ver (save ver eTopo eSys)) :=
  save_same_structure ver eSys_wf ePerm_wf ePerm_equiv

/-- the error branch of `save_same_structure` / `save_topo_irrelevant` is inhabited (finding F15) -/
example (ver : String) :
    fromFile ver (save ver ["system", "L"] (wSys "system")) =
      .error (.key "Parameter dict is missing entry for 'name'") :=
  fromFile_save_wf_reserved ver (wSys_wf "system" (by decide) (by decide)) (n := ⟨wSrc "system", []⟩)
    (by simp [wSys, SysDesc.ofParts]) (Or.inl rfl) rfl

/-- the two documents are NOT the same value: the Source blocks come in the other order, and the children of `M`
    are listed in the other order (sibling order = reverse insertion order) -/
example :
    (match save "1.0.0" eTopo eSys with | .dict d => d.map (·.1) | _ => []) = ["system", "S2", "S1", "M"] ∧
    (match save "1.0.0" eTopo' ePerm with | .dict d => d.map (·.1) | _ => []) = ["system", "S1", "S2", "M"] ∧
    ((layoutOf eTopo eSys).map fun b => (b.root.name, b.childs.map fun e => (e.1, e.2.map Node.name))) =
      [("S2", [("S2", ["B"]), ("B", []), ("M", []), ("C", [])]),
       ("S1", [("S1", ["L1", "A"]), ("A", ["LA"]), ("M", []), ("C", [])]),
       ("M", [("M", ["LM", "C"]), ("C", ["LC"])])] ∧
    ((layoutOf eTopo' ePerm).map fun b => (b.root.name, b.childs.map fun e => (e.1, e.2.map Node.name))) =
      [("S1", [("S1", ["L1", "A"]), ("A", ["LA"]), ("M", []), ("C", [])]),
       ("S2", [("S2", ["B"]), ("B", []), ("M", []), ("C", [])]),
       ("M", [("M", ["C", "LM"]), ("C", ["LC"])])] := by
  refine ⟨by decide +kernel, by decide +kernel, by decide +kernel, by decide +kernel⟩

theorem eSys_reload_solve_ok : ∃ T, ((reloadedDesc eTopo eSys).toSSys eTopo).solve exCfg "" 25 = .ok T := by
  cases hx : ((reloadedDesc eTopo eSys).toSSys eTopo).solve exCfg "" 25 with
  | ok T => exact ⟨T, rfl⟩
  | error e =>
    have : ((((reloadedDesc eTopo eSys).toSSys eTopo).solve exCfg "" 25).toOption.map
        (fun T => T.phases.length)).isSome = true := by decide +kernel
    rw [hx] at this; cases this

theorem eSysR_reload_solve_ok : ∃ T, ((reloadedDesc eTopo eSysR).toSSys eTopo).solve exCfg "" 25 = .ok T := by
  cases hx : ((reloadedDesc eTopo eSysR).toSSys eTopo).solve exCfg "" 25 with
  | ok T => exact ⟨T, rfl⟩
  | error e =>
    have : ((((reloadedDesc eTopo eSysR).toSSys eTopo).solve exCfg "" 25).toOption.map
        (fun T => T.phases.length)).isSome = true := by decide +kernel
    rw [hx] at this; cases this

/-- what `from_file` returns on the document of `eSys`, by name -/
theorem eSys_reload (ver : String) (hv : (parseVer ver).isSome = true) :
    fromFile ver (save ver eTopo eSys) = .ok (reloadedDesc eTopo eSys) := by
  have hsv := saveable_of_wf ver eTopo eSys eSys_wf hv (by simp [eSys, SysDesc.ofParts])
    (by simp [eSys, SysDesc.ofParts])
  exact roundtrip_explicit ver eTopo eSys hsv (no_reserved_root eSys_wf (by decide))

theorem eSysR_reload (ver : String) (hv : (parseVer ver).isSome = true) :
    fromFile ver (save ver eTopo eSysR) = .ok (reloadedDesc eTopo eSysR) := by
  have hsv := saveable_of_wf ver eTopo eSysR eSysR_wf hv (by simp [eSysR, SysDesc.ofParts])
    (by simp [eSysR, SysDesc.ofParts])
  exact roundtrip_explicit ver eTopo eSysR hsv (no_reserved_root eSysR_wf (by decide))

/-- non-vacuity of `save_same_structure_same_table_partial` (and of `reloads_same_table_partial`): the reload of
    `eSys` solves, so the reload of the permuted copy — saved and processed in OTHER orders — solves to the same rows -/
example (ver : String) (hv : (parseVer ver).isSome = true) :
    ∃ r₁ r₂ T T', fromFile ver (save ver eTopo eSys) = .ok r₁ ∧ fromFile ver (save ver eTopo' ePerm) = .ok r₂ ∧
      (r₁.toSSys eTopo).solve exCfg "" 25 = .ok T ∧ (r₂.toSSys eTopo').solve exCfg "" 25 = .ok T' ∧
      List.Forall₂ (fun p p' => p'.1 = p.1 ∧ PTRel p.2 p'.2) T.phases T'.phases ∧ T'.avg = T.avg := by
  obtain ⟨r₁, r₂, hr₁, hr₂, _, hok, _⟩ := save_same_structure_same_table_partial ver eSys_wf ePerm_wf ePerm_equiv hv
    (by simp [eSys, SysDesc.ofParts]) (by simp [eSys, SysDesc.ofParts]) (by decide)
    eSys_wf.topoOK ePerm_wf.topoOK exCfg (by norm_num [exCfg]) "" 25
  have e : r₁ = reloadedDesc eTopo eSys := by
    have := eSys_reload ver hv
    rw [hr₁] at this
    cases this; rfl
  subst e
  obtain ⟨T, hT⟩ := eSys_reload_solve_ok
  obtain ⟨T', hT', hrows, havg⟩ := hok T hT
  exact ⟨_, r₂, T, T', hr₁, hr₂, hT, hT', hrows, havg⟩

/-- non-vacuity of `save_same_structure_same_rail_rep_partial` on `eSysR` (groups, four rails, two phases): one
    description, saved in the orders `eTopo` / `eTopo'`, reloaded, processed in the orders `eTopo` / `eTopo'` -/
example (ver : String) (hv : (parseVer ver).isSome = true) :
    ∃ r₁ r₂ T T', fromFile ver (save ver eTopo eSysR) = .ok r₁ ∧ fromFile ver (save ver eTopo' eSysR) = .ok r₂ ∧
      (r₁.toSSys eTopo).solve exCfg "" 25 = .ok T ∧ (r₂.toSSys eTopo').solve exCfg "" 25 = .ok T' ∧
      RailPerm (railRep T) (railRep T') := by
  obtain ⟨r₁, r₂, hr₁, hr₂, hok⟩ := save_same_structure_same_rail_rep_partial ver eSysR_wf
    (eSysR_wf.retopo eTopo'_okR) (SysEquiv.refl eSysR) hv
    (by simp [eSysR, SysDesc.ofParts]) (by simp [eSysR, SysDesc.ofParts]) (by decide) eSysR_rails
    eSysR_wf.topoOK eTopo'_okR exCfg (by norm_num [exCfg]) "" 25
  have e : r₁ = reloadedDesc eTopo eSysR := by
    have := eSysR_reload ver hv
    rw [hr₁] at this
    cases this; rfl
  subst e
  obtain ⟨T, hT⟩ := eSysR_reload_solve_ok
  obtain ⟨T', hT', hperm⟩ := hok T hT
  exact ⟨_, r₂, T, T', hr₁, hr₂, hT, hT', hperm⟩

/-- non-vacuity of `save_topo_irrelevant` / `save_topo_irrelevant_partial`: `eSys`, orders `eTopo` and `eTopo'` -/
example (ver : String) (hv : (parseVer ver).isSome = true) :
    ∃ r₁ r₂, fromFile ver (save ver eTopo eSys) = .ok r₁ ∧ fromFile ver (save ver eTopo' eSys) = .ok r₂ ∧
      SysEquiv r₂ r₁ ∧ r₂.nodes.Perm r₁.nodes ∧ SysEquiv r₁ eSys :=
  save_topo_irrelevant_partial ver eSys_wf eSys_wf' hv (by simp [eSys, SysDesc.ofParts])
    (by simp [eSys, SysDesc.ofParts]) (by decide)

example (ver : String) :
    SameUpToOrder (fromFile ver (save ver eTopo' eSys)) (fromFile ver (save ver eTopo eSys)) :=
  save_topo_irrelevant ver eSys_wf eSys_wf'

/-- … while the two node lists come back in different orders -/
example : (reloadedDesc eTopo eSys).names = ["S2", "B", "S1", "L1", "A", "LA", "M", "LM", "C", "LC"] ∧
    (reloadedDesc eTopo' eSys).names = ["S1", "L1", "A", "LA", "S2", "B", "M", "LM", "C", "LC"] := by
  refine ⟨by decide +kernel, by decide +kernel⟩

/-! #### registries in another key order -/

/-- the permuted copy built through `SysDesc.ofParts` in ITS insertion order: the three registries list the names in
    the order `S2, B, S1, A, M, LM, C, LC, L1, LA` -/
def ePermR : SysDesc ℚ := SysDesc.ofParts "e" (ePermIdx.map fun i => (ePNode i, "", "", .dict [])) (.dict [])

theorem ePermR_equiv : SysEquivR ePermR eSys := by
  have hperm : ePermIdx.Perm (List.range 10) := by decide
  refine ⟨rfl, rfl, ?_, ?_, ?_, ePerm_equiv.nodes⟩
  · have h1 : ePermR.phaseConf = .dict (ePermIdx.map fun i => ((eNode i).name, PV.dict [])) := rfl
    have h2 : eSys.phaseConf = .dict ((List.range 10).map fun i => ((eNode i).name, PV.dict [])) := rfl
    rw [h1, h2]
    exact .dict _ _ (hperm.map _) (by decide)
  · have h1 : ePermR.groups = .dict (ePermIdx.map fun i => ((eNode i).name, PV.str "")) := rfl
    have h2 : eSys.groups = .dict ((List.range 10).map fun i => ((eNode i).name, PV.str "")) := rfl
    rw [h1, h2]
    exact .dict _ _ (hperm.map _) (by decide)
  · have h1 : ePermR.rails = .dict (ePermIdx.map fun i => ((eNode i).name, PV.str "")) := rfl
    have h2 : eSys.rails = .dict ((List.range 10).map fun i => ((eNode i).name, PV.str "")) := rfl
    rw [h1, h2]
    exact .dict _ _ (hperm.map _) (by decide)

theorem ePermR_wf : DescWF eTopo' ePermR := ePerm_wf.of_nodes_eq rfl

/-- the registries really are in another order (so `ePermR` is not `SysEquiv` to `eSys`) -/
example : (match ePermR.groups with | .dict d => d.map (·.1) | _ => []) =
      ["S2", "B", "S1", "A", "M", "LM", "C", "LC", "L1", "LA"] ∧
    (match eSys.groups with | .dict d => d.map (·.1) | _ => []) =
      ["S1", "A", "S2", "B", "M", "C", "LC", "LM", "LA", "L1"] := by
  refine ⟨by decide, by decide⟩

/-- non-vacuity of `save_same_structure_reg_partial` (and of `sysEquivR_same_table_partial`) -/
example (ver : String) (hv : (parseVer ver).isSome = true) :
    ∃ r₁ r₂ T T', fromFile ver (save ver eTopo eSys) = .ok r₁ ∧ fromFile ver (save ver eTopo' ePermR) = .ok r₂ ∧
      SysEquivR r₂ r₁ ∧
      (r₁.toSSys eTopo).solve exCfg "" 25 = .ok T ∧ (r₂.toSSys eTopo').solve exCfg "" 25 = .ok T' ∧
      List.Forall₂ (fun p p' => p'.1 = p.1 ∧ PTRel p.2 p'.2) T.phases T'.phases ∧ T'.avg = T.avg := by
  obtain ⟨r₁, r₂, hr₁, hr₂, hE, hok, _⟩ := save_same_structure_reg_partial ver eSys_wf ePermR_wf ePermR_equiv hv
    (by simp [eSys, SysDesc.ofParts]) (by simp [eSys, SysDesc.ofParts]) (by decide)
    eSys_wf.topoOK ePermR_wf.topoOK exCfg (by norm_num [exCfg]) "" 25
  have e : r₁ = reloadedDesc eTopo eSys := by
    have := eSys_reload ver hv
    rw [hr₁] at this
    cases this; rfl
  subst e
  obtain ⟨T, hT⟩ := eSys_reload_solve_ok
  obtain ⟨T', hT', hrows, havg⟩ := hok T hT
  exact ⟨_, r₂, T, T', hr₁, hr₂, hE, hT, hT', hrows, havg⟩

end C12
end SysLoss
