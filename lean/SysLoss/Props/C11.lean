/-
  Props/C11 — constructors reject unphysical parameters and normalise signs.

  Subject: `mkComp` (Model/Ctor.lean, the model of the eleven `__init__` methods of components.py, as repaired
  by the /repo commits 2b347cd (PMux rs), b1d6b51 (Rectifier rs), b59f1ff (|io| axis), 7008460 (LinReg iq)).

   A. rejections (each with a ValueError-class error):
        reject_eff_const, reject_linreg_dropout, reject_rload_zero, reject_rs_list_pmux / _rectifier,
        reject_rs_scalar_rectifier, reject_limits_<kind> (all 11 kinds),
        table causes (`TableRejects`): table_missing_key, table_io_not_increasing (in magnitude),
        table_shape_mismatch, table_ig_negative, table_eff_range — lifted to every table-bearing
        (kind, argument) pair by reject_table_<kind>[_<argument>].
   B. accepted_normalised : `mkComp kind name a = .ok c → c.Phys` — for all kinds, all arguments, 1-D and 2-D
      tables in any row order (no side condition).
   C. sign_insensitive : negating magnitude-type numeric arguments (the scalar `rs` of PMux / Rectifier
      included) does not change the constructed component; for the ground current `ig`, which is stored as
      given, only up to the displayed `_params` (sign_insensitive_ig_partial).
  Regression examples keep the former witnesses of findings F08 / F12 / F28-C11-IQKEY.
-/
import SysLoss.Proofs.Ctor

set_option linter.unusedSectionVars false
set_option linter.unusedVariables false
set_option linter.unusedSimpArgs false

namespace SysLoss
namespace C11
variable {α : Type} [Field α] [LinearOrder α] [IsStrictOrderedRing α]

/-- the constructor call is refused with a `ValueError` -/
def Rejects (r : Except Err (Comp α)) : Prop := ∃ e, r = .error e ∧ e.cls = "ValueError"

theorem req_some {a : Args α} {k : String} {x : PV α} (h : a.lookup k = some x) : req a k = .ok x := by
  simp [req, h]

theorem req_ok {a : Args α} {k : String} {x : PV α} (h : req a k = .ok x) : a.lookup k = some x := by
  unfold req at h
  cases hl : a.lookup k with
  | none => simp [hl] at h
  | some y => simp [hl] at h; rw [h]

/-- a number is not a dict -/
theorem num_not_dict {x : PV α} {v : α} (h : x.num? = some v) : ∀ d, x ≠ .dict d := by
  intro d e; subst e; simp [PV.num?] at h

/-! ## A. rejections -/

/-- constant efficiency `≤ 0` or `> 1` -/
theorem reject_eff_const (name : String) (a : Args α) {vo x : PV α} {e : α}
    (hvo : a.lookup "vo" = some vo) (heff : a.lookup "eff" = some x) (hx : x.num? = some e)
    (hbad : e ≤ 0 ∨ 1 < e) : Rejects (mkComp .converter name a) := by
  unfold mkComp
  simp only [req_some hvo, req_some heff, ex_bind_ok]
  have hm : mkEff x = .error (if e ≤ 0 then .value "Efficiency must be > 0.0"
      else .value "Efficiency must be <= 1.0") := by
    unfold mkEff
    cases x <;> simp [PV.num?] at hx <;> simp only [numArg, PV.num?, hx, ex_bind_ok]
    all_goals
      by_cases h0 : e ≤ 0
      · simp [h0, not_lt.mpr h0]
      · have h1 : 1 < e := by rcases hbad with h | h; exact absurd h h0; exact h
        simp [h0, not_le.mp h0, h1]
  rw [hm]
  refine ⟨_, rfl, ?_⟩
  split_ifs <;> rfl

/-- regulator dropout `|vdrop| ≥ |vo|` -/
theorem reject_linreg_dropout (name : String) (a : Args α) {vo : PV α} {v d : α}
    (hvo : a.lookup "vo" = some vo) (hv : vo.num? = some v) (hd : (arg a "vdrop" (.float 0)).num? = some d)
    (hbad : |v| ≤ |d|) : Rejects (mkComp .linreg name a) := by
  unfold mkComp
  simp only [req_some hvo, ex_bind_ok, numArg_num hv, absArg_num hd, nabs_eq_abs]
  rw [if_pos (by simpa using hbad)]
  exact ⟨_, rfl, rfl⟩

/-- zero load resistance -/
theorem reject_rload_zero (name : String) (a : Args α) {x : PV α} (hrs : a.lookup "rs" = some x)
    (hz : x.num? = some 0) : Rejects (mkComp .rload name a) := by
  unfold mkComp
  simp only [req_some hrs, ex_bind_ok, absArg_num hz]
  simp [Rejects, Err.cls]

/-- non-numeric entry in an `rs` list (PMux) -/
theorem reject_rs_list_pmux (name : String) (a : Args α) {l : List (PV α)}
    (hrs : arg a "rs" (.float 0) = .list l) (hbad : l.all PV.isNumber = false) :
    Rejects (mkComp .pmux name a) := by
  unfold mkComp
  simp only [hrs, mkRsMux, hbad, Bool.false_eq_true, if_false, ex_throw, ex_bind_error]
  exact ⟨_, rfl, rfl⟩

/-- non-numeric entry in an `rs` list (MOSFET Rectifier: `vdrop` absent or zero) -/
theorem reject_rs_list_rectifier (name : String) (a : Args α) {l : List (PV α)}
    (hvd : (arg a "vdrop" (.float 0)).num? = some 0)
    (hrs : arg a "rs" (.float 0) = .list l) (hbad : l.all PV.isNumber = false) :
    Rejects (mkComp .rectifier name a) := by
  unfold mkComp
  have hnz : nonZeroArg (arg a "vdrop" (.float 0)) = false := by
    unfold nonZeroArg
    cases h : arg a "vdrop" (.float 0) <;> simp [h, PV.num?] at hvd ⊢ <;> simp [hvd]
  simp only [hnz, Bool.false_eq_true, if_false, hrs, mkRsRect, hbad, ex_throw, ex_bind_error]
  exact ⟨_, rfl, rfl⟩

/-- non-numeric scalar `rs` (MOSFET Rectifier) -/
theorem reject_rs_scalar_rectifier (name : String) (a : Args α)
    (hvd : (arg a "vdrop" (.float 0)).num? = some 0)
    (hnl : ∀ l, arg a "rs" (.float 0) ≠ .list l) (hbad : (arg a "rs" (.float 0)).isNumber = false) :
    Rejects (mkComp .rectifier name a) := by
  unfold mkComp
  have hnz : nonZeroArg (arg a "vdrop" (.float 0)) = false := by
    unfold nonZeroArg
    cases h : arg a "vdrop" (.float 0) <;> simp [h, PV.num?] at hvd ⊢ <;> simp [hvd]
  simp only [hnz, Bool.false_eq_true, if_false]
  have : mkRsRect (arg a "rs" (.float 0)) = .error (.value "rs values must be numbers!") := by
    unfold mkRsRect
    cases h : arg a "rs" (.float 0) with
    | list l => exact absurd h (hnl l)
    | _ => simp [h, PV.isNumber] at hbad ⊢
  rw [this]
  exact ⟨_, rfl, rfl⟩

/-! ### table causes (at the level of `_check_interp` + range check), then lifted to the kinds -/

/-- table without `vi` / `io` / value key -/
theorem table_missing_key (d : List (String × PV α)) (z : String) (chk : List α → Except Err Unit)
    (h : d.lookup "vi" = none ∨ d.lookup "io" = none ∨ d.lookup z = none) : TableRejects (mkTable d z chk) :=
  mkTable_missing_key d z chk h

/-- io axis not strictly increasing in magnitude (as given, or after `abs`: `[-2, -1]` is refused too) -/
theorem table_io_not_increasing {d : List (String × PV α)} {z : String} (chk : List α → Except Err Unit)
    {vi zz : PV α} {l : List (PV α)} {ios : List α}
    (hvi : d.lookup "vi" = some vi) (hio : d.lookup "io" = some (.list l)) (hz : d.lookup z = some zz)
    (hl : l.mapM (numArg "io") = .ok ios) (h : ¬ (ios.map nabs).Pairwise (· < ·)) :
    TableRejects (mkTable d z chk) :=
  mkTable_io_not_increasing chk hvi hio hz hl h

/-- shape mismatch: number of rows ≠ number of vi entries, or a row whose length ≠ number of io entries -/
theorem table_shape_mismatch {d : List (String × PV α)} {z : String} (chk : List α → Except Err Unit)
    {l lv rs : List (PV α)} {ios : List α}
    (hvi : d.lookup "vi" = some (.list lv)) (hio : d.lookup "io" = some (.list l))
    (hz : d.lookup z = some (.list rs)) (hl : l.mapM (numArg "io") = .ok ios)
    (hne : rs ≠ []) (hall : ∀ x ∈ rs, ∃ l, x = PV.list l)
    (h : rs.length ≠ lv.length ∨ ∃ x ∈ rs, ∃ l, x = PV.list l ∧ l.length ≠ ios.length) :
    TableRejects (mkTable d z chk) :=
  mkTable_shape_mismatch chk hvi hio hz hl hne hall h

/-- negative tabulated ground current (in an otherwise well-formed table) -/
theorem table_ig_negative {d : List (String × PV α)} {p : Param α} {vals : List α}
    (h : mkTable d "ig" (fun _ => pure ()) = .ok (p, vals)) (hneg : ∃ v ∈ vals, v < 0) :
    TableRejects (mkTable d "ig" chkIg) := mkTable_ig_negative h hneg

/-- tabulated efficiency `≤ 0` or `> 1` (in an otherwise well-formed table) -/
theorem table_eff_range {d : List (String × PV α)} {p : Param α} {vals : List α}
    (h : mkTable d "eff" (fun _ => pure ()) = .ok (p, vals)) (hbad : ∃ v ∈ vals, v ≤ 0 ∨ 1 < v) :
    TableRejects (mkTable d "eff" chkEff) := mkTable_eff_range h hbad

theorem mkIg_rejects {d : List (String × PV α)} (h : TableRejects (mkTable d "ig" chkIg)) :
    ∃ e, mkIg (.dict d) = .error e ∧ e.cls = "ValueError" := by
  obtain ⟨e, he, hc⟩ := h
  exact ⟨e, by simp [mkIg, he], hc⟩

theorem mkVdrop_rejects {d : List (String × PV α)} (h : TableRejects (mkTable d "vdrop")) :
    ∃ e, mkVdrop (.dict d) = .error e ∧ e.cls = "ValueError" := by
  obtain ⟨e, he, hc⟩ := h
  refine ⟨e, ?_, hc⟩
  unfold mkVdrop
  simp only
  have : (mkTable d "vdrop" fun _ => pure ()) = mkTable d "vdrop" := rfl
  rw [he]; rfl

theorem nonZeroArg_zero {x : PV α} (h : x.num? = some 0) : nonZeroArg x = false := by
  unfold nonZeroArg
  cases x <;> simp [PV.num?] at h ⊢ <;> simp [h]

theorem reject_table_vloss (name : String) (a : Args α) {d : List (String × PV α)} {w : α}
    (hvd : a.lookup "vdrop" = some (.dict d)) (hrt : (arg a "rt" (.float 0)).num? = some w)
    (h : TableRejects (mkTable d "vdrop")) : Rejects (mkComp .vloss name a) := by
  obtain ⟨e, he, hc⟩ := mkVdrop_rejects h
  unfold mkComp
  simp only [req_some hvd, ex_bind_ok, absArg_num hrt, he, ex_bind_error]
  exact ⟨e, rfl, hc⟩

theorem reject_table_converter (name : String) (a : Args α) {vo : PV α} {d : List (String × PV α)}
    (hvo : a.lookup "vo" = some vo) (heff : a.lookup "eff" = some (.dict d))
    (h : TableRejects (mkTable d "eff" chkEff)) : Rejects (mkComp .converter name a) := by
  obtain ⟨e, he, hc⟩ := h
  unfold mkComp
  simp only [req_some hvo, req_some heff, ex_bind_ok, mkEff, he, ex_bind_error]
  exact ⟨e, rfl, hc⟩

theorem reject_table_pswitch (name : String) (a : Args α) {d : List (String × PV α)} {w : α}
    (hrs : (arg a "rs" (.float 0)).num? = some w) (hig : arg a "ig" (.float 0) = .dict d)
    (h : TableRejects (mkTable d "ig" chkIg)) : Rejects (mkComp .pswitch name a) := by
  obtain ⟨e, he, hc⟩ := mkIg_rejects h
  unfold mkComp
  simp only [absArg_num hrs, ex_bind_ok, hig, he, ex_bind_error]
  exact ⟨e, rfl, hc⟩

theorem reject_table_pmux (name : String) (a : Args α) {d : List (String × PV α)} {rr : α × Option (List α) × PV α}
    (hrs : mkRsMux (arg a "rs" (.float 0)) = .ok rr) (hig : arg a "ig" (.float 0) = .dict d)
    (h : TableRejects (mkTable d "ig" chkIg)) : Rejects (mkComp .pmux name a) := by
  obtain ⟨e, he, hc⟩ := mkIg_rejects h
  unfold mkComp
  simp only [hrs, ex_bind_ok, hig, he, ex_bind_error]
  exact ⟨e, rfl, hc⟩

/-- LinReg, table given as `ig` (no deprecated `iq`) -/
theorem reject_table_linreg (name : String) (a : Args α) {vo : PV α} {v dr : α} {d : List (String × PV α)}
    (hvo : a.lookup "vo" = some vo) (hv : vo.num? = some v)
    (hd : (arg a "vdrop" (.float 0)).num? = some dr) (hlt : |dr| < |v|)
    (hiq : (arg a "iq" (.float 0)).num? = some 0) (hig : arg a "ig" (.float 0) = .dict d)
    (h : TableRejects (mkTable d "ig" chkIg)) : Rejects (mkComp .linreg name a) := by
  obtain ⟨e, he, hc⟩ := mkIg_rejects h
  unfold mkComp
  simp only [req_some hvo, ex_bind_ok, numArg_num hv, absArg_num hd, nabs_eq_abs]
  rw [if_neg (by simpa using hlt)]
  simp only [linregIgc, nonZeroArg_zero hiq, Bool.false_eq_true, if_false, ex_pure, ex_bind_ok, hig, he,
    ex_bind_error]
  exact ⟨e, rfl, hc⟩

/-- LinReg, table given under the deprecated `iq` (value key `"iq"`, renamed to `"ig"`) -/
theorem reject_table_linreg_iq (name : String) (a : Args α) {vo z : PV α} {v dr : α}
    {d : List (String × PV α)}
    (hvo : a.lookup "vo" = some vo) (hv : vo.num? = some v)
    (hd : (arg a "vdrop" (.float 0)).num? = some dr) (hlt : |dr| < |v|)
    (hiq : arg a "iq" (.float 0) = .dict d) (hz : d.lookup "iq" = some z)
    (h : TableRejects (mkTable ((d.filter fun kv => kv.1 != "iq") ++ [("ig", z)]) "ig" chkIg)) :
    Rejects (mkComp .linreg name a) := by
  obtain ⟨e, he, hc⟩ := mkIg_rejects h
  unfold mkComp
  simp only [req_some hvo, ex_bind_ok, numArg_num hv, absArg_num hd, nabs_eq_abs]
  rw [if_neg (by simpa using hlt)]
  simp only [linregIgc, hiq, nonZeroArg, if_true, hz, ex_pure, ex_bind_ok, he, ex_bind_error]
  exact ⟨e, rfl, hc⟩

/-- LinReg, table given under the deprecated `iq` without an `"iq"` entry: it is taken as it is (repair
    7008460; it used to raise `KeyError`), so a missing `"ig"` entry is the ordinary ValueError -/
theorem reject_table_linreg_iq_nokey (name : String) (a : Args α) {vo : PV α} {v dr : α}
    {d : List (String × PV α)}
    (hvo : a.lookup "vo" = some vo) (hv : vo.num? = some v)
    (hd : (arg a "vdrop" (.float 0)).num? = some dr) (hlt : |dr| < |v|)
    (hiq : arg a "iq" (.float 0) = .dict d) (hz : d.lookup "iq" = none)
    (h : TableRejects (mkTable d "ig" chkIg)) : Rejects (mkComp .linreg name a) := by
  obtain ⟨e, he, hc⟩ := mkIg_rejects h
  unfold mkComp
  simp only [req_some hvo, ex_bind_ok, numArg_num hv, absArg_num hd, nabs_eq_abs]
  rw [if_neg (by simpa using hlt)]
  simp only [linregIgc, hiq, nonZeroArg, if_true, hz, ex_pure, ex_bind_ok, he, ex_bind_error]
  exact ⟨e, rfl, hc⟩

theorem reject_table_rectifier_vdrop (name : String) (a : Args α) {d : List (String × PV α)}
    (hvd : arg a "vdrop" (.float 0) = .dict d) (h : TableRejects (mkTable d "vdrop")) :
    Rejects (mkComp .rectifier name a) := by
  obtain ⟨e, he, hc⟩ := mkVdrop_rejects h
  unfold mkComp
  simp only [hvd, nonZeroArg, if_true, he, ex_bind_error]
  exact ⟨e, rfl, hc⟩

theorem reject_table_rectifier_ig (name : String) (a : Args α) {d : List (String × PV α)}
    {rr : α × Option (List α) × PV α}
    (hvd : (arg a "vdrop" (.float 0)).num? = some 0) (hrs : mkRsRect (arg a "rs" (.float 0)) = .ok rr)
    (hig : arg a "ig" (.float 0) = .dict d) (h : TableRejects (mkTable d "ig" chkIg)) :
    Rejects (mkComp .rectifier name a) := by
  obtain ⟨e, he, hc⟩ := mkIg_rejects h
  unfold mkComp
  simp only [nonZeroArg_zero hvd, Bool.false_eq_true, if_false, hrs, ex_bind_ok, hig, he, ex_bind_error]
  exact ⟨e, rfl, hc⟩

/-! ### malformed limits -/

/-- a `limits` dict in which some LIMITS_DEFAULT key carries anything but a list of two numbers -/
def BadLimits (a : Args α) : Prop :=
  ∃ d key v, arg a "limits" .null = .dict d ∧ key ∈ allLimitKeys ∧ d.lookup key = some v ∧ ¬ GoodLimit v

theorem badLimits_error {a : Args α} (h : BadLimits a) :
    ∃ e, checkLimits (arg a "limits" .null) = .error e ∧ e.cls = "ValueError" := by
  obtain ⟨d, key, v, hd, hk, hl, hb⟩ := h
  rw [hd]; exact checkLimits_malformed hk hl hb

theorem reject_limits_source (name : String) (a : Args α) {vo : PV α} {w : α}
    (hvo : a.lookup "vo" = some vo) (hrs : (arg a "rs" (.float 0)).num? = some w) (h : BadLimits a) :
    Rejects (mkComp .source name a) := by
  obtain ⟨e, he, hc⟩ := badLimits_error h
  unfold mkComp
  simp only [req_some hvo, ex_bind_ok, absArg_num hrs, he, ex_bind_error]
  exact ⟨e, rfl, hc⟩

theorem reject_limits_pload (name : String) (a : Args α) {x : PV α} {w1 w2 w3 : α}
    (hp : a.lookup "pwr" = some x) (h1 : x.num? = some w1) (h2 : (arg a "pwrs" (.float 0)).num? = some w2)
    (h3 : (arg a "rt" (.float 0)).num? = some w3) (h : BadLimits a) : Rejects (mkComp .pload name a) := by
  obtain ⟨e, he, hc⟩ := badLimits_error h
  unfold mkComp
  simp only [req_some hp, ex_bind_ok, absArg_num h1, absArg_num h2, absArg_num h3, he, ex_bind_error]
  exact ⟨e, rfl, hc⟩

theorem reject_limits_iload (name : String) (a : Args α) {x : PV α} {w1 : α}
    (hp : a.lookup "ii" = some x) (h1 : x.num? = some w1) (h : BadLimits a) :
    Rejects (mkComp .iload name a) := by
  obtain ⟨e, he, hc⟩ := badLimits_error h
  unfold mkComp
  simp only [req_some hp, ex_bind_ok, absArg_num h1, he, ex_bind_error]
  exact ⟨e, rfl, hc⟩

theorem reject_limits_rload (name : String) (a : Args α) {x : PV α} {w1 w3 : α}
    (hp : a.lookup "rs" = some x) (h1 : x.num? = some w1) (hnz : w1 ≠ 0)
    (h3 : (arg a "rt" (.float 0)).num? = some w3) (h : BadLimits a) : Rejects (mkComp .rload name a) := by
  obtain ⟨e, he, hc⟩ := badLimits_error h
  unfold mkComp
  simp only [req_some hp, ex_bind_ok, absArg_num h1]
  rw [if_neg (by simpa using hnz)]
  simp only [absArg_num h3, ex_bind_ok, he, ex_bind_error]
  exact ⟨e, rfl, hc⟩

theorem reject_limits_rloss (name : String) (a : Args α) {x : PV α} {w1 w3 : α}
    (hp : a.lookup "rs" = some x) (h1 : x.num? = some w1)
    (h3 : (arg a "rt" (.float 0)).num? = some w3) (h : BadLimits a) : Rejects (mkComp .rloss name a) := by
  obtain ⟨e, he, hc⟩ := badLimits_error h
  unfold mkComp
  simp only [req_some hp, ex_bind_ok, absArg_num h1, absArg_num h3, he, ex_bind_error]
  exact ⟨e, rfl, hc⟩

theorem reject_limits_vloss (name : String) (a : Args α) {x : PV α} {w3 : α} {ps : Param α × PV α}
    (hp : a.lookup "vdrop" = some x) (h3 : (arg a "rt" (.float 0)).num? = some w3)
    (hps : mkVdrop x = .ok ps) (h : BadLimits a) : Rejects (mkComp .vloss name a) := by
  obtain ⟨e, he, hc⟩ := badLimits_error h
  unfold mkComp
  simp only [req_some hp, ex_bind_ok, absArg_num h3, hps, he, ex_bind_error]
  exact ⟨e, rfl, hc⟩

theorem reject_limits_converter (name : String) (a : Args α) {vo x : PV α} {w1 w2 w3 : α} {p : Param α}
    (hvo : a.lookup "vo" = some vo) (hp : a.lookup "eff" = some x) (hps : mkEff x = .ok p)
    (h1 : (arg a "iq" (.float 0)).num? = some w1) (h2 : (arg a "iis" (.float 0)).num? = some w2)
    (h3 : (arg a "rt" (.float 0)).num? = some w3) (h : BadLimits a) : Rejects (mkComp .converter name a) := by
  obtain ⟨e, he, hc⟩ := badLimits_error h
  unfold mkComp
  simp only [req_some hvo, req_some hp, ex_bind_ok, hps, absArg_num h1, absArg_num h2, absArg_num h3, he,
    ex_bind_error]
  exact ⟨e, rfl, hc⟩

theorem reject_limits_linreg (name : String) (a : Args α) {vo igc : PV α} {v dr w2 w3 : α} {p : Param α}
    (hvo : a.lookup "vo" = some vo) (hv : vo.num? = some v)
    (hd : (arg a "vdrop" (.float 0)).num? = some dr) (hlt : |dr| < |v|)
    (higc : linregIgc a = .ok igc) (hps : mkIg igc = .ok p)
    (h2 : (arg a "iis" (.float 0)).num? = some w2) (h3 : (arg a "rt" (.float 0)).num? = some w3)
    (h : BadLimits a) : Rejects (mkComp .linreg name a) := by
  obtain ⟨e, he, hc⟩ := badLimits_error h
  unfold mkComp
  simp only [req_some hvo, ex_bind_ok, numArg_num hv, absArg_num hd, nabs_eq_abs]
  rw [if_neg (by simpa using hlt)]
  simp only [higc, hps, ex_bind_ok, absArg_num h2, absArg_num h3, he, ex_bind_error]
  exact ⟨e, rfl, hc⟩

theorem reject_limits_pswitch (name : String) (a : Args α) {w1 w2 w3 : α} {p : Param α}
    (h1 : (arg a "rs" (.float 0)).num? = some w1) (hps : mkIg (arg a "ig" (.float 0)) = .ok p)
    (h2 : (arg a "iis" (.float 0)).num? = some w2) (h3 : (arg a "rt" (.float 0)).num? = some w3)
    (h : BadLimits a) : Rejects (mkComp .pswitch name a) := by
  obtain ⟨e, he, hc⟩ := badLimits_error h
  unfold mkComp
  simp only [absArg_num h1, ex_bind_ok, hps, absArg_num h2, absArg_num h3, he, ex_bind_error]
  exact ⟨e, rfl, hc⟩

theorem reject_limits_pmux (name : String) (a : Args α) {rr : α × Option (List α) × PV α} {w2 w3 : α} {p : Param α}
    (h1 : mkRsMux (arg a "rs" (.float 0)) = .ok rr) (hps : mkIg (arg a "ig" (.float 0)) = .ok p)
    (h2 : (arg a "iis" (.float 0)).num? = some w2) (h3 : (arg a "rt" (.float 0)).num? = some w3)
    (h : BadLimits a) : Rejects (mkComp .pmux name a) := by
  obtain ⟨e, he, hc⟩ := badLimits_error h
  unfold mkComp
  simp only [h1, ex_bind_ok, hps, absArg_num h2, absArg_num h3, he, ex_bind_error]
  exact ⟨e, rfl, hc⟩

theorem reject_limits_rectifier_diode (name : String) (a : Args α) {ps : Param α × PV α} {w3 : α}
    (hnz : nonZeroArg (arg a "vdrop" (.float 0)) = true) (hps : mkVdrop (arg a "vdrop" (.float 0)) = .ok ps)
    (h3 : (arg a "rt" (.float 0)).num? = some w3) (h : BadLimits a) : Rejects (mkComp .rectifier name a) := by
  obtain ⟨e, he, hc⟩ := badLimits_error h
  unfold mkComp
  simp only [hnz, if_true, hps, ex_bind_ok, absArg_num h3, he, ex_bind_error]
  exact ⟨e, rfl, hc⟩

theorem reject_limits_rectifier_mosfet (name : String) (a : Args α) {rr : α × Option (List α) × PV α} {w2 w3 : α}
    {p : Param α}
    (hvd : (arg a "vdrop" (.float 0)).num? = some 0) (h1 : mkRsRect (arg a "rs" (.float 0)) = .ok rr)
    (hps : mkIg (arg a "ig" (.float 0)) = .ok p) (h2 : (arg a "iq" (.float 0)).num? = some w2)
    (h3 : (arg a "rt" (.float 0)).num? = some w3) (h : BadLimits a) : Rejects (mkComp .rectifier name a) := by
  obtain ⟨e, he, hc⟩ := badLimits_error h
  unfold mkComp
  simp only [nonZeroArg_zero hvd, Bool.false_eq_true, if_false, h1, ex_bind_ok, hps, absArg_num h2,
    absArg_num h3, he, ex_bind_error]
  exact ⟨e, rfl, hc⟩

/-! ## B. accepted ⇒ physically meaningful -/

theorem mem_flatten_of {rows : List (List α)} {row : List α} {v : α} (hr : row ∈ rows) (hv : v ∈ row) :
    v ∈ rows.flatten := List.mem_flatten.mpr ⟨row, hr, hv⟩

theorem mkTable_nonneg {d : List (String × PV α)} {z : String} {chk : List α → Except Err Unit}
    {p : Param α} {vals : List α} (h : mkTable d z chk = .ok (p, vals)) : p.Nonneg := by
  obtain ⟨ios, rows, hinc, _, _, hcols, hp⟩ := mkTable_ok h
  rcases hp with ⟨_, rfl⟩ | ⟨vis, hlen, h2, h3, rfl⟩
  · exact tab1_nonneg _ _
  · exact tab2_nonneg_any ios vis rows _ hinc h2 h3 hlen hcols

theorem mkTable_unit {d : List (String × PV α)} {p : Param α} {vals : List α}
    (h : mkTable d "eff" chkEff = .ok (p, vals)) (x y : α) : 0 < p.interp x y ∧ p.interp x y ≤ 1 := by
  obtain ⟨ios, rows, hinc, hchk, hv, hcols, hp⟩ := mkTable_ok h
  obtain ⟨hne, hall⟩ := chkEff_ok hchk
  rcases hp with ⟨h1, rfl⟩ | ⟨vis, hlen, h2, h3, rfl⟩
  · obtain ⟨row, hrow⟩ : ∃ row, rows = [row] := by
      cases rows with
      | nil => simp at h1
      | cons r rs => cases rs with
        | nil => exact ⟨r, rfl⟩
        | cons _ _ => simp at h1
    subst hrow
    simp only [List.headD_cons]
    have hl := hcols row (by simp)
    have hvr : vals = row := by rw [hv]; simp
    apply tab1_unit hl.symm
    · intro e; rw [e] at hl; simp at hl; rw [hvr] at hne; exact hne hl
    · intro v hv'; exact hall v (by rw [hvr]; exact hv')
  · exact tab2_unit_any ios vis rows _ hinc h2 h3 hlen hcols (hv ▸ hne) (fun v hv' => hall v (hv ▸ hv')) x y

theorem mkIg_nonneg {ig : PV α} {p : Param α} (h : mkIg ig = .ok p) : p.Nonneg := by
  rcases mkIg_ok h with ⟨v, _, rfl⟩ | ⟨d, vals, _, ht'⟩
  · exact const_nonneg (abs_nonneg v)
  · exact mkTable_nonneg ht'

theorem mkVdrop_nonneg {vd : PV α} {ps : Param α × PV α} (h : mkVdrop vd = .ok ps) : ps.1.Nonneg := by
  unfold mkVdrop at h
  cases vd with
  | dict d =>
    simp only at h
    obtain ⟨pv, hpv, h⟩ := ex_bind_eq_ok h
    obtain ⟨p', vals⟩ := pv
    simp at h; subst h
    exact mkTable_nonneg hpv
  | _ =>
    simp only at h
    obtain ⟨v, hv, h⟩ := ex_bind_eq_ok h
    simp at h; subst h
    exact const_nonneg (absArg_nonneg hv)

theorem mkEff_unit {eff : PV α} {p : Param α} (h : mkEff eff = .ok p) (x y : α) :
    0 < p.interp x y ∧ p.interp x y ≤ 1 := by
  unfold mkEff at h
  cases eff with
  | dict d =>
    simp only at h
    obtain ⟨pv, hpv, h⟩ := ex_bind_eq_ok h
    obtain ⟨p', vals⟩ := pv
    simp at h; subst h
    exact mkTable_unit hpv x y
  | _ =>
    simp only at h
    obtain ⟨e, he, h⟩ := ex_bind_eq_ok h
    by_cases h0 : (!decide (0 < e)) = true
    · rw [if_pos h0] at h; simp at h
    · rw [if_neg h0] at h
      by_cases h1 : 1 < e
      · rw [if_pos h1] at h; simp at h
      · rw [if_neg h1] at h
        simp at h h0; subst h
        exact ⟨h0, not_lt.mp h1⟩

/-- the scalar resistance a PMux stores is a magnitude -/
theorem mkRsMux_nonneg {x : PV α} {rr : α × Option (List α) × PV α} (h : mkRsMux x = .ok rr) : 0 ≤ rr.1 := by
  unfold mkRsMux at h
  cases x with
  | list l =>
    simp only at h
    by_cases hl : l.all PV.isNumber = true
    · rw [if_pos hl] at h; simp at h; rw [← h]
    · rw [if_neg hl] at h; simp at h
  | _ =>
    simp only at h
    obtain ⟨v, hv, h⟩ := ex_bind_eq_ok h
    simp at h; rw [← h]; exact absArg_nonneg hv

theorem mkRsRect_nonneg {x : PV α} {rr : α × Option (List α) × PV α} (h : mkRsRect x = .ok rr) : 0 ≤ rr.1 := by
  unfold mkRsRect at h
  cases x with
  | list l =>
    simp only at h
    by_cases hl : l.all PV.isNumber = true
    · rw [if_pos hl] at h; simp at h; rw [← h]
    · rw [if_neg hl] at h; simp at h
  | _ =>
    simp only at h
    split_ifs at h with hn
    obtain ⟨v, hv, h⟩ := ex_bind_eq_ok h
    simp at h; rw [← h]; exact absArg_nonneg hv

/-- the resistance applied for mux input `k`: the stored scalar, or the magnitude of the list entry -/
theorem muxRs_nonneg (c : Comp α) (h : 0 ≤ c.rs) (k : Nat) : 0 ≤ c.muxRs k := by
  unfold Comp.muxRs
  cases c.rsList with
  | none => exact h
  | some l => simp only [nabs_eq_abs]; exact abs_nonneg _

/-- **accepted ⇒ physical** — every component a constructor returns satisfies `Comp.Phys`: resistances,
    currents, powers, drops and thermal resistances are stored (or, for the entries of an `rs` list,
    used) as magnitudes, every table lookup is `≥ 0`, efficiencies lie in (0, 1], a regulator's dropout is
    below `|vo|`, a load resistance is non-zero. -/
theorem accepted_normalised (kind : Kind) (name : String) (a : Args α) (c : Comp α)
    (h : mkComp kind name a = .ok c) : c.Phys := by
  unfold mkComp at h
  cases kind <;> simp only at h
  case source =>
    obtain ⟨vo, hvo, h⟩ := ex_bind_eq_ok h
    obtain ⟨rs, hr, h⟩ := ex_bind_eq_ok h
    obtain ⟨lim, hlim, h⟩ := ex_bind_eq_ok h
    obtain ⟨vov, hvov, h⟩ := ex_bind_eq_ok h
    simp only [ex_pure, Except.ok.injEq] at h; subst h
    exact ⟨absArg_nonneg hr, muxRs_nonneg _ (absArg_nonneg hr), le_refl _, le_refl _, le_refl _, le_refl _,
      le_refl _, le_refl _, le_refl _, const_nonneg (le_refl _), (fun e => by cases e), (fun e => by cases e),
      (fun e => by cases e)⟩
  case pload =>
    obtain ⟨x, hx, h⟩ := ex_bind_eq_ok h
    obtain ⟨pwr, h1, h⟩ := ex_bind_eq_ok h
    obtain ⟨pwrs, h2, h⟩ := ex_bind_eq_ok h
    obtain ⟨rt, h3, h⟩ := ex_bind_eq_ok h
    obtain ⟨lim, hlim, h⟩ := ex_bind_eq_ok h
    simp only [ex_pure, Except.ok.injEq] at h; subst h
    exact ⟨le_refl _, muxRs_nonneg _ (le_refl _), le_refl _, le_refl _, le_refl _, absArg_nonneg h3,
      absArg_nonneg h1, absArg_nonneg h2, le_refl _, const_nonneg (le_refl _), (fun e => by cases e),
      (fun e => by cases e), (fun e => by cases e)⟩
  case iload =>
    obtain ⟨x, hx, h⟩ := ex_bind_eq_ok h
    obtain ⟨ii, h1, h⟩ := ex_bind_eq_ok h
    obtain ⟨lim, hlim, h⟩ := ex_bind_eq_ok h
    obtain ⟨iis, h2, h⟩ := ex_bind_eq_ok h
    obtain ⟨rt, h3, h⟩ := ex_bind_eq_ok h
    simp only [ex_pure, Except.ok.injEq] at h; subst h
    exact ⟨le_refl _, muxRs_nonneg _ (le_refl _), le_refl _, le_refl _, absArg_nonneg h2, absArg_nonneg h3,
      le_refl _, le_refl _, absArg_nonneg h1, const_nonneg (le_refl _), (fun e => by cases e),
      (fun e => by cases e), (fun e => by cases e)⟩
  case rload =>
    obtain ⟨x, hx, h⟩ := ex_bind_eq_ok h
    obtain ⟨rs, h1, h⟩ := ex_bind_eq_ok h
    by_cases hz : isZ rs = true
    · rw [if_pos hz] at h; simp at h
    · rw [if_neg hz] at h
      obtain ⟨rt, h3, h⟩ := ex_bind_eq_ok h
      obtain ⟨lim, hlim, h⟩ := ex_bind_eq_ok h
      simp only [ex_pure, Except.ok.injEq] at h; subst h
      have hne : rs ≠ 0 := by intro e; exact hz ((isZ_iff _).mpr e)
      exact ⟨absArg_nonneg h1, muxRs_nonneg _ (absArg_nonneg h1), le_refl _, le_refl _, le_refl _,
        absArg_nonneg h3, le_refl _, le_refl _, le_refl _, const_nonneg (le_refl _), (fun e => by cases e),
        (fun e => by cases e), fun _ => lt_of_le_of_ne (absArg_nonneg h1) (Ne.symm hne)⟩
  case rloss =>
    obtain ⟨x, hx, h⟩ := ex_bind_eq_ok h
    obtain ⟨rs, h1, h⟩ := ex_bind_eq_ok h
    obtain ⟨rt, h3, h⟩ := ex_bind_eq_ok h
    obtain ⟨lim, hlim, h⟩ := ex_bind_eq_ok h
    simp only [ex_pure, Except.ok.injEq] at h; subst h
    exact ⟨absArg_nonneg h1, muxRs_nonneg _ (absArg_nonneg h1), le_refl _, le_refl _, le_refl _,
      absArg_nonneg h3, le_refl _, le_refl _, le_refl _, const_nonneg (le_refl _), (fun e => by cases e),
      (fun e => by cases e), (fun e => by cases e)⟩
  case vloss =>
    obtain ⟨x, hx, h⟩ := ex_bind_eq_ok h
    obtain ⟨rt, h3, h⟩ := ex_bind_eq_ok h
    obtain ⟨ps, hps, h⟩ := ex_bind_eq_ok h
    obtain ⟨lim, hlim, h⟩ := ex_bind_eq_ok h
    simp only [ex_pure, Except.ok.injEq] at h; subst h
    exact ⟨le_refl _, muxRs_nonneg _ (le_refl _), le_refl _, le_refl _, le_refl _, absArg_nonneg h3,
      le_refl _, le_refl _, le_refl _, mkVdrop_nonneg hps, (fun e => by cases e),
      (fun e => by cases e), (fun e => by cases e)⟩
  case converter =>
    obtain ⟨vo, hvo, h⟩ := ex_bind_eq_ok h
    obtain ⟨eff, heff, h⟩ := ex_bind_eq_ok h
    obtain ⟨par, hpar, h⟩ := ex_bind_eq_ok h
    obtain ⟨iq, h1, h⟩ := ex_bind_eq_ok h
    obtain ⟨iis, h2, h⟩ := ex_bind_eq_ok h
    obtain ⟨rt, h3, h⟩ := ex_bind_eq_ok h
    obtain ⟨lim, hlim, h⟩ := ex_bind_eq_ok h
    obtain ⟨vov, hvov, h⟩ := ex_bind_eq_ok h
    simp only [ex_pure, Except.ok.injEq] at h; subst h
    exact ⟨le_refl _, muxRs_nonneg _ (le_refl _), le_refl _, absArg_nonneg h1, absArg_nonneg h2,
      absArg_nonneg h3, le_refl _, le_refl _, le_refl _, fun x y => (mkEff_unit hpar x y).1.le,
      fun _ x y => mkEff_unit hpar x y, (fun e => by cases e), (fun e => by cases e)⟩
  case linreg =>
    obtain ⟨vo, hvo, h⟩ := ex_bind_eq_ok h
    obtain ⟨vov, hvov, h⟩ := ex_bind_eq_ok h
    obtain ⟨vdrop, hvd, h⟩ := ex_bind_eq_ok h
    by_cases hz : (!decide (vdrop < nabs vov)) = true
    · rw [if_pos hz] at h; simp at h
    · rw [if_neg hz] at h
      obtain ⟨igc, higc, h⟩ := ex_bind_eq_ok h
      obtain ⟨par, hpar, h⟩ := ex_bind_eq_ok h
      obtain ⟨iis, h2, h⟩ := ex_bind_eq_ok h
      obtain ⟨rt, h3, h⟩ := ex_bind_eq_ok h
      obtain ⟨lim, hlim, h⟩ := ex_bind_eq_ok h
      simp only [ex_pure, Except.ok.injEq] at h; subst h
      simp only [Bool.not_eq_true', decide_eq_false_iff_not, not_not] at hz
      exact ⟨le_refl _, muxRs_nonneg _ (le_refl _), absArg_nonneg hvd, le_refl _, absArg_nonneg h2,
        absArg_nonneg h3, le_refl _, le_refl _, le_refl _, mkIg_nonneg hpar, (fun e => by cases e),
        fun _ => hz, (fun e => by cases e)⟩
  case pswitch =>
    obtain ⟨rs, h1, h⟩ := ex_bind_eq_ok h
    obtain ⟨par, hpar, h⟩ := ex_bind_eq_ok h
    obtain ⟨iis, h2, h⟩ := ex_bind_eq_ok h
    obtain ⟨rt, h3, h⟩ := ex_bind_eq_ok h
    obtain ⟨lim, hlim, h⟩ := ex_bind_eq_ok h
    simp only [ex_pure, Except.ok.injEq] at h; subst h
    exact ⟨absArg_nonneg h1, muxRs_nonneg _ (absArg_nonneg h1), le_refl _, le_refl _, absArg_nonneg h2,
      absArg_nonneg h3, le_refl _, le_refl _, le_refl _, mkIg_nonneg hpar, (fun e => by cases e),
      (fun e => by cases e), (fun e => by cases e)⟩
  case pmux =>
    obtain ⟨rr, hrr, h⟩ := ex_bind_eq_ok h
    obtain ⟨par, hpar, h⟩ := ex_bind_eq_ok h
    obtain ⟨iis, h2, h⟩ := ex_bind_eq_ok h
    obtain ⟨rt, h3, h⟩ := ex_bind_eq_ok h
    obtain ⟨lim, hlim, h⟩ := ex_bind_eq_ok h
    simp only [ex_pure, Except.ok.injEq] at h; subst h
    exact ⟨mkRsMux_nonneg hrr, muxRs_nonneg _ (mkRsMux_nonneg hrr), le_refl _, le_refl _, absArg_nonneg h2,
      absArg_nonneg h3, le_refl _, le_refl _, le_refl _, mkIg_nonneg hpar, (fun e => by cases e),
      (fun e => by cases e), (fun e => by cases e)⟩
  case rectifier =>
    by_cases hd : nonZeroArg (arg a "vdrop" (PV.float 0)) = true
    · rw [if_pos hd] at h
      obtain ⟨ps, hps, h⟩ := ex_bind_eq_ok h
      obtain ⟨rt, h3, h⟩ := ex_bind_eq_ok h
      obtain ⟨lim, hlim, h⟩ := ex_bind_eq_ok h
      simp only [ex_pure, Except.ok.injEq] at h; subst h
      exact ⟨le_refl _, muxRs_nonneg _ (le_refl _), le_refl _, le_refl _, le_refl _, absArg_nonneg h3,
        le_refl _, le_refl _, le_refl _, mkVdrop_nonneg hps, (fun e => by cases e),
        (fun e => by cases e), (fun e => by cases e)⟩
    · rw [if_neg hd] at h
      obtain ⟨rr, hrr, h⟩ := ex_bind_eq_ok h
      obtain ⟨par, hpar, h⟩ := ex_bind_eq_ok h
      obtain ⟨iq, h1, h⟩ := ex_bind_eq_ok h
      obtain ⟨rt, h3, h⟩ := ex_bind_eq_ok h
      obtain ⟨lim, hlim, h⟩ := ex_bind_eq_ok h
      simp only [ex_pure, Except.ok.injEq] at h; subst h
      exact ⟨mkRsRect_nonneg hrr, muxRs_nonneg _ (mkRsRect_nonneg hrr), le_refl _, absArg_nonneg h1, le_refl _,
        absArg_nonneg h3, le_refl _, le_refl _, le_refl _, mkIg_nonneg hpar, (fun e => by cases e),
        (fun e => by cases e), (fun e => by cases e)⟩

/-- regression (former finding F08): `PMux("m", rs=-1)` stores the magnitude -/
example : ∃ c : Comp ℚ, mkComp .pmux "m" [("rs", PV.int (-1 : ℚ))] = .ok c ∧ c.rs = 1 ∧ c.Phys :=
  ⟨_, rfl, by norm_num [nabs], accepted_normalised .pmux "m" [("rs", PV.int (-1 : ℚ))] _ rfl⟩

/-- regression (former finding F12): the MOSFET `Rectifier("r", rs=-1)` stores the magnitude -/
example : ∃ c : Comp ℚ, mkComp .rectifier "r" [("rs", PV.int (-1 : ℚ))] = .ok c ∧ c.rs = 1 ∧ c.Phys :=
  ⟨_, rfl, by norm_num [nabs], accepted_normalised .rectifier "r" [("rs", PV.int (-1 : ℚ))] _ rfl⟩

/-- non-vacuity of `accepted_normalised`: an accepted LinReg with every sign flipped -/
def exLinregArgs : Args ℚ :=
  [("vo", PV.int (-3)), ("vdrop", PV.int (-1)), ("ig", PV.int (-2)), ("rt", PV.int (-20))]

example : ∃ c : Comp ℚ, mkComp .linreg "l" exLinregArgs = .ok c ∧ c.Phys ∧ c.vdrop = 1 ∧ c.rt = 20 :=
  ⟨_, rfl, accepted_normalised .linreg "l" exLinregArgs _ rfl, by norm_num [nabs], by norm_num [nabs]⟩

/-- … and a PMux with a 2-D ground-current table whose vi rows are given in decreasing order and whose first
    io entry carries a negative sign -/
def exMuxArgs : Args ℚ :=
  [("rs", PV.list [PV.int (-1), PV.int 2]),
   ("ig", PV.dict [("vi", .list [.int 12, .int (-5)]), ("io", .list [.int (-1), .int 2, .int 3]),
                   ("ig", .list [.list [.int 1, .int 2, .int 3], .list [.int 4, .int 5, .int 6]])])]

example : ∃ c : Comp ℚ, mkComp .pmux "m" exMuxArgs = .ok c ∧ c.Phys :=
  ⟨_, rfl, accepted_normalised .pmux "m" exMuxArgs _ rfl⟩

/-! ## C. sign insensitivity -/

/-- negate a number, leave everything else alone -/
def negNum : PV α → PV α
  | .int x => .int (-x)
  | .float x => .float (-x)
  | y => y

/-- `b` is `a` with some of the arguments named in `ks` given with the opposite sign -/
def SignVariant (ks : List String) (a b : Args α) : Prop :=
  ∀ k, b.lookup k = a.lookup k ∨ (k ∈ ks ∧ b.lookup k = (a.lookup k).map negNum)

/-- the magnitude-type arguments whose stored value is normalised as well -/
def magArgs : Kind → List String
  | .source => ["rs"]
  | .pload => ["pwr", "pwrs", "rt"]
  | .iload => ["ii", "iis", "rt"]
  | .rload => ["rs", "rt"]
  | .rloss => ["rs", "rt"]
  | .vloss => ["vdrop", "rt"]
  | .converter => ["iq", "iis", "rt"]
  | .linreg => ["vdrop", "iis", "rt"]
  | .pswitch => ["rs", "iis", "rt"]
  | .pmux => ["rs", "iis", "rt"]
  | .rectifier => ["vdrop", "rs", "iq", "rt"]

theorem isZ_neg (v : α) : isZ (-v) = isZ v := by
  rw [Bool.eq_iff_iff, isZ_iff, isZ_iff, neg_eq_zero]

@[simp] theorem absArg_negNum (k : String) (x : PV α) : absArg k (negNum x) = absArg k x := by
  cases x <;> simp [negNum, absArg, PV.num?]

@[simp] theorem nonZeroArg_negNum (x : PV α) : nonZeroArg (negNum x) = nonZeroArg x := by
  cases x <;> simp [negNum, nonZeroArg, PV.num?, isZ_neg]

@[simp] theorem mkVdrop_negNum (x : PV α) : mkVdrop (negNum x) = mkVdrop x := by
  cases x <;> simp [negNum, mkVdrop, absArg, PV.num?]

@[simp] theorem mkIg_negNum (x : PV α) : mkIg (negNum x) = mkIg x := by
  cases x <;> simp [negNum, mkIg, absArg, PV.num?]

@[simp] theorem mkRsMux_negNum (x : PV α) : mkRsMux (negNum x) = mkRsMux x := by
  cases x <;> simp [negNum, mkRsMux, absArg, PV.num?]

@[simp] theorem mkRsRect_negNum (x : PV α) : mkRsRect (negNum x) = mkRsRect x := by
  cases x <;> simp [negNum, mkRsRect, absArg, PV.num?, PV.isNumber]

section variant
variable {ks : List String} {a b : Args α} (h : SignVariant ks a b)
include h

theorem sv_arg (k : String) (d : PV α) : arg b k d = arg a k d ∨ (k ∈ ks ∧ arg b k d = negNum (arg a k d)) := by
  unfold arg
  rcases h k with e | ⟨hk, e⟩
  · left; rw [e]
  · cases hl : a.lookup k with
    | none => left; rw [e, hl]; rfl
    | some x => right; rw [e, hl]; exact ⟨hk, rfl⟩

theorem sv_arg_eq {k : String} (hk : k ∉ ks) (d : PV α) : arg b k d = arg a k d := by
  rcases sv_arg h k d with e | ⟨hk', _⟩
  · exact e
  · exact absurd hk' hk

theorem sv_abs (k' k : String) (d : PV α) : absArg k' (arg b k d) = absArg k' (arg a k d) := by
  rcases sv_arg h k d with e | ⟨_, e⟩ <;> rw [e]
  exact absArg_negNum _ _

theorem sv_req (k : String) :
    req b k = req a k ∨ (k ∈ ks ∧ ∃ x, req a k = .ok x ∧ req b k = .ok (negNum x)) := by
  unfold req
  rcases h k with e | ⟨hk, e⟩
  · left; rw [e]
  · cases hl : a.lookup k with
    | none => left; rw [e, hl]; rfl
    | some x => right; rw [e, hl]; exact ⟨hk, x, rfl, rfl⟩

theorem sv_req_eq {k : String} (hk : k ∉ ks) : req b k = req a k := by
  rcases sv_req h k with e | ⟨hk', _⟩
  · exact e
  · exact absurd hk' hk

end variant

/-- **sign insensitivity.**  Negating any of the magnitude-type numeric arguments of `magArgs kind` (any
    subset of them) does not change the outcome of the constructor: the same error, or the very same
    component (`_params`, interpolator, limits). -/
theorem sign_insensitive (kind : Kind) (name : String) (a b : Args α)
    (h : SignVariant (magArgs kind) a b) : mkComp kind name b = mkComp kind name a := by
  unfold mkComp
  cases kind <;> simp only [magArgs] at h ⊢
  case source =>
    rw [sv_req_eq h (k := "vo") (by decide), sv_abs h, sv_arg_eq h (k := "limits") (by decide)]
  case pload =>
    rw [sv_abs h "pwrs", sv_abs h "rt", sv_arg_eq h (k := "limits") (by decide),
      sv_arg_eq h (k := "loss") (by decide)]
    rcases sv_req h "pwr" with e | ⟨_, x, ea, eb⟩
    · rw [e]
    · rw [ea, eb]; simp only [ex_bind_ok, absArg_negNum]
  case iload =>
    rw [sv_abs h "iis", sv_abs h "rt", sv_arg_eq h (k := "limits") (by decide),
      sv_arg_eq h (k := "loss") (by decide)]
    rcases sv_req h "ii" with e | ⟨_, x, ea, eb⟩
    · rw [e]
    · rw [ea, eb]; simp only [ex_bind_ok, absArg_negNum]
  case rload =>
    rw [sv_abs h "rt", sv_arg_eq h (k := "limits") (by decide), sv_arg_eq h (k := "loss") (by decide)]
    rcases sv_req h "rs" with e | ⟨_, x, ea, eb⟩
    · rw [e]
    · rw [ea, eb]; simp only [ex_bind_ok, absArg_negNum]
  case rloss =>
    rw [sv_abs h "rt", sv_arg_eq h (k := "limits") (by decide)]
    rcases sv_req h "rs" with e | ⟨_, x, ea, eb⟩
    · rw [e]
    · rw [ea, eb]; simp only [ex_bind_ok, absArg_negNum]
  case vloss =>
    rw [sv_abs h "rt", sv_arg_eq h (k := "limits") (by decide)]
    rcases sv_req h "vdrop" with e | ⟨_, x, ea, eb⟩
    · rw [e]
    · rw [ea, eb]; simp only [ex_bind_ok, mkVdrop_negNum]
  case converter =>
    rw [sv_req_eq h (k := "vo") (by decide), sv_req_eq h (k := "eff") (by decide), sv_abs h "iq",
      sv_abs h "iis", sv_abs h "rt", sv_arg_eq h (k := "limits") (by decide)]
  case linreg =>
    have hig : linregIgc b = linregIgc a := by
      unfold linregIgc
      rw [sv_arg_eq h (k := "iq") (by decide), sv_arg_eq h (k := "ig") (by decide)]
    rw [sv_req_eq h (k := "vo") (by decide), sv_abs h "vdrop", hig, sv_abs h "iis", sv_abs h "rt",
      sv_arg_eq h (k := "limits") (by decide)]
  case pswitch =>
    rw [sv_abs h "rs", sv_arg_eq h (k := "ig") (by decide), sv_abs h "iis", sv_abs h "rt",
      sv_arg_eq h (k := "limits") (by decide)]
  case pmux =>
    have hrs : mkRsMux (arg b "rs" (.float 0)) = mkRsMux (arg a "rs" (.float 0)) := by
      rcases sv_arg h "rs" (.float 0) with e | ⟨_, e⟩ <;> rw [e]
      exact mkRsMux_negNum _
    rw [hrs, sv_arg_eq h (k := "ig") (by decide), sv_abs h "iis",
      sv_abs h "rt", sv_arg_eq h (k := "limits") (by decide)]
  case rectifier =>
    have hnz : nonZeroArg (arg b "vdrop" (.float 0)) = nonZeroArg (arg a "vdrop" (.float 0)) := by
      rcases sv_arg h "vdrop" (.float 0) with e | ⟨_, e⟩ <;> rw [e]
      exact nonZeroArg_negNum _
    have hvd : mkVdrop (arg b "vdrop" (.float 0)) = mkVdrop (arg a "vdrop" (.float 0)) := by
      rcases sv_arg h "vdrop" (.float 0) with e | ⟨_, e⟩ <;> rw [e]
      exact mkVdrop_negNum _
    have hrs : mkRsRect (arg b "rs" (.float 0)) = mkRsRect (arg a "rs" (.float 0)) := by
      rcases sv_arg h "rs" (.float 0) with e | ⟨_, e⟩ <;> rw [e]
      exact mkRsRect_negNum _
    rw [hnz, hvd, sv_abs h "rt", sv_arg_eq h (k := "limits") (by decide),
      hrs, sv_arg_eq h (k := "ig") (by decide), sv_abs h "iq"]

/-- the component without the displayed `_params` dictionary: everything the laws read -/
def beh (c : Comp α) : Comp α := { c with params := [] }

theorem bind_congr_beh {β : Type} (x : Except Err β) (f g : β → Except Err (Comp α))
    (hfg : ∀ v, (f v).map beh = (g v).map beh) : (x >>= f).map beh = (x >>= g).map beh := by
  cases x with
  | error e => rfl
  | ok v => exact hfg v

/-- **sign insensitivity of the ground current** (`ig`, and the deprecated `iq` of a LinReg): it is stored
    as given (`self._params["ig"] = ig`), only its magnitude is ever used, so negating it changes nothing
    but the displayed `_params` entry.  (`_partial`: equality up to `_params`; full equality is false:
    `ig_display_differs` below.) -/
theorem sign_insensitive_ig_partial (kind : Kind) (name : String) (a b : Args α)
    (hk : kind = .linreg ∨ kind = .pswitch ∨ kind = .pmux ∨ kind = .rectifier)
    (h : SignVariant ["ig", "iq"] a b) :
    (mkComp kind name b).map beh = (mkComp kind name a).map beh := by
  have hmk : ∀ k d, mkIg (arg b k d) = mkIg (arg a k d) := by
    intro k d
    rcases sv_arg h k d with e | ⟨_, e⟩ <;> rw [e]
    exact mkIg_negNum _
  have hnz : ∀ k d, nonZeroArg (arg b k d) = nonZeroArg (arg a k d) := by
    intro k d
    rcases sv_arg h k d with e | ⟨_, e⟩ <;> rw [e]
    exact nonZeroArg_negNum _
  unfold mkComp
  rcases hk with rfl | rfl | rfl | rfl <;> simp only
  · -- linreg
    rw [sv_req_eq h (k := "vo") (by decide), sv_arg_eq h (k := "vdrop") (by decide),
      sv_arg_eq h (k := "iis") (by decide), sv_arg_eq h (k := "rt") (by decide),
      sv_arg_eq h (k := "limits") (by decide)]
    apply bind_congr_beh; intro vo
    apply bind_congr_beh; intro vov
    apply bind_congr_beh; intro vdrop
    split_ifs
    · rfl
    · -- the ground-current argument: the same, or negated
      have hig : linregIgc b = linregIgc a ∨ ∃ x, linregIgc a = .ok x ∧ linregIgc b = .ok (negNum x) := by
        simp only [linregIgc]
        rw [hnz]
        by_cases hq : nonZeroArg (arg a "iq" (.float 0)) = true
        · rw [if_pos hq, if_pos hq]
          rcases sv_arg h "iq" (.float 0) with e | ⟨_, e⟩
          · left; rw [e]
          · cases hx : arg a "iq" (.float 0) with
            | dict d => left; rw [e, hx]; rfl
            | null => left; rw [e, hx]; rfl
            | bool _ => left; rw [e, hx]; rfl
            | str _ => left; rw [e, hx]; rfl
            | list _ => left; rw [e, hx]; rfl
            | int x => right; rw [e, hx]; exact ⟨_, rfl, rfl⟩
            | float x => right; rw [e, hx]; exact ⟨_, rfl, rfl⟩
        · rw [if_neg hq, if_neg hq]
          rcases sv_arg h "ig" (.float 0) with e | ⟨_, e⟩
          · left; rw [e]
          · right; exact ⟨_, rfl, by rw [e]; rfl⟩
      rcases hig with e | ⟨x, ea, eb⟩
      · rw [e]
      · rw [ea, eb]
        simp only [ex_bind_ok, mkIg_negNum]
        apply bind_congr_beh; intro par
        apply bind_congr_beh; intro iis
        apply bind_congr_beh; intro rt
        apply bind_congr_beh; intro lim
        rfl
  · -- pswitch
    rw [sv_arg_eq h (k := "rs") (by decide), sv_arg_eq h (k := "iis") (by decide),
      sv_arg_eq h (k := "rt") (by decide), sv_arg_eq h (k := "limits") (by decide), hmk]
    apply bind_congr_beh; intro rs
    apply bind_congr_beh; intro par
    apply bind_congr_beh; intro iis
    apply bind_congr_beh; intro rt
    apply bind_congr_beh; intro lim
    rfl
  · -- pmux
    rw [sv_arg_eq h (k := "rs") (by decide), sv_arg_eq h (k := "iis") (by decide),
      sv_arg_eq h (k := "rt") (by decide), sv_arg_eq h (k := "limits") (by decide), hmk]
    apply bind_congr_beh; intro rr
    apply bind_congr_beh; intro par
    apply bind_congr_beh; intro iis
    apply bind_congr_beh; intro rt
    apply bind_congr_beh; intro lim
    rfl
  · -- rectifier
    rw [sv_arg_eq h (k := "vdrop") (by decide), sv_arg_eq h (k := "rs") (by decide),
      sv_arg_eq h (k := "rt") (by decide), sv_arg_eq h (k := "limits") (by decide), hmk,
      sv_abs h "iq" "iq"]
    split_ifs
    · rfl
    · apply bind_congr_beh; intro rr
      apply bind_congr_beh; intro par
      apply bind_congr_beh; intro iq
      apply bind_congr_beh; intro rt
      apply bind_congr_beh; intro lim
      rfl

/-- why `sign_insensitive_ig_partial` stops at `_params`: the stored entry is the raw argument -/
theorem ig_display_differs :
    mkComp .pswitch "s" ([("ig", PV.int (-2))] : Args ℚ) ≠ mkComp .pswitch "s" [("ig", PV.int 2)] := by
  intro h
  have h2 := congrArg (fun r => match r with
    | Except.ok c => (match c.params.lookup "ig" with | some (PV.int v) => v | _ => 0) | _ => 0) h
  change (-2 : ℚ) = 2 at h2
  norm_num at h2

/-- regression (former findings F08 / F12): the scalar `rs` of a PMux / MOSFET Rectifier is sign-insensitive -/
example : mkComp .pmux "m" ([("rs", PV.int (-1))] : Args ℚ) = mkComp .pmux "m" [("rs", PV.float 1)] := rfl
example : mkComp .rectifier "m" ([("rs", PV.int (-1))] : Args ℚ) = mkComp .rectifier "m" [("rs", PV.float 1)] := rfl

/-- non-vacuity of `sign_insensitive`: `RLoss(rs=-2, rt=5)` is `RLoss(rs=2, rt=-5)` -/
example : mkComp .rloss "r" [("rs", PV.int (-2 : ℚ)), ("rt", PV.int 5)]
    = mkComp .rloss "r" [("rs", PV.int 2), ("rt", PV.int (-5))] := by
  apply sign_insensitive
  intro k
  by_cases h1 : k = "rs"
  · subst h1; right; exact ⟨by simp [magArgs], by simp [List.lookup, negNum]⟩
  · by_cases h2 : k = "rt"
    · subst h2; right; exact ⟨by simp [magArgs], by simp [List.lookup, negNum]⟩
    · left
      have e1 : (k == "rs") = false := by simpa using h1
      have e2 : (k == "rt") = false := by simpa using h2
      simp [List.lookup, e1, e2]

/-! ## non-vacuity of the rejection theorems (concrete calls at ℚ) -/
section examples

example : Rejects (mkComp .converter "c" ([("vo", .int 5), ("eff", .int 2)] : Args ℚ)) :=
  reject_eff_const "c" _ (vo := .int 5) (x := .int 2) (e := 2) rfl rfl rfl (Or.inr (by norm_num))

example : Rejects (mkComp .converter "c" ([("vo", .int 5), ("eff", .int 0)] : Args ℚ)) :=
  reject_eff_const "c" _ (vo := .int 5) (x := .int 0) (e := 0) rfl rfl rfl (Or.inl (le_refl _))

example : Rejects (mkComp .linreg "l" ([("vo", .int (-3)), ("vdrop", .int 3)] : Args ℚ)) :=
  reject_linreg_dropout "l" _ (vo := .int (-3)) (v := -3) (d := 3) rfl rfl rfl (by norm_num)

example : Rejects (mkComp .rload "r" ([("rs", .int 0)] : Args ℚ)) :=
  reject_rload_zero "r" _ (x := .int 0) rfl rfl

example : Rejects (mkComp .pmux "m" ([("rs", .list [.int 1, .str "a"])] : Args ℚ)) :=
  reject_rs_list_pmux "m" _ (l := [.int 1, .str "a"]) rfl rfl

example : Rejects (mkComp .rectifier "m" ([("rs", .list [.null])] : Args ℚ)) :=
  reject_rs_list_rectifier "m" _ (l := [.null]) rfl rfl rfl

example : Rejects (mkComp .rectifier "m" ([("rs", .str "tret")] : Args ℚ)) :=
  reject_rs_scalar_rectifier "m" _ rfl (by intro l h; cases h) rfl

/-- a 1-D ground-current table (the LinReg docstring), and faulty variants -/
def tIg : List (String × PV ℚ) :=
  [("vi", .list [.int 5]), ("io", .list [.int 0, .int 1, .int 2]), ("ig", .list [.list [.int 1, .int 2, .int 3]])]
def tIgNoVi : List (String × PV ℚ) :=
  [("io", .list [.int 0, .int 1, .int 2]), ("ig", .list [.list [.int 1, .int 2, .int 3]])]
def tIgIo : List (String × PV ℚ) :=
  [("vi", .list [.int 5]), ("io", .list [.int 0, .int 2, .int 2]), ("ig", .list [.list [.int 1, .int 2, .int 3]])]
def tIgShape : List (String × PV ℚ) :=
  [("vi", .list [.int 5]), ("io", .list [.int 0, .int 1, .int 2]), ("ig", .list [.list [.int 1, .int 2]])]
def tIgNeg : List (String × PV ℚ) :=
  [("vi", .list [.int 5]), ("io", .list [.int 0, .int 1, .int 2]), ("ig", .list [.list [.int 1, .int (-2), .int 3]])]
def tEffBad : List (String × PV ℚ) :=
  [("vi", .list [.int 5]), ("io", .list [.int 0, .int 1]), ("eff", .list [.list [.int 1, .int 2]])]

theorem exNoVi : TableRejects (mkTable tIgNoVi "ig" chkIg) := table_missing_key _ _ _ (Or.inl rfl)

theorem exIoBad : TableRejects (mkTable tIgIo "ig" chkIg) :=
  table_io_not_increasing (ios := [0, 2, 2]) chkIg rfl rfl rfl rfl (by norm_num [nabs])

theorem exShape : TableRejects (mkTable tIgShape "ig" chkIg) :=
  table_shape_mismatch (ios := [0, 1, 2]) chkIg rfl rfl rfl rfl (by simp)
    (by intro x hx; simp at hx; exact ⟨_, hx⟩)
    (Or.inr ⟨.list [.int 1, .int 2], by simp, [.int 1, .int 2], rfl, by simp⟩)

theorem exIgNeg : TableRejects (mkTable tIgNeg "ig" chkIg) :=
  table_ig_negative (p := .tab1 [0, 1, 2] [1, -2, 3]) (vals := [1, -2, 3]) rfl ⟨-2, by simp, by norm_num⟩

theorem exEffBad : TableRejects (mkTable tEffBad "eff" chkEff) :=
  table_eff_range (p := .tab1 [0, 1] [1, 2]) (vals := [1, 2]) rfl ⟨2, by simp, Or.inr (by norm_num)⟩

example : Rejects (mkComp .vloss "v" ([("vdrop", .dict tIgNoVi)] : Args ℚ)) :=
  reject_table_vloss "v" _ (w := 0) rfl rfl (table_missing_key _ _ _ (Or.inl rfl))

example : Rejects (mkComp .converter "c" ([("vo", .int 5), ("eff", .dict tEffBad)] : Args ℚ)) :=
  reject_table_converter "c" _ (vo := .int 5) rfl rfl exEffBad

example : Rejects (mkComp .pswitch "s" ([("ig", .dict tIgNeg)] : Args ℚ)) :=
  reject_table_pswitch "s" _ (w := 0) rfl rfl exIgNeg

example : Rejects (mkComp .pmux "m" ([("ig", .dict tIgIo)] : Args ℚ)) :=
  reject_table_pmux "m" _ (rr := (nabs 0, none, .float (nabs 0))) rfl rfl exIoBad

example : Rejects (mkComp .linreg "l" ([("vo", .int 3), ("ig", .dict tIgShape)] : Args ℚ)) :=
  reject_table_linreg "l" _ (vo := .int 3) (v := 3) (dr := 0) rfl rfl rfl (by norm_num) rfl rfl exShape

example : Rejects (mkComp .linreg "l" ([("vo", .int 3),
    ("iq", .dict [("vi", .list [.int 5]), ("io", .list [.int 0, .int 2, .int 2]),
                  ("iq", .list [.list [.int 1, .int 2, .int 3]])])] : Args ℚ)) :=
  reject_table_linreg_iq "l" _ (vo := .int 3) (v := 3) (dr := 0) (z := .list [.list [.int 1, .int 2, .int 3]])
    rfl rfl rfl (by norm_num) rfl rfl
    (table_io_not_increasing (ios := [0, 2, 2]) chkIg rfl rfl rfl rfl (by norm_num [nabs]))

/-- regression (former finding F28-C11-IQKEY): a table passed as `iq` with neither an `"iq"` nor an `"ig"`
    entry is a ValueError; keyed `"ig"` it is accepted -/
example : Rejects (mkComp .linreg "l" ([("vo", .int 3), ("iq", .dict tIgNoVi)] : Args ℚ)) :=
  reject_table_linreg_iq_nokey "l" _ (vo := .int 3) (v := 3) (dr := 0) rfl rfl rfl (by norm_num) rfl rfl
    (table_missing_key _ _ _ (Or.inl rfl))
example : Rejects (mkComp .linreg "l" ([("vo", .int 3),
    ("iq", .dict [("vi", .list [.int 5]), ("io", .list [.int 0, .int 1])])] : Args ℚ)) :=
  reject_table_linreg_iq_nokey "l" _ (vo := .int 3) (v := 3) (dr := 0) rfl rfl rfl (by norm_num) rfl rfl
    (table_missing_key _ _ _ (Or.inr (Or.inr rfl)))
example : ∃ c : Comp ℚ, mkComp .linreg "l" ([("vo", .int 3), ("iq", .dict tIg)] : Args ℚ) = .ok c := ⟨_, rfl⟩

/-- regression (former finding F11): an io axis increasing as given but not in magnitude is refused -/
def tNegIo : List (String × PV ℚ) :=
  [("vi", .list [.int 5]), ("io", .list [.int (-2), .int (-1)]), ("vdrop", .list [.list [.int 1, .int 2]])]

example : Rejects (mkComp .vloss "v" ([("vdrop", .dict tNegIo)] : Args ℚ)) :=
  reject_table_vloss "v" _ (w := 0) rfl rfl
    (table_io_not_increasing (ios := [-2, -1]) _ rfl rfl rfl rfl (by norm_num [nabs]))

example : Rejects (mkComp .rectifier "r" ([("vdrop", .dict tIgNoVi)] : Args ℚ)) :=
  reject_table_rectifier_vdrop "r" _ rfl (table_missing_key _ _ _ (Or.inl rfl))

example : Rejects (mkComp .rectifier "r" ([("ig", .dict tIgNeg)] : Args ℚ)) :=
  reject_table_rectifier_ig "r" _ (rr := (nabs 0, none, .float (nabs 0))) rfl rfl rfl exIgNeg

/-- malformed limits: `{"vi": 1.0}`, `{"io": [1]}`, `{"tp": [0, "x"]}` -/
theorem notGood_num (x : ℚ) : ¬ GoodLimit (PV.float x) := by rintro ⟨a, b, x, y, h, _⟩; cases h
theorem notGood_short (v : PV ℚ) : ¬ GoodLimit (PV.list [v]) := by rintro ⟨a, b, x, y, h, _⟩; cases h
theorem notGood_str : ¬ GoodLimit (PV.list [PV.int (0 : ℚ), PV.str "x"]) := by
  rintro ⟨a, b, x, y, h, _, hb⟩; cases h; simp [PV.num?] at hb

def limBad : PV ℚ := .dict [("vi", .float 1)]

theorem exBad (a : Args ℚ) (h : arg a "limits" .null = limBad) : BadLimits a :=
  ⟨_, "vi", _, h, by simp [allLimitKeys], rfl, notGood_num 1⟩

example : Rejects (mkComp .source "s" ([("vo", .int 5), ("limits", limBad)] : Args ℚ)) :=
  reject_limits_source "s" _ (vo := .int 5) (w := 0) rfl rfl (exBad _ rfl)
example : Rejects (mkComp .pload "p" ([("pwr", .int 5), ("limits", limBad)] : Args ℚ)) :=
  reject_limits_pload "p" _ (x := .int 5) (w1 := 5) (w2 := 0) (w3 := 0) rfl rfl rfl rfl (exBad _ rfl)
example : Rejects (mkComp .iload "i" ([("ii", .int 5), ("limits", limBad)] : Args ℚ)) :=
  reject_limits_iload "i" _ (x := .int 5) (w1 := 5) rfl rfl (exBad _ rfl)
example : Rejects (mkComp .rload "r" ([("rs", .int 5), ("limits", limBad)] : Args ℚ)) :=
  reject_limits_rload "r" _ (x := .int 5) (w1 := 5) (w3 := 0) rfl rfl (by norm_num) rfl (exBad _ rfl)
example : Rejects (mkComp .rloss "r" ([("rs", .int 5), ("limits", limBad)] : Args ℚ)) :=
  reject_limits_rloss "r" _ (x := .int 5) (w1 := 5) (w3 := 0) rfl rfl rfl (exBad _ rfl)
example : Rejects (mkComp .vloss "v" ([("vdrop", .int 1), ("limits", limBad)] : Args ℚ)) :=
  reject_limits_vloss "v" _ (x := .int 1) (w3 := 0) (ps := (.const (nabs 1), .float (nabs 1))) rfl rfl rfl
    (exBad _ rfl)
example : Rejects (mkComp .converter "c" ([("vo", .int 5), ("eff", .int 1), ("limits", limBad)] : Args ℚ)) :=
  reject_limits_converter "c" _ (vo := .int 5) (x := .int 1) (w1 := 0) (w2 := 0) (w3 := 0) (p := .const 1)
    rfl rfl rfl rfl rfl rfl (exBad _ rfl)
example : Rejects (mkComp .linreg "l" ([("vo", .int 5), ("limits", limBad)] : Args ℚ)) :=
  reject_limits_linreg "l" _ (vo := .int 5) (v := 5) (dr := 0) (igc := .float 0) (w2 := 0) (w3 := 0)
    (p := .const (nabs 0)) rfl rfl rfl (by norm_num) rfl rfl rfl rfl (exBad _ rfl)
example : Rejects (mkComp .pswitch "s" ([("limits", limBad)] : Args ℚ)) :=
  reject_limits_pswitch "s" _ (w1 := 0) (w2 := 0) (w3 := 0) (p := .const (nabs 0)) rfl rfl rfl rfl (exBad _ rfl)
example : Rejects (mkComp .pmux "m" ([("limits", limBad)] : Args ℚ)) :=
  reject_limits_pmux "m" _ (rr := (nabs 0, none, .float (nabs 0))) (w2 := 0) (w3 := 0) (p := .const (nabs 0)) rfl rfl rfl rfl
    (exBad _ rfl)
example : Rejects (mkComp .rectifier "r" ([("vdrop", .int 1), ("limits", limBad)] : Args ℚ)) :=
  reject_limits_rectifier_diode "r" _ (ps := (.const (nabs 1), .float (nabs 1))) (w3 := 0) rfl rfl rfl
    (exBad _ rfl)
example : Rejects (mkComp .rectifier "r" ([("limits", limBad)] : Args ℚ)) :=
  reject_limits_rectifier_mosfet "r" _ (rr := (nabs 0, none, .float (nabs 0))) (w2 := 0) (w3 := 0) (p := .const (nabs 0))
    rfl rfl rfl rfl rfl (exBad _ rfl)

example : BadLimits ([("limits", .dict [("io", .list [.int 1])])] : Args ℚ) :=
  ⟨_, "io", _, rfl, by simp [allLimitKeys], rfl, notGood_short _⟩
example : BadLimits ([("limits", .dict [("tp", .list [.int 0, .str "x"])])] : Args ℚ) :=
  ⟨_, "tp", _, rfl, by simp [allLimitKeys], rfl, notGood_str⟩

/-- `sign_insensitive_ig_partial`: `PSwitch(ig=-2)` behaves as `PSwitch(ig=2)` -/
example : (mkComp .pswitch "s" ([("ig", .int (-2))] : Args ℚ)).map beh
    = (mkComp .pswitch "s" ([("ig", .int 2)] : Args ℚ)).map beh := by
  apply sign_insensitive_ig_partial _ _ _ _ (Or.inr (Or.inl rfl))
  intro k
  by_cases h1 : k = "ig"
  · subst h1; right; exact ⟨by simp, by simp [List.lookup, negNum]⟩
  · left
    have e1 : (k == "ig") = false := by simpa using h1
    simp [List.lookup, e1]

end examples

end C11
end SysLoss
