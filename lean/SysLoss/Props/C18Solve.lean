/-
  Props/C18Solve — C18 with the solver parameter of `Batt.battLife` instantiated by the model's OWN solver.

  `Props/C18.lean` proves `call_args`, `log_rows`, … for an ARBITRARY `solveI : vo → rs → phase → (current, iters)`.
  Here `solveI` is `solveIOf s src cfg`: write `(vo, rs)` into the Source at node `src` of the system `s`
  (`SSys.withSource`, the model of `self._g[pidx]._params["vo"] = bstate[1]; …["rs"] = bstate[2]`), run `_solve`
  (`SSys.solveRaw`, NOT `solve()`: `batt_life` calls `self._solve(phase=…)` and tests `iters > 10000` itself —
  system.py 1923-1931, upstream aab714d) and hand back `(i[pidx], iters)`.  `battCfg` are the tolerances that call
  uses: numpy's `atol = 1e-8`, the DEFAULTS of `_solve` `vtol = 1e-5` (not the `1e-6` of `solve()`), `itol = 1e-6`,
  `maxiter = 10000`.  So "the current handed to the depletion callback is the battery's output current in the
  converged state of the system with the source set to the probed (vo, rs)" is a theorem about one model.

  Delivered
   1. `SSys.withSource`, `solveIOf`, `battCfg`, `solveIBatt`.
      `withSource_other_nodes`   every other node, `topo`, `phases`, `hidx` unchanged;
      `withSource_src_node`      node `src` keeps everything (kind, parents, children, phase configuration, all other
                                 parameters) except `comp.vo, comp.rs`, which are the written values;
      `withSource_twice`         writing twice = writing the last values;
      `withSource_restore`       writing back the node's own `vo, rs` gives the original system (the `finally:` of
                                 `batt_life`, cf. `C17.batt_restores`; `withSource_restore_after` = after any write).
   2. `batt_current_is_solved`   the k-th deplete call receives `(Δt_k, I_k)` with `I_k = vget r.i src` where
                                 `(s.withSource src volt_k rs_k).solveRaw battCfg phase_k = .ok r`, `r.iters ≤ 10000`,
                                 `solvePhase` (= `solve()`'s own acceptance test) returns the same `r`, and `r` satisfies
                                 `C03.ConvergedAt` — a state on which the exit test fired, never an intermediate iterate.
                                 `batt_current_is_solved_of_maxiter`: same for any `cfg` with `10000 ≤ cfg.maxiter`
                                 (the hypothesis is needed: `maxiter_hypothesis_needed`).
      `batt_unconverged_raises`  first solve comes back with `iters > 10000` → `RuntimeError`, no deplete call.
      `batt_solver_error_raises` first solve raises (a voltage law's "Unstable system") → that exception, no deplete call.
   3. `batt_current_source_law`  in that state the Source row of the table (`SSys.compRow`) shows `Iout = Iin = I_k`,
                                 `Vout = v[src]`, `Vin = v[src] + rs_k·I_k` (`C01.row_root`), and `I_k` is within
                                 `atol + itol·|·|` of the documented source current `specIi` at the sum `Io'` of its
                                 children's currents (`C01.ioOf` under the once-more-swept voltages; `= ` the row-level
                                 sum when no child is a multi-input mux); for a non-zero probed voltage and a Source
                                 active in the phase that is `|I_k − Io'| ≤ 1e-8 + 1e-6·|Io'|`.
      This needs NO liveness and NO `Phys` hypothesis (unlike `C01.solve_source_row_current_law`, whose proof it
      follows): `source_flag_returned` shows the returned off-flag of a root Source is exactly
      `vo = 0 ∨ inactive in the phase`, and `source_curr_is_spec` that the back sweep's law then IS `specIi`.
      (`source_row_current_law_noflag` is the statement for any system and any returned phase.)
  Hypotheses of 3: node `src` of `s` is a listed (`src ∈ s.topo`) root (`parents = []`) of kind Source — what
  `batt_life` checks (`isinstance(…, Source)`) and what `_rel_update` produces for every Source.
  Not covered: `SSys.withSource` does not touch `Comp.params` (the `_params` dict as `params()`/`save()` read it; no
  solver definition reads it) — the restore of the parameters as an observable of the API is `C17.batt_restores` on
  `Batt.Out.vo/rs`.  Liveness (that `_solve` returns at all) is C03 territory.
-/
import SysLoss.Props.C18
import SysLoss.Props.C01Conv

set_option linter.unusedSectionVars false
set_option linter.unusedVariables false

namespace SysLoss

/-! ### 1. the definitions -/

/-- the node with `_params["vo"], _params["rs"]` of its component overwritten -/
def SNode.setVoRs {α : Type} (nd : SNode α) (vo rs : α) : SNode α :=
  { nd with comp := { nd.comp with vo := vo, rs := rs } }

/-- `self._g[src]._params["vo"] = vo; self._g[src]._params["rs"] = rs` (raw values, no normalisation — as in
    `batt_life`); an id without a node is left alone -/
def SSys.withSource {α : Type} (s : SSys α) (src : Nat) (vo rs : α) : SSys α :=
  { s with nodes := s.nodes.modify src (Option.map fun nd => nd.setVoRs vo rs) }

namespace C18
open Batt

section Defs
variable {α : Type} [Add α] [Sub α] [Mul α] [Div α] [Neg α] [LT α] [DecidableLT α]
  [OfNat α 0] [OfNat α 1] [OfNat α 2] [OfNat α 100] [OfNat α 1000000]

/-- the solver `batt_life` uses: set the Source, `_solve(phase=ph)`, read `i[pidx]` and `iters` -/
def solveIOf (s : SSys α) (src : Nat) (cfg : Cfg α) : α → α → String → Except Err (α × Nat) :=
  fun vo rs ph => do
    let r ← (s.withSource src vo rs).solveRaw cfg ph
    pure (vget r.i src, r.iters)

/-- numpy's `atol = 1e-8`; `_solve`'s defaults `vtol = 1e-5`, `itol = 1e-6`, `maxiter = 10000` -/
def battCfg [OfNat α 100000] [OfNat α 100000000] : Cfg α :=
  ⟨1 / 100000000, 1 / 100000, 1 / 1000000, 10000⟩

/-- `solveIOf` at the settings of the `_solve(phase=…)` call in `batt_life` -/
def solveIBatt [OfNat α 100000] [OfNat α 100000000] (s : SSys α) (src : Nat) :
    α → α → String → Except Err (α × Nat) := solveIOf s src battCfg

end Defs

variable {α : Type} [Field α] [LinearOrder α] [IsStrictOrderedRing α]

/-! ### 2. `withSource` touches two parameters of one node -/

@[simp] theorem withSource_topo (s : SSys α) (src : Nat) (vo rs : α) : (s.withSource src vo rs).topo = s.topo := rfl
@[simp] theorem withSource_phases (s : SSys α) (src : Nat) (vo rs : α) :
    (s.withSource src vo rs).phases = s.phases := rfl
@[simp] theorem withSource_hidx (s : SSys α) (src : Nat) (vo rs : α) : (s.withSource src vo rs).hidx = s.hidx := by
  unfold SSys.withSource SSys.hidx; simp

theorem withSource_node? (s : SSys α) (src : Nat) (vo rs : α) (n : Nat) :
    (s.withSource src vo rs).node? n =
      if n = src then (s.node? src).map (fun nd => nd.setVoRs vo rs) else s.node? n := by
  unfold SSys.withSource SSys.node?
  simp only [Array.getD_eq_getD_getElem?, Array.getElem?_modify]
  by_cases h : n = src
  · subst h
    simp only [if_true]
    cases s.nodes[n]? with
    | none => rfl
    | some o => rfl
  · have h' : ¬ src = n := fun e => h e.symm
    simp [h, h']

/-- **withSource_other_nodes.**  Every node but `src`, the topological order, the phases and the id range are those
    of `s`. -/
theorem withSource_other_nodes (s : SSys α) (src : Nat) (vo rs : α) :
    (∀ n, n ≠ src → (s.withSource src vo rs).node? n = s.node? n) ∧
    (s.withSource src vo rs).topo = s.topo ∧ (s.withSource src vo rs).phases = s.phases ∧
    (s.withSource src vo rs).hidx = s.hidx := by
  refine ⟨fun n hn => ?_, rfl, rfl, withSource_hidx s src vo rs⟩
  rw [withSource_node?, if_neg hn]

/-- **withSource_src_node.**  Node `src` afterwards: `vo, rs` are the written values; kind, name, every other
    parameter, the links, the phase configuration, group and rail are untouched.  (No node at `src` → still none.) -/
theorem withSource_src_node (s : SSys α) (src : Nat) (vo rs : α) (nd : SNode α) (h : s.node? src = some nd) :
    ∃ nd', (s.withSource src vo rs).node? src = some nd' ∧ nd' = nd.setVoRs vo rs ∧
      nd'.comp.vo = vo ∧ nd'.comp.rs = rs ∧
      nd'.comp.kind = nd.comp.kind ∧ nd'.comp.name = nd.comp.name ∧ nd'.comp.par = nd.comp.par ∧
      nd'.comp.rsList = nd.comp.rsList ∧ nd'.comp.limits = nd.comp.limits ∧
      nd'.parents = nd.parents ∧ nd'.childs = nd.childs ∧ nd'.pconf = nd.pconf ∧
      nd'.group = nd.group ∧ nd'.rail = nd.rail := by
  refine ⟨nd.setVoRs vo rs, ?_, rfl, rfl, rfl, rfl, rfl, rfl, rfl, rfl, rfl, rfl, rfl, rfl, rfl⟩
  rw [withSource_node?, if_pos rfl, h]; rfl

theorem withSource_src_none (s : SSys α) (src : Nat) (vo rs : α) (h : s.node? src = none) :
    s.withSource src vo rs = s := by
  obtain ⟨nodes, topo, phases⟩ := s
  unfold SSys.withSource
  simp only [SSys.mk.injEq, and_true]
  apply Array.ext_getElem?
  intro j
  rw [Array.getElem?_modify]
  split_ifs with hj
  · subst hj
    unfold SSys.node? at h
    simp only [Array.getD_eq_getD_getElem?] at h
    cases hn : nodes[src]? with
    | none => rfl
    | some o =>
      rw [hn] at h
      simp only [Option.getD_some] at h
      subst h; rfl
  · rfl

theorem setVoRs_setVoRs (nd : SNode α) (a b c d : α) : (nd.setVoRs a b).setVoRs c d = nd.setVoRs c d := rfl
theorem setVoRs_self (nd : SNode α) : nd.setVoRs nd.comp.vo nd.comp.rs = nd := rfl

/-- **withSource_twice.**  Two writes to the same node = the last one (the loop of `batt_life` overwrites the
    Source in every iteration; only the latest `(vo, rs)` matters). -/
theorem withSource_twice (s : SSys α) (src : Nat) (a b c d : α) :
    (s.withSource src a b).withSource src c d = s.withSource src c d := by
  obtain ⟨nodes, topo, phases⟩ := s
  unfold SSys.withSource
  simp only [SSys.mk.injEq, and_true]
  apply Array.ext_getElem?
  intro j
  simp only [Array.getElem?_modify]
  split_ifs with hj
  · cases nodes[j]? with
    | none => rfl
    | some o => cases o <;> rfl
  · rfl

/-- **withSource_restore.**  Writing a node's own `vo, rs` back is the identity: `s.withSource src c.vo c.rs = s`. -/
theorem withSource_restore (s : SSys α) (src : Nat) (nd : SNode α) (h : s.node? src = some nd) :
    s.withSource src nd.comp.vo nd.comp.rs = s := by
  obtain ⟨nodes, topo, phases⟩ := s
  unfold SSys.withSource
  simp only [SSys.mk.injEq, and_true]
  apply Array.ext_getElem?
  intro j
  rw [Array.getElem?_modify]
  split_ifs with hj
  · subst hj
    unfold SSys.node? at h
    simp only [Array.getD_eq_getD_getElem?] at h
    cases hn : nodes[src]? with
    | none => rw [hn] at h; simp at h
    | some o =>
      rw [hn] at h
      simp only [Option.getD_some] at h
      subst h; rfl
  · rfl

/-- the `finally:` of `batt_life`: whatever was written in between, restoring `vo_org, rs_org` gives the system back -/
theorem withSource_restore_after (s : SSys α) (src : Nat) (nd : SNode α) (h : s.node? src = some nd) (a b : α) :
    (s.withSource src a b).withSource src nd.comp.vo nd.comp.rs = s := by
  rw [withSource_twice, withSource_restore s src nd h]

/-! ### 3. `solveIOf` unfolded -/

theorem solveIOf_ok (s : SSys α) (src : Nat) (cfg : Cfg α) (vo rs : α) (ph : String) (i : α) (it : Nat) :
    solveIOf s src cfg vo rs ph = .ok (i, it) ↔
      ∃ r, (s.withSource src vo rs).solveRaw cfg ph = .ok r ∧ i = vget r.i src ∧ it = r.iters := by
  unfold solveIOf
  cases hr : (s.withSource src vo rs).solveRaw cfg ph with
  | error e => simp [bind, Except.bind]
  | ok r =>
    simp only [bind, Except.bind, pure, Except.pure, Except.ok.injEq, Prod.mk.injEq]
    constructor
    · rintro ⟨h1, h2⟩; exact ⟨r, rfl, h1.symm, h2.symm⟩
    · rintro ⟨r', h1, h2, h3⟩; subst h1; exact ⟨h2.symm, h3.symm⟩

theorem solveIOf_error (s : SSys α) (src : Nat) (cfg : Cfg α) (vo rs : α) (ph : String) (e : Err) :
    solveIOf s src cfg vo rs ph = .error e ↔ (s.withSource src vo rs).solveRaw cfg ph = .error e := by
  unfold solveIOf
  cases hr : (s.withSource src vo rs).solveRaw cfg ph with
  | error e' => simp [bind, Except.bind]
  | ok r => simp [bind, Except.bind, pure, Except.pure]

/-- `_solve` returned within `maxiter` sweeps ⇒ `solve()`'s acceptance test passes and the state is converged -/
theorem solveRaw_converged (s : SSys α) (cfg : Cfg α) (ph : String) (r : SolveOut α)
    (h : s.solveRaw cfg ph = .ok r) (hle : r.iters ≤ cfg.maxiter) :
    s.solvePhase cfg ph = .ok r ∧ C03.ConvergedAt s cfg ph r.v r.i r.st := by
  have hp : s.solvePhase cfg ph = .ok r := by
    unfold SSys.solvePhase
    rw [h]
    simp only [bind, Except.bind]
    rw [if_neg (by omega)]; rfl
  exact ⟨hp, C03.solvePhase_sound s cfg ph r hp⟩

/-! ### 4. the current handed to the callback is the solved one -/

/-- **batt_current_is_solved**, any tolerances, `maxiter ≥ 10000`. -/
theorem batt_current_is_solved_of_maxiter (s : SSys α) (src : Nat) (cfg : Cfg α) (hmax : 10000 ≤ cfg.maxiter)
    (inp : Input α) (hph : PhasesOk inp.phases) (k : Nat) (dt i : α)
    (h : (battLife inp (solveIOf s src cfg)).calls[k]? = some (dt, i)) :
    ∃ p bk r, inp.probe = .ret p ∧ stateBefore p inp.deplete k = some bk ∧
      (s.withSource src bk.volt bk.rs).solveRaw cfg (phaseAt inp.phases k) = .ok r ∧
      (s.withSource src bk.volt bk.rs).solvePhase cfg (phaseAt inp.phases k) = .ok r ∧
      i = vget r.i src ∧ r.iters ≤ 10000 ∧
      C03.ConvergedAt (s.withSource src bk.volt bk.rs) cfg (phaseAt inp.phases k) r.v r.i r.st ∧
      dt = stepTime inp.phases p.cap i k := by
  obtain ⟨p, bk, it, hp, hb, hs, hle, hd⟩ := call_args inp (solveIOf s src cfg) hph k dt i h
  obtain ⟨r, hr, hi, hit⟩ := (solveIOf_ok s src cfg _ _ _ _ _).mp hs
  subst hit
  obtain ⟨h1, h2⟩ := solveRaw_converged _ cfg _ r hr (by omega)
  exact ⟨p, bk, r, hp, hb, hr, h1, hi, hle, h2, hd⟩

/-- **batt_current_is_solved.**  If the `k`-th deplete call (from 0) happened and received `(Δt, I)`, then the probe
    answered some `p`, the previous callback returned some state `bₖ`, and with the Source at node `src` set to
    `(bₖ.volt, bₖ.rs)` the model's `_solve` at `batt_life`'s settings returns, for phase `k mod n` of the declared order,
    a state `r` that
      * took at most 10000 sweeps, so that `solve()`'s own acceptance test (`solvePhase`) returns the same `r`,
      * is a state on which the exit test fired (`C03.ConvergedAt`) — never an intermediate iterate,
      * has `I = i[src]`, the Source's current cell;
    and `Δt` is that phase's duration — without phases `(p.cap / I)·3.6`. -/
theorem batt_current_is_solved (s : SSys α) (src : Nat)
    (inp : Input α) (hph : PhasesOk inp.phases) (k : Nat) (dt i : α)
    (h : (battLife inp (solveIBatt s src)).calls[k]? = some (dt, i)) :
    ∃ p bk r, inp.probe = .ret p ∧ stateBefore p inp.deplete k = some bk ∧
      (s.withSource src bk.volt bk.rs).solveRaw battCfg (phaseAt inp.phases k) = .ok r ∧
      (s.withSource src bk.volt bk.rs).solvePhase battCfg (phaseAt inp.phases k) = .ok r ∧
      i = vget r.i src ∧ r.iters ≤ 10000 ∧
      C03.ConvergedAt (s.withSource src bk.volt bk.rs) battCfg (phaseAt inp.phases k) r.v r.i r.st ∧
      dt = stepTime inp.phases p.cap i k :=
  batt_current_is_solved_of_maxiter s src battCfg (le_refl _) inp hph k dt i h

/-- **batt_unconverged_raises.**  The probe answers a live state and `_solve` of the system with the Source set to it
    comes back with `iters > 10000` (i.e. `maxiter + 1`: the exit test never fired): `RuntimeError`, and the deplete
    callback is never handed that iterate.  (Later steps: `batt_current_is_solved` — every handed-out current is
    converged.) -/
theorem batt_unconverged_raises (s : SSys α) (src : Nat) (cfg : Cfg α) (inp : Input α) (hacc : Accepts inp)
    (p : BState α) (hp : inp.probe = .ret p) (hl : Live inp.cutoff p) (r : SolveOut α)
    (hs : (s.withSource src p.volt p.rs).solveRaw cfg ((Batt.phaseList inp.phases).getD 0 "") = .ok r)
    (hit : r.iters > 10000) :
    ∃ m, (battLife inp (solveIOf s src cfg)).outcome = .raised (.runtime m) ∧
      (battLife inp (solveIOf s src cfg)).calls = [] :=
  unconverged_raises inp _ hacc p hp hl (vget r.i src) r.iters
    ((solveIOf_ok s src cfg _ _ _ _ _).mpr ⟨r, hs, rfl, rfl⟩) hit

/-- **batt_solver_error_raises.**  An exception of the first solve (a voltage law's "Unstable system", …) leaves
    `batt_life` as it is; no deplete call is made. -/
theorem batt_solver_error_raises (s : SSys α) (src : Nat) (cfg : Cfg α) (inp : Input α) (hacc : Accepts inp)
    (p : BState α) (hp : inp.probe = .ret p) (hl : Live inp.cutoff p) (e : Err)
    (hs : (s.withSource src p.volt p.rs).solveRaw cfg ((Batt.phaseList inp.phases).getD 0 "") = .error e) :
    (battLife inp (solveIOf s src cfg)).outcome = .raised e ∧ (battLife inp (solveIOf s src cfg)).calls = [] := by
  rcases run_shape inp (solveIOf s src cfg) with ⟨hn, _⟩ | ⟨_, q, hq, hrun⟩
  · exact absurd ⟨hacc, p, hp⟩ hn
  · rw [hp] at hq; cases hq
    rw [hrun, finish_outcome, finish_calls,
      loop_err _ _ _ _ _ _ _ _ _ _ ((live_iff _ _).mpr hl) e ((solveIOf_error s src cfg _ _ _ _).mpr hs)]
    exact ⟨rfl, rfl⟩

/-! ### 5. the returned flag of a root Source, and its current law without side conditions -/

/-- what `_solve` returns satisfies every invariant of the sweeps that holds initially -/
theorem loop_invariant (s : SSys α) (cfg : Cfg α) (ph : String) (P : Vec α → Vec α → St → Prop)
    (hstep : ∀ v i st v' st', P v i st → s.fwdProp ph v i st = .ok (v', st') → P v' (s.backProp ph v' i st) st') :
    ∀ (fuel : Nat) (v i : Vec α) (st : St) (it : Nat) (r : SolveOut α),
      P v i st → s.loop cfg ph fuel v i st it = .ok r → P r.v r.i r.st := by
  intro fuel
  induction fuel with
  | zero =>
    intro v i st it r hP h
    simp only [SSys.loop, Except.ok.injEq] at h
    subst h; exact hP
  | succ n ih =>
    intro v i st it r hP h
    unfold SSys.loop at h
    cases hf : s.fwdProp ph v i st with
    | error e => rw [hf] at h; simp [bind, Except.bind] at h
    | ok q =>
      obtain ⟨v', st'⟩ := q
      rw [hf] at h
      simp only [bind, Except.bind] at h
      by_cases hc : converged cfg v v' i (s.backProp ph v' i st) = true
      · rw [if_pos hc] at h
        simp only [Except.ok.injEq] at h
        subst h; exact hP
      · rw [if_neg hc] at h
        exact ih _ _ _ _ _ (hstep _ _ _ _ _ hP hf) h

/-- the flag a root Source carries: `vo == 0.0` or not active in the phase -/
def srcFlag (c : Comp α) (ph : PhaseCtx α) : Bool := isZ c.vo || ph.inactive

/-- a forward sweep reproduces the flag of a root Source -/
theorem source_flag_step (c : Comp α) (hk : c.kind = .source) (vi : List α) (io : α) (ph : PhaseCtx α)
    (x : α) (b : Bool) (h : c.solvOutpVolt vi io ph [srcFlag c ph] = .ok (x, b)) : b = srcFlag c ph := by
  unfold Comp.solvOutpVolt at h
  simp only [hk, off0, List.headD_cons] at h
  unfold srcFlag at h ⊢
  cases hin : ph.inactive <;> cases hz : isZ c.vo <;> simp only [hin, hz, Bool.or_false, Bool.or_true,
    Bool.false_eq_true, if_false, if_true, Except.ok.injEq, Prod.mk.injEq] at h ⊢
  · split_ifs at h
    simp only [Except.ok.injEq, Prod.mk.injEq] at h
    exact h.2.symm
  · exact h.2.symm
  · exact h.2.symm
  · exact h.2.symm

/-- **source_flag_returned.**  In whatever `_solve` returns, the off-flag of a listed root Source is exactly
    "`vo = 0` or inactive in this phase" — it never depends on the iteration. -/
theorem source_flag_returned (s : SSys α) (cfg : Cfg α) (ph : String) (r : SolveOut α)
    (h : s.solveRaw cfg ph = .ok r) (n : Nat) (nd : SNode α) (hn : n ∈ s.topo) (hnode : s.node? n = some nd)
    (hpar : nd.parents = []) (hk : nd.comp.kind = .source) :
    r.st.getD n [] = [srcFlag nd.comp (nd.pconf.ctx ph)] := by
  have hlt := C01.node?_some_lt s n nd hnode
  unfold SSys.solveRaw at h
  refine loop_invariant s cfg ph (fun _ _ st => st.getD n [] = [srcFlag nd.comp (nd.pconf.ctx ph)]) ?_
    _ _ _ _ _ r ?_ h
  · intro v i st v' st' hP hf
    obtain ⟨_, _, hpt, _⟩ := C16.fwdProp_pointwise s ph v i st v' st' hf
    obtain ⟨x, b, hx, _, hb⟩ := hpt n hn hlt
    rw [(C01.sweep_args_root s ph v i st n nd hnode hpar).1, hP] at hx
    rw [hb, source_flag_step nd.comp hk _ _ _ x b hx]
  · show (s.init ph).2.2.getD n [] = _
    unfold SSys.init
    have hlt' : n < s.hidx := hlt
    simp only [Array.getD_eq_getD_getElem?, List.getElem?_toArray, List.getElem?_map,
      List.getElem?_range hlt', Option.map_some, Option.getD_some, hnode, hpar, List.isEmpty_nil, if_true]
    unfold srcFlag Comp.initOff
    simp [hk]

/-- with that flag the law the back sweep evaluates for a Source IS the documented one (no `Phys`, no liveness) -/
theorem source_curr_is_spec (c : Comp α) (hk : c.kind = .source) (vi : List α) (io vin : α) (ph : PhaseCtx α) :
    c.solvInpCurr vi io ph [srcFlag c ph] = specIi c vin io ph := by
  unfold Comp.solvInpCurr specIi calcInpCurrent srcFlag
  simp only [hk, off0, List.headD_cons]
  cases hin : ph.inactive <;> cases hz : isZ c.vo <;> simp

/-- **Source row of any returned phase, no side conditions.**  `C01.solve_source_row_current_law` without its
    hypotheses `sget r.st n = false` and `Phys`: the `Iin = Iout` cells of the row of a listed root Source show the
    source's current cell `i[n]`, `Vout = v[n]`, `Vin = v[n] + rs·i[n]`, and `i[n]` is within `atol + itol·|·|` of the
    documented `specIi` — the children's sum `Io'` for an active non-zero Source, 0 otherwise — where
    `Io' = ioOf … v' …` is the sum of the children's currents under the once-more-swept voltages `v'`
    (= the row-level sum when no child is a multi-input mux). -/
theorem source_row_current_law_noflag (s : SSys α) (cfg : Cfg α) (ph : String) (r : SolveOut α)
    (h : s.solvePhase cfg ph = .ok r) (ta : α) (d : String)
    (n : Nat) (nd : SNode α) (hn : n ∈ s.topo) (hnode : s.node? n = some nd) (hpar : nd.parents = [])
    (hk : nd.comp.kind = .source) :
    let row := (s.compRow ph ta r.v r.i r.st n d).1
    row.iout = some (vget r.i n) ∧ row.iin = some (vget r.i n) ∧ row.vout = some (vget r.v n) ∧
    row.vin = some (vget r.v n + nd.comp.rs * vget r.i n) ∧
    ∃ v' st', s.fwdProp ph r.v r.i r.st = .ok (v', st') ∧
      (∀ vin, |vget r.i n - specIi nd.comp vin (C01.ioOf s nd n r.i v' r.st) (nd.pconf.ctx ph)|
        ≤ cfg.atol + cfg.itol * |specIi nd.comp vin (C01.ioOf s nd n r.i v' r.st) (nd.pconf.ctx ph)|) ∧
      (C01.NoMuxChild s nd → C01.ioOf s nd n r.i v' r.st = C01.ioOf s nd n r.i r.v r.st) ∧
      (nd.comp.vo ≠ 0 → (nd.pconf.ctx ph).inactive = false →
        |vget r.i n - C01.ioOf s nd n r.i v' r.st| ≤ cfg.atol + cfg.itol * |C01.ioOf s nd n r.i v' r.st|) := by
  intro row
  have hlt := C01.node?_some_lt s n nd hnode
  have hraw : s.solveRaw cfg ph = .ok r := by
    unfold SSys.solvePhase at h
    cases hr : s.solveRaw cfg ph with
    | error e => rw [hr] at h; simp [bind, Except.bind] at h
    | ok r0 =>
      rw [hr] at h
      simp only [bind, Except.bind] at h
      split_ifs at h with hgt
      simp only [pure, Except.pure, Except.ok.injEq] at h
      rw [h]
  have hflag := source_flag_returned s cfg ph r hraw n nd hn hnode hpar hk
  obtain ⟨v', st', hf, _, _, hi⟩ := C01.solvePhase_exit s cfg ph r h
  obtain ⟨l1, l2, l3, l4, _⟩ := C01.row_root s ph ta r.v r.i r.st n nd hnode hpar d
  have key : ∀ vin, |vget r.i n - specIi nd.comp vin (C01.ioOf s nd n r.i v' r.st) (nd.pconf.ctx ph)|
        ≤ cfg.atol + cfg.itol * |specIi nd.comp vin (C01.ioOf s nd n r.i v' r.st) (nd.pconf.ctx ph)| := by
    intro vin
    have := hi n hlt
    rw [(C16.backProp_pointwise s ph v' r.i r.st).2.1 n hn hlt,
      (C01.sweep_args_root s ph v' r.i r.st n nd hnode hpar).2, hflag,
      source_curr_is_spec nd.comp hk _ _ vin] at this
    exact this
  refine ⟨l4, l3, l2, l1, v', st', hf, key,
    fun hno => C01.ioOf_indep s nd n r.i v' r.v r.st hnode hno, fun hvo hact => ?_⟩
  have := key 0
  have hz : isZ nd.comp.vo = false := (isZ_false_iff _).mpr hvo
  unfold specIi at this
  simp only [hk, hact, hz, Bool.or_false, Bool.false_eq_true, if_false] at this
  exact this

/-- a multi-input mux among the children is a property of kinds and links only: `withSource` keeps it -/
theorem noMuxChild_withSource (s : SSys α) (src : Nat) (vo rs : α) (nd : SNode α) (h : C01.NoMuxChild s nd) :
    C01.NoMuxChild (s.withSource src vo rs) (nd.setVoRs vo rs) := by
  intro c hc cd hcd
  rw [withSource_node?] at hcd
  split_ifs at hcd with hcs
  · cases hs : s.node? src with
    | none => rw [hs] at hcd; simp at hcd
    | some sd =>
      rw [hs] at hcd
      simp only [Option.map_some, Option.some.injEq] at hcd
      subst hcd
      subst hcs
      exact h c hc sd hs
  · exact h c hc cd hcd

/-! ### 6. the handed-out current obeys the Source's law in that state -/

/-- **batt_current_source_law**, any tolerances, `maxiter ≥ 10000`. -/
theorem batt_current_source_law_of_maxiter (s : SSys α) (src : Nat) (cfg : Cfg α) (hmax : 10000 ≤ cfg.maxiter)
    (nd : SNode α) (hnode : s.node? src = some nd) (hpar : nd.parents = []) (hk : nd.comp.kind = .source)
    (hn : src ∈ s.topo)
    (inp : Input α) (hph : PhasesOk inp.phases) (k : Nat) (dt i : α)
    (h : (battLife inp (solveIOf s src cfg)).calls[k]? = some (dt, i)) (ta : α) (d : String) :
    ∃ p bk r, inp.probe = .ret p ∧ stateBefore p inp.deplete k = some bk ∧
      (s.withSource src bk.volt bk.rs).solvePhase cfg (phaseAt inp.phases k) = .ok r ∧
      (s.withSource src bk.volt bk.rs).node? src = some (nd.setVoRs bk.volt bk.rs) ∧
      (let row := ((s.withSource src bk.volt bk.rs).compRow (phaseAt inp.phases k) ta r.v r.i r.st src d).1
       row.iout = some i ∧ row.iin = some i ∧ row.vout = some (vget r.v src) ∧
       row.vin = some (vget r.v src + bk.rs * i)) ∧
      ∃ v' st', (s.withSource src bk.volt bk.rs).fwdProp (phaseAt inp.phases k) r.v r.i r.st = .ok (v', st') ∧
        (let Io' := C01.ioOf (s.withSource src bk.volt bk.rs) (nd.setVoRs bk.volt bk.rs) src r.i v' r.st
         let Io := C01.ioOf (s.withSource src bk.volt bk.rs) (nd.setVoRs bk.volt bk.rs) src r.i r.v r.st
         let ctx := nd.pconf.ctx (phaseAt inp.phases k)
         (∀ vin, |i - specIi (nd.setVoRs bk.volt bk.rs).comp vin Io' ctx|
            ≤ cfg.atol + cfg.itol * |specIi (nd.setVoRs bk.volt bk.rs).comp vin Io' ctx|) ∧
         (C01.NoMuxChild s nd → Io' = Io) ∧
         (bk.volt ≠ 0 → ctx.inactive = false → |i - Io'| ≤ cfg.atol + cfg.itol * |Io'|)) := by
  obtain ⟨p, bk, r, hp, hb, _, hs, hi, _, _, _⟩ :=
    batt_current_is_solved_of_maxiter s src cfg hmax inp hph k dt i h
  have hnode' : (s.withSource src bk.volt bk.rs).node? src = some (nd.setVoRs bk.volt bk.rs) := by
    rw [withSource_node?, if_pos rfl, hnode]; rfl
  obtain ⟨a1, a2, a3, a4, v', st', hf, b1, b2, b3⟩ :=
    source_row_current_law_noflag (s.withSource src bk.volt bk.rs) cfg (phaseAt inp.phases k) r hs ta d src
      (nd.setVoRs bk.volt bk.rs) hn hnode' hpar hk
  subst hi
  exact ⟨p, bk, r, hp, hb, hs, hnode', ⟨a1, a2, a3, a4⟩, v', st', hf, b1,
    fun hno => b2 (noMuxChild_withSource s src _ _ nd hno), b3⟩

/-- **batt_current_source_law.**  `src` is a listed root Source of `s`.  If the `k`-th deplete call received
    `(Δt, I)`, then in the converged state `r` of `batt_current_is_solved` (the system with the Source set to the
    previous callback's `(volt, rs)`, phase `k mod n`):
      * the Source's row of the result table shows `Iout = Iin = I`, `Vout = v[src]`, `Vin = v[src] + rs·I`;
      * `I` is within `1e-8 + 1e-6·|·|` of the documented source current `specIi` at `Io'`, the sum of the currents
        its children draw (taken under the once-more-swept voltages `v'`; the row-level sum `Io` of the children's
        `Iin` cells when no child is a multi-input mux);
      * for a non-zero voltage and a Source active in the phase: `|I − Io'| ≤ 1e-8 + 1e-6·|Io'|`. -/
theorem batt_current_source_law (s : SSys α) (src : Nat)
    (nd : SNode α) (hnode : s.node? src = some nd) (hpar : nd.parents = []) (hk : nd.comp.kind = .source)
    (hn : src ∈ s.topo)
    (inp : Input α) (hph : PhasesOk inp.phases) (k : Nat) (dt i : α)
    (h : (battLife inp (solveIBatt s src)).calls[k]? = some (dt, i)) (ta : α) (d : String) :
    ∃ p bk r, inp.probe = .ret p ∧ stateBefore p inp.deplete k = some bk ∧
      (s.withSource src bk.volt bk.rs).solvePhase battCfg (phaseAt inp.phases k) = .ok r ∧
      (s.withSource src bk.volt bk.rs).node? src = some (nd.setVoRs bk.volt bk.rs) ∧
      (let row := ((s.withSource src bk.volt bk.rs).compRow (phaseAt inp.phases k) ta r.v r.i r.st src d).1
       row.iout = some i ∧ row.iin = some i ∧ row.vout = some (vget r.v src) ∧
       row.vin = some (vget r.v src + bk.rs * i)) ∧
      ∃ v' st', (s.withSource src bk.volt bk.rs).fwdProp (phaseAt inp.phases k) r.v r.i r.st = .ok (v', st') ∧
        (let Io' := C01.ioOf (s.withSource src bk.volt bk.rs) (nd.setVoRs bk.volt bk.rs) src r.i v' r.st
         let Io := C01.ioOf (s.withSource src bk.volt bk.rs) (nd.setVoRs bk.volt bk.rs) src r.i r.v r.st
         let ctx := nd.pconf.ctx (phaseAt inp.phases k)
         (∀ vin, |i - specIi (nd.setVoRs bk.volt bk.rs).comp vin Io' ctx|
            ≤ 1 / 100000000 + 1 / 1000000 * |specIi (nd.setVoRs bk.volt bk.rs).comp vin Io' ctx|) ∧
         (C01.NoMuxChild s nd → Io' = Io) ∧
         (bk.volt ≠ 0 → ctx.inactive = false → |i - Io'| ≤ 1 / 100000000 + 1 / 1000000 * |Io'|)) :=
  batt_current_source_law_of_maxiter s src battCfg (le_refl _) nd hnode hpar hk hn inp hph k dt i h ta d

/-! ### 7. a run of `_solve` that uses up all its sweeps (for the non-vacuity of `batt_unconverged_raises`) -/

/-- one pass of `_solve` from `x` does not meet the exit test and leads to `y` -/
def stepsTo (s : SSys α) (cfg : Cfg α) (ph : String) (x y : Vec α × Vec α × St) : Bool :=
  match s.fwdProp ph x.1 x.2.1 x.2.2 with
  | .ok (v', st') =>
    !converged cfg x.1 v' x.2.1 (s.backProp ph v' x.2.1 x.2.2) &&
      decide ((v', s.backProp ph v' x.2.1 x.2.2, st') = y)
  | .error _ => false

theorem not_convergedAt_of_stepsTo (s : SSys α) (cfg : Cfg α) (ph : String) (x y : Vec α × Vec α × St)
    (h : stepsTo s cfg ph x y = true) : ¬ C03.ConvergedAt s cfg ph x.1 x.2.1 x.2.2 := by
  rintro ⟨v', st', hf, hc⟩
  unfold stepsTo at h
  rw [hf] at h
  simp only [Bool.and_eq_true, Bool.not_eq_true', decide_eq_true_eq] at h
  rw [hc] at h
  exact absurd h.1 (by simp)

/-- along a sequence of states linked by passes that miss the exit test, `_solve` uses up all its sweeps -/
theorem loop_exhausts (s : SSys α) (cfg : Cfg α) (ph : String) (X : Nat → Vec α × Vec α × St)
    (h : ∀ j, stepsTo s cfg ph (X j) (X (j + 1)) = true) :
    ∀ (fuel j it : Nat), s.loop cfg ph fuel (X j).1 (X j).2.1 (X j).2.2 it =
      .ok ⟨(X (j + fuel)).1, (X (j + fuel)).2.1, it + fuel, (X (j + fuel)).2.2⟩ := by
  intro fuel
  induction fuel with
  | zero => intro j it; simp [SSys.loop]
  | succ n ih =>
    intro j it
    have hj := h j
    unfold stepsTo at hj
    unfold SSys.loop
    cases hf : s.fwdProp ph (X j).1 (X j).2.1 (X j).2.2 with
    | error e => rw [hf] at hj; simp at hj
    | ok q =>
      obtain ⟨v', st'⟩ := q
      rw [hf] at hj
      simp only [Bool.and_eq_true, Bool.not_eq_true', decide_eq_true_eq] at hj
      simp only [bind, Except.bind, hj.1, Bool.false_eq_true, if_false]
      have := ih (j + 1) (it + 1)
      rw [← hj.2] at this
      simp only at this
      rw [this]
      congr 2 <;> first | omega | (congr 2; omega) | (congr 3; omega)

/-! ### 8. non-vacuity: Source(4 V, 0.1 Ω) → ILoad(0.5 A) over ℚ; the battery is probed at (4 V, 0.1 Ω) and
    (3.9 V, 0.11 Ω) -/

section Examples

def dSrc : Comp ℚ := { name := "B", kind := .source, par := .const 0, vo := 4, rs := 1 / 10 }
def dLoad : Comp ℚ := { name := "L", kind := .iload, par := .const 0, ii := 1 / 2 }
def dN0 : SNode ℚ := { comp := dSrc, parents := [], childs := [1], pconf := .names [] }
def dN1 : SNode ℚ := { comp := dLoad, parents := [0], childs := [] }
def dSys : SSys ℚ := { nodes := #[some dN0, some dN1], topo := [0, 1] }

/-- probe (1 Ah, 4 V, 0.1 Ω); deplete answers (0.5 Ah, 3.9 V, 0.11 Ω), then (0 Ah, 3.8 V, 0.12 Ω): two solves -/
def dInput : Input ℚ where
  reg := ⟨[("B", .source), ("L", .iload)], [("B", ""), ("L", "")]⟩
  battery := "B"
  vo := 4
  rs := 1 / 10
  cutoff := 3
  phases := []
  probe := .ret ⟨1, 4, 1 / 10⟩
  deplete := [.ret ⟨1 / 2, 39 / 10, 11 / 100⟩, .ret ⟨0, 38 / 10, 12 / 100⟩]

/-- the run, with the model's own solver: both deplete calls get 0.5 A and Δt = (1 / 0.5)·3.6 s -/
theorem dCalls : (battLife dInput (solveIBatt dSys 0)).calls = [(36 / 5, 1 / 2), (36 / 5, 1 / 2)] := by
  decide +kernel
example : (battLife dInput (solveIBatt dSys 0)).outcome = .ok ∧
    (battLife dInput (solveIBatt dSys 0)).log = [⟨0, 1, 4, 1 / 10⟩, ⟨36 / 5, 1 / 2, 39 / 10, 11 / 100⟩] ∧
    (battLife dInput (solveIBatt dSys 0)).vo = 4 ∧ (battLife dInput (solveIBatt dSys 0)).rs = 1 / 10 := by
  decide +kernel
/-- the second solve: Source at (3.9 V, 0.11 Ω) → 3.845 V, 0.5 A, 2 sweeps -/
example : (dSys.withSource 0 (39 / 10) (11 / 100)).solveRaw battCfg "" =
    .ok ⟨#[769 / 200, 0], #[1 / 2, 1 / 2], 2, #[[false], [false]]⟩ := by decide +kernel

example := withSource_other_nodes dSys 0 (39 / 10) (11 / 100)
example := withSource_src_node dSys 0 (39 / 10) (11 / 100) dN0 rfl
example : (dSys.withSource 0 (39 / 10) (11 / 100)).withSource 0 4 (1 / 10) = dSys :=
  withSource_restore_after dSys 0 dN0 rfl _ _
example : (dSys.withSource 0 4 (1 / 10)).withSource 0 (39 / 10) (11 / 100) = dSys.withSource 0 (39 / 10) (11 / 100) :=
  withSource_twice dSys 0 _ _ _ _
/-- `withSource` really changes the solved state: 3.95 V at the probed values, 3.845 V at the second ones -/
example : ((dSys.withSource 0 4 (1 / 10)).solveRaw battCfg "").toOption.map (fun r => vget r.v 0) = some (79 / 20) ∧
    ((dSys.withSource 0 (39 / 10) (11 / 100)).solveRaw battCfg "").toOption.map (fun r => vget r.v 0) =
      some (769 / 200) := by decide +kernel

/-- `batt_current_is_solved` at the second call (all hypotheses hold) … -/
example := batt_current_is_solved dSys 0 dInput (Or.inl rfl) 1 (36 / 5) (1 / 2) (by rw [dCalls]; rfl)
/-- … and `batt_current_source_law`: node 0 is a listed root Source -/
example := batt_current_source_law dSys 0 dN0 rfl rfl rfl (by decide) dInput (Or.inl rfl) 1 (36 / 5) (1 / 2)
  (by rw [dCalls]; rfl) 25 "none"
/-- the Source row in that state: Vin = 3.845 + 0.11·0.5 = 3.9, Iout = 0.5 -/
example : let row := ((dSys.withSource 0 (39 / 10) (11 / 100)).compRow "" 25 #[769 / 200, 0] #[1 / 2, 1 / 2]
      #[[false], [false]] 0 "none").1
    row.vin = some (39 / 10) ∧ row.vout = some (769 / 200) ∧ row.iin = some (1 / 2) ∧ row.iout = some (1 / 2) := by
  decide +kernel
example : (dN0.pconf.ctx "").inactive = false ∧ C01.NoMuxChild dSys dN0 := by
  refine ⟨rfl, ?_⟩
  intro c hc cd hcd
  have : c = 1 := by simpa [dN0] using hc
  subst this
  have : cd = dN1 := by
    have h1 : dSys.node? 1 = some dN1 := rfl
    rw [h1] at hcd; exact (Option.some.inj hcd).symm
  subst this
  exact Or.inl (by decide)
example := source_flag_returned (dSys.withSource 0 (39 / 10) (11 / 100)) battCfg ""
  ⟨#[769 / 200, 0], #[1 / 2, 1 / 2], 2, #[[false], [false]]⟩ (by decide +kernel) 0 (dN0.setVoRs (39 / 10) (11 / 100))
  (by decide) rfl rfl rfl

/-! a system on which `_solve` never meets its exit test: Source(5 V, 1 Ω) → LinReg(10 V, dropout 1 V) → RLoad(1 Ω).
    The regulator is in dropout, the loop gain of the sweep is −rs/R = −1 with a delay of three sweeps: the iterates
    cycle with period 6 (source voltage 5, 5, 5, 1, 1, 1, …) although the steady state (3 V, 2 A) exists. -/

def uSrc : Comp ℚ := { name := "B", kind := .source, par := .const 0, vo := 5, rs := 1 }
def uReg : Comp ℚ := { name := "R", kind := .linreg, par := .const 0, vo := 10, vdrop := 1 }
def uLoad : Comp ℚ := { name := "L", kind := .rload, par := .const 0, rs := 1 }
def uN0 : SNode ℚ := { comp := uSrc, parents := [], childs := [1], pconf := .names [] }
def uSys : SSys ℚ :=
  { nodes := #[some uN0, some { comp := uReg, parents := [0], childs := [2], pconf := .names [] },
               some { comp := uLoad, parents := [1], childs := [] }],
    topo := [0, 1, 2] }
def uSt : St := #[[false], [false], [false]]
/-- the six states of the cycle (reached after one sweep) -/
def uCyc : List (Vec ℚ × Vec ℚ × St) :=
  [(#[5, 4, 0], #[0, 0, 4], uSt), (#[5, 4, 0], #[0, 4, 4], uSt), (#[1, 4, 0], #[4, 4, 4], uSt),
   (#[1, 0, 0], #[4, 4, 0], uSt), (#[1, 0, 0], #[4, 0, 0], uSt), (#[5, 0, 0], #[0, 0, 0], uSt)]
/-- the iterates of `_solve` on `uSys`: the initial guess, then round the cycle -/
def uX (j : Nat) : Vec ℚ × Vec ℚ × St :=
  match j with
  | 0 => uSys.init ""
  | m + 1 => uCyc.getD (m % 6) default

theorem uCycle : ∀ k, k < 6 →
    stepsTo uSys battCfg "" (uCyc.getD k default) (uCyc.getD ((k + 1) % 6) default) = true := by decide +kernel

theorem uSteps (j : Nat) : stepsTo uSys battCfg "" (uX j) (uX (j + 1)) = true := by
  cases j with
  | zero => decide +kernel
  | succ m =>
    have := uCycle (m % 6) (Nat.mod_lt _ (by norm_num))
    have e : (m % 6 + 1) % 6 = (m + 1) % 6 := by omega
    rw [e] at this
    exact this

/-- `_solve` on `uSys` comes back after `maxiter + 1 = 10001` sweeps without having met the exit test -/
theorem uNonconv : uSys.solveRaw battCfg "" = .ok ⟨#[1, 0, 0], #[4, 0, 0], 10001, uSt⟩ := by
  unfold SSys.solveRaw
  have := loop_exhausts uSys battCfg "" uX uSteps (10000 + 1) 0 0
  exact this

/-- the battery is probed at the Source's own (5 V, 1 Ω) -/
def uInput : Input ℚ :=
  { dInput with vo := 5, rs := 1, probe := .ret ⟨1, 5, 1⟩, deplete := [.ret ⟨0, 5, 1⟩] }

/-- non-vacuity of `batt_unconverged_raises`: RuntimeError, the callback is not called -/
example : ∃ m, (battLife uInput (solveIOf uSys 0 battCfg)).outcome = .raised (.runtime m) ∧
    (battLife uInput (solveIOf uSys 0 battCfg)).calls = [] :=
  batt_unconverged_raises uSys 0 battCfg uInput ⟨by decide +kernel, "B", by decide +kernel⟩ ⟨1, 5, 1⟩ rfl
    ⟨by norm_num [uInput, dInput], by norm_num [uInput, dInput]⟩ _
    (by rw [show uSys.withSource 0 5 1 = uSys from withSource_restore uSys 0 uN0 rfl]; exact uNonconv)
    (by norm_num)

/-- non-vacuity of `batt_solver_error_raises`: a battery probed at 4 V / 10 Ω cannot feed 0.5 A ("Unstable system") -/
example : (battLife { dInput with probe := .ret ⟨1, 4, 10⟩ } (solveIOf dSys 0 battCfg)).outcome =
      .raised (.unstable "B") ∧
    (battLife { dInput with probe := .ret ⟨1, 4, 10⟩ } (solveIOf dSys 0 battCfg)).calls = [] :=
  batt_solver_error_raises dSys 0 battCfg _ ⟨by decide +kernel, "B", by decide +kernel⟩ ⟨1, 4, 10⟩ rfl
    ⟨by norm_num [dInput], by norm_num [dInput]⟩ _ (by decide +kernel)

/-- **maxiter_hypothesis_needed.**  `batt_current_is_solved_of_maxiter` fails without `10000 ≤ cfg.maxiter`: with
    `maxiter = 0` the model's `_solve` returns after one sweep (`iters = 1 ≤ 10000`, so `batt_life` accepts it), the
    callback is handed the current 0 A of a state that is NOT converged. -/
theorem maxiter_hypothesis_needed :
    ∃ (cfg : Cfg ℚ) (dt : ℚ) (r : SolveOut ℚ),
      (battLife uInput (solveIOf uSys 0 cfg)).calls[0]? = some (dt, vget r.i 0) ∧
      (uSys.withSource 0 5 1).solveRaw cfg "" = .ok r ∧ r.iters ≤ 10000 ∧
      ¬ C03.ConvergedAt (uSys.withSource 0 5 1) cfg "" r.v r.i r.st := by
  refine ⟨{ (battCfg : Cfg ℚ) with maxiter := 0 }, 0, ⟨#[5, 4, 0], #[0, 0, 4], 1, uSt⟩,
    by decide +kernel, by decide +kernel, by norm_num, ?_⟩
  rw [show uSys.withSource 0 5 1 = uSys from withSource_restore uSys 0 uN0 rfl]
  exact not_convergedAt_of_stepsTo uSys _ "" (uCyc.getD 0 default) (uCyc.getD 1 default) (uCycle 0 (by norm_num))

end Examples

end C18
end SysLoss
