/-
  Props/C06 — load phases: each phase is solved with each component's phase behaviour.

   * `ctx_names`, `ctx_table`   : what a phase configuration means for a phase (active list / load table).
   * `active_eq_nophase`        : a non-load component that is active in the phase (listed, or without a
                                  non-empty configuration) obeys exactly its phase-free laws.
   * `load_phase_behaviour`     : a load in phase `p` obeys the phase-free laws of the same load with its
                                  value replaced by the one configured for `p`, or by its sleep value
                                  (`pwrs`, `iis`; an RLoad keeps its resistance) when `p` is absent.
   * (inactive sources / converters / regulators / switches / muxes: `Props/C04`.)
   * `phaseList_*`, `solve_single`, `solve_all_entry` : `solve(phase=p)` is the phase-`p` slice of the
                                  all-phase result; phases come in declaration order; unknown → ValueError.
-/
import SysLoss.Proofs.Basic
import SysLoss.Model.Table

set_option linter.unusedSectionVars false
set_option linter.unusedVariables false

namespace SysLoss
namespace C06
variable {α : Type} [Field α] [LinearOrder α] [IsStrictOrderedRing α]

/-- list form: the component is inactive in `p` iff the list is non-empty and does not contain `p` -/
theorem ctx_names (l : List String) (p : String) :
    ((PhaseConf.names l : PhaseConf α).ctx p).inactive = true ↔ l ≠ [] ∧ p ∉ l := by
  unfold PhaseConf.ctx PhaseCtx.inactive
  cases l with
  | nil => simp
  | cons a t => simp

/-- table form: configured iff non-empty; listed iff `p` is a key; value = the entry for `p` -/
theorem ctx_table (t : List (String × α)) (p : String) :
    ((PhaseConf.table t).ctx p).hasConf = (!t.isEmpty) ∧
    (((PhaseConf.table t).ctx p).listed = true ↔ ∃ x, t.lookup p = some x) ∧
    (∀ x, t.lookup p = some x → ((PhaseConf.table t).ctx p).val = x) := by
  unfold PhaseConf.ctx
  refine ⟨rfl, ?_, ?_⟩
  · simp [Option.isSome_iff_exists]
  · intro x hx; simp [hx]

/-- **Active = phase-free.**  For every kind that is not a load, if the component is not inactive in
    the phase then all three laws are those of a system without phases. -/
theorem active_eq_nophase (c : Comp α)
    (hk : c.kind ≠ .pload ∧ c.kind ≠ .iload ∧ c.kind ≠ .rload)
    (ph : PhaseCtx α) (hact : ph.inactive = false) (vi : List α) (io : α) (off : List Bool)
    (vin vo ii ta : α) :
    c.solvOutpVolt vi io ph off = c.solvOutpVolt vi io PhaseCtx.none off ∧
    c.solvInpCurr vi io ph off = c.solvInpCurr vi io PhaseCtx.none off ∧
    c.solvPwrLoss vin vo ii io ta ph = c.solvPwrLoss vin vo ii io ta PhaseCtx.none ∧
    c.initVolt ph = c.initVolt PhaseCtx.none ∧ c.initCurr ph = c.initCurr PhaseCtx.none := by
  have hnone : (PhaseCtx.none : PhaseCtx α).inactive = false := rfl
  unfold Comp.solvOutpVolt Comp.solvInpCurr Comp.solvPwrLoss Comp.initVolt Comp.initCurr finishPL
  obtain ⟨h1, h2, h3⟩ := hk
  cases hkk : c.kind <;> simp_all

/-- the phase-free component a load behaves as in a phase -/
def behave (c : Comp α) (ph : PhaseCtx α) : Comp α :=
  match c.kind with
  | .pload => { c with pwr := loadVal c.pwr c.pwrs ph }
  | .iload => { c with ii := loadVal c.ii c.iis ph }
  | .rload => { c with rs := if ph.hasConf && ph.listed then ph.val else c.rs }
  | _ => c

/-- the documented choice of the load value -/
theorem loadVal_spec (main sleep : α) (ph : PhaseCtx α) :
    loadVal main sleep ph =
      if ph.hasConf = false then main else if ph.listed = false then sleep else ph.val := by
  unfold loadVal
  cases ph.hasConf <;> cases ph.listed <;> simp

/-- **Load phase behaviour.**  In a phase, a load obeys the phase-free laws of `behave c ph`. -/
theorem load_phase_behaviour (c : Comp α) (hk : c.kind = .pload ∨ c.kind = .iload ∨ c.kind = .rload)
    (ph : PhaseCtx α) (vi : List α) (io : α) (off : List Bool) (vin vo ii ta : α) :
    c.solvOutpVolt vi io ph off = (behave c ph).solvOutpVolt vi io PhaseCtx.none off ∧
    c.solvInpCurr vi io ph off = (behave c ph).solvInpCurr vi io PhaseCtx.none off ∧
    c.solvPwrLoss vin vo ii io ta ph = (behave c ph).solvPwrLoss vin vo ii io ta PhaseCtx.none := by
  unfold behave Comp.solvOutpVolt Comp.solvInpCurr Comp.solvPwrLoss
  rcases hk with hk | hk | hk <;> simp [hk, loadVal, PhaseCtx.none]

/-! ### `solve(phase = …)` -/

theorem phaseList_unknown (phases : List (String × α)) (p : String) (hp : p ≠ "")
    (hnot : p ∉ phases.map (·.1)) : ∃ m, phaseList phases p = .error (.value m) := by
  unfold phaseList
  have h1 : (p != "") = true := by simpa using hp
  have h2 : (phases.map (·.1)).contains p = false := by simpa using hnot
  rw [if_pos h1, h2]
  exact ⟨_, rfl⟩

theorem phaseList_known (phases : List (String × α)) (p : String) (hp : p ≠ "")
    (hin : p ∈ phases.map (·.1)) : phaseList phases p = .ok [p] := by
  unfold phaseList
  have h1 : (p != "") = true := by simpa using hp
  have h2 : (phases.map (·.1)).contains p = true := by simpa using hin
  rw [if_pos h1, h2]
  rfl

/-- all phases, in declaration order (or the single phase-free run) -/
theorem phaseList_all (phases : List (String × α)) :
    phaseList phases "" = .ok (if phases.isEmpty then [""] else phases.map (·.1)) := by
  unfold phaseList
  cases phases <;> simp

/-- `solve(phase = p)` for a declared phase: exactly the table assembled from that phase's solution -/
theorem solve_single (s : SSys α) (cfg : Cfg α) (p : String) (ta : α) (hp : p ≠ "")
    (hin : p ∈ s.phases.map (·.1)) :
    s.solve cfg p ta =
      (s.solvePhase cfg p).map fun r => ⟨[(p, s.phaseTable p ta r.v r.i r.st)], none⟩ := by
  unfold SSys.solve
  rw [phaseList_known s.phases p hp hin]
  simp only [bind, Except.bind, List.mapM_cons, List.mapM_nil, pure, Except.pure]
  cases s.solvePhase cfg p with
  | error e => rfl
  | ok r => simp [Except.map, SSys.assemble, Except.bind]

/-- every per-phase table of the all-phase result is the table assembled from that phase's own solution -/
theorem mapM_entries (s : SSys α) (cfg : Cfg α) :
    ∀ (pl : List String) (outs : List (String × Vec α × Vec α × St)),
      pl.mapM (fun ph => do
        let r ← s.solvePhase cfg ph
        pure (ph, r.v, r.i, r.st)) = Except.ok outs →
      outs.map (·.1) = pl ∧
      ∀ o ∈ outs, ∃ r, s.solvePhase cfg o.1 = .ok r ∧ o = (o.1, r.v, r.i, r.st) := by
  intro pl
  induction pl with
  | nil =>
    intro outs h
    simp only [List.mapM_nil, pure, Except.pure, Except.ok.injEq] at h
    subst h; simp
  | cons ph rest ih =>
    intro outs h
    simp only [List.mapM_cons, bind, Except.bind, pure, Except.pure] at h
    cases hr : s.solvePhase cfg ph with
    | error e => rw [hr] at h; simp at h
    | ok r =>
      rw [hr] at h
      simp only at h
      cases hrest : rest.mapM (fun ph => do
        let r ← s.solvePhase cfg ph
        pure (ph, r.v, r.i, r.st)) with
      | error e =>
        simp only [bind, Except.bind, pure, Except.pure] at hrest
        rw [hrest] at h; simp at h
      | ok outs' =>
        simp only [bind, Except.bind, pure, Except.pure] at hrest
        rw [hrest] at h
        simp only [Except.ok.injEq] at h
        subst h
        obtain ⟨h1, h2⟩ := ih outs' (by simpa [bind, Except.bind, pure, Except.pure] using hrest)
        refine ⟨by simp [h1], ?_⟩
        intro o ho
        rcases List.mem_cons.mp ho with rfl | ho'
        · exact ⟨r, hr, rfl⟩
        · exact h2 o ho'

/-- **All-phase result.**  `solve()` lists the phases in declaration order and the table of each phase
    is `phaseTable` of that phase's own converged solution — the same object `solve(phase = p)` returns
    (`solve_single`), so the single-phase call is the slice of the all-phase one. -/
theorem solve_all_entry (s : SSys α) (cfg : Cfg α) (ta : α) (T : Table α)
    (h : s.solve cfg "" ta = .ok T) :
    T.phases.map (·.1) = (if s.phases.isEmpty then [""] else s.phases.map (·.1)) ∧
    ∀ e ∈ T.phases, ∃ r, s.solvePhase cfg e.1 = .ok r ∧ e.2 = s.phaseTable e.1 ta r.v r.i r.st := by
  unfold SSys.solve at h
  rw [phaseList_all] at h
  simp only [bind, Except.bind, pure, Except.pure] at h
  generalize hpl : (if s.phases.isEmpty then [""] else s.phases.map (·.1)) = pl at h ⊢
  cases hm : pl.mapM (fun ph => do
      let r ← s.solvePhase cfg ph
      pure (ph, r.v, r.i, r.st)) with
  | error e =>
    simp only [bind, Except.bind, pure, Except.pure] at hm
    rw [hm] at h; simp at h
  | ok outs =>
    have hm' := hm
    simp only [bind, Except.bind, pure, Except.pure] at hm
    rw [hm] at h
    simp only [Except.ok.injEq] at h
    subst h
    obtain ⟨h1, h2⟩ := mapM_entries s cfg pl outs hm'
    unfold SSys.assemble
    simp only [List.map_map]
    refine ⟨?_, ?_⟩
    · rw [← h1]; apply List.map_congr_left; intro o _; rfl
    · intro e he
      simp only [List.mem_map] at he
      obtain ⟨o, ho, rfl⟩ := he
      obtain ⟨r, hr, ho'⟩ := h2 o ho
      refine ⟨r, hr, ?_⟩
      rw [ho']

end C06
end SysLoss
