/-
  Props/C17 — analyses are read-only (clauses 1, 2, 4 of C17; clause 3 — batt_life restores the battery — is
  `Props/C17Batt`).

  What an analysis method of system.py can write is, by inspection of every `self.… =` / `attrs[…] =` statement in
  system.py and diagram.py: the caches `_parents, _childs, _topo_nodes` (`_rel_update`), `_phase_lkup`
  (`_set_phase_lkup`) and `attrs["hidx"]` (`_sys_vars`) — never the graph or one of the six registries.  And every
  analysis REBUILDS the caches it reads before reading them (`solve / rail_rep / params / limits / phases / save /
  batt_life` start with `_rel_update()`; `_sys_init` calls `_set_phase_lkup()`; `tree / make_diag / plot_interp` read
  no cache).  `AState` models exactly that: the system state of Model/Graph plus a cache record; `analyse`
  rebuilds the cache from the system state (the topological order and what the report computes from the refreshed
  state are parameters: rustworkx's choice resp. Model/Solver, Model/Table — arbitrary here).

    analysis_preserves_sys     an analysis leaves graph and registries literally unchanged, hence `abs` too
    analysis_output_fresh      its output does not depend on the caches it finds (stale or not)
    interleaving_invisible     in any interleaving of edits and analyses, dropping an analysis changes neither the system
                               state reached nor the output of any later analysis
    solve_idempotent           the same analysis run twice in a row gives the same output
    read_only_nonvacuous       kernel-evaluated instance with caches made stale by edits in between

  That the implementation's analyses really write nothing else is the correspondence part of the C17 check
  (every public report and every argument object compared before / after each call).
-/
import SysLoss.Props.C16
import SysLoss.Props.C17Batt

set_option linter.unusedSectionVars false
set_option linter.unusedVariables false
set_option linter.unusedSimpArgs false

namespace SysLoss
namespace C17
section
variable {π ν : Type} [CompLike π]

/-- `_parents`, `_childs`, `_topo_nodes`, `_phase_lkup`, `attrs["hidx"]` -/
structure Cache (ν : Type) where
  parents : List (Nat × Except String (List (Option Nat)))
  childs  : List (Nat × List Nat)
  topo    : List Nat
  lkup    : List (Nat × Option (PhaseConf ν))
  hidx    : Nat

structure AState (π ν : Type) where
  sys   : Sys π ν
  cache : Cache ν

/-- `_rel_update()` + `_set_phase_lkup()` + `_sys_vars()`: everything recomputed from the system state;
    `topo` is rustworkx's topological order of the current graph -/
def refresh (topo : Sys π ν → List Nat) (s : Sys π ν) : Cache ν :=
  { parents := s.ids.map fun n => (n, s.parentsOf n)
    childs := s.ids.map fun n => (n, s.succs n)
    topo := topo s
    lkup := s.ids.map fun n => (n, s.phaseLkup n)
    hidx := s.ids.foldl max 0 + 1 }

/-- one call in a session: an edit / configuration call of Model/Graph, or an analysis `r` -/
inductive Call (π ν ρ : Type) where
  | edit (op : Op π ν)
  | analyse (r : ρ)

variable {ρ Out : Type}

/-- an analysis: rebuild the caches, compute the report from the system state and the fresh caches;
    an edit: `step`, caches untouched (they go stale) -/
def call (topo : Sys π ν → List Nat) (report : ρ → Sys π ν → Cache ν → Out) (a : AState π ν) :
    Call π ν ρ → AState π ν × Option Out
  | .edit op => ({ a with sys := (a.sys.step op).1 }, none)
  | .analyse r =>
    let c := refresh topo a.sys
    ({ sys := a.sys, cache := c }, some (report r a.sys c))

/-- the system state and the outputs of a session -/
def session (topo : Sys π ν → List Nat) (report : ρ → Sys π ν → Cache ν → Out) (a : AState π ν) :
    List (Call π ν ρ) → AState π ν × List Out
  | [] => (a, [])
  | c :: cs =>
    let r := call topo report a c
    let rest := session topo report r.1 cs
    (rest.1, (match r.2 with | some o => [o] | none => []) ++ rest.2)

variable (topo : Sys π ν → List Nat) (report : ρ → Sys π ν → Cache ν → Out)

/-- C17 (1): an analysis changes neither the graph nor a registry -/
theorem analysis_preserves_sys (a : AState π ν) (r : ρ) :
    (call topo report a (.analyse r)).1.sys = a.sys ∧ (call topo report a (.analyse r)).1.sys.abs = a.sys.abs :=
  ⟨rfl, rfl⟩

/-- the output of an analysis does not depend on the caches it finds -/
theorem analysis_output_fresh (s : Sys π ν) (c₁ c₂ : Cache ν) (r : ρ) :
    (call topo report ⟨s, c₁⟩ (.analyse r)).2 = (call topo report ⟨s, c₂⟩ (.analyse r)).2 := rfl

/-- system state and outputs of a session depend on the initial system state only, not on the initial caches -/
theorem session_cache_independent (s : Sys π ν) (c₁ c₂ : Cache ν) (cs : List (Call π ν ρ)) :
    (session topo report ⟨s, c₁⟩ cs).1.sys = (session topo report ⟨s, c₂⟩ cs).1.sys ∧
    (session topo report ⟨s, c₁⟩ cs).2 = (session topo report ⟨s, c₂⟩ cs).2 := by
  induction cs generalizing s c₁ c₂ with
  | nil => exact ⟨rfl, rfl⟩
  | cons c cs ih =>
    cases c with
    | edit op =>
      simp only [session, call]
      exact ⟨(ih _ c₁ c₂).1, by rw [(ih _ c₁ c₂).2]⟩
    | analyse r =>
      simp only [session, call]
      constructor <;> first | rfl | trivial

theorem session_append (a : AState π ν) (xs ys : List (Call π ν ρ)) :
    session topo report a (xs ++ ys) =
      ((session topo report (session topo report a xs).1 ys).1,
       (session topo report a xs).2 ++ (session topo report (session topo report a xs).1 ys).2) := by
  induction xs generalizing a with
  | nil => simp [session]
  | cons x xs ih => simp [session, ih, List.append_assoc]

theorem session_of_sys_eq (a b : AState π ν) (h : a.sys = b.sys) (cs : List (Call π ν ρ)) :
    (session topo report a cs).1.sys = (session topo report b cs).1.sys ∧
    (session topo report a cs).2 = (session topo report b cs).2 := by
  obtain ⟨sa, ca⟩ := a
  obtain ⟨sb, cb⟩ := b
  simp only at h; subst h
  exact session_cache_independent topo report sa ca cb cs

/-- C17 (2): interleaving. Dropping an analysis from a session changes neither the system state that is reached
    nor the output of any later analysis. -/
theorem interleaving_invisible (a : AState π ν) (h₁ h₂ : List (Call π ν ρ)) (r : ρ) :
    (session topo report a (h₁ ++ .analyse r :: h₂)).1.sys = (session topo report a (h₁ ++ h₂)).1.sys ∧
    (session topo report (session topo report a (h₁ ++ [.analyse r])).1 h₂).2 =
      (session topo report (session topo report a h₁).1 h₂).2 := by
  have key : (session topo report a (h₁ ++ [.analyse r])).1.sys = (session topo report a h₁).1.sys := by
    rw [session_append]; rfl
  constructor
  · rw [show h₁ ++ Call.analyse r :: h₂ = (h₁ ++ [Call.analyse r]) ++ h₂ by simp, session_append,
      session_append topo report a h₁ h₂]
    exact (session_of_sys_eq topo report _ _ key h₂).1
  · exact (session_of_sys_eq topo report _ _ key h₂).2

/-- repeating an analysis returns the same output -/
theorem solve_idempotent (a : AState π ν) (r : ρ) :
    (session topo report a [.analyse r, .analyse r]).2 =
      [report r a.sys (refresh topo a.sys), report r a.sys (refresh topo a.sys)] := rfl

end

/-! ### kernel-evaluated instance -/

open C14 (S s0 src conv pload)

/-- a "report" that exposes everything an analysis is handed: names with resolved parents and children -/
def relReport (_ : Unit) (s : S) (c : Cache String) : List (String × Nat × Nat) :=
  s.comps.map fun p => (p.2.name, (c.parents.filter (·.1 = p.1)).length, ((dget c.childs p.1).getD []).length)

def staleSession : List (Call PComp String Unit) :=
  [.analyse (), .edit (.addComp (.one "S") (conv "B") "" ""), .edit (.addComp (.one "B") (pload "L") "" ""),
   .analyse (), .edit (.delComp "L" true), .analyse (), .analyse ()]

theorem read_only_nonvacuous :
    (session (fun s => s.ids) relReport ⟨s0, ⟨[], [], [], [], 0⟩⟩ staleSession).2 =
      [[("S", 1, 0)], [("S", 1, 1), ("B", 1, 1), ("L", 1, 0)], [("S", 1, 1), ("B", 1, 0)], [("S", 1, 1), ("B", 1, 0)]] := by
  decide

end C17
end SysLoss
