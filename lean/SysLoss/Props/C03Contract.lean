/-
  Props/C03Contract — C03, liveness clause, SECOND class: a current-dependent drop where the sweep of
  `_solve` is a contraction.  (First class — voltage laws that do not read the current, finite settling:
  `Props/C03Live.lean`.  Termination / soundness / outcome classes: `Props/C03.lean`.)

  Class (`Star s ph r src`): node `r` is a `Source` with `vo > 0` and series resistance `rs ≥ 0`, no parent;
  each of its children is listed in `_topo_nodes` and is a leaf load whose only parent is `r` —
  `ILoad` (`ii ≥ 0`), `RLoad` (`rs > 0`) or `PLoad` (`pwr ≥ 0`), any mix, any number, repetitions in the child
  list allowed; no other node exists; no node has a phase configuration for the phase being solved.
  Nothing is assumed about the order of `_topo_nodes` or about ids that hold no node.

  Everything is about the EXISTING `SSys.init / fwdProp / backProp / loop / solvePhase` (through `sweep`,
  `sweepN` of `Props/C03Live`); the array folds are reduced with the pointwise lemmas of `Props/C16Sweep`.

  What one pass does on a star (`star_step`): the forward pass writes `vo − rs · Σ(OLD child currents)` into
  the source cell (and raises "Unstable system" unless that is positive), 0 V into every load cell; the back
  pass writes into every load cell the load law at the NEW source voltage (`|I|`, `v/R`, `P/v`) and into the
  source cell the sum of the OLD child currents.  With `u_n` the source cell of the `n`-th iterate
  (`u_0 = vo`), `J = Σ I_k`, `G = Σ 1/R_k`, `I(u) = Σ_k loadCur_k(u)`:

   * `star_recurrence_general`  `u_1 = vo − rs·J`,  `u_{n+1} > 0`,  `u_{n+2} = vo − rs·I(u_{n+1})`   (any star)
   * `star_recurrence`          `u_1 = vo − rs·J`,  `u_{n+2} = vo − rs·(J + G·u_{n+1})`             (no PLoad)
     — a one-step affine recurrence with slope `−rs·G` (the RLoad currents of the initial guess are 0, which
     is why `u_1` does not see `G`); both hold for as long as the passes exist, with no smallness hypothesis.

  Convergence:
   * `loop_returns_if_eventually_converged`  GENERIC (any system): if the `K`-th iterate from `init` exists,
        one more pass exists and the exit test holds between the two, and `K + 1 ≤ maxiter`, then `solvePhase`
        returns `.ok` within `K + 1` passes.
   * `star_converges_explicit_partial`  ILoads + RLoads, `rs·(J + G·vo) < vo`, tolerances ≥ 0, any `K` with
        `(rs·G)^K · vo ≤ min vtol itol · (vo − rs·(J + G·vo))`, `maxiter ≥ K + 3`  ⟹  `solvePhase = .ok res`,
        `res.iters ≤ K + 3`, exit test fired on `res`.
   * `star_converges_partial`  `[Archimedean α]`, same class, `atol ≥ 0`, `vtol > 0`, `itol > 0`  ⟹
        `∃ K, ∀ maxiter ≥ K, ∃ res, solvePhase ⟨atol, vtol, itol, maxiter⟩ = .ok res ∧ res.iters ≤ K`.
   * `star_converges_cert_partial`, `star_converges_cert_arch_partial`  the same two statements for stars WITH
        PLoads, from a contraction certificate `Cert s src m q`: a floor `m > 0` with
        `rs·(J + G·vo + P/m) ≤ vo − m` (`P = Σ P_k`) and a factor `q < 1` with `rs·(G + P/m²) ≤ q`.
        `linear_cert`: without PLoads `m = vo − rs·(J + G·vo)`, `q = rs·G` is such a certificate.
   The single hypothesis `rs·(J + G·vo) < vo` does both jobs asked of it: it discharges the positivity guard
   of the Source law (`nsign (vo − rs·io) = nsign vo`) on every iterate (all iterates stay in `[m, vo]`) and it
   forces `q = rs·G < 1` (`linear_factor_lt_one`), so `rs·G < 1` is not a separate hypothesis.

  Why `_partial`, and what is NOT covered: only stars.  Excluded: any intermediate element between source and
  loads (deeper trees: RLoss / VLoss / Converter / LinReg / PSwitch / Rectifier), several sources, `PMux`,
  phase configurations (`hasConf = false` is required of every node), negative sources (finding F01), PLoads
  without a certificate (a P-load behind a resistance has two steady states and none when overloaded).
  Nothing here asserts the general clause `C03_liveness_full` of `Props/C03Live.lean`; it stays open.
  Float effects (rounding can keep a contraction from ever meeting a relative tolerance of the order of one
  ulp) are outside an ordered-field theorem.
-/
import SysLoss.Props.C03Live
import Mathlib.Algebra.Order.Archimedean.Basic

set_option linter.unusedSectionVars false
set_option linter.unusedVariables false

namespace SysLoss
namespace C03
variable {α : Type} [Field α] [LinearOrder α] [IsStrictOrderedRing α]

/-! ### 1. GENERIC: the loop returns as soon as the exit test fires between two consecutive iterates -/

theorem loop_returns_of_iterate_converged (s : SSys α) (cfg : Cfg α) (ph : String) :
    ∀ (K : Nat) (x y z : Vec α × Vec α × St) (fuel it : Nat),
      sweepN s ph K x = .ok y → sweep s ph y = .ok z →
      converged cfg y.1 z.1 y.2.1 z.2.1 = true → K + 1 ≤ fuel →
      ∃ r, s.loop cfg ph fuel x.1 x.2.1 x.2.2 it = .ok r ∧ r.iters ≤ it + K + 1 := by
  intro K
  induction K with
  | zero =>
    intro x y z fuel it hK hyz hc hfuel
    obtain ⟨f, rfl⟩ : ∃ f, fuel = f + 1 := ⟨fuel - 1, by omega⟩
    simp only [sweepN, Except.ok.injEq] at hK
    subst hK
    obtain ⟨v, i, st⟩ := x
    obtain ⟨v1, i1, st1⟩ := z
    obtain ⟨hf, hb⟩ := (sweep_ok_iff s ph v i st v1 i1 st1).mp hyz
    unfold SSys.loop
    simp only [hf, bind, Except.bind]
    rw [← hb, if_pos hc]
    exact ⟨_, rfl, by simp⟩
  | succ K ih =>
    intro x y z fuel it hK hyz hc hfuel
    obtain ⟨f, rfl⟩ : ∃ f, fuel = f + 1 := ⟨fuel - 1, by omega⟩
    obtain ⟨x1, hx1, hK1⟩ := (sweepN_succ_ok' s ph K x y).mp hK
    obtain ⟨v, i, st⟩ := x
    obtain ⟨v1, i1, st1⟩ := x1
    obtain ⟨hf, hb⟩ := (sweep_ok_iff s ph v i st v1 i1 st1).mp hx1
    unfold SSys.loop
    simp only [hf, bind, Except.bind]
    by_cases hc' : converged cfg v v1 i (s.backProp ph v1 i st) = true
    · rw [if_pos hc']
      exact ⟨_, rfl, by show it + 1 ≤ it + (K + 1) + 1; omega⟩
    · rw [if_neg hc', ← hb]
      obtain ⟨r, hr, hle⟩ := ih (v1, i1, st1) y z f (it + 1) hK1 hyz hc (by omega)
      exact ⟨r, hr, by omega⟩

/-- **GENERIC.**  If the `K`-th iterate `y` of the sweep map from the initial guess exists, one more pass `z`
    exists, the exit test holds between `y` and `z`, and `K + 1 ≤ maxiter`, then `solve()` returns for this
    phase within `K + 1` passes. -/
theorem loop_returns_if_eventually_converged (s : SSys α) (cfg : Cfg α) (ph : String)
    (K : Nat) (y z : Vec α × Vec α × St)
    (hK : sweepN s ph K (s.init ph) = .ok y) (hyz : sweep s ph y = .ok z)
    (hc : converged cfg y.1 z.1 y.2.1 z.2.1 = true) (hm : K + 1 ≤ cfg.maxiter) :
    ∃ r, s.solvePhase cfg ph = .ok r ∧ r.iters ≤ K + 1 ∧ ConvergedAt s cfg ph r.v r.i r.st := by
  obtain ⟨r, hr, hle⟩ := loop_returns_of_iterate_converged s cfg ph K (s.init ph) y z
    (cfg.maxiter + 1) 0 hK hyz hc (by omega)
  have hsp : s.solvePhase cfg ph = .ok r := by
    unfold SSys.solvePhase SSys.solveRaw
    simp only [hr, bind, Except.bind]
    rw [if_neg (by omega)]
    rfl
  exact ⟨r, hsp, by omega, solvePhase_sound s cfg ph r hsp⟩

/-- the exit test from cell-wise closeness -/
theorem allClose_of_cells (atol rtol : α) (a b : Vec α)
    (h : ∀ n, |vget a n - vget b n| ≤ atol + rtol * |vget b n|) :
    allClose atol rtol a.toList b.toList = true := by
  unfold allClose
  rw [List.all_eq_true]
  intro x hx
  obtain ⟨k, hk, rfl⟩ := List.mem_iff_getElem.mp hx
  simp only [List.length_zipWith, Array.length_toList] at hk
  have hka : k < a.size := by omega
  have hkb : k < b.size := by omega
  have := h k
  simp only [vget, Array.getD_eq_getD_getElem?, hka, hkb, Array.getElem?_eq_getElem, Option.getD_some] at this
  simp only [List.getElem_zipWith, Array.getElem_toList, id_eq]
  unfold isClose
  rw [leB_iff, nabs_eq_abs, nabs_eq_abs]
  exact this

/-! ### 2. the star class -/

/-- what a leaf of the star may be: a current, resistive or power load with physical parameters -/
def LoadOK (c : Comp α) : Prop :=
  (c.kind = .iload ∧ 0 ≤ c.ii) ∨ (c.kind = .rload ∧ 0 < c.rs) ∨ (c.kind = .pload ∧ 0 ≤ c.pwr)

/-- **The star class.**  Node `r` holds a `Source` `src` (`vo > 0`, `rs ≥ 0`, no parent); every child of `r`
    is listed in the topological order and holds a leaf load whose only parent is `r`; there is no other
    node; nothing carries a phase configuration for the phase `ph` being solved. -/
structure Star (s : SSys α) (ph : String) (r : Nat) (src : SNode α) : Prop where
  topo_lt : ∀ n, n ∈ s.topo → n < s.hidx
  root : s.node? r = some src
  root_topo : r ∈ s.topo
  kind : src.comp.kind = .source
  parents : src.parents = []
  vo_pos : 0 < src.comp.vo
  rs_nonneg : 0 ≤ src.comp.rs
  noconf : ∀ n nd, s.node? n = some nd → (nd.pconf.ctx ph).hasConf = false
  only : ∀ n nd, s.node? n = some nd → n = r ∨ n ∈ src.childs
  leaf : ∀ c, c ∈ src.childs → c ∈ s.topo ∧
    ∃ cd, s.node? c = some cd ∧ cd.parents = [r] ∧ cd.childs = [] ∧ LoadOK cd.comp

/-- current drawn by a load whose input is `v` (no phase configuration, input not switched off) -/
def loadCur (c : Comp α) (v : α) : α :=
  if v = 0 then 0 else
    match c.kind with
    | .iload => |c.ii|
    | .rload => |v| / c.rs
    | .pload => c.pwr / |v|
    | _ => 0

/-- Σ over the children of the source of a per-component quantity -/
def overChilds (s : SSys α) (src : SNode α) (f : Comp α → α) : α :=
  (src.childs.map fun c => match s.node? c with | some cd => f cd.comp | none => 0).sum

/-- total load current when the source output is `v` -/
def starCur (s : SSys α) (src : SNode α) (v : α) : α := overChilds s src (fun c => loadCur c v)

theorem node?_lt (s : SSys α) (n : Nat) (nd : SNode α) (h : s.node? n = some nd) : n < s.hidx := by
  unfold SSys.node? at h
  unfold SSys.hidx
  by_contra hc
  simp [Array.getD_eq_getD_getElem?, Array.getElem?_eq_none (Nat.le_of_not_lt hc)] at h

theorem Star.leaf_kind {s : SSys α} {ph : String} {r : Nat} {src : SNode α} (hS : Star s ph r src)
    (c : Nat) (hc : c ∈ src.childs) (cd : SNode α) (hcd : s.node? c = some cd) :
    cd.parents = [r] ∧ cd.childs = [] ∧ LoadOK cd.comp ∧
    (cd.comp.kind = .iload ∨ cd.comp.kind = .rload ∨ cd.comp.kind = .pload) := by
  obtain ⟨_, cd', h1, h2, h3, h4⟩ := hS.leaf c hc
  rw [hcd] at h1
  simp only [Option.some.injEq] at h1
  subst h1
  refine ⟨h2, h3, h4, ?_⟩
  rcases h4 with h | h | h
  · exact Or.inl h.1
  · exact Or.inr (Or.inl h.1)
  · exact Or.inr (Or.inr h.1)

/-- the output current of the source is the plain sum of the children's input currents -/
theorem childCurr_root {s : SSys α} {ph : String} {r : Nat} {src : SNode α} (hS : Star s ph r src)
    (i v : Vec α) (st : St) : s.childCurr r i v st = (src.childs.map (vget i)).sum := by
  unfold SSys.childCurr
  simp only [hS.root]
  rw [sumL_eq_sum]
  congr 1
  apply List.map_congr_left
  intro c hc
  obtain ⟨_, cd, h1, h2, h3, h4⟩ := hS.leaf c hc
  obtain ⟨_, _, _, hk⟩ := hS.leaf_kind c hc cd h1
  unfold SSys.childShare
  simp only [h1, h2]
  have : cd.comp.priInp ([r].map (sget st)) ([r].map (vget v)) = some 0 := by
    unfold Comp.priInp
    rcases hk with hk | hk | hk <;> simp [hk]
  rw [this]
  simp

theorem lawArgs_root_io {s : SSys α} {ph : String} {r : Nat} {src : SNode α} (hS : Star s ph r src)
    (i v : Vec α) (st : St) :
    (if src.childs.isEmpty then (0 : α) else s.childCurr r i v st) = (src.childs.map (vget i)).sum := by
  rw [childCurr_root hS]
  split_ifs with h
  · rw [List.isEmpty_iff.mp h]; simp
  · rfl

theorem Star.inactive_false {s : SSys α} {ph : String} {r : Nat} {src : SNode α} (hS : Star s ph r src)
    (n : Nat) (nd : SNode α) (h : s.node? n = some nd) : (nd.pconf.ctx ph).inactive = false := by
  unfold PhaseCtx.inactive
  rw [hS.noconf n nd h]; rfl

/-- forward cell of the source -/
theorem fwdAt_root {s : SSys α} {ph : String} {r : Nat} {src : SNode α} (hS : Star s ph r src)
    (v i : Vec α) (st : St) (hst : st.getD r [] = [false]) :
    s.fwdAt ph v i st r =
      if eqB (nsign (src.comp.vo - src.comp.rs * (src.childs.map (vget i)).sum)) (nsign src.comp.vo) = true
      then .ok (src.comp.vo - src.comp.rs * (src.childs.map (vget i)).sum, false)
      else .error (.unstable src.comp.name) := by
  unfold SSys.fwdAt SSys.lawArgs
  simp only [hS.root, hS.parents, List.isEmpty_nil, if_true, hst, lawArgs_root_io hS]
  unfold Comp.solvOutpVolt
  have hz : isZ src.comp.vo = false := (isZ_false_iff _).mpr (ne_of_gt hS.vo_pos)
  simp only [hS.kind, hS.inactive_false r src hS.root, hz, off0, List.headD_cons, Bool.or_self,
    Bool.false_eq_true, if_false]

/-- forward cell of anything but the source: a load's output voltage is 0 -/
theorem fwdAt_other {s : SSys α} {ph : String} {r : Nat} {src : SNode α} (hS : Star s ph r src)
    (v i : Vec α) (st : St) (x : Nat) (hx : x ≠ r) :
    ∃ b, s.fwdAt ph v i st x = .ok (0, b) := by
  unfold SSys.fwdAt
  cases hn : s.node? x with
  | none => exact ⟨false, rfl⟩
  | some nd =>
    rcases hS.only x nd hn with h | h
    · exact absurd h hx
    · obtain ⟨_, _, _, hk⟩ := hS.leaf_kind x h nd hn
      simp only
      unfold Comp.solvOutpVolt
      rcases hk with hk | hk | hk <;> simp only [hk] <;> exact ⟨_, rfl⟩

/-- backward cell of the source: its input current is its output current -/
theorem backAt_root {s : SSys α} {ph : String} {r : Nat} {src : SNode α} (hS : Star s ph r src)
    (v i : Vec α) (st : St) (hst : st.getD r [] = [false]) :
    s.backAt ph v i st r = (src.childs.map (vget i)).sum := by
  unfold SSys.backAt SSys.lawArgs
  simp only [hS.root, hS.parents, List.isEmpty_nil, if_true, hst, lawArgs_root_io hS]
  unfold Comp.solvInpCurr calcInpCurrent
  have hz : isZ src.comp.vo = false := (isZ_false_iff _).mpr (ne_of_gt hS.vo_pos)
  simp only [hS.kind, hS.inactive_false r src hS.root, hz, off0, List.headD_cons, Bool.or_self,
    Bool.false_eq_true, if_false]

/-- backward cell of a leaf: the load law at the (fresh) source voltage -/
theorem backAt_leaf {s : SSys α} {ph : String} {r : Nat} {src : SNode α} (hS : Star s ph r src)
    (v i : Vec α) (st : St) (hst : st.getD r [] = [false]) (c : Nat) (hc : c ∈ src.childs)
    (cd : SNode α) (hcd : s.node? c = some cd) :
    s.backAt ph v i st c = loadCur cd.comp (vget v r) := by
  obtain ⟨h2, h3, h4, hk⟩ := hS.leaf_kind c hc cd hcd
  have hnc := hS.noconf c cd hcd
  unfold SSys.backAt SSys.lawArgs
  simp only [hcd, h2, h3, List.isEmpty_cons, List.isEmpty_nil, Bool.false_eq_true, if_false, if_true,
    List.map_cons, List.map_nil]
  have hs : sget st r = false := by unfold sget; rw [hst]; rfl
  unfold Comp.solvInpCurr loadCur loadVal
  simp only [hs, off0, List.headD_cons, Bool.or_false, hnc, Bool.not_false, if_true, Bool.false_and,
    Bool.false_eq_true, if_false, nabs_eq_abs]
  by_cases hv : vget v r = 0
  · have : isZ (vget v r) = true := (isZ_iff _).mpr hv
    rcases hk with hk | hk | hk <;> simp [hk, hv]
  · have : isZ (vget v r) = false := (isZ_false_iff _).mpr hv
    rcases hk with hk | hk | hk <;> simp [hk, hv, this]

/-! ### 3. one pass on a star, cell by cell -/

/-- **One pass.**  On a star whose source flag is clear, a pass that exists writes: the source voltage
    `vo − rs·Σ(old child currents)`, 0 V in every other cell; in every leaf the load law at the NEW source
    voltage; in the source cell the sum of the OLD child currents; 0 A elsewhere; the source flag stays clear. -/
theorem star_step {s : SSys α} {ph : String} {r : Nat} {src : SNode α} (hS : Star s ph r src)
    (v i : Vec α) (st : St) (v' i' : Vec α) (st' : St)
    (h : sweep s ph (v, i, st) = .ok (v', i', st')) (hst : st.getD r [] = [false]) :
    vget v' r = src.comp.vo - src.comp.rs * (src.childs.map (vget i)).sum ∧
    0 < vget v' r ∧
    (∀ x, x ≠ r → vget v' x = 0) ∧
    (∀ c, c ∈ src.childs → ∀ cd, s.node? c = some cd → vget i' c = loadCur cd.comp (vget v' r)) ∧
    vget i' r = (src.childs.map (vget i)).sum ∧
    (∀ x, x ≠ r → x ∉ src.childs → vget i' x = 0) ∧
    st'.getD r [] = [false] := by
  obtain ⟨_, _, _, y1, y2, y3, y4⟩ := sweep_cells s ph hS.topo_lt _ _ _ _ _ _ h
  -- the source cell
  obtain ⟨x, b, e1, e2, e3⟩ := y1 r hS.root_topo
  rw [fwdAt_root hS v i st hst] at e1
  split_ifs at e1 with hg
  simp only [Except.ok.injEq, Prod.mk.injEq] at e1
  obtain ⟨rfl, rfl⟩ := e1
  have hpos : 0 < src.comp.vo - src.comp.rs * (src.childs.map (vget i)).sum :=
    (nsign_eq_iff_pos hS.vo_pos).mp ((eqB_iff _ _).mp hg)
  refine ⟨e2, by rw [e2]; exact hpos, ?_, ?_, ?_, ?_, e3⟩
  · intro x hx
    by_cases hxt : x ∈ s.topo
    · obtain ⟨x', b', f1, f2, _⟩ := y1 x hxt
      obtain ⟨b'', f3⟩ := fwdAt_other hS v i st x hx
      rw [f3] at f1
      simp only [Except.ok.injEq, Prod.mk.injEq] at f1
      rw [f2, ← f1.1]
    · exact (y2 x hxt).1
  · intro c hc cd hcd
    rw [y3 c (hS.leaf c hc).1]
    exact backAt_leaf hS v' i st hst c hc cd hcd
  · rw [y3 r hS.root_topo]
    exact backAt_root hS v' i st hst
  · intro x hx hxc
    by_cases hxt : x ∈ s.topo
    · rw [y3 x hxt]
      unfold SSys.backAt
      cases hn : s.node? x with
      | none => rfl
      | some nd =>
        rcases hS.only x nd hn with h' | h'
        · exact absurd h' hx
        · exact absurd h' hxc
    · exact y4 x hxt

/-- a pass exists as soon as the source keeps a positive output -/
theorem star_step_ok {s : SSys α} {ph : String} {r : Nat} {src : SNode α} (hS : Star s ph r src)
    (X : Vec α × Vec α × St) (hst : X.2.2.getD r [] = [false])
    (hpos : 0 < src.comp.vo - src.comp.rs * (src.childs.map (vget X.2.1)).sum) :
    ∃ Y, sweep s ph X = .ok Y := by
  apply sweep_ok_of_cells
  intro n _
  by_cases hn : n = r
  · subst hn
    rw [fwdAt_root hS _ _ _ hst, if_pos ((eqB_iff _ _).mpr ((nsign_eq_iff_pos hS.vo_pos).mpr hpos))]
    exact ⟨_, rfl⟩
  · obtain ⟨b, hb⟩ := fwdAt_other hS X.1 X.2.1 X.2.2 n hn
    exact ⟨_, hb⟩

/-- Σ of the children's cells when every leaf cell holds the load law at `u` -/
theorem childs_sum_eq_starCur {s : SSys α} {ph : String} {r : Nat} {src : SNode α} (hS : Star s ph r src)
    (i : Vec α) (u : α)
    (h : ∀ c, c ∈ src.childs → ∀ cd, s.node? c = some cd → vget i c = loadCur cd.comp u) :
    (src.childs.map (vget i)).sum = starCur s src u := by
  unfold starCur overChilds
  congr 1
  apply List.map_congr_left
  intro c hc
  obtain ⟨_, cd, h1, _⟩ := hS.leaf c hc
  rw [h1]
  exact h c hc cd h1

/-! ### 4. the initial guess on a star -/

theorem init_iget (s : SSys α) (ph : String) (n : Nat) :
    vget (s.init ph).2.1 n = if n < s.hidx then
      (match s.node? n with | some nd => nd.comp.initCurr (nd.pconf.ctx ph) | none => 0) else 0 := by
  unfold SSys.init vget
  simp only [Array.getD_eq_getD_getElem?, List.getElem?_toArray, List.getElem?_map]
  by_cases h : n < s.hidx
  · simp [h]; rfl
  · simp [h]

theorem init_sget_root (s : SSys α) (ph : String) (n : Nat) (nd : SNode α) (hn : s.node? n = some nd)
    (hp : nd.parents = []) : (s.init ph).2.2.getD n [] = [nd.comp.initOff (nd.pconf.ctx ph)] := by
  have hlt := node?_lt s n nd hn
  unfold SSys.init
  simp only [Array.getD_eq_getD_getElem?, List.getElem?_toArray, List.getElem?_map]
  simp [hlt, hn, hp]

/-- constant part of a load's current: what an `ILoad` draws -/
def loadJ (c : Comp α) : α := match c.kind with | .iload => |c.ii| | _ => 0

/-- the initial guess on a star: source cell `vo`, flag clear, every leaf cell its constant current -/
theorem star_init {s : SSys α} {ph : String} {r : Nat} {src : SNode α} (hS : Star s ph r src) :
    vget (s.init ph).1 r = src.comp.vo ∧ (s.init ph).2.2.getD r [] = [false] ∧
    (src.childs.map (vget (s.init ph).2.1)).sum = overChilds s src loadJ := by
  have hlt := node?_lt s r src hS.root
  refine ⟨?_, ?_, ?_⟩
  · rw [init_vget, if_pos hlt, hS.root]
    simp only
    unfold Comp.initVolt
    simp [hS.kind, hS.inactive_false r src hS.root]
  · rw [init_sget_root s ph r src hS.root hS.parents]
    unfold Comp.initOff
    have hz : isZ src.comp.vo = false := (isZ_false_iff _).mpr (ne_of_gt hS.vo_pos)
    simp [hS.kind, hS.inactive_false r src hS.root, hz]
  · unfold overChilds
    congr 1
    apply List.map_congr_left
    intro c hc
    obtain ⟨_, cd, h1, _⟩ := hS.leaf c hc
    obtain ⟨_, _, hok, _⟩ := hS.leaf_kind c hc cd h1
    rw [init_iget, if_pos (node?_lt s c cd h1), h1]
    simp only
    unfold Comp.initCurr loadJ
    rcases hok with ⟨hk, hii⟩ | ⟨hk, _⟩ | ⟨hk, _⟩
    · simp [hk, abs_of_nonneg hii]
    · simp [hk]
    · simp [hk]

/-! ### 5. the load laws on an interval `[m, vo]`, `m > 0` -/

/-- conductance of a load: `1/R` for an `RLoad` -/
def loadG (c : Comp α) : α := match c.kind with | .rload => 1 / c.rs | _ => 0

/-- an upper bound of the load current for inputs in `[m, vo]` -/
def loadMax (m vo : α) (c : Comp α) : α :=
  match c.kind with | .iload => |c.ii| | .rload => vo / c.rs | .pload => c.pwr / m | _ => 0

/-- a Lipschitz constant of the load law on `[m, ∞)` -/
def loadLip (m : α) (c : Comp α) : α :=
  match c.kind with | .rload => 1 / c.rs | .pload => c.pwr / (m * m) | _ => 0

theorem loadCur_nonneg (c : Comp α) (hc : LoadOK c) (v : α) : 0 ≤ loadCur c v := by
  unfold loadCur
  split_ifs
  · exact le_refl _
  · rcases hc with ⟨hk, h⟩ | ⟨hk, h⟩ | ⟨hk, h⟩ <;> simp only [hk]
    · exact abs_nonneg _
    · exact div_nonneg (abs_nonneg _) h.le
    · exact div_nonneg h (abs_nonneg _)

theorem loadJ_le_max (c : Comp α) (hc : LoadOK c) (m vo : α) (hm : 0 < m) (hvo : 0 < vo) :
    loadJ c ≤ loadMax m vo c := by
  unfold loadJ loadMax
  rcases hc with ⟨hk, h⟩ | ⟨hk, h⟩ | ⟨hk, h⟩ <;> simp only [hk]
  · exact le_refl _
  · exact div_nonneg hvo.le h.le
  · exact div_nonneg h hm.le

theorem loadJ_nonneg (c : Comp α) : 0 ≤ loadJ c := by
  unfold loadJ
  cases c.kind <;> simp

theorem loadCur_le_max (c : Comp α) (hc : LoadOK c) (m vo v : α) (hm : 0 < m) (h1 : m ≤ v) (h2 : v ≤ vo) :
    loadCur c v ≤ loadMax m vo c := by
  have hv : 0 < v := lt_of_lt_of_le hm h1
  unfold loadCur loadMax
  rw [if_neg (ne_of_gt hv), abs_of_pos hv]
  rcases hc with ⟨hk, h⟩ | ⟨hk, h⟩ | ⟨hk, h⟩ <;> simp only [hk]
  · exact le_refl _
  · exact div_le_div_of_nonneg_right h2 h.le
  · exact div_le_div_of_nonneg_left h hm h1

theorem loadLip_nonneg (c : Comp α) (hc : LoadOK c) (m : α) (hm : 0 < m) : 0 ≤ loadLip m c := by
  unfold loadLip
  rcases hc with ⟨hk, h⟩ | ⟨hk, h⟩ | ⟨hk, h⟩ <;> simp only [hk]
  · exact le_refl _
  · exact div_nonneg zero_le_one h.le
  · exact div_nonneg h (mul_pos hm hm).le

theorem loadCur_lip (c : Comp α) (hc : LoadOK c) (m v w : α) (hm : 0 < m) (hv : m ≤ v) (hw : m ≤ w) :
    |loadCur c v - loadCur c w| ≤ loadLip m c * |v - w| := by
  have hv0 : 0 < v := lt_of_lt_of_le hm hv
  have hw0 : 0 < w := lt_of_lt_of_le hm hw
  unfold loadCur loadLip
  rw [if_neg (ne_of_gt hv0), if_neg (ne_of_gt hw0), abs_of_pos hv0, abs_of_pos hw0]
  rcases hc with ⟨hk, h⟩ | ⟨hk, h⟩ | ⟨hk, h⟩ <;> simp only [hk]
  · simp
  · rw [← sub_div, abs_div, abs_of_pos h]
    exact le_of_eq (by ring)
  · have e : c.pwr / v - c.pwr / w = c.pwr * (w - v) / (v * w) := by
      field_simp
    rw [e, abs_div, abs_mul, abs_of_nonneg h, abs_of_pos (mul_pos hv0 hw0), abs_sub_comm w v]
    rw [div_mul_eq_mul_div]
    apply div_le_div₀ (mul_nonneg h (abs_nonneg _)) (le_refl _) (mul_pos hm hm)
    exact mul_le_mul hv hw hm.le hv0.le

/-- relative closeness of the load currents from closeness of the inputs relative to the floor `m` -/
theorem loadCur_close (c : Comp α) (hc : LoadOK c) (m t v w : α) (hm : 0 < m) (ht : 0 ≤ t)
    (hv : m ≤ v) (hw : m ≤ w) (hd : |v - w| ≤ t * m) :
    |loadCur c v - loadCur c w| ≤ t * loadCur c w := by
  have hv0 : 0 < v := lt_of_lt_of_le hm hv
  have hw0 : 0 < w := lt_of_lt_of_le hm hw
  unfold loadCur
  rw [if_neg (ne_of_gt hv0), if_neg (ne_of_gt hw0), abs_of_pos hv0, abs_of_pos hw0]
  rcases hc with ⟨hk, h⟩ | ⟨hk, h⟩ | ⟨hk, h⟩ <;> simp only [hk]
  · simp only [sub_self, abs_zero]
    exact mul_nonneg ht (abs_nonneg _)
  · rw [← sub_div, abs_div, abs_of_pos h, ← mul_div_assoc]
    apply div_le_div_of_nonneg_right _ h.le
    exact le_trans hd (mul_le_mul_of_nonneg_left hw ht)
  · have e : c.pwr / v - c.pwr / w = c.pwr * (w - v) / (v * w) := by
      field_simp
    rw [e, abs_div, abs_mul, abs_of_nonneg h, abs_of_pos (mul_pos hv0 hw0), abs_sub_comm w v]
    rw [div_le_iff₀ (mul_pos hv0 hw0)]
    have h1 : |v - w| ≤ t * v := le_trans hd (mul_le_mul_of_nonneg_left hv ht)
    have e2 : t * (c.pwr / w) * (v * w) = c.pwr * (t * v) := by
      field_simp
    rw [e2]
    exact mul_le_mul_of_nonneg_left h1 h

/-! ### 6. sums over the children -/

theorem list_sum_le (l : List Nat) (f g : Nat → α) (h : ∀ c, c ∈ l → f c ≤ g c) :
    (l.map f).sum ≤ (l.map g).sum := by
  induction l with
  | nil => simp
  | cons a l ih =>
    simp only [List.map_cons, List.sum_cons]
    exact add_le_add (h a (by simp)) (ih (fun c hc => h c (by simp [hc])))

theorem list_sum_mul (l : List Nat) (t : α) (f : Nat → α) :
    (l.map fun c => t * f c).sum = t * (l.map f).sum := by
  induction l with
  | nil => simp
  | cons a l ih => simp only [List.map_cons, List.sum_cons, ih]; ring

theorem list_sum_add (l : List Nat) (f g : Nat → α) :
    (l.map fun c => f c + g c).sum = (l.map f).sum + (l.map g).sum := by
  induction l with
  | nil => simp
  | cons a l ih => simp only [List.map_cons, List.sum_cons, ih]; ring

theorem overChilds_le {s : SSys α} {ph : String} {r : Nat} {src : SNode α} (hS : Star s ph r src)
    (f g : Comp α → α) (h : ∀ c, LoadOK c → f c ≤ g c) : overChilds s src f ≤ overChilds s src g := by
  unfold overChilds
  apply list_sum_le
  intro c hc
  obtain ⟨_, cd, h1, _, _, h4⟩ := hS.leaf c hc
  rw [h1]
  exact h cd.comp h4

theorem overChilds_nonneg {s : SSys α} {ph : String} {r : Nat} {src : SNode α} (hS : Star s ph r src)
    (f : Comp α → α) (h : ∀ c, LoadOK c → 0 ≤ f c) : 0 ≤ overChilds s src f := by
  have := overChilds_le hS (fun _ => 0) f h
  have e : overChilds s src (fun _ => (0 : α)) = 0 := by
    unfold overChilds
    have : ∀ l : List Nat, (l.map fun c => match s.node? c with | some cd => (0 : α) | none => 0).sum = 0 := by
      intro l
      induction l with
      | nil => simp
      | cons a l ih =>
        simp only [List.map_cons, List.sum_cons, ih]
        cases s.node? a <;> simp
    exact this _
  rw [e] at this
  exact this

theorem overChilds_mul (s : SSys α) (src : SNode α) (t : α) (f : Comp α → α) :
    overChilds s src (fun c => t * f c) = t * overChilds s src f := by
  unfold overChilds
  rw [← list_sum_mul]
  congr 1
  apply List.map_congr_left
  intro c _
  cases s.node? c <;> simp

theorem overChilds_add (s : SSys α) (src : SNode α) (f g : Comp α → α) :
    overChilds s src (fun c => f c + g c) = overChilds s src f + overChilds s src g := by
  unfold overChilds
  rw [← list_sum_add]
  congr 1
  apply List.map_congr_left
  intro c _
  cases s.node? c <;> simp

theorem overChilds_congr {s : SSys α} {ph : String} {r : Nat} {src : SNode α} (hS : Star s ph r src)
    (f g : Comp α → α) (h : ∀ c, LoadOK c → f c = g c) : overChilds s src f = overChilds s src g := by
  unfold overChilds
  congr 1
  apply List.map_congr_left
  intro c hc
  obtain ⟨_, cd, h1, _, _, h4⟩ := hS.leaf c hc
  rw [h1]
  exact h cd.comp h4

theorem list_abs_sub_le (l : List Nat) (f g h : Nat → α) (hh : ∀ c, c ∈ l → |f c - g c| ≤ h c) :
    |(l.map f).sum - (l.map g).sum| ≤ (l.map h).sum := by
  induction l with
  | nil => simp
  | cons a l ih =>
    simp only [List.map_cons, List.sum_cons]
    have e : f a + (l.map f).sum - (g a + (l.map g).sum) = (f a - g a) + ((l.map f).sum - (l.map g).sum) := by
      ring
    rw [e]
    exact le_trans (abs_add_le _ _) (add_le_add (hh a (by simp)) (ih (fun c hc => hh c (by simp [hc]))))

theorem overChilds_abs_sub_le {s : SSys α} {ph : String} {r : Nat} {src : SNode α} (hS : Star s ph r src)
    (f g h : Comp α → α) (hh : ∀ c, LoadOK c → |f c - g c| ≤ h c) :
    |overChilds s src f - overChilds s src g| ≤ overChilds s src h := by
  unfold overChilds
  apply list_abs_sub_le
  intro c hc
  obtain ⟨_, cd, h1, _, _, h4⟩ := hS.leaf c hc
  rw [h1]
  exact hh cd.comp h4

theorem overChilds_congr' {s : SSys α} {ph : String} {r : Nat} {src : SNode α} (hS : Star s ph r src)
    (P : Comp α → Prop) (hP : ∀ c, c ∈ src.childs → ∀ cd, s.node? c = some cd → P cd.comp)
    (f g : Comp α → α) (h : ∀ c, P c → f c = g c) : overChilds s src f = overChilds s src g := by
  unfold overChilds
  congr 1
  apply List.map_congr_left
  intro c hc
  obtain ⟨_, cd, h1, _⟩ := hS.leaf c hc
  rw [h1]
  exact h cd.comp (hP c hc cd h1)

/-! ### 7. contraction certificate, invariant, chain of iterates -/

/-- **Contraction certificate** `(m, q)` for a star: a voltage floor `m > 0` that the source output can never
    fall below (`rs · Imax(m) ≤ vo − m`, `Imax` the largest total load current for outputs in `[m, vo]`), and a
    contraction factor `q < 1` bounding `rs ·` (Lipschitz constant of the total load current on `[m, ∞)`). -/
structure Cert (s : SSys α) (src : SNode α) (m q : α) : Prop where
  m_pos : 0 < m
  inv : src.comp.rs * overChilds s src (loadMax m src.comp.vo) ≤ src.comp.vo - m
  lip : src.comp.rs * overChilds s src (loadLip m) ≤ q
  q_lt : q < 1

/-- the shape of every iterate after the first pass -/
def Good (s : SSys α) (r : Nat) (src : SNode α) (m : α) (X : Vec α × Vec α × St) : Prop :=
  X.2.2.getD r [] = [false] ∧ m ≤ vget X.1 r ∧ vget X.1 r ≤ src.comp.vo ∧
  (∀ x, x ≠ r → vget X.1 x = 0) ∧
  (∀ c, c ∈ src.childs → ∀ cd, s.node? c = some cd → vget X.2.1 c = loadCur cd.comp (vget X.1 r)) ∧
  (∀ x, x ≠ r → x ∉ src.childs → vget X.2.1 x = 0)

theorem Cert.q_nonneg {s : SSys α} {ph : String} {r : Nat} {src : SNode α} {m q : α}
    (hC : Cert s src m q) (hS : Star s ph r src) : 0 ≤ q :=
  le_trans (mul_nonneg hS.rs_nonneg
    (overChilds_nonneg hS _ (fun c hc => loadLip_nonneg c hc m hC.m_pos))) hC.lip

theorem starCur_nonneg {s : SSys α} {ph : String} {r : Nat} {src : SNode α} (hS : Star s ph r src) (u : α) :
    0 ≤ starCur s src u :=
  overChilds_nonneg hS _ (fun c hc => loadCur_nonneg c hc u)

theorem starCur_le_max {s : SSys α} {ph : String} {r : Nat} {src : SNode α} (hS : Star s ph r src)
    (m u : α) (hm : 0 < m) (h1 : m ≤ u) (h2 : u ≤ src.comp.vo) :
    starCur s src u ≤ overChilds s src (loadMax m src.comp.vo) :=
  overChilds_le hS _ _ (fun c hc => loadCur_le_max c hc m _ u hm h1 h2)

theorem starCur_lip {s : SSys α} {ph : String} {r : Nat} {src : SNode α} (hS : Star s ph r src)
    (m u w : α) (hm : 0 < m) (hu : m ≤ u) (hw : m ≤ w) :
    |starCur s src u - starCur s src w| ≤ overChilds s src (loadLip m) * |u - w| := by
  have := overChilds_abs_sub_le hS (fun c => loadCur c u) (fun c => loadCur c w)
    (fun c => |u - w| * loadLip m c) (fun c hc => by rw [mul_comm]; exact loadCur_lip c hc m u w hm hu hw)
  rw [overChilds_mul, mul_comm] at this
  exact this

theorem starCur_close {s : SSys α} {ph : String} {r : Nat} {src : SNode α} (hS : Star s ph r src)
    (m t u w : α) (hm : 0 < m) (ht : 0 ≤ t) (hu : m ≤ u) (hw : m ≤ w) (hd : |u - w| ≤ t * m) :
    |starCur s src u - starCur s src w| ≤ t * starCur s src w := by
  have := overChilds_abs_sub_le hS (fun c => loadCur c u) (fun c => loadCur c w)
    (fun c => t * loadCur c w) (fun c hc => loadCur_close c hc m t u w hm ht hu hw hd)
  rw [overChilds_mul] at this
  exact this

/-- a pass from a good iterate exists and is good; the new source voltage is `vo − rs · I(old voltage)` -/
theorem good_step {s : SSys α} {ph : String} {r : Nat} {src : SNode α} (hS : Star s ph r src)
    (m q : α) (hC : Cert s src m q) (X : Vec α × Vec α × St) (hX : Good s r src m X) :
    ∃ Y, sweep s ph X = .ok Y ∧ Good s r src m Y ∧
      vget Y.1 r = src.comp.vo - src.comp.rs * starCur s src (vget X.1 r) ∧
      vget Y.2.1 r = starCur s src (vget X.1 r) := by
  obtain ⟨g1, g2, g3, g4, g5, g6⟩ := hX
  have hsum := childs_sum_eq_starCur hS X.2.1 (vget X.1 r) g5
  have hmax := starCur_le_max hS m (vget X.1 r) hC.m_pos g2 g3
  have hle : src.comp.rs * starCur s src (vget X.1 r) ≤ src.comp.vo - m :=
    le_trans (mul_le_mul_of_nonneg_left hmax hS.rs_nonneg) hC.inv
  have h0 : 0 ≤ src.comp.rs * starCur s src (vget X.1 r) :=
    mul_nonneg hS.rs_nonneg (starCur_nonneg hS _)
  have hm := hC.m_pos
  obtain ⟨Y, hY⟩ := star_step_ok hS X g1 (by rw [hsum]; linarith)
  obtain ⟨vX, iX, sX⟩ := X
  obtain ⟨vY, iY, sY⟩ := Y
  obtain ⟨a1, a2, a3, a4, a5, a6, a7⟩ := star_step hS vX iX sX vY iY sY hY g1
  simp only at hsum g1 g2 g3 g4 g5 g6 hle h0
  rw [hsum] at a1 a5
  refine ⟨(vY, iY, sY), hY, ⟨a7, ?_, ?_, a3, a4, a6⟩, a1, a5⟩
  · show m ≤ vget vY r
    rw [a1]; linarith
  · show vget vY r ≤ src.comp.vo
    rw [a1]; linarith

/-- the first pass from the initial guess exists and is good; the source voltage is `vo − rs · J` -/
theorem good_first {s : SSys α} {ph : String} {r : Nat} {src : SNode α} (hS : Star s ph r src)
    (m q : α) (hC : Cert s src m q) :
    ∃ Y, sweep s ph (s.init ph) = .ok Y ∧ Good s r src m Y ∧
      vget Y.1 r = src.comp.vo - src.comp.rs * overChilds s src loadJ := by
  obtain ⟨i1, i2, i3⟩ := star_init hS
  have hmax : overChilds s src loadJ ≤ overChilds s src (loadMax m src.comp.vo) :=
    overChilds_le hS _ _ (fun c hc => loadJ_le_max c hc m _ hC.m_pos hS.vo_pos)
  have hle : src.comp.rs * overChilds s src loadJ ≤ src.comp.vo - m :=
    le_trans (mul_le_mul_of_nonneg_left hmax hS.rs_nonneg) hC.inv
  have h0 : 0 ≤ src.comp.rs * overChilds s src loadJ :=
    mul_nonneg hS.rs_nonneg (overChilds_nonneg hS _ (fun c _ => loadJ_nonneg c))
  have hm := hC.m_pos
  obtain ⟨Y, hY⟩ := star_step_ok hS (s.init ph) i2 (by rw [i3]; linarith)
  generalize s.init ph = X0 at *
  obtain ⟨vX, iX, sX⟩ := X0
  obtain ⟨vY, iY, sY⟩ := Y
  obtain ⟨a1, a2, a3, a4, a5, a6, a7⟩ := star_step hS vX iX sX vY iY sY hY i2
  simp only at i3
  rw [i3] at a1
  refine ⟨(vY, iY, sY), hY, ⟨a7, ?_, ?_, a3, a4, a6⟩, a1⟩
  · show m ≤ vget vY r
    rw [a1]; linarith
  · show vget vY r ≤ src.comp.vo
    rw [a1]; linarith

/-- **contraction**: three consecutive good iterates -/
theorem good_contract {s : SSys α} {ph : String} {r : Nat} {src : SNode α} (hS : Star s ph r src)
    (m q : α) (hC : Cert s src m q) (a b : α) (ha : m ≤ a) (hb : m ≤ b) :
    |(src.comp.vo - src.comp.rs * starCur s src b) - (src.comp.vo - src.comp.rs * starCur s src a)| ≤
      q * |b - a| := by
  have e : (src.comp.vo - src.comp.rs * starCur s src b) - (src.comp.vo - src.comp.rs * starCur s src a) =
      src.comp.rs * (starCur s src a - starCur s src b) := by ring
  rw [e, abs_mul, abs_of_nonneg hS.rs_nonneg, abs_sub_comm b a]
  calc src.comp.rs * |starCur s src a - starCur s src b|
      ≤ src.comp.rs * (overChilds s src (loadLip m) * |a - b|) :=
        mul_le_mul_of_nonneg_left (starCur_lip hS m a b hC.m_pos ha hb) hS.rs_nonneg
    _ = src.comp.rs * overChilds s src (loadLip m) * |a - b| := by ring
    _ ≤ q * |a - b| := mul_le_mul_of_nonneg_right hC.lip (abs_nonneg _)

/-- **the chain**: iterates `n+1` and `n+2` exist, are good, and differ at the source by at most `qⁿ · vo` -/
theorem star_chain {s : SSys α} {ph : String} {r : Nat} {src : SNode α} (hS : Star s ph r src)
    (m q : α) (hC : Cert s src m q) :
    ∀ n : Nat, ∃ X Y, sweepN s ph (n + 1) (s.init ph) = .ok X ∧ sweep s ph X = .ok Y ∧
      Good s r src m X ∧ Good s r src m Y ∧
      vget Y.1 r = src.comp.vo - src.comp.rs * starCur s src (vget X.1 r) ∧
      vget Y.2.1 r = starCur s src (vget X.1 r) ∧
      |vget Y.1 r - vget X.1 r| ≤ q ^ n * src.comp.vo := by
  intro n
  induction n with
  | zero =>
    obtain ⟨X, hX, gX, _⟩ := good_first hS m q hC
    obtain ⟨Y, hY, gY, e1, e2⟩ := good_step hS m q hC X gX
    refine ⟨X, Y, (sweepN_succ_ok s ph 0 _ X).mpr ⟨_, rfl, hX⟩, hY, gX, gY, e1, e2, ?_⟩
    have hm := hC.m_pos
    obtain ⟨_, x2, x3, _⟩ := gX
    obtain ⟨_, y2, y3, _⟩ := gY
    rw [pow_zero, one_mul, abs_le]
    constructor <;> linarith
  | succ n ih =>
    obtain ⟨X, Y, hX, hY, gX, gY, e1, e2, hd⟩ := ih
    obtain ⟨Z, hZ, gZ, f1, f2⟩ := good_step hS m q hC Y gY
    refine ⟨Y, Z, (sweepN_succ_ok s ph (n + 1) _ Y).mpr ⟨X, hX, hY⟩, hZ, gY, gZ, f1, f2, ?_⟩
    rw [f1]
    nth_rewrite 2 [e1]
    have := good_contract hS m q hC (vget X.1 r) (vget Y.1 r) gX.2.1 gY.2.1
    calc _ ≤ q * |vget Y.1 r - vget X.1 r| := this
      _ ≤ q * (q ^ n * src.comp.vo) := mul_le_mul_of_nonneg_left hd (hC.q_nonneg hS)
      _ = q ^ (n + 1) * src.comp.vo := by ring

/-! ### 8. the exit test fires -/

/-- exit test between two consecutive good iterates `Y → Z`, `Y` itself the successor of a good `X`, once both
    source-voltage steps are below `min vtol itol · m` -/
theorem good_converged {s : SSys α} {ph : String} {r : Nat} {src : SNode α} (hS : Star s ph r src)
    (m : α) (hm : 0 < m) (cfg : Cfg α) (hat : 0 ≤ cfg.atol) (hv : 0 ≤ cfg.vtol) (hi : 0 ≤ cfg.itol)
    (X Y Z : Vec α × Vec α × St) (gX : Good s r src m X) (gY : Good s r src m Y) (gZ : Good s r src m Z)
    (eY : vget Y.2.1 r = starCur s src (vget X.1 r)) (eZ : vget Z.2.1 r = starCur s src (vget Y.1 r))
    (d1 : |vget X.1 r - vget Y.1 r| ≤ cfg.itol * m)
    (d2v : |vget Y.1 r - vget Z.1 r| ≤ cfg.vtol * m) (d2i : |vget Y.1 r - vget Z.1 r| ≤ cfg.itol * m) :
    converged cfg Y.1 Z.1 Y.2.1 Z.2.1 = true := by
  obtain ⟨_, x2, _, _, _, _⟩ := gX
  obtain ⟨_, y2, _, y4, y5, y6⟩ := gY
  obtain ⟨_, z2, _, z4, z5, z6⟩ := gZ
  have hz0 : 0 < vget Z.1 r := lt_of_lt_of_le hm z2
  unfold converged
  rw [Bool.and_eq_true]
  constructor
  · apply allClose_of_cells
    intro n
    by_cases hn : n = r
    · subst hn
      rw [abs_of_pos hz0]
      have : cfg.vtol * m ≤ cfg.vtol * vget Z.1 n := mul_le_mul_of_nonneg_left z2 hv
      linarith
    · rw [y4 n hn, z4 n hn, sub_self, abs_zero, mul_zero, add_zero]
      exact hat
  · apply allClose_of_cells
    intro n
    by_cases hn : n = r
    · subst hn
      rw [eY, eZ, abs_of_nonneg (starCur_nonneg hS _)]
      have := starCur_close hS m cfg.itol _ _ hm hi x2 y2 d1
      linarith
    · by_cases hc : n ∈ src.childs
      · obtain ⟨_, cd, h1, _, _, h4⟩ := hS.leaf n hc
        rw [y5 n hc cd h1, z5 n hc cd h1, abs_of_nonneg (loadCur_nonneg _ h4 _)]
        have := loadCur_close cd.comp h4 m cfg.itol _ _ hm hi y2 z2 d2i
        linarith
      · rw [y6 n hn hc, z6 n hn hc, sub_self, abs_zero, mul_zero, add_zero]
        exact hat

/-- **`star_converges_cert_partial`** (explicit sweep bound).  A star (one `Source` with `vo > 0`, `rs ≥ 0`
    feeding `ILoad` / `RLoad` / `PLoad` leaves directly, no phase configuration) with a contraction certificate
    `(m, q)`; non-negative tolerances; any `K` with `q^K · vo ≤ min vtol itol · m`; `maxiter ≥ K + 3`.
    Then `solve()` returns for this phase — neither `RuntimeError` nor "Unstable system" — within `K + 3`
    passes, on a triple on which the exit test fired. -/
theorem star_converges_cert_partial {s : SSys α} {ph : String} {r : Nat} {src : SNode α}
    (hS : Star s ph r src) (m q : α) (hC : Cert s src m q) (cfg : Cfg α)
    (hat : 0 ≤ cfg.atol) (hv : 0 ≤ cfg.vtol) (hi : 0 ≤ cfg.itol) (K : Nat)
    (hK : q ^ K * src.comp.vo ≤ min cfg.vtol cfg.itol * m) (hmax : K + 3 ≤ cfg.maxiter) :
    ∃ res, s.solvePhase cfg ph = .ok res ∧ res.iters ≤ K + 3 ∧ ConvergedAt s cfg ph res.v res.i res.st := by
  obtain ⟨X, Y, hX, hY, gX, gY, e1, e2, hd⟩ := star_chain hS m q hC K
  obtain ⟨Z, hZ, gZ, f1, f2⟩ := good_step hS m q hC Y gY
  have hm := hC.m_pos
  have hq0 := hC.q_nonneg hS
  have hd1 : |vget Y.1 r - vget X.1 r| ≤ min cfg.vtol cfg.itol * m := le_trans hd hK
  have hd2 : |vget Z.1 r - vget Y.1 r| ≤ min cfg.vtol cfg.itol * m := by
    have := good_contract hS m q hC (vget X.1 r) (vget Y.1 r) gX.2.1 gY.2.1
    rw [← f1, ← e1] at this
    have h2 : q * |vget Y.1 r - vget X.1 r| ≤ 1 * |vget Y.1 r - vget X.1 r| :=
      mul_le_mul_of_nonneg_right hC.q_lt.le (abs_nonneg _)
    linarith
  have hvt : min cfg.vtol cfg.itol * m ≤ cfg.vtol * m := mul_le_mul_of_nonneg_right (min_le_left _ _) hm.le
  have hit : min cfg.vtol cfg.itol * m ≤ cfg.itol * m := mul_le_mul_of_nonneg_right (min_le_right _ _) hm.le
  have hconv := good_converged hS m hm cfg hat hv hi X Y Z gX gY gZ e2 f2
    (by rw [abs_sub_comm]; linarith) (by rw [abs_sub_comm]; linarith) (by rw [abs_sub_comm]; linarith)
  have hYn : sweepN s ph (K + 2) (s.init ph) = .ok Y := (sweepN_succ_ok s ph (K + 1) _ Y).mpr ⟨X, hX, hY⟩
  exact loop_returns_if_eventually_converged s cfg ph (K + 2) Y Z hYn hZ hconv (by omega)

/-- **`star_converges_cert_arch_partial`**: over an Archimedean field, for all positive relative tolerances
    there is a sweep budget `K` beyond which `solve()` always returns on a certified star. -/
theorem star_converges_cert_arch_partial [Archimedean α] {s : SSys α} {ph : String} {r : Nat} {src : SNode α}
    (hS : Star s ph r src) (m q : α) (hC : Cert s src m q) (atol vtol itol : α)
    (hat : 0 ≤ atol) (hv : 0 < vtol) (hi : 0 < itol) :
    ∃ K : Nat, ∀ maxiter : Nat, K ≤ maxiter →
      ∃ res, s.solvePhase ⟨atol, vtol, itol, maxiter⟩ ph = .ok res ∧ res.iters ≤ K := by
  have hm := hC.m_pos
  have hx : 0 < min vtol itol * m / src.comp.vo :=
    div_pos (mul_pos (lt_min hv hi) hm) hS.vo_pos
  obtain ⟨K, hK⟩ := exists_pow_lt_of_lt_one hx hC.q_lt
  refine ⟨K + 3, fun maxiter hmax => ?_⟩
  obtain ⟨res, h1, h2, _⟩ := star_converges_cert_partial hS m q hC ⟨atol, vtol, itol, maxiter⟩ hat hv.le hi.le K
    ((lt_div_iff₀ hS.vo_pos).mp hK).le hmax
  exact ⟨res, h1, h2⟩

/-! ### 9. the exact recurrence of the iterates (`star_recurrence`) -/

/-- the source flag stays clear on every iterate -/
theorem star_flag {s : SSys α} {ph : String} {r : Nat} {src : SNode α} (hS : Star s ph r src) :
    ∀ (n : Nat) (X : Vec α × Vec α × St), sweepN s ph n (s.init ph) = .ok X → X.2.2.getD r [] = [false] := by
  intro n
  induction n with
  | zero =>
    intro X hX
    simp only [sweepN, Except.ok.injEq] at hX
    subst hX
    exact (star_init hS).2.1
  | succ n ih =>
    intro X hX
    obtain ⟨W, hW, hWX⟩ := (sweepN_succ_ok s ph n _ X).mp hX
    obtain ⟨vW, iW, sW⟩ := W
    obtain ⟨vX, iX, sX⟩ := X
    exact (star_step hS vW iW sW vX iX sX hWX (ih _ hW)).2.2.2.2.2.2

/-- **`star_recurrence_general`** — the exact recurrence of the source voltage `u_n = v_n[r]` on ANY star
    (PLoads included), for as long as the passes exist:
    `u_1 = vo − rs · J` (`J` = Σ ILoad currents: the forward pass uses the OLD currents, and initially only
    ILoads carry one), every `u_{n+1}` is positive, and `u_{n+2} = vo − rs · I(u_{n+1})` where
    `I(u) = Σ_k loadCur_k(u)` (the back pass evaluates the load laws at the NEW voltage; the next forward
    pass consumes them). -/
theorem star_recurrence_general {s : SSys α} {ph : String} {r : Nat} {src : SNode α} (hS : Star s ph r src) :
    (∀ Y, sweepN s ph 1 (s.init ph) = .ok Y →
      vget Y.1 r = src.comp.vo - src.comp.rs * overChilds s src loadJ) ∧
    (∀ n Y Z, sweepN s ph (n + 1) (s.init ph) = .ok Y → sweepN s ph (n + 2) (s.init ph) = .ok Z →
      0 < vget Y.1 r ∧ vget Z.1 r = src.comp.vo - src.comp.rs * starCur s src (vget Y.1 r)) := by
  constructor
  · intro Y hY
    obtain ⟨W, hW, hWY⟩ := (sweepN_succ_ok s ph 0 _ Y).mp hY
    simp only [sweepN, Except.ok.injEq] at hW
    subst hW
    obtain ⟨_, i2, i3⟩ := star_init hS
    generalize s.init ph = X0 at *
    obtain ⟨vX, iX, sX⟩ := X0
    obtain ⟨vY, iY, sY⟩ := Y
    obtain ⟨a1, _⟩ := star_step hS vX iX sX vY iY sY hWY i2
    simp only at i3
    rw [i3] at a1
    exact a1
  · intro n Y Z hY hZ
    obtain ⟨W, hW, hWY⟩ := (sweepN_succ_ok s ph n _ Y).mp hY
    obtain ⟨Y', hY', hYZ⟩ := (sweepN_succ_ok s ph (n + 1) _ Z).mp hZ
    rw [hY] at hY'
    simp only [Except.ok.injEq] at hY'
    subst hY'
    have fW := star_flag hS n W hW
    have fY := star_flag hS (n + 1) Y hY
    obtain ⟨vW, iW, sW⟩ := W
    obtain ⟨vY, iY, sY⟩ := Y
    obtain ⟨vZ, iZ, sZ⟩ := Z
    obtain ⟨_, a2, _, a4, _⟩ := star_step hS vW iW sW vY iY sY hWY fW
    obtain ⟨b1, _⟩ := star_step hS vY iY sY vZ iZ sZ hYZ fY
    rw [childs_sum_eq_starCur hS iY (vget vY r) a4] at b1
    exact ⟨a2, b1⟩

/-! ### 10. the linear class: ILoads and RLoads only -/

/-- no `PLoad` among the leaves -/
def NoPLoad (s : SSys α) (src : SNode α) : Prop :=
  ∀ c, c ∈ src.childs → ∀ cd, s.node? c = some cd → cd.comp.kind ≠ .pload

/-- `J = Σ I_k` over the `ILoad`s -/
def starJ (s : SSys α) (src : SNode α) : α := overChilds s src loadJ
/-- `G = Σ 1/R_k` over the `RLoad`s -/
def starG (s : SSys α) (src : SNode α) : α := overChilds s src loadG

theorem loadCur_linear (c : Comp α) (hc : LoadOK c ∧ c.kind ≠ .pload) (v : α) (hv : 0 < v) :
    loadCur c v = loadJ c + v * loadG c := by
  unfold loadCur loadJ loadG
  rw [if_neg (ne_of_gt hv), abs_of_pos hv]
  rcases hc.1 with ⟨hk, h⟩ | ⟨hk, h⟩ | ⟨hk, h⟩
  · simp [hk]
  · simp only [hk]; ring
  · exact absurd hk hc.2

theorem loadMax_linear (c : Comp α) (hc : LoadOK c ∧ c.kind ≠ .pload) (m vo : α) :
    loadMax m vo c = loadJ c + vo * loadG c := by
  unfold loadMax loadJ loadG
  rcases hc.1 with ⟨hk, h⟩ | ⟨hk, h⟩ | ⟨hk, h⟩
  · simp [hk]
  · simp only [hk]; ring
  · exact absurd hk hc.2

theorem loadLip_linear (c : Comp α) (hc : LoadOK c ∧ c.kind ≠ .pload) (m : α) : loadLip m c = loadG c := by
  unfold loadLip loadG
  rcases hc.1 with ⟨hk, h⟩ | ⟨hk, h⟩ | ⟨hk, h⟩
  · simp [hk]
  · simp only [hk]
  · exact absurd hk hc.2

theorem linear_leaves {s : SSys α} {ph : String} {r : Nat} {src : SNode α} (hS : Star s ph r src)
    (hN : NoPLoad s src) :
    ∀ c, c ∈ src.childs → ∀ cd, s.node? c = some cd → LoadOK cd.comp ∧ cd.comp.kind ≠ .pload :=
  fun c hc cd hcd => ⟨(hS.leaf_kind c hc cd hcd).2.2.1, hN c hc cd hcd⟩

theorem starCur_linear {s : SSys α} {ph : String} {r : Nat} {src : SNode α} (hS : Star s ph r src)
    (hN : NoPLoad s src) (v : α) (hv : 0 < v) : starCur s src v = starJ s src + starG s src * v := by
  unfold starCur starJ starG
  rw [overChilds_congr' hS _ (linear_leaves hS hN) _ (fun c => loadJ c + v * loadG c)
    (fun c hc => loadCur_linear c hc v hv), overChilds_add, overChilds_mul]
  ring

theorem starG_nonneg {s : SSys α} {ph : String} {r : Nat} {src : SNode α} (hS : Star s ph r src) :
    0 ≤ starG s src := by
  apply overChilds_nonneg hS
  intro c hc
  unfold loadG
  rcases hc with ⟨hk, h⟩ | ⟨hk, h⟩ | ⟨hk, h⟩ <;> simp only [hk]
  · exact le_refl _
  · exact div_nonneg zero_le_one h.le
  · exact le_refl _

theorem starJ_nonneg {s : SSys α} {ph : String} {r : Nat} {src : SNode α} (hS : Star s ph r src) :
    0 ≤ starJ s src :=
  overChilds_nonneg hS _ (fun c _ => loadJ_nonneg c)

/-- **`star_recurrence`** — closed form of the sweep on a star of ILoads and RLoads, with `G = Σ 1/R_k`,
    `J = Σ I_k`, `u_n` the source cell of the `n`-th iterate from the initial guess (`u_0 = vo`):
    `u_1 = vo − rs·J` and `u_{n+2} = vo − rs·(J + G·u_{n+1})` — an affine map with slope `−rs·G` —
    for as long as the passes exist (no hypothesis on the size of the drop). -/
theorem star_recurrence {s : SSys α} {ph : String} {r : Nat} {src : SNode α} (hS : Star s ph r src)
    (hN : NoPLoad s src) :
    (∀ Y, sweepN s ph 1 (s.init ph) = .ok Y → vget Y.1 r = src.comp.vo - src.comp.rs * starJ s src) ∧
    (∀ n Y Z, sweepN s ph (n + 1) (s.init ph) = .ok Y → sweepN s ph (n + 2) (s.init ph) = .ok Z →
      vget Z.1 r = src.comp.vo - src.comp.rs * (starJ s src + starG s src * vget Y.1 r)) := by
  obtain ⟨h1, h2⟩ := star_recurrence_general hS
  refine ⟨h1, fun n Y Z hY hZ => ?_⟩
  obtain ⟨hp, e⟩ := h2 n Y Z hY hZ
  rw [e, starCur_linear hS hN _ hp]

/-- on the linear class `rs·(J + G·vo) < vo` is a contraction certificate: floor `m = vo − rs·(J + G·vo)`,
    factor `q = rs·G` (which the hypothesis forces below 1) -/
theorem linear_cert {s : SSys α} {ph : String} {r : Nat} {src : SNode α} (hS : Star s ph r src)
    (hN : NoPLoad s src)
    (hdrop : src.comp.rs * (starJ s src + starG s src * src.comp.vo) < src.comp.vo) :
    Cert s src (src.comp.vo - src.comp.rs * (starJ s src + starG s src * src.comp.vo))
      (src.comp.rs * starG s src) := by
  have hmax : overChilds s src (loadMax (src.comp.vo - src.comp.rs * (starJ s src + starG s src * src.comp.vo))
      src.comp.vo) = starJ s src + starG s src * src.comp.vo := by
    unfold starJ starG
    rw [overChilds_congr' hS _ (linear_leaves hS hN) _ (fun c => loadJ c + src.comp.vo * loadG c)
      (fun c hc => loadMax_linear c hc _ _), overChilds_add, overChilds_mul]
    ring
  have hlip : overChilds s src (loadLip (src.comp.vo - src.comp.rs * (starJ s src + starG s src * src.comp.vo)))
      = starG s src := by
    unfold starG
    exact overChilds_congr' hS _ (linear_leaves hS hN) _ _ (fun c hc => loadLip_linear c hc _)
  refine ⟨by linarith, by rw [hmax]; linarith, by rw [hlip], ?_⟩
  -- `rs·G < 1`
  have hvo := hS.vo_pos
  have hJ : 0 ≤ src.comp.rs * starJ s src := mul_nonneg hS.rs_nonneg (starJ_nonneg hS)
  by_contra hge
  have hge' : 1 ≤ src.comp.rs * starG s src := not_lt.mp hge
  have : src.comp.vo ≤ src.comp.rs * starG s src * src.comp.vo := by
    have := mul_le_mul_of_nonneg_right hge' hvo.le
    linarith
  have e : src.comp.rs * (starJ s src + starG s src * src.comp.vo) =
      src.comp.rs * starJ s src + src.comp.rs * starG s src * src.comp.vo := by ring
  linarith

/-- the modest-drop hypothesis forces the contraction factor below 1 -/
theorem linear_factor_lt_one {s : SSys α} {ph : String} {r : Nat} {src : SNode α} (hS : Star s ph r src)
    (hN : NoPLoad s src)
    (hdrop : src.comp.rs * (starJ s src + starG s src * src.comp.vo) < src.comp.vo) :
    src.comp.rs * starG s src < 1 := (linear_cert hS hN hdrop).q_lt

/-- **`star_converges_explicit_partial`** — one `Source` (`vo > 0`, `rs ≥ 0`) feeding ILoads and RLoads directly,
    no phase configuration, `rs·(J + G·vo) < vo` (this discharges the positivity guard of the Source law on every
    iterate and forces `q = rs·G < 1`), tolerances ≥ 0.  For every `K` with
    `(rs·G)^K · vo ≤ min vtol itol · (vo − rs·(J + G·vo))` and `maxiter ≥ K + 3`, `solve()` returns for this
    phase within `K + 3` passes on a triple on which the exit test fired. -/
theorem star_converges_explicit_partial {s : SSys α} {ph : String} {r : Nat} {src : SNode α}
    (hS : Star s ph r src) (hN : NoPLoad s src)
    (hdrop : src.comp.rs * (starJ s src + starG s src * src.comp.vo) < src.comp.vo) (cfg : Cfg α)
    (hat : 0 ≤ cfg.atol) (hv : 0 ≤ cfg.vtol) (hi : 0 ≤ cfg.itol) (K : Nat)
    (hK : (src.comp.rs * starG s src) ^ K * src.comp.vo ≤
      min cfg.vtol cfg.itol * (src.comp.vo - src.comp.rs * (starJ s src + starG s src * src.comp.vo)))
    (hmax : K + 3 ≤ cfg.maxiter) :
    ∃ res, s.solvePhase cfg ph = .ok res ∧ res.iters ≤ K + 3 ∧ ConvergedAt s cfg ph res.v res.i res.st :=
  star_converges_cert_partial hS _ _ (linear_cert hS hN hdrop) cfg hat hv hi K hK hmax

/-- **`star_converges_partial`** — over an Archimedean ordered field (ℚ, ℝ): on the same class, for every
    `atol ≥ 0`, `vtol > 0`, `itol > 0` there is a sweep budget `K` such that for every `maxiter ≥ K`
    `solve()` returns (`.ok`) for this phase, after at most `K` passes. -/
theorem star_converges_partial [Archimedean α] {s : SSys α} {ph : String} {r : Nat} {src : SNode α}
    (hS : Star s ph r src) (hN : NoPLoad s src)
    (hdrop : src.comp.rs * (starJ s src + starG s src * src.comp.vo) < src.comp.vo)
    (atol vtol itol : α) (hat : 0 ≤ atol) (hv : 0 < vtol) (hi : 0 < itol) :
    ∃ K : Nat, ∀ maxiter : Nat, K ≤ maxiter →
      ∃ res, s.solvePhase ⟨atol, vtol, itol, maxiter⟩ ph = .ok res ∧ res.iters ≤ K :=
  star_converges_cert_arch_partial hS _ _ (linear_cert hS hN hdrop) atol vtol itol hat hv hi

/-! ### 11. non-vacuity over ℚ -/

/-! Source(10 V, 1 Ω) → { RLoad(10 Ω), ILoad(1 A) }:  `G = 1/10`, `J = 1`, `q = 1/10`, floor `m = 8`. -/

def stSrc : Comp ℚ := { name := "S", kind := .source, par := .const 0, vo := 10, rs := 1 }
def stR : Comp ℚ := { name := "R", kind := .rload, par := .const 0, rs := 10 }
def stI : Comp ℚ := { name := "I", kind := .iload, par := .const 0, ii := 1 }
def stSrcNode : SNode ℚ := ⟨stSrc, [], [1, 2], .table [], "", ""⟩
def stRNode : SNode ℚ := ⟨stR, [0], [], .table [], "", ""⟩
def stINode : SNode ℚ := ⟨stI, [0], [], .table [], "", ""⟩

def stSys : SSys ℚ :=
  { nodes := #[some stSrcNode, some stRNode, some stINode],
    topo := [0, 1, 2] }

theorem stNode (n : Nat) (nd : SNode ℚ) (h : stSys.node? n = some nd) :
    (n = 0 ∧ nd = stSrcNode) ∨
    (n = 1 ∧ nd = stRNode) ∨
    (n = 2 ∧ nd = stINode) := by
  match n with
  | 0 => simp [SSys.node?, stSys] at h; subst h; simp
  | 1 => simp [SSys.node?, stSys] at h; subst h; simp
  | 2 => simp [SSys.node?, stSys] at h; subst h; simp
  | n + 3 => simp [SSys.node?, stSys] at h

theorem stStar : Star stSys "" 0 stSrcNode where
  topo_lt := by decide
  root := by simp [SSys.node?, stSys]
  root_topo := by decide
  kind := rfl
  parents := rfl
  vo_pos := by norm_num [stSrcNode, stSrc]
  rs_nonneg := by norm_num [stSrcNode, stSrc]
  noconf := by
    intro n nd h
    rcases stNode n nd h with ⟨_, rfl⟩ | ⟨_, rfl⟩ | ⟨_, rfl⟩ <;> rfl
  only := by
    intro n nd h
    rcases stNode n nd h with ⟨rfl, _⟩ | ⟨rfl, _⟩ | ⟨rfl, _⟩ <;> simp [stSrcNode]
  leaf := by
    intro c hc
    simp only [stSrcNode, List.mem_cons, List.not_mem_nil, or_false] at hc
    rcases hc with rfl | rfl
    · exact ⟨by decide, stRNode, by simp [SSys.node?, stSys], rfl, rfl,
        Or.inr (Or.inl ⟨rfl, by norm_num [stRNode, stR]⟩)⟩
    · exact ⟨by decide, stINode, by simp [SSys.node?, stSys], rfl, rfl,
        Or.inl ⟨rfl, by norm_num [stINode, stI]⟩⟩

theorem stNoP : NoPLoad stSys stSrcNode := by
  intro c _ cd h
  rcases stNode c cd h with ⟨_, rfl⟩ | ⟨_, rfl⟩ | ⟨_, rfl⟩ <;> decide

theorem stJ : starJ stSys stSrcNode = 1 := by
  simp [starJ, overChilds, stSrcNode, SSys.node?, stSys, loadJ, stRNode, stINode, stR, stI]

theorem stG : starG stSys stSrcNode = 1 / 10 := by
  simp [starG, overChilds, stSrcNode, SSys.node?, stSys, loadG, stRNode, stINode, stR, stI]

theorem stDrop : stSrcNode.comp.rs * (starJ stSys stSrcNode + starG stSys stSrcNode * stSrcNode.comp.vo) <
    stSrcNode.comp.vo := by
  rw [stJ, stG]; norm_num [stSrcNode, stSrc]

/-- `solve()`'s default settings -/
def stCfg : Cfg ℚ := ⟨1 / 100000000, 1 / 100000, 1 / 1000000, 10000⟩

/-- `star_converges_explicit_partial` applies with `K = 7`: default settings return within 10 passes -/
example : ∃ res, stSys.solvePhase stCfg "" = .ok res ∧ res.iters ≤ 10 ∧
    ConvergedAt stSys stCfg "" res.v res.i res.st :=
  star_converges_explicit_partial stStar stNoP stDrop stCfg (by norm_num [stCfg]) (by norm_num [stCfg])
    (by norm_num [stCfg]) 7 (by rw [stJ, stG]; norm_num [stCfg, stSrcNode, stSrc]) (by norm_num [stCfg])

/-- `star_converges_partial` applies (ℚ is Archimedean) -/
example : ∃ K : Nat, ∀ maxiter : Nat, K ≤ maxiter →
    ∃ res, stSys.solvePhase ⟨1 / 100000000, 1 / 100000, 1 / 1000000, maxiter⟩ "" = .ok res ∧ res.iters ≤ K :=
  star_converges_partial stStar stNoP stDrop _ _ _ (by norm_num) (by norm_num) (by norm_num)

/-- `star_recurrence` is about something: the first three iterates exist, `u_1 = 9`, `u_2 = 8.1 = 10 − (1 + u_1/10)` -/
example : ∃ Y Z, sweepN stSys "" 1 (stSys.init "") = .ok Y ∧ sweepN stSys "" 2 (stSys.init "") = .ok Z ∧
    vget Y.1 0 = 9 ∧ vget Z.1 0 = 81 / 10 := by
  obtain ⟨X, Y, hX, hY, _⟩ := star_chain stStar _ _ (linear_cert stStar stNoP stDrop) 0
  have hY2 : sweepN stSys "" 2 (stSys.init "") = .ok Y := (sweepN_succ_ok _ _ 1 _ Y).mpr ⟨X, hX, hY⟩
  obtain ⟨r1, r2⟩ := star_recurrence stStar stNoP
  have e1 := r1 X hX
  have e2 := r2 0 X Y hX hY2
  rw [stJ] at e1 e2
  rw [stG] at e2
  refine ⟨X, Y, hX, hY2, ?_, ?_⟩
  · rw [e1]; norm_num [stSrcNode, stSrc]
  · rw [e2, e1]; norm_num [stSrcNode, stSrc]

/-! with a `PLoad`: Source(10 V, 1 Ω) → { RLoad(10 Ω), PLoad(5 W) }: certificate `m = 8`, `q = 1/5`
    (`1·(10/10 + 5/8) ≤ 10 − 8`, `1·(1/10 + 5/64) ≤ 1/5`), `K = 9` -/

def stP : Comp ℚ := { name := "P", kind := .pload, par := .const 0, pwr := 5 }
def stPNode : SNode ℚ := ⟨stP, [0], [], .table [], "", ""⟩

def stSysP : SSys ℚ :=
  { nodes := #[some stSrcNode, some stRNode, some stPNode],
    topo := [0, 1, 2] }

theorem stNodeP (n : Nat) (nd : SNode ℚ) (h : stSysP.node? n = some nd) :
    (n = 0 ∧ nd = stSrcNode) ∨
    (n = 1 ∧ nd = stRNode) ∨
    (n = 2 ∧ nd = stPNode) := by
  match n with
  | 0 => simp [SSys.node?, stSysP] at h; subst h; simp
  | 1 => simp [SSys.node?, stSysP] at h; subst h; simp
  | 2 => simp [SSys.node?, stSysP] at h; subst h; simp
  | n + 3 => simp [SSys.node?, stSysP] at h

theorem stStarP : Star stSysP "" 0 stSrcNode where
  topo_lt := by decide
  root := by simp [SSys.node?, stSysP]
  root_topo := by decide
  kind := rfl
  parents := rfl
  vo_pos := by norm_num [stSrcNode, stSrc]
  rs_nonneg := by norm_num [stSrcNode, stSrc]
  noconf := by
    intro n nd h
    rcases stNodeP n nd h with ⟨_, rfl⟩ | ⟨_, rfl⟩ | ⟨_, rfl⟩ <;> rfl
  only := by
    intro n nd h
    rcases stNodeP n nd h with ⟨rfl, _⟩ | ⟨rfl, _⟩ | ⟨rfl, _⟩ <;> simp [stSrcNode]
  leaf := by
    intro c hc
    simp only [stSrcNode, List.mem_cons, List.not_mem_nil, or_false] at hc
    rcases hc with rfl | rfl
    · exact ⟨by decide, stRNode, by simp [SSys.node?, stSysP], rfl, rfl,
        Or.inr (Or.inl ⟨rfl, by norm_num [stRNode, stR]⟩)⟩
    · exact ⟨by decide, stPNode, by simp [SSys.node?, stSysP], rfl, rfl,
        Or.inr (Or.inr ⟨rfl, by norm_num [stPNode, stP]⟩)⟩

theorem stCertP : Cert stSysP stSrcNode 8 (1 / 5) where
  m_pos := by norm_num
  inv := by
    simp [overChilds, stSrcNode, SSys.node?, stSysP, loadMax, stRNode, stPNode, stR, stP, stSrc]
    norm_num
  lip := by
    simp [overChilds, stSrcNode, SSys.node?, stSysP, loadLip, stRNode, stPNode, stR, stP, stSrc]
    norm_num
  q_lt := by norm_num

example : ∃ res, stSysP.solvePhase stCfg "" = .ok res ∧ res.iters ≤ 12 ∧
    ConvergedAt stSysP stCfg "" res.v res.i res.st :=
  star_converges_cert_partial stStarP 8 (1 / 5) stCertP stCfg (by norm_num [stCfg]) (by norm_num [stCfg])
    (by norm_num [stCfg]) 9 (by norm_num [stCfg, stSrcNode, stSrc]) (by norm_num [stCfg])

example : ∃ K : Nat, ∀ maxiter : Nat, K ≤ maxiter →
    ∃ res, stSysP.solvePhase ⟨1 / 100000000, 1 / 100000, 1 / 1000000, maxiter⟩ "" = .ok res ∧ res.iters ≤ K :=
  star_converges_cert_arch_partial stStarP 8 (1 / 5) stCertP _ _ _ (by norm_num) (by norm_num) (by norm_num)

end C03
end SysLoss
