/-
  Props/C16Renumber — the solver and the table rows commute with a renumbering of the nodes (C16: "results depend
  on the final structure only, not on the edit history / node numbering").

  `Props/C16` shows that what `_rel_update()` hands to the solver is a function of the abstract structure *up to the
  numbering of the nodes*; `Props/C16Sweep` that the sweeps are pointwise maps.  This file closes the gap stated in
  the header of `Props/C16`: two solver-level systems that differ only by a renaming `σ` of the node indices give
  the same results, cell by cell.

  `Iso σ s s'`   : `s'` is `s` with node ids renamed by `σ` (injective on the live ids of `s`, onto the live ids of
                   `s'`): same component / phase configuration / group / rail per node, `_parents` renamed IN ORDER
                   (mux priority), `_childs` renamed up to a permutation (sibling order is history dependent), both
                   `_topo_nodes` list exactly the live ids in ANY order, parents / children of live nodes are live,
                   same `phases`.  `hidx` may differ (freed indices, gaps).  No acyclicity is needed for Part 1.
  `VRel`, `SRel` : value / flag vectors of sizes `hidx`, equal on live cells (`v'[σ n] = v[n]`), 0 / `[]` on dead cells.

  Part 1 — solver (all fully proved, no extra hypotheses beyond `Iso` and `0 ≤ atol`):
    childShare_comm, childCurr_comm, fwdAt_comm, backAt_comm : the pointwise laws commute (the whole `Except` value)
    fwdProp_rel, backProp_rel, converged_rel, init_rel, loop_rel, solveRaw_rel
    solvePhase_renumber        `s.solvePhase = ok r` ⇒ `s'.solvePhase = ok r'`, EQUAL `iters`, related `v`, `i`, flags
    solvePhase_renumber_error  `s` raises ⇒ `s'` raises: the "Steady-state not achieved" RuntimeError on both sides, or
                               an exception of a component law on both sides
    solvePhase_runtime_iff, solvePhase_isOk_iff : the converses (success / RuntimeError agree in both directions)
  NOT claimed in general: that the *same* law exception escapes.  `_fwd_prop` raises the first exception in
  `_topo_nodes` order, so when two components fail in the same sweep, which one is reported depends on rustworkx's
  order (`LawErr` only says "raised by some component's voltage law"; never the RuntimeError: `LawErr.not_runtime`).
  Every error statement carries the clause `s'.topo = s.topo.map σ → e' = e`: same processing order, same exception.

  Part 2 — table rows.  Additionally `TableWF` on both systems: unique component names (needed by the `railIn` lookup
  by name), `_topo_nodes` without repetitions and listing the first parent of a node before it (a valid topological
  order), only Sources are roots (the running `dname` is order dependent for any other root, and a parentless PMux
  would read node 0).  These hold for every reachable system (C14) but are hypotheses here.
    compRow_comm        the row of `σ n` in `s'` IS the row of `n` in `s` (all cells + the domain handed on), given the
                        same inherited domain
    compRows_spec       `compRows` = the `compRow`s in `_topo_nodes` order, each started from its first parent's domain
    compRows_renumber   the component rows of `s'` are a permutation of those of `s` — domains included; the agreement
                        of inherited domains is PROVED (along the supply paths), not assumed.  `_find_domain`'s walk to
                        the root uses `hidx` as fuel; `rootOf_hidx_comm` shows both fuels suffice.
  Part 3 — aggregate rows (same hypotheses):
    aggregates_perm     subsystem rows / total row are functions of the component rows up to their order, as long as
                        there is at most one SOURCE row per domain (`compRows_srcDistinct`: true under `TableWF`)
    phaseTable_renumber component rows and subsystem rows of `s'` are permutations of those of `s`, the "System total"
                        row and the number of sources are EQUAL
  Part 4 — the whole `solve()`:
    solve_renumber        `s.solve = ok T` ⇒ `s'.solve = ok T'`, phase by phase `PTRel` (rows up to order, equal totals),
                          and the "System average" row is EQUAL (`nsrc_structural`: the number of subsystems does not
                          depend on the phase, so the single-source test of the average row agrees)
    solve_renumber_error  `s.solve` raises ⇒ `s'.solve` raises (same caveat on which law exception escapes)
  Row ORDER is not claimed equal (it is `_topo_nodes` order — rustworkx's choice; the check canonicalises by name).
  `rail_rep()` is not treated here.

  Non-vacuity: `exA` (Source→Converter→{ILoad, RLoad}, ids 0,1,2,3, two phases) and `exB` (ids 0,2,5,3, gaps at 1 and
  4, other sibling order, other processing order) satisfy `Iso` and `TableWF`; both solve phase "run" in 6 iterations
  (kernel-evaluated at ℚ), every main theorem is applied to the pair, the rows come out in different orders, the
  two-phase `solve()` succeeds with an average row.
-/
import SysLoss.Props.C16Sweep
import SysLoss.Model.Table
import SysLoss.Proofs.Domain

set_option linter.unusedSectionVars false
set_option linter.unusedVariables false

namespace SysLoss
namespace C16R
open C16
variable {α : Type} [Field α] [LinearOrder α] [IsStrictOrderedRing α]

/-! ### the renumbering relation -/

/-- node payloads related by the renaming `σ`: same component, phase configuration, group and rail;
    parents renamed *in order* (mux priority), children renamed up to sibling order -/
structure NodeRel (σ : Nat → Nat) (nd nd' : SNode α) : Prop where
  comp    : nd'.comp = nd.comp
  pconf   : nd'.pconf = nd.pconf
  group   : nd'.group = nd.group
  rail    : nd'.rail = nd.rail
  parents : nd'.parents = nd.parents.map σ
  childs  : nd'.childs.Perm (nd.childs.map σ)

/-- `s'` is `s` with its node ids renamed by `σ` -/
structure Iso (σ : Nat → Nat) (s s' : SSys α) : Prop where
  inj    : ∀ n m nd md, s.node? n = some nd → s.node? m = some md → σ n = σ m → n = m
  node   : ∀ n nd, s.node? n = some nd → ∃ nd', s'.node? (σ n) = some nd' ∧ NodeRel σ nd nd'
  surj   : ∀ m nd', s'.node? m = some nd' → ∃ n nd, s.node? n = some nd ∧ σ n = m
  topo   : ∀ n, n ∈ s.topo ↔ ∃ nd, s.node? n = some nd
  topo'  : ∀ m, m ∈ s'.topo ↔ ∃ nd', s'.node? m = some nd'
  parentsLive : ∀ n nd, s.node? n = some nd → ∀ p ∈ nd.parents, ∃ pd, s.node? p = some pd
  childsLive  : ∀ n nd, s.node? n = some nd → ∀ c ∈ nd.childs, ∃ cd, s.node? c = some cd
  phases : s'.phases = s.phases

/-- value vectors related by `σ`: equal on live cells, 0 on dead cells, sizes `hidx` -/
structure VRel (σ : Nat → Nat) (s s' : SSys α) (v v' : Vec α) : Prop where
  size  : v.size = s.hidx
  size' : v'.size = s'.hidx
  live  : ∀ n nd, s.node? n = some nd → vget v' (σ n) = vget v n
  dead  : ∀ n, s.node? n = none → vget v n = 0
  dead' : ∀ m, s'.node? m = none → vget v' m = 0

/-- flag vectors related by `σ` -/
structure SRel (σ : Nat → Nat) (s s' : SSys α) (st st' : St) : Prop where
  size  : st.size = s.hidx
  size' : st'.size = s'.hidx
  live  : ∀ n nd, s.node? n = some nd → st'.getD (σ n) [] = st.getD n []
  dead  : ∀ n, s.node? n = none → st.getD n [] = []
  dead' : ∀ m, s'.node? m = none → st'.getD m [] = []

theorem node?_lt {s : SSys α} {n : Nat} {nd : SNode α} (h : s.node? n = some nd) : n < s.hidx := by
  unfold SSys.node? at h
  unfold SSys.hidx
  by_contra hc
  rw [Array.getD_eq_getD_getElem?, Array.getElem?_eq_none (Nat.le_of_not_lt hc)] at h
  simp at h

theorem SRel.sget {σ : Nat → Nat} {s s' : SSys α} {st st' : St} (h : SRel σ s s' st st')
    {n : Nat} {nd : SNode α} (hn : s.node? n = some nd) : sget st' (σ n) = sget st n := by
  unfold SysLoss.sget; rw [h.live n nd hn]

variable {σ : Nat → Nat} {s s' : SSys α} {v v' i i' : Vec α} {st st' : St}

theorem map_vget (h : Iso σ s s') (hv : VRel σ s s' v v') {n : Nat} {nd : SNode α}
    (hn : s.node? n = some nd) : (nd.parents.map σ).map (vget v') = nd.parents.map (vget v) := by
  rw [List.map_map]
  apply List.map_congr_left
  intro p hp
  obtain ⟨pd, hpd⟩ := h.parentsLive n nd hn p hp
  exact hv.live p pd hpd

theorem map_sget (h : Iso σ s s') (hs : SRel σ s s' st st') {n : Nat} {nd : SNode α}
    (hn : s.node? n = some nd) : (nd.parents.map σ).map (sget st') = nd.parents.map (sget st) := by
  rw [List.map_map]
  apply List.map_congr_left
  intro p hp
  obtain ⟨pd, hpd⟩ := h.parentsLive n nd hn p hp
  exact hs.sget hpd

theorem priInpAux_lt : ∀ (os : List Bool) (vs : List α) (b k : Nat),
    priInpAux os vs b = some k → k < b + vs.length := by
  intro os
  induction os with
  | nil => intro vs b k h; simp [priInpAux] at h
  | cons o os ih =>
    intro vs b k h
    cases vs with
    | nil => simp [priInpAux] at h
    | cons x xs =>
      simp only [priInpAux] at h
      split_ifs at h with hc
      · simp only [Option.some.injEq] at h; subst h; simp
      · have := ih xs (b+1) k h
        simp only [List.length_cons]; omega

theorem priInp_lt (c : Comp α) (os : List Bool) (vs : List α) (k : Nat)
    (h : c.priInp os vs = some k) (hl : 1 < vs.length) : k < vs.length := by
  unfold Comp.priInp at h
  cases hk : c.kind <;> simp only [hk] at h
  case pmux => simpa using priInpAux_lt os vs 0 k h
  all_goals (simp only [Option.some.injEq] at h; omega)

/-- the share of child `c` in the output current of `node` is renumbering invariant -/
theorem childShare_comm (h : Iso σ s s') (hv : VRel σ s s' v v') (hi : VRel σ s s' i i')
    (hs : SRel σ s s' st st') {node c : Nat} {nd cd : SNode α}
    (hn : s.node? node = some nd) (hc : s.node? c = some cd) :
    s'.childShare (σ node) i' v' st' (σ c) = s.childShare node i v st c := by
  obtain ⟨cd', hc', hr⟩ := h.node c cd hc
  unfold SSys.childShare
  simp only [hc, hc', hr.parents, hr.comp, map_vget h hv hc, map_sget h hs hc, List.length_map,
    hi.live c cd hc]
  cases hp : cd.comp.priInp (cd.parents.map (sget st)) (cd.parents.map (vget v)) with
  | none => rfl
  | some k =>
    simp only
    by_cases hl : cd.parents.length > 1
    · simp only [hl, if_true]
      have hk : k < cd.parents.length := by
        simpa using priInp_lt _ _ _ k hp (by simpa using hl)
      have e1 : (cd.parents.map σ).getD k 0 = σ (cd.parents[k]) := by
        simp [List.getD_eq_getElem?_getD, hk]
      have e2 : cd.parents.getD k 0 = cd.parents[k] := by
        simp [List.getD_eq_getElem?_getD, hk]
      rw [e1, e2]
      obtain ⟨pd, hpd⟩ := h.parentsLive c cd hc _ (List.getElem_mem hk)
      by_cases he : cd.parents[k] = node
      · simp [he]
      · have : σ cd.parents[k] ≠ σ node := fun e => he (h.inj _ _ _ _ hpd hn e)
        simp [he, this]
    · simp only [hl, if_false]

theorem childCurr_comm (h : Iso σ s s') (hv : VRel σ s s' v v') (hi : VRel σ s s' i i')
    (hs : SRel σ s s' st st') {n : Nat} {nd : SNode α} (hn : s.node? n = some nd) :
    s'.childCurr (σ n) i' v' st' = s.childCurr n i v st := by
  obtain ⟨nd', hn', hr⟩ := h.node n nd hn
  unfold SSys.childCurr
  simp only [hn, hn']
  rw [childCurr_sibling_order _ _ _ hr.childs, List.map_map]
  congr 1
  apply List.map_congr_left
  intro c hc
  obtain ⟨cd, hcd⟩ := h.childsLive n nd hn c hc
  exact childShare_comm h hv hi hs hn hcd

theorem lawArgs_comm (h : Iso σ s s') (hv : VRel σ s s' v v') (hi : VRel σ s s' i i')
    (hs : SRel σ s s' st st') {n : Nat} {nd nd' : SNode α} (hn : s.node? n = some nd)
    (hr : NodeRel σ nd nd') :
    s'.lawArgs nd' (σ n) v' i' st' = s.lawArgs nd n v i st := by
  unfold SSys.lawArgs
  have e2 : nd'.childs.isEmpty = nd.childs.isEmpty := by
    have := hr.childs.length_eq
    simp only [List.length_map] at this
    cases h1 : nd'.childs <;> cases h2 : nd.childs <;> simp_all
  simp only [e2, hr.parents, map_vget h hv hn, map_sget h hs hn, hv.live n nd hn,
    hs.live n nd hn, childCurr_comm h hv hi hs hn, List.isEmpty_map]

/-- **`fwdAt` commutes with the renumbering** (the whole `Except` value: same voltage, same flag, same error) -/
theorem fwdAt_comm (h : Iso σ s s') (hv : VRel σ s s' v v') (hi : VRel σ s s' i i')
    (hs : SRel σ s s' st st') (ph : String) {n : Nat} {nd : SNode α} (hn : s.node? n = some nd) :
    s'.fwdAt ph v' i' st' (σ n) = s.fwdAt ph v i st n := by
  obtain ⟨nd', hn', hr⟩ := h.node n nd hn
  unfold SSys.fwdAt
  simp only [hn, hn', lawArgs_comm h hv hi hs hn hr, hr.comp, hr.pconf]

/-- **`backAt` commutes with the renumbering** -/
theorem backAt_comm (h : Iso σ s s') (hv : VRel σ s s' v v') (hi : VRel σ s s' i i')
    (hs : SRel σ s s' st st') (ph : String) {n : Nat} {nd : SNode α} (hn : s.node? n = some nd) :
    s'.backAt ph v' i' st' (σ n) = s.backAt ph v i st n := by
  obtain ⟨nd', hn', hr⟩ := h.node n nd hn
  unfold SSys.backAt
  simp only [hn, hn', lawArgs_comm h hv hi hs hn hr, hr.comp, hr.pconf]

/-! ### errors raised by a law -/

/-- `e` is an exception raised by the voltage law of some component -/
def LawErr (α : Type) [Field α] [LinearOrder α] [IsStrictOrderedRing α] (e : Err) : Prop :=
  ∃ (c : Comp α) (vi : List α) (io : α) (ph : PhaseCtx α) (off : List Bool),
    c.solvOutpVolt vi io ph off = .error e

theorem lawErr_of_fwdAt {s : SSys α} {ph : String} {v i : Vec α} {st : St} {n : Nat} {e : Err}
    (h : s.fwdAt ph v i st n = .error e) : LawErr α e := by
  unfold SSys.fwdAt at h
  cases hn : s.node? n with
  | none => simp [hn] at h
  | some nd =>
    simp only [hn] at h
    exact ⟨nd.comp, _, _, _, _, h⟩

theorem LawErr.not_runtime {e : Err} (h : LawErr α e) (m : String) : e ≠ .runtime m := by
  obtain ⟨c, vi, io, ph, off, h⟩ := h
  intro he
  subst he
  unfold Comp.solvOutpVolt at h
  cases hk : c.kind <;> simp only [hk] at h <;> (repeat' split at h) <;> simp at h

/-! ### the folds -/

theorem fwd_fold_ok (s : SSys α) (ph : String) (v i : Vec α) (st : St) :
    ∀ (l : List Nat) (acc : Vec α × St), (∀ n ∈ l, ∃ xb, s.fwdAt ph v i st n = .ok xb) →
      ∃ res, l.foldlM (fwdStep s ph v i st) acc = .ok res := by
  intro l
  induction l with
  | nil => intro acc _; exact ⟨acc, rfl⟩
  | cons m l ih =>
    intro acc hall
    obtain ⟨xb, hxb⟩ := hall m (by simp)
    obtain ⟨res, hres⟩ := ih (acc.1.setIfInBounds m xb.1, acc.2.setIfInBounds m [xb.2])
      (fun n hn => hall n (by simp [hn]))
    refine ⟨res, ?_⟩
    simp only [List.foldlM_cons, bind, Except.bind]
    have : fwdStep s ph v i st acc m = .ok (acc.1.setIfInBounds m xb.1, acc.2.setIfInBounds m [xb.2]) := by
      unfold fwdStep; rw [hxb]; rfl
    rw [this]; exact hres

theorem fwd_fold_err (s : SSys α) (ph : String) (v i : Vec α) (st : St) :
    ∀ (l : List Nat) (acc : Vec α × St) (e : Err), l.foldlM (fwdStep s ph v i st) acc = .error e →
      ∃ n ∈ l, s.fwdAt ph v i st n = .error e := by
  intro l
  induction l with
  | nil => intro acc e h; simp [pure, Except.pure] at h
  | cons m l ih =>
    intro acc e h
    simp only [List.foldlM_cons, bind, Except.bind] at h
    cases hm : s.fwdAt ph v i st m with
    | error e0 =>
      have : fwdStep s ph v i st acc m = .error e0 := by unfold fwdStep; rw [hm]; rfl
      rw [this] at h
      simp only [Except.error.injEq] at h
      subst h
      exact ⟨m, by simp, hm⟩
    | ok xb =>
      have : fwdStep s ph v i st acc m = .ok (acc.1.setIfInBounds m xb.1, acc.2.setIfInBounds m [xb.2]) := by
        unfold fwdStep; rw [hm]; rfl
      rw [this] at h
      obtain ⟨n, hn, hne⟩ := ih _ e h
      exact ⟨n, by simp [hn], hne⟩

/-- processed in the same order, the same exception escapes -/
theorem fwd_fold_err_map (s s' : SSys α) (σ : Nat → Nat) (ph : String) (v v' i i' : Vec α) (st st' : St) :
    ∀ (l : List Nat) (acc acc' : Vec α × St) (e : Err),
      (∀ n ∈ l, s'.fwdAt ph v' i' st' (σ n) = s.fwdAt ph v i st n) →
      l.foldlM (fwdStep s ph v i st) acc = .error e →
      (l.map σ).foldlM (fwdStep s' ph v' i' st') acc' = .error e := by
  intro l
  induction l with
  | nil => intro acc acc' e _ h; simp [pure, Except.pure] at h
  | cons m l ih =>
    intro acc acc' e hall h
    simp only [List.map_cons, List.foldlM_cons, bind, Except.bind] at h ⊢
    have hm' := hall m (by simp)
    cases hm : s.fwdAt ph v i st m with
    | error e0 =>
      rw [hm] at hm'
      have e1 : fwdStep s ph v i st acc m = .error e0 := by unfold fwdStep; rw [hm]; rfl
      have e2 : fwdStep s' ph v' i' st' acc' (σ m) = .error e0 := by unfold fwdStep; rw [hm']; rfl
      rw [e1] at h
      rw [e2]
      exact h
    | ok xb =>
      rw [hm] at hm'
      have e1 : fwdStep s ph v i st acc m = .ok (acc.1.setIfInBounds m xb.1, acc.2.setIfInBounds m [xb.2]) := by
        unfold fwdStep; rw [hm]; rfl
      have e2 : fwdStep s' ph v' i' st' acc' (σ m) =
          .ok (acc'.1.setIfInBounds (σ m) xb.1, acc'.2.setIfInBounds (σ m) [xb.2]) := by
        unfold fwdStep; rw [hm']; rfl
      rw [e1] at h
      rw [e2]
      exact ih _ _ e (fun n hn => hall n (by simp [hn])) h

/-- **`_fwd_prop` commutes with the renumbering**: related inputs give related outputs; an exception on one
    side is matched by an exception on the other (both raised by a component law) -/
theorem fwdProp_rel (h : Iso σ s s') (hv : VRel σ s s' v v') (hi : VRel σ s s' i i')
    (hs : SRel σ s s' st st') (ph : String) :
    (∀ v1 st1, s.fwdProp ph v i st = .ok (v1, st1) →
      ∃ v1' st1', s'.fwdProp ph v' i' st' = .ok (v1', st1') ∧ VRel σ s s' v1 v1' ∧ SRel σ s s' st1 st1') ∧
    (∀ e, s.fwdProp ph v i st = .error e →
      ∃ e', s'.fwdProp ph v' i' st' = .error e' ∧ LawErr α e ∧ LawErr α e' ∧
        (s'.topo = s.topo.map σ → e' = e)) := by
  constructor
  · intro v1 st1 h1
    obtain ⟨a1, a2, a3, a4⟩ := fwdProp_pointwise s ph v i st v1 st1 h1
    have hall : ∀ m ∈ s'.topo, ∃ xb, s'.fwdAt ph v' i' st' m = .ok xb := by
      intro m hm
      obtain ⟨nd', hnd'⟩ := (h.topo' m).mp hm
      obtain ⟨n, nd, hn, rfl⟩ := h.surj m nd' hnd'
      obtain ⟨x, b, e1, _, _⟩ := a3 n ((h.topo n).mpr ⟨nd, hn⟩) (node?_lt hn)
      exact ⟨(x, b), by rw [fwdAt_comm h hv hi hs ph hn, e1]⟩
    obtain ⟨res, hres⟩ := fwd_fold_ok s' ph v' i' st' s'.topo
      (Array.replicate s'.hidx (0 : α), Array.replicate s'.hidx ([] : List Bool)) hall
    have h2 : s'.fwdProp ph v' i' st' = .ok (res.1, res.2) := by rw [fwdProp_eq_foldlM]; exact hres
    obtain ⟨b1, b2, b3, b4⟩ := fwdProp_pointwise s' ph v' i' st' res.1 res.2 h2
    have hlive : ∀ n nd, s.node? n = some nd → vget res.1 (σ n) = vget v1 n ∧
        res.2.getD (σ n) [] = st1.getD n [] := by
      intro n nd hn
      obtain ⟨nd', hn', _⟩ := h.node n nd hn
      obtain ⟨x, b, e1, e2, e3⟩ := a3 n ((h.topo n).mpr ⟨nd, hn⟩) (node?_lt hn)
      obtain ⟨x', b', e1', e2', e3'⟩ := b3 (σ n) ((h.topo' _).mpr ⟨nd', hn'⟩) (node?_lt hn')
      rw [fwdAt_comm h hv hi hs ph hn, e1] at e1'
      simp only [Except.ok.injEq, Prod.mk.injEq] at e1'
      exact ⟨by rw [e2, e2', e1'.1], by rw [e3, e3', e1'.2]⟩
    have hdead : ∀ n, s.node? n = none → n ∉ s.topo := by
      intro n hn hm; obtain ⟨nd, hnd⟩ := (h.topo n).mp hm; rw [hn] at hnd; cases hnd
    have hdead' : ∀ n, s'.node? n = none → n ∉ s'.topo := by
      intro n hn hm; obtain ⟨nd, hnd⟩ := (h.topo' n).mp hm; rw [hn] at hnd; cases hnd
    exact ⟨res.1, res.2, h2,
      ⟨a1, b1, fun n nd hn => (hlive n nd hn).1, fun n hn => (a4 n (hdead n hn)).1,
        fun n hn => (b4 n (hdead' n hn)).1⟩,
      ⟨a2, b2, fun n nd hn => (hlive n nd hn).2, fun n hn => (a4 n (hdead n hn)).2,
        fun n hn => (b4 n (hdead' n hn)).2⟩⟩
  · intro e h1
    rw [fwdProp_eq_foldlM] at h1
    obtain ⟨n, hn, hne⟩ := fwd_fold_err s ph v i st _ _ e h1
    obtain ⟨nd, hnd⟩ := (h.topo n).mp hn
    obtain ⟨nd', hn', _⟩ := h.node n nd hnd
    cases h2 : s'.fwdProp ph v' i' st' with
    | error e' =>
      rw [fwdProp_eq_foldlM] at h2
      refine ⟨e', rfl, lawErr_of_fwdAt hne, ?_, ?_⟩
      · obtain ⟨m, _, hme⟩ := fwd_fold_err s' ph v' i' st' _ _ e' h2
        exact lawErr_of_fwdAt hme
      · intro hsame
        have h3 := fwd_fold_err_map s s' σ ph v v' i i' st st' s.topo _
          (Array.replicate s'.hidx (0 : α), Array.replicate s'.hidx ([] : List Bool)) e
          (fun k hk => by
            obtain ⟨kd, hkd⟩ := (h.topo k).mp hk
            exact fwdAt_comm h hv hi hs ph hkd) h1
        rw [hsame, h3] at h2
        exact (Except.error.inj h2).symm
    | ok res =>
      obtain ⟨_, _, b3, _⟩ := fwdProp_pointwise s' ph v' i' st' res.1 res.2 h2
      obtain ⟨x', b', e1', _, _⟩ := b3 (σ n) ((h.topo' _).mpr ⟨nd', hn'⟩) (node?_lt hn')
      rw [fwdAt_comm h hv hi hs ph hnd, hne] at e1'
      cases e1'

/-- **`_back_prop` commutes with the renumbering** -/
theorem backProp_rel (h : Iso σ s s') (hv : VRel σ s s' v v') (hi : VRel σ s s' i i')
    (hs : SRel σ s s' st st') (ph : String) :
    VRel σ s s' (s.backProp ph v i st) (s'.backProp ph v' i' st') := by
  obtain ⟨a1, a2, a3⟩ := backProp_pointwise s ph v i st
  obtain ⟨b1, b2, b3⟩ := backProp_pointwise s' ph v' i' st'
  refine ⟨a1, b1, ?_, ?_, ?_⟩
  · intro n nd hn
    obtain ⟨nd', hn', _⟩ := h.node n nd hn
    rw [a2 n ((h.topo n).mpr ⟨nd, hn⟩) (node?_lt hn), b2 (σ n) ((h.topo' _).mpr ⟨nd', hn'⟩) (node?_lt hn'),
      backAt_comm h hv hi hs ph hn]
  · intro n hn
    apply a3
    intro hm; obtain ⟨nd, hnd⟩ := (h.topo n).mp hm; rw [hn] at hnd; cases hnd
  · intro n hn
    apply b3
    intro hm; obtain ⟨nd, hnd⟩ := (h.topo' n).mp hm; rw [hn] at hnd; cases hnd

/-! ### the exit test -/

theorem allClose_iff (atol rtol : α) : ∀ (as bs : List α), as.length = bs.length →
    (allClose atol rtol as bs = true ↔
      ∀ k, k < as.length → isClose atol rtol (as.getD k 0) (bs.getD k 0) = true) := by
  intro as
  induction as with
  | nil => intro bs _; simp [allClose]
  | cons a as ih =>
    intro bs hl
    cases bs with
    | nil => simp at hl
    | cons b bs =>
      have hl' : as.length = bs.length := by simpa using hl
      have ih' := ih bs hl'
      unfold allClose at ih' ⊢
      simp only [List.zipWith_cons_cons, List.all_cons, Bool.and_eq_true, id, ih', List.length_cons]
      constructor
      · rintro ⟨h0, hr⟩ k hk
        cases k with
        | zero => simpa using h0
        | succ k => simpa using hr k (by omega)
      · intro hall
        refine ⟨by simpa using hall 0 (by omega), fun k hk => ?_⟩
        simpa using hall (k+1) (by omega)

theorem vget_toList (v : Vec α) (k : Nat) : v.toList.getD k 0 = vget v k := by
  unfold vget
  simp [Array.getD_eq_getD_getElem?, List.getD_eq_getElem?_getD]

theorem allCloseV_iff (atol rtol : α) (v w : Vec α) (N : Nat) (hv : v.size = N) (hw : w.size = N) :
    allClose atol rtol v.toList w.toList = true ↔
      ∀ k, k < N → isClose atol rtol (vget v k) (vget w k) = true := by
  rw [allClose_iff atol rtol v.toList w.toList (by simp [hv, hw])]
  simp only [vget_toList, Array.length_toList, hv]

theorem isClose_zero {atol : α} (rtol : α) (h : 0 ≤ atol) : isClose atol rtol 0 0 = true := by
  unfold isClose; simp [h]

theorem allClose_rel (h : Iso σ s s') {atol : α} (rtol : α) (hatol : 0 ≤ atol) {w w' : Vec α}
    (hv : VRel σ s s' v v') (hw : VRel σ s s' w w') :
    allClose atol rtol v'.toList w'.toList = allClose atol rtol v.toList w.toList := by
  rw [Bool.eq_iff_iff, allCloseV_iff atol rtol v w s.hidx hv.size hw.size,
    allCloseV_iff atol rtol v' w' s'.hidx hv.size' hw.size']
  constructor
  · intro hall k _
    cases hk : s.node? k with
    | none => rw [hv.dead k hk, hw.dead k hk]; exact isClose_zero rtol hatol
    | some nd =>
      obtain ⟨nd', hn', _⟩ := h.node k nd hk
      have := hall (σ k) (node?_lt hn')
      rwa [hv.live k nd hk, hw.live k nd hk] at this
  · intro hall m _
    cases hm : s'.node? m with
    | none => rw [hv.dead' m hm, hw.dead' m hm]; exact isClose_zero rtol hatol
    | some nd' =>
      obtain ⟨n, nd, hn, rfl⟩ := h.surj m nd' hm
      rw [hv.live n nd hn, hw.live n nd hn]
      exact hall n (node?_lt hn)

/-- **the exit test of `_solve` agrees** (dead cells compare 0 with 0: needs `0 ≤ atol`) -/
theorem converged_rel (h : Iso σ s s') (cfg : Cfg α) (hatol : 0 ≤ cfg.atol) {w w' j j' : Vec α}
    (hv : VRel σ s s' v v') (hw : VRel σ s s' w w') (hi : VRel σ s s' i i') (hj : VRel σ s s' j j') :
    converged cfg v' w' i' j' = converged cfg v w i j := by
  unfold converged
  rw [allClose_rel h cfg.vtol hatol hv hw, allClose_rel h cfg.itol hatol hi hj]

/-! ### `_sys_init` -/

theorem getD_tab {β : Type} (f : Nat → β) (d : β) (N k : Nat) :
    (((List.range N).map f).toArray).getD k d = if k < N then f k else d := by
  simp only [Array.getD_eq_getD_getElem?, List.getElem?_toArray, List.getElem?_map]
  by_cases hk : k < N
  · simp [hk]
  · simp [hk]

theorem tab_vrel (h : Iso σ s s') (f f' : Nat → α)
    (hlive : ∀ n nd, s.node? n = some nd → f' (σ n) = f n)
    (hdead : ∀ n, s.node? n = none → f n = 0) (hdead' : ∀ m, s'.node? m = none → f' m = 0) :
    VRel σ s s' ((List.range s.hidx).map f).toArray ((List.range s'.hidx).map f').toArray := by
  refine ⟨by simp, by simp, ?_, ?_, ?_⟩
  · intro n nd hn
    obtain ⟨nd', hn', _⟩ := h.node n nd hn
    unfold vget
    rw [getD_tab, getD_tab, if_pos (node?_lt hn), if_pos (node?_lt hn'), hlive n nd hn]
  · intro n hn; unfold vget; rw [getD_tab]; split_ifs
    · exact hdead n hn
    · rfl
  · intro n hn; unfold vget; rw [getD_tab]; split_ifs
    · exact hdead' n hn
    · rfl

/-- **`_sys_init` commutes with the renumbering** -/
theorem init_rel (h : Iso σ s s') (ph : String) :
    VRel σ s s' (s.init ph).1 (s'.init ph).1 ∧ VRel σ s s' (s.init ph).2.1 (s'.init ph).2.1 ∧
    SRel σ s s' (s.init ph).2.2 (s'.init ph).2.2 := by
  refine ⟨?_, ?_, ?_⟩
  · apply tab_vrel h
    · intro n nd hn
      obtain ⟨nd', hn', hr⟩ := h.node n nd hn
      simp only [hn, hn', hr.comp, hr.pconf]
    · intro n hn; simp only [hn]
    · intro n hn; simp only [hn]
  · apply tab_vrel h
    · intro n nd hn
      obtain ⟨nd', hn', hr⟩ := h.node n nd hn
      simp only [hn, hn', hr.comp, hr.pconf]
    · intro n hn; simp only [hn]
    · intro n hn; simp only [hn]
  · have hoff : ∀ n nd, s.node? n = some nd →
        (match s'.node? (σ n) with
          | some nd => nd.comp.initOff (nd.pconf.ctx ph) | none => false) =
        (match s.node? n with
          | some nd => nd.comp.initOff (nd.pconf.ctx ph) | none => false) := by
      intro n nd hn
      obtain ⟨nd', hn', hr⟩ := h.node n nd hn
      simp only [hn, hn', hr.comp, hr.pconf]
    refine ⟨by simp [SSys.init], by simp [SSys.init], ?_, ?_, ?_⟩
    · intro n nd hn
      obtain ⟨nd', hn', hr⟩ := h.node n nd hn
      simp only [SSys.init]
      rw [getD_tab, getD_tab, if_pos (node?_lt hn), if_pos (node?_lt hn')]
      simp only [hn, hn', hr.parents, List.isEmpty_map, List.map_map, hr.comp, hr.pconf]
      split_ifs
      · rfl
      · apply List.map_congr_left
        intro p hp
        obtain ⟨pd, hpd⟩ := h.parentsLive n nd hn p hp
        exact hoff p pd hpd
    · intro n hn; simp only [SSys.init]; rw [getD_tab]; split_ifs <;> simp [hn]
    · intro n hn; simp only [SSys.init]; rw [getD_tab]; split_ifs <;> simp [hn]

/-! ### the iteration -/

/-- solver outputs related by `σ`: same iteration count, related vectors and flags -/
structure OutRel (σ : Nat → Nat) (s s' : SSys α) (r r' : SolveOut α) : Prop where
  iters : r'.iters = r.iters
  v  : VRel σ s s' r.v r'.v
  i  : VRel σ s s' r.i r'.i
  st : SRel σ s s' r.st r'.st

/-- two solver outcomes related by `σ`: both succeed with related outputs, or both raise a law's exception -/
def ResRel (σ : Nat → Nat) (s s' : SSys α) (x x' : Except Err (SolveOut α)) : Prop :=
  (∀ r, x = .ok r → ∃ r', x' = .ok r' ∧ OutRel σ s s' r r') ∧
  (∀ e, x = .error e → ∃ e', x' = .error e' ∧ LawErr α e ∧ LawErr α e' ∧ (s'.topo = s.topo.map σ → e' = e))

theorem loop_succ (s : SSys α) (cfg : Cfg α) (ph : String) (fuel : Nat) (v i : Vec α) (st : St) (it : Nat) :
    s.loop cfg ph (fuel + 1) v i st it =
      match s.fwdProp ph v i st with
      | .error e => .error e
      | .ok (v1, st1) =>
        if converged cfg v v1 i (s.backProp ph v1 i st) then .ok ⟨v, i, it + 1, st⟩
        else s.loop cfg ph fuel v1 (s.backProp ph v1 i st) st1 (it + 1) := by
  rw [SSys.loop]
  cases s.fwdProp ph v i st with
  | error e => rfl
  | ok p => rfl

/-- **the `while` loop of `_solve` commutes with the renumbering** (induction on the remaining sweeps) -/
theorem loop_rel (h : Iso σ s s') (cfg : Cfg α) (hatol : 0 ≤ cfg.atol) (ph : String) :
    ∀ (fuel : Nat) (v v' i i' : Vec α) (st st' : St) (it : Nat),
      VRel σ s s' v v' → VRel σ s s' i i' → SRel σ s s' st st' →
      ResRel σ s s' (s.loop cfg ph fuel v i st it) (s'.loop cfg ph fuel v' i' st' it) := by
  intro fuel
  induction fuel with
  | zero =>
    intro v v' i i' st st' it hv hi hs
    simp only [SSys.loop]
    refine ⟨fun r hr => ?_, fun e he => by cases he⟩
    simp only [Except.ok.injEq] at hr
    subst hr
    exact ⟨_, rfl, ⟨rfl, hv, hi, hs⟩⟩
  | succ fuel ih =>
    intro v v' i i' st st' it hv hi hs
    rw [loop_succ, loop_succ]
    obtain ⟨hok, herr⟩ := fwdProp_rel h hv hi hs ph
    cases hf : s.fwdProp ph v i st with
    | error e =>
      obtain ⟨e', he', l1, l2, l3⟩ := herr e hf
      rw [he']
      refine ⟨fun r hr => (by cases hr), fun e0 he0 => ?_⟩
      simp only [Except.error.injEq] at he0
      subst he0
      exact ⟨e', rfl, l1, l2, l3⟩
    | ok p =>
      obtain ⟨v1, st1⟩ := p
      obtain ⟨v1', st1', hf', hv1, hs1⟩ := hok v1 st1 hf
      rw [hf']
      simp only
      have hb := backProp_rel h hv1 hi hs ph
      rw [converged_rel h cfg hatol hv hv1 hi hb]
      by_cases hc : converged cfg v v1 i (s.backProp ph v1 i st) = true
      · simp only [hc, if_true]
        refine ⟨fun r hr => ?_, fun e he => by cases he⟩
        simp only [Except.ok.injEq] at hr
        subst hr
        exact ⟨_, rfl, ⟨rfl, hv, hi, hs⟩⟩
      · simp only [hc]
        exact ih v1 v1' _ _ st1 st1' (it + 1) hv1 hb hs1

/-- `_solve` commutes with the renumbering -/
theorem solveRaw_rel (h : Iso σ s s') (cfg : Cfg α) (hatol : 0 ≤ cfg.atol) (ph : String) :
    ResRel σ s s' (s.solveRaw cfg ph) (s'.solveRaw cfg ph) := by
  obtain ⟨h1, h2, h3⟩ := init_rel h ph
  exact loop_rel h cfg hatol ph (cfg.maxiter + 1) _ _ _ _ _ _ 0 h1 h2 h3

theorem solvePhase_eq (s : SSys α) (cfg : Cfg α) (ph : String) :
    s.solvePhase cfg ph =
      match s.solveRaw cfg ph with
      | .error e => .error e
      | .ok r => if r.iters > cfg.maxiter then .error (.runtime "Steady-state not achieved") else .ok r := by
  unfold SSys.solvePhase
  cases s.solveRaw cfg ph with
  | error e => rfl
  | ok r => rfl

/-- **Main theorem (solver level).**  If `s'` is `s` with renumbered nodes (`Iso σ s s'`: other node indices,
    other `hidx`, freed indices, other topological order, other sibling order) and `solve()` succeeds for a
    phase on `s`, it succeeds on `s'` after the same number of iterations, and every live cell of the
    voltage, current and flag vectors of `s'` at `σ n` holds what `s` holds at `n`. -/
theorem solvePhase_renumber (h : Iso σ s s') (cfg : Cfg α) (hatol : 0 ≤ cfg.atol) (ph : String)
    (r : SolveOut α) (hr : s.solvePhase cfg ph = .ok r) :
    ∃ r', s'.solvePhase cfg ph = .ok r' ∧ r'.iters = r.iters ∧
      VRel σ s s' r.v r'.v ∧ VRel σ s s' r.i r'.i ∧ SRel σ s s' r.st r'.st := by
  obtain ⟨hok, herr⟩ := solveRaw_rel h cfg hatol ph
  rw [solvePhase_eq] at hr ⊢
  cases hs : s.solveRaw cfg ph with
  | error e => rw [hs] at hr; cases hr
  | ok r0 =>
    rw [hs] at hr
    simp only at hr
    obtain ⟨r', hr', hrel⟩ := hok r0 hs
    rw [hr']
    simp only [hrel.iters]
    split_ifs at hr ⊢ with hc
    simp only [Except.ok.injEq] at hr
    subst hr
    exact ⟨r', rfl, hrel.iters, hrel.v, hrel.i, hrel.st⟩

/-- **… and the failures.**  If `solve()` raises on `s` it raises on `s'`: the "Steady-state not achieved"
    `RuntimeError` exactly when `s` raises it (same iteration count), otherwise an exception of a component law on
    both sides (which component's exception escapes first depends on the processing order and may differ);
    when `s'` processes the nodes in the same order (`s'.topo = s.topo.map σ`) it is the same exception. -/
theorem solvePhase_renumber_error (h : Iso σ s s') (cfg : Cfg α) (hatol : 0 ≤ cfg.atol) (ph : String)
    (e : Err) (he : s.solvePhase cfg ph = .error e) :
    ∃ e', s'.solvePhase cfg ph = .error e' ∧
      ((e = .runtime "Steady-state not achieved" ∧ e' = .runtime "Steady-state not achieved") ∨
       (LawErr α e ∧ LawErr α e')) ∧
      (s'.topo = s.topo.map σ → e' = e) := by
  obtain ⟨hok, herr⟩ := solveRaw_rel h cfg hatol ph
  rw [solvePhase_eq] at he ⊢
  cases hs : s.solveRaw cfg ph with
  | error e0 =>
    rw [hs] at he
    simp only [Except.error.injEq] at he
    subst he
    obtain ⟨e', he', l1, l2, l3⟩ := herr e0 hs
    rw [he']
    exact ⟨e', rfl, Or.inr ⟨l1, l2⟩, l3⟩
  | ok r0 =>
    rw [hs] at he
    simp only at he
    obtain ⟨r', hr', hrel⟩ := hok r0 hs
    rw [hr']
    simp only [hrel.iters]
    split_ifs at he ⊢ with hc
    simp only [Except.error.injEq] at he
    exact ⟨_, rfl, Or.inl ⟨he.symm, rfl⟩, fun _ => he⟩

/-- the `RuntimeError` is raised on the same side conditions -/
theorem solvePhase_runtime_iff (h : Iso σ s s') (cfg : Cfg α) (hatol : 0 ≤ cfg.atol) (ph : String) :
    s.solvePhase cfg ph = .error (.runtime "Steady-state not achieved") ↔
    s'.solvePhase cfg ph = .error (.runtime "Steady-state not achieved") := by
  constructor
  · intro he
    obtain ⟨e', he', hcase, _⟩ := solvePhase_renumber_error h cfg hatol ph _ he
    rcases hcase with ⟨_, rfl⟩ | ⟨l1, _⟩
    · exact he'
    · exact absurd rfl (l1.not_runtime _)
  · intro he'
    cases hx : s.solvePhase cfg ph with
    | ok r =>
      obtain ⟨r', hr', _⟩ := solvePhase_renumber h cfg hatol ph r hx
      rw [hr'] at he'; cases he'
    | error e =>
      obtain ⟨e', he2, hcase, _⟩ := solvePhase_renumber_error h cfg hatol ph e hx
      rw [he2] at he'
      simp only [Except.error.injEq] at he'
      subst he'
      rcases hcase with ⟨rfl, _⟩ | ⟨_, l2⟩
      · rfl
      · exact absurd rfl (l2.not_runtime _)

/-- success and failure agree in both directions -/
theorem solvePhase_isOk_iff (h : Iso σ s s') (cfg : Cfg α) (hatol : 0 ≤ cfg.atol) (ph : String) :
    (∃ r, s.solvePhase cfg ph = .ok r) ↔ (∃ r', s'.solvePhase cfg ph = .ok r') := by
  constructor
  · rintro ⟨r, hr⟩
    obtain ⟨r', hr', _⟩ := solvePhase_renumber h cfg hatol ph r hr
    exact ⟨r', hr'⟩
  · rintro ⟨r', hr'⟩
    cases hx : s.solvePhase cfg ph with
    | ok r => exact ⟨r, rfl⟩
    | error e =>
      obtain ⟨e', he2, _⟩ := solvePhase_renumber_error h cfg hatol ph e hx
      rw [he2] at hr'; cases hr'

/-! ## Part 2 — the table rows -/

/-- what the table assembly additionally relies on: unique component names, a valid topological order
    (no repetitions, the first parent of a node is listed before it), only sources are roots -/
structure TableWF (s : SSys α) : Prop where
  names : ∀ n m nd md, s.node? n = some nd → s.node? m = some md → nd.comp.name = md.comp.name → n = m
  nodup : s.topo.Nodup
  order : ∀ pre n post, s.topo = pre ++ n :: post →
            ∀ nd p rest, s.node? n = some nd → nd.parents = p :: rest → p ∈ pre
  roots : ∀ n nd, s.node? n = some nd → nd.parents = [] → nd.comp.kind = .source

theorem nameOf_comm (h : Iso σ s s') {p : Nat} {pd : SNode α} (hp : s.node? p = some pd) :
    s'.nameOf (σ p) = s.nameOf p := by
  obtain ⟨pd', hp', hr⟩ := h.node p pd hp
  unfold SSys.nameOf; simp only [hp, hp', hr.comp]

/-- a node is a root -/
def IsRoot (s : SSys α) (n : Nat) : Prop := ∃ nd, s.node? n = some nd ∧ nd.parents = []

theorem rootOf_comm (h : Iso σ s s') : ∀ (f p : Nat) (pd : SNode α), s.node? p = some pd →
    s'.rootOf f (σ p) = σ (s.rootOf f p) := by
  intro f
  induction f with
  | zero => intro p pd hp; rfl
  | succ f ih =>
    intro p pd hp
    obtain ⟨pd', hp', hr⟩ := h.node p pd hp
    simp only [SSys.rootOf, hp, hp', hr.parents]
    cases hpp : pd.parents with
    | nil => rfl
    | cons q rest =>
      obtain ⟨qd, hq⟩ := h.parentsLive p pd hp q (by rw [hpp]; simp)
      simpa using ih q qd hq

theorem rootOf_live (hpl : ∀ n nd, s.node? n = some nd → ∀ p ∈ nd.parents, ∃ pd, s.node? p = some pd) :
    ∀ (f p : Nat) (pd : SNode α), s.node? p = some pd → ∃ rd, s.node? (s.rootOf f p) = some rd := by
  intro f
  induction f with
  | zero => intro p pd hp; exact ⟨pd, hp⟩
  | succ f ih =>
    intro p pd hp
    simp only [SSys.rootOf, hp]
    cases hpp : pd.parents with
    | nil => exact ⟨pd, hp⟩
    | cons q rest =>
      obtain ⟨qd, hq⟩ := hpl p pd hp q (by rw [hpp]; simp)
      exact ih q qd hq

theorem rootOf_stable : ∀ (f k p : Nat), IsRoot s (s.rootOf f p) → s.rootOf (f + k) p = s.rootOf f p := by
  intro f
  induction f with
  | zero =>
    intro k p hr
    obtain ⟨nd, hn, hpar⟩ := hr
    simp only [SSys.rootOf] at hn ⊢
    cases k with
    | zero => rfl
    | succ k => simp only [SSys.rootOf, hn, hpar]
  | succ f ih =>
    intro k p hr
    have e : f + 1 + k = (f + k) + 1 := by omega
    rw [e]
    simp only [SSys.rootOf] at hr ⊢
    cases hp : s.node? p with
    | none => rfl
    | some pd =>
      simp only [hp] at hr ⊢
      cases hpp : pd.parents with
      | nil => rfl
      | cons q rest =>
        simp only [hpp] at hr ⊢
        exact ih k q hr

theorem rootOf_reaches (htopo : ∀ n, n ∈ s.topo ↔ ∃ nd, s.node? n = some nd) (hw : TableWF s) :
    ∀ (f : Nat) (pre : List Nat) (n : Nat) (post : List Nat), s.topo = pre ++ n :: post → pre.length ≤ f →
      IsRoot s (s.rootOf f n) := by
  intro f
  induction f with
  | zero =>
    intro pre n post ht hl
    have hpre : pre = [] := List.eq_nil_of_length_eq_zero (by omega)
    subst hpre
    obtain ⟨nd, hn⟩ := (htopo n).mp (by rw [ht]; simp)
    refine ⟨nd, hn, ?_⟩
    cases hpp : nd.parents with
    | nil => rfl
    | cons p rest => exact absurd (hw.order [] n post ht nd p rest hn hpp) (by simp)
  | succ f ih =>
    intro pre n post ht hl
    obtain ⟨nd, hn⟩ := (htopo n).mp (by rw [ht]; simp)
    simp only [SSys.rootOf, hn]
    cases hpp : nd.parents with
    | nil => exact ⟨nd, hn, hpp⟩
    | cons p rest =>
      have hp := hw.order pre n post ht nd p rest hn hpp
      obtain ⟨a, b, rfl⟩ := List.append_of_mem hp
      refine ih a p (b ++ n :: post) (by rw [ht]; simp) ?_
      simp only [List.length_append, List.length_cons] at hl
      omega

theorem topo_length_le (htopo : ∀ n, n ∈ s.topo ↔ ∃ nd, s.node? n = some nd) (hw : TableWF s) :
    s.topo.length ≤ s.hidx := by
  have hsub : s.topo ⊆ List.range s.hidx := by
    intro n hn
    obtain ⟨nd, hnd⟩ := (htopo n).mp hn
    exact List.mem_range.mpr (node?_lt hnd)
  simpa using (List.subperm_of_subset hw.nodup hsub).length_le

/-- following first parents for `hidx` steps always ends at a root -/
theorem rootOf_hidx_isRoot (htopo : ∀ n, n ∈ s.topo ↔ ∃ nd, s.node? n = some nd) (hw : TableWF s)
    {n : Nat} {nd : SNode α} (hn : s.node? n = some nd) : IsRoot s (s.rootOf s.hidx n) := by
  obtain ⟨a, b, ht⟩ := List.append_of_mem ((htopo n).mpr ⟨nd, hn⟩)
  refine rootOf_reaches htopo hw s.hidx a n b ht ?_
  have := topo_length_le htopo hw
  rw [ht] at this
  simp only [List.length_append, List.length_cons] at this
  omega

theorem isRoot_comm (h : Iso σ s s') {n : Nat} {nd : SNode α} (hn : s.node? n = some nd) :
    IsRoot s' (σ n) ↔ IsRoot s n := by
  obtain ⟨nd', hn', hr⟩ := h.node n nd hn
  constructor
  · rintro ⟨x, hx, hp⟩
    rw [hn'] at hx; cases hx
    rw [hr.parents] at hp
    exact ⟨nd, hn, by simpa using hp⟩
  · rintro ⟨x, hx, hp⟩
    rw [hn] at hx; cases hx
    exact ⟨nd', hn', by rw [hr.parents, hp]; rfl⟩

/-- the root above a node, as `_find_domain` computes it with the respective `hidx` as fuel, is renumbering invariant -/
theorem rootOf_hidx_comm (h : Iso σ s s') (hw : TableWF s) (hw' : TableWF s')
    {p : Nat} {pd : SNode α} (hp : s.node? p = some pd) :
    s'.rootOf s'.hidx (σ p) = σ (s.rootOf s.hidx p) := by
  obtain ⟨pd', hp', _⟩ := h.node p pd hp
  have r1 := rootOf_hidx_isRoot h.topo hw hp
  have r2 := rootOf_hidx_isRoot h.topo' hw' hp'
  rw [rootOf_comm h _ p pd hp]
  congr 1
  rcases Nat.le_total s.hidx s'.hidx with hle | hle
  · obtain ⟨k, hk⟩ := Nat.exists_eq_add_of_le hle
    rw [hk, rootOf_stable _ k p r1]
  · obtain ⟨k, hk⟩ := Nat.exists_eq_add_of_le hle
    rw [rootOf_comm h _ p pd hp] at r2
    obtain ⟨rd, hrd⟩ := rootOf_live h.parentsLive s'.hidx p pd hp
    rw [isRoot_comm h hrd] at r2
    rw [hk, rootOf_stable _ k p r2]

theorem firstNonZero_bound : ∀ (l : List α) (k : Nat), l ≠ [] →
    firstNonZero l k = 0 ∨ (k ≤ firstNonZero l k ∧ firstNonZero l k < k + l.length) := by
  intro l
  induction l with
  | nil => intro k h; exact absurd rfl h
  | cons x xs ih =>
    intro k _
    simp only [firstNonZero]
    split_ifs with hx
    · right; simp
    · cases xs with
      | nil => left; rfl
      | cons y ys =>
        simp only
        rcases ih (k+1) (by simp) with h0 | ⟨h1, h2⟩
        · left; exact h0
        · right; simp only [List.length_cons] at h2 ⊢; omega

theorem firstNonZero_lt (l : List α) (h : l ≠ []) : firstNonZero l 0 < l.length := by
  have hpos : 0 < l.length := List.length_pos_iff.mpr h
  rcases firstNonZero_bound l 0 h with h0 | ⟨_, h2⟩
  · rw [h0]; exact hpos
  · simpa using h2

/-- `_find_domain` commutes with the renumbering -/
theorem findDomain_comm (h : Iso σ s s') (hw : TableWF s) (hw' : TableWF s') (hv : VRel σ s s' v v')
    {n : Nat} {nd : SNode α} (hn : s.node? n = some nd) (d : String) :
    s'.findDomain (σ n) d v' = s.findDomain n d v := by
  obtain ⟨nd', hn', hr⟩ := h.node n nd hn
  unfold SSys.findDomain
  simp only [hn, hn', hr.comp, hr.parents, map_vget h hv hn]
  cases hk : nd.comp.kind <;> simp only []
  case pmux =>
    have hne : nd.parents ≠ [] := by
      intro he
      have := hw.roots n nd hn he
      rw [hk] at this; cases this
    have hlt := firstNonZero_lt (nd.parents.map (vget v)) (by simpa using hne)
    simp only [List.length_map] at hlt
    generalize firstNonZero (nd.parents.map (vget v)) 0 = idx at hlt
    have e1 : (nd.parents.map σ).getD idx 0 = σ (nd.parents[idx]) := by
      simp [List.getD_eq_getElem?_getD, hlt]
    have e2 : nd.parents.getD idx 0 = nd.parents[idx] := by
      simp [List.getD_eq_getElem?_getD, hlt]
    obtain ⟨pd, hpd⟩ := h.parentsLive n nd hn _ (List.getElem_mem hlt)
    rw [e1, e2, rootOf_hidx_comm h hw hw' hpd]
    obtain ⟨rd, hrd⟩ := rootOf_live h.parentsLive s.hidx _ pd hpd
    exact nameOf_comm h hrd

theorem mem_nodes_iff (s : SSys α) (x : SNode α) :
    x ∈ s.nodes.toList.filterMap id ↔ ∃ m, s.node? m = some x := by
  rw [List.mem_filterMap]
  constructor
  · rintro ⟨o, ho, hox⟩
    simp only [id] at hox
    subst hox
    obtain ⟨k, hk, hko⟩ := List.getElem_of_mem ho
    refine ⟨k, ?_⟩
    unfold SSys.node?
    simp only [Array.length_toList] at hk
    simp only [Array.getElem_toList] at hko
    simp [Array.getD_eq_getD_getElem?, hk, hko]
  · rintro ⟨m, hm⟩
    have hlt : m < s.nodes.size := node?_lt hm
    refine ⟨some x, ?_, rfl⟩
    unfold SSys.node? at hm
    simp only [Array.getD_eq_getD_getElem?, Array.getElem?_eq_getElem hlt, Option.getD_some] at hm
    rw [← hm]
    exact Array.getElem_mem_toList hlt

/-- with unique names the `railIn` lookup finds the node itself -/
theorem find?_name (hw : TableWF s) {p : Nat} {pd : SNode α} (hp : s.node? p = some pd) :
    (s.nodes.toList.filterMap id).find? (fun x => x.comp.name == pd.comp.name) = some pd := by
  cases hf : (s.nodes.toList.filterMap id).find? (fun x => x.comp.name == pd.comp.name) with
  | none =>
    have := List.find?_eq_none.mp hf pd ((mem_nodes_iff s pd).mpr ⟨p, hp⟩)
    simp at this
  | some x =>
    have h1 := List.find?_some hf
    have h2 := List.mem_of_find?_eq_some hf
    obtain ⟨m, hm⟩ := (mem_nodes_iff s x).mp h2
    have : m = p := hw.names m p x pd hm hp (by simpa using h1)
    subst this
    rw [hp] at hm; exact hm.symm


/-! the pieces of one table row -/

/-- the parent whose voltage / name the row reports -/
def selOf (nd : SNode α) (n : Nat) (v : Vec α) (st : St) : Option Nat :=
  let root := nd.parents.isEmpty
  let offs := if root then st.getD n [] else nd.parents.map (sget st)
  let vv := if root then [vget v n] else nd.parents.map (vget v)
  if root then none
  else match nd.comp.priInp offs vv with
    | some k => if nd.parents.length > 1 then some (nd.parents.getD k 0) else nd.parents.head?
    | none => nd.parents.head?

def muxSelOf (nd : SNode α) (n : Nat) (v : Vec α) (st : St) : Bool :=
  let root := nd.parents.isEmpty
  let offs := if root then st.getD n [] else nd.parents.map (sget st)
  let vv := if root then [vget v n] else nd.parents.map (vget v)
  !root && nd.parents.length > 1 && (nd.comp.priInp offs vv).isSome

def pnOf (s : SSys α) (nd : SNode α) (n : Nat) (v : Vec α) (st : St) : String :=
  if nd.parents.isEmpty then ""
  else if muxSelOf nd n v st then s.nameOf ((selOf nd n v st).getD 0)
  else s.parentName n

def viOf (nd : SNode α) (n : Nat) (v i : Vec α) (st : St) : α :=
  match selOf nd n v st with
  | none => vget v n + nd.comp.rs * vget i n
  | some p => vget v p

def ioOf (s : SSys α) (nd : SNode α) (n : Nat) (v i : Vec α) (st : St) : α :=
  if nd.parents.isEmpty then vget i n
  else if nd.childs.isEmpty then 0 else s.childCurr n i v st

def railInOf (s : SSys α) (pn : String) : String :=
  if pn != "" then
    (match (s.nodes.toList.filterMap id).find? (fun x => x.comp.name == pn) with
     | some pd => pd.rail | none => "")
  else ""

def mkRow (phases : List (String × α)) (nd : SNode α) (ph : String) (ta : α) (dom : String)
    (vi vo ii io : α) (pn railIn : String) : Row α :=
  let c := nd.comp
  let pc := nd.pconf.ctx ph
  let r := c.solvPwrLoss vi vo ii io ta pc
  let isSrc := c.kind == .source
  let w := c.solvGetWarns vi vo ii io ta pc
  { name := c.name, typ := c.kind.ctype.name, parent := pn, railIn := railIn, domain := dom,
    group := nd.group, railOut := nd.rail, phase := ph,
    vin := some vi, vout := some vo, iin := some ii, iout := some io,
    pwr := some r.pwr, loss := some r.loss, eff := some r.eff,
    tr := if isSrc then none else some r.tr, tp := if isSrc then none else some r.tp,
    ener := some (calcEnergy phases ph r.pwr), warn := joinWarn w }

/-- `compRow` in terms of its pieces -/
theorem compRow_eq (s : SSys α) (ph : String) (ta : α) (v i : Vec α) (st : St) {n : Nat} {nd : SNode α}
    (hn : s.node? n = some nd) (d : String) :
    s.compRow ph ta v i st n d =
      (mkRow s.phases nd ph ta (s.findDomain n d v) (viOf nd n v i st) (vget v n) (vget i n)
        (ioOf s nd n v i st) (pnOf s nd n v st) (railInOf s (pnOf s nd n v st)), s.findDomain n d v) := by
  unfold SSys.compRow
  rw [hn]
  rfl

theorem selOf_comm (h : Iso σ s s') (hv : VRel σ s s' v v') (hs : SRel σ s s' st st')
    {n : Nat} {nd nd' : SNode α} (hn : s.node? n = some nd) (hr : NodeRel σ nd nd') :
    selOf nd' (σ n) v' st' = (selOf nd n v st).map σ := by
  unfold selOf
  simp only [hr.parents, hr.comp, map_vget h hv hn, map_sget h hs hn, hv.live n nd hn, hs.live n nd hn,
    List.isEmpty_map, List.length_map]
  by_cases hroot : nd.parents.isEmpty = true
  · simp [hroot]
  · simp only [hroot, if_false, Bool.false_eq_true]
    cases hp : nd.comp.priInp (nd.parents.map (sget st)) (nd.parents.map (vget v)) with
    | none => simp [List.head?_map]
    | some k =>
      simp only
      by_cases hl : nd.parents.length > 1
      · have hk : k < nd.parents.length := by
          simpa using priInp_lt _ _ _ k hp (by simpa using hl)
        simp [hl, List.getD_eq_getElem?_getD, hk]
      · simp [hl, List.head?_map]

theorem selOf_live (h : Iso σ s s') {n : Nat} {nd : SNode α} (hn : s.node? n = some nd) {p : Nat}
    (hp : selOf nd n v st = some p) : ∃ pd, s.node? p = some pd := by
  unfold selOf at hp
  by_cases hroot : nd.parents.isEmpty = true
  · simp [hroot] at hp
  · simp only [hroot, if_false, Bool.false_eq_true] at hp
    have hmem : p ∈ nd.parents := by
      have hhead : ∀ q, nd.parents.head? = some q → q ∈ nd.parents := fun q hq => List.mem_of_mem_head? hq
      cases hpi : nd.comp.priInp (nd.parents.map (sget st)) (nd.parents.map (vget v)) with
      | none => rw [hpi] at hp; exact hhead p hp
      | some k =>
        rw [hpi] at hp
        simp only at hp
        by_cases hl : nd.parents.length > 1
        · have hk : k < nd.parents.length := by
            simpa using priInp_lt _ _ _ k hpi (by simpa using hl)
          simp only [hl, if_true, List.getD_eq_getElem?_getD, List.getElem?_eq_getElem hk,
            Option.getD_some, Option.some.injEq] at hp
          rw [← hp]; exact List.getElem_mem hk
        · simp only [hl, if_false] at hp; exact hhead p hp
    exact h.parentsLive n nd hn p hmem

theorem muxSelOf_comm (h : Iso σ s s') (hv : VRel σ s s' v v') (hs : SRel σ s s' st st')
    {n : Nat} {nd nd' : SNode α} (hn : s.node? n = some nd) (hr : NodeRel σ nd nd') :
    muxSelOf nd' (σ n) v' st' = muxSelOf nd n v st := by
  unfold muxSelOf
  simp only [hr.parents, hr.comp, map_vget h hv hn, map_sget h hs hn, hv.live n nd hn, hs.live n nd hn,
    List.isEmpty_map, List.length_map]

theorem muxSelOf_sel {nd : SNode α} {n : Nat} (hm : muxSelOf nd n v st = true) :
    ∃ p, selOf nd n v st = some p := by
  unfold muxSelOf at hm
  unfold selOf
  simp only [Bool.and_eq_true, Bool.not_eq_true', decide_eq_true_eq] at hm
  obtain ⟨⟨hroot, hl⟩, hsome⟩ := hm
  simp only [hroot, if_false, Bool.false_eq_true] at hsome ⊢
  obtain ⟨k, hk⟩ := Option.isSome_iff_exists.mp hsome
  rw [hk]
  exact ⟨nd.parents.getD k 0, by simp only [hl, if_true]⟩

theorem pnOf_comm (h : Iso σ s s') (hv : VRel σ s s' v v') (hs : SRel σ s s' st st')
    {n : Nat} {nd nd' : SNode α} (hn : s.node? n = some nd) (hn' : s'.node? (σ n) = some nd')
    (hr : NodeRel σ nd nd') :
    pnOf s' nd' (σ n) v' st' = pnOf s nd n v st := by
  unfold pnOf
  rw [muxSelOf_comm h hv hs hn hr, selOf_comm h hv hs hn hr]
  simp only [hr.parents, List.isEmpty_map]
  by_cases hroot : nd.parents.isEmpty = true
  · simp [hroot]
  · simp only [hroot, if_false, Bool.false_eq_true]
    by_cases hm : muxSelOf nd n v st = true
    · obtain ⟨p, hp⟩ := muxSelOf_sel hm
      obtain ⟨pd, hpd⟩ := selOf_live h hn hp
      simp only [hm, if_true, hp, Option.map_some, Option.getD_some]
      exact nameOf_comm h hpd
    · simp only [hm, if_false, Bool.false_eq_true]
      unfold SSys.parentName
      simp only [hn, hn', hr.parents]
      cases hpp : nd.parents with
      | nil => rfl
      | cons p rest =>
        obtain ⟨pd, hpd⟩ := h.parentsLive n nd hn p (by rw [hpp]; simp)
        simpa using nameOf_comm h hpd

theorem viOf_comm (h : Iso σ s s') (hv : VRel σ s s' v v') (hi : VRel σ s s' i i') (hs : SRel σ s s' st st')
    {n : Nat} {nd nd' : SNode α} (hn : s.node? n = some nd) (hr : NodeRel σ nd nd') :
    viOf nd' (σ n) v' i' st' = viOf nd n v i st := by
  unfold viOf
  rw [selOf_comm h hv hs hn hr]
  cases hp : selOf nd n v st with
  | none => simp only [Option.map_none, hv.live n nd hn, hi.live n nd hn, hr.comp]
  | some p =>
    obtain ⟨pd, hpd⟩ := selOf_live h hn hp
    simp only [Option.map_some, hv.live p pd hpd]

theorem ioOf_comm (h : Iso σ s s') (hv : VRel σ s s' v v') (hi : VRel σ s s' i i') (hs : SRel σ s s' st st')
    {n : Nat} {nd nd' : SNode α} (hn : s.node? n = some nd) (hr : NodeRel σ nd nd') :
    ioOf s' nd' (σ n) v' i' st' = ioOf s nd n v i st := by
  have e2 : nd'.childs.isEmpty = nd.childs.isEmpty := by
    have := hr.childs.length_eq
    simp only [List.length_map] at this
    cases h1 : nd'.childs <;> cases h2 : nd.childs <;> simp_all
  unfold ioOf
  simp only [hr.parents, List.isEmpty_map, e2, hi.live n nd hn, childCurr_comm h hv hi hs hn]

theorem uniqueNames' (h : Iso σ s s') (hw : TableWF s) :
    ∀ n m nd md, s'.node? n = some nd → s'.node? m = some md → nd.comp.name = md.comp.name → n = m := by
  intro n m nd md hn hm he
  obtain ⟨n0, nd0, hn0, rfl⟩ := h.surj n nd hn
  obtain ⟨m0, md0, hm0, rfl⟩ := h.surj m md hm
  obtain ⟨x, hx, hrx⟩ := h.node n0 nd0 hn0
  obtain ⟨y, hy, hry⟩ := h.node m0 md0 hm0
  rw [hn] at hx; cases hx
  rw [hm] at hy; cases hy
  rw [hrx.comp, hry.comp] at he
  rw [hw.names n0 m0 nd0 md0 hn0 hm0 he]

/-- the pieces of a row that name a parent always name a live node (or are empty) -/
theorem pnOf_cases (h : Iso σ s s') {n : Nat} {nd : SNode α} (hn : s.node? n = some nd) :
    pnOf s nd n v st = "" ∨ ∃ p pd, s.node? p = some pd ∧ pnOf s nd n v st = pd.comp.name := by
  unfold pnOf
  by_cases hroot : nd.parents.isEmpty = true
  · left; simp [hroot]
  · right
    simp only [hroot, if_false, Bool.false_eq_true]
    by_cases hm : muxSelOf nd n v st = true
    · obtain ⟨p, hp⟩ := muxSelOf_sel hm
      obtain ⟨pd, hpd⟩ := selOf_live h hn hp
      refine ⟨p, pd, hpd, ?_⟩
      simp only [hm, if_true, hp, Option.getD_some, SSys.nameOf, hpd]
    · simp only [hm, if_false, Bool.false_eq_true]
      unfold SSys.parentName
      simp only [hn]
      cases hpp : nd.parents with
      | nil => simp [hpp] at hroot
      | cons p rest =>
        obtain ⟨pd, hpd⟩ := h.parentsLive n nd hn p (by rw [hpp]; simp)
        exact ⟨p, pd, hpd, by simp only [SSys.nameOf, hpd]⟩

theorem railInOf_comm (h : Iso σ s s') (hw : TableWF s) (hw' : TableWF s')
    {n : Nat} {nd : SNode α} (hn : s.node? n = some nd) :
    railInOf s' (pnOf s nd n v st) = railInOf s (pnOf s nd n v st) := by
  rcases pnOf_cases (v := v) (st := st) h hn with h0 | ⟨p, pd, hpd, hname⟩
  · rw [h0]; simp [railInOf]
  · obtain ⟨pd', hpd', hrp⟩ := h.node p pd hpd
    rw [hname]
    unfold railInOf
    have e1 := find?_name hw hpd
    have e2 := find?_name hw' hpd'
    rw [hrp.comp] at e2
    rw [e1, e2]
    simp only [hrp.rail]

/-- **One table row commutes with the renumbering**: for related vectors, a live node `n` and the same inherited
    domain, the row of `σ n` in `s'` *is* the row of `n` in `s` (every cell, the domain handed on included). -/
theorem compRow_comm (h : Iso σ s s') (hw : TableWF s) (hw' : TableWF s')
    (hv : VRel σ s s' v v') (hi : VRel σ s s' i i') (hs : SRel σ s s' st st')
    (ph : String) (ta : α) {n : Nat} {nd : SNode α} (hn : s.node? n = some nd) (d : String) :
    s'.compRow ph ta v' i' st' (σ n) d = s.compRow ph ta v i st n d := by
  obtain ⟨nd', hn', hr⟩ := h.node n nd hn
  rw [compRow_eq s ph ta v i st hn, compRow_eq s' ph ta v' i' st' hn', findDomain_comm h hw hw' hv hn,
    viOf_comm h hv hi hs hn hr, ioOf_comm h hv hi hs hn hr, pnOf_comm h hv hs hn hn' hr,
    railInOf_comm h hw hw' hn, hv.live n nd hn, hi.live n nd hn, h.phases]
  unfold mkRow
  simp only [hr.comp, hr.pconf, hr.group, hr.rail]

/-! ### all component rows -/

/-- the domain a node inherits, given the domain `D` of every node: that of its first parent (`"none"`, the
    initial running value, stands in for a root — a root is a Source and ignores it) -/
def startD (s : SSys α) (D : Nat → String) (n : Nat) : String :=
  match s.node? n with
  | some nd => (match nd.parents with | [] => "none" | p :: _ => D p)
  | none => "none"

def DofM (M : List (Nat × String)) : Nat → String := fun n => (M.lookup n).getD "none"

theorem compRow_source_indep (s : SSys α) (ph : String) (ta : α) (v i : Vec α) (st : St) {n : Nat}
    {nd : SNode α} (hn : s.node? n = some nd) (hk : nd.comp.kind = .source) (d d' : String) :
    s.compRow ph ta v i st n d = s.compRow ph ta v i st n d' := by
  have : ∀ x, s.findDomain n x v = nd.comp.name := by
    intro x; unfold SSys.findDomain; simp only [hn, hk]
  rw [compRow_eq s ph ta v i st hn, compRow_eq s ph ta v i st hn, this d, this d']

/-- loop invariant of `compRows` after the nodes `done` -/
structure RInv (s : SSys α) (ph : String) (ta : α) (v i : Vec α) (st : St)
    (done : List Nat) (acc : List (Row α) × String × List (Nat × String)) : Prop where
  rows : acc.1 = done.map fun n => (s.compRow ph ta v i st n (startD s (DofM acc.2.2) n)).1
  look : ∀ n ∈ done, acc.2.2.lookup n = some (s.compRow ph ta v i st n (startD s (DofM acc.2.2) n)).2
  nolook : ∀ n, n ∉ done → acc.2.2.lookup n = none
  closed : ∀ m ∈ done, ∀ md p rest, s.node? m = some md → md.parents = p :: rest → p ∈ done

theorem rinv_step (hw : TableWF s) (ph : String) (ta : α) (v i : Vec α) (st : St)
    (done : List Nat) (acc : List (Row α) × String × List (Nat × String))
    (hinv : RInv s ph ta v i st done acc) (n : Nat) (nd : SNode α) (hn : s.node? n = some nd)
    (hnot : n ∉ done) (hpar : ∀ p rest, nd.parents = p :: rest → p ∈ done) :
    RInv s ph ta v i st (done ++ [n]) (rowStep s ph ta v i st acc n) := by
  obtain ⟨rows, dname, M⟩ := acc
  have hrows : rows = done.map fun n => (s.compRow ph ta v i st n (startD s (DofM M) n)).1 := hinv.rows
  have hlook : ∀ n ∈ done, M.lookup n = some (s.compRow ph ta v i st n (startD s (DofM M) n)).2 := hinv.look
  have hnolook : ∀ n, n ∉ done → M.lookup n = none := hinv.nolook
  -- the value the loop starts from
  obtain ⟨start, hstart⟩ : ∃ x, x = (match nd.parents with
        | [] => dname
        | p :: _ => (M.lookup p).getD dname) := ⟨_, rfl⟩
  obtain ⟨rd, hrd⟩ : ∃ x, x = s.compRow ph ta v i st n start := ⟨_, rfl⟩
  have hrs : rowStep s ph ta v i st (rows, dname, M) n = (rows ++ [rd.1], rd.2, (n, rd.2) :: M) := by
    rw [hrd, hstart]; unfold rowStep; simp only [hn]
    cases nd.parents <;> rfl
  rw [hrs]
  have hA : ∀ m, m ≠ n → DofM ((n, rd.2) :: M) m = DofM M m := by
    intro m hm; unfold DofM; rw [lookup_cons_ne _ _ _ _ hm]
  have hB : ∀ m ∈ done, startD s (DofM ((n, rd.2) :: M)) m = startD s (DofM M) m := by
    intro m hm
    unfold startD
    cases hmd : s.node? m with
    | none => rfl
    | some md =>
      simp only
      cases hpp : md.parents with
      | nil => rfl
      | cons p rest =>
        simp only
        have hp : p ∈ done := hinv.closed m hm md p rest hmd hpp
        exact hA p (fun e => hnot (e ▸ hp))
  have hC : rd = s.compRow ph ta v i st n (startD s (DofM ((n, rd.2) :: M)) n) := by
    refine hrd.trans ?_
    cases hpp : nd.parents with
    | nil => exact compRow_source_indep s ph ta v i st hn (hw.roots n nd hn hpp) _ _
    | cons p rest =>
      have hp : p ∈ done := hpar p rest hpp
      have hl := hlook p hp
      congr 1
      have e1 : start = (s.compRow ph ta v i st p (startD s (DofM M) p)).2 := by
        rw [hstart, hpp]; simp only [hl, Option.getD_some]
      have e2 : startD s (DofM ((n, rd.2) :: M)) n = DofM ((n, rd.2) :: M) p := by
        unfold startD; simp only [hn, hpp]
      rw [e2, hA p (fun e => hnot (e ▸ hp)), e1]
      unfold DofM; rw [hl]; rfl
  refine ⟨?_, ?_, ?_, ?_⟩
  · simp only [List.map_append, List.map_cons, List.map_nil]
    rw [← hC]
    congr 1
    rw [hrows]
    apply List.map_congr_left
    intro m hm
    rw [hB m hm]
  · intro m hm
    simp only
    rcases List.mem_append.mp hm with hm | hm
    · have hne : m ≠ n := fun e => hnot (e ▸ hm)
      rw [lookup_cons_ne _ _ _ _ hne, hB m hm]
      exact hlook m hm
    · have : m = n := by simpa using hm
      subst this
      rw [lookup_cons_self', ← hC]
  · intro m hm
    simp only [List.mem_append, List.mem_singleton, not_or] at hm
    simp only
    rw [lookup_cons_ne _ _ _ _ hm.2]
    exact hnolook m hm.1
  · intro m hm md p rest hmd hpp
    rcases List.mem_append.mp hm with hm | hm
    · exact List.mem_append_left _ (hinv.closed m hm md p rest hmd hpp)
    · have : m = n := by simpa using hm
      subst this
      rw [hn] at hmd; cases hmd
      exact List.mem_append_left _ (hpar p rest hpp)

theorem rinv_foldl (hw : TableWF s) (ph : String) (ta : α) (v i : Vec α) (st : St) :
    ∀ (l done : List Nat) (acc : List (Row α) × String × List (Nat × String)),
      RInv s ph ta v i st done acc → (done ++ l).Nodup →
      (∀ n ∈ l, ∃ nd, s.node? n = some nd) →
      (∀ (pre : List Nat) (n : Nat) (post : List Nat), l = pre ++ n :: post →
          ∀ nd p rest, s.node? n = some nd → nd.parents = p :: rest → p ∈ done ++ pre) →
      RInv s ph ta v i st (done ++ l) (l.foldl (rowStep s ph ta v i st) acc) := by
  intro l
  induction l with
  | nil => intro done acc h _ _ _; simpa using h
  | cons n l' ih =>
    intro done acc h hnd hnodes hpar
    obtain ⟨nd, hn⟩ := hnodes n (by simp)
    have hnot : n ∉ done := by
      intro hm
      have := (List.nodup_append.mp hnd).2.2 n hm n (by simp)
      exact this rfl
    have hstep := rinv_step hw ph ta v i st done acc h n nd hn hnot
      (fun p rest hpp => by simpa using hpar [] n l' rfl nd p rest hn hpp)
    have := ih (done ++ [n]) _ hstep (by simpa [List.append_assoc] using hnd)
      (fun m hm => hnodes m (by simp [hm]))
      (by
        intro pre m post hl md p rest hmd hp
        have := hpar (n :: pre) m post (by simp [hl]) md p rest hmd hp
        simpa [List.append_assoc] using this)
    simpa [List.append_assoc] using this

/-- **what `compRows` computes**: there is an assignment `D` of a domain to every node such that the rows are the
    `compRow`s of the nodes in `_topo_nodes` order, each started from the domain of its first parent, and `D n` is
    the domain `compRow` hands on for `n` -/
theorem compRows_spec (htopo : ∀ n, n ∈ s.topo ↔ ∃ nd, s.node? n = some nd) (hw : TableWF s)
    (ph : String) (ta : α) (v i : Vec α) (st : St) :
    ∃ D : Nat → String,
      s.compRows ph ta v i st = s.topo.map (fun n => (s.compRow ph ta v i st n (startD s D n)).1) ∧
      ∀ n ∈ s.topo, D n = (s.compRow ph ta v i st n (startD s D n)).2 := by
  have h0 : RInv s ph ta v i st [] ([], "none", []) :=
    ⟨rfl, fun n hn => absurd hn (by simp), fun n _ => rfl, fun m hm => absurd hm (by simp)⟩
  have hfin := rinv_foldl hw ph ta v i st s.topo [] _ h0 (by simpa using hw.nodup)
    (fun n hn => (htopo n).mp hn)
    (by intro pre n post hl nd p rest hn hp; simpa using hw.order pre n post hl nd p rest hn hp)
  simp only [List.nil_append] at hfin
  refine ⟨DofM (s.topo.foldl (rowStep s ph ta v i st) ([], "none", [])).2.2, ?_, ?_⟩
  · rw [compRows_eq_foldl]; exact hfin.rows
  · intro n hn
    have := hfin.look n hn
    unfold DofM
    rw [this]; rfl

/-- **The component rows commute with the renumbering**: for related solver vectors the rows of `s'` are the rows
    of `s`, up to the order in which the two topological orders list the nodes.  (Domains included: no agreement
    of inherited domains is assumed, it is proved along the supply paths.) -/
theorem compRows_renumber (h : Iso σ s s') (hw : TableWF s) (hw' : TableWF s')
    (hv : VRel σ s s' v v') (hi : VRel σ s s' i i') (hs : SRel σ s s' st st') (ph : String) (ta : α) :
    (s'.compRows ph ta v' i' st').Perm (s.compRows ph ta v i st) := by
  obtain ⟨D, hrows, hD⟩ := compRows_spec h.topo hw ph ta v i st
  obtain ⟨D', hrows', hD'⟩ := compRows_spec h.topo' hw' ph ta v' i' st'
  -- domains agree, by induction along the topological order of `s`
  have hdom : ∀ (k : Nat) (pre : List Nat) (n : Nat) (post : List Nat), s.topo = pre ++ n :: post →
      pre.length = k → startD s' D' (σ n) = startD s D n ∧ D' (σ n) = D n := by
    intro k
    induction k using Nat.strong_induction_on with
    | _ k ih =>
      intro pre n post ht hk
      have hnt : n ∈ s.topo := by rw [ht]; simp
      obtain ⟨nd, hn⟩ := (h.topo n).mp hnt
      obtain ⟨nd', hn', hr⟩ := h.node n nd hn
      have hstart : startD s' D' (σ n) = startD s D n := by
        unfold startD
        simp only [hn, hn', hr.parents]
        cases hpp : nd.parents with
        | nil => rfl
        | cons p rest =>
          simp only [List.map_cons]
          have hp := hw.order pre n post ht nd p rest hn hpp
          obtain ⟨a, b, rfl⟩ := List.append_of_mem hp
          exact (ih a.length (by rw [← hk]; simp) a p (b ++ n :: post) (by rw [ht]; simp) rfl).2
      refine ⟨hstart, ?_⟩
      rw [hD n hnt, hD' (σ n) ((h.topo' _).mpr ⟨nd', hn'⟩), hstart,
        compRow_comm h hw hw' hv hi hs ph ta hn]
  have hrow : ∀ n ∈ s.topo, (s'.compRow ph ta v' i' st' (σ n) (startD s' D' (σ n))).1 =
      (s.compRow ph ta v i st n (startD s D n)).1 := by
    intro n hnt
    obtain ⟨a, b, ht⟩ := List.append_of_mem hnt
    obtain ⟨nd, hn⟩ := (h.topo n).mp hnt
    rw [(hdom a.length a n b ht rfl).1, compRow_comm h hw hw' hv hi hs ph ta hn]
  -- the two orders list the same nodes
  have hnd : (s.topo.map σ).Nodup := by
    refine (List.pairwise_map.mpr ?_)
    refine List.Pairwise.imp_of_mem ?_ hw.nodup
    intro x y hx hy hne hxy
    apply hne
    obtain ⟨xd, hxd⟩ := (h.topo x).mp hx
    obtain ⟨yd, hyd⟩ := (h.topo y).mp hy
    exact h.inj x y xd yd hxd hyd hxy
  have hperm : s'.topo.Perm (s.topo.map σ) := by
    rw [List.perm_ext_iff_of_nodup hw'.nodup hnd]
    intro m
    rw [h.topo', List.mem_map]
    constructor
    · rintro ⟨nd', hm⟩
      obtain ⟨n, nd, hn, rfl⟩ := h.surj m nd' hm
      exact ⟨n, (h.topo n).mpr ⟨nd, hn⟩, rfl⟩
    · rintro ⟨n, hn, rfl⟩
      obtain ⟨nd, hnd⟩ := (h.topo n).mp hn
      obtain ⟨nd', hn', _⟩ := h.node n nd hnd
      exact ⟨nd', hn'⟩
  rw [hrows, hrows']
  refine (hperm.map _).trans ?_
  rw [List.map_map]
  apply List.Perm.of_eq
  apply List.map_congr_left
  intro n hn
  exact hrow n hn

/-! ## Part 3 — subsystem rows and the total row -/

/-- one "Subsystem" row of `phaseTable`, as a function of the component rows -/
def subRowOf (phases : List (String × α)) (phase : String) (comps : List (Row α)) (d : String) : Row α :=
  let srcRows := comps.filter (·.typ == "SOURCE")
  let vin := ((srcRows.filter (·.domain == d)).getLast?).bind (·.vin)
  let first := (comps.filter fun r => r.domain == d && r.typ == "SOURCE").head?
  let curr := first.bind (·.iout)
  let pwr := (first.bind (·.pwr)).getD 0
  let loss := optSum ((comps.filter (·.domain == d)).map (·.loss))
  let warned := (comps.filter (·.domain == d)).any (·.warn != "")
  { name := "Subsystem " ++ d, phase := phase, vin := vin, iout := curr, pwr := some pwr,
    loss := some loss, eff := some (getEff pwr (pwr - loss) 100),
    ener := some (calcEnergy phases phase pwr),
    warn := if warned then "Yes" else "" }

/-- the "System total" row, as a function of the component rows and the subsystem rows -/
def totalRowOf (phases : List (String × α)) (phase : String) (comps subs : List (Row α)) (nsrc : Nat) : Row α :=
  let tpwr := optSum (subs.map (·.pwr))
  let tloss := optSum (subs.map (·.loss))
  let anyWarn := comps.any (·.warn != "") || subs.any (·.warn != "")
  { name := "System total", phase := phase, pwr := some tpwr, loss := some tloss,
    eff := some (getEff tpwr (tpwr - tloss) 100), ener := some (calcEnergy phases phase tpwr),
    iout := if nsrc < 2 then (subs.getLast?).bind (·.iout) else none,
    warn := if anyWarn then "Yes" else "" }

def srcNamesOf (comps : List (Row α)) : List String :=
  ((comps.filter (·.typ == "SOURCE")).map (·.domain)).eraseDups

/-- `phaseTable` is a function of the component rows (and `phases`) -/
theorem phaseTable_eq (s : SSys α) (ph : String) (ta : α) (v i : Vec α) (st : St) :
    s.phaseTable ph ta v i st =
      let comps := s.compRows ph ta v i st
      let names := srcNamesOf comps
      let subs := names.map (subRowOf s.phases ph comps)
      ⟨comps, subs, totalRowOf s.phases ph comps subs names.length, names.length⟩ := rfl

theorem eraseDups_of_nodup : ∀ (l : List String), l.Nodup → l.eraseDups = l := by
  intro l
  induction l with
  | nil => intro _; rfl
  | cons a as ih =>
    intro h
    obtain ⟨ha, has⟩ := List.nodup_cons.mp h
    rw [List.eraseDups_cons]
    have : as.filter (fun b => !b == a) = as := by
      rw [List.filter_eq_self]
      intro b hb
      have : b ≠ a := fun e => ha (e ▸ hb)
      simpa using this
    rw [this, ih has]

theorem perm_any {β : Type} {l l' : List β} (hp : l'.Perm l) (f : β → Bool) : l'.any f = l.any f := by
  rw [Bool.eq_iff_iff, List.any_eq_true, List.any_eq_true]
  constructor
  · rintro ⟨x, hx, hf⟩; exact ⟨x, hp.mem_iff.mp hx, hf⟩
  · rintro ⟨x, hx, hf⟩; exact ⟨x, hp.mem_iff.mpr hx, hf⟩

theorem perm_optSum {l l' : List (Option α)} (hp : l'.Perm l) : optSum l' = optSum l := by
  unfold optSum
  rw [sumL_eq_sum, sumL_eq_sum]
  exact (hp.filterMap id).sum_eq

theorem perm_short {β : Type} {l l' : List β} (hp : l'.Perm l) (hl : l.length < 2) : l' = l := by
  match l, hl with
  | [], _ => exact List.perm_nil.mp hp
  | [a], _ => exact List.perm_singleton.mp hp

/-- the component rows have at most one SOURCE row per domain -/
def SrcDistinct (comps : List (Row α)) : Prop :=
  ((comps.filter (·.typ == "SOURCE")).map (·.domain)).Nodup

theorem srcRows_short {comps : List (Row α)} (hd : SrcDistinct comps) (d : String) :
    ((comps.filter (·.typ == "SOURCE")).filter (·.domain == d)).length < 2 := by
  have hsub : (((comps.filter (·.typ == "SOURCE")).filter (·.domain == d)).map (·.domain)).Nodup :=
    List.Nodup.sublist (List.Sublist.map _ List.filter_sublist) hd
  generalize hL : (comps.filter (·.typ == "SOURCE")).filter (·.domain == d) = L at hsub
  have hall : ∀ x ∈ L, x.domain = d := by
    intro x hx
    rw [← hL] at hx
    simpa using (List.mem_filter.mp hx).2
  match L, hsub, hall with
  | [], _, _ => simp
  | [a], _, _ => simp
  | a :: b :: rest, hsub, hall =>
    exfalso
    have ha := hall a (by simp)
    have hb := hall b (by simp)
    simp only [List.map_cons, List.nodup_cons, List.mem_cons] at hsub
    exact hsub.1 (Or.inl (ha.trans hb.symm))

theorem subRowOf_perm (phases : List (String × α)) (ph : String) {c c' : List (Row α)} (hp : c'.Perm c)
    (hd : SrcDistinct c) (d : String) : subRowOf phases ph c' d = subRowOf phases ph c d := by
  have hL : (c'.filter (·.typ == "SOURCE")).filter (·.domain == d) =
      (c.filter (·.typ == "SOURCE")).filter (·.domain == d) :=
    perm_short ((hp.filter _).filter _) (srcRows_short hd d)
  have hL2 : (c'.filter fun r => r.domain == d && r.typ == "SOURCE") =
      (c.filter fun r => r.domain == d && r.typ == "SOURCE") := by
    rw [← List.filter_filter, ← List.filter_filter]; exact hL
  have hloss : optSum ((c'.filter (·.domain == d)).map (·.loss)) = optSum ((c.filter (·.domain == d)).map (·.loss)) :=
    perm_optSum ((hp.filter _).map _)
  have hw : (c'.filter (·.domain == d)).any (·.warn != "") = (c.filter (·.domain == d)).any (·.warn != "") :=
    perm_any (hp.filter _) _
  unfold subRowOf
  simp only [hL, hL2, hloss, hw]

/-- **The aggregate rows depend on the component rows only up to their order**: with at most one SOURCE row per
    domain, permuted component rows give permuted subsystem rows and the same "System total" row -/
theorem aggregates_perm (phases : List (String × α)) (ph : String) {c c' : List (Row α)} (hp : c'.Perm c)
    (hd : SrcDistinct c) :
    ((srcNamesOf c').map (subRowOf phases ph c')).Perm ((srcNamesOf c).map (subRowOf phases ph c)) ∧
    (srcNamesOf c').length = (srcNamesOf c).length ∧
    totalRowOf phases ph c' ((srcNamesOf c').map (subRowOf phases ph c')) (srcNamesOf c').length =
      totalRowOf phases ph c ((srcNamesOf c).map (subRowOf phases ph c)) (srcNamesOf c).length := by
  have hnames : (srcNamesOf c').Perm (srcNamesOf c) := by
    have hp1 : ((c'.filter (·.typ == "SOURCE")).map (·.domain)).Perm ((c.filter (·.typ == "SOURCE")).map (·.domain)) :=
      (hp.filter _).map _
    unfold srcNamesOf
    rw [eraseDups_of_nodup _ hd, eraseDups_of_nodup _ (hp1.symm.nodup hd)]
    exact hp1
  have hsubs : ((srcNamesOf c').map (subRowOf phases ph c')).Perm ((srcNamesOf c).map (subRowOf phases ph c)) := by
    have : (srcNamesOf c').map (subRowOf phases ph c') = (srcNamesOf c').map (subRowOf phases ph c) :=
      List.map_congr_left (fun d _ => subRowOf_perm phases ph hp hd d)
    rw [this]
    exact hnames.map _
  refine ⟨hsubs, hnames.length_eq, ?_⟩
  unfold totalRowOf
  rw [hnames.length_eq]
  have e1 := perm_optSum (hsubs.map (·.pwr))
  have e2 := perm_optSum (hsubs.map (·.loss))
  have e3 := perm_any hp (fun r : Row α => r.warn != "")
  have e4 := perm_any hsubs (fun r : Row α => r.warn != "")
  simp only [e1, e2, e3, e4]
  by_cases hlt : (srcNamesOf c).length < 2
  · have : (srcNamesOf c').map (subRowOf phases ph c') = (srcNamesOf c).map (subRowOf phases ph c) :=
      perm_short hsubs (by simpa using hlt)
    rw [this]
  · simp only [hlt, if_false]

theorem typ_source_iff (k : Kind) : (k.ctype.name == "SOURCE") = true ↔ k = .source := by
  cases k <;> decide

/-- the component rows of a well-formed system have one SOURCE row per source, each under its own name -/
theorem compRows_srcDistinct (htopo : ∀ n, n ∈ s.topo ↔ ∃ nd, s.node? n = some nd) (hw : TableWF s)
    (ph : String) (ta : α) (v i : Vec α) (st : St) : SrcDistinct (s.compRows ph ta v i st) := by
  obtain ⟨D, hrows, _⟩ := compRows_spec htopo hw ph ta v i st
  unfold SrcDistinct
  rw [hrows, List.filter_map, List.map_map]
  refine List.pairwise_map.mpr ?_
  refine List.Pairwise.imp_of_mem ?_ (hw.nodup.filter _)
  intro x y hx hy hne hxy
  apply hne
  obtain ⟨hxt, hxs⟩ := List.mem_filter.mp hx
  obtain ⟨hyt, hys⟩ := List.mem_filter.mp hy
  obtain ⟨xd, hxd⟩ := (htopo x).mp hxt
  obtain ⟨yd, hyd⟩ := (htopo y).mp hyt
  simp only [Function.comp, compRow_eq s ph ta v i st hxd, compRow_eq s ph ta v i st hyd, mkRow] at hxs hys hxy
  have kx := (typ_source_iff _).mp hxs
  have ky := (typ_source_iff _).mp hys
  have fx : ∀ d, s.findDomain x d v = xd.comp.name := by
    intro d; unfold SSys.findDomain; simp only [hxd, kx]
  have fy : ∀ d, s.findDomain y d v = yd.comp.name := by
    intro d; unfold SSys.findDomain; simp only [hyd, ky]
  rw [fx, fy] at hxy
  exact hw.names x y xd yd hxd hyd hxy

/-- **The per-phase table commutes with the renumbering**: component rows and subsystem rows are the same up to
    order, the "System total" row and the number of sources are equal. -/
theorem phaseTable_renumber (h : Iso σ s s') (hw : TableWF s) (hw' : TableWF s')
    (hv : VRel σ s s' v v') (hi : VRel σ s s' i i') (hs : SRel σ s s' st st') (ph : String) (ta : α) :
    (s'.phaseTable ph ta v' i' st').comps.Perm (s.phaseTable ph ta v i st).comps ∧
    (s'.phaseTable ph ta v' i' st').subs.Perm (s.phaseTable ph ta v i st).subs ∧
    (s'.phaseTable ph ta v' i' st').total = (s.phaseTable ph ta v i st).total ∧
    (s'.phaseTable ph ta v' i' st').nsrc = (s.phaseTable ph ta v i st).nsrc := by
  have hp := compRows_renumber h hw hw' hv hi hs ph ta
  have hd := compRows_srcDistinct h.topo hw ph ta v i st
  obtain ⟨a1, a2, a3⟩ := aggregates_perm s.phases ph hp hd
  rw [phaseTable_eq, phaseTable_eq, h.phases]
  exact ⟨hp, a1, a3, a2⟩

/-! ## Part 4 — the whole `solve()` table -/

/-- the node is a Source -/
def isSrcNode (s : SSys α) (n : Nat) : Bool :=
  match s.node? n with
  | some nd => nd.comp.kind.ctype.name == "SOURCE"
  | none => false

/-- the number of subsystems is structural: the number of Source nodes, whatever the phase and the vectors -/
theorem nsrc_structural (htopo : ∀ n, n ∈ s.topo ↔ ∃ nd, s.node? n = some nd) (hw : TableWF s)
    (ph : String) (ta : α) (v i : Vec α) (st : St) :
    (s.phaseTable ph ta v i st).nsrc = (s.topo.filter (isSrcNode s)).length ∧
    (s.phaseTable ph ta v i st).subs.length = (s.phaseTable ph ta v i st).nsrc := by
  have hd := compRows_srcDistinct htopo hw ph ta v i st
  obtain ⟨D, hrows, _⟩ := compRows_spec htopo hw ph ta v i st
  rw [phaseTable_eq]
  simp only [List.length_map, and_true]
  unfold srcNamesOf
  rw [eraseDups_of_nodup _ hd, List.length_map, hrows, List.filter_map, List.length_map]
  congr 1
  apply List.filter_congr
  intro n hn
  obtain ⟨nd, hnd⟩ := (htopo n).mp hn
  simp only [Function.comp, compRow_eq s ph ta v i st hnd, mkRow, isSrcNode, hnd]

/-- two per-phase tables agree up to the order of their rows -/
def PTRel (T T' : PhaseTable α) : Prop :=
  T'.comps.Perm T.comps ∧ T'.subs.Perm T.subs ∧ T'.total = T.total ∧ T'.nsrc = T.nsrc

/-- what the average row reads of a per-phase table -/
def AvgRel (T T' : PhaseTable α) : Prop :=
  T'.total = T.total ∧ T'.nsrc = T.nsrc ∧ (T.nsrc < 2 → T'.subs = T.subs)

theorem zipWith_forall₂ {β γ δ : Type} {R : β → β → Prop} (g : β → γ → δ) {l l' : List β}
    (hF : List.Forall₂ R l l') (hg : ∀ p p', R p p' → ∀ t, g p' t = g p t) :
    ∀ ts : List γ, List.zipWith g l' ts = List.zipWith g l ts := by
  induction hF with
  | nil => intro ts; rfl
  | cons hr _ ih =>
    intro ts
    cases ts with
    | nil => rfl
    | cons t ts => simp only [List.zipWith_cons_cons, hg _ _ hr, ih ts]

theorem map_forall₂ {β γ : Type} {R : β → β → Prop} (g : β → γ) {l l' : List β}
    (hF : List.Forall₂ R l l') (hg : ∀ p p', R p p' → g p' = g p) : l'.map g = l.map g := by
  induction hF with
  | nil => rfl
  | cons hr _ ih => simp only [List.map_cons, hg _ _ hr, ih]

theorem getLast?_forall₂ {β : Type} {R : β → β → Prop} {l l' : List β} (hF : List.Forall₂ R l l') :
    (l.getLast? = none ∧ l'.getLast? = none) ∨ ∃ x x', l.getLast? = some x ∧ l'.getLast? = some x' ∧ R x x' := by
  induction hF with
  | nil => left; exact ⟨rfl, rfl⟩
  | @cons a b l l' hr hrest ih =>
    right
    rcases ih with ⟨h1, h2⟩ | ⟨x, x', h1, h2, hx⟩
    · have e1 : l = [] := List.getLast?_eq_none_iff.mp h1
      have e2 : l' = [] := List.getLast?_eq_none_iff.mp h2
      subst e1; subst e2
      exact ⟨a, b, rfl, rfl, hr⟩
    · refine ⟨x, x', ?_, ?_, hx⟩
      · cases l with
        | nil => simp at h1
        | cons c l => rw [List.getLast?_cons_cons]; exact h1
      · cases l' with
        | nil => simp at h2
        | cons c l' => rw [List.getLast?_cons_cons]; exact h2

/-- the "System average" row reads only the phase names, the total rows, the number of sources and — in a
    single-source system — the one subsystem row -/
theorem averageRow_congr (phases : List (String × α)) {tabs tabs' : List (String × PhaseTable α)}
    (hF : List.Forall₂ (fun p p' => p'.1 = p.1 ∧ AvgRel p.2 p'.2) tabs tabs')
    (hsame : ∀ p ∈ tabs, ∀ q ∈ tabs, p.2.nsrc = q.2.nsrc) :
    averageRow phases tabs' = averageRow phases tabs := by
  have E0 : tabs'.map (fun pt => (phases.lookup pt.1).getD 0) = tabs.map (fun pt => (phases.lookup pt.1).getD 0) :=
    map_forall₂ _ hF (fun p p' hr => by rw [hr.1])
  have Ep := zipWith_forall₂ (fun (pt : String × PhaseTable α) (t : α) => pt.2.total.pwr.getD 0 * t) hF
    (fun p p' hr t => by rw [hr.2.1])
  have El := zipWith_forall₂ (fun (pt : String × PhaseTable α) (t : α) => pt.2.total.loss.getD 0 * t) hF
    (fun p p' hr t => by rw [hr.2.1])
  have Ee := zipWith_forall₂ (fun (pt : String × PhaseTable α) (t : α) => pt.2.total.eff.getD 0 * t) hF
    (fun p p' hr t => by rw [hr.2.1])
  unfold averageRow
  simp only [E0, Ep, El, Ee]
  rcases getLast?_forall₂ hF with ⟨h1, h2⟩ | ⟨x, x', h1, h2, hx⟩
  · have e1 : tabs = [] := List.getLast?_eq_none_iff.mp h1
    have e2 : tabs' = [] := List.getLast?_eq_none_iff.mp h2
    subst e1; subst e2; rfl
  · simp only [h1, h2, hx.2.2.1]
    by_cases hs : x.2.nsrc < 2
    · have Ec := zipWith_forall₂ (R := fun p p' => p ∈ tabs ∧ p'.1 = p.1 ∧ AvgRel p.2 p'.2)
        (fun (pt : String × PhaseTable α) (t : α) => ((pt.2.subs.getLast?).bind (·.iout)).getD 0 * t) (l := tabs) (l' := tabs')
        (by
          have : ∀ (l l' : List (String × PhaseTable α)),
              List.Forall₂ (fun p p' => p'.1 = p.1 ∧ AvgRel p.2 p'.2) l l' → (∀ p ∈ l, p ∈ tabs) →
              List.Forall₂ (fun p p' => p ∈ tabs ∧ p'.1 = p.1 ∧ AvgRel p.2 p'.2) l l' := by
            intro l l' hf
            induction hf with
            | nil => intro _; exact List.Forall₂.nil
            | cons hr _ ih =>
              intro hm
              exact List.Forall₂.cons ⟨hm _ (by simp), hr⟩ (ih (fun p hp => hm p (by simp [hp])))
          exact this tabs tabs' hF (fun p hp => hp))
        (fun p p' hr t => by
          have hx_mem : x ∈ tabs := List.mem_of_getLast? h1
          have : p.2.nsrc < 2 := by rw [hsame p hr.1 x hx_mem]; exact hs
          rw [hr.2.2.2.2 this])
      simp only [Ec]
    · simp only [hs, decide_false, Bool.false_eq_true, if_false]

/-- one phase of `solve()`: solve, keep `(phase, v, i, state)` -/
def phaseStep (s : SSys α) (cfg : Cfg α) (ph : String) : Except Err (String × Vec α × Vec α × St) := do
  let r ← s.solvePhase cfg ph
  pure (ph, r.v, r.i, r.st)

theorem solve_eq (s : SSys α) (cfg : Cfg α) (pa : String) (ta : α) :
    s.solve cfg pa ta =
      match phaseList s.phases pa with
      | .error e => .error e
      | .ok pl =>
        match pl.mapM (phaseStep s cfg) with
        | .error e => .error e
        | .ok outs => .ok (s.assemble ta outs) := by
  unfold SSys.solve
  show (phaseList s.phases pa >>= fun pl => pl.mapM (phaseStep s cfg) >>= fun outs => pure (s.assemble ta outs)) = _
  cases phaseList s.phases pa with
  | error e => rfl
  | ok pl =>
    show (pl.mapM (phaseStep s cfg) >>= fun outs => pure (s.assemble ta outs)) =
      (match pl.mapM (phaseStep s cfg) with
        | .error e => .error e
        | .ok outs => .ok (s.assemble ta outs))
    cases pl.mapM (phaseStep s cfg) <;> rfl

/-- per-phase solver outputs related by `σ` -/
def ORel (σ : Nat → Nat) (s s' : SSys α) (o o' : String × Vec α × Vec α × St) : Prop :=
  o'.1 = o.1 ∧ VRel σ s s' o.2.1 o'.2.1 ∧ VRel σ s s' o.2.2.1 o'.2.2.1 ∧ SRel σ s s' o.2.2.2 o'.2.2.2

theorem phaseStep_rel (h : Iso σ s s') (cfg : Cfg α) (hatol : 0 ≤ cfg.atol) (ph : String) :
    (∀ o, phaseStep s cfg ph = .ok o → ∃ o', phaseStep s' cfg ph = .ok o' ∧ ORel σ s s' o o') ∧
    (∀ e, phaseStep s cfg ph = .error e →
      ∃ e', phaseStep s' cfg ph = .error e' ∧ (s'.topo = s.topo.map σ → e' = e)) := by
  unfold phaseStep
  constructor
  · intro o ho
    cases hx : s.solvePhase cfg ph with
    | error e => rw [hx] at ho; cases ho
    | ok r =>
      rw [hx] at ho
      obtain ⟨r', hr', _, a, b, c⟩ := solvePhase_renumber h cfg hatol ph r hx
      rw [hr']
      simp only [bind, Except.bind, pure, Except.pure, Except.ok.injEq] at ho ⊢
      subst ho
      exact ⟨_, rfl, rfl, a, b, c⟩
  · intro e he
    cases hx : s.solvePhase cfg ph with
    | ok r => rw [hx] at he; cases he
    | error e0 =>
      obtain ⟨e', he', _, hsm⟩ := solvePhase_renumber_error h cfg hatol ph e0 hx
      rw [he']
      rw [hx] at he
      have : e = e0 := (Except.error.inj he).symm
      subst this
      exact ⟨e', rfl, hsm⟩

theorem mapM_rel (h : Iso σ s s') (cfg : Cfg α) (hatol : 0 ≤ cfg.atol) : ∀ (pl : List String),
    (∀ outs, pl.mapM (phaseStep s cfg) = .ok outs →
      ∃ outs', pl.mapM (phaseStep s' cfg) = .ok outs' ∧ List.Forall₂ (ORel σ s s') outs outs') ∧
    (∀ e, pl.mapM (phaseStep s cfg) = .error e →
      ∃ e', pl.mapM (phaseStep s' cfg) = .error e' ∧ (s'.topo = s.topo.map σ → e' = e)) := by
  intro pl
  induction pl with
  | nil =>
    constructor
    · intro outs ho
      simp only [List.mapM_nil, pure, Except.pure, Except.ok.injEq] at ho
      subst ho
      exact ⟨[], rfl, List.Forall₂.nil⟩
    · intro e he; simp [pure, Except.pure] at he
  | cons ph pl ih =>
    obtain ⟨ok1, err1⟩ := phaseStep_rel h cfg hatol ph
    obtain ⟨okr, errr⟩ := ih
    simp only [List.mapM_cons, bind, Except.bind, pure, Except.pure]
    cases hx : phaseStep s cfg ph with
    | error e0 =>
      obtain ⟨e', he', hsm⟩ := err1 e0 hx
      rw [he']
      refine ⟨fun outs ho => (by cases ho), fun e he => ⟨e', rfl, ?_⟩⟩
      have : e0 = e := Except.error.inj he
      subst this
      exact hsm
    | ok o =>
      obtain ⟨o', ho', hrel⟩ := ok1 o hx
      rw [ho']
      simp only
      cases hy : pl.mapM (phaseStep s cfg) with
      | error e0 =>
        obtain ⟨e', he', hsm⟩ := errr e0 hy
        rw [he']
        refine ⟨fun outs ho => (by cases ho), fun e he => ⟨e', rfl, ?_⟩⟩
        have : e0 = e := Except.error.inj he
        subst this
        exact hsm
      | ok outs0 =>
        obtain ⟨outs0', ho0', hrel0⟩ := okr outs0 hy
        rw [ho0']
        refine ⟨fun outs ho => ?_, fun e he => by cases he⟩
        simp only [Except.ok.injEq] at ho
        subst ho
        exact ⟨_, rfl, List.Forall₂.cons hrel hrel0⟩

theorem tabs_rel (h : Iso σ s s') (hw : TableWF s) (hw' : TableWF s') (ta : α)
    {outs outs' : List (String × Vec α × Vec α × St)} (hrel : List.Forall₂ (ORel σ s s') outs outs') :
    List.Forall₂ (fun p p' => p'.1 = p.1 ∧ PTRel p.2 p'.2)
      (outs.map fun o => (o.1, s.phaseTable o.1 ta o.2.1 o.2.2.1 o.2.2.2))
      (outs'.map fun o => (o.1, s'.phaseTable o.1 ta o.2.1 o.2.2.1 o.2.2.2)) := by
  induction hrel with
  | nil => exact List.Forall₂.nil
  | @cons o o' l l' hr _ ih =>
    obtain ⟨e1, a, b, c⟩ := hr
    simp only [List.map_cons]
    refine List.Forall₂.cons ⟨e1, ?_⟩ ih
    simp only [e1]
    exact phaseTable_renumber h hw hw' a b c o.1 ta

/-- **`solve()` commutes with the renumbering.**  If `solve()` succeeds on `s` it succeeds on `s'`; phase by phase
    the component rows and the subsystem rows are the same up to their order, the "System total" rows are equal,
    and the "System average" row is equal. -/
theorem solve_renumber (h : Iso σ s s') (hw : TableWF s) (hw' : TableWF s') (cfg : Cfg α) (hatol : 0 ≤ cfg.atol)
    (pa : String) (ta : α) (T : Table α) (hT : s.solve cfg pa ta = .ok T) :
    ∃ T', s'.solve cfg pa ta = .ok T' ∧
      List.Forall₂ (fun p p' => p'.1 = p.1 ∧ PTRel p.2 p'.2) T.phases T'.phases ∧ T'.avg = T.avg := by
  rw [solve_eq] at hT ⊢
  rw [h.phases]
  cases hpl : phaseList s.phases pa with
  | error e => rw [hpl] at hT; cases hT
  | ok pl =>
    rw [hpl] at hT
    simp only at hT ⊢
    cases hm : pl.mapM (phaseStep s cfg) with
    | error e => rw [hm] at hT; cases hT
    | ok outs =>
      rw [hm] at hT
      simp only [Except.ok.injEq] at hT
      subst hT
      obtain ⟨outs', hm', hrel⟩ := (mapM_rel h cfg hatol pl).1 outs hm
      rw [hm']
      refine ⟨_, rfl, ?_⟩
      have htabs := tabs_rel h hw hw' ta hrel
      unfold SSys.assemble
      simp only
      refine ⟨htabs, ?_⟩
      have hlen : outs'.length = outs.length := by
        have := hrel.length_eq; omega
      rw [hlen, h.phases]
      split_ifs
      · congr 1
        apply averageRow_congr
        · -- weaken `PTRel` to what the average row reads
          have : ∀ (l l' : List (String × PhaseTable α)),
              List.Forall₂ (fun p p' => p'.1 = p.1 ∧ PTRel p.2 p'.2) l l' →
              (∀ p ∈ l, p.2.subs.length = p.2.nsrc) →
              List.Forall₂ (fun p p' => p'.1 = p.1 ∧ AvgRel p.2 p'.2) l l' := by
            intro l l' hf
            induction hf with
            | nil => intro _; exact List.Forall₂.nil
            | @cons p p' l l' hr _ ih =>
              intro hsub
              refine List.Forall₂.cons ⟨hr.1, hr.2.2.2.1, hr.2.2.2.2, fun hlt => ?_⟩
                (ih (fun q hq => hsub q (by simp [hq])))
              exact perm_short hr.2.2.1 (by rw [hsub p (by simp)]; exact hlt)
          refine this _ _ htabs ?_
          intro p hp
          obtain ⟨⟨ph, v, i, st⟩, _, rfl⟩ := List.mem_map.mp hp
          exact (nsrc_structural h.topo hw ph ta v i st).2
        · intro p hp q hq
          obtain ⟨⟨ph, v, i, st⟩, _, rfl⟩ := List.mem_map.mp hp
          obtain ⟨⟨ph2, v2, i2, st2⟩, _, rfl⟩ := List.mem_map.mp hq
          simp only
          rw [(nsrc_structural h.topo hw ph ta v i st).1, (nsrc_structural h.topo hw ph2 ta v2 i2 st2).1]
      · rfl

/-- … and if `solve()` raises on `s` it raises on `s'` — the very same exception when `s'` processes the nodes in
    the same order -/
theorem solve_renumber_error (h : Iso σ s s') (cfg : Cfg α) (hatol : 0 ≤ cfg.atol)
    (pa : String) (ta : α) (e : Err) (he : s.solve cfg pa ta = .error e) :
    ∃ e', s'.solve cfg pa ta = .error e' ∧ (s'.topo = s.topo.map σ → e' = e) := by
  rw [solve_eq] at he ⊢
  rw [h.phases]
  cases hpl : phaseList s.phases pa with
  | error e0 =>
    rw [hpl] at he
    exact ⟨e0, rfl, fun _ => Except.error.inj he⟩
  | ok pl =>
    rw [hpl] at he
    simp only at he ⊢
    cases hm : pl.mapM (phaseStep s cfg) with
    | ok outs => rw [hm] at he; cases he
    | error e0 =>
      obtain ⟨e', he', hsm⟩ := (mapM_rel h cfg hatol pl).2 e0 hm
      rw [he']
      rw [hm] at he
      have : e0 = e := Except.error.inj he
      subst this
      exact ⟨e', rfl, hsm⟩

/-! ## Non-vacuity -/

def cS : Comp ℚ := { name := "S", kind := .source, vo := 5, rs := 1/10, par := .const 0 }
def cB : Comp ℚ := { name := "B", kind := .converter, vo := 3, par := .const (9/10), iq := 1/1000 }
def cI : Comp ℚ := { name := "I", kind := .iload, par := .const 0, ii := 1/2 }
def cR : Comp ℚ := { name := "R", kind := .rload, par := .const 0, rs := 10 }

def nA0 : SNode ℚ := { comp := cS, parents := [], childs := [1] }
def nA1 : SNode ℚ := { comp := cB, parents := [0], childs := [2, 3], rail := "3V" }
def nA2 : SNode ℚ := { comp := cI, parents := [1], childs := [], pconf := .table [("run", 1/2)] }
def nA3 : SNode ℚ := { comp := cR, parents := [1], childs := [] }
def nB0 : SNode ℚ := { comp := cS, parents := [], childs := [2] }
def nB2 : SNode ℚ := { comp := cB, parents := [0], childs := [3, 5], rail := "3V" }
def nB3 : SNode ℚ := { comp := cR, parents := [2], childs := [] }
def nB5 : SNode ℚ := { comp := cI, parents := [2], childs := [], pconf := .table [("run", 1/2)] }

/-- Source → Converter → {ILoad, RLoad}, node ids 0,1,2,3, two phases -/
def exA : SSys ℚ :=
  { nodes := #[some nA0, some nA1, some nA2, some nA3], topo := [0, 1, 2, 3],
    phases := [("run", 600), ("sleep", 3000)] }

/-- the same structure after another history: ids 0,2,5,3 (1 and 4 freed), the loads in the other sibling order
    and processed in the other order -/
def exB : SSys ℚ :=
  { nodes := #[some nB0, none, some nB2, some nB3, none, some nB5], topo := [0, 2, 3, 5],
    phases := [("run", 600), ("sleep", 3000)] }

def exCfg : Cfg ℚ := { atol := 1/100000000, vtol := 1/1000000, itol := 1/1000000, maxiter := 100 }

def exσ : Nat → Nat
  | 0 => 0 | 1 => 2 | 2 => 5 | 3 => 3 | n => n + 10


theorem exA_cases {n : Nat} {nd : SNode ℚ} (h : exA.node? n = some nd) :
    (n = 0 ∧ nd = nA0) ∨ (n = 1 ∧ nd = nA1) ∨ (n = 2 ∧ nd = nA2) ∨ (n = 3 ∧ nd = nA3) := by
  have hlt : n < 4 := node?_lt h
  have h0 : exA.node? 0 = some nA0 := rfl
  have h1 : exA.node? 1 = some nA1 := rfl
  have h2 : exA.node? 2 = some nA2 := rfl
  have h3 : exA.node? 3 = some nA3 := rfl
  obtain rfl | rfl | rfl | rfl : n = 0 ∨ n = 1 ∨ n = 2 ∨ n = 3 := by omega
  · rw [h0] at h; exact Or.inl ⟨rfl, (Option.some.inj h).symm⟩
  · rw [h1] at h; exact Or.inr (Or.inl ⟨rfl, (Option.some.inj h).symm⟩)
  · rw [h2] at h; exact Or.inr (Or.inr (Or.inl ⟨rfl, (Option.some.inj h).symm⟩))
  · rw [h3] at h; exact Or.inr (Or.inr (Or.inr ⟨rfl, (Option.some.inj h).symm⟩))

theorem exB_cases {m : Nat} {nd : SNode ℚ} (h : exB.node? m = some nd) :
    (m = 0 ∧ nd = nB0) ∨ (m = 2 ∧ nd = nB2) ∨ (m = 3 ∧ nd = nB3) ∨ (m = 5 ∧ nd = nB5) := by
  have hlt : m < 6 := node?_lt h
  have h0 : exB.node? 0 = some nB0 := rfl
  have h1 : exB.node? 1 = none := rfl
  have h2 : exB.node? 2 = some nB2 := rfl
  have h3 : exB.node? 3 = some nB3 := rfl
  have h4 : exB.node? 4 = none := rfl
  have h5 : exB.node? 5 = some nB5 := rfl
  obtain rfl | rfl | rfl | rfl | rfl | rfl : m = 0 ∨ m = 1 ∨ m = 2 ∨ m = 3 ∨ m = 4 ∨ m = 5 := by omega
  · rw [h0] at h; exact Or.inl ⟨rfl, (Option.some.inj h).symm⟩
  · rw [h1] at h; cases h
  · rw [h2] at h; exact Or.inr (Or.inl ⟨rfl, (Option.some.inj h).symm⟩)
  · rw [h3] at h; exact Or.inr (Or.inr (Or.inl ⟨rfl, (Option.some.inj h).symm⟩))
  · rw [h4] at h; cases h
  · rw [h5] at h; exact Or.inr (Or.inr (Or.inr ⟨rfl, (Option.some.inj h).symm⟩))

/-- non-vacuity of `Iso` -/
theorem exIso : Iso exσ exA exB := by
  refine ⟨?_, ?_, ?_, ?_, ?_, ?_, ?_, rfl⟩
  · intro n m nd md hn hm he
    rcases exA_cases hn with ⟨rfl, _⟩ | ⟨rfl, _⟩ | ⟨rfl, _⟩ | ⟨rfl, _⟩ <;>
    rcases exA_cases hm with ⟨rfl, _⟩ | ⟨rfl, _⟩ | ⟨rfl, _⟩ | ⟨rfl, _⟩ <;>
    first | rfl | (simp [exσ] at he)
  · intro n nd hn
    rcases exA_cases hn with ⟨rfl, rfl⟩ | ⟨rfl, rfl⟩ | ⟨rfl, rfl⟩ | ⟨rfl, rfl⟩
    · exact ⟨nB0, rfl, ⟨rfl, rfl, rfl, rfl, rfl, by decide⟩⟩
    · exact ⟨nB2, rfl, ⟨rfl, rfl, rfl, rfl, rfl, by decide⟩⟩
    · exact ⟨nB5, rfl, ⟨rfl, rfl, rfl, rfl, rfl, by decide⟩⟩
    · exact ⟨nB3, rfl, ⟨rfl, rfl, rfl, rfl, rfl, by decide⟩⟩
  · intro m nd' hm
    rcases exB_cases hm with ⟨rfl, _⟩ | ⟨rfl, _⟩ | ⟨rfl, _⟩ | ⟨rfl, _⟩
    · exact ⟨0, _, rfl, rfl⟩
    · exact ⟨1, _, rfl, rfl⟩
    · exact ⟨3, _, rfl, rfl⟩
    · exact ⟨2, _, rfl, rfl⟩
  · intro n
    constructor
    · intro hn
      have : n = 0 ∨ n = 1 ∨ n = 2 ∨ n = 3 := by simpa [exA] using hn
      rcases this with rfl | rfl | rfl | rfl <;> exact ⟨_, rfl⟩
    · rintro ⟨nd, hn⟩
      rcases exA_cases hn with ⟨rfl, _⟩ | ⟨rfl, _⟩ | ⟨rfl, _⟩ | ⟨rfl, _⟩ <;> simp [exA]
  · intro m
    constructor
    · intro hm
      have : m = 0 ∨ m = 2 ∨ m = 3 ∨ m = 5 := by simpa [exB] using hm
      rcases this with rfl | rfl | rfl | rfl <;> exact ⟨_, rfl⟩
    · rintro ⟨nd, hm⟩
      rcases exB_cases hm with ⟨rfl, _⟩ | ⟨rfl, _⟩ | ⟨rfl, _⟩ | ⟨rfl, _⟩ <;> simp [exB]
  · intro n nd hn p hp
    rcases exA_cases hn with ⟨rfl, rfl⟩ | ⟨rfl, rfl⟩ | ⟨rfl, rfl⟩ | ⟨rfl, rfl⟩ <;>
      simp [nA0, nA1, nA2, nA3] at hp <;> subst hp <;> exact ⟨_, rfl⟩
  · intro n nd hn c hc
    rcases exA_cases hn with ⟨rfl, rfl⟩ | ⟨rfl, rfl⟩ | ⟨rfl, rfl⟩ | ⟨rfl, rfl⟩ <;>
      simp [nA0, nA1, nA2, nA3] at hc
    · subst hc; exact ⟨_, rfl⟩
    · rcases hc with rfl | rfl <;> exact ⟨_, rfl⟩

theorem exA_wf : TableWF exA := by
  refine ⟨?_, by decide, ?_, ?_⟩
  · intro n m nd md hn hm he
    rcases exA_cases hn with ⟨rfl, rfl⟩ | ⟨rfl, rfl⟩ | ⟨rfl, rfl⟩ | ⟨rfl, rfl⟩ <;>
    rcases exA_cases hm with ⟨rfl, rfl⟩ | ⟨rfl, rfl⟩ | ⟨rfl, rfl⟩ | ⟨rfl, rfl⟩ <;>
    first | rfl | (simp [nA0, nA1, nA2, nA3, cS, cB, cI, cR] at he)
  · intro pre n post ht nd p rest hn hpp
    have ht' : pre ++ n :: post = [0, 1, 2, 3] := ht.symm
    rcases pre with _ | ⟨a, _ | ⟨b, _ | ⟨c, _ | ⟨d, pre⟩⟩⟩⟩ <;>
      simp at ht' <;> obtain ⟨rfl, ht'⟩ := ht'
    · have h0 : exA.node? 0 = some nA0 := rfl
      rw [h0] at hn; cases hn; simp [nA0] at hpp
    · obtain ⟨rfl, _⟩ := ht'
      have h1 : exA.node? 1 = some nA1 := rfl
      rw [h1] at hn; cases hn; simp [nA1] at hpp; simp [hpp.1.symm]
    · obtain ⟨rfl, rfl, _⟩ := ht'
      have h2 : exA.node? 2 = some nA2 := rfl
      rw [h2] at hn; cases hn; simp [nA2] at hpp; simp [hpp.1.symm]
    · obtain ⟨rfl, rfl, rfl, _⟩ := ht'
      have h3 : exA.node? 3 = some nA3 := rfl
      rw [h3] at hn; cases hn; simp [nA3] at hpp; simp [hpp.1.symm]
  · intro n nd hn hp
    rcases exA_cases hn with ⟨rfl, rfl⟩ | ⟨rfl, rfl⟩ | ⟨rfl, rfl⟩ | ⟨rfl, rfl⟩ <;>
      first | rfl | (simp [nA1, nA2, nA3] at hp)

theorem exB_wf : TableWF exB := by
  refine ⟨?_, by decide, ?_, ?_⟩
  · intro n m nd md hn hm he
    rcases exB_cases hn with ⟨rfl, rfl⟩ | ⟨rfl, rfl⟩ | ⟨rfl, rfl⟩ | ⟨rfl, rfl⟩ <;>
    rcases exB_cases hm with ⟨rfl, rfl⟩ | ⟨rfl, rfl⟩ | ⟨rfl, rfl⟩ | ⟨rfl, rfl⟩ <;>
    first | rfl | (simp [nB0, nB2, nB3, nB5, cS, cB, cI, cR] at he)
  · intro pre n post ht nd p rest hn hpp
    have ht' : pre ++ n :: post = [0, 2, 3, 5] := ht.symm
    rcases pre with _ | ⟨a, _ | ⟨b, _ | ⟨c, _ | ⟨d, pre⟩⟩⟩⟩ <;>
      simp at ht' <;> obtain ⟨rfl, ht'⟩ := ht'
    · have h0 : exB.node? 0 = some nB0 := rfl
      rw [h0] at hn; cases hn; simp [nB0] at hpp
    · obtain ⟨rfl, _⟩ := ht'
      have h2 : exB.node? 2 = some nB2 := rfl
      rw [h2] at hn; cases hn; simp [nB2] at hpp; simp [hpp.1.symm]
    · obtain ⟨rfl, rfl, _⟩ := ht'
      have h3 : exB.node? 3 = some nB3 := rfl
      rw [h3] at hn; cases hn; simp [nB3] at hpp; simp [hpp.1.symm]
    · obtain ⟨rfl, rfl, rfl, _⟩ := ht'
      have h5 : exB.node? 5 = some nB5 := rfl
      rw [h5] at hn; cases hn; simp [nB5] at hpp; simp [hpp.1.symm]
  · intro n nd hn hp
    rcases exB_cases hn with ⟨rfl, rfl⟩ | ⟨rfl, rfl⟩ | ⟨rfl, rfl⟩ | ⟨rfl, rfl⟩ <;>
      first | rfl | (simp [nB2, nB3, nB5] at hp)

/-- both `solve()` calls succeed in both phases, after the same numbers of iterations (kernel evaluation at ℚ) -/
example :
    (exA.solvePhase exCfg "run").toOption.map (·.iters) = some 6 ∧
    (exB.solvePhase exCfg "run").toOption.map (·.iters) = some 6 ∧
    (exA.solvePhase exCfg "sleep").toOption.map (·.iters) = (exB.solvePhase exCfg "sleep").toOption.map (·.iters) ∧
    ((exA.solvePhase exCfg "sleep").toOption.map (·.iters)).isSome = true := by decide +kernel

theorem exA_ok : ∃ r, exA.solvePhase exCfg "run" = .ok r := by
  cases hx : exA.solvePhase exCfg "run" with
  | ok r => exact ⟨r, rfl⟩
  | error e =>
    have : (exA.solvePhase exCfg "run").toOption.map (·.iters) = some 6 := by decide +kernel
    rw [hx] at this; cases this

/-- `solvePhase_renumber` applies to the pair and yields the solution of `exB` from that of `exA` -/
example : ∃ r r', exA.solvePhase exCfg "run" = .ok r ∧ exB.solvePhase exCfg "run" = .ok r' ∧ r'.iters = r.iters ∧
    vget r'.v 5 = vget r.v 2 ∧ vget r'.i 2 = vget r.i 1 := by
  obtain ⟨r, hr⟩ := exA_ok
  obtain ⟨r', hr', hit, hv, hi, _⟩ := solvePhase_renumber exIso exCfg (by norm_num [exCfg]) "run" r hr
  exact ⟨r, r', hr, hr', hit, hv.live 2 _ rfl, hi.live 1 _ rfl⟩

/-- `compRows_renumber` / `phaseTable_renumber` apply to the solved pair … -/
example : ∃ r r', exA.solvePhase exCfg "run" = .ok r ∧ exB.solvePhase exCfg "run" = .ok r' ∧
    (exB.compRows "run" 25 r'.v r'.i r'.st).Perm (exA.compRows "run" 25 r.v r.i r.st) ∧
    (exB.phaseTable "run" 25 r'.v r'.i r'.st).total = (exA.phaseTable "run" 25 r.v r.i r.st).total := by
  obtain ⟨r, hr⟩ := exA_ok
  obtain ⟨r', hr', _, hv, hi, hs⟩ := solvePhase_renumber exIso exCfg (by norm_num [exCfg]) "run" r hr
  exact ⟨r, r', hr, hr', compRows_renumber exIso exA_wf exB_wf hv hi hs "run" 25,
    (phaseTable_renumber exIso exA_wf exB_wf hv hi hs "run" 25).2.2.1⟩

/-- … and the permutation is a genuine one: the rows come out in different orders -/
example :
    (exA.solvePhase exCfg "run").toOption.map (fun r => (exA.compRows "run" 25 r.v r.i r.st).map (·.name))
      = some ["S", "B", "I", "R"] ∧
    (exB.solvePhase exCfg "run").toOption.map (fun r => (exB.compRows "run" 25 r.v r.i r.st).map (·.name))
      = some ["S", "B", "R", "I"] ∧
    (exB.solvePhase exCfg "run").toOption.map (fun r => (exB.compRows "run" 25 r.v r.i r.st).map (·.railIn))
      = some ["", "", "3V", "3V"] := by decide +kernel

/-- `solve_renumber` on the pair: the whole two-phase `solve()` succeeds on both, with an average row -/
example : ∃ T T', exA.solve exCfg "" 25 = .ok T ∧ exB.solve exCfg "" 25 = .ok T' ∧ T'.avg = T.avg ∧
    T.phases.map (·.1) = ["run", "sleep"] ∧ T.avg.isSome = true := by
  have hA : ∃ T, exA.solve exCfg "" 25 = .ok T ∧ T.phases.map (·.1) = ["run", "sleep"] ∧ T.avg.isSome = true := by
    cases hx : exA.solve exCfg "" 25 with
    | ok T =>
      have : (exA.solve exCfg "" 25).toOption.map (fun T => (T.phases.map (·.1), T.avg.isSome))
          = some (["run", "sleep"], true) := by decide +kernel
      rw [hx] at this
      simp only [Except.toOption, Option.map_some, Option.some.injEq, Prod.mk.injEq] at this
      exact ⟨T, rfl, this.1, this.2⟩
    | error e =>
      have : ((exA.solve exCfg "" 25).toOption.map (fun T => T.phases.length)).isSome = true := by decide +kernel
      rw [hx] at this; cases this
  obtain ⟨T, hT, h1, h2⟩ := hA
  obtain ⟨T', hT', _, havg⟩ := solve_renumber exIso exA_wf exB_wf exCfg (by norm_num [exCfg]) "" 25 T hT
  exact ⟨T, T', hT, hT', havg, h1, h2⟩

end C16R
end SysLoss
