/-
  Props/C16Rail — C08 / C16: `rail_rep()` is a function of the final structure (not of the edit history / the node
  numbering / rustworkx's processing order).

  `Props/C08` says what each rail row is in terms of the component rows of the SAME table; `Props/C16Renumber`
  (`solve_renumber`) and `Props/C16Final` (`histories_same_table`) that two histories with the same final structure
  give `solve()` tables that agree phase by phase up to the ORDER of the component rows.  `railRep` reads three
  things that depend on that order:
    * `volt`  — the Vin of the FIRST member of the rail,
    * `warn`  — the distinct non-empty warning texts in order of first occurrence (a set in the Python),
    * the order of the rail rows themselves — the order in which the rails first occur among the component rows.
  This file shows that nothing else depends on it, and that `volt` does not either for tables made by `solve()`.

    RailRow.Equiv a b     equal phase, rail, volt, curr, pwr, loss, eff; `warn` lists with the same members
    RailPerm X Y          `Y` is a permutation of `X` row by row up to `Equiv`  (∃ m, Forall₂ Equiv X m ∧ m ~ Y);
                          an equivalence relation, `.length_eq`, `.mem_left`, `.mem_right` spell it out
    PhasesPerm P P'       same phase names in the same order, per phase `comps` permutations of each other
    VinUniform comps      rows with the same non-empty "Rail in" have the same Vin;  RailVinUniform T: in every phase
    RailsUnique s         no two live nodes carry the same non-empty output rail name (Python: `_chk_name` /
                          `change_comp` raise "Rail name … is already used!"; C14's invariant `rails_nodup`)

  1. railRep_perm_congr       PhasesPerm T.phases T'.phases → RailVinUniform T → RailPerm (railRep T) (railRep T').
                              Full strength for what it says; the hypothesis `RailVinUniform` is NECESSARY
                              (`railRep_perm_congr_needs_uniform`: two rows on one rail with different Vin, swapped, give
                              different voltages) and is PROVED for every table of `solve()`:
     rail_members_same_vin    htopo, parentsLive, TableWF, RailsUnique ⇒ VinUniform (s.compRows …): "Rail in" is the output
                              rail of the parent the row names, Vin is THAT parent's output voltage (`sel_pn`: the parent
                              whose name is shown is the parent whose voltage is shown, PMux selection included), and
                              a rail name belongs to one node.
     solve_railVinUniform     the same for the table returned by `s.solve`.
  2. rail_rep_renumber        Iso σ s s', TableWF both, RailsUnique s, 0 ≤ atol:
                              s.solve = ok T → ∃ T', s'.solve = ok T' ∧ RailPerm (railRep T) (railRep T').
     rail_rep_renumber_rows   the same spelled out: equal length + mutual membership up to `Equiv`.
                              `RailsUnique s` is a well-formedness hypothesis of the same kind as `TableWF` (true for every
                              reachable system, discharged in 3.); without it the reported voltage of a rail with two owners
                              is the Vin of whichever member rustworkx lists first.
  3. histories_same_rail_rep  two edit histories from two constructor calls with `AStruct.Same` final structures: no
                              well-formedness hypothesis left (`toSSys_railsUnique` from C14's invariant).  As in
                              `histories_same_table`, `ValidTopo` of the two `topo` parameters (rustworkx's order) is assumed.
     same_structure_same_rail_rep   the version for two legal, well-formed states.
  NOT claimed: the order of the rail rows, the order inside `warn` (both follow row order = rustworkx's choice); the
  `none`/fall-through cases of the Python `rail_rep()` (no rail column → returns the solve() table) are outside `railRep`
  (see Model/Table, DESIGN C08).  Error case: `rail_rep()` raises iff `solve()` does — `solve_renumber_error`.

  Non-vacuity: (a) `exA`/`exB` of C16Renumber (rail "3V" on the converter, its two members listed in opposite orders —
  so the "first member" really differs); (b) two histories from `System("s", Source("S"), rail="VS")` with rails on three
  components (one addressed by rail name, a deleted subtree whose rail name is re-used, a rename): `Same` holds, both
  rail reports are kernel-evaluated at ℚ and come out in DIFFERENT row orders; (c) hand-made tables for
  `railRep_perm_congr`, where the two reports are not equal as lists (warning order) but `RailPerm`.
-/
import SysLoss.Props.C16Final
import SysLoss.Props.C08

set_option linter.unusedSectionVars false
set_option linter.unusedVariables false
set_option linter.unusedSimpArgs false

namespace SysLoss
namespace C16R
open C16 C16F
variable {α : Type} [Field α] [LinearOrder α] [IsStrictOrderedRing α]

/-! ### rail rows up to the fields that depend on row order -/

/-- equal up to the order of the distinct warning texts -/
def RailRow.Equiv (a b : RailRow α) : Prop :=
  a.phase = b.phase ∧ a.rail = b.rail ∧ a.volt = b.volt ∧ a.curr = b.curr ∧ a.pwr = b.pwr ∧
  a.loss = b.loss ∧ a.eff = b.eff ∧ ∀ w, w ∈ a.warn ↔ w ∈ b.warn

theorem RailRow.Equiv.refl (a : RailRow α) : RailRow.Equiv a a :=
  ⟨rfl, rfl, rfl, rfl, rfl, rfl, rfl, fun _ => Iff.rfl⟩

theorem RailRow.Equiv.symm {a b : RailRow α} (h : RailRow.Equiv a b) : RailRow.Equiv b a :=
  ⟨h.1.symm, h.2.1.symm, h.2.2.1.symm, h.2.2.2.1.symm, h.2.2.2.2.1.symm, h.2.2.2.2.2.1.symm,
   h.2.2.2.2.2.2.1.symm, fun w => (h.2.2.2.2.2.2.2 w).symm⟩

theorem RailRow.Equiv.trans {a b c : RailRow α} (h : RailRow.Equiv a b) (g : RailRow.Equiv b c) :
    RailRow.Equiv a c :=
  ⟨h.1.trans g.1, h.2.1.trans g.2.1, h.2.2.1.trans g.2.2.1, h.2.2.2.1.trans g.2.2.2.1,
   h.2.2.2.2.1.trans g.2.2.2.2.1, h.2.2.2.2.2.1.trans g.2.2.2.2.2.1,
   h.2.2.2.2.2.2.1.trans g.2.2.2.2.2.2.1, fun w => (h.2.2.2.2.2.2.2 w).trans (g.2.2.2.2.2.2.2 w)⟩

/-- the row of rail `r` in phase `ph`, `none` when the rail feeds nothing there (the body of `railRep`) -/
def railRowOf (ph : String) (comps : List (Row α)) (r : String) : Option (RailRow α) :=
  let rows := comps.filter (·.railIn == r)
  if rows.isEmpty then none
  else
    let p := optSum (rows.map (·.pwr))
    let l := optSum (rows.map (·.loss))
    let ws : List String := (rows.map (·.warn)).eraseDups
    some { phase := ph, rail := r, volt := ((rows.head?).bind (·.vin)).getD 0,
           curr := optSum (rows.map (·.iin)), pwr := p, loss := l,
           eff := if isZ l then 100 else 100 * p / (p + l),
           warn := ws.filter (· != "") }

/-- the named rails of a table in the order of their first occurrence among the component rows -/
def railsOf (t : Table α) : List String :=
  (((t.phases.flatMap fun pt => pt.2.comps).map (·.railIn)).eraseDups).filter (· != "")

theorem railRep_eq (t : Table α) :
    railRep t = t.phases.flatMap fun pt => (railsOf t).filterMap (railRowOf pt.1 pt.2.comps) := rfl

/-! ### permutations of rail reports up to `Equiv` -/

/-- `Y` is `X` rearranged, row by row up to `RailRow.Equiv` -/
def RailPerm (X Y : List (RailRow α)) : Prop := ∃ m, List.Forall₂ RailRow.Equiv X m ∧ m.Perm Y

theorem forall₂_equiv_refl : ∀ X : List (RailRow α), List.Forall₂ RailRow.Equiv X X
  | [] => List.Forall₂.nil
  | a :: t => List.Forall₂.cons (RailRow.Equiv.refl a) (forall₂_equiv_refl t)

theorem forall₂_equiv_symm {X Y : List (RailRow α)} (h : List.Forall₂ RailRow.Equiv X Y) :
    List.Forall₂ RailRow.Equiv Y X := by
  induction h with
  | nil => exact List.Forall₂.nil
  | cons hab _ ih => exact List.Forall₂.cons hab.symm ih

theorem forall₂_equiv_trans {X Y Z : List (RailRow α)} (h : List.Forall₂ RailRow.Equiv X Y)
    (g : List.Forall₂ RailRow.Equiv Y Z) : List.Forall₂ RailRow.Equiv X Z := by
  induction h generalizing Z with
  | nil => cases g; exact List.Forall₂.nil
  | cons hab _ ih =>
    cases g with
    | cons hbc g' => exact List.Forall₂.cons (hab.trans hbc) (ih g')

theorem forall₂_equiv_append {X Y X' Y' : List (RailRow α)} (h : List.Forall₂ RailRow.Equiv X Y)
    (g : List.Forall₂ RailRow.Equiv X' Y') : List.Forall₂ RailRow.Equiv (X ++ X') (Y ++ Y') := by
  induction h with
  | nil => exact g
  | cons hab _ ih => exact List.Forall₂.cons hab ih

theorem RailPerm.refl (X : List (RailRow α)) : RailPerm X X := ⟨X, forall₂_equiv_refl X, List.Perm.refl X⟩

theorem RailPerm.of_perm {X Y : List (RailRow α)} (h : X.Perm Y) : RailPerm X Y := ⟨X, forall₂_equiv_refl X, h⟩

theorem RailPerm.of_forall₂ {X Y : List (RailRow α)} (h : List.Forall₂ RailRow.Equiv X Y) : RailPerm X Y :=
  ⟨Y, h, List.Perm.refl Y⟩

/-- the two factors commute: a permutation followed by a rowwise `Equiv` is a rowwise `Equiv` followed by a
    permutation -/
theorem RailPerm.of_perm_forall₂ {X Y Z : List (RailRow α)} (h : X.Perm Y) (g : List.Forall₂ RailRow.Equiv Y Z) :
    RailPerm X Z := by
  obtain ⟨m, hm, hp⟩ := List.perm_comp_forall₂ h g
  exact ⟨m, hm, hp⟩

theorem RailPerm.symm {X Y : List (RailRow α)} (h : RailPerm X Y) : RailPerm Y X := by
  obtain ⟨m, hm, hp⟩ := h
  exact RailPerm.of_perm_forall₂ hp.symm (forall₂_equiv_symm hm)

theorem RailPerm.trans {X Y Z : List (RailRow α)} (h : RailPerm X Y) (g : RailPerm Y Z) : RailPerm X Z := by
  obtain ⟨m, hm, hp⟩ := h
  obtain ⟨k, hk, hq⟩ := g
  obtain ⟨j, hj, hr⟩ := List.perm_comp_forall₂ hp hk
  exact ⟨j, forall₂_equiv_trans hm hj, hr.trans hq⟩

theorem RailPerm.append {X Y X' Y' : List (RailRow α)} (h : RailPerm X Y) (g : RailPerm X' Y') :
    RailPerm (X ++ X') (Y ++ Y') := by
  obtain ⟨m, hm, hp⟩ := h
  obtain ⟨k, hk, hq⟩ := g
  exact ⟨m ++ k, forall₂_equiv_append hm hk, hp.append hq⟩

theorem RailPerm.length_eq {X Y : List (RailRow α)} (h : RailPerm X Y) : X.length = Y.length := by
  obtain ⟨m, hm, hp⟩ := h
  rw [hm.length_eq, hp.length_eq]

theorem forall₂_mem_left {X Y : List (RailRow α)} (h : List.Forall₂ RailRow.Equiv X Y) :
    ∀ x ∈ X, ∃ y ∈ Y, RailRow.Equiv x y := by
  induction h with
  | nil => intro x hx; cases hx
  | cons hab _ ih =>
    intro x hx
    rcases List.mem_cons.mp hx with rfl | hx
    · exact ⟨_, by simp, hab⟩
    · obtain ⟨y, hy, hxy⟩ := ih x hx
      exact ⟨y, by simp [hy], hxy⟩

/-- every row of the one report has its counterpart in the other … -/
theorem RailPerm.mem_left {X Y : List (RailRow α)} (h : RailPerm X Y) :
    ∀ x ∈ X, ∃ y ∈ Y, RailRow.Equiv x y := by
  obtain ⟨m, hm, hp⟩ := h
  intro x hx
  obtain ⟨y, hy, hxy⟩ := forall₂_mem_left hm x hx
  exact ⟨y, hp.mem_iff.mp hy, hxy⟩

/-- … and vice versa -/
theorem RailPerm.mem_right {X Y : List (RailRow α)} (h : RailPerm X Y) :
    ∀ y ∈ Y, ∃ x ∈ X, RailRow.Equiv x y := by
  intro y hy
  obtain ⟨x, hx, hyx⟩ := h.symm.mem_left y hy
  exact ⟨x, hx, hyx.symm⟩

/-! ### the report of a permuted table -/

/-- all rows of a phase fed from the same named rail show the same Vin -/
def VinUniform (comps : List (Row α)) : Prop :=
  ∀ a ∈ comps, ∀ b ∈ comps, a.railIn = b.railIn → a.railIn ≠ "" → a.vin = b.vin

/-- … in every phase of the table -/
def RailVinUniform (T : Table α) : Prop := ∀ pt ∈ T.phases, VinUniform pt.2.comps

theorem VinUniform.perm {c c' : List (Row α)} (hp : c'.Perm c) (h : VinUniform c) : VinUniform c' :=
  fun a ha b hb => h a (hp.mem_iff.mp ha) b (hp.mem_iff.mp hb)

/-- both absent, or both present and `Equiv` -/
def OptEquiv : Option (RailRow α) → Option (RailRow α) → Prop
  | none, none => True
  | some a, some b => RailRow.Equiv a b
  | _, _ => False

/-- **one rail row of a permuted phase**: the sums are equal, the warning sets are equal, and the voltage is equal
    because the members of a named rail all show the same Vin -/
theorem railRowOf_perm (ph : String) {c c' : List (Row α)} (hp : c'.Perm c) (hu : VinUniform c) {r : String}
    (hr : r ≠ "") : OptEquiv (railRowOf ph c r) (railRowOf ph c' r) := by
  have hperm : (c'.filter (·.railIn == r)).Perm (c.filter (·.railIn == r)) := hp.filter _
  unfold railRowOf
  simp only
  cases hrows : c.filter (·.railIn == r) with
  | nil =>
    rw [hrows] at hperm
    rw [List.perm_nil.mp hperm]
    simp [OptEquiv]
  | cons a t =>
    cases hrows' : c'.filter (·.railIn == r) with
    | nil => rw [hrows, hrows'] at hperm; exact absurd hperm.symm.length_eq (by simp)
    | cons b t' =>
      rw [hrows, hrows'] at hperm
      simp only [List.isEmpty_cons, Bool.false_eq_true, if_false, OptEquiv]
      have hpw := perm_optSum (hperm.map (·.pwr))
      have hlo := perm_optSum (hperm.map (·.loss))
      have hii := perm_optSum (hperm.map (·.iin))
      have ha : a ∈ c.filter (·.railIn == r) := by rw [hrows]; simp
      have hb : b ∈ c.filter (·.railIn == r) := by rw [hrows]; exact hperm.mem_iff.mp (by simp)
      have ha' := List.mem_filter.mp ha
      have hb' := List.mem_filter.mp hb
      have har : a.railIn = r := by simpa using ha'.2
      have hbr : b.railIn = r := by simpa using hb'.2
      have hvin : a.vin = b.vin := hu a ha'.1 b hb'.1 (har.trans hbr.symm) (har ▸ hr)
      refine ⟨rfl, rfl, ?_, hii.symm, hpw.symm, hlo.symm, ?_, ?_⟩
      · simp only [List.head?_cons, Option.bind_some, hvin]
      · simp only [hpw, hlo]
      · intro w
        simp only [List.mem_filter, List.mem_eraseDups, List.mem_map]
        constructor
        · rintro ⟨⟨row, hrow, rfl⟩, hw⟩; exact ⟨⟨row, hperm.mem_iff.mpr hrow, rfl⟩, hw⟩
        · rintro ⟨⟨row, hrow, rfl⟩, hw⟩; exact ⟨⟨row, hperm.mem_iff.mp hrow, rfl⟩, hw⟩

theorem filterMap_equiv (f g : String → Option (RailRow α)) : ∀ L : List String,
    (∀ r ∈ L, OptEquiv (f r) (g r)) → List.Forall₂ RailRow.Equiv (L.filterMap f) (L.filterMap g) := by
  intro L
  induction L with
  | nil => intro _; exact List.Forall₂.nil
  | cons r t ih =>
    intro h
    have h0 := h r (by simp)
    have ht := ih (fun x hx => h x (by simp [hx]))
    cases hf : f r <;> cases hg : g r <;> rw [hf, hg] at h0 <;>
      simp only [List.filterMap_cons, hf, hg, OptEquiv] at h0 ⊢
    · exact ht
    · exact List.Forall₂.cons h0 ht

/-- the phases of two tables correspond: same names in the same order, component rows up to their order -/
def PhasesPerm (P P' : List (String × PhaseTable α)) : Prop :=
  List.Forall₂ (fun p p' => p'.1 = p.1 ∧ p'.2.comps.Perm p.2.comps) P P'

theorem phasesPerm_rails {P P' : List (String × PhaseTable α)} (h : PhasesPerm P P') (x : String) :
    (∃ pt ∈ P, ∃ row ∈ pt.2.comps, row.railIn = x) ↔ (∃ pt ∈ P', ∃ row ∈ pt.2.comps, row.railIn = x) := by
  induction h with
  | nil => simp
  | cons hab _ ih =>
    simp only [List.mem_cons, exists_eq_or_imp]
    rw [ih]
    apply or_congr_left
    constructor
    · rintro ⟨row, hrow, hx⟩; exact ⟨row, hab.2.mem_iff.mpr hrow, hx⟩
    · rintro ⟨row, hrow, hx⟩; exact ⟨row, hab.2.mem_iff.mp hrow, hx⟩

theorem mem_railsOf (T : Table α) (x : String) :
    x ∈ railsOf T ↔ x ≠ "" ∧ ∃ pt ∈ T.phases, ∃ row ∈ pt.2.comps, row.railIn = x := by
  unfold railsOf
  simp only [List.mem_filter, List.mem_eraseDups, List.mem_map, List.mem_flatMap, bne_iff_ne, ne_eq]
  constructor
  · rintro ⟨⟨row, ⟨pt, hpt, hrow⟩, rfl⟩, hx⟩; exact ⟨hx, pt, hpt, row, hrow, rfl⟩
  · rintro ⟨hx, pt, hpt, row, hrow, rfl⟩; exact ⟨⟨row, ⟨pt, hpt, hrow⟩, rfl⟩, hx⟩

theorem railsOf_nodup (T : Table α) : (railsOf T).Nodup :=
  (nodup_eraseDups _).sublist List.filter_sublist

/-- the rails are listed in the order of their first occurrence among the rows — for a permuted table: the same
    rails in another order -/
theorem railsOf_perm {T T' : Table α} (h : PhasesPerm T.phases T'.phases) : (railsOf T').Perm (railsOf T) := by
  rw [List.perm_ext_iff_of_nodup (railsOf_nodup T') (railsOf_nodup T)]
  intro x
  rw [mem_railsOf, mem_railsOf, phasesPerm_rails h x]

theorem flatMap_railPerm {L L' : List String} (hL : L'.Perm L) (hne : ∀ r ∈ L, r ≠ "") :
    ∀ {P P' : List (String × PhaseTable α)}, PhasesPerm P P' → (∀ pt ∈ P, VinUniform pt.2.comps) →
      RailPerm (P.flatMap fun pt => L.filterMap (railRowOf pt.1 pt.2.comps))
        (P'.flatMap fun pt => L'.filterMap (railRowOf pt.1 pt.2.comps)) := by
  intro P P' h
  induction h with
  | nil => intro _; exact RailPerm.refl _
  | @cons p p' P P' hab _ ih =>
    intro hu
    simp only [List.flatMap_cons]
    refine RailPerm.append ?_ (ih (fun pt hpt => hu pt (by simp [hpt])))
    refine ⟨L.filterMap (railRowOf p'.1 p'.2.comps), ?_, (hL.filterMap _).symm⟩
    apply filterMap_equiv
    intro r hr
    rw [hab.1]
    exact railRowOf_perm p.1 hab.2 (hu p (by simp)) (hne r hr)

/-- **`rail_rep()` of a permuted table.**  Two tables with the same phases in the same order whose component rows are,
    phase by phase, permutations of each other have the same rail report: the same rows up to their order (the order
    of first occurrence of each rail among the component rows) and, inside a row, up to the order of the distinct
    warning texts.  `RailVinUniform`: the members of a named rail all show the same Vin (`rail_members_same_vin`);
    without it the reported voltage — the Vin of the FIRST member — depends on the row order. -/
theorem railRep_perm_congr {T T' : Table α} (h : PhasesPerm T.phases T'.phases) (hu : RailVinUniform T) :
    RailPerm (railRep T) (railRep T') := by
  rw [railRep_eq, railRep_eq]
  exact flatMap_railPerm (railsOf_perm h) (fun r hr => ((mem_railsOf T r).mp hr).1) h hu

/-! ### the members of a named rail show the same Vin -/

/-- no two live nodes carry the same (non-empty) output rail name (`_chk_name`: "Rail name … is already used!") -/
def RailsUnique (s : SSys α) : Prop :=
  ∀ n m nd md, s.node? n = some nd → s.node? m = some md → nd.rail = md.rail → nd.rail ≠ "" → n = m

variable {s : SSys α} {v i : Vec α} {st : St}

theorem selOf_mem {nd : SNode α} {n p : Nat} (hp : selOf nd n v st = some p) : p ∈ nd.parents := by
  unfold selOf at hp
  by_cases hroot : nd.parents.isEmpty = true
  · simp [hroot] at hp
  · simp only [hroot, if_false, Bool.false_eq_true] at hp
    have hhead : ∀ q, nd.parents.head? = some q → q ∈ nd.parents := fun q hq => List.mem_of_mem_head? hq
    cases hpi : nd.comp.priInp (nd.parents.map (sget st)) (nd.parents.map (vget v)) with
    | none => rw [hpi] at hp; exact hhead p hp
    | some k =>
      rw [hpi] at hp
      simp only at hp
      by_cases hl : nd.parents.length > 1
      · have hk : k < nd.parents.length := by
          simpa using priInp_lt _ _ _ k hpi (by simpa using hl)
        simp only [hl, if_true, List.getD_eq_getElem?_getD, List.getElem?_eq_getElem hk,
          Option.getD_some, Option.some.injEq] at hp
        rw [← hp]; exact List.getElem_mem hk
      · simp only [hl, if_false] at hp; exact hhead p hp

/-- the parent a row names ("Parent", hence "Rail in") is the parent whose voltage it shows ("Vin") -/
theorem sel_pn {n : Nat} {nd : SNode α} (hn : s.node? n = some nd) (hne : nd.parents ≠ []) :
    ∃ p ∈ nd.parents, selOf nd n v st = some p ∧ pnOf s nd n v st = s.nameOf p := by
  have hroot : nd.parents.isEmpty = false := by
    cases hpp : nd.parents with
    | nil => exact absurd hpp hne
    | cons _ _ => rfl
  by_cases hm : muxSelOf nd n v st = true
  · obtain ⟨p, hp⟩ := muxSelOf_sel hm
    refine ⟨p, selOf_mem hp, hp, ?_⟩
    unfold pnOf
    simp only [hroot, Bool.false_eq_true, if_false, hm, if_true, hp, Option.getD_some]
  · cases hpp : nd.parents with
    | nil => exact absurd hpp hne
    | cons p rest =>
      refine ⟨p, by simp, ?_, ?_⟩
      · unfold muxSelOf at hm
        unfold selOf
        simp only [hroot, Bool.false_eq_true, if_false, Bool.not_false, Bool.true_and, Bool.and_eq_true,
          decide_eq_true_eq, not_and, Bool.not_eq_true, Option.isSome_eq_false_iff, Option.isNone_iff_eq_none] at hm ⊢
        cases hpi : nd.comp.priInp (nd.parents.map (sget st)) (nd.parents.map (vget v)) with
        | none => simp [hpp]
        | some k =>
          simp only
          by_cases hl : nd.parents.length > 1
          · exact absurd (hm hl) (by rw [hpi]; simp)
          · have hl' : ¬ (p :: rest).length > 1 := hpp ▸ hl
            simp only [hpp, hl', if_false, List.head?_cons]
      · unfold pnOf
        simp only [hroot, Bool.false_eq_true, if_false, hm]
        unfold SSys.parentName
        simp only [hn, hpp]

/-- a row with a named "Rail in": the rail belongs to a live node, and the row's Vin is that node's voltage -/
theorem row_rail_vin (hpl : ∀ n nd, s.node? n = some nd → ∀ p ∈ nd.parents, ∃ pd, s.node? p = some pd)
    (hw : TableWF s) (ph : String) (ta : α) {n : Nat} {nd : SNode α} (hn : s.node? n = some nd) (d : String)
    (hr : (s.compRow ph ta v i st n d).1.railIn ≠ "") :
    ∃ p pd, s.node? p = some pd ∧ pd.rail = (s.compRow ph ta v i st n d).1.railIn ∧
      (s.compRow ph ta v i st n d).1.vin = some (vget v p) := by
  rw [compRow_eq s ph ta v i st hn] at hr ⊢
  simp only [mkRow] at hr ⊢
  by_cases hne : nd.parents = []
  · exfalso; apply hr
    unfold pnOf railInOf
    simp [hne]
  · obtain ⟨p, hp, hsel, hpn⟩ := sel_pn (v := v) (st := st) hn hne
    obtain ⟨pd, hpd⟩ := hpl n nd hn p hp
    have hname : pnOf s nd n v st = pd.comp.name := by rw [hpn]; simp only [SSys.nameOf, hpd]
    have hrail : railInOf s (pnOf s nd n v st) = pd.rail := by
      rw [hname] at hr ⊢
      unfold railInOf at hr ⊢
      by_cases he : (pd.comp.name != "") = true
      · simp only [he, if_true, find?_name hw hpd]
      · simp [he] at hr
    refine ⟨p, pd, hpd, hrail.symm, ?_⟩
    unfold viOf
    rw [hsel]

/-- **the members of a named rail all show the same Vin**: "Rail in" is the output rail of the parent the row names,
    Vin is that parent's output voltage, and a rail name belongs to one node -/
theorem rail_members_same_vin (htopo : ∀ n, n ∈ s.topo ↔ ∃ nd, s.node? n = some nd)
    (hpl : ∀ n nd, s.node? n = some nd → ∀ p ∈ nd.parents, ∃ pd, s.node? p = some pd)
    (hw : TableWF s) (hu : RailsUnique s) (ph : String) (ta : α) (v i : Vec α) (st : St) :
    VinUniform (s.compRows ph ta v i st) := by
  obtain ⟨D, hrows, _⟩ := compRows_spec htopo hw ph ta v i st
  rw [hrows]
  intro a ha b hb hab hne
  obtain ⟨n, hn, rfl⟩ := List.mem_map.mp ha
  obtain ⟨m, hm, rfl⟩ := List.mem_map.mp hb
  obtain ⟨nd, hnd⟩ := (htopo n).mp hn
  obtain ⟨md, hmd⟩ := (htopo m).mp hm
  obtain ⟨p, pd, hpd, hprail, hpv⟩ := row_rail_vin hpl hw ph ta hnd (startD s D n) hne
  obtain ⟨q, qd, hqd, hqrail, hqv⟩ := row_rail_vin hpl hw ph ta hmd (startD s D m) (hab ▸ hne)
  have : p = q := hu p q pd qd hpd hqd (by rw [hprail, hqrail, hab]) (by rw [hprail]; exact hne)
  rw [hpv, hqv, this]

/-- every table `solve()` returns has uniform rail voltages -/
theorem solve_railVinUniform (htopo : ∀ n, n ∈ s.topo ↔ ∃ nd, s.node? n = some nd)
    (hpl : ∀ n nd, s.node? n = some nd → ∀ p ∈ nd.parents, ∃ pd, s.node? p = some pd)
    (hw : TableWF s) (hu : RailsUnique s) (cfg : Cfg α) (pa : String) (ta : α) (T : Table α)
    (hT : s.solve cfg pa ta = .ok T) : RailVinUniform T := by
  rw [solve_eq] at hT
  cases hpl' : phaseList s.phases pa with
  | error e => rw [hpl'] at hT; cases hT
  | ok pl =>
    rw [hpl'] at hT
    simp only at hT
    cases hm : pl.mapM (phaseStep s cfg) with
    | error e => rw [hm] at hT; cases hT
    | ok outs =>
      rw [hm] at hT
      simp only [Except.ok.injEq] at hT
      subst hT
      intro pt hpt
      unfold SSys.assemble at hpt
      simp only at hpt
      obtain ⟨⟨ph, v, i, st⟩, _, rfl⟩ := List.mem_map.mp hpt
      exact rail_members_same_vin htopo hpl hw hu ph ta v i st

/-! ### `rail_rep()` commutes with a renumbering of the nodes -/

theorem phasesPerm_of_ptrel {P P' : List (String × PhaseTable α)}
    (h : List.Forall₂ (fun p p' => p'.1 = p.1 ∧ PTRel p.2 p'.2) P P') : PhasesPerm P P' :=
  h.imp fun _ _ hab => ⟨hab.1, hab.2.1⟩

/-- **`rail_rep()` commutes with the renumbering.**  If `solve()` succeeds on `s` it succeeds on `s'`, and the rail
    report of `s'` consists of the rows of the rail report of `s` — up to their order and, inside a row, the order of
    the distinct warning texts.  Every number (voltage, current, power, loss, efficiency) is EQUAL. -/
theorem rail_rep_renumber {σ : Nat → Nat} {s s' : SSys α} (h : Iso σ s s') (hw : TableWF s) (hw' : TableWF s')
    (hu : RailsUnique s) (cfg : Cfg α) (hatol : 0 ≤ cfg.atol) (pa : String) (ta : α) (T : Table α)
    (hT : s.solve cfg pa ta = .ok T) :
    ∃ T', s'.solve cfg pa ta = .ok T' ∧ RailPerm (railRep T) (railRep T') := by
  obtain ⟨T', hT', hrows, _⟩ := solve_renumber h hw hw' cfg hatol pa ta T hT
  exact ⟨T', hT', railRep_perm_congr (phasesPerm_of_ptrel hrows)
    (solve_railVinUniform h.topo h.parentsLive hw hu cfg pa ta T hT)⟩

/-- the same, spelled out without `RailPerm`: equally many rows, and each row of either report has an `Equiv` row
    in the other -/
theorem rail_rep_renumber_rows {σ : Nat → Nat} {s s' : SSys α} (h : Iso σ s s') (hw : TableWF s) (hw' : TableWF s')
    (hu : RailsUnique s) (cfg : Cfg α) (hatol : 0 ≤ cfg.atol) (pa : String) (ta : α) (T : Table α)
    (hT : s.solve cfg pa ta = .ok T) :
    ∃ T', s'.solve cfg pa ta = .ok T' ∧ (railRep T').length = (railRep T).length ∧
      (∀ r ∈ railRep T, ∃ r' ∈ railRep T', RailRow.Equiv r r') ∧
      (∀ r' ∈ railRep T', ∃ r ∈ railRep T, RailRow.Equiv r r') := by
  obtain ⟨T', hT', hp⟩ := rail_rep_renumber h hw hw' hu cfg hatol pa ta T hT
  exact ⟨T', hT', hp.length_eq.symm, hp.mem_left, hp.mem_right⟩

/-- rail names are unique under the renumbering as well -/
theorem RailsUnique.iso {σ : Nat → Nat} {s s' : SSys α} (h : Iso σ s s') (hu : RailsUnique s) : RailsUnique s' := by
  intro n m nd md hn hm he hne
  obtain ⟨n0, nd0, hn0, rfl⟩ := h.surj n nd hn
  obtain ⟨m0, md0, hm0, rfl⟩ := h.surj m md hm
  obtain ⟨x, hx, hrx⟩ := h.node n0 nd0 hn0
  obtain ⟨y, hy, hry⟩ := h.node m0 md0 hm0
  rw [hn] at hx; cases hx
  rw [hm] at hy; cases hy
  rw [hrx.rail, hry.rail] at he
  rw [hrx.rail] at hne
  rw [hu n0 m0 nd0 md0 hn0 hm0 he hne]

/-! ### two histories with the same final structure -/

/-- the solver's view of a legal, well-formed state has unique rail names (C14: `rails` values are distinct) -/
theorem toSSys_railsUnique {s : Sys (Comp α) α} (hl : Legal s) (hw : s.abs.WF) (topo : List Nat) :
    RailsUnique (s.toSSys topo) := by
  have hs := hl.sane
  have hr := wfr_of_wf_abs hs hw
  intro n m nd md hn hm he hne
  rw [toSSys_node?] at hn hm
  obtain ⟨c, hc, rfl⟩ := Option.map_eq_some_iff.mp hn
  obtain ⟨d, hd, rfl⟩ := Option.map_eq_some_iff.mp hm
  simp only [Sys.mkNode] at he hne
  cases h1 : dget s.rails c.name with
  | none => rw [h1] at hne; simp at hne
  | some r =>
    cases h2 : dget s.rails d.name with
    | none => rw [h1, h2] at he; rw [h1] at hne; simp at he hne; exact absurd he hne
    | some r' =>
      rw [h1, h2] at he
      rw [h1] at hne
      simp only [Option.getD_some] at he hne
      subst he
      have hname : c.name = d.name := rail_owner_unique hr hne (dget_some_mem h1) (dget_some_mem h2)
      have := name_inj hr.names_nodup (mem_of_payload? hc) (mem_of_payload? hd) hname
      exact congrArg Prod.fst this

/-- **C16 for `rail_rep()`**: the same final structure gives the same rail report (rows up to their order) -/
theorem same_structure_same_rail_rep {s₁ s₂ : Sys (Comp α) α} (hl₁ : Legal s₁) (hw₁ : s₁.abs.WF) (hl₂ : Legal s₂)
    (hw₂ : s₂.abs.WF) (hsame : s₁.abs.Same s₂.abs) {topo₁ topo₂ : List Nat} (ht₁ : ValidTopo s₁ topo₁)
    (ht₂ : ValidTopo s₂ topo₂) (cfg : Cfg α) (hatol : 0 ≤ cfg.atol) (ph : String) (ta : α) (T₁ : Table α)
    (h : (s₁.toSSys topo₁).solve cfg ph ta = .ok T₁) :
    ∃ T₂, (s₂.toSSys topo₂).solve cfg ph ta = .ok T₂ ∧ RailPerm (railRep T₁) (railRep T₂) :=
  rail_rep_renumber (toSSys_iso hl₁ hw₁ hl₂ hw₂ hsame ht₁ ht₂) (toSSys_tableWF hl₁ hw₁ ht₁)
    (toSSys_tableWF hl₂ hw₂ ht₂) (toSSys_railsUnique hl₁ hw₁ topo₁) cfg hatol ph ta T₁ h

/-- **for histories**: two systems, each constructed and then edited by any sequence of calls (accepted or rejected),
    that end in the same structure give the same `rail_rep()`.  No well-formedness hypothesis is left: uniqueness of
    the rail names is part of C14's invariant. -/
theorem histories_same_rail_rep {name₁ name₂ : String} {src₁ src₂ : Comp α} {g₁ r₁ g₂ r₂ : String}
    {a b : Sys (Comp α) α} (ha : Sys.init name₁ src₁ g₁ r₁ = some a) (hb : Sys.init name₂ src₂ g₂ r₂ = some b)
    (h₁ h₂ : List (Op (Comp α) α)) (hsame : (a.run h₁).abs.Same (b.run h₂).abs) {topo₁ topo₂ : List Nat}
    (ht₁ : ValidTopo (a.run h₁) topo₁) (ht₂ : ValidTopo (b.run h₂) topo₂) (cfg : Cfg α) (hatol : 0 ≤ cfg.atol)
    (ph : String) (ta : α) (T₁ : Table α) (h : ((a.run h₁).toSSys topo₁).solve cfg ph ta = .ok T₁) :
    ∃ T₂, ((b.run h₂).toSSys topo₂).solve cfg ph ta = .ok T₂ ∧ RailPerm (railRep T₁) (railRep T₂) :=
  same_structure_same_rail_rep (C14.legal_run (C14.legal_init ha) h₁) (C14.wf_always ha h₁)
    (C14.legal_run (C14.legal_init hb) h₂) (C14.wf_always hb h₂) hsame ht₁ ht₂ cfg hatol ph ta T₁ h


/-! ## Non-vacuity -/

/-! ### (c) hand-made tables: `railRep_perm_congr`, and why `RailVinUniform` is needed -/

def rwA : Row ℚ := { name := "a", railIn := "X", vin := some 3, iin := some 1, pwr := some 3, loss := some 0, warn := "w1" }
def rwB : Row ℚ := { name := "b", railIn := "X", vin := some 3, iin := some 2, pwr := some 6, loss := some 1, warn := "w2" }
/-- like `rwB` but showing another Vin: impossible in a `solve()` table (`rail_members_same_vin`) -/
def rwB' : Row ℚ := { name := "b", railIn := "X", vin := some 5, iin := some 2, pwr := some 6, loss := some 1, warn := "w2" }
def tabOf (rows : List (Row ℚ)) : Table ℚ := ⟨[("", ⟨rows, [], { name := "System total" }, 1⟩)], none⟩

theorem exT_phases : PhasesPerm (tabOf [rwA, rwB]).phases (tabOf [rwB, rwA]).phases :=
  List.Forall₂.cons ⟨rfl, List.Perm.swap _ _ _⟩ List.Forall₂.nil

theorem exT_uniform : RailVinUniform (tabOf [rwA, rwB]) := by
  intro pt hpt
  simp only [tabOf, List.mem_singleton] at hpt
  subst hpt
  intro a ha b hb _ _
  simp only [List.mem_cons, List.not_mem_nil, or_false] at ha hb
  rcases ha with rfl | rfl <;> rcases hb with rfl | rfl <;> rfl

/-- `railRep_perm_congr` applies; the two reports are NOT equal as lists (the warning texts come in the other order),
    which is why the statement is up to `Equiv` -/
example : RailPerm (railRep (tabOf [rwA, rwB])) (railRep (tabOf [rwB, rwA])) ∧
    (railRep (tabOf [rwA, rwB])).map (fun r => (r.volt, r.curr, r.pwr, r.loss, r.eff)) = [(3, 3, 9, 1, 90)] ∧
    (railRep (tabOf [rwB, rwA])).map (fun r => (r.volt, r.curr, r.pwr, r.loss, r.eff)) = [(3, 3, 9, 1, 90)] ∧
    (railRep (tabOf [rwA, rwB])).map (fun r => (r.rail, r.warn)) = [("X", ["w1", "w2"])] ∧
    (railRep (tabOf [rwB, rwA])).map (fun r => (r.rail, r.warn)) = [("X", ["w2", "w1"])] :=
  ⟨railRep_perm_congr exT_phases exT_uniform, by decide +kernel, by decide +kernel, by decide +kernel,
   by decide +kernel⟩

/-- without `RailVinUniform` the statement fails: the voltage is the Vin of the first member -/
theorem railRep_perm_congr_needs_uniform :
    ¬ ∀ T T' : Table ℚ, PhasesPerm T.phases T'.phases → RailPerm (railRep T) (railRep T') := by
  intro h
  have hp : PhasesPerm (tabOf [rwA, rwB']).phases (tabOf [rwB', rwA]).phases :=
    List.Forall₂.cons ⟨rfl, List.Perm.swap _ _ _⟩ List.Forall₂.nil
  have h1 : (railRep (tabOf [rwA, rwB'])).map (·.volt) = [3] := by decide +kernel
  have h2 : (railRep (tabOf [rwB', rwA])).map (·.volt) = [5] := by decide +kernel
  have hrp := h _ _ hp
  cases hX : railRep (tabOf [rwA, rwB']) with
  | nil => rw [hX] at h1; simp at h1
  | cons x t =>
    obtain ⟨y, hy, hxy⟩ := hrp.mem_left x (by rw [hX]; simp)
    have hx3 : x.volt = 3 := by rw [hX] at h1; simp at h1; exact h1.1
    have hy5 : y.volt = 5 := by
      have : y.volt ∈ (railRep (tabOf [rwB', rwA])).map (·.volt) := List.mem_map.mpr ⟨y, hy, rfl⟩
      rw [h2] at this; simpa using this
    have := hxy.2.2.1
    rw [hx3, hy5] at this
    norm_num at this

/-! ### (a) the pair `exA` / `exB` of `Props/C16Renumber` (rail "3V" on the converter) -/

theorem exA_railsUnique : RailsUnique exA := by
  intro n m nd md hn hm he hne
  rcases exA_cases hn with ⟨rfl, rfl⟩ | ⟨rfl, rfl⟩ | ⟨rfl, rfl⟩ | ⟨rfl, rfl⟩ <;>
  rcases exA_cases hm with ⟨rfl, rfl⟩ | ⟨rfl, rfl⟩ | ⟨rfl, rfl⟩ | ⟨rfl, rfl⟩ <;>
  first | rfl | (simp [nA0, nA1, nA2, nA3] at he; done) | (simp [nA0, nA1, nA2, nA3] at hne)

/-- `rail_members_same_vin` on the solved `exA`, phase "run": the two loads on rail "3V" show the same Vin -/
example : ∃ r, exA.solvePhase exCfg "run" = .ok r ∧ VinUniform (exA.compRows "run" 25 r.v r.i r.st) := by
  obtain ⟨r, hr⟩ := exA_ok
  exact ⟨r, hr, rail_members_same_vin exIso.topo exIso.parentsLive exA_wf exA_railsUnique "run" 25 r.v r.i r.st⟩

theorem exA_solve_ok : ∃ T, exA.solve exCfg "" 25 = .ok T := by
  cases hx : exA.solve exCfg "" 25 with
  | ok T => exact ⟨T, rfl⟩
  | error e =>
    have : ((exA.solve exCfg "" 25).toOption.map (fun T => T.phases.length)).isSome = true := by decide +kernel
    rw [hx] at this; cases this

/-- `rail_rep_renumber` on the pair: both rail reports exist and agree; the members of the rail are listed in
    opposite orders in the two tables (the "first member" whose Vin is reported is a different component) -/
example : ∃ T T', exA.solve exCfg "" 25 = .ok T ∧ exB.solve exCfg "" 25 = .ok T' ∧
    RailPerm (railRep T) (railRep T') ∧ (railRep T').length = (railRep T).length ∧
    (railRep T).map (fun r => (r.phase, r.rail, r.volt)) = [("run", "3V", 3), ("sleep", "3V", 3)] ∧
    T.phases.map (fun p => (p.2.comps.filter (·.railIn == "3V")).map (·.name)) = [["I", "R"], ["I", "R"]] ∧
    T'.phases.map (fun p => (p.2.comps.filter (·.railIn == "3V")).map (·.name)) = [["R", "I"], ["R", "I"]] := by
  obtain ⟨T, hT⟩ := exA_solve_ok
  obtain ⟨T', hT', hp⟩ :=
    rail_rep_renumber exIso exA_wf exB_wf exA_railsUnique exCfg (by norm_num [exCfg]) "" 25 T hT
  have e1 : (exA.solve exCfg "" 25).toOption.map (fun T => ((railRep T).map (fun r => (r.phase, r.rail, r.volt)),
        T.phases.map (fun p => (p.2.comps.filter (·.railIn == "3V")).map (·.name))))
      = some ([("run", "3V", 3), ("sleep", "3V", 3)], [["I", "R"], ["I", "R"]]) := by decide +kernel
  have e2 : (exB.solve exCfg "" 25).toOption.map
        (fun T => T.phases.map (fun p => (p.2.comps.filter (·.railIn == "3V")).map (·.name)))
      = some [["R", "I"], ["R", "I"]] := by decide +kernel
  rw [hT] at e1
  rw [hT'] at e2
  simp only [Except.toOption, Option.map_some, Option.some.injEq, Prod.mk.injEq] at e1 e2
  exact ⟨T, T', hT, hT', hp, hp.length_eq.symm, e1.1, e1.2, e2⟩

/-! ### (b) two histories with rails on three components -/

/-- `System("s", Source("S", vo=5, rs=0.1), rail="VS")` -/
def s0r : Sys (Comp ℚ) ℚ :=
  { name := "s", comps := [(0, liftC (C14.src "S"))], edges := [], free := [], next := 1, nodes := [("S", 0)],
    phaseConf := [("S", .table [])], groups := [("S", "")], rails := [("S", "VS")], pnames := [(0, [])], phases := [] }

theorem s0r_init : Sys.init "s" (liftC (C14.src "S")) "" "VS" = some s0r := rfl

/-- S —VS→ {B —VB→ L, C —VC→ K} built directly (C added under the rail name "VS", K under "VC") -/
def hRA : List (Op (Comp ℚ) ℚ) :=
  [.addComp (.one "S") (liftC (C14.conv "B")) "" "VB", .addComp (.one "B") (liftC (C14.pload "L")) "" "",
   .addComp (.one "VS") (liftC (C14.conv "C")) "" "VC", .addComp (.one "VC") (liftC (C14.pload "K")) "" "",
   exPhases, exKconf]

/-- … and by a detour: a subtree X —VB→ Y that is deleted, its node indices and its rail name "VB" re-used, the
    converter B added without a rail under another name and then renamed and given the rail -/
def hRB : List (Op (Comp ℚ) ℚ) :=
  [.addComp (.one "S") (liftC (C14.conv "X")) "" "VB", .addComp (.one "VB") (liftC (C14.pload "Y")) "" "",
   .addComp (.one "S") (liftC (C14.conv "C")) "" "VC", .delComp "X" true,
   .addComp (.one "VC") (liftC (C14.pload "K")) "" "", exKconf,
   .addComp (.one "S") (liftC (C14.conv "B0")) "" "", .addComp (.one "B0") (liftC (C14.pload "L")) "" "",
   .changeComp "B0" (liftC (C14.conv "B")) "" "VB", exPhases]

/-- the two final states differ in numbering and registry order … -/
example :
    (s0r.run hRA).comps.map (fun p => (p.1, p.2.name)) = [(0, "S"), (1, "B"), (2, "L"), (3, "C"), (4, "K")] ∧
    (s0r.run hRB).comps.map (fun p => (p.1, p.2.name)) = [(0, "S"), (3, "C"), (1, "K"), (2, "B"), (4, "L")] ∧
    (s0r.run hRA).rails = [("S", "VS"), ("B", "VB"), ("L", ""), ("C", "VC"), ("K", "")] ∧
    (s0r.run hRB).rails = [("S", "VS"), ("C", "VC"), ("K", ""), ("L", ""), ("B", "VB")] := by
  decide +kernel

/-- … but have the same structure -/
theorem exR_same : (s0r.run hRA).abs.Same (s0r.run hRB).abs :=
  ⟨sub_of_subB (by decide +kernel), sub_of_subB (by decide +kernel), by decide +kernel, by decide +kernel,
   by decide +kernel, by decide +kernel⟩

theorem exR_topoA : ValidTopo (s0r.run hRA) [0, 1, 2, 3, 4] := validTopo_of_check (by decide +kernel)
theorem exR_topoB : ValidTopo (s0r.run hRB) [0, 3, 1, 2, 4] := validTopo_of_check (by decide +kernel)

/-- the hypotheses of `rail_rep_renumber` hold for the pair (they are theorems about reachable states) -/
example : RailsUnique ((s0r.run hRA).toSSys [0, 1, 2, 3, 4]) :=
  toSSys_railsUnique (C14.legal_run (C14.legal_init s0r_init) hRA) (C14.wf_always s0r_init hRA) _

theorem exR_solves : ∃ T, ((s0r.run hRA).toSSys [0, 1, 2, 3, 4]).solve exCfg "" 25 = .ok T ∧
    (railRep T).map (fun r => (r.phase, r.rail)) =
      [("run", "VS"), ("run", "VB"), ("run", "VC"), ("sleep", "VS"), ("sleep", "VB"), ("sleep", "VC")] := by
  cases hx : ((s0r.run hRA).toSSys [0, 1, 2, 3, 4]).solve exCfg "" 25 with
  | ok T =>
    have : (((s0r.run hRA).toSSys [0, 1, 2, 3, 4]).solve exCfg "" 25).toOption.map
        (fun T => (railRep T).map (fun r => (r.phase, r.rail))) =
        some [("run", "VS"), ("run", "VB"), ("run", "VC"), ("sleep", "VS"), ("sleep", "VB"), ("sleep", "VC")] := by
      decide +kernel
    rw [hx] at this
    simp only [Except.toOption, Option.map_some, Option.some.injEq] at this
    exact ⟨T, rfl, this⟩
  | error e =>
    have : ((((s0r.run hRA).toSSys [0, 1, 2, 3, 4]).solve exCfg "" 25).toOption.map
        (fun T => T.phases.length)).isSome = true := by decide +kernel
    rw [hx] at this; cases this

/-- `histories_same_rail_rep` on the pair: `rail_rep()` succeeds on both, six rows each (three rails, two phases), the
    same rows — in DIFFERENT orders: the statement is about permutations for a reason -/
example : ∃ T₁ T₂, ((s0r.run hRA).toSSys [0, 1, 2, 3, 4]).solve exCfg "" 25 = .ok T₁ ∧
    ((s0r.run hRB).toSSys [0, 3, 1, 2, 4]).solve exCfg "" 25 = .ok T₂ ∧
    RailPerm (railRep T₁) (railRep T₂) ∧
    (railRep T₁).map (fun r => (r.phase, r.rail)) =
      [("run", "VS"), ("run", "VB"), ("run", "VC"), ("sleep", "VS"), ("sleep", "VB"), ("sleep", "VC")] ∧
    (railRep T₂).map (fun r => (r.phase, r.rail)) =
      [("run", "VS"), ("run", "VC"), ("run", "VB"), ("sleep", "VS"), ("sleep", "VC"), ("sleep", "VB")] := by
  obtain ⟨T₁, hT, hrows⟩ := exR_solves
  obtain ⟨T₂, hT₂, hp⟩ :=
    histories_same_rail_rep s0r_init s0r_init hRA hRB exR_same exR_topoA exR_topoB exCfg (by norm_num [exCfg]) "" 25 T₁ hT
  have e2 : (((s0r.run hRB).toSSys [0, 3, 1, 2, 4]).solve exCfg "" 25).toOption.map
      (fun T => (railRep T).map (fun r => (r.phase, r.rail))) =
      some [("run", "VS"), ("run", "VC"), ("run", "VB"), ("sleep", "VS"), ("sleep", "VC"), ("sleep", "VB")] := by
    decide +kernel
  rw [hT₂] at e2
  simp only [Except.toOption, Option.map_some, Option.some.injEq] at e2
  exact ⟨T₁, T₂, hT, hT₂, hp, hrows, e2⟩

/-- the numbers of a row, for the record (phase "run": the source rail feeds both converters) -/
example : (((s0r.run hRB).toSSys [0, 3, 1, 2, 4]).solve exCfg "run" 25).toOption.map
    (fun T => (railRep T).map fun r => (r.rail, r.curr, r.pwr, r.loss, r.eff)) =
    some [("VS", 7449701 / 44548712, 5 / 6, 1 / 12, 1000 / 11), ("VC", 1 / 12, 1 / 4, 0, 100),
          ("VB", 1 / 6, 1 / 2, 0, 100)] := by decide +kernel

end C16R
end SysLoss
