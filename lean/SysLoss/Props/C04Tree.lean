/-
  Props/C04Tree — C04 at tree level: everything below a dead element is dead, in the table and in what the
  solver returns.  (Extends Props/C04: per-kind laws, `dead_child`, `dead_chain`.)

  1. `Below s v d n` (inductive): `n` lies strictly below `d` through single-supply components (not Source,
     not PMux; one parent) and through PMuxes **all** of whose inputs are dead (`d`, below `d`, or otherwise at
     0 V) and at least one of whose inputs is `d` or below `d`.
       `dead_subtree`           : in a steady state (`Steady`, the hypothesis of `dead_chain`; no assumption on the
                                  flags) with `v d = 0`, every `n` below `d` has `v n = 0 ∧ i n = 0`.
       `steady_of_sweeps`, `dead_subtree_of_sweeps` : the same from `fwdProp v i st = ok (v, st')`,
                                  `backProp v i st = i` (no bound on `topo` needed).
  2. `dead_rows`               : the row `compRow` assembles for such an `n` has
                                  `vin = vout = iin = iout = pwr = loss = some 0`.  FULL: the node may be a PMux,
                                  and its children may be PMuxes with other, live inputs (`childShare_dead`:
                                  a mux child without live input draws 0 A, one with a live input has selected
                                  another parent, so its share is 0).  Structural hypothesis `ChildsOK s n`:
                                  every listed child that exists lists `n` among its parents, is in `topo`, and
                                  is not a Source (`childsOK_of_b`: executable check).
       `childCurr_dead`         : any node at 0 V (also `d` itself) has output current 0 in a steady state.
  3. `dead_after_sweeps`       : from ANY vectors, after one forward sweep a single-supply child `n` of a node
                                  `p` with `v p = 0` has `v' n = 0` and flag set, and after the next backward
                                  sweep (new voltages, old flags — as `_solve` calls it) draws 0 A if `v' p = 0`.
                                  (`fwd_dead_single`, `back_dead_single`: also when `p` is only *flagged* off.)
                                  The flag claim excludes loads unless `p` was flagged: a load's flag is a copy
                                  of its supply's old flag (`_solv_outp_volt` of `_Load` returns `pstate` flag);
                                  loads have no children, so nothing reads it.
       `loop_dead`, `dead_after_k_sweeps` : below a structurally dead element (`AlwaysDead`, e.g. a 0 V or
                                  phase-inactive Source: `alwaysDead_source`) the vectors returned by
                                  `SSys.loop` / `SSys.solveRaw` are exactly 0 V / 0 A for every single-supply node
                                  within `iters − 1` levels (`Depth`).  NOT covered: deeper nodes (the loop may
                                  stop on tolerance before the front arrives — with loose `vtol` it really
                                  does), and propagation through PMuxes in this iterated form.
-/
import SysLoss.Props.C04
import SysLoss.Props.C05
import SysLoss.Props.C16Sweep
import Mathlib.Algebra.Order.Ring.Rat
import Mathlib.Algebra.Field.Rat

set_option linter.unusedSectionVars false
set_option linter.unusedVariables false

namespace SysLoss
namespace C04
variable {α : Type} [Field α] [LinearOrder α] [IsStrictOrderedRing α]

/-! ### 0. Small facts about the model's accessors -/

theorem lt_hidx_of_node (s : SSys α) (n : Nat) (nd : SNode α) (h : s.node? n = some nd) : n < s.hidx := by
  unfold SSys.node? at h
  unfold SSys.hidx
  by_contra hlt
  have : s.nodes.getD n none = none := by
    simp [Array.getD_eq_getD_getElem?, Array.getElem?_eq_none (Nat.le_of_not_lt hlt)]
  rw [this] at h
  cases h

theorem sget_of_getD (st : St) (n : Nat) (b : Bool) (h : st.getD n [] = [b]) : sget st n = b := by
  unfold sget; rw [h]; rfl

theorem priInp_of_ne_mux (c : Comp α) (hm : c.kind ≠ .pmux) (off : List Bool) (vi : List α) :
    c.priInp off vi = some 0 := by
  unfold Comp.priInp
  cases hk : c.kind <;> simp_all

/-- `dead_input` with the flag of a load spelled out: the output flag is set for every non-load, and for
    a load exactly when its supply is flagged -/
theorem dead_input_flag (c : Comp α) (hs : c.kind ≠ .source) (hm : c.kind ≠ .pmux)
    (vi : List α) (io : α) (ph : PhaseCtx α) (off : List Bool)
    (hdead : vi.headD 0 = 0 ∨ off0 off = true) :
    ∃ b, c.solvOutpVolt vi io ph off = .ok (0, b) ∧ (c.kind.ctype ≠ .LOAD ∨ off0 off = true → b = true) := by
  unfold Comp.solvOutpVolt
  generalize vi.headD 0 = vi0 at *
  rcases hdead with h | h
  · subst h
    have hz : isZ (0 : α) = true := (isZ_iff _).mpr rfl
    cases hk : c.kind <;> simp_all [Kind.ctype]
  · cases hk : c.kind <;> simp_all [Kind.ctype]

/-! ### 1. The dead subtree -/

/-- `n` is a single-supply node (not a Source, not a PMux) that is swept and fed from `p` — the edge relation
    of `dead_chain` -/
def Single (s : SSys α) (n p : Nat) : Prop :=
  ∃ nd, n ∈ s.topo ∧ s.node? n = some nd ∧ nd.parents = [p] ∧ nd.comp.kind ≠ .source ∧ nd.comp.kind ≠ .pmux

/-- `Below s v d n`: `n` lies strictly below the dead node `d`.
    * `child` / `step`: a single-supply node whose one parent is `d`, resp. is itself below `d`;
    * `mux`: a PMux one of whose inputs (`q`) is `d` or below `d`, and **all** of whose inputs are dead:
      each is `d`, or below `d`, or otherwise at 0 V in `v` (written `p ≠ d → vget v p ≠ 0 → Below … p`
      so that the occurrence is strictly positive; `Below.mux_of_or` takes the disjunctive form). -/
inductive Below (s : SSys α) (v : Vec α) (d : Nat) : Nat → Prop
  | child {n : Nat} : Single s n d → Below s v d n
  | step {n p : Nat} : Single s n p → Below s v d p → Below s v d n
  | mux {n q : Nat} {nd : SNode α} : n ∈ s.topo → s.node? n = some nd → nd.comp.kind = .pmux →
      q ∈ nd.parents → (q ≠ d → Below s v d q) →
      (∀ p ∈ nd.parents, p ≠ d → vget v p ≠ 0 → Below s v d p) → Below s v d n

theorem Below.mux_of_or {s : SSys α} {v : Vec α} {d n q : Nat} {nd : SNode α}
    (hn : n ∈ s.topo) (hnode : s.node? n = some nd) (hk : nd.comp.kind = .pmux)
    (hq : q ∈ nd.parents) (hqd : q = d ∨ Below s v d q)
    (hall : ∀ p ∈ nd.parents, p = d ∨ Below s v d p ∨ vget v p = 0) : Below s v d n := by
  refine Below.mux hn hnode hk hq (fun h => ?_) (fun p hp h1 h2 => ?_)
  · rcases hqd with h' | h'
    · exact absurd h' h
    · exact h'
  · rcases hall p hp with h' | h' | h'
    · exact absurd h' h1
    · exact h'
    · exact absurd h' h2

/-- a PMux none of whose inputs carries a voltage is at 0 V and draws 0 A in every steady state -/
theorem dead_mux (s : SSys α) (phase : String) (v i : Vec α) (st : St)
    (hst : Steady s phase v i st) (n : Nat) (nd : SNode α)
    (hn : n ∈ s.topo) (hnode : s.node? n = some nd) (hk : nd.comp.kind = .pmux) (hne : nd.parents ≠ [])
    (hall : ∀ p ∈ nd.parents, vget v p = 0) :
    vget v n = 0 ∧ vget i n = 0 := by
  obtain ⟨b, hf⟩ := hst.1 n hn
  have hb := hst.2 n hn
  unfold SSys.fwdAt at hf
  unfold SSys.backAt at hb
  have hemp : nd.parents.isEmpty = false := by
    cases h : nd.parents with
    | nil => exact absurd h hne
    | cons a l => rfl
  simp only [hnode, SSys.lawArgs, hemp, Bool.false_eq_true, if_false] at hf hb
  have hnone : priInpAux (nd.parents.map (sget st)) (nd.parents.map (vget v)) 0 = none := by
    apply priInpAux_none_of_all_zero
    intro x hx
    obtain ⟨p, hp, rfl⟩ := List.mem_map.mp hx
    exact hall p hp
  obtain ⟨hv, hi⟩ := mux_no_live nd.comp hk (nd.parents.map (vget v))
    (if nd.childs.isEmpty then 0 else s.childCurr n i v st) (nd.pconf.ctx phase) (nd.parents.map (sget st)) hnone
  rw [hv] at hf
  simp only [Except.ok.injEq, Prod.mk.injEq] at hf
  exact ⟨hf.1.symm, by rw [← hb, hi]⟩

/-- **Dead subtree.**  In a steady state, if `d` is at 0 V then every node below `d` — through single-supply
    components and through PMuxes all of whose inputs are dead — is at 0 V and draws 0 A. -/
theorem dead_subtree (s : SSys α) (phase : String) (v i : Vec α) (st : St)
    (hst : Steady s phase v i st) (d : Nat) (hdead : vget v d = 0) :
    ∀ n, Below s v d n → vget v n = 0 ∧ vget i n = 0 := by
  intro n hb
  induction hb with
  | child hs =>
    obtain ⟨nd, hn, hnode, hpar, hsrc, hm⟩ := hs
    exact dead_child s phase v i st hst _ d nd hn hnode hpar hsrc hm hdead
  | step hs _ ih =>
    obtain ⟨nd, hn, hnode, hpar, hsrc, hm⟩ := hs
    exact dead_child s phase v i st hst _ _ nd hn hnode hpar hsrc hm ih.1
  | mux hn hnode hk hq _ _ _ ihall =>
    refine dead_mux s phase v i st hst _ _ hn hnode hk (fun e => by rw [e] at hq; cases hq) ?_
    intro p hp
    by_cases h1 : p = d
    · rw [h1]; exact hdead
    · by_contra h2
      exact h2 (ihall p hp h1 h2).1

/-- the fixed-point form of `Steady`: one forward sweep reproduces `v`, one backward sweep reproduces `i` -/
theorem steady_of_sweeps (s : SSys α) (phase : String) (v i : Vec α) (st st' : St)
    (hf : s.fwdProp phase v i st = .ok (v, st')) (hb : s.backProp phase v i st = i) :
    Steady s phase v i st := by
  obtain ⟨hsz, _, h3, _⟩ := C16.fwdProp_pointwise s phase v i st v st' hf
  obtain ⟨bsz, b2, _⟩ := C16.backProp_pointwise s phase v i st
  rw [hb] at bsz b2
  have outside : ∀ (w : Vec α) n, w.size = s.hidx → ¬ n < s.hidx → vget w n = 0 ∧ s.node? n = none := by
    intro w n hw hlt
    refine ⟨?_, ?_⟩
    · unfold vget
      simp [Array.getD_eq_getD_getElem?, Array.getElem?_eq_none (hw ▸ Nat.le_of_not_lt hlt)]
    · unfold SSys.node?
      simp [Array.getD_eq_getD_getElem?, Array.getElem?_eq_none (Nat.le_of_not_lt hlt)]
  refine ⟨fun n hn => ?_, fun n hn => ?_⟩
  · by_cases hlt : n < s.hidx
    · obtain ⟨x, b, e1, e2, _⟩ := h3 n hn hlt
      exact ⟨b, by rw [e1, e2]⟩
    · obtain ⟨e1, e2⟩ := outside v n hsz hlt
      exact ⟨false, by unfold SSys.fwdAt; rw [e2, e1]⟩
  · by_cases hlt : n < s.hidx
    · exact (b2 n hn hlt).symm
    · obtain ⟨e1, e2⟩ := outside i n bsz hlt
      unfold SSys.backAt; rw [e2, e1]

/-- `dead_subtree` for a fixed point of the solver's two sweeps -/
theorem dead_subtree_of_sweeps (s : SSys α) (phase : String) (v i : Vec α) (st st' : St)
    (hf : s.fwdProp phase v i st = .ok (v, st')) (hb : s.backProp phase v i st = i)
    (d : Nat) (hdead : vget v d = 0) :
    ∀ n, Below s v d n → vget v n = 0 ∧ vget i n = 0 :=
  dead_subtree s phase v i st (steady_of_sweeps s phase v i st st' hf hb) d hdead

/-! ### 2. The table rows of the dead subtree -/

/-- consistency of the child list of `n` with the parent lists (what `_rel_update` guarantees): every listed
    child that exists lists `n` among its parents, is swept, and is not a Source (a Source is never a child) -/
def ChildsOK (s : SSys α) (n : Nat) : Prop :=
  ∀ nd, s.node? n = some nd → ∀ c ∈ nd.childs, ∀ cd, s.node? c = some cd →
    n ∈ cd.parents ∧ c ∈ s.topo ∧ cd.comp.kind ≠ .source

/-- executable form of `ChildsOK` -/
def childsOKb {β : Type} (s : SSys β) (n : Nat) : Bool :=
  match s.node? n with
  | none => true
  | some nd => nd.childs.all fun c =>
    match s.node? c with
    | none => true
    | some cd => cd.parents.contains n && s.topo.contains c && (cd.comp.kind != .source)

theorem childsOK_of_b (s : SSys α) (n : Nat) (h : childsOKb s n = true) : ChildsOK s n := by
  intro nd hnd c hc cd hcd
  unfold childsOKb at h
  simp only [hnd, List.all_eq_true] at h
  have := h c hc
  simp only [hcd, Bool.and_eq_true, List.contains_iff_mem, bne_iff_ne, ne_eq] at this
  exact ⟨this.1.1, this.1.2, this.2⟩

/-- In a steady state a child of a node at 0 V contributes nothing to that node's output current: a
    single-supply child draws 0 A; a PMux child either has no live input (0 A) or has selected another
    input (its current is attributed there). -/
theorem childShare_dead (s : SSys α) (phase : String) (v i : Vec α) (st : St)
    (hst : Steady s phase v i st) (n c : Nat) (hn : vget v n = 0)
    (hc : ∀ cd, s.node? c = some cd → n ∈ cd.parents ∧ c ∈ s.topo ∧ cd.comp.kind ≠ .source) :
    s.childShare n i v st c = 0 := by
  unfold SSys.childShare
  cases hcd : s.node? c with
  | none => rfl
  | some cd =>
    obtain ⟨hnp, hct, hsrc⟩ := hc cd hcd
    have hb := hst.2 c hct
    unfold SSys.backAt at hb
    have hemp : cd.parents.isEmpty = false := by
      cases h : cd.parents with
      | nil => rw [h] at hnp; cases hnp
      | cons a l => rfl
    simp only [hcd, SSys.lawArgs, hemp, Bool.false_eq_true, if_false] at hb
    -- with at most one parent, that parent is `n`
    have hone : ¬ cd.parents.length > 1 → cd.parents = [n] := by
      intro hl
      cases h : cd.parents with
      | nil => rw [h] at hnp; cases hnp
      | cons a l =>
        cases l with
        | nil => rw [h] at hnp; simp at hnp; rw [hnp]
        | cons b l' => rw [h] at hl; simp at hl
    by_cases hm : cd.comp.kind = .pmux
    · simp only [Comp.priInp, hm]
      cases hp : priInpAux (cd.parents.map (sget st)) (cd.parents.map (vget v)) 0 with
      | none =>
        simp only []
        rw [← hb]
        exact (mux_no_live cd.comp hm _ _ _ _ hp).2
      | some k =>
        obtain ⟨o, x, ho, hx, hof, hx0⟩ := (((C05.pri_first_live _ _).1 k).mp hp).1
        rw [List.getElem?_map] at hx
        obtain ⟨p', hp', rfl⟩ := Option.map_eq_some_iff.mp hx
        have hget : cd.parents.getD k 0 = p' := by simp [List.getD, hp']
        have hne : p' ≠ n := fun e => hx0 (e ▸ hn)
        simp only [hget]
        by_cases hl : cd.parents.length > 1
        · simp [hl, hne]
        · exfalso
          have h1 := hone hl
          rw [h1] at hp'
          cases k with
          | zero => simp at hp'; exact hne hp'.symm
          | succ k' => simp at hp'
    · simp only [priInp_of_ne_mux cd.comp hm]
      have hzero : cd.parents.getD 0 0 = n → vget i c = 0 := by
        intro h0
        rw [← hb]
        refine (dead_input cd.comp hsrc hm _ _ _ _ (Or.inl ?_)).2
        cases h : cd.parents with
        | nil => rw [h] at hnp; cases hnp
        | cons a l =>
          rw [h] at h0
          simp at h0
          simp [h0, hn]
      split_ifs with h1 h2
      · exact hzero (beq_iff_eq.mp h2)
      · rfl
      · exact hzero (by rw [hone h1]; rfl)

/-- … hence the output current of a node at 0 V is 0 in every steady state -/
theorem childCurr_dead (s : SSys α) (phase : String) (v i : Vec α) (st : St)
    (hst : Steady s phase v i st) (n : Nat) (hn : vget v n = 0) (hch : ChildsOK s n) :
    s.childCurr n i v st = 0 := by
  unfold SSys.childCurr
  cases hnd : s.node? n with
  | none => rfl
  | some nd =>
    simp only []
    rw [sumL_eq_sum]
    apply List.sum_eq_zero
    intro x hx
    obtain ⟨c, hc, rfl⟩ := List.mem_map.mp hx
    exact childShare_dead s phase v i st hst n c hn (fun cd hcd => hch nd hnd c hc cd hcd)

/-- what `Below` says about the node itself and the voltages of its supplies -/
theorem Below.node_facts (s : SSys α) (phase : String) (v i : Vec α) (st : St)
    (hst : Steady s phase v i st) (d : Nat) (hdead : vget v d = 0) (n : Nat) (hb : Below s v d n) :
    ∃ nd, s.node? n = some nd ∧ nd.comp.kind ≠ .source ∧
      ((nd.comp.kind ≠ .pmux ∧ ∃ p, nd.parents = [p] ∧ vget v p = 0) ∨
       (nd.comp.kind = .pmux ∧ nd.parents ≠ [] ∧ ∀ p ∈ nd.parents, vget v p = 0)) := by
  cases hb with
  | child hs =>
    obtain ⟨nd, hn, hnode, hpar, hsrc, hm⟩ := hs
    exact ⟨nd, hnode, hsrc, Or.inl ⟨hm, d, hpar, hdead⟩⟩
  | step hs hp =>
    obtain ⟨nd, hn, hnode, hpar, hsrc, hm⟩ := hs
    exact ⟨nd, hnode, hsrc, Or.inl ⟨hm, _, hpar, (dead_subtree s phase v i st hst d hdead _ hp).1⟩⟩
  | mux hn hnode hk hq hqd hall =>
    refine ⟨_, hnode, ?_, Or.inr ⟨hk, ?_, ?_⟩⟩
    · rw [hk]; decide
    · intro e; rw [e] at hq; cases hq
    intro p hp
    by_cases h1 : p = d
    · rw [h1]; exact hdead
    · by_contra h2
      exact h2 (dead_subtree s phase v i st hst d hdead _ (hall p hp h1 h2)).1

/-- **Dead rows.**  The table row assembled for a node below a dead element — whatever the inherited domain
    name — shows `Vin = Vout = Iin = Iout = Power = Loss = 0`, including the rows of PMuxes without a live
    input and of nodes that feed a PMux which has selected (or could select) another input. -/
theorem dead_rows (s : SSys α) (phase : String) (ta : α) (v i : Vec α) (st : St)
    (hst : Steady s phase v i st) (d : Nat) (hdead : vget v d = 0)
    (n : Nat) (hb : Below s v d n) (hch : ChildsOK s n) (dom : String) :
    (s.compRow phase ta v i st n dom).1.vin = some 0 ∧
    (s.compRow phase ta v i st n dom).1.vout = some 0 ∧
    (s.compRow phase ta v i st n dom).1.iin = some 0 ∧
    (s.compRow phase ta v i st n dom).1.iout = some 0 ∧
    (s.compRow phase ta v i st n dom).1.pwr = some 0 ∧
    (s.compRow phase ta v i st n dom).1.loss = some 0 := by
  obtain ⟨hv, hi⟩ := dead_subtree s phase v i st hst d hdead n hb
  have hio := childCurr_dead s phase v i st hst n hv hch
  obtain ⟨nd, hnode, hsrc, hcase⟩ := Below.node_facts s phase v i st hst d hdead n hb
  have hemp : nd.parents.isEmpty = false := by
    rcases hcase with ⟨_, p, hpar, _⟩ | ⟨_, hne, _⟩
    · rw [hpar]; rfl
    · cases h : nd.parents with
      | nil => exact absurd h hne
      | cons a l => rfl
  have hio' : (if nd.childs.isEmpty then (0 : α) else s.childCurr n i v st) = 0 := by
    split_ifs
    · rfl
    · exact hio
  have hpl := dead_input_power nd.comp hsrc 0 0 0 ta (nd.pconf.ctx phase)
  unfold SSys.compRow
  simp only [hnode, hemp, Bool.false_eq_true, if_false, hio']
  rcases hcase with ⟨hm, p, hpar, hp⟩ | ⟨hk, hne, hall⟩
  · simp only [priInp_of_ne_mux nd.comp hm, hpar, List.length_singleton, gt_iff_lt, lt_self_iff_false,
      if_false, List.head?_cons, hp, hv, hi]
    exact ⟨trivial, trivial, trivial, trivial, by rw [hpl.1], by rw [hpl.2]⟩
  · have hnone : priInpAux (nd.parents.map (sget st)) (nd.parents.map (vget v)) 0 = none := by
      apply priInpAux_none_of_all_zero
      intro x hx
      obtain ⟨p, hp, rfl⟩ := List.mem_map.mp hx
      exact hall p hp
    cases h : nd.parents with
    | nil => exact absurd h hne
    | cons a l =>
      rw [h] at hnone
      simp only [Comp.priInp, hk, hnone, List.head?_cons, hall a (by rw [h]; simp), hv, hi]
      exact ⟨trivial, trivial, trivial, trivial, by rw [hpl.1], by rw [hpl.2]⟩

/-- `dead_rows` for a fixed point of the solver's two sweeps -/
theorem dead_rows_of_sweeps (s : SSys α) (phase : String) (ta : α) (v i : Vec α) (st st' : St)
    (hf : s.fwdProp phase v i st = .ok (v, st')) (hb : s.backProp phase v i st = i)
    (d : Nat) (hdead : vget v d = 0) (n : Nat) (hbel : Below s v d n) (hch : ChildsOK s n) (dom : String) :
    (s.compRow phase ta v i st n dom).1.vin = some 0 ∧
    (s.compRow phase ta v i st n dom).1.vout = some 0 ∧
    (s.compRow phase ta v i st n dom).1.iin = some 0 ∧
    (s.compRow phase ta v i st n dom).1.iout = some 0 ∧
    (s.compRow phase ta v i st n dom).1.pwr = some 0 ∧
    (s.compRow phase ta v i st n dom).1.loss = some 0 :=
  dead_rows s phase ta v i st (steady_of_sweeps s phase v i st st' hf hb) d hdead n hbel hch dom

/-! ### 3. Solver-output form: death travels one level per sweep, from any starting vectors -/

/-- **Forward sweep.**  From arbitrary vectors, a single-supply node whose parent is at 0 V *or* flagged off in
    the old state comes out of one forward sweep at exactly 0 V; its new flag is set — for a load (whose flag
    is a copy of its supply's flag, and which has no children to read it) when the supply was flagged. -/
theorem fwd_dead_single (s : SSys α) (phase : String) (v i : Vec α) (st : St) (v' : Vec α) (st' : St)
    (h : s.fwdProp phase v i st = .ok (v', st')) (n p : Nat) (nd : SNode α)
    (hn : n ∈ s.topo) (hnode : s.node? n = some nd) (hpar : nd.parents = [p])
    (hs : nd.comp.kind ≠ .source) (hm : nd.comp.kind ≠ .pmux)
    (hdead : vget v p = 0 ∨ sget st p = true) :
    vget v' n = 0 ∧ (nd.comp.kind.ctype ≠ .LOAD ∨ sget st p = true → sget st' n = true) := by
  obtain ⟨_, _, h3, _⟩ := C16.fwdProp_pointwise s phase v i st v' st' h
  obtain ⟨x, b, hf, hx, hb⟩ := h3 n hn (lt_hidx_of_node s n nd hnode)
  unfold SSys.fwdAt at hf
  simp only [hnode, SSys.lawArgs, hpar, List.isEmpty_cons, Bool.false_eq_true, if_false, List.map_cons,
    List.map_nil] at hf
  obtain ⟨b', hv, hflag⟩ := dead_input_flag nd.comp hs hm [vget v p]
    (if nd.childs.isEmpty then 0 else s.childCurr n i v st) (nd.pconf.ctx phase) [sget st p]
    (by rcases hdead with h | h
        · exact Or.inl (by simpa using h)
        · exact Or.inr (by simpa [off0] using h))
  rw [hv] at hf
  simp only [Except.ok.injEq, Prod.mk.injEq] at hf
  refine ⟨by rw [hx, ← hf.1], fun hc => ?_⟩
  rw [sget_of_getD st' n b hb, ← hf.2]
  exact hflag (by simpa [off0] using hc)

/-- **Backward sweep.**  With voltages `v'` (and the old flags, as `_solve` passes them), a single-supply node
    whose parent is at 0 V in `v'` or flagged off draws exactly 0 A — whatever the old currents were. -/
theorem back_dead_single (s : SSys α) (phase : String) (v' i : Vec α) (st : St) (n p : Nat) (nd : SNode α)
    (hn : n ∈ s.topo) (hnode : s.node? n = some nd) (hpar : nd.parents = [p])
    (hs : nd.comp.kind ≠ .source) (hm : nd.comp.kind ≠ .pmux)
    (hdead : vget v' p = 0 ∨ sget st p = true) :
    vget (s.backProp phase v' i st) n = 0 := by
  obtain ⟨_, b2, _⟩ := C16.backProp_pointwise s phase v' i st
  rw [b2 n hn (lt_hidx_of_node s n nd hnode)]
  unfold SSys.backAt
  simp only [hnode, SSys.lawArgs, hpar, List.isEmpty_cons, Bool.false_eq_true, if_false, List.map_cons,
    List.map_nil]
  refine (dead_input nd.comp hs hm [vget v' p] _ _ [sget st p] ?_).2
  rcases hdead with h | h
  · exact Or.inl (by simpa using h)
  · exact Or.inr (by simpa [off0] using h)

/-- **One level per sweep.**  Let `(v', st')` be the forward sweep of arbitrary `(v, i, st)` and `p` be dead in
    `v`.  Every single-supply child `n` of `p` has `v' n = 0`, its flag set (loads: if `p` was flagged), and —
    when `p` is still at 0 V in `v'` — draws 0 A after the backward sweep `_solve` performs next. -/
theorem dead_after_sweeps (s : SSys α) (phase : String) (v i : Vec α) (st : St) (v' : Vec α) (st' : St)
    (h : s.fwdProp phase v i st = .ok (v', st')) (n p : Nat) (nd : SNode α)
    (hn : n ∈ s.topo) (hnode : s.node? n = some nd) (hpar : nd.parents = [p])
    (hs : nd.comp.kind ≠ .source) (hm : nd.comp.kind ≠ .pmux) (hdead : vget v p = 0) :
    vget v' n = 0 ∧ (nd.comp.kind.ctype ≠ .LOAD → sget st' n = true) ∧
    (vget v' p = 0 → vget (s.backProp phase v' i st) n = 0) := by
  obtain ⟨h1, h2⟩ := fwd_dead_single s phase v i st v' st' h n p nd hn hnode hpar hs hm (Or.inl hdead)
  exact ⟨h1, fun hc => h2 (Or.inl hc),
    fun hp => back_dead_single s phase v' i st n p nd hn hnode hpar hs hm (Or.inl hp)⟩

/-! #### … iterated: what `_solve` returns -/

/-- `n` lies `k` single-supply levels below `d` -/
inductive Depth (s : SSys α) (d : Nat) : Nat → Nat → Prop
  | top : Depth s d d 0
  | down {n p k : Nat} : Single s n p → Depth s d p k → Depth s d n (k + 1)

/-- `d` is dead for a structural reason: its forward law yields 0 V from any vectors
    (e.g. a 0 V or phase-inactive Source — `alwaysDead_source`) -/
def AlwaysDead (s : SSys α) (phase : String) (d : Nat) : Prop :=
  ∀ (v i : Vec α) (st : St) x b, s.fwdAt phase v i st d = .ok (x, b) → x = 0

/-- `d` is at 0 V and everything up to `k` levels below it is at 0 V drawing 0 A -/
def DeadTo (s : SSys α) (d k : Nat) (v i : Vec α) : Prop :=
  ∀ n j, Depth s d n j → j ≤ k → vget v n = 0 ∧ (0 < j → vget i n = 0)

theorem fwd_alwaysDead (s : SSys α) (phase : String) (v i : Vec α) (st : St) (v' : Vec α) (st' : St)
    (h : s.fwdProp phase v i st = .ok (v', st')) (d : Nat) (hd : AlwaysDead s phase d) : vget v' d = 0 := by
  obtain ⟨hsz, _, h3, h4⟩ := C16.fwdProp_pointwise s phase v i st v' st' h
  by_cases hn : d ∈ s.topo
  · by_cases hlt : d < s.hidx
    · obtain ⟨x, b, e1, e2, _⟩ := h3 d hn hlt
      rw [e2]; exact hd v i st x b e1
    · unfold vget
      simp [Array.getD_eq_getD_getElem?, Array.getElem?_eq_none (hsz ▸ Nat.le_of_not_lt hlt)]
  · exact (h4 d hn).1

/-- one accepted sweep pushes the dead front one level down -/
theorem deadTo_step (s : SSys α) (phase : String) (d : Nat) (hd : AlwaysDead s phase d)
    (k : Nat) (v i : Vec α) (st : St) (v' : Vec α) (st' : St)
    (hinv : DeadTo s d k v i) (h : s.fwdProp phase v i st = .ok (v', st')) :
    DeadTo s d (k + 1) v' (s.backProp phase v' i st) := by
  have hv' : ∀ n j, Depth s d n j → j ≤ k + 1 → vget v' n = 0 := by
    intro n j hdep hj
    cases hdep with
    | top => exact fwd_alwaysDead s phase v i st v' st' h d hd
    | down hs hp =>
      obtain ⟨nd, hn, hnode, hpar, hsrc, hm⟩ := hs
      have hpz := (hinv _ _ hp (by omega)).1
      exact (fwd_dead_single s phase v i st v' st' h _ _ nd hn hnode hpar hsrc hm (Or.inl hpz)).1
  intro n j hdep hj
  refine ⟨hv' n j hdep hj, fun hpos => ?_⟩
  cases hdep with
  | top => omega
  | down hs hp =>
    obtain ⟨nd, hn, hnode, hpar, hsrc, hm⟩ := hs
    exact back_dead_single s phase v' i st _ _ nd hn hnode hpar hsrc hm (Or.inl (hv' _ _ hp (by omega)))

/-- **What the solver loop returns.**  If `d` is structurally dead and the loop starts (at iteration count
    `it`) from vectors in which the dead front has reached level `k`, then in the returned vectors every node
    at level `j ≤ k + (out.iters − it − 1)` below `d` is at exactly 0 V and draws exactly 0 A. -/
theorem loop_dead (s : SSys α) (cfg : Cfg α) (phase : String) (d : Nat) (hd : AlwaysDead s phase d) :
    ∀ (fuel : Nat) (v i : Vec α) (st : St) (it k : Nat) (out : SolveOut α),
      DeadTo s d k v i → s.loop cfg phase fuel v i st it = .ok out →
      ∀ n j, Depth s d n j → j + it + 1 ≤ out.iters + k →
        vget out.v n = 0 ∧ (0 < j → vget out.i n = 0) := by
  intro fuel
  induction fuel with
  | zero =>
    intro v i st it k out hinv hl n j hdep hj
    simp only [SSys.loop, Except.ok.injEq] at hl
    subst hl
    exact hinv n j hdep (by simp only at hj; omega)
  | succ fuel ih =>
    intro v i st it k out hinv hl n j hdep hj
    simp only [SSys.loop, bind, Except.bind] at hl
    cases hf : s.fwdProp phase v i st with
    | error e => rw [hf] at hl; cases hl
    | ok r =>
      obtain ⟨v', st'⟩ := r
      rw [hf] at hl
      simp only at hl
      split_ifs at hl with hconv
      · simp only [Except.ok.injEq] at hl
        subst hl
        exact hinv n j hdep (by simp only at hj; omega)
      · exact ih v' _ st' (it + 1) (k + 1) out (deadTo_step s phase d hd k v i st v' st' hinv hf) hl
          n j hdep (by omega)

/-- **`dead_after_k_sweeps`, on the output of `_solve`.**  Below a structurally dead element that `_sys_init`
    starts at 0 V, every single-supply node within `iters − 1` levels is reported at exactly 0 V / 0 A —
    `iters` being the iteration count `_solve` returns (the last sweep only confirms convergence). -/
theorem dead_after_k_sweeps (s : SSys α) (cfg : Cfg α) (phase : String) (d : Nat)
    (hd : AlwaysDead s phase d) (hinit : vget (s.init phase).1 d = 0)
    (out : SolveOut α) (hsolve : s.solveRaw cfg phase = .ok out) :
    ∀ n j, Depth s d n j → j + 1 ≤ out.iters → vget out.v n = 0 ∧ (0 < j → vget out.i n = 0) := by
  intro n j hdep hj
  unfold SSys.solveRaw at hsolve
  have hinv : DeadTo s d 0 (s.init phase).1 (s.init phase).2.1 := by
    intro n j hdep hj
    cases hdep with
    | top => exact ⟨hinit, fun h => absurd h (by omega)⟩
    | down _ _ => omega
  exact loop_dead s cfg phase d hd _ _ _ _ 0 0 out hinv hsolve n j hdep (by omega)

/-- a 0 V or phase-inactive Source is structurally dead, and `_sys_init` starts it at 0 V -/
theorem alwaysDead_source (s : SSys α) (phase : String) (d : Nat) (nd : SNode α)
    (hnode : s.node? d = some nd) (hk : nd.comp.kind = .source)
    (hdead : nd.comp.vo = 0 ∨ (nd.pconf.ctx phase).inactive = true) :
    AlwaysDead s phase d ∧ vget (s.init phase).1 d = 0 := by
  constructor
  · intro v i st x b hf
    unfold SSys.fwdAt at hf
    simp only [hnode] at hf
    rw [(dead_source nd.comp hk _ 0 0 _ 0 _ _ hdead).1] at hf
    simp only [Except.ok.injEq, Prod.mk.injEq] at hf
    exact hf.1.symm
  · have hlt := lt_hidx_of_node s d nd hnode
    unfold SSys.init vget
    simp only [Array.getD_eq_getD_getElem?, List.getElem?_toArray, List.getElem?_map,
      List.getElem?_range hlt, Option.map_some, hnode, Option.getD_some]
    unfold Comp.initVolt
    simp only [hk]
    rcases hdead with h | h
    · simp [h]
    · simp [h]

/-! ### Non-vacuity: concrete systems over ℚ -/
namespace TreeEx

def mkC (name : String) (k : Kind) : Comp ℚ := { name := name, kind := k, par := .const 0 }

/-- Source(0 V) → Converter → { ILoad, LinReg → RLoad } -/
def exSys : SSys ℚ where
  nodes := #[
    some { comp := { mkC "S" .source with vo := 0 }, parents := [], childs := [1] },
    some { comp := { mkC "C" .converter with vo := 5, par := .const (9/10), iq := 1/1000 },
           parents := [0], childs := [2, 3] },
    some { comp := { mkC "I" .iload with ii := 1/10 }, parents := [1], childs := [] },
    some { comp := { mkC "R" .linreg with vo := 3, par := .const (1/1000) }, parents := [1], childs := [4] },
    some { comp := { mkC "L" .rload with rs := 100 }, parents := [3], childs := [] } ]
  topo := [0, 1, 2, 3, 4]

def exZ : Vec ℚ := #[0, 0, 0, 0, 0]
def exOff : St := #[[true], [true], [true], [true], [true]]

/-- the all-zero state is a steady state of `exSys` … -/
theorem exSteady : Steady exSys "" exZ exZ exOff := by
  constructor
  · intro n hn
    simp only [exSys, List.mem_cons, List.not_mem_nil, or_false] at hn
    rcases hn with rfl | rfl | rfl | rfl | rfl <;> exact ⟨true, by decide +kernel⟩
  · intro n hn
    simp only [exSys, List.mem_cons, List.not_mem_nil, or_false] at hn
    rcases hn with rfl | rfl | rfl | rfl | rfl <;> decide +kernel

/-- … and a fixed point of the two sweeps -/
example : exSys.fwdProp "" exZ exZ exOff = .ok (exZ, exOff) ∧ exSys.backProp "" exZ exZ exOff = exZ := by
  decide +kernel

theorem exSingle : Single exSys 1 0 ∧ Single exSys 2 1 ∧ Single exSys 3 1 ∧ Single exSys 4 3 := by
  refine ⟨⟨_, by decide, rfl, rfl, by decide, by decide⟩, ⟨_, by decide, rfl, rfl, by decide, by decide⟩,
    ⟨_, by decide, rfl, rfl, by decide, by decide⟩, ⟨_, by decide, rfl, rfl, by decide, by decide⟩⟩

theorem exBelow : Below exSys exZ 0 1 ∧ Below exSys exZ 0 2 ∧ Below exSys exZ 0 3 ∧ Below exSys exZ 0 4 := by
  obtain ⟨h1, h2, h3, h4⟩ := exSingle
  have b1 := Below.child (v := exZ) h1
  have b3 := Below.step h3 b1
  exact ⟨b1, Below.step h2 b1, b3, Below.step h4 b3⟩

theorem exChildsOK : ∀ n, ChildsOK exSys n := by
  intro n
  by_cases hn : n < 5
  · apply childsOK_of_b
    have : ∀ m, m < 5 → childsOKb exSys m = true := by decide
    exact this n hn
  · intro nd hnd
    exact absurd (lt_hidx_of_node exSys n nd hnd) hn

-- `dead_subtree` / `dead_rows` with every hypothesis discharged (the RLoad two regulators down; the Converter,
-- which has children)
example : vget exZ 4 = 0 ∧ vget exZ 4 = 0 :=
  dead_subtree exSys "" exZ exZ exOff exSteady 0 rfl 4 exBelow.2.2.2
example : (exSys.compRow "" 25 exZ exZ exOff 4 "S").1.pwr = some 0 :=
  (dead_rows exSys "" 25 exZ exZ exOff exSteady 0 rfl 4 exBelow.2.2.2 (exChildsOK 4) "S").2.2.2.2.1
example : (exSys.compRow "" 25 exZ exZ exOff 1 "S").1.iout = some 0 :=
  (dead_rows exSys "" 25 exZ exZ exOff exSteady 0 rfl 1 exBelow.1 (exChildsOK 1) "S").2.2.2.1

/-- a mux between two dead sources, feeding a load -/
def exMux : SSys ℚ where
  nodes := #[
    some { comp := { mkC "S1" .source with vo := 0 }, parents := [], childs := [2] },
    some { comp := { mkC "S2" .source with vo := 0 }, parents := [], childs := [2] },
    some { comp := mkC "M" .pmux, parents := [0, 1], childs := [3] },
    some { comp := { mkC "I" .iload with ii := 1/10 }, parents := [2], childs := [] } ]
  topo := [1, 0, 2, 3]

def exZ4 : Vec ℚ := #[0, 0, 0, 0]
def exOff4 : St := #[[true], [true], [true], [true]]

theorem exMuxSteady : Steady exMux "" exZ4 exZ4 exOff4 := by
  constructor
  · intro n hn
    simp only [exMux, List.mem_cons, List.not_mem_nil, or_false] at hn
    rcases hn with rfl | rfl | rfl | rfl <;> exact ⟨true, by decide +kernel⟩
  · intro n hn
    simp only [exMux, List.mem_cons, List.not_mem_nil, or_false] at hn
    rcases hn with rfl | rfl | rfl | rfl <;> decide +kernel

theorem exMuxBelow : Below exMux exZ4 0 2 ∧ Below exMux exZ4 0 3 := by
  have b2 : Below exMux exZ4 0 2 :=
    Below.mux_of_or (q := 0) (by decide) rfl rfl (by decide) (Or.inl rfl) (by
      intro p hp
      have hp' : p = 0 ∨ p = 1 := by simpa [exMux] using hp
      rcases hp' with rfl | rfl
      · exact Or.inl rfl
      · exact Or.inr (Or.inr (by decide +kernel)))
  exact ⟨b2, Below.step ⟨_, by decide, rfl, rfl, by decide, by decide⟩ b2⟩

example : vget exZ4 3 = 0 ∧ vget exZ4 3 = 0 :=
  dead_subtree exMux "" exZ4 exZ4 exOff4 exMuxSteady 0 rfl 3 exMuxBelow.2
example : (exMux.compRow "" 25 exZ4 exZ4 exOff4 2 "S1").1.vin = some 0 :=
  (dead_rows exMux "" 25 exZ4 exZ4 exOff4 exMuxSteady 0 rfl 2 exMuxBelow.1
    (childsOK_of_b _ _ (by decide)) "S1").1

/-- a dead branch feeding a mux that runs from its other, live input:
    S1(0 V) → PSwitch W → M ← S2(5 V);  M → ILoad(0.1 A) -/
def exLive : SSys ℚ where
  nodes := #[
    some { comp := { mkC "S1" .source with vo := 0 }, parents := [], childs := [2] },
    some { comp := { mkC "S2" .source with vo := 5 }, parents := [], childs := [3] },
    some { comp := mkC "W" .pswitch, parents := [0], childs := [3] },
    some { comp := mkC "M" .pmux, parents := [2, 1], childs := [4] },
    some { comp := { mkC "I" .iload with ii := 1/10 }, parents := [3], childs := [] } ]
  topo := [1, 0, 2, 3, 4]

def exLiveV : Vec ℚ := #[0, 5, 0, 5, 0]
def exLiveI : Vec ℚ := #[0, 1/10, 0, 1/10, 1/10]
def exLiveSt : St := #[[true], [false], [true], [false], [false]]

theorem exLiveSteady : Steady exLive "" exLiveV exLiveI exLiveSt := by
  constructor
  · intro n hn
    simp only [exLive, List.mem_cons, List.not_mem_nil, or_false] at hn
    rcases hn with rfl | rfl | rfl | rfl | rfl
    · exact ⟨false, by decide +kernel⟩
    · exact ⟨true, by decide +kernel⟩
    · exact ⟨true, by decide +kernel⟩
    · exact ⟨false, by decide +kernel⟩
    · exact ⟨false, by decide +kernel⟩
  · intro n hn
    simp only [exLive, List.mem_cons, List.not_mem_nil, or_false] at hn
    rcases hn with rfl | rfl | rfl | rfl | rfl <;> decide +kernel

-- the live mux really draws current (the example is not all-zero) …
example : vget exLiveI 3 = 1/10 := by decide +kernel
-- … and none of it shows up in the row of the dead switch: `dead_rows` through its mux-child case
example : (exLive.compRow "" 25 exLiveV exLiveI exLiveSt 2 "S1").1.iout = some 0 :=
  (dead_rows exLive "" 25 exLiveV exLiveI exLiveSt exLiveSteady 0 (by decide +kernel) 2
    (Below.child ⟨_, by decide, rfl, rfl, by decide, by decide⟩)
    (childsOK_of_b _ _ (by decide)) "S1").2.2.2.1

/-! one level per sweep, from arbitrary vectors -/
def exV0 : Vec ℚ := #[0, 5, 7, 3, 2]
def exI0 : Vec ℚ := #[1, 1, 1, 1, 1]
def exSt0 : St := #[[false], [false], [false], [false], [false]]

theorem exFwd : exSys.fwdProp "" exV0 exI0 exSt0 =
    .ok (#[0, 0, 0, 3, 0], #[[true], [true], [false], [false], [false]]) := by decide +kernel

-- the converter right below the dead source is at 0 V, flagged, 0 A after one sweep; the regulator one
-- level further down is still at 3 V
example : vget (#[0, 0, 0, 3, 0] : Vec ℚ) 1 = 0 ∧
    ((exSys.node? 1).map (·.comp.kind.ctype) ≠ some .LOAD → sget #[[true], [true], [false], [false], [false]] 1 = true) ∧
    vget (exSys.backProp "" #[0, 0, 0, 3, 0] exI0 exSt0) 1 = 0 := by
  obtain ⟨a, b, c⟩ := dead_after_sweeps exSys "" exV0 exI0 exSt0 _ _ exFwd 1 0 _ (by decide) rfl rfl
    (by decide) (by decide) (by decide +kernel)
  exact ⟨a, fun _ => b (by decide), c (by decide +kernel)⟩
example : vget (#[0, 0, 0, 3, 0] : Vec ℚ) 3 = 3 := by decide +kernel

/-! the solver's output -/
def exCfg : Cfg ℚ := ⟨1/100000000, 1/1000000, 1/1000000, 100⟩

theorem exAlwaysDead : AlwaysDead exSys "" 0 ∧ vget (exSys.init "").1 0 = 0 :=
  alwaysDead_source exSys "" 0 _ rfl rfl (Or.inl rfl)

theorem exDepth : Depth exSys 0 1 1 ∧ Depth exSys 0 3 2 :=
  ⟨Depth.down exSingle.1 Depth.top, Depth.down exSingle.2.2.1 (Depth.down exSingle.1 Depth.top)⟩

-- `_solve` from `_sys_init` returns after 2 iterations: depth 1 is covered
example : (exSys.solveRaw exCfg "").toOption.map (·.iters) = some 2 := by decide +kernel
example (out : SolveOut ℚ) (h : exSys.solveRaw exCfg "" = .ok out) (hit : 2 ≤ out.iters) :
    vget out.v 1 = 0 ∧ vget out.i 1 = 0 := by
  obtain ⟨a, b⟩ := dead_after_k_sweeps exSys exCfg "" 0 exAlwaysDead.1 exAlwaysDead.2 out h 1 1 exDepth.1 (by omega)
  exact ⟨a, b (by omega)⟩
-- the loop from the arbitrary vectors above returns after 3 iterations: depth 2 (the regulator) is covered
example : (exSys.loop exCfg "" 101 exV0 exI0 exSt0 0).toOption.map (·.iters) = some 3 := by decide +kernel
example (out : SolveOut ℚ) (h : exSys.loop exCfg "" 101 exV0 exI0 exSt0 0 = .ok out) (hit : 3 ≤ out.iters) :
    vget out.v 3 = 0 ∧ vget out.i 3 = 0 := by
  have hinv : DeadTo exSys 0 0 exV0 exI0 := by
    intro n j hd hj
    cases hd with
    | top => exact ⟨by decide +kernel, fun h => absurd h (by omega)⟩
    | down _ _ => omega
  obtain ⟨a, b⟩ := loop_dead exSys exCfg "" 0 exAlwaysDead.1 101 exV0 exI0 exSt0 0 0 out hinv h 3 2 exDepth.2 (by omega)
  exact ⟨a, b (by omega)⟩

end TreeEx

end C04
end SysLoss
