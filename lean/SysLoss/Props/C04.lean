/-
  Props/C04 — a dead supply rail isolates everything below it.

   * `dead_input`      : any non-source component whose (only / every) supply is at 0 V — or flagged
                         off — outputs 0 V flagged off, draws 0 A, and reports zero power and loss.
   * `dead_source`     : a 0 V or phase-inactive Source outputs 0 V, supplies 0 A, zero power.
   * `mux_no_live`     : a PMux none of whose inputs is live is dead in the same sense.
   * `sleep_current`   : a phase-inactive converter / regulator / switch / mux on a live supply
                         outputs 0 V (flagged off) and draws exactly its sleep current.
   * `dead_child`      : in a steady state of the whole system, a single-supply child of a node at 0 V
                         is itself at 0 V with 0 A — so (by `dead_chain`) is everything below it.
-/
import SysLoss.Proofs.Basic
import SysLoss.Spec.Phys
import SysLoss.Model.Table

set_option linter.unusedSectionVars false
set_option linter.unusedVariables false

namespace SysLoss
namespace C04
variable {α : Type} [Field α] [LinearOrder α] [IsStrictOrderedRing α]

/-- dead input ⇒ 0 V (off), 0 A, no power, no loss — every kind but Source and PMux -/
theorem dead_input (c : Comp α) (hs : c.kind ≠ .source) (hm : c.kind ≠ .pmux)
    (vi : List α) (io : α) (ph : PhaseCtx α) (off : List Bool)
    (hdead : vi.headD 0 = 0 ∨ off0 off = true) :
    (∃ b, c.solvOutpVolt vi io ph off = .ok (0, b) ∧ (c.kind.ctype ≠ .LOAD → b = true)) ∧
    c.solvInpCurr vi io ph off = 0 := by
  unfold Comp.solvOutpVolt Comp.solvInpCurr calcInpCurrent
  generalize vi.headD 0 = vi0 at *
  rcases hdead with h | h
  · subst h
    have hz : isZ (0 : α) = true := (isZ_iff _).mpr rfl
    cases hk : c.kind <;> simp_all [Kind.ctype]
  · cases hk : c.kind <;> simp_all [Kind.ctype]

/-- a row whose input voltage is 0 reports zero power and zero loss (every kind but Source) -/
theorem dead_input_power (c : Comp α) (hs : c.kind ≠ .source) (vo ii io ta : α) (ph : PhaseCtx α) :
    (c.solvPwrLoss 0 vo ii io ta ph).pwr = 0 ∧ (c.solvPwrLoss 0 vo ii io ta ph).loss = 0 := by
  have hz : isZ (0 : α) = true := (isZ_iff _).mpr rfl
  unfold Comp.solvPwrLoss
  cases hk : c.kind <;> simp_all [PL.zeros, nsign_zero] <;> split_ifs <;> simp [PL.zeros]

/-- a 0 V or phase-inactive Source -/
theorem dead_source (c : Comp α) (hk : c.kind = .source) (vi : List α) (vo ii io ta : α)
    (ph : PhaseCtx α) (off : List Bool) (hdead : c.vo = 0 ∨ ph.inactive = true) :
    c.solvOutpVolt vi io ph off = .ok (0, true) ∧ c.solvInpCurr vi io ph off = 0 ∧
    (c.solvPwrLoss (vi.headD 0) vo ii io ta ph).pwr = 0 ∧ (c.solvPwrLoss (vi.headD 0) vo ii io ta ph).loss = 0 ∧
    c.initOff ph = true := by
  unfold Comp.solvOutpVolt Comp.solvInpCurr Comp.solvPwrLoss Comp.initOff calcInpCurrent
  simp only [hk]
  rcases hdead with h | h
  · have hz : isZ c.vo = true := (isZ_iff _).mpr h
    by_cases hi : ph.inactive = true <;> simp [hz, hi, PL.zeros]
  · simp [h, PL.zeros]

/-- a PMux without a live input: 0 V flagged off, 0 A -/
theorem mux_no_live (c : Comp α) (hk : c.kind = .pmux) (vi : List α) (io : α) (ph : PhaseCtx α)
    (off : List Bool) (hnone : priInpAux off vi 0 = none) :
    c.solvOutpVolt vi io ph off = .ok (0, true) ∧ c.solvInpCurr vi io ph off = 0 := by
  unfold Comp.solvOutpVolt Comp.solvInpCurr
  simp [hk, hnone]

/-- no input with a non-zero voltage ⇒ no live input -/
theorem priInpAux_none_of_all_zero (off : List Bool) (vi : List α) (k : Nat)
    (h : ∀ x ∈ vi, x = 0) : priInpAux off vi k = none := by
  induction off generalizing vi k with
  | nil => cases vi <;> simp [priInpAux]
  | cons o os ih =>
    cases vi with
    | nil => simp [priInpAux]
    | cons x xs =>
      have hx : isZ x = true := (isZ_iff _).mpr (h x (by simp))
      simp only [priInpAux, hx, Bool.not_true, Bool.and_false, Bool.false_eq_true, if_false]
      exact ih xs (k+1) (fun y hy => h y (by simp [hy]))

/-- **Sleep.** A phase-inactive converter / regulator / switch on a live, unflagged supply outputs
    0 V flagged off and draws exactly its sleep current `iis`. -/
theorem sleep_current (c : Comp α)
    (hk : c.kind = .converter ∨ c.kind = .linreg ∨ c.kind = .pswitch) (hvo : c.vo ≠ 0 ∨ c.kind ≠ .converter)
    (vi : List α) (io : α) (ph : PhaseCtx α) (off : List Bool)
    (hlive : vi.headD 0 ≠ 0) (hoff : off0 off = false) (hina : ph.inactive = true) :
    c.solvOutpVolt vi io ph off = .ok (0, true) ∧ c.solvInpCurr vi io ph off = c.iis := by
  have hz : isZ (vi.headD 0) = false := (isZ_false_iff _).mpr hlive
  unfold Comp.solvOutpVolt Comp.solvInpCurr
  generalize vi.headD 0 = vi0 at *
  rcases hk with hk | hk | hk
  · have hzo : isZ c.vo = false := by
      rcases hvo with h | h
      · exact (isZ_false_iff _).mpr h
      · exact absurd hk h
    simp [hk, hz, hoff, hina, hzo]
  · simp [hk, hz, hoff, hina]
  · simp [hk, hz, hoff, hina]

/-- sleeping mux with a live input -/
theorem sleep_current_mux (c : Comp α) (hk : c.kind = .pmux) (vi : List α) (io : α) (ph : PhaseCtx α)
    (off : List Bool) (k : Nat) (hsel : priInpAux off vi 0 = some k) (hina : ph.inactive = true)
    (hrs : ∀ l, c.rsList = some l → vi.length ≤ l.length) :
    c.solvOutpVolt vi io ph off = .ok (0, true) ∧ c.solvInpCurr vi io ph off = c.iis := by
  unfold Comp.solvOutpVolt Comp.solvInpCurr
  simp only [hk, hsel, hina]
  cases hl : c.rsList with
  | none => simp
  | some l =>
    have := hrs l hl
    simp [Nat.not_lt.mpr this]

/-! ### Tree level: a dead node's children are dead in every steady state -/

/-- `(v, i)` with flags `st` is a fixed point of one forward and one backward sweep -/
def Steady (s : SSys α) (phase : String) (v i : Vec α) (st : St) : Prop :=
  (∀ n, n ∈ s.topo → ∃ b, s.fwdAt phase v i st n = .ok (vget v n, b)) ∧
  (∀ n, n ∈ s.topo → s.backAt phase v i st n = vget i n)

/-- In a steady state, a non-source, non-mux component fed (only) from a node at 0 V is itself at 0 V
    and draws 0 A. -/
theorem dead_child (s : SSys α) (phase : String) (v i : Vec α) (st : St)
    (hst : Steady s phase v i st) (c p : Nat) (nd : SNode α)
    (hc : c ∈ s.topo) (hnode : s.node? c = some nd) (hpar : nd.parents = [p])
    (hs : nd.comp.kind ≠ .source) (hm : nd.comp.kind ≠ .pmux) (hdead : vget v p = 0) :
    vget v c = 0 ∧ vget i c = 0 := by
  obtain ⟨b, hf⟩ := hst.1 c hc
  have hb := hst.2 c hc
  unfold SSys.fwdAt at hf
  unfold SSys.backAt at hb
  simp only [hnode, SSys.lawArgs, hpar, List.isEmpty_cons, Bool.false_eq_true, if_false, List.map_cons,
    List.map_nil] at hf hb
  have hdi := dead_input nd.comp hs hm [vget v p]
    (if nd.childs.isEmpty then 0 else s.childCurr c i v st) (nd.pconf.ctx phase) [sget st p]
    (Or.inl (by simpa using hdead))
  obtain ⟨⟨b', hv, _⟩, hi⟩ := hdi
  rw [hv] at hf
  simp only [Except.ok.injEq, Prod.mk.injEq] at hf
  exact ⟨hf.1.symm, by rw [← hb, hi]⟩

/-- … hence everything along a chain of single-supply components below a dead node is dead. -/
theorem dead_chain (s : SSys α) (phase : String) (v i : Vec α) (st : St)
    (hst : Steady s phase v i st) (top : Nat) (hdead : vget v top = 0) :
    ∀ (chain : List Nat), List.IsChain (fun p c => ∃ nd, c ∈ s.topo ∧ s.node? c = some nd ∧ nd.parents = [p] ∧
        nd.comp.kind ≠ .source ∧ nd.comp.kind ≠ .pmux) (top :: chain) →
      ∀ c ∈ chain, vget v c = 0 ∧ vget i c = 0 := by
  intro chain
  induction chain generalizing top with
  | nil => intro _ c hc; cases hc
  | cons x xs ih =>
    intro hch c hc
    rw [List.isChain_cons_cons] at hch
    obtain ⟨⟨nd, hx, hn, hp, hs, hm⟩, hrest⟩ := hch
    have hxd := dead_child s phase v i st hst x top nd hx hn hp hs hm hdead
    rcases List.mem_cons.mp hc with rfl | hc'
    · exact hxd
    · exact ih x hxd.1 hrest c hc'

end C04
end SysLoss
