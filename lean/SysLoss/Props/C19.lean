/-
  Props/C19 — diagrams show exactly the system; heat colours and labels follow the losses.

  Subject: `Diagram.diag` (Model/Diagram.lean), the structure `diagram._diag` hands to pydot:
  clusters with member nodes, top-level nodes, the legend, edges, attribute dictionaries — for the code after the
  fixes 26e3f60 (quoted node identifiers), e71248f (explicit label), f2aec6f (fresh legend name), c0d57b9 (clamped mix).
  The harness (harness/props/c19.py) compares that structure with Graphviz's own JSON output of
  `make_diag` / `make_hdiag` on every run, and evaluates the property's statement directly on that output.

   1. `nodes_exact`, `nodes_nodup`   one node per component, each once, plus a legend with a fresh name iff heat
      `nodes_exact_rendered_partial`  the same for the identifiers as Graphviz reads them (`_q(name)` round trip)
   2. `edges_exact`, `edges_rendered_partial`   the edge list is the parent → child list
   3. `clusters_on/off`, `clusters`, `cluster_rendered_partial`   cluster membership = non-empty group; none when off
   4. `override_precedence`, `heat_overrides`   default → class name → component name, label = name if none given;
      heat then sets three keys
   5. `config_unchanged`      the caller's configuration is the same value after the call (see the note there)
   6. `heat_order`, `heat_colour_order`, `colour_warm`, `colour_cold`, `heat_max_warm`, `heat_zero_cold`,
      `heat_colour_defined`, `legend_label`
   7. `nice_float_3sig`, `nice_float_si_range`   three significant digits, for every positive value
   8. `heat_loss_weighted`, `heat_label_loss`    the label's loss is Σ dₚ·Lossₚ / Σ dₚ

  Remaining gap (finding F23f): DOT cannot express a name with an odd run of backslashes directly before a `"` or
  at its end (`a\`, `b\"c`); `nodes_exact_rendered_partial` excludes exactly those names (`nameOk`), the full
  statement `C19_nodes_full` stays in the file and `c19_nodes_full_fails` refutes it on the witness `a\`.
-/
import SysLoss.Proofs.Diagram

set_option linter.unusedSectionVars false
set_option linter.unusedVariables false

namespace SysLoss
namespace C19
open Diagram

variable {sn : String} {comps : List CompIn} {edges : List (String × String)} {cfg : Config}
  {group : Bool} {heat : Option (HeatIn Rat)} {d : DotGraph}

/-! ### 1. nodes -/

/-- the legend's name: `Scale`, with as many `_` appended as needed to differ from every component -/
def legendName (comps : List CompIn) : String := freshScale (comps.map CompIn.name)

/-- **nodes_exact.** The node names the graph declares (cluster members, top level, legend) are the component
    names — a permutation, so each exactly as often as it occurs in the system, i.e. once — plus the legend
    exactly in heat mode. -/
theorem nodes_exact (h : diag sn comps edges cfg group heat = .ok d) :
    d.nodeNames.Perm (comps.map (·.name) ++ (if heat.isSome then [legendName comps] else [])) := by
  obtain ⟨hcl, htop, hsc, _⟩ := diag_inv h
  have e1 : d.clusters.flatMap (fun c => c.nodes.map (·.name))
      = (layout comps group).1.flatMap (fun gm => gm.2.map (·.name)) := by
    refine forall₂_flatMap _ _ ?_ (mapE_forall₂ _ _ _ hcl)
    intro gm cl hR
    exact mapE_map _ _ _ mkNode_name _ _ (mkCluster_inv hR).2.2.1
  have e2 : d.nodes.map (·.name) = (layout comps group).2.map (·.name) :=
    mapE_map _ _ _ mkNode_name _ _ htop
  have e3 : d.scale.toList.map (·.name) = (if heat.isSome then [legendName comps] else []) := by
    cases heat with
    | none => simp only at hsc; simp [hsc]
    | some hh =>
      obtain ⟨gconf, s, _, hs, hd⟩ := hsc
      simp [hd, (mkScale_inv hs).1, legendName]
  unfold DotGraph.nodeNames
  rw [e1, e2, e3]
  refine List.Perm.append_right _ ?_
  have hp := (layout_perm comps group).map (·.name)
  rw [List.map_append, List.map_flatMap] at hp
  exact hp

/-- the legend is never confused with a component (also not with one called `Scale`) -/
theorem legend_fresh (comps : List CompIn) : legendName comps ∉ comps.map (·.name) :=
  freshScale_not_mem _

/-- with distinct component names, no node is declared twice — legend included -/
theorem nodes_nodup (h : diag sn comps edges cfg group heat = .ok d)
    (hn : (comps.map (·.name)).Nodup) : d.nodeNames.Nodup := by
  refine (nodes_exact h).nodup_iff.mpr ?_
  split_ifs
  · rw [List.nodup_append]
    refine ⟨hn, by simp, ?_⟩
    intro a ha b hb
    simp only [List.mem_singleton] at hb
    subst hb
    intro e; subst e
    exact legend_fresh comps ha
  · simpa using hn

/-! ### 2. edges -/

/-- **edges_exact.** One edge per parent → child link, in order, and nothing else; every edge carries the
    `edge` section of the configuration. -/
theorem edges_exact (h : diag sn comps edges cfg group heat = .ok d) :
    d.edges.map (fun e => (e.src, e.dst)) = edges ∧
    ∀ e ∈ d.edges, (effConf cfg).edge = some e.attrs := by
  obtain ⟨_, _, _, he, ha, _⟩ := diag_inv h
  exact ⟨he, ha⟩

/-! ### 3. clusters -/

theorem layout_on (comps : List CompIn) :
    (layout comps true).1 = (groupsOf comps).map (fun g => (g, comps.filter (fun c => c.group = g))) ∧
    (layout comps true).2 = comps.filter (fun c => c.group = "") := by
  unfold layout
  constructor
  · by_cases he : (groupsOf comps).isEmpty = true
    · simp only [he, Bool.not_true, Bool.and_false, Bool.false_eq_true, if_false]
      rw [List.isEmpty_iff] at he
      rw [he]; rfl
    · simp [he]
  · simp

/-- **clusters (grouping off).** No clusters; every component is a top-level node. -/
theorem clusters_off (h : diag sn comps edges cfg false heat = .ok d) :
    d.clusters = [] ∧ d.nodes.map (·.name) = comps.map (·.name) := by
  obtain ⟨hcl, htop, _⟩ := diag_inv h
  have l1 : (layout comps false).1 = [] := by simp [layout]
  have l2 : (layout comps false).2 = comps := by simp [layout]
  rw [l1] at hcl
  rw [l2] at htop
  refine ⟨?_, mapE_map _ _ _ mkNode_name _ _ htop⟩
  simp only [mapE, Except.ok.injEq] at hcl
  exact hcl.symm

/-- **clusters (grouping on).** One cluster `cluster_<g>` labelled `g` per non-empty group name in use, holding
    exactly the components of that group; the components without a group are the top-level nodes. -/
theorem clusters_on (h : diag sn comps edges cfg true heat = .ok d) :
    d.clusters.map (fun cl => (cl.name, cl.label, cl.nodes.map (·.name)))
      = (groupsOf comps).map (fun g => ("cluster_" ++ g, g, (comps.filter (fun c => c.group = g)).map (·.name))) ∧
    d.nodes.map (·.name) = (comps.filter (fun c => c.group = "")).map (·.name) := by
  obtain ⟨hcl, htop, _⟩ := diag_inv h
  rw [(layout_on comps).1] at hcl
  rw [(layout_on comps).2] at htop
  refine ⟨?_, mapE_map _ _ _ mkNode_name _ _ htop⟩
  have := mapE_map (mkCluster (effConf cfg) (heat.map prepLoss))
    (fun cl : DCluster => (cl.name, cl.label, cl.nodes.map (·.name)))
    (fun gm : String × List CompIn => ("cluster_" ++ gm.1, gm.1, gm.2.map (·.name)))
    (by
      intro gm cl hR
      obtain ⟨h1, h2, h3, _⟩ := mkCluster_inv hR
      simp only [h1, h2, mapE_map _ _ _ mkNode_name _ _ h3])
    _ _ hcl
  rw [this, List.map_map]
  rfl

/-- **clusters**, member-wise, for a system with distinct component names: a component's node is inside the
    cluster of `g` iff its group is `g` (and `g ≠ ""`); every non-empty group has its cluster; the node is at
    top level iff the component has no group. -/
theorem clusters (h : diag sn comps edges cfg true heat = .ok d)
    (hnd : (comps.map (·.name)).Nodup) (c : CompIn) (hc : c ∈ comps) :
    (∀ cl ∈ d.clusters, cl.label ≠ "" ∧ cl.name = "cluster_" ++ cl.label ∧
        (c.name ∈ cl.nodes.map (·.name) ↔ c.group = cl.label)) ∧
    (c.group ≠ "" → ∃ cl ∈ d.clusters, cl.label = c.group) ∧
    (c.name ∈ d.nodes.map (·.name) ↔ c.group = "") := by
  obtain ⟨h1, h2⟩ := clusters_on h
  have inj := List.inj_on_of_nodup_map hnd
  have key : ∀ g : String, c.name ∈ (comps.filter (fun c => c.group = g)).map (·.name) ↔ c.group = g := by
    intro g
    simp only [List.mem_map, List.mem_filter, decide_eq_true_eq]
    constructor
    · rintro ⟨c', ⟨hc', hg⟩, hn⟩
      have : c' = c := inj hc' hc hn
      rw [← this]; exact hg
    · intro hg; exact ⟨c, ⟨hc, hg⟩, rfl⟩
  refine ⟨?_, ?_, ?_⟩
  · intro cl hcl
    have hm : (cl.name, cl.label, cl.nodes.map (·.name)) ∈
        d.clusters.map (fun cl => (cl.name, cl.label, cl.nodes.map (·.name))) :=
      List.mem_map.mpr ⟨cl, hcl, rfl⟩
    rw [h1] at hm
    obtain ⟨g, hg, he⟩ := List.mem_map.mp hm
    simp only [Prod.mk.injEq] at he
    obtain ⟨e1, e2, e3⟩ := he
    refine ⟨?_, ?_, ?_⟩
    · rw [← e2]; exact ((mem_groupsOf comps g).mp hg).1
    · rw [← e1, ← e2]
    · rw [← e3, ← e2]; exact key g
  · intro hne
    have hg : c.group ∈ groupsOf comps := (mem_groupsOf comps c.group).mpr ⟨hne, c, hc, rfl⟩
    have hm : ("cluster_" ++ c.group, c.group, (comps.filter (fun x => x.group = c.group)).map (·.name)) ∈
        (groupsOf comps).map (fun g => ("cluster_" ++ g, g, (comps.filter (fun c => c.group = g)).map (·.name))) :=
      List.mem_map.mpr ⟨c.group, hg, rfl⟩
    rw [← h1] at hm
    obtain ⟨cl, hcl, he⟩ := List.mem_map.mp hm
    simp only [Prod.mk.injEq] at he
    exact ⟨cl, hcl, he.2.1⟩
  · rw [h2]; exact key ""

/-! ### 4. attribute overrides -/

/-- the documented precedence: the component's own entry, else its class's entry, else the default -/
def specAttr (ns : Sect) (cls name k : String) : Option String :=
  match (sget ns name).bind (fun o => aget o k) with
  | some v => some v
  | none =>
    match (sget ns cls).bind (fun o => aget o k) with
    | some v => some v
    | none => (sget ns "default").bind (fun o => aget o k)

theorem nodeConf_spec {ns : Sect} {cls name : String} {conf : Attrs}
    (h : nodeConf ns cls name = .ok conf) (k : String) : aget conf k = specAttr ns cls name k := by
  unfold nodeConf at h
  unfold specAttr
  cases hd : sget ns "default" with
  | none => simp [hd] at h
  | some dflt =>
    simp only [hd, Except.ok.injEq] at h
    subst h
    cases hc : sget ns cls <;> cases hn : sget ns name <;>
      simp only [Option.bind_some, Option.bind_none, aget_aupd] <;>
      (try cases aget ‹Attrs› k) <;> (try cases aget ‹Attrs› k) <;> rfl

/-- every component node of the graph is `add_node` of a component of the system -/
theorem node_origin (h : diag sn comps edges cfg group heat = .ok d) (n : DNode) (hn : n ∈ d.allNodes) :
    ∃ c ∈ comps, mkNode (effConf cfg).node (heat.map prepLoss) c = .ok n := by
  obtain ⟨hcl, htop, _⟩ := diag_inv h
  have sub1 : ∀ gm ∈ (layout comps group).1, ∀ c ∈ gm.2, c ∈ comps := by
    intro gm hgm c hc
    unfold layout at hgm
    simp only at hgm
    split_ifs at hgm
    · obtain ⟨g, _, rfl⟩ := List.mem_map.mp hgm
      exact (List.mem_filter.mp hc).1
    · simp at hgm
  have sub2 : ∀ c ∈ (layout comps group).2, c ∈ comps := by
    intro c hc
    unfold layout at hc
    exact (List.mem_filter.mp hc).1
  unfold DotGraph.allNodes at hn
  rcases List.mem_append.mp hn with hn | hn
  · obtain ⟨cl, hcl', hncl⟩ := List.mem_flatMap.mp hn
    obtain ⟨gm, hgm, hR⟩ := forall₂_mem_right (mapE_forall₂ _ _ _ hcl) cl hcl'
    obtain ⟨c, hc, hRc⟩ := forall₂_mem_right (mapE_forall₂ _ _ _ (mkCluster_inv hR).2.2.1) n hncl
    exact ⟨c, sub1 gm hgm c hc, hRc⟩
  · obtain ⟨c, hc, hRc⟩ := forall₂_mem_right (mapE_forall₂ _ _ _ htop) n hn
    exact ⟨c, sub2 c hc, hRc⟩

/-- **override_precedence.** For every component node: each attribute has the value of the component's own
    entry in `config["node"]` if that entry sets it, else of its class's entry, else of the default entry — in the
    plain diagram for every key, in the heat diagram for every key but `fillcolor`, `fontcolor`, `label`; and the
    plain diagram's `label` is the component's name when no level sets one. -/
theorem override_precedence (h : diag sn comps edges cfg group heat = .ok d) (n : DNode)
    (hn : n ∈ d.allNodes) :
    ∃ c ∈ comps, ∃ ns, n.name = c.name ∧ (effConf cfg).node = some ns ∧
      (∀ k, k ≠ "label" → (heat = none ∨ (k ≠ "fillcolor" ∧ k ≠ "fontcolor")) →
        aget n.attrs k = specAttr ns c.kind.className c.name k) ∧
      (heat = none →
        aget n.attrs "label" = some ((specAttr ns c.kind.className c.name "label").getD c.name)) := by
  obtain ⟨c, hc, hm⟩ := node_origin h n hn
  obtain ⟨hname, ns, conf, hns, hconf, hattrs⟩ := mkNode_inv hm
  refine ⟨c, hc, ns, hname, hns, ?_, ?_⟩
  · intro k hkl hk
    cases heat with
    | none =>
      simp only [Option.map_none] at hattrs
      rw [hattrs, aget_withLabel, if_neg hkl]; exact nodeConf_spec hconf k
    | some hh =>
      simp only [Option.map_some] at hattrs
      obtain ⟨conf', hh', hattrs⟩ := hattrs
      rcases hk with hk | ⟨k1, k2⟩
      · cases hk
      · obtain ⟨r, col, _, _, e⟩ := heatNode_inv hh'
        rw [hattrs, aget_withLabel, if_neg hkl, e, aget_aset_ne _ _ _ _ (Ne.symm hkl),
          aget_aset_ne _ _ _ _ (Ne.symm k2), aget_aset_ne _ _ _ _ (Ne.symm k1)]
        exact nodeConf_spec hconf k
  · intro hnone
    subst hnone
    simp only [Option.map_none] at hattrs
    rw [hattrs, aget_withLabel, if_pos rfl, nodeConf_spec hconf]

/-- cluster attributes: the group's own entry in `config["cluster"]`, else the default entry -/
theorem cluster_precedence {cs : Sect} {g : String} {conf : Attrs} (h : clusterConf cs g = .ok conf)
    (k : String) :
    aget conf k = match (sget cs g).bind (fun o => aget o k) with
                  | some v => some v
                  | none => (sget cs "default").bind (fun o => aget o k) := by
  unfold clusterConf at h
  cases hd : sget cs "default" with
  | none => simp [hd] at h
  | some dflt =>
    simp only [hd, Except.ok.injEq] at h
    subst h
    cases hg : sget cs g <;> simp only [Option.bind_some, Option.bind_none, aget_aupd]
    · rfl

/-- **heat overrides.** In the heat diagram every component node's `fillcolor` is `_gcolor` of its row's mix,
    its `fontcolor` is `silver`, and its label is `<name>\n<nice loss>W` of the same row of `_prep_loss`. -/
theorem heat_overrides {hh : HeatIn Rat} (h : diag sn comps edges cfg group (some hh) = .ok d) (n : DNode)
    (hn : n ∈ d.allNodes) :
    ∃ r ∈ prepLoss hh, r.name = n.name ∧
      (∃ col, gcolor r.mix = .ok col ∧ aget n.attrs "fillcolor" = some col) ∧
      aget n.attrs "fontcolor" = some "silver" ∧
      aget n.attrs "label" = some (n.name ++ "\n" ++ niceFloat r.loss ++ "W") := by
  obtain ⟨c, hc, hm⟩ := node_origin h n hn
  obtain ⟨hname, ns, conf, hns, hconf, hattrs⟩ := mkNode_inv hm
  simp only [Option.map_some] at hattrs
  obtain ⟨conf', hh', hattrs⟩ := hattrs
  obtain ⟨r, col, hfind, hcol, e⟩ := heatNode_inv hh'
  have hr : r ∈ prepLoss hh := List.mem_of_find?_eq_some hfind
  have hrn : r.name = c.name := by
    have := List.find?_some hfind
    simpa using this
  refine ⟨r, hr, by rw [hrn, hname], ⟨col, hcol, ?_⟩, ?_, ?_⟩
  · rw [hattrs, aget_withLabel, if_neg (by decide), e, aget_aset_ne _ _ _ _ (by decide),
      aget_aset_ne _ _ _ _ (by decide), aget_aset_self]
  · rw [hattrs, aget_withLabel, if_neg (by decide), e, aget_aset_ne _ _ _ _ (by decide), aget_aset_self]
  · rw [hattrs, aget_withLabel, if_pos rfl, e, aget_aset_self, hname]
    rfl

/-! ### 5. configuration -/

/-- **config_unchanged.** In the model the caller's configuration is a *value*: `diag` reads it
    (`effConf`: `{}` → the defaults, else the caller's entries) and cannot change it, so "unchanged" holds by
    construction — `diagRun` returns the argument as the configuration after the call.  The claim about the
    Python code (no aliasing between `bd_conf` and `config`, no write through `attrs[…]`) is therefore *not*
    this theorem but the correspondence check: the harness deep-compares the caller's dict before and after
    every `make_diag` / `make_hdiag` call with what `diagRun` returns. -/
theorem config_unchanged (sn : String) (comps : List CompIn) (edges : List (String × String)) (cfg : Config)
    (group : Bool) (heat : Option (HeatIn Rat)) :
    (diagRun sn comps edges cfg group heat).2 = cfg ∧
    (diagRun sn comps edges cfg group heat).1 = diag sn comps edges cfg group heat := ⟨rfl, rfl⟩

/-- `config == {}` means the defaults -/
theorem config_empty_is_default : effConf {} = defConf := rfl

/-! ### 6. heat colours and legend -/

section
variable {α : Type} [Field α] [LinearOrder α] [IsStrictOrderedRing α]

/-- the `Mix` column is monotone in the loss whenever the largest loss is not negative -/
theorem mix_order {h : HeatIn α} (hmax : 0 ≤ maxOf (heatLosses h)) {a b : HeatRow α}
    (ha : a ∈ prepLoss h) (hb : b ∈ prepLoss h) (hab : a.loss ≤ b.loss) : a.mix ≤ b.mix :=
  mix_mono hmax ha hb hab

/-- the largest loss (if not zero) has mix 1, and it is some component's loss -/
theorem heat_max_warm {h : HeatIn α} (hne : maxOf (heatLosses h) ≠ 0) :
    (∀ r ∈ prepLoss h, r.loss = maxOf (heatLosses h) → r.mix = 1) ∧
    (h.rows ≠ [] → maxOf (heatLosses h) ∈ heatLosses h) := by
  refine ⟨fun r hr hm => mix_at_max hr hm hne, ?_⟩
  intro hrows
  apply maxOf_mem
  unfold heatLosses
  cases hh : h.rows with
  | nil => exact absurd hh hrows
  | cons a t => simp [List.range_succ]

/-- zero loss has mix 0 -/
theorem heat_zero_cold {h : HeatIn α} {r : HeatRow α} (hr : r ∈ prepLoss h) (hz : r.loss = 0) :
    r.mix = 0 := mix_at_zero hr hz

end

/-- **heat_order.** Colours are ordered as the losses, without any assumption on the losses: the mix `_gcolor`
    actually uses (clamped to `[0, 1]`) never decreases when the loss increases.  (If even the largest loss is
    negative every quotient `loss / max` is ≥ 1 and all components are fully warm.) -/
theorem heat_order {h : HeatIn ℚ} {a b : HeatRow ℚ}
    (ha : a ∈ prepLoss h) (hb : b ∈ prepLoss h) (hab : a.loss ≤ b.loss) :
    clamp01 a.mix ≤ clamp01 b.mix := by
  rcases le_or_gt 0 (maxOf (heatLosses h)) with hmax | hneg
  · exact clamp01_mono (mix_mono hmax ha hb hab)
  · have one : ∀ r ∈ prepLoss h, clamp01 r.mix = 1 := by
      intro r hr
      obtain ⟨_, _, _, e, hl⟩ := prepLoss_mem hr
      have hle := le_maxOf hl
      have : 1 ≤ r.mix := by
        rw [e, mixDen_of_ne _ hneg.ne, le_div_iff_of_neg hneg]
        linarith
      rw [clamp01_eq, max_eq_left (by linarith), min_eq_right this]
    rw [one a ha, one b hb]

/-- channel-wise monotone colour: a larger mix is at least as red and at most as green and blue -/
theorem heat_colour_order {m m' : ℚ} (h : m ≤ m') {c c' : ℕ × ℕ × ℕ}
    (hc : gchannels m = .ok c) (hc' : gchannels m' = .ok c') :
    c.1 ≤ c'.1 ∧ c'.2.1 ≤ c.2.1 ∧ c'.2.2 ≤ c.2.2 := gchannels_mono h hc hc'

/-- mix 1 is exactly the warm colour -/
theorem colour_warm : gcolor 1 = .ok "#ff1210" := by decide +kernel

/-- mix 0 is exactly the cold colour -/
theorem colour_cold : gcolor 0 = .ok "#2120ff" := by decide +kernel

/-- every component has a colour, whatever the losses (`to_hex` is never handed a value outside `[0, 1]`) -/
theorem heat_colour_defined (m : ℚ) : ∃ col, gcolor m = .ok col := gcolor_ok m

/-- inside `[0, 1]` (always the case for non-negative losses, `mix_range`) the clamp changes nothing -/
theorem clamp_id {h : HeatIn ℚ} (hpos : ∀ l ∈ heatLosses h, 0 ≤ l) {r : HeatRow ℚ}
    (hr : r ∈ prepLoss h) : clamp01 r.mix = r.mix := by
  obtain ⟨h0, h1⟩ := mix_range hpos hr
  exact clamp01_of_range h0 h1

/-- **legend.** The heat diagram has the legend node (`Scale`, or `Scale_…` if a component has that name) whose
    label shows `_nice_float` of the largest loss (in braces for top-bottom layouts). -/
theorem legend_label {hh : HeatIn Rat} (h : diag sn comps edges cfg group (some hh) = .ok d) :
    ∃ s gconf rd, d.scale = some s ∧ s.name = legendName comps ∧ (effConf cfg).graph = some gconf ∧
      aget gconf "rankdir" = some rd ∧
      aget s.attrs "label" = some
        (if rd = "TB" ∨ rd = "BT" then "{" ++ (niceFloat (maxOf (heatLosses hh)) ++ "W|  |  | 0W") ++ "}"
         else niceFloat (maxOf (heatLosses hh)) ++ "W|  |  | 0W") := by
  obtain ⟨_, _, hsc, _⟩ := diag_inv h
  obtain ⟨gconf, s, hg, hs, hd⟩ := hsc
  obtain ⟨hn, rd, hrd, hl⟩ := mkScale_inv hs
  exact ⟨s, gconf, rd, hd, hn, hg, hrd, hl⟩

/-- the plain diagram has no legend -/
theorem no_legend (h : diag sn comps edges cfg group none = .ok d) : d.scale = none := by
  obtain ⟨_, _, hsc, _⟩ := diag_inv h
  exact hsc

/-! ### 7. SI formatting -/

/-- **nice_float_3sig.** For *every* positive value the number `_nice_float` shows (`niceVal`: the decimal with
    its SI prefix, or the `%.2e` form outside the prefix range) differs from the value by at most half a unit
    of the value's third significant digit (`decade f = ⌊log₁₀ f⌋`, see `decade_bounds`).  The digit string
    itself (`renderDec`, `fmtE2`) is compared with Python's on every run. -/
theorem nice_float_3sig (f : ℚ) (hf : 0 < f) : |niceVal f - f| ≤ (1/2) * (10:ℚ) ^ (decade f - 2) :=
  niceVal_3sig f hf

theorem decade_bounds (f : ℚ) (hf : 0 < f) : (10:ℚ) ^ decade f ≤ f ∧ f < (10:ℚ) ^ (decade f + 1) :=
  decade_spec f hf

/-- between `1e-13` and `99999995` the SI-prefix form is the one used -/
theorem nice_float_si_range (f : ℚ) (h1 : (10:ℚ) ^ (-13 : ℤ) ≤ f) (h2 : f < 99999995) :
    ∃ p k nd, niceSel (expOf f) = some (p, k, nd) := nice_si_form f h1 h2

/-! ### 8. duration-weighted loss -/

section
variable {α : Type} [Field α] [LinearOrder α] [IsStrictOrderedRing α]

/-- **heat_loss_weighted.** With load phases the loss used for row `i` is `Σₚ dₚ·Lossₚ[i] / Σₚ dₚ`;
    without phases it is the `Loss (W)` cell. -/
theorem heat_loss_weighted (h : HeatIn α) (i : ℕ) :
    (h.phases ≠ [] → wloss h i = (List.zipWith (fun p l => p.2 * l.getD i 0) h.phases h.loss).sum
                                    / (h.phases.map (·.2)).sum) ∧
    (h.phases = [] → wloss h i = (h.loss.headD []).getD i 0) :=
  ⟨fun hp => wloss_weighted h hp i, fun hp => wloss_single h hp i⟩

/-- every row of `_prep_loss` carries that loss, for the row position of its component -/
theorem heat_label_loss {h : HeatIn α} {r : HeatRow α} (hr : r ∈ prepLoss h) :
    ∃ i, h.rows[i]? = some r.name ∧ r.loss = wloss h i := by
  obtain ⟨i, h1, h2, _⟩ := prepLoss_mem hr
  exact ⟨i, h1, h2⟩

end

/-! ### node identifiers as Graphviz reads them (fixes F23, F23b, F23c; remaining: F23f) -/

/-- the legend's name is one DOT can express -/
theorem legendName_ok (comps : List CompIn) : nameOk (legendName comps) = true := by
  have key : ∀ (names : List String) (fuel : ℕ) (s : String), '\\' ∉ s.toList →
      '\\' ∉ (freshFrom names fuel s).toList := by
    intro names fuel
    induction fuel with
    | zero => intro s hs; exact hs
    | succ k ih =>
      intro s hs
      unfold freshFrom
      split_ifs
      · apply ih
        rw [String.toList_append]
        simp only [List.mem_append, not_or]
        exact ⟨hs, by decide⟩
      · exact hs
  exact bsOk_of_no_backslash _ (key _ _ "Scale" (by decide))

/-- names containing `:`, `"`, `<`, `>`, `{`, `}`, `|`, spaces, DOT keywords … are all read back as themselves -/
theorem renderedId_of_no_backslash (name : String) (h : '\\' ∉ name.toList) : renderedId name = some name :=
  renderedId_eq name (bsOk_of_no_backslash _ h)

/-- **nodes_exact, as Graphviz reads the identifiers** (partial: every component name is one DOT can express,
    `nameOk` — no odd run of backslashes directly before a `"` or at the end). -/
theorem nodes_exact_rendered_partial (h : diag sn comps edges cfg group heat = .ok d)
    (hok : ∀ c ∈ comps, nameOk c.name = true) :
    (d.nodeNames.map renderedId).Perm
      ((comps.map (·.name) ++ (if heat.isSome then [legendName comps] else [])).map some) := by
  have hp := (nodes_exact h).map renderedId
  refine hp.trans (List.Perm.of_eq ?_)
  apply List.map_congr_left
  intro n hn
  rcases List.mem_append.mp hn with hn | hn
  · obtain ⟨c, hc, rfl⟩ := List.mem_map.mp hn
    exact renderedId_eq _ (hok c hc)
  · split_ifs at hn
    · simp only [List.mem_singleton] at hn
      subst hn
      exact renderedId_eq _ (legendName_ok comps)
    · simp at hn

/-- the edges join the rendered identifiers of parent and child -/
theorem edges_rendered_partial (h : diag sn comps edges cfg group heat = .ok d)
    (hok : ∀ e ∈ edges, nameOk e.1 = true ∧ nameOk e.2 = true) :
    d.edges.map (fun e => (renderedId e.src, renderedId e.dst)) = edges.map (fun e => (some e.1, some e.2)) := by
  have he := (edges_exact h).1
  rw [← he, List.map_map]
  apply List.map_congr_left
  intro e hmem
  have hm : (e.src, e.dst) ∈ edges := by rw [← he]; exact List.mem_map.mpr ⟨e, hmem, rfl⟩
  obtain ⟨h1, h2⟩ := hok _ hm
  simp [renderedId_eq _ h1, renderedId_eq _ h2]

/-- the cluster identifier `_q("cluster_" + g)` is read back as `cluster_<g>` for every group name DOT can express
    (`:`, `"`, `<`, `>` … included: fix c7c5e36) -/
theorem cluster_rendered_partial (g : String) (h : nameOk g = true) :
    renderedId ("cluster_" ++ g) = some ("cluster_" ++ g) := by
  apply renderedId_eq
  unfold nameOk at h ⊢
  rw [String.toList_append, bsOk_append_of_no_backslash _ _ (by decide)]
  exact h

/-- the full statement: for every system, the node identifiers Graphviz ends up with are the component names
    (plus the legend) -/
def C19_nodes_full : Prop :=
  ∀ (sn : String) (comps : List CompIn) (edges : List (String × String)) (cfg : Config) (group : Bool)
    (heat : Option (HeatIn Rat)) (d : DotGraph),
    diag sn comps edges cfg group heat = .ok d →
    (d.nodeNames.map renderedId).Perm
      ((comps.map (·.name) ++ (if heat.isSome then [legendName comps] else [])).map some)

def f23fComps : List CompIn := [⟨"S", .source, ""⟩, ⟨"a\\", .iload, ""⟩]

instance : Inhabited DotGraph := ⟨⟨"", [], [], [], none, []⟩⟩

def f23fGraph : DotGraph :=
  match diag "s" f23fComps [("S", "a\\")] {} true none with
  | .ok d => d
  | .error _ => default

/-- **F23f.** A name ending in a backslash (`a\`) cannot be written as a DOT identifier: `_q` produces `"a\"`,
    whose closing quote Graphviz reads as an escaped one — the statement fails for the code as it stands. -/
theorem c19_nodes_full_fails : ¬ C19_nodes_full := by
  intro hfull
  have hd : diag "s" f23fComps [("S", "a\\")] {} true none = .ok f23fGraph := by decide +kernel
  have hp := hfull "s" f23fComps [("S", "a\\")] {} true none f23fGraph hd
  have e : f23fGraph.nodeNames.map renderedId = [some "S", none] := by decide +kernel
  rw [e] at hp
  have : (none : Option String) ∈
      ((f23fComps.map (·.name) ++ (if (none : Option (HeatIn Rat)).isSome then [legendName f23fComps] else [])).map some) :=
    hp.mem_iff.mp (by simp)
  simp at this

/-! ### non-vacuity: a concrete small system -/

def exComps : List CompIn :=
  [⟨"S", .source, ""⟩, ⟨"L 1", .iload, "g"⟩, ⟨"R", .rloss, "g"⟩, ⟨"P", .pload, ""⟩]
def exEdges : List (String × String) := [("S", "L 1"), ("S", "R"), ("R", "P")]
def exCfg : Config :=
  { defConf with
    node := some [("default", [("fillcolor", "gray95"), ("shape", "box")]),
                  ("ILoad", [("fillcolor", "coral"), ("shape", "oval")]),
                  ("L 1", [("shape", "octagon"), ("my key", "v")])] }
/-- phases a (1 s) and b (3 s); losses per phase in row order S, L 1, R, P -/
def exHeat : HeatIn Rat :=
  { rows := ["S", "L 1", "R", "P"], phases := [("a", 1), ("b", 3)],
    loss := [[0, 1/2, 1/10, 0], [0, 1, 1/10, 1/5]] }

def namesOf (r : Except Err DotGraph) : Option (List String) := r.toOption.map (·.nodeNames)
def attrOf (r : Except Err DotGraph) (n k : String) : Option String :=
  r.toOption.bind (fun d => (d.findNode n).bind (fun x => aget x.attrs k))

-- the hypotheses of the theorems are satisfiable and the conclusions say something:
example : namesOf (diag "x" exComps exEdges exCfg true none) = some ["L 1", "R", "S", "P"] := by decide +kernel
example : namesOf (diag "x" exComps exEdges exCfg false (some exHeat)) = some ["S", "L 1", "R", "P", "Scale"] := by
  decide +kernel
example : (diag "x" exComps exEdges exCfg true none).toOption.map (fun d => d.clusters.map (·.name))
    = some ["cluster_g"] := by decide +kernel
example : (diag "x" exComps exEdges {} true none).toOption.map (fun d => d.edges.map (fun e => (e.src, e.dst)))
    = some exEdges := by decide +kernel
-- precedence: name beats class beats default
example : attrOf (diag "x" exComps exEdges exCfg true none) "L 1" "shape" = some "octagon" := by decide +kernel
example : attrOf (diag "x" exComps exEdges exCfg true none) "L 1" "fillcolor" = some "coral" := by decide +kernel
example : attrOf (diag "x" exComps exEdges exCfg true none) "R" "fillcolor" = some "gray95" := by decide +kernel
example : attrOf (diag "x" exComps exEdges exCfg true none) "L 1" "my key" = some "v" := by decide +kernel
-- heat: weighted loss (1·0.5 + 3·1)/4 = 0.875 is the maximum → fully warm; zero loss → fully cold
example : attrOf (diag "x" exComps exEdges exCfg true (some exHeat)) "L 1" "label" = some "L 1\n0.875W" := by
  decide +kernel
example : attrOf (diag "x" exComps exEdges exCfg true (some exHeat)) "L 1" "fillcolor" = some "#ff1210" := by
  decide +kernel
example : attrOf (diag "x" exComps exEdges exCfg true (some exHeat)) "S" "fillcolor" = some "#2120ff" := by
  decide +kernel
example : attrOf (diag "x" exComps exEdges exCfg true (some exHeat)) "P" "label" = some "P\n0.15W" := by
  decide +kernel
example : (diag "x" exComps exEdges exCfg true (some exHeat)).toOption.bind
    (fun d => d.scale.bind (fun s => aget s.attrs "label")) = some "{0.875W|  |  | 0W}" := by decide +kernel
example : (wloss exHeat 1 : ℚ) = (1 * (1/2) + 3 * 1) / (1 + 3) := by decide +kernel
-- SI formatting
example : niceFloat (1/3) = "0.333" := by decide +kernel
example : niceFloat (12345/10) = "1.23k" := by decide +kernel
example : niceFloat (403/1000000) = "0.403m" := by decide +kernel
example : niceFloat (3/16) = "0.188" := by decide +kernel            -- 0.1875 is a tie: half-even
example : niceFloat (999999996/100000000) = "10.0" := by decide +kernel  -- the band below a power of ten
example : niceFloat (1/100000000000000) = "1.00e-14" := by decide +kernel
example : niceFloat 0 = "0.0" := by decide +kernel
example : |niceVal (12345/10) - 12345/10| ≤ (1/2) * (10:ℚ) ^ (decade (12345/10) - 2) :=
  nice_float_3sig _ (by norm_num)
-- a mix of 1/4 is a rounding tie on the red channel (88.5 → 88)
example : gcolor (1/4) = .ok "#581cc3" := by decide +kernel
-- the repaired code: explicit label, fresh legend name, quoted identifiers, clamped mix
example : attrOf (diag "x" exComps exEdges exCfg true none) "R" "label" = some "R" := by decide +kernel
example : namesOf (diag "x" [⟨"Scale", .source, ""⟩, ⟨"Scale_", .iload, ""⟩] [("Scale", "Scale_")] {} true
    (some { rows := ["Scale", "Scale_"], phases := [], loss := [[0, 1/2]] })) = some ["Scale", "Scale_", "Scale__"] := by
  decide +kernel
example : [renderedId "A:x", renderedId "node", renderedId "a\"b", renderedId "<ab>", renderedId "x\\y{|}"]
    = [some "A:x", some "node", some "a\"b", some "<ab>", some "x\\y{|}"] := by decide +kernel
example : renderedId "cluster_a:b" = some "cluster_a:b" ∧ renderedId "cluster_g\"1" = some "cluster_g\"1" := by decide +kernel
example : renderedId "a\\" = none ∧ renderedId "b\\\"c" = none ∧ renderedId "a\\\\" = some "a\\\\" := by decide +kernel
example : gcolor (-1/100000000) = .ok "#2120ff" ∧ gcolor 7 = .ok "#ff1210" := by decide +kernel
-- errors of the real code are errors of the model
example : (diag "x" exComps exEdges { graph := some [] } true none).toOption = none := by decide +kernel

end C19
end SysLoss
