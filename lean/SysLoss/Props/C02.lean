/-
  Props/C02 — energy is conserved and losses / efficiency / temperature are accounted exactly.

  Law level (for arbitrary row values, no iteration):
   * `pml_<kind>`      : Power − Loss = |Vout|·Iout whenever the row obeys the documented law of its kind
   * `loss_range_…`    : 0 ≤ Loss ≤ Power under accepted parameters
   * `eff_formula`     : Power > 0 ∧ 0 ≤ Loss ≤ Power → Eff = 100·(Power−Loss)/Power ∈ [0, 100]
   * `load_xor`        : a load reports its consumption as Power or as Loss, never both
   * `rise_*`          : rise = rt·Loss, peak = ta + rise for non-load, non-source kinds and for loss-loads;
                         false for non-loss loads (finding F24, test-pinned): `load_rise_full_fails`
-/
import SysLoss.Proofs.Basic
import SysLoss.Spec.Laws
import SysLoss.Spec.Phys
import SysLoss.Model.Table
import Mathlib.Tactic.Positivity
import SysLoss.Proofs.Tree
import Mathlib.Tactic.NormNum
import Mathlib.Tactic.FinCases
import Mathlib.Data.Fin.VecNotation
import Mathlib.Algebra.BigOperators.Fin

set_option linter.unusedSectionVars false
set_option linter.unusedVariables false

namespace SysLoss
namespace C02
variable {α : Type} [Field α] [LinearOrder α] [IsStrictOrderedRing α]

/-- `_get_eff` on a physical row is the textbook efficiency, within [0, 100]. -/
theorem eff_formula (p l d : α) (hp : 0 < p) (hl0 : 0 ≤ l) (hl : l ≤ p) :
    getEff p (p - l) d = 100 * (p - l) / p ∧ 0 ≤ getEff p (p - l) d ∧ getEff p (p - l) d ≤ 100 := by
  unfold getEff
  rw [if_pos hp, nabs_eq_abs, abs_of_nonneg (div_nonneg (by linarith) hp.le)]
  refine ⟨by ring, ?_, ?_⟩
  · apply mul_nonneg (by norm_num); exact div_nonneg (by linarith) hp.le
  · have : (p - l) / p ≤ 1 := by rw [div_le_one hp]; linarith
    nlinarith

/-- A load reports its consumption |Vin·Iin| as Power, or as Loss when configured so — never both. -/
theorem load_xor (c : Comp α) (hk : c.kind = .pload ∨ c.kind = .iload ∨ c.kind = .rload)
    (vi vo ii io ta : α) (ph : PhaseCtx α) :
    let r := c.solvPwrLoss vi vo ii io ta ph
    (c.loss = true → r.pwr = 0 ∧ r.loss = |vi * ii|) ∧ (c.loss = false → r.pwr = |vi * ii| ∧ r.loss = 0) := by
  intro r
  have hr : r = c.solvPwrLoss vi vo ii io ta ph := rfl
  unfold Comp.solvPwrLoss at hr
  rcases hk with hk | hk | hk <;> simp only [hk] at hr <;>
  · by_cases hz : isZ vi = true
    · have hv : vi = 0 := (isZ_iff _).mp hz
      by_cases hl : c.loss = true <;> simp [hr, hz, hl, PL.zeros, hv]
    · by_cases hl : c.loss = true <;> simp [hr, hz, hl]

/-- Temperature of a load configured as a loss: rise = rt × Loss, peak = ambient + rise. -/
theorem rise_lossload (c : Comp α) (hk : c.kind = .pload ∨ c.kind = .iload ∨ c.kind = .rload)
    (hl : c.loss = true) (vi vo ii io ta : α) (ph : PhaseCtx α) (hv : vi ≠ 0) :
    let r := c.solvPwrLoss vi vo ii io ta ph
    r.tr = c.rt * r.loss ∧ r.tp = ta + r.tr := by
  intro r
  have hr : r = c.solvPwrLoss vi vo ii io ta ph := rfl
  have hz : isZ vi = false := (isZ_false_iff _).mpr hv
  unfold Comp.solvPwrLoss at hr
  rcases hk with hk | hk | hk <;> simp only [hk, hz, hl] at hr <;> simp [hr] <;> ring_nf <;> simp [mul_comm]

/-- The full temperature clause ("for every non-source component rise = rt × Loss") is false for
    the code as it stands: a load that is not a loss heats by its consumption while reporting Loss 0
    (finding F24; pinned by tests/unit/test_system.py::test_case13). -/
def load_rise_full : Prop :=
  ∀ (c : Comp ℚ), (c.kind = .pload) → ∀ vi vo ii io ta ph,
    (c.solvPwrLoss vi vo ii io ta ph).tr = c.rt * (c.solvPwrLoss vi vo ii io ta ph).loss

theorem load_rise_full_fails : ¬ load_rise_full := by
  intro h
  have := h { name := "T", kind := .pload, par := .const 0, pwr := 3/2, rt := 10 } (by rfl)
    12 0 (1/8) 0 25 ⟨false, false, 0⟩
  revert this
  decide +kernel

/-! ### Power − Loss = |Vout|·Iout, kind by kind, for rows obeying the documented law -/

/-- series resistor -/
theorem pml_rloss (c : Comp α) (hk : c.kind = .rloss) (hc : c.Phys) (vi io ta : α) (ph : PhaseCtx α)
    (hio : 0 ≤ io) (hpol : c.rs * io < |vi|) :
    let vo := specVo c 0 vi io ph
    let r := c.solvPwrLoss vi vo (specIi c vi io ph) io ta ph
    r.pwr - r.loss = |vo| * io ∧ 0 ≤ r.loss ∧ r.loss ≤ r.pwr ∧ r.tr = c.rt * r.loss ∧ r.tp = ta + r.tr := by
  intro vo r
  have hrs := abs_of_nonneg hc.rs
  have hvi : vi ≠ 0 := by
    intro e; rw [e, abs_zero] at hpol
    have := mul_nonneg hc.rs hio; linarith
  have hz : isZ vi = false := (isZ_false_iff _).mpr hvi
  have hr : r = c.solvPwrLoss vi vo (specIi c vi io ph) io ta ph := rfl
  have hvo : vo = vi - nsign vi * (c.rs * io) := by
    show specVo c 0 vi io ph = _
    unfold specVo; simp only [hk, nabs_eq_abs, hrs]
  have hii : specIi c vi io ph = io := by unfold specIi; simp only [hk, hz]; simp
  unfold Comp.solvPwrLoss at hr
  simp only [hk, hii, nabs_eq_abs] at hr
  rcases lt_or_gt_of_ne hvi with hn | hp
  · have hs := nsign_of_neg hn
    rw [abs_of_neg hn] at hpol
    have hvoneg : vi - c.rs * io * nsign vi < 0 := by rw [hs]; nlinarith
    have he : eqB (nsign (vi - c.rs * io * nsign vi)) (nsign vi) = true := by
      rw [eqB_iff, nsign_of_neg hvoneg, hs]
    simp only [he, Bool.not_true, Bool.false_eq_true, if_false] at hr
    have hvo' : vo = vi + c.rs * io := by rw [hvo, hs]; ring
    have hvoneg' : vo < 0 := by rw [hvo']; linarith
    rw [hr]; simp only
    rw [hs, hvo', abs_of_neg (by linarith : vi + c.rs * io < 0)]
    have h1 : |vi - (vi - c.rs * io * -1)| = c.rs * io := by
      rw [show vi - (vi - c.rs * io * -1) = -(c.rs * io) by ring, abs_neg]
      exact abs_of_nonneg (mul_nonneg hc.rs hio)
    have h2 : |vi * io| = -vi * io := by
      rw [abs_mul, abs_of_neg hn, abs_of_nonneg hio]
    rw [h1, h2]
    refine ⟨by ring, ?_, ?_, by ring, trivial⟩
    · exact mul_nonneg (mul_nonneg hc.rs hio) hio
    · nlinarith [mul_nonneg hc.rs hio]
  · have hs := nsign_of_pos hp
    rw [abs_of_pos hp] at hpol
    have hvopos : 0 < vi - c.rs * io * nsign vi := by rw [hs]; nlinarith
    have he : eqB (nsign (vi - c.rs * io * nsign vi)) (nsign vi) = true := by
      rw [eqB_iff, nsign_of_pos hvopos, hs]
    simp only [he, Bool.not_true, Bool.false_eq_true, if_false] at hr
    have hvo' : vo = vi - c.rs * io := by rw [hvo, hs]; ring
    rw [hr]; simp only
    rw [hs, hvo', abs_of_pos (by linarith : 0 < vi - c.rs * io)]
    have h1 : |vi - (vi - c.rs * io * 1)| = c.rs * io := by
      rw [show vi - (vi - c.rs * io * 1) = c.rs * io by ring]
      exact abs_of_nonneg (mul_nonneg hc.rs hio)
    have h2 : |vi * io| = vi * io := by
      rw [abs_mul, abs_of_pos hp, abs_of_nonneg hio]
    rw [h1, h2]
    refine ⟨by ring, ?_, ?_, by ring, trivial⟩
    · exact mul_nonneg (mul_nonneg hc.rs hio) hio
    · nlinarith [mul_nonneg hc.rs hio]

theorem abs_mul_of_nonneg_right (a b : α) (hb : 0 ≤ b) : |a * b| = |a| * b := by
  rw [abs_mul, abs_of_nonneg hb]

theorem eq_zero_of_abs_not_pos {x : α} (h : ¬ 0 < |x|) : x = 0 := by
  have := not_lt.mp h
  exact abs_eq_zero.mp (le_antisymm this (abs_nonneg x))

/-! ### Residual form: for *arbitrary* row values (non-negative currents) the defect of
    `Power − Loss = |Vout|·Iout` is an explicit multiple of the row's deviation from its current law. -/

/-- switch / mux, active -/
theorem pml_resid_switch (c : Comp α) (hk : c.kind = .pswitch ∨ c.kind = .pmux) (vi vo ii io ta : α)
    (ph : PhaseCtx α) (hact : ph.inactive = false) (hvi : vi ≠ 0) (hii : 0 ≤ ii) (hio : 0 ≤ io) :
    let r := c.solvPwrLoss vi vo ii io ta ph
    r.pwr - r.loss = |vo| * io + |vi| * (ii - (io + c.par.interp |io| |vi|))
      ∧ r.tr = c.rt * r.loss ∧ r.tp = ta + r.tr := by
  intro r
  have hr : r = c.solvPwrLoss vi vo ii io ta ph := rfl
  have hz : isZ vi = false := (isZ_false_iff _).mpr hvi
  unfold Comp.solvPwrLoss finishPL at hr
  rcases hk with hk | hk <;> simp only [hk, hz, hact, nabs_eq_abs, abs_mul_of_nonneg_right _ _ hii] at hr <;>
  · rw [hr]; simp only [Bool.false_eq_true, if_false]
    refine ⟨?_, by ring, by ring⟩
    split_ifs with h0
    · ring
    · rw [eq_zero_of_abs_not_pos h0]; simp; ring

/-- linear regulator, active: the loss routine recomputes the clamp `v` from `Vin` -/
theorem pml_resid_linreg (c : Comp α) (hk : c.kind = .linreg) (vi vo ii io ta : α)
    (ph : PhaseCtx α) (hact : ph.inactive = false) (hvi : vi ≠ 0) (hii : 0 ≤ ii) (hio : 0 ≤ io) :
    let r := c.solvPwrLoss vi vo ii io ta ph
    r.pwr - r.loss = |linregV c.vo c.vdrop vi| * io + |vi| * (ii - (io + c.par.interp |io| |vi|))
      ∧ r.tr = c.rt * r.loss ∧ r.tp = ta + r.tr := by
  intro r
  have hr : r = c.solvPwrLoss vi vo ii io ta ph := rfl
  have hz : isZ vi = false := (isZ_false_iff _).mpr hvi
  unfold Comp.solvPwrLoss finishPL at hr
  simp only [hk, hz, hact, nabs_eq_abs, abs_mul_of_nonneg_right _ _ hii] at hr
  rw [hr]; simp only [Bool.false_eq_true, if_false]
  refine ⟨?_, by ring, by ring⟩
  split_ifs with h0
  · ring
  · rw [eq_zero_of_abs_not_pos h0]; simp; ring

/-- converter, active, loaded: Power − Loss = |Vin|·Iin·eff -/
theorem pml_resid_converter (c : Comp α) (hk : c.kind = .converter) (hc : c.Phys) (vi vo ii io ta : α)
    (ph : PhaseCtx α) (hact : ph.inactive = false) (hvi : vi ≠ 0) (hii : 0 ≤ ii) (hio : io ≠ 0) :
    let r := c.solvPwrLoss vi vo ii io ta ph
    r.pwr - r.loss = |vi| * ii * c.par.interp |io| |vi|
      ∧ 0 ≤ r.loss ∧ r.loss ≤ r.pwr ∧ r.tr = c.rt * r.loss ∧ r.tp = ta + r.tr := by
  intro r
  have hr : r = c.solvPwrLoss vi vo ii io ta ph := rfl
  have hz : isZ vi = false := (isZ_false_iff _).mpr hvi
  have hzo : isZ io = false := (isZ_false_iff _).mpr hio
  obtain ⟨he0, he1⟩ := hc.eff hk |io| |vi|
  have h1 : |ii * vi * (1 - c.par.interp |io| |vi|)| = ii * |vi| * (1 - c.par.interp |io| |vi|) := by
    rw [abs_mul, abs_mul, abs_of_nonneg hii, abs_of_nonneg (by linarith : 0 ≤ 1 - c.par.interp |io| |vi|)]
  unfold Comp.solvPwrLoss finishPL at hr
  simp only [hk, hz, hzo, hact, nabs_eq_abs, abs_mul_of_nonneg_right _ _ hii, h1] at hr
  rw [hr]; simp only [Bool.false_eq_true, if_false]
  have hp : 0 ≤ ii * |vi| := mul_nonneg hii (abs_nonneg _)
  refine ⟨by ring, ?_, ?_, by ring, by ring⟩
  · exact mul_nonneg hp (by linarith)
  · nlinarith

/-- converter, active, unloaded: Power − Loss = |Vin|·(Iin − iq) -/
theorem pml_resid_converter_noload (c : Comp α) (hk : c.kind = .converter) (hc : c.Phys) (vi vo ii ta : α)
    (ph : PhaseCtx α) (hact : ph.inactive = false) (hvi : vi ≠ 0) (hii : 0 ≤ ii) :
    let r := c.solvPwrLoss vi vo ii 0 ta ph
    r.pwr - r.loss = |vi| * (ii - c.iq) ∧ r.tr = c.rt * r.loss ∧ r.tp = ta + r.tr := by
  intro r
  have hr : r = c.solvPwrLoss vi vo ii 0 ta ph := rfl
  have hz : isZ vi = false := (isZ_false_iff _).mpr hvi
  have hzo : isZ (0 : α) = true := (isZ_iff _).mpr rfl
  unfold Comp.solvPwrLoss finishPL at hr
  simp only [hk, hz, hzo, hact, nabs_eq_abs, abs_mul_of_nonneg_right _ _ hii] at hr
  rw [hr]; simp only [Bool.false_eq_true, if_false, if_true]
  refine ⟨?_, by ring, by ring⟩
  rw [abs_mul, abs_of_nonneg hc.iq]; ring

/-- converter / regulator / switch / mux asleep: draws and dissipates exactly the sleep power -/
theorem pml_sleep (c : Comp α)
    (hk : c.kind = .converter ∨ c.kind = .linreg ∨ c.kind = .pswitch ∨ c.kind = .pmux) (hc : c.Phys)
    (vi vo ii io ta : α) (ph : PhaseCtx α) (hina : ph.inactive = true) (hvi : vi ≠ 0) :
    let r := c.solvPwrLoss vi vo ii io ta ph
    r.pwr = c.iis * |vi| ∧ r.loss = c.iis * |vi| ∧ r.pwr - r.loss = 0 := by
  intro r
  have hr : r = c.solvPwrLoss vi vo ii io ta ph := rfl
  have hz : isZ vi = false := (isZ_false_iff _).mpr hvi
  unfold Comp.solvPwrLoss finishPL at hr
  rcases hk with hk | hk | hk | hk <;> simp only [hk, hz, hina, nabs_eq_abs] at hr <;>
  · rw [hr]; simp only [Bool.false_eq_true, if_false, if_true, abs_mul, abs_of_nonneg hc.iis]
    refine ⟨trivial, trivial, by ring⟩

/-- MOSFET bridge, loaded -/
theorem pml_resid_mosfet (c : Comp α) (hk : c.kind = .rectifier) (hd : c.diode = false) (vi vo ii io ta : α)
    (ph : PhaseCtx α) (hvi : vi ≠ 0) (hii : 0 ≤ ii) (hio : 0 < io) :
    let r := c.solvPwrLoss vi vo ii io ta ph
    r.pwr - r.loss = (|vi| - 2 * c.rs * io) * io + |vi| * (ii - (io + c.par.interp |io| |vi|))
      ∧ r.tr = c.rt * r.loss ∧ r.tp = ta + r.tr := by
  intro r
  have hr : r = c.solvPwrLoss vi vo ii io ta ph := rfl
  have hz : isZ vi = false := (isZ_false_iff _).mpr hvi
  have hzo : isZ io = false := (isZ_false_iff _).mpr hio.ne'
  unfold Comp.solvPwrLoss at hr
  simp only [hk, hz, hzo, hd, nabs_eq_abs, abs_mul_of_nonneg_right _ _ hii] at hr
  rw [hr]; simp only [Bool.false_eq_true, if_false]
  refine ⟨?_, by ring, by ring⟩
  rw [abs_of_pos hio]; ring

/-- Source, active: Power − Loss = (|vo| − rs·Io)·Io -/
theorem pml_source (c : Comp α) (hk : c.kind = .source) (vi vo ii io ta : α)
    (ph : PhaseCtx α) (hact : ph.inactive = false) (hvo : c.vo ≠ 0) (hio : 0 ≤ io) :
    let r := c.solvPwrLoss vi vo ii io ta ph
    r.pwr - r.loss = (|c.vo| - c.rs * io) * io := by
  intro r
  have hr : r = c.solvPwrLoss vi vo ii io ta ph := rfl
  have hz : isZ c.vo = false := (isZ_false_iff _).mpr hvo
  unfold Comp.solvPwrLoss at hr
  simp only [hk, hz, hact, nabs_eq_abs, abs_mul_of_nonneg_right _ _ hio] at hr
  rw [hr]; simp only [Bool.false_eq_true, if_false]; ring

/-- … hence for a positive Source whose resistance drop stays below its EMF the row balances:
    Power − Loss = |Vout|·Iout with Vout the documented `vo − rs·Io`. -/
theorem pml_source_spec_partial (c : Comp α) (hk : c.kind = .source) (hc : c.Phys) (vi vo ii io ta : α)
    (ph : PhaseCtx α) (hact : ph.inactive = false) (hvo : 0 < c.vo) (hio : 0 ≤ io) (hpol : c.rs * io ≤ c.vo) :
    let r := c.solvPwrLoss vi vo ii io ta ph
    r.pwr - r.loss = |specVo c 0 vi io ph| * io ∧ 0 ≤ r.loss ∧ r.loss ≤ r.pwr := by
  intro r
  have h := pml_source c hk vi vo ii io ta ph hact hvo.ne' hio
  have hz : isZ c.vo = false := (isZ_false_iff _).mpr hvo.ne'
  have hs : specVo c 0 vi io ph = c.vo - c.rs * io := by
    unfold specVo; simp only [hk, hact, hz, nabs_eq_abs, abs_of_nonneg hc.rs, nsign_of_pos hvo]; simp
  refine ⟨?_, ?_, ?_⟩
  · rw [hs, abs_of_nonneg (by linarith)]; rw [abs_of_pos hvo] at h; exact h
  · have hr : r = c.solvPwrLoss vi vo ii io ta ph := rfl
    unfold Comp.solvPwrLoss at hr
    simp only [hk, hz, hact] at hr
    rw [hr]; simp only [Bool.false_eq_true, if_false]
    exact mul_nonneg (mul_nonneg hc.rs hio) hio
  · have hr : r = c.solvPwrLoss vi vo ii io ta ph := rfl
    unfold Comp.solvPwrLoss at hr
    simp only [hk, hz, hact, nabs_eq_abs, abs_mul_of_nonneg_right _ _ hio] at hr
    rw [hr]; simp only [Bool.false_eq_true, if_false]
    rw [abs_of_pos hvo]; nlinarith

/-- The Source clause at full strength ("either polarity") fails for the code as it stands:
    finding F01 — `Source(vo = −12, rs = 1)` loaded with 1 A reports Power − Loss = 11 W while
    |Vout|·Iout = 13 W. -/
def source_balance_full : Prop :=
  ∀ (vo rs io : ℚ), vo ≠ 0 → 0 ≤ rs → 0 ≤ io →
    ∀ v b, (Comp.solvOutpVolt { name := "S", kind := .source, par := .const 0, vo := vo, rs := rs }
              [vo] io PhaseCtx.none [false]) = .ok (v, b) →
      (Comp.solvPwrLoss { name := "S", kind := .source, par := .const 0, vo := vo, rs := rs }
          (v + rs * io) v io io 25 PhaseCtx.none).pwr
        - (Comp.solvPwrLoss { name := "S", kind := .source, par := .const 0, vo := vo, rs := rs }
          (v + rs * io) v io io 25 PhaseCtx.none).loss = |v| * io

theorem source_balance_full_fails : ¬ source_balance_full := by
  intro h
  have := h (-12) 1 1 (by norm_num) (by norm_num) (by norm_num) (-13) false (by decide +kernel)
  revert this
  simp only [Comp.solvPwrLoss, PhaseCtx.none, PhaseCtx.inactive]
  norm_num [isZ, getEff, nabs]

/-! ### series drops in general (RLoss: d = rs·Io, VLoss: d = vdrop(Io,Vi), diode bridge: d = 2·vdrop) -/

/-- arithmetic core: a drop `0 ≤ d < |vi|` in the direction of `vi` keeps the sign, removes exactly `d` -/
theorem series_core (vi d : α) (hd0 : 0 ≤ d) (hd : d < |vi|) :
    eqB (nsign (vi - d * nsign vi)) (nsign vi) = true ∧ |vi - (vi - d * nsign vi)| = d ∧
      |vi - d * nsign vi| = |vi| - d := by
  have hvi : vi ≠ 0 := by intro e; rw [e, abs_zero] at hd; linarith
  rcases lt_or_gt_of_ne hvi with hn | hp
  · have hs := nsign_of_neg hn
    rw [abs_of_neg hn] at hd
    have hneg : vi - d * nsign vi < 0 := by rw [hs]; linarith
    refine ⟨by rw [eqB_iff, nsign_of_neg hneg, hs], ?_, ?_⟩
    · rw [hs, show vi - (vi - d * -1) = -d by ring, abs_neg, abs_of_nonneg hd0]
    · rw [abs_of_neg hneg, abs_of_neg hn, hs]; ring
  · have hs := nsign_of_pos hp
    rw [abs_of_pos hp] at hd
    have hpos : 0 < vi - d * nsign vi := by rw [hs]; linarith
    refine ⟨by rw [eqB_iff, nsign_of_pos hpos, hs], ?_, ?_⟩
    · rw [hs, show vi - (vi - d * 1) = d by ring, abs_of_nonneg hd0]
    · rw [abs_of_pos hpos, abs_of_pos hp, hs]; ring

/-- voltage-drop element (VLoss) obeying its documented law: Power − Loss = |Vout|·Iout, 0 ≤ Loss ≤ Power,
    rise = rt·Loss, peak = ta + rise -/
theorem pml_vloss (c : Comp α) (hk : c.kind = .vloss) (hc : c.Phys) (vi io ta : α) (ph : PhaseCtx α)
    (hio : 0 ≤ io) (hpol : c.par.interp |io| |vi| < |vi|) :
    let vo := specVo c 0 vi io ph
    let r := c.solvPwrLoss vi vo (specIi c vi io ph) io ta ph
    r.pwr - r.loss = |vo| * io ∧ 0 ≤ r.loss ∧ r.loss ≤ r.pwr ∧ r.tr = c.rt * r.loss ∧ r.tp = ta + r.tr := by
  intro vo r
  have hd0 := hc.par |io| |vi|
  generalize hdd : c.par.interp |io| |vi| = d at *
  obtain ⟨h1, h2, h3⟩ := series_core vi d hd0 hpol
  have hvi : vi ≠ 0 := by intro e; rw [e, abs_zero] at hpol; linarith
  have hz : isZ vi = false := (isZ_false_iff _).mpr hvi
  have hr : r = c.solvPwrLoss vi vo (specIi c vi io ph) io ta ph := rfl
  have hvo : vo = vi - d * nsign vi := by
    show specVo c 0 vi io ph = _
    unfold specVo; simp only [hk, nabs_eq_abs, hdd]; ring
  have hii : specIi c vi io ph = io := by unfold specIi; simp only [hk, hz]; simp
  unfold Comp.solvPwrLoss at hr
  simp only [hk, hii, nabs_eq_abs, hdd, h1, Bool.not_true, Bool.false_eq_true, if_false, h2,
    abs_mul_of_nonneg_right _ _ hio] at hr
  rw [hr, hvo, h3]
  have hp : 0 ≤ d * io := mul_nonneg hd0 hio
  refine ⟨by ring, hp, ?_, by ring, rfl⟩
  nlinarith [abs_nonneg vi]

/-- diode bridge obeying its documented law (two diode drops) -/
theorem pml_diode (c : Comp α) (hk : c.kind = .rectifier) (hdi : c.diode = true) (hc : c.Phys)
    (vi io ta : α) (ph : PhaseCtx α) (hio : 0 ≤ io) (hpol : 2 * c.par.interp |io| |vi| < |vi|) :
    let vo := specVo c 0 vi io ph
    let r := c.solvPwrLoss vi vo (specIi c vi io ph) io ta ph
    r.pwr - r.loss = |vo| * io ∧ 0 ≤ r.loss ∧ r.loss ≤ r.pwr ∧ r.tr = c.rt * r.loss ∧ r.tp = ta + r.tr := by
  intro vo r
  have hd0 : 0 ≤ 2 * c.par.interp |io| |vi| := by have := hc.par |io| |vi|; linarith
  generalize hdd : c.par.interp |io| |vi| = d at *
  obtain ⟨h1, h2, h3⟩ := series_core vi (2 * d) hd0 hpol
  have hvi : vi ≠ 0 := by intro e; rw [e, abs_zero] at hpol; linarith
  have hz : isZ vi = false := (isZ_false_iff _).mpr hvi
  have hr : r = c.solvPwrLoss vi vo (specIi c vi io ph) io ta ph := rfl
  have hvo : vo = |vi| - 2 * d := by
    show specVo c 0 vi io ph = _
    unfold specVo; simp only [hk, hz, hdi, nabs_eq_abs, hdd]; simp
  have hii : specIi c vi io ph = io := by unfold specIi; simp only [hk, hz, hdi]; simp
  unfold Comp.solvPwrLoss at hr
  simp only [hk, hz, hdi, hii, nabs_eq_abs, hdd, h1, Bool.not_true, Bool.false_eq_true, if_false, if_true, h2,
    abs_mul_of_nonneg_right _ _ hio] at hr
  rw [hr, hvo, abs_of_nonneg (by linarith : 0 ≤ |vi| - 2 * d)]
  have hp : 0 ≤ 2 * d * io := mul_nonneg hd0 hio
  refine ⟨by ring, hp, ?_, by ring, rfl⟩
  nlinarith [abs_nonneg vi]

/-- switch / mux in a steady row (Iin = Iout + ig, |Vout| ≤ |Vin|): Power − Loss = |Vout|·Iout and 0 ≤ Loss ≤ Power -/
theorem pml_switch_steady (c : Comp α) (hk : c.kind = .pswitch ∨ c.kind = .pmux) (hc : c.Phys)
    (vi vo io ta : α) (ph : PhaseCtx α) (hact : ph.inactive = false) (hvi : vi ≠ 0) (hio : 0 ≤ io)
    (hpol : |vo| ≤ |vi|) :
    let r := c.solvPwrLoss vi vo (io + c.par.interp |io| |vi|) io ta ph
    r.pwr - r.loss = |vo| * io ∧ 0 ≤ r.loss ∧ r.loss ≤ r.pwr := by
  intro r
  have hig := hc.par |io| |vi|
  have hii : 0 ≤ io + c.par.interp |io| |vi| := by linarith
  obtain ⟨h1, _, _⟩ := pml_resid_switch c hk vi vo (io + c.par.interp |io| |vi|) io ta ph hact hvi hii hio
  have hz : isZ vi = false := (isZ_false_iff _).mpr hvi
  have hr : r = c.solvPwrLoss vi vo (io + c.par.interp |io| |vi|) io ta ph := rfl
  have h1' : r.pwr - r.loss = |vo| * io := by
    have := h1; simp only [sub_self, mul_zero, add_zero] at this; exact this
  have hpw : r.pwr = |vi| * (io + c.par.interp |io| |vi|) := by
    unfold Comp.solvPwrLoss finishPL at hr
    rcases hk with hk | hk <;> simp only [hk, hz, hact, nabs_eq_abs, abs_mul_of_nonneg_right _ _ hii] at hr <;>
      (rw [hr]; simp)
  refine ⟨h1', ?_, ?_⟩
  · have : r.loss = r.pwr - |vo| * io := by linarith
    rw [this, hpw]
    nlinarith [abs_nonneg vi, abs_nonneg vo, mul_nonneg (abs_nonneg vi) hig, mul_nonneg (sub_nonneg.mpr hpol) hio]
  · have : r.loss = r.pwr - |vo| * io := by linarith
    rw [this]; nlinarith [mul_nonneg (abs_nonneg vo) hio]

/-! ### Whole-system balance -/

/-- the six numeric cells of a table row that the balance talks about -/
structure Cells (α : Type) where
  vin : α
  vout : α
  iin : α
  iout : α
  pwr : α
  loss : α

open Finset in
/-- **System balance.**  In any table whose rows are linked as C01 states (Vin = Vout of the feeding
    row, Iout = Σ Iin of the rows fed) and each of whose rows balances locally (`Power − Loss =
    |Vout|·Iout` for non-loads, consumption booked as Power or Loss for loads, `Power = |Vin|·Iin`
    for fed non-loads), the power of the un-fed rows (the sources; a mux without live input has
    power 0) equals the power delivered to the loads plus the sum of all losses.
    `par` is the feeder map (for a mux: its selected input). -/
theorem system_balance {ι : Type} [DecidableEq ι] (ns : Finset ι) (par : ι → Option ι)
    (hclosed : ∀ c ∈ ns, ∀ p, par c = some p → p ∈ ns)
    (isLoad : ι → Bool) (row : ι → Cells α)
    (hvin : ∀ c ∈ ns, ∀ p, par c = some p → (row c).vin = (row p).vout)
    (hiout : ∀ n ∈ ns, (row n).iout = ∑ c ∈ kidsOf ns par n, (row c).iin)
    (hpml : ∀ n ∈ ns, isLoad n = false → (row n).pwr - (row n).loss = |(row n).vout| * (row n).iout)
    (hfed : ∀ n ∈ ns, isLoad n = false → par n ≠ none → (row n).pwr = |(row n).vin| * (row n).iin)
    (hload : ∀ n ∈ ns, isLoad n = true →
        par n ≠ none ∧ (row n).iout = 0 ∧ (row n).pwr + (row n).loss = |(row n).vin| * (row n).iin) :
    ∑ n ∈ ns, (if par n = none then (row n).pwr else 0)
      = ∑ n ∈ ns, (if isLoad n then (row n).pwr + (row n).loss else (row n).loss) := by
  have hx := sum_kids_exchange ns par hclosed (fun p c => |(row p).vout| * (row c).iin)
  have hA : ∑ n ∈ ns, |(row n).vout| * (row n).iout
      = ∑ n ∈ ns, ∑ c ∈ kidsOf ns par n, |(row n).vout| * (row c).iin := by
    apply Finset.sum_congr rfl
    intro n hn
    rw [hiout n hn, Finset.mul_sum]
  have key : ∀ n ∈ ns,
      (if par n = none then (row n).pwr else 0)
        - (if isLoad n then (row n).pwr + (row n).loss else (row n).loss)
      = |(row n).vout| * (row n).iout
        - (match par n with | some p => |(row p).vout| * (row n).iin | none => 0) := by
    intro n hn
    cases hl : isLoad n with
    | true =>
      obtain ⟨h1, h2, h3⟩ := hload n hn hl
      cases hp : par n with
      | none => exact absurd hp h1
      | some p =>
        simp only [reduceCtorEq, if_false, if_true, h2, mul_zero]
        rw [← hvin n hn p hp, ← h3]
    | false =>
      have h1 := hpml n hn hl
      cases hp : par n with
      | none => simp only [if_true, Bool.false_eq_true, if_false]; linarith
      | some p =>
        have h2 := hfed n hn hl (by rw [hp]; simp)
        simp only [reduceCtorEq, if_false, Bool.false_eq_true]
        rw [← hvin n hn p hp, ← h2]; linarith
  have hsum := Finset.sum_congr (rfl : ns = ns) key
  rw [Finset.sum_sub_distrib, Finset.sum_sub_distrib, hA, hx] at hsum
  have := sub_self (∑ c ∈ ns, (match par c with | some p => |(row p).vout| * (row c).iin | none => 0))
  exact sub_eq_zero.mp (hsum.trans this)

/-- non-vacuity: Source(5 V) → RLoss(1 Ω) → ILoad(1 A) meets every hypothesis of `system_balance` -/
example :
    let par : Fin 3 → Option (Fin 3) := ![none, some 0, some 1]
    let isLoad : Fin 3 → Bool := ![false, false, true]
    let row : Fin 3 → Cells ℚ := ![⟨5, 5, 1, 1, 5, 0⟩, ⟨5, 4, 1, 1, 5, 1⟩, ⟨4, 0, 1, 0, 4, 0⟩]
    ∑ n ∈ (Finset.univ : Finset (Fin 3)), (if par n = none then (row n).pwr else 0)
      = ∑ n ∈ (Finset.univ : Finset (Fin 3)), (if isLoad n then (row n).pwr + (row n).loss else (row n).loss) := by
  intro par isLoad row
  apply system_balance Finset.univ par (by intro c _ p _; exact Finset.mem_univ p) isLoad row
  · intro c _ p hp; fin_cases c <;> fin_cases p <;> simp_all [par, row]
  · intro n _; fin_cases n <;> simp [kidsOf, par, row, Finset.sum_filter, Fin.sum_univ_three]
  · intro n _ h; fin_cases n <;> simp_all [isLoad, row] <;> norm_num
  · intro n _ h hp; fin_cases n <;> simp_all [isLoad, row, par] <;> norm_num
  · intro n _ h; fin_cases n <;> simp_all [isLoad, row, par] <;> norm_num

end C02
end SysLoss
