/-
  Props/C18 — `batt_life()` steps the battery with the solved current, phase by phase.

  Subject: `Batt.battLife` (Model/Batt.lean), the statement-by-statement model of `System.batt_life`.
  The user's callbacks are a script (`probe`, `deplete : List (ret state | raise e)`), the solver is an arbitrary
  function `solveI vo rs phase` — every theorem holds for all scripts and all solvers.

    first_row            log row 0 = (0, probe)
    call_args            k-th deplete call gets (Δt_k, I_k): I_k = solveI of the previous callback's (volt, rs) in
                         phase k mod n (declared order), converged (iters ≤ 10000), Δt_k = that phase's duration,
                         resp. (cap₀ / I_k)·3.6
    log_rows             log = probe row ++ the deplete results up to, excluding, the first with cap ≤ 0 ∨ volt ≤ cutoff
    time_strict          all Δt > 0 → strictly increasing time column (+ the two sufficient conditions)
    not_a_source         a name that is neither a Source nor a Source's (non-empty) rail → ValueError, nothing called
    unconverged_raises   a solve that did not converge ends the run with RuntimeError before the callback is called
    time_steps           t_{j+1} = t_j + Δt_j
  Clause 3 of C17 (the Source gets `vo, rs` back) is about the same loop: Props/C17Batt.lean.
-/
import SysLoss.Proofs.Batt
import Mathlib.Data.List.TakeWhile
import Mathlib.Tactic.Positivity

set_option linter.unusedSectionVars false
set_option linter.unusedVariables false

namespace SysLoss
namespace C18
open Batt
variable {α : Type} [Field α] [LinearOrder α] [IsStrictOrderedRing α]

/-- `batt_life` gets past its validation: the name is known and resolves to a Source -/
def Accepts (inp : Input α) : Prop :=
  inp.reg.chkParent inp.battery = true ∧ ∃ c, inp.reg.getIndex inp.battery = some (c, Kind.source)

/-! ### shape of a run -/

theorem finish_calls (vo rs : α) (row0 : Row α) (r : Tail α) : (battLife.finish vo rs row0 r).calls = r.calls := rfl
theorem finish_log (vo rs : α) (row0 : Row α) (r : Tail α) : (battLife.finish vo rs row0 r).log = row0 :: r.rows := rfl
theorem finish_outcome (vo rs : α) (row0 : Row α) (r : Tail α) : (battLife.finish vo rs row0 r).outcome = r.outcome := rfl

/-- either nothing happened (validation or the probe raised: no rows, no calls, source untouched), or the probe
    answered `p` and the run is the loop started from `p`, followed by the epilogue -/
theorem run_shape (inp : Input α) (solveI : α → α → String → Except Err (α × Nat)) :
    (¬ (Accepts inp ∧ ∃ p, inp.probe = .ret p) ∧
      ∃ e, battLife inp solveI = ⟨[], [], inp.vo, inp.rs, .raised e⟩) ∨
    (Accepts inp ∧ ∃ p, inp.probe = .ret p ∧
      battLife inp solveI = battLife.finish inp.vo inp.rs ⟨0, p.cap, p.volt, p.rs⟩
        (loop inp.cutoff p.cap inp.phases solveI inp.deplete p 0 0 inp.vo inp.rs)) := by
  unfold battLife Accepts
  by_cases hc : inp.reg.chkParent inp.battery = true
  · simp only [hc, Bool.not_true, Bool.false_eq_true, if_false, true_and]
    cases hg : inp.reg.getIndex inp.battery with
    | none => left; simp
    | some ck =>
      obtain ⟨c, k⟩ := ck
      by_cases hk : k = Kind.source
      · subst hk
        simp only [bne_self_eq_false, Bool.false_eq_true, if_false]
        cases hp : inp.probe with
        | raise e => left; simp
        | ret p => right; exact ⟨⟨c, rfl⟩, p, rfl, rfl⟩
      · left
        have : (k != Kind.source) = true := by simpa using hk
        simp only [this, if_true]
        refine ⟨?_, _, rfl⟩
        rintro ⟨⟨c', h'⟩, _⟩
        simp only [Option.some.injEq, Prod.mk.injEq] at h'
        exact hk h'.2
  · left
    have : inp.reg.chkParent inp.battery = false := by simpa using hc
    simp [this]

/-! ### 1. the first row -/

theorem first_row (inp : Input α) (solveI : α → α → String → Except Err (α × Nat)) (hacc : Accepts inp)
    (p : BState α) (hp : inp.probe = .ret p) :
    (battLife inp solveI).log.head? = some ⟨0, p.cap, p.volt, p.rs⟩ := by
  rcases run_shape inp solveI with ⟨hn, _⟩ | ⟨_, q, hq, h⟩
  · exact absurd ⟨hacc, p, hp⟩ hn
  · rw [hp] at hq; cases hq
    rw [h, finish_log]; rfl

/-! ### 2. what the deplete callback is handed -/

/-- the dict of phases as `set_sys_phases` admits it: empty, or at least two distinct names -/
def PhasesOk (phases : List (String × α)) : Prop :=
  phases = [] ∨ (2 ≤ phases.length ∧ (phases.map (·.1)).Nodup)

theorem phase_of_index (phases : List (String × α)) (h : PhasesOk phases) (k : Nat) :
    (phaseList phases).getD ((nextIdx (phaseList phases).length)^[k] 0) "" = phaseAt phases k := by
  rw [iter_nextIdx]
  unfold phaseList phaseAt
  rcases h with rfl | ⟨h2, _⟩
  · simp [Nat.mod_one]
  · have hne : phases.isEmpty = false := by cases phases <;> simp at h2 ⊢
    have hlt : k % phases.length < phases.length := Nat.mod_lt _ (by omega)
    simp [hne, List.getD_eq_getElem?_getD, List.getElem?_map, List.getElem?_eq_getElem hlt]

theorem deltaT_eq_stepTime (phases : List (String × α)) (h : PhasesOk phases) (cap0 i : α) (k : Nat) :
    deltaT phases cap0 i (phaseAt phases k) = stepTime phases cap0 i k := by
  unfold deltaT stepTime phaseAt phaseList
  rcases h with rfl | ⟨h2, hnd⟩
  · simp
  · have hne : phases.isEmpty = false := by cases phases <;> simp at h2 ⊢
    have hlt : k % phases.length < phases.length := Nat.mod_lt _ (by omega)
    have hl : (List.map (fun x => x.1) phases == [""]) = false := by
      apply beq_false_of_ne
      intro e
      have := congrArg List.length e
      simp at this; omega
    have hq : phases[k % phases.length]? = some phases[k % phases.length] := List.getElem?_eq_getElem hlt
    simp only [hne, Bool.false_eq_true, if_false, hl, hq]
    rw [lookup_of_getElem? phases hnd _ _ hq]

/-- **call_args.**  If the `k`-th deplete call (from 0) happened and received `(Δt, I)`, then the probe answered some
    `p`, the `(k-1)`-th deplete call (the probe for `k = 0`) returned some state `bₖ`, `I` is what the solver gives
    for the Source set to `(bₖ.volt, bₖ.rs)` in phase `k mod n` of the declared order — and the solver converged
    (`iters ≤ 10000`) — and `Δt` is that phase's duration — without phases `(p.cap / I) · 3.6`. -/
theorem call_args (inp : Input α) (solveI : α → α → String → Except Err (α × Nat)) (hph : PhasesOk inp.phases)
    (k : Nat) (dt i : α) (h : (battLife inp solveI).calls[k]? = some (dt, i)) :
    ∃ p bk it, inp.probe = .ret p ∧ stateBefore p inp.deplete k = some bk ∧
      solveI bk.volt bk.rs (phaseAt inp.phases k) = .ok (i, it) ∧ it ≤ 10000 ∧
      dt = stepTime inp.phases p.cap i k := by
  rcases run_shape inp solveI with ⟨_, e, he⟩ | ⟨_, p, hp, hrun⟩
  · rw [he] at h; simp at h
  · rw [hrun, finish_calls] at h
    obtain ⟨bk, it, hb, hs, hle, hd⟩ := loop_calls _ _ _ _ _ _ _ _ _ _ _ _ _ h
    rw [phase_of_index _ hph] at hs hd
    rw [deltaT_eq_stepTime _ hph] at hd
    exact ⟨p, bk, it, hp, hb, hs, hle, hd⟩

/-- the callbacks are called strictly in sequence: a `k`-th deplete call implies all earlier ones returned -/
theorem call_args_prefix (inp : Input α) (solveI : α → α → String → Except Err (α × Nat)) (hph : PhasesOk inp.phases)
    (k : Nat) (hk : k < (battLife inp solveI).calls.length) :
    ∃ p bk, inp.probe = .ret p ∧ stateBefore p inp.deplete k = some bk ∧ Live inp.cutoff p := by
  obtain ⟨c, hc⟩ : ∃ c, (battLife inp solveI).calls[k]? = some c := ⟨_, List.getElem?_eq_getElem hk⟩
  obtain ⟨p, bk, _, hp, hb, _, _, _⟩ := call_args inp solveI hph k c.1 c.2 hc
  refine ⟨p, bk, hp, hb, ?_⟩
  rcases run_shape inp solveI with ⟨_, e, he⟩ | ⟨_, q, hq, hrun⟩
  · rw [he] at hk; simp at hk
  · rw [hp] at hq; cases hq
    by_contra hl
    rw [hrun, finish_calls, loop_dead _ _ _ _ _ _ _ _ _ _ ((live_false_iff _ _).mpr hl)] at hk
    simp at hk

/-! ### 3. the rows of the log -/

/-- **log_rows.**  When `batt_life` returns, the probe answered `p` and the state columns of the log are `p` followed
    by exactly the states the deplete calls returned while `cap > 0 ∧ volt > cutoff` (none if `p` itself fails it);
    every later row satisfies the condition; and the loop was ended by a returned state that violates it — the
    first such. -/
theorem log_rows (inp : Input α) (solveI : α → α → String → Except Err (α × Nat))
    (hok : (battLife inp solveI).outcome = .ok) :
    ∃ p, inp.probe = .ret p ∧
      (battLife inp solveI).log.map Row.state =
        p :: (if live inp.cutoff p then (rets inp.deplete).takeWhile (live inp.cutoff) else []) ∧
      (∀ r ∈ (battLife inp solveI).log.tail, 0 < r.cap ∧ inp.cutoff < r.volt) ∧
      (Live inp.cutoff p → ∃ bd, (rets inp.deplete)[(battLife inp solveI).log.length - 1]? = some bd ∧
        ¬ Live inp.cutoff bd) := by
  rcases run_shape inp solveI with ⟨_, e, he⟩ | ⟨_, p, hp, hrun⟩
  · rw [he] at hok; simp at hok
  · rw [hrun, finish_outcome] at hok
    obtain ⟨h1, h2⟩ := loop_rows _ _ _ _ _ _ _ _ _ _ hok
    refine ⟨p, hp, ?_, ?_, ?_⟩
    · rw [hrun, finish_log, List.map_cons, h1, row_state]
    · rw [hrun, finish_log, List.tail_cons]
      intro r hr
      have hm : r.state ∈ (loop inp.cutoff p.cap inp.phases solveI inp.deplete p 0 0 inp.vo inp.rs).rows.map Row.state :=
        List.mem_map_of_mem hr
      rw [h1] at hm
      split_ifs at hm with hl
      · have := (live_iff _ _).mp (List.mem_takeWhile_imp hm)
        exact this
      · simp at hm
    · intro hl
      obtain ⟨bd, hbd, hd⟩ := h2 ((live_iff _ _).mpr hl)
      refine ⟨bd, ?_, (live_false_iff _ _).mp hd⟩
      rw [hrun, finish_log]
      simpa using hbd

/-! ### 4. the time column -/

/-- **time_strict.**  All handed-out durations positive → the time column is strictly increasing. -/
theorem time_strict (inp : Input α) (solveI : α → α → String → Except Err (α × Nat))
    (hdt : ∀ c ∈ (battLife inp solveI).calls, 0 < c.1) :
    ((battLife inp solveI).log.map Row.t).Pairwise (· < ·) := by
  rcases run_shape inp solveI with ⟨_, e, he⟩ | ⟨_, p, hp, hrun⟩
  · rw [he]; simp
  · rw [hrun, finish_calls] at hdt
    obtain ⟨h1, h2⟩ := loop_time _ _ _ _ _ _ _ _ _ _ hdt
    rw [hrun, finish_log, List.map_cons, List.pairwise_cons]
    refine ⟨?_, h2⟩
    intro t ht
    obtain ⟨r, hr, rfl⟩ := List.mem_map.mp ht
    exact h1 r hr

/-- **time_steps.**  Row `j+1` of the log carries the time of row `j` plus the duration handed to the `j`-th deplete call. -/
theorem time_steps (inp : Input α) (solveI : α → α → String → Except Err (α × Nat)) :
    TimeChain 0 ((battLife inp solveI).log.tail.map Row.t) ((battLife inp solveI).calls.map (·.1)) := by
  rcases run_shape inp solveI with ⟨_, e, he⟩ | ⟨_, p, hp, hrun⟩
  · rw [he]; simp [TimeChain]
  · rw [hrun, finish_log, finish_calls, List.tail_cons]
    exact loop_timechain _ _ _ _ _ _ _ _ _ _

/-- with phases: positive phase durations suffice -/
theorem time_strict_phases (inp : Input α) (solveI : α → α → String → Except Err (α × Nat))
    (h2 : 2 ≤ inp.phases.length) (hnd : (inp.phases.map (·.1)).Nodup) (hpos : ∀ q ∈ inp.phases, 0 < q.2) :
    ((battLife inp solveI).log.map Row.t).Pairwise (· < ·) := by
  apply time_strict
  intro c hc
  obtain ⟨k, hk, rfl⟩ := List.getElem_of_mem hc
  obtain ⟨p, bk, _, _, _, _, _, hd⟩ := call_args inp solveI (Or.inr ⟨h2, hnd⟩) k _ _ (List.getElem?_eq_getElem hk)
  simp only [List.get_eq_getElem] at hd
  rw [hd]
  unfold stepTime
  have hlt : k % inp.phases.length < inp.phases.length := Nat.mod_lt _ (by omega)
  rw [List.getElem?_eq_getElem hlt]
  exact hpos _ (List.getElem_mem hlt)

/-- without phases: a solver that only yields positive currents suffices (the probed capacity is positive whenever
    a step is taken at all) -/
theorem time_strict_nophases (inp : Input α) (solveI : α → α → String → Except Err (α × Nat))
    (hno : inp.phases = []) (hpos : ∀ vo rs ph i it, solveI vo rs ph = .ok (i, it) → 0 < i) :
    ((battLife inp solveI).log.map Row.t).Pairwise (· < ·) := by
  apply time_strict
  intro c hc
  obtain ⟨k, hk, rfl⟩ := List.getElem_of_mem hc
  obtain ⟨p, bk, it, hp, _, hs, _, hd⟩ := call_args inp solveI (Or.inl hno) k _ _ (List.getElem?_eq_getElem hk)
  obtain ⟨p', _, hp', _, hl⟩ := call_args_prefix inp solveI (Or.inl hno) k hk
  rw [hp] at hp'; cases hp'
  simp only [List.get_eq_getElem] at hd hs
  rw [hd]
  unfold stepTime
  simp only [hno, List.length_nil, Nat.mod_zero, List.getElem?_nil]
  have hi := hpos _ _ _ _ _ hs
  have hc0 : 0 < p.cap := hl.1
  positivity

/-! ### 5. a battery that is not a Source -/

/-- **not_a_source.**  A name that is neither the name of a Source nor the (non-empty) rail name of one is rejected with
    `ValueError` before any callback is called, and nothing is touched. -/
theorem not_a_source (inp : Input α) (solveI : α → α → String → Except Err (α × Nat))
    (hwf : inp.reg.RailsKnown) (hns : ¬ NamesSource inp.reg inp.battery) :
    ∃ m, battLife inp solveI = ⟨[], [], inp.vo, inp.rs, .raised (.value m)⟩ := by
  unfold battLife
  by_cases hc : inp.reg.chkParent inp.battery = true
  · simp only [hc, Bool.not_true, Bool.false_eq_true, if_false]
    unfold Reg.getIndex
    cases hl : inp.reg.nodes.lookup inp.battery with
    | some k =>
      have hk : k ≠ Kind.source := by
        rintro rfl
        exact hns ⟨inp.battery, mem_of_lookup hl, Or.inl rfl⟩
      have : (k != Kind.source) = true := by simpa using hk
      simp [this]
    | none =>
      simp only
      have hnode : ¬ ∃ q ∈ inp.reg.nodes, q.1 = inp.battery := by
        rintro ⟨q, hq, hq'⟩
        have := List.lookup_eq_none_iff.mp hl q hq
        simp [hq'] at this
      unfold Reg.chkParent at hc
      simp only [Bool.or_eq_true, List.contains_eq_mem, List.mem_map, decide_eq_true_eq, Bool.and_eq_true,
        bne_iff_ne, ne_eq] at hc
      rcases hc with hc | ⟨hne, q, hq, hq'⟩
      · exact absurd hc hnode
      · have hne' : (inp.battery != "") = true := by simpa using hne
        simp only [hne', if_true]
        cases hf : inp.reg.rails.find? (fun p => p.2 == inp.battery) with
        | none =>
          exfalso
          have := List.find?_eq_none.mp hf q hq
          simp [hq'] at this
        | some cr =>
          obtain ⟨c, r⟩ := cr
          have hmem := List.mem_of_find?_eq_some hf
          have hr : r = inp.battery := by simpa using List.find?_some hf
          subst hr
          have hknown := hwf _ hmem
          simp only at hknown ⊢
          cases hl2 : inp.reg.nodes.lookup c with
          | none => simp [hl2] at hknown
          | some k =>
            have hk : k ≠ Kind.source := by
              rintro rfl
              exact hns ⟨c, mem_of_lookup hl2, Or.inr ⟨hne, hmem⟩⟩
            have : (k != Kind.source) = true := by simpa using hk
            simp [this]
  · have : inp.reg.chkParent inp.battery = false := by simpa using hc
    simp [this]

/-- regression witness of the repaired finding F29: Source `B` (no rail) feeding load `L`, `batt_life("")`.
    (`""` is a value of the rails dict; before /repo c45789c the run proceeded on `B`.) -/
def emptyNameInput : Input ℚ where
  reg := ⟨[("B", .source), ("L", .iload)], [("B", ""), ("L", "")]⟩
  battery := ""
  vo := 5
  rs := 1 / 10
  cutoff := 3
  phases := []
  probe := .ret ⟨1, 4, 1 / 5⟩
  deplete := [.ret ⟨0, 4, 1 / 5⟩]

example : (battLife emptyNameInput (fun _ _ _ => .ok (1, 3))).outcome = .raised (.value "Parent name \"\" not found!") ∧
    (battLife emptyNameInput (fun _ _ _ => .ok (1, 3))).calls = [] := by decide +kernel

/-! ### 6. a solve that did not converge -/

/-- **unconverged_raises.**  If the probe answers a live state and the first solve comes back with `iters > 10000`,
    `batt_life` raises `RuntimeError`; the deplete callback is never handed that current.  (For later steps the same is
    contained in `call_args`: every handed-out current has `iters ≤ 10000`.) -/
theorem unconverged_raises (inp : Input α) (solveI : α → α → String → Except Err (α × Nat)) (hacc : Accepts inp)
    (p : BState α) (hp : inp.probe = .ret p) (hl : Live inp.cutoff p) (i : α) (it : Nat)
    (hs : solveI p.volt p.rs ((phaseList inp.phases).getD 0 "") = .ok (i, it)) (hit : it > 10000) :
    ∃ m, (battLife inp solveI).outcome = .raised (.runtime m) ∧ (battLife inp solveI).calls = [] := by
  rcases run_shape inp solveI with ⟨hn, _⟩ | ⟨_, q, hq, hrun⟩
  · exact absurd ⟨hacc, p, hp⟩ hn
  · rw [hp] at hq; cases hq
    rw [hrun, finish_outcome, finish_calls, loop_nonconv _ _ _ _ _ _ _ _ _ _ ((live_iff _ _).mpr hl) i it hs hit]
    exact ⟨_, rfl, rfl⟩

/-! ### non-vacuity: a concrete run (2 phases, ends by capacity) satisfying every hypothesis used above -/

def demoInput : Input ℚ where
  reg := ⟨[("B", .source), ("L", .iload)], [("B", "r_b"), ("L", "")]⟩
  battery := "r_b"
  vo := 5
  rs := 1 / 10
  cutoff := 3
  phases := [("sleep", 2), ("tx", 3)]
  probe := .ret ⟨1, 4, 1 / 5⟩
  deplete := [.ret ⟨9 / 10, 39 / 10, 21 / 100⟩, .ret ⟨8 / 10, 38 / 10, 22 / 100⟩, .ret ⟨0, 37 / 10, 23 / 100⟩,
              .raise (.key "never called")]

def demoSolve : ℚ → ℚ → String → Except Err (ℚ × Nat) :=
  fun vo _ ph => .ok (if ph = "tx" then vo / 4 else vo / 40, 17)

example : Accepts demoInput := ⟨by decide +kernel, "B", by decide +kernel⟩
example : PhasesOk demoInput.phases := Or.inr ⟨by decide, by decide⟩
example : (battLife demoInput demoSolve).outcome = .ok := by decide +kernel
example : (battLife demoInput demoSolve).calls = [(2, 1 / 10), (3, 39 / 40), (2, 19 / 200)] := by decide +kernel
example : (battLife demoInput demoSolve).log =
    [⟨0, 1, 4, 1 / 5⟩, ⟨2, 9 / 10, 39 / 10, 21 / 100⟩, ⟨5, 8 / 10, 38 / 10, 22 / 100⟩] := by decide +kernel
example : (battLife demoInput demoSolve).log.head? = some ⟨0, 1, 4, 1 / 5⟩ :=
  first_row demoInput demoSolve ⟨by decide +kernel, "B", by decide +kernel⟩ _ rfl
example : ((battLife demoInput demoSolve).log.map Row.t).Pairwise (· < ·) :=
  time_strict_phases demoInput demoSolve (by decide) (by decide) (by
    intro q hq
    simp only [demoInput, List.mem_cons, List.not_mem_nil, or_false] at hq
    rcases hq with rfl | rfl <;> norm_num)
example : TimeChain 0 [2, 5] [2, 3, 2] := ⟨by norm_num, by norm_num, trivial⟩
/-- without phases: Δt = (cap₀ / I)·3.6 -/
example : (battLife { demoInput with phases := [] } (fun _ _ _ => .ok (1 / 2, 9))).calls =
    [(36 / 5, 1 / 2), (36 / 5, 1 / 2), (36 / 5, 1 / 2)] := by decide +kernel
/-- a load is not a battery -/
example : ∃ m, battLife { demoInput with battery := "L" } demoSolve = ⟨[], [], 5, 1 / 10, .raised (.value m)⟩ :=
  not_a_source _ _ (by
      intro p hp
      simp only [demoInput, List.mem_cons, List.not_mem_nil, or_false] at hp
      rcases hp with rfl | rfl <;> rfl) (by
    rintro ⟨c, hc, h1 | ⟨_, h1⟩⟩
    · simp only [demoInput, List.mem_cons, Prod.mk.injEq, List.not_mem_nil, or_false] at hc h1
      rcases hc with ⟨rfl, _⟩ | ⟨_, hk⟩
      · exact absurd h1 (by decide)
      · exact absurd hk (by decide)
    · simp only [demoInput, List.mem_cons, Prod.mk.injEq, List.not_mem_nil, or_false] at hc h1
      rcases h1 with ⟨_, h⟩ | ⟨_, h⟩ <;> exact absurd h (by decide))

/-- a solver that does not converge in phase `tx`: RuntimeError at the second step, one deplete call made -/
example : (battLife demoInput (fun vo _ ph => .ok (vo / 4, if ph = "tx" then 10001 else 17))).outcome =
    .raised (.runtime "Steady-state not achieved") ∧
    (battLife demoInput (fun vo _ ph => .ok (vo / 4, if ph = "tx" then 10001 else 17))).calls.length = 1 := by
  decide +kernel

end C18
end SysLoss
