/-
  Props/C10 — tabulated parameters: exact on the grid, linear between, clamped outside.

  Subject: `interp1`, `interp2`, `Param.interp` of Model/Interp.lean (the model of `_Interp1d`, `_Interp2d`).
  Conditioning (the property's): io axis strictly increasing and non-negative (`Axis1` / `Grid`); for 2-D the
  vi axis as well, at least one cell.  Every 2-D statement holds for ALL diagonal choices `diag` (scipy's
  triangulation of a rectangular grid is determined only up to the diagonal of each cell).

    1. knot            interp1_knot, interp2_knot
    2. linear          interp1_linear, interp2_edge_x, interp2_edge_y          (either diagonal)
    3. range           interp1_range, interp2_range, interp2_range_exists, cellVal_range
    4. clamped         interp1_clamp_left/right, interp1_clamp, interp2_clamp, interp2_inside
    5. sign            interp1_sign, interp_sign_as_used, interp1_table_sign, interp2_table_sign
    6. constant table  interp1_const, interp2_const, param_const_table
    7. accepted tables  interp1_abs_axis, interp1_knot_abs (io axis increasing in magnitude),
                        interp2_global_range (vi rows in any order, any signs)
  The conditioning of the io axis is essential: `knot_negative_axis_fails` (the interpolator on an axis that
  is increasing but not in magnitude; the constructors refuse such tables since the repair of finding F11).
-/
import SysLoss.Proofs.Interp

set_option linter.unusedSectionVars false
set_option linter.unusedVariables false
set_option linter.unusedSimpArgs false

namespace SysLoss
namespace C10
variable {α : Type} [Field α] [LinearOrder α] [IsStrictOrderedRing α]

/-! ### 1-D tables -/

/-- a well-conditioned 1-D table: io axis strictly increasing and non-negative, one value per knot -/
structure Axis1 (xs fs : List α) : Prop where
  inc : xs.Pairwise (· < ·)
  nonneg : ∀ x ∈ xs, 0 ≤ x
  len : xs.length = fs.length

/-- the knots the 1-D interpolator scans: abscissae as given, values in magnitude -/
def knots (xs fs : List α) : List (α × α) := xs.zip (fs.map nabs)

theorem interp1_eq {xs fs : List α} (h : Axis1 xs fs) (x : α) :
    interp1 xs fs x = interp1Aux (knots xs fs) |x| := by
  unfold interp1 knots
  rw [map_nabs_of_nonneg h.nonneg, nabs_eq_abs]

theorem knots_length {xs fs : List α} (h : Axis1 xs fs) : (knots xs fs).length = xs.length := by
  simp [knots, h.len]

theorem knots_getElem {xs fs : List α} (h : Axis1 xs fs) (j : Nat) (hj : j < (knots xs fs).length) :
    (knots xs fs)[j] = (xs.getD j 0, |fs.getD j 0|) := by
  have hx : j < xs.length := by rw [knots_length h] at hj; exact hj
  have hf : j < fs.length := h.len ▸ hx
  simp only [knots, List.getElem_zip, List.getElem_map, nabs_eq_abs]
  rw [getD_eq_getElem' _ _ hx, getD_eq_getElem' _ _ hf]

theorem knots_inc {xs fs : List α} (h : Axis1 xs fs) : KeysInc (knots xs fs) := keysInc_zip h.inc _

/-- **1 (1-D).** At a grid point the table returns the tabulated value (in magnitude). -/
theorem interp1_knot {xs fs : List α} (h : Axis1 xs fs) {j : Nat} (hj : j < xs.length) :
    interp1 xs fs (xs.getD j 0) = |fs.getD j 0| := by
  have hx0 : 0 ≤ xs.getD j 0 := by
    rw [getD_eq_getElem' _ _ hj]; exact h.nonneg _ (List.getElem_mem _)
  rw [interp1_eq h, abs_of_nonneg hx0]
  have hl := knots_length h
  cases j with
  | zero =>
    have hne : knots xs fs ≠ [] := by intro e; rw [e] at hl; simp at hl; omega
    obtain ⟨p, rest, e⟩ := List.exists_cons_of_ne_nil hne
    have hp : p = (xs.getD 0 0, |fs.getD 0 0|) := by
      have := knots_getElem h 0 (by omega); rw [← this]; simp [e]
    have hi := knots_inc h
    rw [e] at hi ⊢
    rw [interp1Aux_le_head p rest hi (by rw [hp])]
    rw [hp]
  | succ i =>
    have := interp1Aux_seg (knots xs fs) (knots_inc h) i (by omega) (xs.getD (i + 1) 0)
      (by rw [knots_getElem h i (by omega)]; exact getD_le_of_pairwise h.inc (by omega) hj)
      (by rw [knots_getElem h (i + 1) (by omega)])
    rw [this, knots_getElem h i (by omega), knots_getElem h (i + 1) (by omega)]
    have hd : xs.getD (i + 1) 0 - xs.getD i 0 ≠ 0 :=
      sub_ne_zero.mpr (ne_of_gt (getD_lt_of_pairwise h.inc (Nat.lt_succ_self i) hj))
    simp only
    field_simp
    ring

/-- **2 (1-D).** Between two consecutive knots the value is the affine interpolant of the two knots. -/
theorem interp1_linear {xs fs : List α} (h : Axis1 xs fs) {j : Nat} (hj : j + 1 < xs.length) {x : α}
    (h0 : xs.getD j 0 ≤ |x|) (h1 : |x| ≤ xs.getD (j + 1) 0) :
    interp1 xs fs x =
      |fs.getD j 0| + (|fs.getD (j + 1) 0| - |fs.getD j 0|) / (xs.getD (j + 1) 0 - xs.getD j 0)
        * (|x| - xs.getD j 0) := by
  have hl := knots_length h
  rw [interp1_eq h, interp1Aux_seg (knots xs fs) (knots_inc h) j (by omega) |x|
    (by rw [knots_getElem h j (by omega)]; exact h0)
    (by rw [knots_getElem h (j + 1) (by omega)]; exact h1),
    knots_getElem h j (by omega), knots_getElem h (j + 1) (by omega)]
  ring

/-- **3 (1-D).** Between two consecutive knots the value lies between the two tabulated values. -/
theorem interp1_range {xs fs : List α} (h : Axis1 xs fs) {j : Nat} (hj : j + 1 < xs.length) {x : α}
    (h0 : xs.getD j 0 ≤ |x|) (h1 : |x| ≤ xs.getD (j + 1) 0) :
    min |fs.getD j 0| |fs.getD (j + 1) 0| ≤ interp1 xs fs x ∧
      interp1 xs fs x ≤ max |fs.getD j 0| |fs.getD (j + 1) 0| := by
  rw [interp1_linear h hj h0 h1]
  have hd : 0 < xs.getD (j + 1) 0 - xs.getD j 0 :=
    sub_pos.mpr (getD_lt_of_pairwise h.inc (Nat.lt_succ_self j) hj)
  set a := |fs.getD j 0|
  set b := |fs.getD (j + 1) 0|
  set t := (|x| - xs.getD j 0) / (xs.getD (j + 1) 0 - xs.getD j 0) with ht
  have ht0 : 0 ≤ t := div_nonneg (sub_nonneg.mpr h0) hd.le
  have ht1 : t ≤ 1 := by rw [ht, div_le_one hd]; linarith
  have e : a + (b - a) / (xs.getD (j + 1) 0 - xs.getD j 0) * (|x| - xs.getD j 0) = (1 - t) * a + t * b := by
    rw [ht]; field_simp; ring
  rw [e]
  have la : min a b ≤ a := min_le_left _ _
  have lb : min a b ≤ b := min_le_right _ _
  have ua : a ≤ max a b := le_max_left _ _
  have ub : b ≤ max a b := le_max_right _ _
  constructor <;> nlinarith [mul_nonneg ht0 (sub_nonneg.mpr lb), mul_nonneg ht0 (sub_nonneg.mpr ub),
    mul_nonneg (sub_nonneg.mpr ht1) (sub_nonneg.mpr la), mul_nonneg (sub_nonneg.mpr ht1) (sub_nonneg.mpr ua)]

/-- **4 (1-D), left.** At or below the first knot: the first tabulated value, never extrapolated. -/
theorem interp1_clamp_left {xs fs : List α} (h : Axis1 xs fs) {x : α} (hx : |x| ≤ xs.headD 0) :
    interp1 xs fs x = |fs.headD 0| := by
  rw [interp1_eq h]
  cases xs with
  | nil =>
    have : fs = [] := by have := h.len; simp at this; exact List.length_eq_zero_iff.mp this.symm
    subst this; simp [knots, interp1Aux]
  | cons a l =>
    cases fs with
    | nil => have := h.len; simp at this
    | cons b m =>
      have hi := knots_inc h
      simp only [knots, List.map_cons, List.zip_cons_cons, List.headD_cons, nabs_eq_abs] at hi hx ⊢
      rw [interp1Aux_le_head _ _ hi hx]

/-- **4 (1-D), right.** At or above the last knot: the last tabulated value, never extrapolated. -/
theorem interp1_clamp_right {xs fs : List α} (h : Axis1 xs fs) (hne : xs ≠ []) {x : α}
    (hx : xs.getLastD 0 ≤ |x|) : interp1 xs fs x = |fs.getLastD 0| := by
  have hl := knots_length h
  have hn : knots xs fs ≠ [] := by
    intro e; rw [e] at hl; exact hne (List.length_eq_zero_iff.mp hl.symm)
  have hfn : fs ≠ [] := by
    intro e; rw [e] at h; exact hne (List.length_eq_zero_iff.mp h.len)
  have hpos : 0 < (knots xs fs).length := List.length_pos_iff.mpr hn
  have hlast : (knots xs fs).getLast hn = (xs.getLastD 0, |fs.getLastD 0|) := by
    rw [List.getLast_eq_getElem, knots_getElem h _ (by omega), getLastD_eq_getD hne, getLastD_eq_getD hfn,
      hl, h.len]
  rw [interp1_eq h, interp1Aux_ge_last (knots xs fs) (knots_inc h) hn (by rw [hlast]; exact hx), hlast]

/-- **4 (1-D).** Outside the axis range the value is the value at the nearest end of the axis. -/
theorem interp1_clamp {xs fs : List α} (h : Axis1 xs fs) (hne : xs ≠ []) (x : α) :
    interp1 xs fs x = interp1 xs fs (clamp (xs.headD 0) (xs.getLastD 0) |x|) := by
  have hhl : xs.headD 0 ≤ xs.getLastD 0 := headD_le_getLastD h.inc
  have hh0 : 0 ≤ xs.headD 0 := by
    cases xs with
    | nil => exact absurd rfl hne
    | cons a l => exact h.nonneg a (by simp)
  unfold clamp
  split_ifs with h1 h2
  · rw [interp1_clamp_left h h1.le, interp1_clamp_left h (by rw [abs_of_nonneg hh0])]
  · rw [interp1_clamp_right h hne h2.le,
      interp1_clamp_right h hne (by rw [abs_of_nonneg (le_trans hh0 hhl)])]
  · unfold interp1; simp only [nabs_eq_abs, abs_abs]

/-- **5.** The sign of the query is ignored by the 1-D interpolator. -/
theorem interp1_sign (xs fs : List α) (x : α) : interp1 xs fs (-x) = interp1 xs fs x := by
  unfold interp1; simp only [nabs_eq_abs, abs_neg]

/-- **5.** The laws look parameters up at `(|io|, |vi|)`: the signs of current and voltage are ignored for
    every kind of parameter (constant, 1-D, 2-D). -/
theorem interp_sign_as_used (p : Param α) (io vi : α) :
    p.interp (nabs (-io)) (nabs (-vi)) = p.interp (nabs io) (nabs vi) := by
  simp only [nabs_eq_abs, abs_neg]

/-- **5.** The signs of the table data are ignored as well (axis and values are taken in magnitude). -/
theorem interp1_table_sign (xs fs : List α) (x : α) :
    interp1 (xs.map (fun v => -v)) (fs.map (fun v => -v)) x = interp1 xs fs x := by
  have e : ∀ v : α, nabs (-v) = nabs v := by intro v; simp
  unfold interp1
  simp only [List.map_map, Function.comp_def, e]

theorem interp2_table_sign (xs ys : List α) (f : List (List α)) (diag : List (List Bool)) (x y : α) :
    interp2 (xs.map (fun v => -v)) (ys.map (fun v => -v)) (f.map (·.map (fun v => -v))) diag x y
      = interp2 xs ys f diag x y := by
  have e : ∀ v : α, nabs (-v) = nabs v := by intro v; simp
  unfold interp2
  simp only [List.map_map, Function.comp_def, e]

/-- **6 (1-D).** A table whose entries all equal `c` evaluates to `|c|` for every query — no condition on
    the axis at all. -/
theorem interp1_const (xs fs : List α) (c : α) (hl : xs.length = fs.length) (hne : xs ≠ [])
    (hc : ∀ v ∈ fs, v = c) (x : α) : interp1 xs fs x = |c| := by
  unfold interp1
  apply interp1Aux_const
  · intro p hp
    have := (List.of_mem_zip (a := p.1) (b := p.2) hp).2
    simp only [List.mem_map, nabs_eq_abs] at this
    obtain ⟨v, hv, e⟩ := this
    rw [← e, hc v hv]
  · intro e
    have : ((xs.map nabs).zip (fs.map nabs)).length = 0 := by rw [e]; rfl
    simp [hl] at this
    exact hne (List.length_eq_zero_iff.mp (hl ▸ (List.length_eq_zero_iff.mpr this)))

/-! ### one cell -/

/-- **3 (cell).** Inside a cell (`0 ≤ s, t ≤ 1`) the value lies between the smallest and the largest of
    the four corner values, whichever diagonal cuts the cell. -/
theorem cellVal_range (d : Bool) (f00 f10 f01 f11 s t : α) (hs0 : 0 ≤ s) (hs1 : s ≤ 1) (ht0 : 0 ≤ t)
    (ht1 : t ≤ 1) :
    min (min f00 f10) (min f01 f11) ≤ cellVal d f00 f10 f01 f11 s t ∧
      cellVal d f00 f10 f01 f11 s t ≤ max (max f00 f10) (max f01 f11) :=
  cellVal_bounds d f00 f10 f01 f11 s t _ _ hs0 hs1 ht0 ht1
    ⟨le_trans (min_le_left _ _) (min_le_left _ _), le_trans (le_max_left _ _) (le_max_left _ _)⟩
    ⟨le_trans (min_le_left _ _) (min_le_right _ _), le_trans (le_max_right _ _) (le_max_left _ _)⟩
    ⟨le_trans (min_le_right _ _) (min_le_left _ _), le_trans (le_max_left _ _) (le_max_right _ _)⟩
    ⟨le_trans (min_le_right _ _) (min_le_right _ _), le_trans (le_max_right _ _) (le_max_right _ _)⟩

/-! ### 2-D tables -/

section grid
variable {xs ys : List α} {f : List (List α)}

theorem head_le_getD (g : xs.Pairwise (· < ·)) {k : Nat} (hk : k < xs.length) : xs.headD 0 ≤ xs.getD k 0 := by
  have : xs.headD 0 = xs.getD 0 0 := by cases xs <;> simp
  rw [this]; exact getD_le_of_pairwise g (Nat.zero_le k) hk

theorem getD_le_last (g : xs.Pairwise (· < ·)) {k : Nat} (hk : k < xs.length) : xs.getD k 0 ≤ xs.getLastD 0 := by
  have hne : xs ≠ [] := by intro e; simp [e] at hk
  rw [getLastD_eq_getD hne]; exact getD_le_of_pairwise g (by omega) (by omega)

/-- **4 (2-D), inside.** Inside the table rectangle nothing is clamped. -/
theorem interp2_inside (g : Grid xs ys f) (diag : List (List Bool)) {x y : α}
    (hx0 : xs.headD 0 ≤ x) (hx1 : x ≤ xs.getLastD 0) (hy0 : ys.headD 0 ≤ y) (hy1 : y ≤ ys.getLastD 0) :
    interp2 xs ys f diag x y = interp2In xs ys (absF f) diag x y := by
  rw [interp2_eq g, clamp_of_mem hx0 hx1, clamp_of_mem hy0 hy1]

/-- **4 (2-D).** For every query, on all eight sides / corners outside the table, the value is the value
    at the nearest point of the table rectangle: never extrapolated. -/
theorem interp2_clamp (g : Grid xs ys f) (diag : List (List Bool)) (x y : α) :
    interp2 xs ys f diag x y =
      interp2 xs ys f diag (clamp (xs.headD 0) (xs.getLastD 0) x) (clamp (ys.headD 0) (ys.getLastD 0) y) := by
  have mx := clamp_mem (headD_le_getLastD g.xs_inc) x
  have my := clamp_mem (headD_le_getLastD g.ys_inc) y
  rw [interp2_eq g diag x y, interp2_inside g diag mx.1 mx.2 my.1 my.2]

/-- the clamped query is the nearest point of the rectangle, coordinate by coordinate -/
theorem clamp_is_nearest (g : Grid xs ys f) (x : α) :
    clamp (xs.headD 0) (xs.getLastD 0) x = max (xs.headD 0) (min (xs.getLastD 0) x) :=
  clamp_eq_max_min (headD_le_getLastD g.xs_inc) x

/-- value in any enclosing cell (inside the rectangle) -/
theorem interp2_eq_cellAt (g : Grid xs ys f) (diag : List (List Bool)) {j q : Nat}
    (hj : j + 1 < xs.length) (hq : q + 1 < ys.length) {x y : α}
    (hx0 : xs.getD j 0 ≤ x) (hx1 : x ≤ xs.getD (j + 1) 0)
    (hy0 : ys.getD q 0 ≤ y) (hy1 : y ≤ ys.getD (q + 1) 0) :
    interp2 xs ys f diag x y = cellAt xs ys (absF f) diag j q x y := by
  rw [interp2_inside g diag (le_trans (head_le_getD g.xs_inc (by omega)) hx0)
    (le_trans hx1 (getD_le_last g.xs_inc hj)) (le_trans (head_le_getD g.ys_inc (by omega)) hy0)
    (le_trans hy1 (getD_le_last g.ys_inc hq))]
  exact interp2In_eq_cellAt _ diag g.xs_inc g.ys_inc hj hq hx0 hx1 hy0 hy1

/-- **2 (2-D), line `io = xs[k]`.** Along a grid line of the io axis the value is the affine interpolant
    of the two adjacent knots — for either diagonal of either adjacent cell. -/
theorem interp2_edge_x (g : Grid xs ys f) (diag : List (List Bool)) {k r : Nat} (hk : k < xs.length)
    (hr : r + 1 < ys.length) {y : α} (hy0 : ys.getD r 0 ≤ y) (hy1 : y ≤ ys.getD (r + 1) 0) :
    interp2 xs ys f diag (xs.getD k 0) y =
      |getD2 f r k| + (y - ys.getD r 0) / (ys.getD (r + 1) 0 - ys.getD r 0)
        * (|getD2 f (r + 1) k| - |getD2 f r k|) := by
  have ry := rel_mem g.ys_inc hr hy0 hy1
  by_cases hk1 : k + 1 < xs.length
  · rw [interp2_eq_cellAt g diag hk1 hr (le_refl _) (getD_le_of_pairwise g.xs_inc (by omega) hk1) hy0 hy1]
    unfold cellAt
    rw [rel_left, cellVal_s0 _ _ _ _ _ _ ry.1 ry.2, getD2_absF, getD2_absF]
    rfl
  · obtain ⟨i, rfl⟩ : ∃ i, k = i + 1 := ⟨k - 1, by have := g.nx; omega⟩
    rw [interp2_eq_cellAt g diag hk hr (getD_le_of_pairwise g.xs_inc (by omega) hk) (le_refl _) hy0 hy1]
    unfold cellAt
    rw [rel_right g.xs_inc hk, cellVal_s1 _ _ _ _ _ _ ry.1 ry.2, getD2_absF, getD2_absF]
    rfl

/-- **2 (2-D), line `vi = ys[r]`.** Along a grid line of the vi axis likewise. -/
theorem interp2_edge_y (g : Grid xs ys f) (diag : List (List Bool)) {k r : Nat} (hk : k + 1 < xs.length)
    (hr : r < ys.length) {x : α} (hx0 : xs.getD k 0 ≤ x) (hx1 : x ≤ xs.getD (k + 1) 0) :
    interp2 xs ys f diag x (ys.getD r 0) =
      |getD2 f r k| + (x - xs.getD k 0) / (xs.getD (k + 1) 0 - xs.getD k 0)
        * (|getD2 f r (k + 1)| - |getD2 f r k|) := by
  have rx := rel_mem g.xs_inc hk hx0 hx1
  by_cases hr1 : r + 1 < ys.length
  · rw [interp2_eq_cellAt g diag hk hr1 hx0 hx1 (le_refl _) (getD_le_of_pairwise g.ys_inc (by omega) hr1)]
    unfold cellAt
    rw [rel_left, cellVal_t0 _ _ _ _ _ _ rx.1 rx.2, getD2_absF, getD2_absF]
    rfl
  · obtain ⟨i, rfl⟩ : ∃ i, r = i + 1 := ⟨r - 1, by have := g.ny; omega⟩
    rw [interp2_eq_cellAt g diag hk hr hx0 hx1 (getD_le_of_pairwise g.ys_inc (by omega) hr) (le_refl _)]
    unfold cellAt
    rw [rel_right g.ys_inc hr, cellVal_t1 _ _ _ _ _ _ rx.1 rx.2, getD2_absF, getD2_absF]
    rfl

/-- **1 (2-D).** At a grid point the table returns the tabulated value (in magnitude). -/
theorem interp2_knot (g : Grid xs ys f) (diag : List (List Bool)) {k r : Nat} (hk : k < xs.length)
    (hr : r < ys.length) : interp2 xs ys f diag (xs.getD k 0) (ys.getD r 0) = |getD2 f r k| := by
  by_cases hr1 : r + 1 < ys.length
  · rw [interp2_edge_x g diag hk hr1 (le_refl _) (getD_le_of_pairwise g.ys_inc (by omega) hr1)]
    simp
  · obtain ⟨i, rfl⟩ : ∃ i, r = i + 1 := ⟨r - 1, by have := g.ny; omega⟩
    rw [interp2_edge_x g diag hk hr (getD_le_of_pairwise g.ys_inc (by omega) hr) (le_refl _)]
    have hd : ys.getD (i + 1) 0 - ys.getD i 0 ≠ 0 :=
      sub_ne_zero.mpr (ne_of_gt (getD_lt_of_pairwise g.ys_inc (Nat.lt_succ_self i) hr))
    rw [div_self hd]; ring

/-- **3 (2-D).** For every query and every cell whose closed rectangle contains the (clamped) query, the
    value lies between the smallest and the largest of the four corner values of that cell. -/
theorem interp2_range (g : Grid xs ys f) (diag : List (List Bool)) (x y : α) {k r : Nat}
    (hk : k + 1 < xs.length) (hr : r + 1 < ys.length)
    (hx0 : xs.getD k 0 ≤ clamp (xs.headD 0) (xs.getLastD 0) x)
    (hx1 : clamp (xs.headD 0) (xs.getLastD 0) x ≤ xs.getD (k + 1) 0)
    (hy0 : ys.getD r 0 ≤ clamp (ys.headD 0) (ys.getLastD 0) y)
    (hy1 : clamp (ys.headD 0) (ys.getLastD 0) y ≤ ys.getD (r + 1) 0) :
    min (min |getD2 f r k| |getD2 f r (k + 1)|) (min |getD2 f (r + 1) k| |getD2 f (r + 1) (k + 1)|)
        ≤ interp2 xs ys f diag x y ∧
      interp2 xs ys f diag x y
        ≤ max (max |getD2 f r k| |getD2 f r (k + 1)|) (max |getD2 f (r + 1) k| |getD2 f (r + 1) (k + 1)|) := by
  rw [interp2_clamp g diag x y, interp2_eq_cellAt g diag hk hr hx0 hx1 hy0 hy1]
  have rx := rel_mem g.xs_inc hk hx0 hx1
  have ry := rel_mem g.ys_inc hr hy0 hy1
  unfold cellAt
  simp only [getD2_absF]
  exact cellVal_range _ _ _ _ _ _ _ rx.1 rx.2 ry.1 ry.2

/-- **3 (2-D).** Such a cell exists for every query: no query whatsoever leaves the range of the table. -/
theorem interp2_range_exists (g : Grid xs ys f) (diag : List (List Bool)) (x y : α) :
    ∃ k r, k + 1 < xs.length ∧ r + 1 < ys.length ∧
      min (min |getD2 f r k| |getD2 f r (k + 1)|) (min |getD2 f (r + 1) k| |getD2 f (r + 1) (k + 1)|)
        ≤ interp2 xs ys f diag x y ∧
      interp2 xs ys f diag x y
        ≤ max (max |getD2 f r k| |getD2 f r (k + 1)|) (max |getD2 f (r + 1) k| |getD2 f (r + 1) (k + 1)|) := by
  have mx := clamp_mem (headD_le_getLastD g.xs_inc) x
  have my := clamp_mem (headD_le_getLastD g.ys_inc) y
  obtain ⟨k, hk, a, b⟩ := exists_cell g.xs_inc g.nx mx.1 mx.2
  obtain ⟨r, hr, c, d⟩ := exists_cell g.ys_inc g.ny my.1 my.2
  exact ⟨k, r, hk, hr, interp2_range g diag x y hk hr a b c d⟩

/-- **6 (2-D).** A rectangular table whose entries all equal `c` evaluates to `|c|` for every query and
    every choice of diagonals. -/
theorem interp2_const (g : Grid xs ys f) (diag : List (List Bool)) (c : α)
    (hcols : ∀ row ∈ f, row.length = xs.length) (hc : ∀ row ∈ f, ∀ v ∈ row, v = c) (x y : α) :
    interp2 xs ys f diag x y = |c| := by
  have mx := clamp_mem (headD_le_getLastD g.xs_inc) x
  have my := clamp_mem (headD_le_getLastD g.ys_inc) y
  obtain ⟨k, hk, a, b⟩ := exists_cell g.xs_inc g.nx mx.1 mx.2
  obtain ⟨r, hr, c', d⟩ := exists_cell g.ys_inc g.ny my.1 my.2
  have hv : ∀ r' k', r' < ys.length → k' < xs.length → getD2 f r' k' = c := by
    intro r' k' h1 h2
    have h1' : r' < f.length := g.rows ▸ h1
    unfold getD2
    rw [getD_eq_getElem' _ _ h1']
    have hrow := hcols _ (List.getElem_mem h1')
    rw [getD_eq_getElem' _ _ (hrow ▸ h2)]
    exact hc _ (List.getElem_mem h1') _ (List.getElem_mem _)
  rw [interp2_clamp g diag x y, interp2_eq_cellAt g diag hk hr a b c' d]
  unfold cellAt
  simp only [getD2_absF]
  rw [hv r k (by omega) (by omega), hv r (k + 1) (by omega) hk, hv (r + 1) k hr (by omega), hv (r + 1) (k + 1) hr hk]
  exact cellVal_const _ _ _ _

end grid

/-- **6.** A constant table and the constant are the same parameter for every lookup the laws make
    (hence equal laws, hence — by congruence — equal `solve()`). -/
theorem param_const_table_1d (xs fs : List α) (c : α) (hl : xs.length = fs.length) (hne : xs ≠ [])
    (hc : ∀ v ∈ fs, v = c) (x y : α) :
    (Param.tab1 xs fs).interp x y = (Param.const |c|).interp x y :=
  interp1_const xs fs c hl hne hc x

theorem param_const_table_2d {xs ys : List α} {f : List (List α)} (g : Grid xs ys f)
    (diag : List (List Bool)) (c : α) (hcols : ∀ row ∈ f, row.length = xs.length)
    (hc : ∀ row ∈ f, ∀ v ∈ row, v = c) (x y : α) :
    (Param.tab2 xs ys f diag).interp x y = (Param.const |c|).interp x y :=
  interp2_const g diag c hcols hc x y

/-! ### tables as the constructors accept them: io axis increasing in magnitude, vi rows in any order -/

/-- only the magnitudes of the axis entries matter … -/
theorem interp1_abs_axis (xs fs : List α) (x : α) : interp1 (xs.map nabs) fs x = interp1 xs fs x := by
  have e : ∀ v : α, nabs (nabs v) = nabs v := by intro v; simp
  unfold interp1
  simp only [List.map_map, Function.comp_def, e]

/-- … so every 1-D statement above holds for an axis that is increasing in magnitude (what `_check_interp`
    demands since repair b59f1ff), e.g. knot exactness: -/
theorem interp1_knot_abs {xs fs : List α} (h : Axis1 (xs.map nabs) fs) {j : Nat} (hj : j < xs.length) :
    interp1 xs fs (xs.getD j 0) = |fs.getD j 0| := by
  have := interp1_knot h (j := j) (by simpa using hj)
  rw [interp1_abs_axis] at this
  have e : (xs.map nabs).getD j 0 = |xs.getD j 0| := by
    rw [getD_eq_getElem' _ _ (by simpa using hj), getD_eq_getElem' _ _ hj]; simp
  rw [e] at this
  rw [← this, ← interp1_sign_abs]
where
  interp1_sign_abs : ∀ {xs fs : List α} {x : α}, interp1 xs fs |x| = interp1 xs fs x := by
    intro xs fs x; unfold interp1; simp only [nabs_eq_abs, abs_abs]

/-- **3 / 4 for shuffled or negative vi rows**: a rectangular table with an io axis increasing in magnitude
    and at least one cell never leaves the range of its tabulated magnitudes — for every query, inside or
    outside, every diagonal choice, whatever the order and the signs of the vi rows. -/
theorem interp2_global_range (xs ys : List α) (f : List (List α)) (diag : List (List Bool)) (lo hi : α)
    (hxs : (xs.map nabs).Pairwise (· < ·)) (hx2 : 2 ≤ xs.length) (hy2 : 2 ≤ ys.length)
    (hrows : f.length = ys.length) (hcols : ∀ row ∈ f, row.length = xs.length)
    (hb : ∀ row ∈ f, ∀ v ∈ row, lo ≤ |v| ∧ |v| ≤ hi) (x y : α) :
    lo ≤ interp2 xs ys f diag x y ∧ interp2 xs ys f diag x y ≤ hi :=
  interp2_bounds xs ys f diag lo hi hxs hx2 hy2 hrows hcols hb x y

/-! ### the conditioning is needed: an io axis that is not increasing in magnitude (former finding F11;
    such tables are refused by the constructors since repair b59f1ff, see C11.table_io_not_increasing) -/

/-- knot exactness for every strictly increasing io axis, *without* the non-negativity condition -/
def knot_any_increasing_axis : Prop :=
  ∀ (xs fs : List ℚ) (j : Nat), xs.Pairwise (· < ·) → xs.length = fs.length → j < xs.length →
    interp1 xs fs (xs.getD j 0) = |fs.getD j 0|

/-- It fails: io axis `[-2, -1]` is strictly increasing and passes `_check_interp`, but is stored as
    `[2, 1]`; the lookup at the first knot (|io| = 2) returns the value tabulated for the second. -/
theorem knot_negative_axis_fails : ¬ knot_any_increasing_axis := by
  intro h
  have := h [-2, -1] [1, 2] 0 (by simp) rfl (by simp)
  norm_num [interp1, interp1Aux, nabs] at this

/-! ### non-vacuity: the docstring tables of components.py -/

section examples

/-- `LinReg` docstring: `ig = {"vi":[5.0], "io":[0.0, 0.05, 0.1], "ig":[[2.0e-6, 0.5e-3, 0.85e-3]]}` -/
def exIo1 : List ℚ := [0, 1/20, 1/10]
def exIg1 : List ℚ := [1/500000, 1/2000, 17/20000]

theorem exAxis1 : Axis1 exIo1 exIg1 :=
  ⟨by norm_num [exIo1], by intro x hx; simp [exIo1] at hx; rcases hx with rfl | rfl | rfl <;> norm_num, rfl⟩

example : interp1 exIo1 exIg1 (1/20) = 1/2000 := by
  have := interp1_knot exAxis1 (j := 1) (by simp [exIo1])
  simpa [exIo1, exIg1] using this

example : interp1 exIo1 exIg1 (-3/40) = 27/40000 := by
  have := interp1_linear exAxis1 (j := 1) (x := -3/40) (by simp [exIo1])
    (by norm_num [exIo1, abs_of_neg]) (by norm_num [exIo1, abs_of_neg])
  rw [this]; norm_num [exIo1, exIg1, abs_of_neg, abs_of_pos]

example : min (1/2000 : ℚ) (17/20000) ≤ interp1 exIo1 exIg1 (3/40) ∧ interp1 exIo1 exIg1 (3/40) ≤ max (1/2000) (17/20000) := by
  have := interp1_range exAxis1 (j := 1) (x := 3/40) (by simp [exIo1])
    (by norm_num [exIo1, abs_of_pos]) (by norm_num [exIo1, abs_of_pos])
  simpa [exIo1, exIg1, abs_of_pos] using this

example : interp1 exIo1 exIg1 7 = 17/20000 := by
  have := interp1_clamp_right exAxis1 (by simp [exIo1]) (x := 7) (by norm_num [exIo1, List.getLastD])
  simpa [exIg1, List.getLastD, abs_of_pos] using this

example : interp1 exIo1 exIg1 7 = interp1 exIo1 exIg1 (1/10) := by
  have := interp1_clamp exAxis1 (by simp [exIo1]) 7
  rw [this]; norm_num [exIo1, clamp, List.getLastD]

example : interp1 exIo1 exIg1 (-(1/20)) = interp1 exIo1 exIg1 (1/20) := interp1_sign _ _ _

example : interp1 exIo1 [3, 3, 3] (2/30) = 3 := by
  have := interp1_const exIo1 [3, 3, 3] 3 rfl (by simp [exIo1]) (by simp) (2/30)
  simpa using this

/-- `Converter` docstring: `{"vi":[3.3, 5.0, 12], "io":[0.1, 0.5, 0.9],
    "eff":[[0.55, 0.78, 0.92], [0.5, 0.74, 0.83], [0.4, 0.6, 0.766]]}` -/
def exIo : List ℚ := [1/10, 1/2, 9/10]
def exVi : List ℚ := [33/10, 5, 12]
def exEff : List (List ℚ) := [[11/20, 39/50, 23/25], [1/2, 37/50, 83/100], [2/5, 3/5, 383/500]]

theorem exGrid : Grid exIo exVi exEff where
  xs_inc := by norm_num [exIo]
  xs_nonneg := by intro x hx; simp [exIo] at hx; rcases hx with rfl | rfl | rfl <;> norm_num
  ys_inc := by norm_num [exVi]
  ys_nonneg := by intro x hx; simp [exVi] at hx; rcases hx with rfl | rfl | rfl <;> norm_num
  nx := by simp [exIo]
  ny := by simp [exVi]
  rows := rfl

example (diag : List (List Bool)) : interp2 exIo exVi exEff diag (1/2) 5 = 37/50 := by
  have := interp2_knot exGrid diag (k := 1) (r := 1) (by simp [exIo]) (by simp [exVi])
  simpa [exIo, exVi, exEff, getD2, abs_of_pos] using this

example (diag : List (List Bool)) : interp2 exIo exVi exEff diag (1/2) 4 = 649/850 := by
  have := interp2_edge_x exGrid diag (k := 1) (r := 0) (y := 4) (by simp [exIo]) (by simp [exVi])
    (by norm_num [exVi]) (by norm_num [exVi])
  rw [show (1/2 : ℚ) = exIo.getD 1 0 by simp [exIo], this]
  norm_num [exVi, exEff, getD2, abs_of_pos]

example (diag : List (List Bool)) : interp2 exIo exVi exEff diag (7/10) 12 = 683/1000 := by
  have := interp2_edge_y exGrid diag (k := 1) (r := 2) (x := 7/10) (by simp [exIo]) (by simp [exVi])
    (by norm_num [exIo]) (by norm_num [exIo])
  rw [show (12 : ℚ) = exVi.getD 2 0 by simp [exVi], this]
  norm_num [exIo, exEff, getD2, abs_of_pos]

example (diag : List (List Bool)) :
    (1/2 : ℚ) ≤ interp2 exIo exVi exEff diag (3/10) 4 ∧ interp2 exIo exVi exEff diag (3/10) 4 ≤ 39/50 := by
  have := interp2_range exGrid diag (3/10) 4 (k := 0) (r := 0) (by simp [exIo]) (by simp [exVi])
    (by norm_num [exIo, clamp, List.getLastD]) (by norm_num [exIo, clamp, List.getLastD])
    (by norm_num [exVi, clamp, List.getLastD]) (by norm_num [exVi, clamp, List.getLastD])
  norm_num [exEff, getD2, abs_of_pos] at this
  exact this

example (diag : List (List Bool)) :
    interp2 exIo exVi exEff diag 5 1 = interp2 exIo exVi exEff diag (9/10) (33/10) := by
  have := interp2_clamp exGrid diag 5 1
  rw [this]; norm_num [exIo, exVi, clamp, List.getLastD]

example (diag : List (List Bool)) (x y : ℚ) :
    interp2 exIo exVi [[4/5, 4/5, 4/5], [4/5, 4/5, 4/5], [4/5, 4/5, 4/5]] diag x y = 4/5 := by
  have g : Grid exIo exVi [[4/5, 4/5, 4/5], [4/5, 4/5, 4/5], [4/5, 4/5, 4/5]] :=
    { exGrid with rows := rfl }
  have := interp2_const g diag (4/5) (by simp [exIo]) (by simp) x y
  simpa [abs_of_pos] using this

/-- the docstring table with its rows given in another order and a negative vi entry -/
example (diag : List (List Bool)) (x y : ℚ) :
    (2/5 : ℚ) ≤ interp2 exIo [12, -5, 33/10] [[2/5, 3/5, 383/500], [1/2, 37/50, 83/100], [11/20, 39/50, 23/25]] diag x y
      ∧ interp2 exIo [12, -5, 33/10] [[2/5, 3/5, 383/500], [1/2, 37/50, 83/100], [11/20, 39/50, 23/25]] diag x y ≤ 23/25 := by
  apply interp2_global_range
  · norm_num [exIo, nabs]
  · simp [exIo]
  · simp
  · rfl
  · intro row hr; simp at hr; rcases hr with rfl | rfl | rfl <;> simp [exIo]
  · intro row hr v hv
    simp at hr
    rcases hr with rfl | rfl | rfl <;> simp at hv <;> rcases hv with rfl | rfl | rfl <;> norm_num [abs_of_pos]

example : interp1 [-1, 2, 3] [5, 6, 7] (-1 : ℚ) = 5 := by
  have h : Axis1 (([-1, 2, 3] : List ℚ).map nabs) [5, 6, 7] :=
    ⟨by norm_num [nabs], by intro x hx; simp [nabs] at hx; rcases hx with rfl | rfl | rfl <;> norm_num, rfl⟩
  have := interp1_knot_abs h (j := 0) (by simp)
  simpa [abs_of_pos] using this

example : cellVal true (1:ℚ) 2 3 5 (1/4) (1/2) = 5/2 := by norm_num [cellVal]

example : min (min (1:ℚ) 2) (min 3 5) ≤ cellVal false 1 2 3 5 (3/4) (1/2) ∧
    cellVal false (1:ℚ) 2 3 5 (3/4) (1/2) ≤ max (max 1 2) (max 3 5) :=
  cellVal_range _ _ _ _ _ _ _ (by norm_num) (by norm_num) (by norm_num) (by norm_num)

end examples

end C10
end SysLoss
