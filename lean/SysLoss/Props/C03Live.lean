/-
  Props/C03Live — C03, liveness clause: the first class of systems for which `solve()` provably *finds* the
  steady state instead of raising.  (Termination, soundness, outcome classes: `Props/C03.lean`.)

  Class ("finite settling"): the voltage laws do not read the load current —
    `DropFree c` : Source / RLoss / PSwitch / PMux / MOSFET Rectifier have `rs = 0` (and no `rs` list),
                   VLoss / diode Rectifier have a constant drop (`c.par = .const d`); loads, Converter and
                   LinReg are unrestricted (their voltage law never reads `io`; their *current* laws may use
                   any table) —
  on a single-supply tree given with rank functions (`SingleSupplyTree s depth height D`: every node has no
  parent, and is then a Source, or exactly one, `depth child = depth parent + 1`; `height child + 1 ≤ height
  parent`; no PMux; both ranks ≤ `D`).

  Delivered, all about the existing `SSys.fwdProp / backProp / loop / solvePhase / init`:
   * `sweep`, `sweepN`                      the body of `_solve` as a map on `(v, i, state)` and its iterates
   * `loop_returns_if_eventually_fixed`     GENERIC (any system): if the K-th iterate from `init` exists and is
                                            reproduced exactly by one more pass and `K + 1 ≤ maxiter`, then
                                            `solvePhase` returns `.ok` within `K + 1` passes (the tolerance test
                                            may fire earlier — that is an `.ok` too)
   * `volt_step_settle`, `voltages_settle_partial`   (a) after `k` passes from ANY start the voltage and flag of
                                            every node of depth `< k` equal fixed values `vfix n`, `sfix n`
   * `curr_step_settle`, `currents_settle_partial`   (b) after `D + 1` passes, `j + 1` further passes fix the
                                            currents of all nodes of height ≤ `j`
   * `eventually_fixed_partial`             (c) the `(2D+2)`-th iterate is an exact fixed point of the pass
   * `finite_settling_partial`              `maxiter ≥ 2D + 3`, tolerances ≥ 0, no voltage law raises on the
                                            iterates `0 … 2D+2` ⟹ `∃ r, solvePhase = .ok r`, `r.iters ≤ 2D + 3`
   * `noraise_of_margin`, `finite_settling_margin_partial`   the "no law raises" hypothesis discharged from a
                                            checkable certificate `Margin s lo` (`lo n` = lower bound on any
                                            non-zero |V| node `n` can output; constant drops must stay below the
                                            bound of their input).  With `rs = 0` the only guards that can fire
                                            are the sign tests of VLoss / diode Rectifier; all others are shown
                                            never to fire.

  Why `_partial`: (1) single-supply trees only — a node with several parents (PMux) is excluded
  (`SingleSupplyTree.no_mux`, `.parent`); (2) the class is the drop-free one.  Nothing is assumed about ids
  holding no node, about `childs` being the inverse of `parents`, about the topological order beyond
  `n ∈ topo → n < hidx`, or about the start vector in (a)–(c) (only the final theorems use `s.init`).
  NOT covered: any system in which a voltage law reads the current (rs ≠ 0, tabulated drops) — there the
  iteration converges only in the limit; the general statement is kept, unproved and not asserted, as
  `C03_liveness_full`.
-/
import SysLoss.Props.C03
import SysLoss.Props.C16Sweep

set_option linter.unusedSectionVars false
set_option linter.unusedVariables false

namespace SysLoss
namespace C03
variable {α : Type} [Field α] [LinearOrder α] [IsStrictOrderedRing α]

/-! ### 1. the sweep map and its iterates; the loop returns once an iterate is exactly fixed -/

/-- one pass of the body of `_solve`: `(v, i, state) ↦ (v', i', state')` -/
def sweep (s : SSys α) (ph : String) (x : Vec α × Vec α × St) : Except Err (Vec α × Vec α × St) :=
  match s.fwdProp ph x.1 x.2.1 x.2.2 with
  | .error e => .error e
  | .ok (v', st') => .ok (v', s.backProp ph v' x.2.1 x.2.2, st')

/-- `k` passes -/
def sweepN (s : SSys α) (ph : String) : Nat → (Vec α × Vec α × St) → Except Err (Vec α × Vec α × St)
  | 0, x => .ok x
  | k + 1, x => (sweepN s ph k x).bind (sweep s ph)

theorem sweepN_succ_ok (s : SSys α) (ph : String) (k : Nat) (x z : Vec α × Vec α × St) :
    sweepN s ph (k + 1) x = .ok z ↔ ∃ y, sweepN s ph k x = .ok y ∧ sweep s ph y = .ok z := by
  show (sweepN s ph k x).bind (sweep s ph) = .ok z ↔ _
  cases h : sweepN s ph k x with
  | error e => simp [Except.bind]
  | ok y => simp [Except.bind]

theorem sweepN_add (s : SSys α) (ph : String) (a : Nat) (x : Vec α × Vec α × St) :
    ∀ b, sweepN s ph (a + b) x = (sweepN s ph a x).bind (sweepN s ph b) := by
  intro b
  induction b with
  | zero =>
    show sweepN s ph a x = _
    cases sweepN s ph a x <;> rfl
  | succ b ih =>
    show (sweepN s ph (a + b) x).bind (sweep s ph) = _
    rw [ih]
    cases sweepN s ph a x <;> rfl

theorem sweepN_add_ok (s : SSys α) (ph : String) (a b : Nat) (x y : Vec α × Vec α × St)
    (h : sweepN s ph a x = .ok y) : sweepN s ph (a + b) x = sweepN s ph b y := by
  rw [sweepN_add, h]; rfl

/-- peeling the first pass instead of the last -/
theorem sweepN_succ_ok' (s : SSys α) (ph : String) (k : Nat) (x z : Vec α × Vec α × St) :
    sweepN s ph (k + 1) x = .ok z ↔ ∃ y, sweep s ph x = .ok y ∧ sweepN s ph k y = .ok z := by
  rw [Nat.add_comm, sweepN_add]
  have h1 : sweepN s ph 1 x = sweep s ph x := by
    show (Except.ok x).bind (sweep s ph) = _
    rfl
  rw [h1]
  cases h : sweep s ph x with
  | error e => simp [Except.bind]
  | ok y => simp [Except.bind]

/-- an iterate that exists has only existing predecessors -/
theorem sweepN_ok_of_le (s : SSys α) (ph : String) (x : Vec α × Vec α × St) (k : Nat)
    (z : Vec α × Vec α × St) (h : sweepN s ph k x = .ok z) :
    ∀ j, j ≤ k → ∃ y, sweepN s ph j x = .ok y := by
  induction k generalizing z with
  | zero => intro j hj; exact ⟨z, by rw [Nat.le_zero.mp hj]; exact h⟩
  | succ k ih =>
    intro j hj
    obtain ⟨y, hy, _⟩ := (sweepN_succ_ok s ph k x z).mp h
    rcases Nat.lt_or_ge j (k + 1) with hlt | hge
    · exact ih y hy j (Nat.lt_succ_iff.mp hlt)
    · exact ⟨z, by rw [Nat.le_antisymm hj hge]; exact h⟩

theorem sweep_ok_iff (s : SSys α) (ph : String) (v i : Vec α) (st : St) (v' i' : Vec α) (st' : St) :
    sweep s ph (v, i, st) = .ok (v', i', st') ↔
      s.fwdProp ph v i st = .ok (v', st') ∧ i' = s.backProp ph v' i st := by
  unfold sweep
  cases h : s.fwdProp ph v i st with
  | error e => simp
  | ok p =>
    obtain ⟨a, b⟩ := p
    simp only [Except.ok.injEq, Prod.mk.injEq]
    constructor
    · rintro ⟨rfl, rfl, rfl⟩; exact ⟨⟨rfl, rfl⟩, rfl⟩
    · rintro ⟨⟨rfl, rfl⟩, rfl⟩; exact ⟨rfl, rfl, rfl⟩

/-- The loop started at `x`: if the `K`-th iterate of the sweep map from `x` exists and is an exact fixed
    point of one more pass, the loop — whatever exit the tolerance test takes on the way — returns within
    `K + 1` passes, on a triple on which the exit test fired. -/
theorem loop_returns_of_iterate_fixed (s : SSys α) (cfg : Cfg α) (ph : String)
    (hat : 0 ≤ cfg.atol) (hv : 0 ≤ cfg.vtol) (hi : 0 ≤ cfg.itol) :
    ∀ (K : Nat) (x y : Vec α × Vec α × St) (fuel it : Nat),
      sweepN s ph K x = .ok y → sweep s ph y = .ok y → K + 1 ≤ fuel →
      ∃ r, s.loop cfg ph fuel x.1 x.2.1 x.2.2 it = .ok r ∧ r.iters ≤ it + K + 1 := by
  intro K
  induction K with
  | zero =>
    intro x y fuel it hK hfix hfuel
    obtain ⟨f, rfl⟩ : ∃ f, fuel = f + 1 := ⟨fuel - 1, by omega⟩
    simp only [sweepN, Except.ok.injEq] at hK
    subst hK
    obtain ⟨v, i, st⟩ := x
    obtain ⟨hf, hb⟩ := (sweep_ok_iff s ph v i st v i st).mp hfix
    exact ⟨_, exact_fixed_point_returns s cfg ph f v i st st it hat hv hi hf hb.symm, by simp⟩
  | succ K ih =>
    intro x y fuel it hK hfix hfuel
    obtain ⟨f, rfl⟩ : ∃ f, fuel = f + 1 := ⟨fuel - 1, by omega⟩
    obtain ⟨x1, hx1, hK1⟩ := (sweepN_succ_ok' s ph K x y).mp hK
    obtain ⟨v, i, st⟩ := x
    obtain ⟨v1, i1, st1⟩ := x1
    obtain ⟨hf, hb⟩ := (sweep_ok_iff s ph v i st v1 i1 st1).mp hx1
    unfold SSys.loop
    simp only [hf, bind, Except.bind]
    by_cases hc : converged cfg v v1 i (s.backProp ph v1 i st) = true
    · rw [if_pos hc]
      exact ⟨_, rfl, by show it + 1 ≤ it + (K + 1) + 1; omega⟩
    · rw [if_neg hc, ← hb]
      obtain ⟨r, hr, hle⟩ := ih (v1, i1, st1) y f (it + 1) hK1 hfix (by omega)
      exact ⟨r, hr, by omega⟩

/-- **`loop_returns_if_eventually_fixed`.**  If the `K`-th iterate of the sweep map from the solver's
    initial guess exists (no voltage law raised during the first `K` passes), is reproduced exactly by one
    more pass, and `K + 1 ≤ maxiter`, then `solve()` returns for this phase (no `RuntimeError`, no
    `ValueError`), after at most `K + 1` passes. -/
theorem loop_returns_if_eventually_fixed (s : SSys α) (cfg : Cfg α) (ph : String)
    (hat : 0 ≤ cfg.atol) (hv : 0 ≤ cfg.vtol) (hi : 0 ≤ cfg.itol)
    (K : Nat) (y : Vec α × Vec α × St)
    (hK : sweepN s ph K (s.init ph) = .ok y) (hfix : sweep s ph y = .ok y) (hm : K + 1 ≤ cfg.maxiter) :
    ∃ r, s.solvePhase cfg ph = .ok r ∧ r.iters ≤ K + 1 := by
  obtain ⟨r, hr, hle⟩ := loop_returns_of_iterate_fixed s cfg ph hat hv hi K (s.init ph) y
    (cfg.maxiter + 1) 0 hK hfix (by omega)
  refine ⟨r, ?_, by omega⟩
  unfold SSys.solvePhase SSys.solveRaw
  simp only [hr, bind, Except.bind]
  rw [if_neg (by omega)]
  rfl

/-! ### 2. what one pass does, cell by cell -/

theorem sweep_cells (s : SSys α) (ph : String) (hb : ∀ n ∈ s.topo, n < s.hidx)
    (v i : Vec α) (st : St) (v' i' : Vec α) (st' : St)
    (h : sweep s ph (v, i, st) = .ok (v', i', st')) :
    v'.size = s.hidx ∧ i'.size = s.hidx ∧ st'.size = s.hidx ∧
    (∀ n, n ∈ s.topo → ∃ x b, s.fwdAt ph v i st n = .ok (x, b) ∧ vget v' n = x ∧ st'.getD n [] = [b]) ∧
    (∀ n, n ∉ s.topo → vget v' n = 0 ∧ st'.getD n [] = []) ∧
    (∀ n, n ∈ s.topo → vget i' n = s.backAt ph v' i st n) ∧
    (∀ n, n ∉ s.topo → vget i' n = 0) := by
  obtain ⟨hf, hi⟩ := (sweep_ok_iff s ph v i st v' i' st').mp h
  obtain ⟨a1, a2, a3, a4⟩ := C16.fwdProp_pointwise s ph v i st v' st' hf
  obtain ⟨b1, b2, b3⟩ := C16.backProp_pointwise s ph v' i st
  subst hi
  exact ⟨a1, b1, a2, fun n hn => a3 n hn (hb n hn), a4, fun n hn => b2 n hn (hb n hn), b3⟩

/-- arrays of equal size that agree under `getD` are equal -/
theorem array_ext_getD {β : Type} (d : β) (a b : Array β) (hs : a.size = b.size)
    (h : ∀ n, a.getD n d = b.getD n d) : a = b := by
  apply Array.ext hs
  intro n h1 h2
  have := h n
  simpa [Array.getD_eq_getD_getElem?, h1, h2] using this

/-- a forward pass succeeds as soon as every cell does -/
theorem fwdProp_ok_of_cells (s : SSys α) (ph : String) (v i : Vec α) (st : St)
    (h : ∀ n, n ∈ s.topo → ∃ xb, s.fwdAt ph v i st n = .ok xb) :
    ∃ r, s.fwdProp ph v i st = .ok r := by
  rw [C16.fwdProp_eq_foldlM]
  have key : ∀ (l : List Nat) (acc : Vec α × St), (∀ n, n ∈ l → ∃ xb, s.fwdAt ph v i st n = .ok xb) →
      ∃ r, l.foldlM (C16.fwdStep s ph v i st) acc = .ok r := by
    intro l
    induction l with
    | nil => intro acc _; exact ⟨acc, rfl⟩
    | cons m l ih =>
      intro acc hl
      obtain ⟨⟨x, b⟩, hx⟩ := hl m (by simp)
      simp only [List.foldlM_cons, bind, Except.bind, C16.fwdStep, hx, pure, Except.pure]
      exact ih _ (fun n hn => hl n (by simp [hn]))
  exact key _ _ h

theorem sweep_ok_of_cells (s : SSys α) (ph : String) (x : Vec α × Vec α × St)
    (h : ∀ n, n ∈ s.topo → ∃ xb, s.fwdAt ph x.1 x.2.1 x.2.2 n = .ok xb) :
    ∃ y, sweep s ph x = .ok y := by
  obtain ⟨⟨v', st'⟩, hr⟩ := fwdProp_ok_of_cells s ph x.1 x.2.1 x.2.2 h
  exact ⟨_, by unfold sweep; rw [hr]⟩

/-! ### 3. drop-free components: the voltage law does not read the load current -/

/-- The class of the theorem: no series resistance anywhere (`rs = 0`, no `rs` list), constant forward
    drops (`VLoss`, diode `Rectifier`); loads, `Converter` and `LinReg` are unrestricted. -/
def DropFree (c : Comp α) : Prop :=
  match c.kind with
  | .source | .rloss | .pswitch => c.rs = 0
  | .pmux => c.rs = 0 ∧ c.rsList = none
  | .vloss => ∃ d, c.par = .const d
  | .rectifier => if c.diode = true then ∃ d, c.par = .const d else c.rs = 0 ∧ c.rsList = none
  | _ => True

theorem volt_io_indep (c : Comp α) (h : DropFree c) (vi : List α) (io io' : α) (ph : PhaseCtx α)
    (off : List Bool) : c.solvOutpVolt vi io ph off = c.solvOutpVolt vi io' ph off := by
  unfold DropFree at h
  unfold Comp.solvOutpVolt
  cases hk : c.kind <;> simp only [hk] at h ⊢
  · simp [h]
  · simp [h]
  · obtain ⟨d, hd⟩ := h; simp [hd, Param.interp]
  · simp [h]
  · simp [h.1, h.2]
  · by_cases hd : c.diode = true
    · rw [if_pos hd] at h; obtain ⟨d, hp⟩ := h; simp [hd, hp, Param.interp]
    · rw [if_neg hd] at h; simp [hd, h.1, h.2]

/-- a `Source` without series resistance: output and flag are a function of the incoming flag only -/
theorem source_law (c : Comp α) (hk : c.kind = .source) (hrs : c.rs = 0) (vi : List α) (io : α)
    (ph : PhaseCtx α) (off : List Bool) :
    c.solvOutpVolt vi io ph off =
      .ok (if (ph.inactive || (isZ c.vo || off0 off)) = true then (0, true) else (c.vo, false)) := by
  unfold Comp.solvOutpVolt
  simp only [hk, hrs, zero_mul, sub_zero]
  have : eqB (nsign c.vo) (nsign c.vo) = true := (eqB_iff _ _).mpr rfl
  by_cases h1 : ph.inactive = true <;> by_cases h2 : (isZ c.vo || off0 off) = true <;> simp [h1, h2, this]

/-- … hence feeding a root `Source` its own freshly computed flag reproduces output and flag -/
theorem source_idem (c : Comp α) (hk : c.kind = .source) (hrs : c.rs = 0) (vi vi' : List α) (io io' : α)
    (ph : PhaseCtx α) (off : List Bool) (x : α) (b : Bool)
    (h : c.solvOutpVolt vi io ph off = .ok (x, b)) : c.solvOutpVolt vi' io' ph [b] = .ok (x, b) := by
  rw [source_law c hk hrs] at h ⊢
  simp only [Except.ok.injEq] at h ⊢
  by_cases h1 : (ph.inactive || (isZ c.vo || off0 off)) = true
  · rw [if_pos h1] at h
    simp only [Prod.mk.injEq] at h
    obtain ⟨rfl, rfl⟩ := h
    simp [off0]
  · rw [if_neg h1] at h
    simp only [Prod.mk.injEq] at h
    obtain ⟨rfl, rfl⟩ := h
    simp only [Bool.or_eq_true, not_or] at h1
    simp [off0, h1.1, h1.2.1]

/-! ### 4. single-supply trees with rank functions -/

/-- The structural hypotheses, with the two rank functions supplied as data:
    every listed id is in range; no `PMux`; a node has no parent — then it is a `Source` — or exactly one,
    one level up (`depth`); every child is at least one level down (`height`); both ranks are at most `D`.
    (Nothing is required of ids that hold no node, nor of the consistency of `childs` with `parents`.) -/
structure SingleSupplyTree (s : SSys α) (depth height : Nat → Nat) (D : Nat) : Prop where
  topo_lt : ∀ n, n ∈ s.topo → n < s.hidx
  no_mux : ∀ n nd, s.node? n = some nd → nd.comp.kind ≠ .pmux
  root_source : ∀ n nd, s.node? n = some nd → nd.parents = [] → nd.comp.kind = .source
  parent : ∀ n nd, s.node? n = some nd →
    nd.parents = [] ∨ ∃ p, nd.parents = [p] ∧ depth n = depth p + 1
  child : ∀ n nd, s.node? n = some nd → ∀ c, c ∈ nd.childs → height c + 1 ≤ height n
  depth_le : ∀ n nd, s.node? n = some nd → depth n ≤ D
  height_le : ∀ n nd, s.node? n = some nd → height n ≤ D

/-- forward cell of a single-supply drop-free node: a function of the parent's voltage and flag only -/
theorem fwdAt_congr_parent (s : SSys α) (ph : String) (n p : Nat) (nd : SNode α)
    (hn : s.node? n = some nd) (hp : nd.parents = [p]) (hdf : DropFree nd.comp)
    (v v' i i' : Vec α) (st st' : St) (hv : vget v' p = vget v p) (hs : st'.getD p [] = st.getD p []) :
    s.fwdAt ph v' i' st' n = s.fwdAt ph v i st n := by
  unfold SSys.fwdAt SSys.lawArgs
  simp only [hn, hp, List.isEmpty_cons, Bool.false_eq_true, if_false, List.map_cons, List.map_nil]
  have hs' : sget st' p = sget st p := by unfold sget; rw [hs]
  rw [hv, hs']
  exact volt_io_indep nd.comp hdf _ _ _ _ _

/-- forward cell of a root `Source` after a pass that wrote its flag -/
theorem fwdAt_root_idem (s : SSys α) (ph : String) (n : Nat) (nd : SNode α)
    (hn : s.node? n = some nd) (hp : nd.parents = []) (hk : nd.comp.kind = .source) (hdf : DropFree nd.comp)
    (v v' i i' : Vec α) (st st' : St) (x : α) (b : Bool)
    (h : s.fwdAt ph v i st n = .ok (x, b)) (hs : st'.getD n [] = [b]) :
    s.fwdAt ph v' i' st' n = .ok (x, b) := by
  have hrs : nd.comp.rs = 0 := by unfold DropFree at hdf; simpa [hk] using hdf
  unfold SSys.fwdAt SSys.lawArgs at h ⊢
  simp only [hn, hp, List.isEmpty_nil, if_true] at h ⊢
  rw [hs]
  exact source_idem nd.comp hk hrs _ _ _ _ _ _ x b h

/-- backward cell: reads the old currents only at the node's children -/
theorem backAt_congr_childs (s : SSys α) (ph : String) (n : Nat) (v i i' : Vec α) (st : St)
    (h : ∀ nd, s.node? n = some nd → ∀ c, c ∈ nd.childs → vget i' c = vget i c) :
    s.backAt ph v i' st n = s.backAt ph v i st n := by
  unfold SSys.backAt
  cases hn : s.node? n with
  | none => rfl
  | some nd =>
    have hc : s.childCurr n i' v st = s.childCurr n i v st := by
      unfold SSys.childCurr
      simp only [hn]
      congr 1
      apply List.map_congr_left
      intro c hc
      have := h nd hn c hc
      unfold SSys.childShare
      rw [this]
    simp only [SSys.lawArgs, hc]

/-! ### 5. (a) voltages and flags settle level by level from the root -/

/-- **(a), one step.**  Two consecutive passes taken after `k` earlier ones write identical voltage and flag
    into every cell of depth ≤ `k` (and into every cell that holds no node).  No assumption on the start `x`. -/
theorem volt_step_settle (s : SSys α) (ph : String) (depth height : Nat → Nat) (D : Nat)
    (hT : SingleSupplyTree s depth height D) (hDF : ∀ n nd, s.node? n = some nd → DropFree nd.comp)
    (x : Vec α × Vec α × St) :
    ∀ (k : Nat) (X Y Z : Vec α × Vec α × St), sweepN s ph k x = .ok X → sweep s ph X = .ok Y →
      sweep s ph Y = .ok Z →
      ∀ n, (∀ nd, s.node? n = some nd → depth n ≤ k) →
        vget Z.1 n = vget Y.1 n ∧ Z.2.2.getD n [] = Y.2.2.getD n [] := by
  intro k
  induction k with
  | zero =>
    intro X Y Z hX hY hZ n hd
    obtain ⟨vX, iX, sX⟩ := X
    obtain ⟨vY, iY, sY⟩ := Y
    obtain ⟨vZ, iZ, sZ⟩ := Z
    obtain ⟨_, _, _, y1, y2, _, _⟩ := sweep_cells s ph hT.topo_lt _ _ _ _ _ _ hY
    obtain ⟨_, _, _, z1, z2, _, _⟩ := sweep_cells s ph hT.topo_lt _ _ _ _ _ _ hZ
    by_cases hn : n ∈ s.topo
    · obtain ⟨x1, b1, e1, e2, e3⟩ := y1 n hn
      obtain ⟨x2, b2, f1, f2, f3⟩ := z1 n hn
      have key : s.fwdAt ph vY iY sY n = .ok (x1, b1) := by
        cases hnode : s.node? n with
        | none =>
          unfold SSys.fwdAt at e1 ⊢
          simp only [hnode] at e1 ⊢
          exact e1
        | some nd =>
          rcases hT.parent n nd hnode with hp | ⟨p, hp, hdp⟩
          · exact fwdAt_root_idem s ph n nd hnode hp (hT.root_source n nd hnode hp) (hDF n nd hnode)
              _ _ _ _ _ _ x1 b1 e1 e3
          · have := hd nd hnode
            omega
      rw [key] at f1
      simp only [Except.ok.injEq, Prod.mk.injEq] at f1
      exact ⟨by show vget vZ n = vget vY n; rw [f2, e2, f1.1],
             by show sZ.getD n [] = sY.getD n []; rw [f3, e3, f1.2]⟩
    · exact ⟨by show vget vZ n = vget vY n; rw [(z2 n hn).1, (y2 n hn).1],
             by show sZ.getD n [] = sY.getD n []; rw [(z2 n hn).2, (y2 n hn).2]⟩
  | succ k ih =>
    intro X Y Z hX hY hZ n hd
    obtain ⟨W, hW, hWX⟩ := (sweepN_succ_ok s ph k x X).mp hX
    have IH := ih W X Y hW hWX hY
    obtain ⟨vX, iX, sX⟩ := X
    obtain ⟨vY, iY, sY⟩ := Y
    obtain ⟨vZ, iZ, sZ⟩ := Z
    obtain ⟨_, _, _, y1, y2, _, _⟩ := sweep_cells s ph hT.topo_lt _ _ _ _ _ _ hY
    obtain ⟨_, _, _, z1, z2, _, _⟩ := sweep_cells s ph hT.topo_lt _ _ _ _ _ _ hZ
    by_cases hn : n ∈ s.topo
    · obtain ⟨x1, b1, e1, e2, e3⟩ := y1 n hn
      obtain ⟨x2, b2, f1, f2, f3⟩ := z1 n hn
      have key : s.fwdAt ph vY iY sY n = .ok (x1, b1) := by
        cases hnode : s.node? n with
        | none =>
          unfold SSys.fwdAt at e1 ⊢
          simp only [hnode] at e1 ⊢
          exact e1
        | some nd =>
          rcases hT.parent n nd hnode with hp | ⟨p, hp, hdp⟩
          · exact fwdAt_root_idem s ph n nd hnode hp (hT.root_source n nd hnode hp) (hDF n nd hnode)
              _ _ _ _ _ _ x1 b1 e1 e3
          · have hdn := hd nd hnode
            obtain ⟨g1, g2⟩ := IH p (fun pd _ => by omega)
            rw [← e1]
            exact fwdAt_congr_parent s ph n p nd hnode hp (hDF n nd hnode) _ _ _ _ _ _ g1 g2
      rw [key] at f1
      simp only [Except.ok.injEq, Prod.mk.injEq] at f1
      exact ⟨by show vget vZ n = vget vY n; rw [f2, e2, f1.1],
             by show sZ.getD n [] = sY.getD n []; rw [f3, e3, f1.2]⟩
    · exact ⟨by show vget vZ n = vget vY n; rw [(z2 n hn).1, (y2 n hn).1],
             by show sZ.getD n [] = sY.getD n []; rw [(z2 n hn).2, (y2 n hn).2]⟩

/-- from `D` earlier passes on, consecutive passes write the same voltage vector and the same flags -/
theorem volt_frozen (s : SSys α) (ph : String) (depth height : Nat → Nat) (D : Nat)
    (hT : SingleSupplyTree s depth height D) (hDF : ∀ n nd, s.node? n = some nd → DropFree nd.comp)
    (x : Vec α × Vec α × St) (k : Nat) (hk : D ≤ k) (X Y Z : Vec α × Vec α × St)
    (hX : sweepN s ph k x = .ok X) (hY : sweep s ph X = .ok Y) (hZ : sweep s ph Y = .ok Z) :
    Z.1 = Y.1 ∧ Z.2.2 = Y.2.2 := by
  have h := volt_step_settle s ph depth height D hT hDF x k X Y Z hX hY hZ
  have hcell : ∀ n, vget Z.1 n = vget Y.1 n ∧ Z.2.2.getD n [] = Y.2.2.getD n [] :=
    fun n => h n (fun nd hnd => le_trans (hT.depth_le n nd hnd) hk)
  obtain ⟨vX, iX, sX⟩ := X
  obtain ⟨vY, iY, sY⟩ := Y
  obtain ⟨vZ, iZ, sZ⟩ := Z
  obtain ⟨y1, _, y3, _⟩ := sweep_cells s ph hT.topo_lt _ _ _ _ _ _ hY
  obtain ⟨z1, _, z3, _⟩ := sweep_cells s ph hT.topo_lt _ _ _ _ _ _ hZ
  exact ⟨array_ext_getD 0 _ _ (by rw [z1, y1]) (fun n => (hcell n).1),
         array_ext_getD [] _ _ (by rw [z3, y3]) (fun n => (hcell n).2)⟩

/-- **(a)** `voltages_settle_partial`: there are fixed functions `vfix`, `sfix` such that after `k` passes
    from *any* start, every cell of depth `< k` holds `vfix n` / `sfix n` — provided the passes exist
    (no voltage law raised).  `_partial`: single-supply trees without `PMux`. -/
theorem voltages_settle_partial (s : SSys α) (ph : String) (depth height : Nat → Nat) (D : Nat)
    (hT : SingleSupplyTree s depth height D) (hDF : ∀ n nd, s.node? n = some nd → DropFree nd.comp)
    (x : Vec α × Vec α × St) :
    ∃ (vfix : Nat → α) (sfix : Nat → List Bool), ∀ (k : Nat) (X : Vec α × Vec α × St),
      sweepN s ph k x = .ok X → ∀ n, depth n < k → vget X.1 n = vfix n ∧ X.2.2.getD n [] = sfix n := by
  refine ⟨fun n => match sweepN s ph (depth n + 1) x with | .ok X => vget X.1 n | .error _ => 0,
          fun n => match sweepN s ph (depth n + 1) x with | .ok X => X.2.2.getD n [] | .error _ => [], ?_⟩
  intro k X hX n hlt
  obtain ⟨j, rfl⟩ : ∃ j, k = depth n + 1 + j := ⟨k - (depth n + 1), by omega⟩
  clear hlt
  induction j generalizing X with
  | zero =>
    have hX' : sweepN s ph (depth n + 1) x = .ok X := hX
    simp [hX']
  | succ j ih =>
    obtain ⟨Y, hY, hYX⟩ := (sweepN_succ_ok s ph (depth n + 1 + j) x X).mp hX
    obtain ⟨W, hW, hWY⟩ := (sweepN_succ_ok s ph (depth n + j) x Y).mp (by
      rw [show depth n + j + 1 = depth n + 1 + j by omega]; exact hY)
    obtain ⟨e1, e2⟩ := volt_step_settle s ph depth height D hT hDF x (depth n + j) W Y X hW hWY hYX n
      (fun _ _ => by omega)
    obtain ⟨f1, f2⟩ := ih Y hY
    exact ⟨e1.trans f1, e2.trans f2⟩

/-! ### 6. (b) with voltages and flags frozen, currents settle level by level from the leaves -/

/-- **(b), one step.**  Start `x0`; suppose every iterate from `x0` carries the same voltages `vs` and flags
    `ss`.  Then two consecutive passes taken after `j` earlier ones write the same current into every cell
    of height ≤ `j`. -/
theorem curr_step_settle (s : SSys α) (ph : String) (depth height : Nat → Nat) (D : Nat)
    (hT : SingleSupplyTree s depth height D) (x0 : Vec α × Vec α × St) (vs : Vec α) (ss : St)
    (hfro : ∀ j X, sweepN s ph j x0 = .ok X → X.1 = vs ∧ X.2.2 = ss) :
    ∀ (j : Nat) (W Y Z : Vec α × Vec α × St), sweepN s ph j x0 = .ok W → sweep s ph W = .ok Y →
      sweep s ph Y = .ok Z →
      ∀ n, (∀ nd, s.node? n = some nd → height n ≤ j) → vget Z.2.1 n = vget Y.2.1 n := by
  intro j
  induction j with
  | zero =>
    intro W Y Z hW hY hZ n hh
    have hY' : sweepN s ph 1 x0 = .ok Y := (sweepN_succ_ok s ph 0 x0 Y).mpr ⟨W, hW, hY⟩
    have hZ' : sweepN s ph 2 x0 = .ok Z := (sweepN_succ_ok s ph 1 x0 Z).mpr ⟨Y, hY', hZ⟩
    obtain ⟨w1, w2⟩ := hfro 0 W hW
    obtain ⟨y1, y2⟩ := hfro 1 Y hY'
    obtain ⟨z1, z2⟩ := hfro 2 Z hZ'
    obtain ⟨vW, iW, sW⟩ := W
    obtain ⟨vY, iY, sY⟩ := Y
    obtain ⟨vZ, iZ, sZ⟩ := Z
    simp only at w1 w2 y1 y2 z1 z2
    subst w1 w2 y1 y2 z1
    obtain ⟨_, _, _, _, _, y3, y4⟩ := sweep_cells s ph hT.topo_lt _ _ _ _ _ _ hY
    obtain ⟨_, _, _, _, _, z3, z4⟩ := sweep_cells s ph hT.topo_lt _ _ _ _ _ _ hZ
    show vget iZ n = vget iY n
    by_cases hn : n ∈ s.topo
    · rw [z3 n hn, y3 n hn]
      apply backAt_congr_childs
      intro nd hnd c hc
      have := hT.child n nd hnd c hc
      have := hh nd hnd
      omega
    · rw [z4 n hn, y4 n hn]
  | succ j ih =>
    intro W Y Z hW hY hZ n hh
    obtain ⟨W0, hW0, hW0W⟩ := (sweepN_succ_ok s ph j x0 W).mp hW
    have IH := ih W0 W Y hW0 hW0W hY
    have hY' : sweepN s ph (j + 2) x0 = .ok Y := (sweepN_succ_ok s ph (j + 1) x0 Y).mpr ⟨W, hW, hY⟩
    have hZ' : sweepN s ph (j + 3) x0 = .ok Z := (sweepN_succ_ok s ph (j + 2) x0 Z).mpr ⟨Y, hY', hZ⟩
    obtain ⟨w1, w2⟩ := hfro _ W hW
    obtain ⟨y1, y2⟩ := hfro _ Y hY'
    obtain ⟨z1, z2⟩ := hfro _ Z hZ'
    obtain ⟨vW, iW, sW⟩ := W
    obtain ⟨vY, iY, sY⟩ := Y
    obtain ⟨vZ, iZ, sZ⟩ := Z
    simp only at w1 w2 y1 y2 z1 z2 IH
    subst w1 w2 y1 y2 z1
    obtain ⟨_, _, _, _, _, y3, y4⟩ := sweep_cells s ph hT.topo_lt _ _ _ _ _ _ hY
    obtain ⟨_, _, _, _, _, z3, z4⟩ := sweep_cells s ph hT.topo_lt _ _ _ _ _ _ hZ
    show vget iZ n = vget iY n
    by_cases hn : n ∈ s.topo
    · rw [z3 n hn, y3 n hn]
      apply backAt_congr_childs
      intro nd hnd c hc
      have h1 := hT.child n nd hnd c hc
      have h2 := hh nd hnd
      exact IH c (fun _ _ => by omega)
    · rw [z4 n hn, y4 n hn]

/-- every iterate after the `(D+1)`-th carries the voltages and flags of the `(D+1)`-th -/
theorem frozen_after (s : SSys α) (ph : String) (depth height : Nat → Nat) (D : Nat)
    (hT : SingleSupplyTree s depth height D) (hDF : ∀ n nd, s.node? n = some nd → DropFree nd.comp)
    (x x0 : Vec α × Vec α × St) (hx0 : sweepN s ph (D + 1) x = .ok x0) :
    ∀ j X, sweepN s ph j x0 = .ok X → X.1 = x0.1 ∧ X.2.2 = x0.2.2 := by
  intro j
  induction j with
  | zero =>
    intro X hX
    simp only [sweepN, Except.ok.injEq] at hX
    subst hX; exact ⟨rfl, rfl⟩
  | succ j ih =>
    intro X hX
    obtain ⟨Y, hY, hYX⟩ := (sweepN_succ_ok s ph j x0 X).mp hX
    obtain ⟨e1, e2⟩ := ih Y hY
    have hY' : sweepN s ph (D + j + 1) x = .ok Y := by
      rw [show D + j + 1 = D + 1 + j by omega, sweepN_add_ok s ph (D + 1) j x x0 hx0]; exact hY
    obtain ⟨W, hW, hWY⟩ := (sweepN_succ_ok s ph (D + j) x Y).mp hY'
    obtain ⟨f1, f2⟩ := volt_frozen s ph depth height D hT hDF x (D + j) (by omega) W Y X hW hWY hYX
    exact ⟨f1.trans e1, f2.trans e2⟩

/-- **(b)** `currents_settle_partial`: once `D + 1` passes have been made (voltages and flags are then
    final), after `j + 1` further passes the current of every node of height ≤ `j` no longer changes. -/
theorem currents_settle_partial (s : SSys α) (ph : String) (depth height : Nat → Nat) (D : Nat)
    (hT : SingleSupplyTree s depth height D) (hDF : ∀ n nd, s.node? n = some nd → DropFree nd.comp)
    (x : Vec α × Vec α × St) (j : Nat) (Y Z : Vec α × Vec α × St)
    (hY : sweepN s ph (D + 1 + j + 1) x = .ok Y) (hZ : sweep s ph Y = .ok Z) :
    ∀ n, (∀ nd, s.node? n = some nd → height n ≤ j) → vget Z.2.1 n = vget Y.2.1 n := by
  obtain ⟨x0, hx0⟩ := sweepN_ok_of_le s ph x _ Y hY (D + 1) (by omega)
  have hY0 : sweepN s ph (j + 1) x0 = .ok Y := by
    rw [← sweepN_add_ok s ph (D + 1) (j + 1) x x0 hx0, ← hY]; congr 1
  obtain ⟨W, hW, hWY⟩ := (sweepN_succ_ok s ph j x0 Y).mp hY0
  exact curr_step_settle s ph depth height D hT x0 x0.1 x0.2.2
    (frozen_after s ph depth height D hT hDF x x0 hx0) j W Y Z hW hWY hZ

/-! ### 7. (c) the `(2D+2)`-th iterate is an exact fixed point; `solve()` returns -/

/-- **(c), fixed point.**  If `2D + 3` passes from `x` exist, the `(2D+2)`-th iterate is reproduced exactly
    (voltages, currents and flags) by the next pass. -/
theorem eventually_fixed_partial (s : SSys α) (ph : String) (depth height : Nat → Nat) (D : Nat)
    (hT : SingleSupplyTree s depth height D) (hDF : ∀ n nd, s.node? n = some nd → DropFree nd.comp)
    (x : Vec α × Vec α × St) (hall : ∃ Z, sweepN s ph (2 * D + 3) x = .ok Z) :
    ∃ y, sweepN s ph (2 * D + 2) x = .ok y ∧ sweep s ph y = .ok y := by
  obtain ⟨Z, hZ⟩ := hall
  obtain ⟨Y, hY, hYZ⟩ := (sweepN_succ_ok s ph (2 * D + 2) x Z).mp hZ
  refine ⟨Y, hY, ?_⟩
  obtain ⟨x0, hx0⟩ := sweepN_ok_of_le s ph x _ Y hY (D + 1) (by omega)
  have hfro := frozen_after s ph depth height D hT hDF x x0 hx0
  have hY0 : sweepN s ph (D + 1) x0 = .ok Y := by
    rw [← sweepN_add_ok s ph (D + 1) (D + 1) x x0 hx0, ← hY]; congr 1; omega
  have hZ0 : sweepN s ph (D + 2) x0 = .ok Z := (sweepN_succ_ok s ph (D + 1) x0 Z).mpr ⟨Y, hY0, hYZ⟩
  obtain ⟨W, hW, hWY⟩ := (sweepN_succ_ok s ph D x0 Y).mp hY0
  have hcur := curr_step_settle s ph depth height D hT x0 x0.1 x0.2.2 hfro D W Y Z hW hWY hYZ
  obtain ⟨y1, y2⟩ := hfro _ Y hY0
  obtain ⟨z1, z2⟩ := hfro _ Z hZ0
  obtain ⟨vW, iW, sW⟩ := W
  obtain ⟨vY, iY, sY⟩ := Y
  obtain ⟨vZ, iZ, sZ⟩ := Z
  obtain ⟨_, a2, _⟩ := sweep_cells s ph hT.topo_lt _ _ _ _ _ _ hWY
  obtain ⟨_, b2, _⟩ := sweep_cells s ph hT.topo_lt _ _ _ _ _ _ hYZ
  simp only at y1 y2 z1 z2 hcur
  have hi : iZ = iY := array_ext_getD 0 _ _ (by rw [a2, b2])
    (fun n => hcur n (fun nd hnd => hT.height_le n nd hnd))
  rw [hYZ, hi, z1, z2, ← y1, ← y2]

/-- the first `K + 1` passes from `x` exist if no voltage law raises on the iterates `0 … K` -/
theorem sweepN_ok_of_noraise (s : SSys α) (ph : String) (x : Vec α × Vec α × St) (K : Nat)
    (hok : ∀ k X, k ≤ K → sweepN s ph k x = .ok X →
      ∀ n, n ∈ s.topo → ∃ xb, s.fwdAt ph X.1 X.2.1 X.2.2 n = .ok xb) :
    ∀ k, k ≤ K + 1 → ∃ X, sweepN s ph k x = .ok X := by
  intro k
  induction k with
  | zero => intro _; exact ⟨x, rfl⟩
  | succ k ih =>
    intro hk
    obtain ⟨X, hX⟩ := ih (by omega)
    obtain ⟨Y, hY⟩ := sweep_ok_of_cells s ph X (hok k X (by omega) hX)
    exact ⟨Y, (sweepN_succ_ok s ph k x Y).mpr ⟨X, hX, hY⟩⟩

/-- **(c)** `finite_settling_partial`.  Drop-free components on a single-supply tree (no `PMux`) of depth
    and height ≤ `D`; no voltage law raises on an iterate of the sweep map from the initial guess;
    tolerances non-negative; `maxiter ≥ 2D + 3`.  Then `solve()` returns for this phase — neither
    `RuntimeError` nor `ValueError` — after at most `2D + 3` passes, and what it returns is a triple on
    which the exit test fired. -/
theorem finite_settling_partial (s : SSys α) (cfg : Cfg α) (ph : String) (depth height : Nat → Nat) (D : Nat)
    (hT : SingleSupplyTree s depth height D) (hDF : ∀ n nd, s.node? n = some nd → DropFree nd.comp)
    (hok : ∀ k X, k ≤ 2 * D + 2 → sweepN s ph k (s.init ph) = .ok X →
      ∀ n, n ∈ s.topo → ∃ xb, s.fwdAt ph X.1 X.2.1 X.2.2 n = .ok xb)
    (hat : 0 ≤ cfg.atol) (hv : 0 ≤ cfg.vtol) (hi : 0 ≤ cfg.itol) (hm : 2 * D + 3 ≤ cfg.maxiter) :
    ∃ r, s.solvePhase cfg ph = .ok r ∧ r.iters ≤ 2 * D + 3 ∧ ConvergedAt s cfg ph r.v r.i r.st := by
  obtain ⟨y, hy, hfix⟩ := eventually_fixed_partial s ph depth height D hT hDF (s.init ph)
    (sweepN_ok_of_noraise s ph _ (2 * D + 2) hok (2 * D + 3) (by omega))
  obtain ⟨r, hr, hle⟩ := loop_returns_if_eventually_fixed s cfg ph hat hv hi (2 * D + 2) y hy hfix (by omega)
  exact ⟨r, hr, by omega, solvePhase_sound s cfg ph r hr⟩

/-! ### 8. discharging the "no voltage law raises" hypothesis from a margin certificate -/

/-- What a node needs so that its law can neither raise nor output a non-zero voltage below `lon`, given that
    its input is 0 or at least `lop` in magnitude.  Only constant drops subtract; a `LinReg` clamps. -/
def MarginC (c : Comp α) (lop lon : α) : Prop :=
  match c.kind with
  | .source | .converter => lon ≤ |c.vo|
  | .linreg => lon ≤ min |c.vo| (max (lop - c.vdrop) 0)
  | .rloss | .pswitch => lon ≤ lop
  | .vloss => ∀ d, c.par = .const d → d < lop ∧ lon ≤ lop - d
  | .rectifier =>
    if c.diode = true then ∀ d, c.par = .const d → 2 * d < lop ∧ lon ≤ lop - 2 * d else lon ≤ lop
  | _ => True

theorem law_margin (c : Comp α) (hdf : DropFree c) (hmux : c.kind ≠ .pmux) (lop lon : α)
    (hm : MarginC c lop lon) (vi : List α) (hvi : vi.headD 0 = 0 ∨ lop ≤ |vi.headD 0|) (io : α)
    (ph : PhaseCtx α) (off : List Bool) :
    ∃ x b, c.solvOutpVolt vi io ph off = .ok (x, b) ∧ (x = 0 ∨ lon ≤ |x|) := by
  unfold DropFree at hdf
  unfold MarginC at hm
  unfold Comp.solvOutpVolt
  generalize vi.headD 0 = vi0 at hvi ⊢
  cases hk : c.kind <;> simp only [hk] at hdf hm ⊢
  · -- source
    simp only [hdf, zero_mul, sub_zero, (eqB_iff (nsign c.vo) (nsign c.vo)).mpr rfl, if_true]
    split_ifs
    · exact ⟨0, true, rfl, Or.inl rfl⟩
    · exact ⟨0, true, rfl, Or.inl rfl⟩
    · exact ⟨c.vo, false, rfl, Or.inr hm⟩
  · exact ⟨0, off0 off, rfl, Or.inl rfl⟩
  · exact ⟨0, off0 off, rfl, Or.inl rfl⟩
  · exact ⟨0, off0 off, rfl, Or.inl rfl⟩
  · -- rloss
    simp only [hdf, zero_mul, sub_zero]
    by_cases hz : (isZ vi0 || off0 off) = true
    · rw [if_pos hz]; exact ⟨0, true, rfl, Or.inl rfl⟩
    · rw [if_neg hz, if_pos ((eqB_iff _ _).mpr rfl)]
      refine ⟨vi0, false, rfl, ?_⟩
      rcases hvi with h | h
      · left; exact h
      · right; exact le_trans hm h
  · -- vloss
    obtain ⟨d, hd⟩ := hdf
    obtain ⟨hd1, hd2⟩ := hm d hd
    simp only [hd, Param.interp]
    by_cases hz : (isZ vi0 || off0 off) = true
    · rw [if_pos hz]; exact ⟨0, true, rfl, Or.inl rfl⟩
    · rw [if_neg hz]
      have hne : vi0 ≠ 0 := by
        intro e; apply hz; simp [e]
      have hlo : lop ≤ |vi0| := hvi.resolve_left hne
      rcases lt_or_gt_of_ne hne with hneg | hpos
      · rw [nsign_of_neg hneg]
        rw [abs_of_neg hneg] at hlo
        have hvo : vi0 - d * -1 < 0 := by linarith
        rw [if_pos ((eqB_iff _ _).mpr (by rw [nsign_of_neg hvo]))]
        exact ⟨_, false, rfl, Or.inr (by rw [abs_of_neg hvo]; linarith)⟩
      · rw [nsign_of_pos hpos]
        rw [abs_of_pos hpos] at hlo
        have hvo : 0 < vi0 - d * 1 := by linarith
        rw [if_pos ((eqB_iff _ _).mpr (by rw [nsign_of_pos hvo]))]
        exact ⟨_, false, rfl, Or.inr (by rw [abs_of_pos hvo]; linarith)⟩
  · -- converter
    split_ifs
    · exact ⟨0, true, rfl, Or.inl rfl⟩
    · exact ⟨0, true, rfl, Or.inl rfl⟩
    · exact ⟨c.vo, false, rfl, Or.inr hm⟩
  · -- linreg
    by_cases hz : (isZ vi0 || off0 off) = true
    · rw [if_pos hz]; exact ⟨0, true, rfl, Or.inl rfl⟩
    · rw [if_neg hz]
      have hne : vi0 ≠ 0 := by
        intro e; apply hz; simp [e]
      have hlo : lop ≤ |vi0| := hvi.resolve_left hne
      have hv : lon ≤ linregV c.vo c.vdrop vi0 := by
        unfold linregV
        simp only [nmin_eq_min, nmax_eq_max, nabs_eq_abs]
        refine le_trans hm (min_le_min le_rfl (max_le_max (by linarith) le_rfl))
      have hv0 : 0 ≤ linregV c.vo c.vdrop vi0 := by
        unfold linregV
        simp only [nmin_eq_min, nmax_eq_max, nabs_eq_abs]
        exact le_min (abs_nonneg _) (le_max_right _ _)
      split_ifs
      · exact ⟨0, true, rfl, Or.inl rfl⟩
      · exact ⟨_, false, rfl, Or.inr (by rw [abs_neg, abs_of_nonneg hv0]; exact hv)⟩
      · exact ⟨_, false, rfl, Or.inr (by rw [abs_of_nonneg hv0]; exact hv)⟩
  · -- pswitch
    simp only [hdf, zero_mul, sub_zero, nabs_eq_abs]
    by_cases hz : (isZ vi0 || off0 off) = true
    · rw [if_pos hz]; exact ⟨0, true, rfl, Or.inl rfl⟩
    · rw [if_neg hz]
      have hne : vi0 ≠ 0 := by
        intro e; apply hz; simp [e]
      have hlo : lop ≤ |vi0| := hvi.resolve_left hne
      have hpos : 0 < |vi0| := abs_pos.mpr hne
      simp only [hpos, decide_true, Bool.not_true, Bool.false_eq_true, if_false]
      split_ifs
      · exact ⟨0, true, rfl, Or.inl rfl⟩
      · exact ⟨_, false, rfl, Or.inr (by rw [abs_neg, abs_abs]; linarith)⟩
      · exact ⟨_, false, rfl, Or.inr (by rw [abs_abs]; linarith)⟩
  · exact absurd hk hmux
  · -- rectifier
    by_cases hz : (isZ vi0 || off0 off) = true
    · rw [if_pos hz]; exact ⟨0, true, rfl, Or.inl rfl⟩
    · rw [if_neg hz]
      have hne : vi0 ≠ 0 := by
        intro e; apply hz; simp [e]
      have hlo : lop ≤ |vi0| := hvi.resolve_left hne
      by_cases hdi : c.diode = true
      · rw [if_pos hdi] at hdf hm ⊢
        obtain ⟨d, hd⟩ := hdf
        obtain ⟨hd1, hd2⟩ := hm d hd
        simp only [hd, Param.interp, nabs_eq_abs]
        rcases lt_or_gt_of_ne hne with hneg | hpos
        · rw [nsign_of_neg hneg]
          rw [abs_of_neg hneg] at hlo
          have hvo : vi0 - 2 * d * -1 < 0 := by linarith
          rw [if_pos ((eqB_iff _ _).mpr (by rw [nsign_of_neg hvo]))]
          exact ⟨_, false, rfl, Or.inr (by rw [abs_abs, abs_of_neg hvo]; linarith)⟩
        · rw [nsign_of_pos hpos]
          rw [abs_of_pos hpos] at hlo
          have hvo : 0 < vi0 - 2 * d * 1 := by linarith
          rw [if_pos ((eqB_iff _ _).mpr (by rw [nsign_of_pos hvo]))]
          exact ⟨_, false, rfl, Or.inr (by rw [abs_abs, abs_of_pos hvo]; linarith)⟩
      · rw [if_neg hdi] at hdf hm ⊢
        have hpos : 0 < |vi0| := abs_pos.mpr hne
        simp only [hdf.1, hdf.2, mul_zero, zero_mul, sub_zero, nabs_eq_abs, hpos, decide_true,
          Bool.not_true, Bool.false_eq_true, if_false]
        exact ⟨_, false, rfl, Or.inr (by simp only [abs_abs]; linarith)⟩

/-- A margin certificate for the whole tree: a lower bound `lo n` on the magnitude of every non-zero voltage
    node `n` can ever output, consistent along every edge (`MarginC`).  For a chain of constant drops this is
    "the drops add up to less than the supply"; with no `VLoss` / diode `Rectifier` in the tree `lo = 0`
    always qualifies, with only `VLoss` / diode drops below a source `lo n = |V| − Σ drops above n`. -/
structure Margin (s : SSys α) (lo : Nat → α) : Prop where
  root : ∀ n nd, s.node? n = some nd → nd.parents = [] → lo n ≤ |nd.comp.vo|
  inner : ∀ n nd p, s.node? n = some nd → nd.parents = [p] → MarginC nd.comp (lo p) (lo n)

/-- the invariant carried by every iterate -/
def VInv (lo : Nat → α) (v : Vec α) : Prop := ∀ n, vget v n = 0 ∨ lo n ≤ |vget v n|

theorem cell_margin (s : SSys α) (ph : String) (depth height : Nat → Nat) (D : Nat)
    (hT : SingleSupplyTree s depth height D) (hDF : ∀ n nd, s.node? n = some nd → DropFree nd.comp)
    (lo : Nat → α) (hM : Margin s lo) (v i : Vec α) (st : St) (hinv : VInv lo v) (n : Nat) :
    ∃ x b, s.fwdAt ph v i st n = .ok (x, b) ∧ (x = 0 ∨ lo n ≤ |x|) := by
  unfold SSys.fwdAt
  cases hn : s.node? n with
  | none => exact ⟨0, false, rfl, Or.inl rfl⟩
  | some nd =>
    rcases hT.parent n nd hn with hp | ⟨p, hp, _⟩
    · have hk := hT.root_source n nd hn hp
      simp only [SSys.lawArgs, hp, List.isEmpty_nil, if_true]
      apply law_margin nd.comp (hDF n nd hn) (hT.no_mux n nd hn) 0 (lo n)
      · unfold MarginC; simp only [hk]; exact hM.root n nd hn hp
      · right; exact abs_nonneg _
    · simp only [SSys.lawArgs, hp, List.isEmpty_cons, Bool.false_eq_true, if_false, List.map_cons,
        List.map_nil]
      apply law_margin nd.comp (hDF n nd hn) (hT.no_mux n nd hn) (lo p) (lo n) (hM.inner n nd p hn hp)
      simpa using hinv p

theorem vinv_sweep (s : SSys α) (ph : String) (depth height : Nat → Nat) (D : Nat)
    (hT : SingleSupplyTree s depth height D) (hDF : ∀ n nd, s.node? n = some nd → DropFree nd.comp)
    (lo : Nat → α) (hM : Margin s lo) (X Y : Vec α × Vec α × St) (hXY : sweep s ph X = .ok Y)
    (hinv : VInv lo X.1) : VInv lo Y.1 := by
  obtain ⟨vX, iX, sX⟩ := X
  obtain ⟨vY, iY, sY⟩ := Y
  obtain ⟨_, _, _, y1, y2, _, _⟩ := sweep_cells s ph hT.topo_lt _ _ _ _ _ _ hXY
  intro n
  show vget vY n = 0 ∨ lo n ≤ |vget vY n|
  by_cases hn : n ∈ s.topo
  · obtain ⟨x, b, e1, e2, _⟩ := y1 n hn
    obtain ⟨x', b', f1, f2⟩ := cell_margin s ph depth height D hT hDF lo hM vX iX sX hinv n
    rw [e1] at f1
    simp only [Except.ok.injEq, Prod.mk.injEq] at f1
    rw [e2, f1.1]; exact f2
  · left; exact (y2 n hn).1

theorem init_vget (s : SSys α) (ph : String) (n : Nat) :
    vget (s.init ph).1 n = if n < s.hidx then
      (match s.node? n with | some nd => nd.comp.initVolt (nd.pconf.ctx ph) | none => 0) else 0 := by
  unfold SSys.init vget
  simp only [Array.getD_eq_getD_getElem?, List.getElem?_toArray, List.getElem?_map]
  by_cases h : n < s.hidx
  · simp [h]; rfl
  · simp [h]

theorem vinv_init (s : SSys α) (ph : String) (depth height : Nat → Nat) (D : Nat)
    (hT : SingleSupplyTree s depth height D) (lo : Nat → α) (hM : Margin s lo) :
    VInv lo (s.init ph).1 := by
  intro n
  rw [init_vget]
  by_cases h : n < s.hidx
  · rw [if_pos h]
    cases hn : s.node? n with
    | none => left; rfl
    | some nd =>
      simp only
      have hvo : nd.comp.kind = .source ∨ nd.comp.kind = .converter ∨ nd.comp.kind = .linreg →
          lo n ≤ |nd.comp.vo| := by
        intro hk
        rcases hT.parent n nd hn with hp | ⟨p, hp, _⟩
        · exact hM.root n nd hn hp
        · have := hM.inner n nd p hn hp
          unfold MarginC at this
          rcases hk with hk | hk | hk <;> simp only [hk] at this
          · exact this
          · exact this
          · exact le_trans this (min_le_left _ _)
      unfold Comp.initVolt
      cases hk : nd.comp.kind <;> simp only [hk] at hvo ⊢ <;>
        first
        | (left; trivial)
        | (split_ifs
           · left; rfl
           · right; exact hvo (by simp))
  · rw [if_neg h]; left; rfl

/-- a margin certificate rules out every `ValueError` of the forward pass, on every iterate -/
theorem noraise_of_margin (s : SSys α) (ph : String) (depth height : Nat → Nat) (D : Nat)
    (hT : SingleSupplyTree s depth height D) (hDF : ∀ n nd, s.node? n = some nd → DropFree nd.comp)
    (lo : Nat → α) (hM : Margin s lo) :
    ∀ k X, sweepN s ph k (s.init ph) = .ok X →
      ∀ n, n ∈ s.topo → ∃ xb, s.fwdAt ph X.1 X.2.1 X.2.2 n = .ok xb := by
  have hinv : ∀ k X, sweepN s ph k (s.init ph) = .ok X → VInv lo X.1 := by
    intro k
    induction k with
    | zero =>
      intro X hX
      simp only [sweepN, Except.ok.injEq] at hX
      subst hX
      exact vinv_init s ph depth height D hT lo hM
    | succ k ih =>
      intro X hX
      obtain ⟨W, hW, hWX⟩ := (sweepN_succ_ok s ph k _ X).mp hX
      exact vinv_sweep s ph depth height D hT hDF lo hM W X hWX (ih W hW)
  intro k X hX n _
  obtain ⟨x, b, e, _⟩ := cell_margin s ph depth height D hT hDF lo hM X.1 X.2.1 X.2.2 (hinv k X hX) n
  exact ⟨(x, b), e⟩

/-- **`finite_settling_margin_partial`** — the liveness class with every hypothesis checkable on the system
    description: drop-free components, single-supply tree without `PMux` of depth/height ≤ `D`, a margin
    certificate `lo` (constant drops stay below what is left of the supply), non-negative tolerances,
    `maxiter ≥ 2D + 3`.  Then `solve()` returns (never `RuntimeError`, never "Unstable system") within
    `2D + 3` passes. -/
theorem finite_settling_margin_partial (s : SSys α) (cfg : Cfg α) (ph : String) (depth height : Nat → Nat)
    (D : Nat) (hT : SingleSupplyTree s depth height D)
    (hDF : ∀ n nd, s.node? n = some nd → DropFree nd.comp) (lo : Nat → α) (hM : Margin s lo)
    (hat : 0 ≤ cfg.atol) (hv : 0 ≤ cfg.vtol) (hi : 0 ≤ cfg.itol) (hm : 2 * D + 3 ≤ cfg.maxiter) :
    ∃ r, s.solvePhase cfg ph = .ok r ∧ r.iters ≤ 2 * D + 3 ∧ ConvergedAt s cfg ph r.v r.i r.st :=
  finite_settling_partial s cfg ph depth height D hT hDF
    (fun k X _ => noraise_of_margin s ph depth height D hT hDF lo hM k X) hat hv hi hm

/-! ### 9. the general liveness clause — OPEN, stated only -/

/-- `solve()`'s default settings (`atol` is numpy's fixed 1e-8) -/
def defaultCfg : Cfg ℚ := ⟨1 / 100000000, 1 / 100000, 1 / 1000000, 10000⟩

/-- every series drop is at most 25 % of its input: a live Source keeps ≥ 75 % of its EMF, a series element
    (RLoss, VLoss, PSwitch, Rectifier; PMux w.r.t. some input) keeps ≥ 75 % of its input magnitude -/
def ModestDrops (s : SSys ℚ) (v : Vec ℚ) : Prop :=
  ∀ n nd, s.node? n = some nd →
    (nd.comp.kind = .source → vget v n ≠ 0 → 3 / 4 * |nd.comp.vo| ≤ |vget v n|) ∧
    (nd.comp.kind = .rloss ∨ nd.comp.kind = .vloss ∨ nd.comp.kind = .pswitch ∨ nd.comp.kind = .rectifier ∨
        nd.comp.kind = .pmux → vget v n ≠ 0 → ∃ p, p ∈ nd.parents ∧ 3 / 4 * |vget v p| ≤ |vget v n|)

/-- **OPEN — not proved, not asserted.**  The general liveness clause of C03 over ℚ: whenever an exact steady
    state `(v, i, state)` of the pass with modest drops exists, `solve()` with default settings returns for
    that phase (rather than raising `RuntimeError` / "Unstable system").  Arbitrary drops (rs ≠ 0, tables),
    arbitrary graphs.  Only `finite_settling*_partial` above (current-independent voltage laws on
    single-supply trees) is proved; as written the statement may well need further side conditions
    (well-formedness of the relations, uniqueness of the steady state — a P-load behind a resistance has two). -/
def C03_liveness_full : Prop :=
  ∀ (s : SSys ℚ) (ph : String) (v i : Vec ℚ) (st : St),
    (∀ n, n ∈ s.topo → n < s.hidx) →
    sweep s ph (v, i, st) = .ok (v, i, st) → ModestDrops s v →
    ∃ r, s.solvePhase defaultCfg ph = .ok r

/-! ### 10. non-vacuity: Source(5 V, rs 0) → LinReg(3.3 V, dropout 0.5 V, ig 1 mA) → ILoad(0.1 A) over ℚ -/

def exSrc : Comp ℚ := { name := "S", kind := .source, par := .const 0, vo := 5 }
def exReg : Comp ℚ := { name := "R", kind := .linreg, par := .const (1/1000), vo := 33/10, vdrop := 1/2 }
def exLoad : Comp ℚ := { name := "L", kind := .iload, par := .const 0, ii := 1/10 }

def exSys : SSys ℚ :=
  { nodes := #[some ⟨exSrc, [], [1], .table [], "", ""⟩, some ⟨exReg, [0], [2], .table [], "", ""⟩,
               some ⟨exLoad, [1], [], .table [], "", ""⟩],
    topo := [0, 1, 2] }

def exCfg : Cfg ℚ := ⟨1/100000000, 1/100000, 1/1000000, 10000⟩


theorem exNode (n : Nat) (nd : SNode ℚ) (h : exSys.node? n = some nd) :
    (n = 0 ∧ nd.comp = exSrc ∧ nd.parents = [] ∧ nd.childs = [1]) ∨
    (n = 1 ∧ nd.comp = exReg ∧ nd.parents = [0] ∧ nd.childs = [2]) ∨
    (n = 2 ∧ nd.comp = exLoad ∧ nd.parents = [1] ∧ nd.childs = []) := by
  match n with
  | 0 => simp [SSys.node?, exSys] at h; subst h; simp
  | 1 => simp [SSys.node?, exSys] at h; subst h; simp
  | 2 => simp [SSys.node?, exSys] at h; subst h; simp
  | n + 3 => simp [SSys.node?, exSys] at h

def exDepth (n : Nat) : Nat := n
def exHeight (n : Nat) : Nat := 2 - n
def exLo : Nat → ℚ := fun n => if n = 0 then 5 else if n = 1 then 33/10 else 0

theorem exTree : SingleSupplyTree exSys exDepth exHeight 2 where
  topo_lt := by decide
  no_mux := by
    intro n nd h
    rcases exNode n nd h with ⟨_, hc, _⟩ | ⟨_, hc, _⟩ | ⟨_, hc, _⟩ <;> rw [hc] <;> decide
  root_source := by
    intro n nd h hp
    rcases exNode n nd h with ⟨_, hc, _⟩ | ⟨_, _, hq, _⟩ | ⟨_, _, hq, _⟩
    · rw [hc]; rfl
    · rw [hq] at hp; simp at hp
    · rw [hq] at hp; simp at hp
  parent := by
    intro n nd h
    rcases exNode n nd h with ⟨rfl, _, hq, _⟩ | ⟨rfl, _, hq, _⟩ | ⟨rfl, _, hq, _⟩
    · left; exact hq
    · right; exact ⟨0, hq, rfl⟩
    · right; exact ⟨1, hq, rfl⟩
  child := by
    intro n nd h c hc
    rcases exNode n nd h with ⟨rfl, _, _, hq⟩ | ⟨rfl, _, _, hq⟩ | ⟨rfl, _, _, hq⟩ <;> rw [hq] at hc <;>
      simp at hc <;> subst hc <;> decide
  depth_le := by
    intro n nd h
    rcases exNode n nd h with ⟨rfl, _⟩ | ⟨rfl, _⟩ | ⟨rfl, _⟩ <;> decide
  height_le := by
    intro n nd h
    rcases exNode n nd h with ⟨rfl, _⟩ | ⟨rfl, _⟩ | ⟨rfl, _⟩ <;> decide

theorem exDropFree : ∀ n nd, exSys.node? n = some nd → DropFree nd.comp := by
  intro n nd h
  rcases exNode n nd h with ⟨_, hc, _⟩ | ⟨_, hc, _⟩ | ⟨_, hc, _⟩ <;> rw [hc] <;>
    simp [DropFree, exSrc, exReg, exLoad]

theorem exMargin : Margin exSys exLo where
  root := by
    intro n nd h hp
    rcases exNode n nd h with ⟨rfl, hc, _⟩ | ⟨_, _, hq, _⟩ | ⟨_, _, hq, _⟩
    · rw [hc]; norm_num [exLo, exSrc]
    · rw [hq] at hp; simp at hp
    · rw [hq] at hp; simp at hp
  inner := by
    intro n nd p h hp
    rcases exNode n nd h with ⟨rfl, _, hq, _⟩ | ⟨rfl, hc, hq, _⟩ | ⟨rfl, hc, hq, _⟩
    · rw [hq] at hp; simp at hp
    · rw [hq] at hp; simp at hp; subst hp; rw [hc]
      norm_num [MarginC, exLo, exReg]
    · rw [hq] at hp; simp at hp; subst hp; rw [hc]
      simp [MarginC, exLoad]

example : ∃ r, exSys.solvePhase exCfg "" = .ok r ∧ r.iters ≤ 7 ∧ ConvergedAt exSys exCfg "" r.v r.i r.st :=
  finite_settling_margin_partial exSys exCfg "" exDepth exHeight 2 exTree exDropFree exLo exMargin
    (by norm_num [exCfg]) (by norm_num [exCfg]) (by norm_num [exCfg]) (by norm_num [exCfg])


/-- (a) is about something: the hypotheses hold and the first 7 iterates from `init` exist -/
example : (∃ X, sweepN exSys "" 7 (exSys.init "") = .ok X) ∧
    ∃ (vfix : Nat → ℚ) (sfix : Nat → List Bool), ∀ k X, sweepN exSys "" k (exSys.init "") = .ok X →
      ∀ n, exDepth n < k → vget X.1 n = vfix n ∧ X.2.2.getD n [] = sfix n :=
  ⟨sweepN_ok_of_noraise exSys "" _ 6
      (fun k X _ => noraise_of_margin exSys "" exDepth exHeight 2 exTree exDropFree exLo exMargin k X) 7
      (by omega),
   voltages_settle_partial exSys "" exDepth exHeight 2 exTree exDropFree _⟩

/-- (c): the 6th iterate exists and is an exact fixed point — the hypotheses of
    `loop_returns_if_eventually_fixed` are satisfiable — and the loop lemma applies to it -/
example : ∃ r, exSys.solvePhase exCfg "" = .ok r ∧ r.iters ≤ 7 := by
  obtain ⟨y, hy, hfix⟩ := eventually_fixed_partial exSys "" exDepth exHeight 2 exTree exDropFree
    (exSys.init "") (sweepN_ok_of_noraise exSys "" _ 6
      (fun k X _ => noraise_of_margin exSys "" exDepth exHeight 2 exTree exDropFree exLo exMargin k X) 7
      (by omega))
  exact loop_returns_if_eventually_fixed exSys exCfg "" (by norm_num [exCfg]) (by norm_num [exCfg])
    (by norm_num [exCfg]) 6 y hy hfix (by norm_num [exCfg])

/-- (b) for the example: currents of all nodes of height ≤ `j` are final after `3 + j + 1` passes -/
example (j : Nat) (Y Z : Vec ℚ × Vec ℚ × St) (hY : sweepN exSys "" (2 + 1 + j + 1) (exSys.init "") = .ok Y)
    (hZ : sweep exSys "" Y = .ok Z) (n : Nat) (hn : exHeight n ≤ j) : vget Z.2.1 n = vget Y.2.1 n :=
  currents_settle_partial exSys "" exDepth exHeight 2 exTree exDropFree _ j Y Z hY hZ n (fun _ _ => hn)

/-! a second witness exercising the only guard that can fire in the class (constant-drop sign test):
    Source(5 V) → VLoss(0.7 V) → LinReg(3.3 V, dropout 0.5 V) → ILoad(0.1 A), `lo = 5, 4.3, 3.3, 0` -/

def exDrop : Comp ℚ := { name := "D", kind := .vloss, par := .const (7/10) }

def exSys2 : SSys ℚ :=
  { nodes := #[some ⟨exSrc, [], [1], .table [], "", ""⟩, some ⟨exDrop, [0], [2], .table [], "", ""⟩,
               some ⟨exReg, [1], [3], .table [], "", ""⟩, some ⟨exLoad, [2], [], .table [], "", ""⟩],
    topo := [0, 1, 2, 3] }

theorem exNode2 (n : Nat) (nd : SNode ℚ) (h : exSys2.node? n = some nd) :
    (n = 0 ∧ nd.comp = exSrc ∧ nd.parents = [] ∧ nd.childs = [1]) ∨
    (n = 1 ∧ nd.comp = exDrop ∧ nd.parents = [0] ∧ nd.childs = [2]) ∨
    (n = 2 ∧ nd.comp = exReg ∧ nd.parents = [1] ∧ nd.childs = [3]) ∨
    (n = 3 ∧ nd.comp = exLoad ∧ nd.parents = [2] ∧ nd.childs = []) := by
  match n with
  | 0 => simp [SSys.node?, exSys2] at h; subst h; simp
  | 1 => simp [SSys.node?, exSys2] at h; subst h; simp
  | 2 => simp [SSys.node?, exSys2] at h; subst h; simp
  | 3 => simp [SSys.node?, exSys2] at h; subst h; simp
  | n + 4 => simp [SSys.node?, exSys2] at h

def exHeight2 (n : Nat) : Nat := 3 - n
def exLo2 : Nat → ℚ := fun n => if n = 0 then 5 else if n = 1 then 43/10 else if n = 2 then 33/10 else 0

theorem exTree2 : SingleSupplyTree exSys2 exDepth exHeight2 3 where
  topo_lt := by decide
  no_mux := by
    intro n nd h
    rcases exNode2 n nd h with ⟨_, hc, _⟩ | ⟨_, hc, _⟩ | ⟨_, hc, _⟩ | ⟨_, hc, _⟩ <;> rw [hc] <;> decide
  root_source := by
    intro n nd h hp
    rcases exNode2 n nd h with ⟨_, hc, _⟩ | ⟨_, _, hq, _⟩ | ⟨_, _, hq, _⟩ | ⟨_, _, hq, _⟩
    · rw [hc]; rfl
    · rw [hq] at hp; simp at hp
    · rw [hq] at hp; simp at hp
    · rw [hq] at hp; simp at hp
  parent := by
    intro n nd h
    rcases exNode2 n nd h with ⟨rfl, _, hq, _⟩ | ⟨rfl, _, hq, _⟩ | ⟨rfl, _, hq, _⟩ | ⟨rfl, _, hq, _⟩
    · left; exact hq
    · right; exact ⟨0, hq, rfl⟩
    · right; exact ⟨1, hq, rfl⟩
    · right; exact ⟨2, hq, rfl⟩
  child := by
    intro n nd h c hc
    rcases exNode2 n nd h with ⟨rfl, _, _, hq⟩ | ⟨rfl, _, _, hq⟩ | ⟨rfl, _, _, hq⟩ | ⟨rfl, _, _, hq⟩ <;>
      rw [hq] at hc <;> simp at hc <;> subst hc <;> decide
  depth_le := by
    intro n nd h
    rcases exNode2 n nd h with ⟨rfl, _⟩ | ⟨rfl, _⟩ | ⟨rfl, _⟩ | ⟨rfl, _⟩ <;> decide
  height_le := by
    intro n nd h
    rcases exNode2 n nd h with ⟨rfl, _⟩ | ⟨rfl, _⟩ | ⟨rfl, _⟩ | ⟨rfl, _⟩ <;> decide

theorem exDropFree2 : ∀ n nd, exSys2.node? n = some nd → DropFree nd.comp := by
  intro n nd h
  rcases exNode2 n nd h with ⟨_, hc, _⟩ | ⟨_, hc, _⟩ | ⟨_, hc, _⟩ | ⟨_, hc, _⟩ <;> rw [hc] <;>
    simp [DropFree, exSrc, exReg, exLoad, exDrop]

theorem exMargin2 : Margin exSys2 exLo2 where
  root := by
    intro n nd h hp
    rcases exNode2 n nd h with ⟨rfl, hc, _⟩ | ⟨_, _, hq, _⟩ | ⟨_, _, hq, _⟩ | ⟨_, _, hq, _⟩
    · rw [hc]; norm_num [exLo2, exSrc]
    · rw [hq] at hp; simp at hp
    · rw [hq] at hp; simp at hp
    · rw [hq] at hp; simp at hp
  inner := by
    intro n nd p h hp
    rcases exNode2 n nd h with ⟨rfl, _, hq, _⟩ | ⟨rfl, hc, hq, _⟩ | ⟨rfl, hc, hq, _⟩ | ⟨rfl, hc, hq, _⟩
    · rw [hq] at hp; simp at hp
    · rw [hq] at hp; simp at hp; subst hp; rw [hc]
      simp only [MarginC, exDrop, Param.const.injEq]
      intro d hd; subst hd
      norm_num [exLo2]
    · rw [hq] at hp; simp at hp; subst hp; rw [hc]
      norm_num [MarginC, exLo2, exReg]
    · rw [hq] at hp; simp at hp; subst hp; rw [hc]
      simp [MarginC, exLoad]

example : ∃ r, exSys2.solvePhase exCfg "" = .ok r ∧ r.iters ≤ 9 ∧
    ConvergedAt exSys2 exCfg "" r.v r.i r.st :=
  finite_settling_margin_partial exSys2 exCfg "" exDepth exHeight2 3 exTree2 exDropFree2 exLo2 exMargin2
    (by norm_num [exCfg]) (by norm_num [exCfg]) (by norm_num [exCfg]) (by norm_num [exCfg])

end C03
end SysLoss
