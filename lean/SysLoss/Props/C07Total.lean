/-
  Props/C07Total — property C07 end to end: the "System total" row of the model's own table, fed with an
  exact steady state of the model's own sweeps, reports `0 ≤ Loss ≤ Power` and an efficiency in [0, 100];
  the per-phase energies of a row add up to the energy of its duration-weighted average power.

  `Props/C07` proves `total_eff_le_100` ASSUMING `0 ≤ Loss ≤ Power`; this file discharges that assumption
  from the model (`SSys.compRow`, `SSys.compRows`, `SSys.phaseTable`, `SSys.assemble`, Model/Table.lean)
  through the table balance of Props/C02Table.

   1. `pl_pwr_nonneg`, `pl_loss_nonneg`, `switch_vout_le`, `mux_vout_le` : per kind, the Power and Loss
      cells `Comp.solvPwrLoss` returns are ≥ 0 (Loss: accepted parameters, `Iout ≥ 0`, and for a
      switch / mux `|Vout| ≤ |Vin|`, which their voltage law guarantees).
      `rows_loss_nonneg` : every component row of a steady-state table has Power ≥ 0 and Loss ≥ 0.
      Hypotheses: `TreeWF`, `Comp.Phys` for every component, `PhaseValOK`, `Steady` — NOT the exclusions
      of `CompsOK`.
   2. `total_cells` (no hypothesis) : total Power = Σ_{listed subsystems} Power of the first SOURCE row
      of that domain, total Loss = Σ Loss of the rows whose Domain is a listed subsystem.
      `total_pwr_eq_sources` : = Σ Power of the SOURCE rows (sources have distinct names).
      `rows_domain_covered`, `total_loss_eq_sum` (only `TreeWF`) : every row's Domain is a listed
      subsystem, so total Loss = Σ of ALL component Loss cells.
      `total_loss_le_power_partial` : `0 ≤ Loss ≤ Power` for the total row.
      `total_pwr_sub_loss_partial` : `Power − Loss = Σ Power of the LOAD rows`.
   3. `total_eff_le_100_table_partial` : the efficiency cell of the total row is in [0, 100].
   4. `subsystem_loss_le_power_partial`, `subsystem_eff_le_100_partial` : every "Subsystem" row has
      `0 ≤ Loss ≤ Power` and an efficiency in [0, 100] (`D_feeder`: a row has the Domain of the row that
      feeds it; `domain_balance`: the C02 balance restricted to the rows of one Domain).
   5. `table_energies_add_up` : in the `assemble`d multi-phase table the k-th component row of every
      phase is the same component, its energy cell is `_calc_energy(phase, Power)` and the cells add up
      to `24 h × Σ_p Power_p·d_p / Σ d`.  `table_total_energies_add_up` : when the table holds all
      declared phases, the energy cell of "System average" = Σ energy cells of the "System total" rows.

  Hypotheses / what is NOT covered:
   * `SrcNamesDistinct` : two Source nodes never share a name.  `System` enforces unique component names,
     but the solver view `SSys` does not carry that invariant, and `TreeWF` does not state it.  It is
     needed: the subsystem dictionary is keyed by name.
   * the `_partial` theorems inherit the two exclusions of `CompsOK` (Props/C02Table): finding F01 (Source
     with `vo < 0` and `rs ≠ 0`) and a Converter with `vo = 0`.  `total_loss_le_power_full_fails` shows
     that without them (accepted parameters only) the statement fails on the model as it stands:
     `Source(5 V) → Converter(vo = 0, iq = 0.1 A)` has total Power 0 W, Loss 0.5 W.
   * phase values of loads are assumed ≥ 0 (`PhaseValOK`); the state is an EXACT steady state (`Steady`),
     tolerance-converged states are not covered.
   * (4) additionally assumes `NamesDistinct` (ALL component names distinct; used through
     `C16R.compRows_spec`) and `MuxInputsPlain`: above every input of a PMux the first-parent path to the
     root passes no PMux.  `muxInputsPlain_of_oneMux`: this holds whenever the system has at most one PMux
     (`OneMux`) — which `add_comp` / `change_comp` enforce ("a system can only have one PMux"), so
     `subsystem_loss_le_power_oneMux_partial` covers every system `System` can build.  The solver view
     `SSys` itself does not exclude a mux above a mux, and there (4) fails on the model:
     `subsystem_loss_le_power_full_fails` (note at the end).
   * (5) needs every output to carry a non-empty phase name and `Σ d ≠ 0`; (5′) additionally that the
     outputs are exactly the declared phases (distinct names), at least two.
-/
import SysLoss.Proofs.Basic
import SysLoss.Model.Table
import SysLoss.Props.C02
import SysLoss.Props.C02Table
import SysLoss.Props.C07
import SysLoss.Props.C16Renumber
import Mathlib.Algebra.BigOperators.Group.List.Basic
import Mathlib.Algebra.Order.BigOperators.Group.List
import Mathlib.Tactic.NormNum

set_option linter.unusedSectionVars false
set_option linter.unusedVariables false
set_option linter.unnecessarySeqFocus false
set_option linter.unusedTactic false

namespace SysLoss
namespace C07
open C02
variable {α : Type} [Field α] [LinearOrder α] [IsStrictOrderedRing α]

/-! ### 1. one component: the Power and Loss cells are not negative -/

/-- the Power cell of every kind is a magnitude (or 0) -/
theorem pl_pwr_nonneg (c : Comp α) (vi vo ii io ta : α) (ph : PhaseCtx α) :
    0 ≤ (c.solvPwrLoss vi vo ii io ta ph).pwr := by
  unfold Comp.solvPwrLoss finishPL PL.zeros
  cases hk : c.kind <;> simp only [nabs_eq_abs] <;> split_ifs <;>
    first | exact le_refl _ | exact abs_nonneg _

/-- the regulated voltage is a magnitude below the input's -/
theorem linregV_bounds (vo vdrop vi : α) (hd : 0 ≤ vdrop) :
    0 ≤ linregV vo vdrop vi ∧ linregV vo vdrop vi ≤ |vi| := by
  unfold linregV
  simp only [nabs_eq_abs, nmin_eq_min, nmax_eq_max]
  refine ⟨le_min (abs_nonneg _) (le_max_right _ _), ?_⟩
  apply le_trans (min_le_right _ _)
  apply max_le
  · linarith
  · exact abs_nonneg _

/-- **Loss ≥ 0, one component.**  With accepted parameters and a non-negative output current the
    Loss cell of every kind is non-negative; a switch / mux additionally needs `|Vout| ≤ |Vin|`
    (which its voltage law guarantees, `switch_vout_le` / `mux_vout_le`). -/
theorem pl_loss_nonneg (c : Comp α) (hc : c.Phys) (vi vo ii io ta : α) (ph : PhaseCtx α) (hio : 0 ≤ io)
    (hsw : c.kind = .pswitch ∨ c.kind = .pmux → |vo| ≤ |vi|) :
    0 ≤ (c.solvPwrLoss vi vo ii io ta ph).loss := by
  have hpar := hc.par |io| |vi|
  have hl0 : 0 ≤ c.par.interp |io| |vi| * |vi| := mul_nonneg hpar (abs_nonneg _)
  unfold Comp.solvPwrLoss finishPL PL.zeros
  cases hk : c.kind <;> simp only [nabs_eq_abs]
  case source =>
    split_ifs <;> first | exact le_refl _ | exact mul_nonneg (mul_nonneg hc.rs hio) hio
  case pload => split_ifs <;> first | exact le_refl _ | exact abs_nonneg _
  case iload => split_ifs <;> first | exact le_refl _ | exact abs_nonneg _
  case rload => split_ifs <;> first | exact le_refl _ | exact abs_nonneg _
  case rloss => split_ifs <;> first | exact le_refl _ | exact mul_nonneg (abs_nonneg _) hio
  case vloss => split_ifs <;> first | exact le_refl _ | exact mul_nonneg (abs_nonneg _) hio
  case converter => split_ifs <;> first | exact le_refl _ | exact abs_nonneg _
  case linreg =>
    obtain ⟨b0, b1⟩ := linregV_bounds c.vo c.vdrop vi hc.vdrop
    have : 0 ≤ (|vi| - |linregV c.vo c.vdrop vi|) * io := by
      rw [abs_of_nonneg b0]; exact mul_nonneg (by linarith) hio
    split_ifs <;> first | exact le_refl _ | exact abs_nonneg _ | exact hl0 | linarith
  case pswitch =>
    have h := hsw (Or.inl hk)
    have : 0 ≤ (|vi| - |vo|) * io := mul_nonneg (by linarith) hio
    split_ifs <;> first | exact le_refl _ | exact abs_nonneg _ | exact hl0 | linarith
  case pmux =>
    have h := hsw (Or.inr hk)
    have : 0 ≤ (|vi| - |vo|) * io := mul_nonneg (by linarith) hio
    split_ifs <;> first | exact le_refl _ | exact abs_nonneg _ | exact hl0 | linarith
  case rectifier =>
    have h1 : 0 ≤ c.iq * |vi| := mul_nonneg hc.iq (abs_nonneg _)
    have h2 : 0 ≤ 2 * c.rs * (|io| * |io|) :=
      mul_nonneg (mul_nonneg (by norm_num) hc.rs) (mul_nonneg (abs_nonneg _) (abs_nonneg _))
    split_ifs <;>
      first | exact le_refl _ | exact mul_nonneg (abs_nonneg _) hio | exact h1 | linarith

/-- a switch never outputs more than its input -/
theorem switch_vout_le (c : Comp α) (hk : c.kind = .pswitch) (hc : c.Phys) (vi io : α) (ph : PhaseCtx α)
    (off : List Bool) (vo : α) (b : Bool) (hio : 0 ≤ io)
    (hfwd : c.solvOutpVolt [vi] io ph off = .ok (vo, b)) : |vo| ≤ |vi| := by
  have hd : 0 ≤ c.rs * io := mul_nonneg hc.rs hio
  unfold Comp.solvOutpVolt at hfwd
  simp only [hk, List.headD_cons, nabs_eq_abs] at hfwd
  split_ifs at hfwd with h1 h2 h3 h4 <;>
    simp only [Except.ok.injEq, Prod.mk.injEq] at hfwd
  · rw [← hfwd.1]; simp
  · rw [← hfwd.1]; simp
  · simp only [Bool.not_eq_true', decide_eq_false_iff_not, not_not] at h3
    rw [← hfwd.1, abs_neg, abs_of_pos h3]; linarith
  · simp only [Bool.not_eq_true', decide_eq_false_iff_not, not_not] at h3
    rw [← hfwd.1, abs_of_pos h3]; linarith

/-- a mux never outputs more than the input it selected -/
theorem mux_vout_le (c : Comp α) (hk : c.kind = .pmux) (hc : c.Phys) (vi : List α) (io : α) (ph : PhaseCtx α)
    (off : List Bool) (vo : α) (b : Bool) (hio : 0 ≤ io) (k : Nat) (hsel : priInpAux off vi 0 = some k)
    (hfwd : c.solvOutpVolt vi io ph off = .ok (vo, b)) : |vo| ≤ |vi.getD k 0| := by
  have hr := hc.rsl k
  unfold Comp.muxRs at hr
  unfold Comp.solvOutpVolt at hfwd
  simp only [hk, hsel, nabs_eq_abs] at hfwd
  cases hl : c.rsList with
  | some l =>
    simp only [hl, nabs_eq_abs] at hfwd hr
    by_cases hlen : l.length < vi.length
    · simp [hlen] at hfwd
    · simp only [hlen, if_false] at hfwd
      have hd : 0 ≤ |l.getD k 0| * io := mul_nonneg hr hio
      split_ifs at hfwd with h2 h3 h4 <;>
        simp only [Except.ok.injEq, Prod.mk.injEq] at hfwd
      · rw [← hfwd.1]; simp
      · simp only [Bool.not_eq_true', decide_eq_false_iff_not, not_not] at h3
        rw [← hfwd.1, abs_neg, abs_of_pos h3]; linarith
      · simp only [Bool.not_eq_true', decide_eq_false_iff_not, not_not] at h3
        rw [← hfwd.1, abs_of_pos h3]; linarith
  | none =>
    simp only [hl] at hfwd hr
    have hd : 0 ≤ c.rs * io := mul_nonneg hr hio
    split_ifs at hfwd with h2 h3 h4 <;>
      simp only [Except.ok.injEq, Prod.mk.injEq] at hfwd
    · rw [← hfwd.1]; simp
    · simp only [Bool.not_eq_true', decide_eq_false_iff_not, not_not] at h3
      rw [← hfwd.1, abs_neg, abs_of_pos h3]; linarith
    · simp only [Bool.not_eq_true', decide_eq_false_iff_not, not_not] at h3
      rw [← hfwd.1, abs_of_pos h3]; linarith

/-! ### 2. the rows of a steady state -/

/-- **Power ≥ 0 and Loss ≥ 0 for the row of every live node** of an exact steady state (six numbers of
    `compRow`; the Domain cell plays no role). -/
theorem rowOf_nonneg (s : SSys α) (hwf : TreeWF s) (hphys : ∀ n nd, s.node? n = some nd → nd.comp.Phys)
    (phase : String) (ta : α) (v i : Vec α) (st : St) (hst : Steady s phase v i st) (hi : ∀ m, 0 ≤ vget i m)
    (n : Nat) (nd : SNode α) (hnode : s.node? n = some nd) :
    0 ≤ (rowOf s phase ta v i st n).pwr ∧ 0 ≤ (rowOf s phase ta v i st n).loss := by
  have hn : n ∈ s.topo := mem_of_node s hwf n nd hnode
  have hc := hphys n nd hnode
  have hio := ioOf_nonneg s nd n hnode v i st hi
  by_cases hk : nd.comp.kind = .pmux
  · have hpne := mux_parents_ne s hwf n nd hnode hk
    rw [rowOf_mux s phase ta v i st n nd hnode hk hpne]
    refine ⟨pl_pwr_nonneg _ _ _ _ _ _ _, pl_loss_nonneg _ hc _ _ _ _ _ _ hio fun _ => ?_⟩
    obtain ⟨_, hdead⟩ := mux_node_ok s phase ta v i st hwf.bound hst hi n nd hn hnode hk hpne hc
    cases hsel : priInpAux (nd.parents.map (sget st)) (nd.parents.map (vget v)) 0 with
    | none => rw [(hdead hsel).1]; simp
    | some k =>
      obtain ⟨⟨b, hf⟩, _⟩ := steady_cell s phase v i st hwf.bound hst n hn
      have hne : nd.parents.isEmpty = false := by
        cases hp : nd.parents with
        | nil => exact absurd hp hpne
        | cons a l => rfl
      unfold SSys.fwdAt SSys.lawArgs at hf
      simp only [hnode, hne, Bool.false_eq_true, if_false] at hf
      have hle := mux_vout_le nd.comp hk hc _ _ _ _ _ b hio k hsel hf
      obtain ⟨h1, _, _, _⟩ := pri_some_spec _ _ k hsel
      rw [List.length_map] at h1
      rw [getD_map_vget v nd.parents k h1] at hle
      have e : muxVin v st nd = vget v (nd.parents.getD k 0) := by unfold muxVin; rw [hsel]
      rw [e]; exact hle
  · rcases parents_cases' s hwf n nd hnode hk with h0 | ⟨p, h1⟩
    · have hsrc := (hwf.rootSrc n nd hnode).mp h0
      rw [rowOf_root s phase ta v i st n nd hnode h0]
      refine ⟨pl_pwr_nonneg _ _ _ _ _ _ _, pl_loss_nonneg _ hc _ _ _ _ _ _ (hi n) fun h => ?_⟩
      rcases h with h | h <;> rw [hsrc] at h <;> cases h
    · rw [rowOf_fed s phase ta v i st n p nd hnode h1]
      refine ⟨pl_pwr_nonneg _ _ _ _ _ _ _, pl_loss_nonneg _ hc _ _ _ _ _ _ hio fun h => ?_⟩
      rcases h with h | h
      · obtain ⟨⟨b, hf⟩, _⟩ := steady_cell s phase v i st hwf.bound hst n hn
        rw [(C01.sweep_args_are_row s phase ta v i st n p nd hnode h1 "").1] at hf
        exact switch_vout_le nd.comp h hc _ _ _ _ _ b hio hf
      · exact absurd h hk

/-- every row of `compRows` is the row `compRow` builds for a listed node (for some inherited domain) -/
theorem compRows_mem (s : SSys α) (phase : String) (ta : α) (v i : Vec α) (st : St) (r : Row α)
    (hr : r ∈ s.compRows phase ta v i st) : ∃ n ∈ s.topo, ∃ d, r = (s.compRow phase ta v i st n d).1 := by
  rw [compRows_eq_foldl] at hr
  have key : ∀ (l : List Nat) (acc : List (Row α) × String × List (Nat × String)),
      r ∈ (l.foldl (rowStep s phase ta v i st) acc).1 →
        r ∈ acc.1 ∨ ∃ n ∈ l, ∃ d, r = (s.compRow phase ta v i st n d).1 := by
    intro l
    induction l with
    | nil => intro acc h; exact Or.inl h
    | cons n l' ih =>
      intro acc h
      rw [List.foldl_cons] at h
      rcases ih _ h with h' | ⟨m, hm, d, e⟩
      · unfold rowStep at h'
        simp only [List.mem_append, List.mem_singleton] at h'
        rcases h' with h' | h'
        · exact Or.inl h'
        · exact Or.inr ⟨n, by simp, _, h'⟩
      · exact Or.inr ⟨m, by simp [hm], d, e⟩
  rcases key s.topo _ hr with h | h
  · cases h
  · exact h

/-- **(1) Component rows never report a negative Power or Loss.**  Well-formed tree, accepted
    parameters (`Comp.Phys`, e.g. from `CompsOK.phys`), non-negative phase values, exact steady state:
    every component row of the table has numeric Power and Loss cells, both ≥ 0 (in particular the
    Power of every load).  Needs neither of the two exclusions of `CompsOK`. -/
theorem rows_loss_nonneg (s : SSys α) (hwf : TreeWF s) (hphys : ∀ n nd, s.node? n = some nd → nd.comp.Phys)
    (phase : String) (hpv : ∀ n nd, s.node? n = some nd → PhaseValOK (nd.pconf.ctx phase))
    (ta : α) (v i : Vec α) (st : St) (hst : Steady s phase v i st) :
    ∀ r ∈ s.compRows phase ta v i st, ∃ P L, r.pwr = some P ∧ r.loss = some L ∧ 0 ≤ P ∧ 0 ≤ L := by
  intro r hr
  have hi := steady_currents_nonneg s hwf hphys phase hpv v i st hst.back
  obtain ⟨n, hn, d, rfl⟩ := compRows_mem s phase ta v i st r hr
  obtain ⟨nd, hnd⟩ := node_of_mem s hwf n hn
  obtain ⟨h1, h2⟩ := rowOf_nonneg s hwf hphys phase ta v i st hst hi n nd hnd
  have hg := domainFree_compRow (fun r : Row α => (r.pwr, r.loss)) (fun _ _ => rfl) s phase ta v i st n d ""
  simp only [Prod.mk.injEq] at hg
  obtain ⟨VI, IO, _, _, _, _, c5, c6, _, _⟩ := compRow_consistent s phase ta v i st n nd hnd ""
  unfold rowOf cellsOf rP rL at h1 h2
  rw [c5] at h1
  rw [c6] at h2
  exact ⟨_, _, hg.1.trans c5, hg.2.trans c6, h1, h2⟩

/-- the same, on the numbers `rP`, `rL` used by the balance of Props/C02Table -/
theorem rows_rP_rL_nonneg (s : SSys α) (hwf : TreeWF s) (hphys : ∀ n nd, s.node? n = some nd → nd.comp.Phys)
    (phase : String) (hpv : ∀ n nd, s.node? n = some nd → PhaseValOK (nd.pconf.ctx phase))
    (ta : α) (v i : Vec α) (st : St) (hst : Steady s phase v i st) :
    ∀ r ∈ s.compRows phase ta v i st, 0 ≤ rP r ∧ 0 ≤ rL r := by
  intro r hr
  obtain ⟨P, L, e1, e2, h1, h2⟩ := rows_loss_nonneg s hwf hphys phase hpv ta v i st hst r hr
  unfold rP rL; rw [e1, e2]; exact ⟨h1, h2⟩

/-! ### 3. sums over the rows -/

/-- `optSum` adds the numeric cells, an empty cell counts 0 -/
theorem optSum_map {β : Type} (l : List β) (f : β → Option α) :
    optSum (l.map f) = (l.map fun x => (f x).getD 0).sum := by
  unfold optSum
  rw [sumL_eq_sum]
  have e : (l.map f).filterMap id = l.filterMap f := by simp [List.filterMap_map]
  rw [e]
  induction l with
  | nil => rfl
  | cons a l ih =>
    cases h : f a with
    | none => simp [List.filterMap_cons, h, ih]
    | some x => simp [List.filterMap_cons, h, ih]

theorem sum_ite_mem (D : List String) (hD : D.Nodup) (k : String) (x : α) :
    (D.map fun d => if (k == d) = true then x else 0).sum = if k ∈ D then x else 0 := by
  induction D with
  | nil => simp
  | cons a D ih =>
    obtain ⟨ha, hD'⟩ := List.nodup_cons.mp hD
    rw [List.map_cons, List.sum_cons, ih hD']
    by_cases hka : k = a
    · subst hka; simp [ha]
    · have : (k == a) = false := by simpa using hka
      simp [this, hka]

/-- grouping by a key: the sums of the groups of the keys `D` (no key listed twice) add up to the sum
    over the entries whose key is in `D` -/
theorem sum_groups {β : Type} (D : List String) (hD : D.Nodup) (l : List β) (key : β → String) (w : β → α) :
    (D.map fun d => ((l.filter fun x => key x == d).map w).sum).sum
      = (l.map fun x => if key x ∈ D then w x else 0).sum := by
  induction l with
  | nil => simp
  | cons a l ih =>
    have h1 : ∀ d, (((a :: l).filter fun x => key x == d).map w).sum
        = (if (key a == d) = true then w a else 0) + ((l.filter fun x => key x == d).map w).sum := by
      intro d
      by_cases h : (key a == d) = true
      · simp [List.filter_cons, h]
      · simp [List.filter_cons, h]
    simp only [h1]
    rw [List.sum_map_add, ih, sum_ite_mem D hD]
    simp

theorem sum_ite_le {β : Type} (l : List β) (q : β → Prop) [DecidablePred q] (w : β → α)
    (hw : ∀ x ∈ l, 0 ≤ w x) :
    0 ≤ (l.map fun x => if q x then w x else 0).sum ∧
    (l.map fun x => if q x then w x else 0).sum ≤ (l.map w).sum := by
  constructor
  · apply List.sum_nonneg
    intro y hy
    obtain ⟨x, hx, rfl⟩ := List.mem_map.mp hy
    split_ifs
    · exact hw x hx
    · exact le_refl _
  · apply List.sum_le_sum
    intro x hx
    split_ifs
    · exact le_refl _
    · exact hw x hx

theorem sum_split {β : Type} (l : List β) (q : β → Bool) (w : β → α) :
    (l.map w).sum = ((l.filter q).map w).sum + ((l.filter fun x => !q x).map w).sum := by
  rw [sum_filter_map, sum_filter_map, ← List.sum_map_add]
  congr 1
  apply List.map_congr_left
  intro x _
  cases q x <;> simp

/-- in a list without two entries of the same key, filtering on the key of a member leaves that member -/
theorem filter_key_of_nodup {β : Type} (l : List β) (key : β → String) (hn : (l.map key).Nodup)
    (r : β) (hr : r ∈ l) : (l.filter fun x => key x == key r) = [r] := by
  induction l with
  | nil => cases hr
  | cons a l ih =>
    simp only [List.map_cons, List.nodup_cons, List.mem_map, not_exists, not_and] at hn
    obtain ⟨ha, hn'⟩ := hn
    rcases List.mem_cons.mp hr with rfl | hr'
    · have : (l.filter fun x => key x == key r) = [] := by
        rw [List.filter_eq_nil_iff]
        intro x hx
        have := ha x hx
        simpa using this
      simp [List.filter_cons, this]
    · have hne : (key a == key r) = false := by
        have := ha r hr'
        simpa using fun e : key a = key r => this e.symm
      rw [List.filter_cons, hne]
      exact ih hn' hr'

/-! ### 4. the "System total" row -/

/-- distinct Source nodes carry distinct names (`System` keeps all component names distinct) -/
def SrcNamesDistinct (s : SSys α) : Prop :=
  ∀ n m nd md, s.node? n = some nd → s.node? m = some md → nd.comp.kind = .source → md.comp.kind = .source →
    nd.comp.name = md.comp.name → n = m

/-- a SOURCE row is its own domain -/
theorem srcRow_domain (s : SSys α) (hwf : TreeWF s) (phase : String) (ta : α) (v i : Vec α) (st : St)
    (r : Row α) (hr : r ∈ s.compRows phase ta v i st) (ht : (r.typ == "SOURCE") = true) : r.domain = r.name := by
  obtain ⟨n, hn, d, rfl⟩ := compRows_mem s phase ta v i st r hr
  obtain ⟨nd, hnd⟩ := node_of_mem s hwf n hn
  unfold SSys.compRow at ht ⊢
  simp only [hnd] at ht ⊢
  rw [kind_name_source] at ht
  have hk : nd.comp.kind = .source := by simpa using ht
  unfold SSys.findDomain
  simp only [hnd, hk]

/-- one SOURCE row per source, each under its own name -/
theorem srcRows_nodup (s : SSys α) (hwf : TreeWF s) (hnames : SrcNamesDistinct s)
    (phase : String) (ta : α) (v i : Vec α) (st : St) :
    (((s.compRows phase ta v i st).filter (·.typ == "SOURCE")).map (·.domain)).Nodup := by
  have e1 : ((s.compRows phase ta v i st).filter (·.typ == "SOURCE")).map (·.domain)
      = ((s.compRows phase ta v i st).filter (·.typ == "SOURCE")).map (·.name) :=
    List.map_congr_left fun r hr =>
      srcRow_domain s hwf phase ta v i st r (List.mem_filter.mp hr).1 (List.mem_filter.mp hr).2
  have e2 : ((s.compRows phase ta v i st).filter (·.typ == "SOURCE")).map (·.name)
      = ((((s.compRows phase ta v i st).map fun r : Row α => (r.typ, r.name)).filter (·.1 == "SOURCE")).map (·.2)) := by
    rw [List.filter_map, List.map_map]; rfl
  rw [e1, e2, compRows_numeric (fun r : Row α => (r.typ, r.name)) (fun _ _ => rfl), List.filter_map, List.map_map]
  refine List.pairwise_map.mpr ?_
  refine List.Pairwise.imp_of_mem ?_ (hwf.nodup.filter _)
  intro x y hx hy hne hxy
  apply hne
  obtain ⟨hxt, hxs⟩ := List.mem_filter.mp hx
  obtain ⟨hyt, hys⟩ := List.mem_filter.mp hy
  obtain ⟨xd, hxd⟩ := node_of_mem s hwf x hxt
  obtain ⟨yd, hyd⟩ := node_of_mem s hwf y hyt
  unfold SSys.compRow at hxs hys hxy
  simp only [Function.comp, hxd, hyd] at hxs hys hxy
  rw [kind_name_source] at hxs hys
  exact hnames x y xd yd hxd hyd (by simpa using hxs) (by simpa using hys) hxy

/-- the names under which subsystems are listed -/
def srcNames (comps : List (Row α)) : List String :=
  ((comps.filter (·.typ == "SOURCE")).map (·.domain)).eraseDups

theorem eraseDups_of_nodup : ∀ (l : List String), l.Nodup → l.eraseDups = l := by
  intro l
  induction l with
  | nil => intro _; rfl
  | cons a as ih =>
    intro h
    obtain ⟨ha, has⟩ := List.nodup_cons.mp h
    rw [List.eraseDups_cons]
    have : as.filter (fun b => !b == a) = as := by
      rw [List.filter_eq_self]
      intro b hb
      have : b ≠ a := fun e => ha (e ▸ hb)
      simpa using this
    rw [this, ih has]

theorem nodup_eraseDups (l : List String) : l.eraseDups.Nodup := by
  generalize hn : l.length = n
  induction n using Nat.strongRecOn generalizing l with
  | _ n ih =>
    cases l with
    | nil => simp
    | cons a as =>
      rw [List.eraseDups_cons]
      apply List.nodup_cons.mpr
      constructor
      · simp
      · apply ih (as.filter fun b => !b == a).length _ _ rfl
        have := List.length_filter_le (fun b => !b == a) as
        simp at hn; omega

/-- **What the total row adds up** (no assumption on the state): Power = Σ over the listed subsystems of
    the Power cell of the first SOURCE row of that domain, Loss = Σ of the Loss cells of the rows whose
    Domain is a listed subsystem. -/
theorem total_cells (s : SSys α) (phase : String) (ta : α) (v i : Vec α) (st : St) :
    let comps := s.compRows phase ta v i st
    let T := s.phaseTable phase ta v i st
    T.total.pwr = some ((srcNames comps).map fun d =>
        (((comps.filter fun r => r.domain == d && r.typ == "SOURCE").head?).bind (·.pwr)).getD 0).sum ∧
    T.total.loss = some (comps.map fun r => if r.domain ∈ srcNames comps then rL r else 0).sum := by
  intro comps T
  obtain ⟨t1, t2, _⟩ := total_spec s phase ta v i st
  have hsubs : T.subs = (srcNames comps).map fun d =>
      ({ name := "Subsystem " ++ d, phase := phase,
         vin := (((comps.filter (·.typ == "SOURCE")).filter (·.domain == d)).getLast?).bind (·.vin),
         iout := ((comps.filter fun r => r.domain == d && r.typ == "SOURCE").head?).bind (·.iout),
         pwr := some ((((comps.filter fun r => r.domain == d && r.typ == "SOURCE").head?).bind (·.pwr)).getD 0),
         loss := some (optSum ((comps.filter (·.domain == d)).map (·.loss))),
         eff := some (getEff ((((comps.filter fun r => r.domain == d && r.typ == "SOURCE").head?).bind (·.pwr)).getD 0)
           ((((comps.filter fun r => r.domain == d && r.typ == "SOURCE").head?).bind (·.pwr)).getD 0
             - optSum ((comps.filter (·.domain == d)).map (·.loss))) 100),
         ener := some (calcEnergy s.phases phase
           ((((comps.filter fun r => r.domain == d && r.typ == "SOURCE").head?).bind (·.pwr)).getD 0)),
         warn := if (comps.filter (·.domain == d)).any (·.warn != "") then "Yes" else "" } : Row α) := rfl
  refine ⟨?_, ?_⟩
  · rw [t1]
    show some (optSum (T.subs.map (·.pwr))) = _
    rw [hsubs, List.map_map, optSum_map]
    rfl
  · rw [t2]
    show some (optSum (T.subs.map (·.loss))) = _
    rw [hsubs, List.map_map, optSum_map]
    have hd : (srcNames comps).Nodup := by
      unfold srcNames
      exact nodup_eraseDups _
    rw [← sum_groups (srcNames comps) hd comps (·.domain) rL]
    congr 2
    apply List.map_congr_left
    intro d _
    simp only [Function.comp, Option.getD_some]
    rw [optSum_map]
    rfl

/-- with one SOURCE row per source the total Power is the sum of the SOURCE rows' Power cells -/
theorem total_pwr_eq_sources (s : SSys α) (hwf : TreeWF s) (hnames : SrcNamesDistinct s)
    (phase : String) (ta : α) (v i : Vec α) (st : St) :
    (s.phaseTable phase ta v i st).total.pwr
      = some (((s.compRows phase ta v i st).filter (·.typ == "SOURCE")).map rP).sum := by
  have hnd := srcRows_nodup s hwf hnames phase ta v i st
  rw [(total_cells s phase ta v i st).1]
  unfold srcNames
  rw [eraseDups_of_nodup _ hnd, List.map_map]
  congr 2
  apply List.map_congr_left
  intro r hr
  simp only [Function.comp]
  have e : ((s.compRows phase ta v i st).filter fun x => x.domain == r.domain && x.typ == "SOURCE")
      = (((s.compRows phase ta v i st).filter (·.typ == "SOURCE")).filter fun x => x.domain == r.domain) := by
    rw [List.filter_filter]
  rw [e, filter_key_of_nodup _ (·.domain) hnd r hr]
  rfl

/-- **(2) System total: 0 ≤ Loss ≤ Power.**  For a well-formed tree whose sources have distinct names,
    accepted parameters with the two exclusions of `CompsOK` (F01, Converter with `vo = 0`), non-negative
    phase values and an exact steady state, the "System total" row of the per-phase table reports
    numeric Power and Loss cells with `0 ≤ Loss ≤ Power`.
    (Loss ≤ Σ all component losses = Σ source Power − Σ load Power ≤ Σ source Power = Power.) -/
theorem total_loss_le_power_partial (s : SSys α) (hwf : TreeWF s) (hnames : SrcNamesDistinct s) (hok : CompsOK s)
    (phase : String) (hpv : ∀ n nd, s.node? n = some nd → PhaseValOK (nd.pconf.ctx phase))
    (ta : α) (v i : Vec α) (st : St) (hst : Steady s phase v i st) :
    ∃ P L, (s.phaseTable phase ta v i st).total.pwr = some P ∧
      (s.phaseTable phase ta v i st).total.loss = some L ∧ 0 ≤ L ∧ L ≤ P := by
  have hnn := rows_rP_rL_nonneg s hwf hok.phys phase hpv ta v i st hst
  have hbal := table_balance_mux_partial s hwf hok phase hpv ta v i st hst
  simp only at hbal
  refine ⟨_, _, total_pwr_eq_sources s hwf hnames phase ta v i st, (total_cells s phase ta v i st).2, ?_, ?_⟩
  · exact (sum_ite_le _ _ rL fun r hr => (hnn r hr).2).1
  · apply le_trans (sum_ite_le _ _ rL fun r hr => (hnn r hr).2).2
    rw [hbal, sum_split (s.compRows phase ta v i st) (·.typ == "LOAD") rL]
    have hload : 0 ≤ (((s.compRows phase ta v i st).filter (·.typ == "LOAD")).map rP).sum := by
      apply List.sum_nonneg
      intro y hy
      obtain ⟨r, hr, rfl⟩ := List.mem_map.mp hy
      exact (hnn r (List.mem_filter.mp hr).1).1
    rw [List.sum_map_add]
    have e : (((s.compRows phase ta v i st).filter fun x => !(x.typ == "LOAD")).map rL)
        = (((s.compRows phase ta v i st).filter (·.typ != "LOAD")).map rL) := rfl
    rw [e]
    linarith

/-- **(3) System total: efficiency within [0, 100].**  Under the hypotheses of (2) the efficiency cell
    of the "System total" row is a number between 0 and 100.  Partial only through `CompsOK` (finding F01
    and the Converter with `vo = 0`, see `total_loss_le_power_full_fails`). -/
theorem total_eff_le_100_table_partial (s : SSys α) (hwf : TreeWF s) (hnames : SrcNamesDistinct s) (hok : CompsOK s)
    (phase : String) (hpv : ∀ n nd, s.node? n = some nd → PhaseValOK (nd.pconf.ctx phase))
    (ta : α) (v i : Vec α) (st : St) (hst : Steady s phase v i st) :
    ∃ e, (s.phaseTable phase ta v i st).total.eff = some e ∧ 0 ≤ e ∧ e ≤ 100 := by
  obtain ⟨P, L, hP, hL, h0, h1⟩ := total_loss_le_power_partial s hwf hnames hok phase hpv ta v i st hst
  obtain ⟨t1, t2, t3⟩ := total_spec s phase ta v i st
  simp only at t1 t2 t3
  rw [t1] at hP
  rw [t2] at hL
  simp only [Option.some.injEq] at hP hL
  rw [hP, hL] at t3
  refine ⟨_, t3, ?_, total_eff_le_100 P L h0 h1⟩
  unfold getEff
  split_ifs
  · rw [nabs_eq_abs]; exact mul_nonneg (by norm_num) (abs_nonneg _)
  · norm_num

/-! ### 6. every row's Domain is a listed subsystem, hence total Loss = Σ of all component losses -/

theorem parent_idx_lt (s : SSys α) (hwf : TreeWF s) (n p : Nat) (nd : SNode α) (hnd : s.node? n = some nd)
    (hp : p ∈ nd.parents) : p ∈ s.topo ∧ s.topo.idxOf p < s.topo.idxOf n := by
  have hlive := hwf.parLive n nd hnd p hp
  obtain ⟨pd, hpd⟩ := Option.isSome_iff_exists.mp hlive
  exact ⟨(hwf.live p).mpr hlive, hwf.order p n pd hpd ((hwf.link p n pd nd hpd hnd).mpr hp)⟩

/-- parents are listed before their children (the form `domain_table` asks for) -/
theorem order_pre (s : SSys α) (hwf : TreeWF s) (pre : List Nat) (n : Nat) (post : List Nat)
    (hl : s.topo = pre ++ n :: post) (nd : SNode α) (hnd : s.node? n = some nd) (p : Nat) (hp : p ∈ nd.parents) :
    p ∈ pre := by
  obtain ⟨_, hlt⟩ := parent_idx_lt s hwf n p nd hnd hp
  by_contra hnp
  have hn : n ∉ pre := by
    intro hm
    have := hwf.nodup
    rw [hl] at this
    exact (List.nodup_append.mp this).2.2 n hm n (by simp) rfl
  rw [hl, List.idxOf_append_of_notMem hnp, List.idxOf_append_of_notMem hn, List.idxOf_cons_self] at hlt
  omega

theorem topo_length_le (s : SSys α) (hwf : TreeWF s) : s.topo.length ≤ s.hidx := by
  have hs : s.topo ⊆ List.range s.hidx := fun x hx => List.mem_range.mpr (hwf.bound x hx)
  have := (hwf.nodup.subperm hs).length_le
  simpa using this

/-- following first parents from a listed node ends at a root, given enough fuel -/
theorem rootOf_spec (s : SSys α) (hwf : TreeWF s) : ∀ (fuel n : Nat), n ∈ s.topo → s.topo.idxOf n ≤ fuel →
    ∃ rd, s.node? (s.rootOf fuel n) = some rd ∧ rd.parents = [] := by
  intro fuel
  induction fuel with
  | zero =>
    intro n hn hle
    obtain ⟨nd, hnd⟩ := node_of_mem s hwf n hn
    refine ⟨nd, hnd, ?_⟩
    cases hp : nd.parents with
    | nil => rfl
    | cons p rest =>
      have := (parent_idx_lt s hwf n p nd hnd (by rw [hp]; simp)).2
      omega
  | succ fuel ih =>
    intro n hn hle
    obtain ⟨nd, hnd⟩ := node_of_mem s hwf n hn
    cases hp : nd.parents with
    | nil =>
      refine ⟨nd, ?_, hp⟩
      simp only [SSys.rootOf, hnd, hp]
    | cons p rest =>
      obtain ⟨hpt, hlt⟩ := parent_idx_lt s hwf n p nd hnd (by rw [hp]; simp)
      obtain ⟨rd, h1, h2⟩ := ih p hpt (by omega)
      refine ⟨rd, ?_, h2⟩
      simp only [SSys.rootOf, hnd, hp]
      exact h1

theorem firstNonZero_bound : ∀ (l : List α) (k : Nat),
    firstNonZero l k = 0 ∨ (k ≤ firstNonZero l k ∧ firstNonZero l k < k + l.length) := by
  intro l
  induction l with
  | nil => intro k; exact Or.inl rfl
  | cons x xs ih =>
    intro k
    unfold firstNonZero
    split_ifs
    · exact Or.inr ⟨le_refl _, by simp⟩
    · cases xs with
      | nil => exact Or.inl rfl
      | cons y ys =>
        dsimp only
        rcases ih (k + 1) with h | ⟨h1, h2⟩
        · exact Or.inl h
        · refine Or.inr ⟨by omega, ?_⟩
          simp only [List.length_cons] at h2 ⊢
          omega

/-- `d` is the name of a listed Source -/
def IsSrcName (s : SSys α) (d : String) : Prop :=
  ∃ n ∈ s.topo, ∃ nd, s.node? n = some nd ∧ nd.comp.kind = .source ∧ nd.comp.name = d

/-- the domain `compRow` computes is a source's name as soon as the inherited one is (for a non-root) -/
theorem compRow_domain_src (s : SSys α) (hwf : TreeWF s) (phase : String) (ta : α) (v i : Vec α) (st : St)
    (n : Nat) (hn : n ∈ s.topo) (nd : SNode α) (hnd : s.node? n = some nd) (start : String)
    (hstart : nd.parents ≠ [] → IsSrcName s start) :
    IsSrcName s (s.compRow phase ta v i st n start).2 ∧
      (s.compRow phase ta v i st n start).1.domain = (s.compRow phase ta v i st n start).2 := by
  obtain ⟨d1, d2, d3, d4⟩ := C07aux_domain_step s phase ta v i st n nd hnd start
  refine ⟨?_, d1⟩
  by_cases hk : nd.comp.kind = .source
  · rw [d2 hk]; exact ⟨n, hn, nd, hnd, hk, rfl⟩
  · by_cases hm : nd.comp.kind = .pmux
    · rw [d4 hm]
      have hpne := mux_parents_ne s hwf n nd hnd hm
      have hlen : 0 < nd.parents.length := List.length_pos_iff.mpr hpne
      have hidx : firstNonZero (nd.parents.map (vget v)) 0 < nd.parents.length := by
        rcases firstNonZero_bound (nd.parents.map (vget v)) 0 with h | ⟨_, h⟩
        · rw [h]; exact hlen
        · simpa using h
      have hq := getD_mem_of_lt nd.parents _ hidx
      obtain ⟨hqt, _⟩ := parent_idx_lt s hwf n _ nd hnd hq
      have hfuel : s.topo.idxOf (nd.parents.getD (firstNonZero (nd.parents.map (vget v)) 0) 0) ≤ s.hidx :=
        le_trans (le_of_lt (List.idxOf_lt_length_of_mem hqt)) (topo_length_le s hwf)
      obtain ⟨rd, h1, h2⟩ := rootOf_spec s hwf s.hidx _ hqt hfuel
      refine ⟨_, mem_of_node s hwf _ rd h1, rd, h1, (hwf.rootSrc _ rd h1).mp h2, ?_⟩
      unfold SSys.nameOf; rw [h1]
    · rw [d3 hk hm]
      exact hstart fun e => hk ((hwf.rootSrc n nd hnd).mp e)

/-- what the table loop has established after the nodes `done` -/
structure CovInv (s : SSys α) (done : List Nat) (acc : List (Row α) × String × List (Nat × String)) : Prop where
  rows : ∀ r ∈ acc.1, IsSrcName s r.domain
  look : ∀ m ∈ done, ∃ d, acc.2.2.lookup m = some d ∧ IsSrcName s d

theorem covInv_foldl (s : SSys α) (hwf : TreeWF s) (phase : String) (ta : α) (v i : Vec α) (st : St) :
    ∀ (l done : List Nat) (acc : List (Row α) × String × List (Nat × String)),
      CovInv s done acc → (∀ n ∈ l, n ∈ s.topo) →
      (∀ (pre : List Nat) (n : Nat) (post : List Nat), l = pre ++ n :: post →
          ∀ nd p, s.node? n = some nd → p ∈ nd.parents → p ∈ done ++ pre) →
      CovInv s (done ++ l) (l.foldl (rowStep s phase ta v i st) acc) := by
  intro l
  induction l with
  | nil => intro done acc h _ _; simpa using h
  | cons n l' ih =>
    intro done acc h hmem hpar
    have hn : n ∈ s.topo := hmem n (by simp)
    obtain ⟨nd, hnd⟩ := node_of_mem s hwf n hn
    have hstep : CovInv s (done ++ [n]) (rowStep s phase ta v i st acc n) := by
      set start := (match nd.parents with
        | [] => acc.2.1
        | p :: _ => (acc.2.2.lookup p).getD acc.2.1) with hstart
      have hrs : rowStep s phase ta v i st acc n =
          (acc.1 ++ [(s.compRow phase ta v i st n start).1], (s.compRow phase ta v i st n start).2,
            (n, (s.compRow phase ta v i st n start).2) :: acc.2.2) := by
        unfold rowStep; simp only [hnd]; rfl
      have hst : nd.parents ≠ [] → IsSrcName s start := by
        intro hne
        cases hp : nd.parents with
        | nil => exact absurd hp hne
        | cons p rest =>
          have hpd : p ∈ done := by
            have := hpar [] n l' rfl nd p hnd (by rw [hp]; simp)
            simpa using this
          obtain ⟨d, hd1, hd2⟩ := h.look p hpd
          rw [hstart, hp]
          simp only [hd1, Option.getD_some]
          exact hd2
      obtain ⟨c1, c2⟩ := compRow_domain_src s hwf phase ta v i st n hn nd hnd start hst
      rw [hrs]
      refine ⟨?_, ?_⟩
      · intro r hr
        simp only [List.mem_append, List.mem_singleton] at hr
        rcases hr with hr | rfl
        · exact h.rows r hr
        · rw [c2]; exact c1
      · intro m hm
        by_cases hmn : m = n
        · subst hmn
          exact ⟨_, lookup_cons_self' _ _ _, c1⟩
        · simp only [List.mem_append, List.mem_singleton] at hm
          rcases hm with hm | hm
          · obtain ⟨d, hd1, hd2⟩ := h.look m hm
            exact ⟨d, by rw [lookup_cons_ne _ _ _ _ hmn]; exact hd1, hd2⟩
          · exact absurd hm hmn
    have := ih (done ++ [n]) (rowStep s phase ta v i st acc n) hstep
      (fun m hm => hmem m (by simp [hm]))
      (by
        intro pre m post hl nd' p hnm hp
        have := hpar (n :: pre) m post (by simp [hl]) nd' p hnm hp
        simpa [List.append_assoc] using this)
    simpa [List.append_assoc] using this

/-- **Every component row is attributed to a listed subsystem**: its Domain is the name of a Source
    that has a row of its own (well-formed tree; any vectors, no steady state needed). -/
theorem rows_domain_covered (s : SSys α) (hwf : TreeWF s) (phase : String) (ta : α) (v i : Vec α) (st : St) :
    ∀ r ∈ s.compRows phase ta v i st, r.domain ∈ srcNames (s.compRows phase ta v i st) := by
  intro r hr
  have h0 : CovInv s [] (([] : List (Row α)), "none", ([] : List (Nat × String))) :=
    ⟨fun r hr => absurd hr (by simp), fun m hm => absurd hm (by simp)⟩
  have h := covInv_foldl s hwf phase ta v i st s.topo [] _ h0 (fun n hn => hn)
    (by
      intro pre n post hl nd p hnd hp
      simpa using order_pre s hwf pre n post hl nd hnd p hp)
  rw [compRows_eq_foldl] at hr
  obtain ⟨n, hn, nd, hnd, hk, hname⟩ := h.rows r hr
  -- the row of the source `n`
  have hnum := compRows_numeric (fun r : Row α => (r.typ, r.name)) (fun _ _ => rfl) s phase ta v i st
  have hin : ((s.compRow phase ta v i st n "").1.typ, (s.compRow phase ta v i st n "").1.name)
      ∈ (s.compRows phase ta v i st).map fun r : Row α => (r.typ, r.name) := by
    rw [hnum]; exact List.mem_map.mpr ⟨n, hn, rfl⟩
  obtain ⟨r', hr', e⟩ := List.mem_map.mp hin
  simp only [Prod.mk.injEq] at e
  have ht : (s.compRow phase ta v i st n "").1.typ = "SOURCE" := by
    unfold SSys.compRow; simp only [hnd, hk]; rfl
  have hnm : (s.compRow phase ta v i st n "").1.name = nd.comp.name := by
    unfold SSys.compRow; simp only [hnd]
  have ht' : (r'.typ == "SOURCE") = true := by rw [e.1, ht]; rfl
  unfold srcNames
  rw [List.mem_eraseDups]
  refine List.mem_map.mpr ⟨r', List.mem_filter.mpr ⟨hr', ht'⟩, ?_⟩
  rw [srcRow_domain s hwf phase ta v i st r' hr' ht', e.2, hnm, hname]

/-- **System total Loss = Σ of all component Loss cells** (well-formed tree; any vectors). -/
theorem total_loss_eq_sum (s : SSys α) (hwf : TreeWF s) (phase : String) (ta : α) (v i : Vec α) (st : St) :
    (s.phaseTable phase ta v i st).total.loss = some ((s.compRows phase ta v i st).map rL).sum := by
  rw [(total_cells s phase ta v i st).2]
  congr 2
  apply List.map_congr_left
  intro r hr
  rw [if_pos (rows_domain_covered s hwf phase ta v i st r hr)]

/-- **System total: Power − Loss = Σ Power of the loads** — the total efficiency `100·(P − L)/P` is the
    share of the source power that the loads report as Power (hypotheses of (2)). -/
theorem total_pwr_sub_loss_partial (s : SSys α) (hwf : TreeWF s) (hnames : SrcNamesDistinct s) (hok : CompsOK s)
    (phase : String) (hpv : ∀ n nd, s.node? n = some nd → PhaseValOK (nd.pconf.ctx phase))
    (ta : α) (v i : Vec α) (st : St) (hst : Steady s phase v i st) :
    ∃ P L, (s.phaseTable phase ta v i st).total.pwr = some P ∧
      (s.phaseTable phase ta v i st).total.loss = some L ∧
      P - L = (((s.compRows phase ta v i st).filter (·.typ == "LOAD")).map rP).sum := by
  have hbal := table_balance_mux_partial s hwf hok phase hpv ta v i st hst
  simp only at hbal
  refine ⟨_, _, total_pwr_eq_sources s hwf hnames phase ta v i st, total_loss_eq_sum s hwf phase ta v i st, ?_⟩
  rw [hbal, sum_split (s.compRows phase ta v i st) (·.typ == "LOAD") rL, List.sum_map_add]
  have e : (((s.compRows phase ta v i st).filter fun x => !(x.typ == "LOAD")).map rL)
      = (((s.compRows phase ta v i st).filter (·.typ != "LOAD")).map rL) := rfl
  rw [e]
  ring

/-! ### 7. one subsystem -/

/-- all component names are distinct (what `System` enforces) -/
def NamesDistinct (s : SSys α) : Prop :=
  ∀ n m nd md, s.node? n = some nd → s.node? m = some md → nd.comp.name = md.comp.name → n = m

theorem NamesDistinct.src {s : SSys α} (h : NamesDistinct s) : SrcNamesDistinct s :=
  fun n m nd md hn hm _ _ e => h n m nd md hn hm e

theorem tableWF_of (s : SSys α) (hwf : TreeWF s) (hnames : NamesDistinct s) : C16R.TableWF s where
  names := hnames
  nodup := hwf.nodup
  order := by
    intro pre n post hl nd p rest hnd hp
    exact order_pre s hwf pre n post hl nd hnd p (by rw [hp]; simp)
  roots := fun n nd hnd hp => (hwf.rootSrc n nd hnd).mp hp

/-- the first-parent path from `n` up to its root passes no PMux (`n` included) -/
inductive Plain (s : SSys α) : Nat → Prop
  | root (n : Nat) (nd : SNode α) : s.node? n = some nd → nd.parents = [] → Plain s n
  | step (n : Nat) (nd : SNode α) (p : Nat) (rest : List Nat) : s.node? n = some nd → nd.parents = p :: rest →
      nd.comp.kind ≠ .pmux → Plain s p → Plain s n

/-- no PMux above a PMux: above every input of a PMux the supply path is mux-free -/
def MuxInputsPlain (s : SSys α) : Prop :=
  ∀ n nd, s.node? n = some nd → nd.comp.kind = .pmux → ∀ p ∈ nd.parents, Plain s p

/-- at most one PMux (`add_comp` / `change_comp`: "a system can only have one PMux") -/
def OneMux (s : SSys α) : Prop :=
  ∀ n m nd md, s.node? n = some nd → s.node? m = some md → nd.comp.kind = .pmux → md.comp.kind = .pmux → n = m

/-- with at most one PMux there is no PMux above a PMux -/
theorem muxInputsPlain_of_oneMux (s : SSys α) (hwf : TreeWF s) (h1 : OneMux s) : MuxInputsPlain s := by
  intro n nd hnd hk p hp
  have key : ∀ k q, q ∈ s.topo → s.topo.idxOf q ≤ k → s.topo.idxOf q < s.topo.idxOf n → Plain s q := by
    intro k
    induction k with
    | zero =>
      intro q hq hle _
      obtain ⟨qd, hqd⟩ := node_of_mem s hwf q hq
      cases hpp : qd.parents with
      | nil => exact Plain.root q qd hqd hpp
      | cons p' rest =>
        have := (parent_idx_lt s hwf q p' qd hqd (by rw [hpp]; simp)).2
        omega
    | succ k ih =>
      intro q hq hle hlt
      obtain ⟨qd, hqd⟩ := node_of_mem s hwf q hq
      cases hpp : qd.parents with
      | nil => exact Plain.root q qd hqd hpp
      | cons p' rest =>
        obtain ⟨hpt', hlt'⟩ := parent_idx_lt s hwf q p' qd hqd (by rw [hpp]; simp)
        have hqk : qd.comp.kind ≠ .pmux := by
          intro e
          have := h1 q n qd nd hqd hnd e hk
          subst this
          omega
        exact Plain.step q qd p' rest hqd hpp hqk (ih p' hpt' (by omega) (by omega))
  obtain ⟨hpt, hlt⟩ := parent_idx_lt s hwf n p nd hnd hp
  exact key _ p hpt (le_refl _) hlt

/-- a domain assignment that the table loop realises: `D n` is what `compRow` hands on for `n` when started
    from the domain of `n`'s first parent -/
def DomSpec (s : SSys α) (phase : String) (ta : α) (v i : Vec α) (st : St) (D : Nat → String) : Prop :=
  ∀ n ∈ s.topo, D n = (s.compRow phase ta v i st n (C16R.startD s D n)).2

theorem startD_cons (s : SSys α) (D : Nat → String) (n : Nat) (nd : SNode α) (hnd : s.node? n = some nd)
    (p : Nat) (rest : List Nat) (hp : nd.parents = p :: rest) : C16R.startD s D n = D p := by
  unfold C16R.startD; simp only [hnd, hp]

/-- below a mux-free path the domain is the name of the root -/
theorem D_plain (s : SSys α) (hwf : TreeWF s) (phase : String) (ta : α) (v i : Vec α) (st : St)
    (D : Nat → String) (hD : DomSpec s phase ta v i st D) (p : Nat) (hpl : Plain s p) :
    p ∈ s.topo → ∀ fuel, s.topo.idxOf p ≤ fuel → D p = s.nameOf (s.rootOf fuel p) := by
  induction hpl with
  | root n nd hnd hp =>
    intro hn fuel _
    have hk := (hwf.rootSrc n nd hnd).mp hp
    have hr : s.rootOf fuel n = n := by
      cases fuel with
      | zero => rfl
      | succ f => simp only [SSys.rootOf, hnd, hp]
    rw [hr, hD n hn, (C07aux_domain_step s phase ta v i st n nd hnd _).2.1 hk]
    unfold SSys.nameOf; rw [hnd]
  | step n nd p rest hnd hp hk _ ih =>
    intro hn fuel hle
    obtain ⟨hpt, hlt⟩ := parent_idx_lt s hwf n p nd hnd (by rw [hp]; simp)
    have hns : nd.comp.kind ≠ .source := by
      intro e
      have := (hwf.rootSrc n nd hnd).mpr e
      rw [hp] at this; cases this
    cases fuel with
    | zero => omega
    | succ f =>
      have hr : s.rootOf (f + 1) n = s.rootOf f p := by simp only [SSys.rootOf, hnd, hp]
      rw [hr, hD n hn, (C07aux_domain_step s phase ta v i st n nd hnd _).2.2.1 hns hk,
        startD_cons s D n nd hnd p rest hp]
      exact ih hpt f (by omega)

/-- with off-flags only on 0 V inputs, the input a mux selects is its first input at non-zero voltage -/
theorem firstNonZero_eq_pri (v : Vec α) (st : St) (hflag : ∀ n, sget st n = true → vget v n = 0) :
    ∀ (pp : List Nat) (k0 k : Nat), priInpAux (pp.map (sget st)) (pp.map (vget v)) k0 = some k →
      firstNonZero (pp.map (vget v)) k0 = k := by
  intro pp
  induction pp with
  | nil => intro k0 k h; simp [priInpAux] at h
  | cons a rest ih =>
    intro k0 k h
    simp only [List.map_cons, priInpAux] at h
    simp only [List.map_cons, firstNonZero]
    by_cases hc : (!sget st a && !isZ (vget v a)) = true
    · simp only [hc, if_true, Option.some.injEq] at h
      simp only [Bool.and_eq_true] at hc
      simp only [hc.2, if_true]
      exact h
    · simp only [hc, Bool.false_eq_true, if_false] at h
      have hz : isZ (vget v a) = true := by
        cases ho : sget st a with
        | true => exact (isZ_iff _).mpr (hflag a ho)
        | false =>
          cases hz : isZ (vget v a) with
          | true => rfl
          | false => simp [ho, hz] at hc
      simp only [hz, Bool.not_true, Bool.false_eq_true, if_false]
      cases rest with
      | nil => simp [priInpAux] at h
      | cons b rest' => exact ih (k0 + 1) k h

/-- **A node has the Domain of its feeder** (steady state, no mux above a mux). -/
theorem D_feeder (s : SSys α) (hwf : TreeWF s) (hmp : MuxInputsPlain s) (phase : String) (ta : α) (v i : Vec α)
    (st : St) (hflag : ∀ n, sget st n = true → vget v n = 0)
    (D : Nat → String) (hD : DomSpec s phase ta v i st D) (c p : Nat) (hc : c ∈ s.topo)
    (hf : feederM s v st c = some p) : D c = D p := by
  obtain ⟨cd, hcd⟩ := node_of_mem s hwf c hc
  obtain ⟨_, d2, d3, d4⟩ := C07aux_domain_step s phase ta v i st c cd hcd (C16R.startD s D c)
  by_cases hk : cd.comp.kind = .pmux
  · rw [feederM_mux s v st c cd hcd hk] at hf
    cases hsel : priInpAux (cd.parents.map (sget st)) (cd.parents.map (vget v)) 0 with
    | none => rw [hsel] at hf; cases hf
    | some k =>
      rw [hsel] at hf
      simp only [Option.map_some, Option.some.injEq] at hf
      obtain ⟨h1, _, _, _⟩ := pri_some_spec _ _ k hsel
      rw [List.length_map] at h1
      have hpin : p ∈ cd.parents := by rw [← hf]; exact getD_mem_of_lt _ _ h1
      obtain ⟨hpt, _⟩ := parent_idx_lt s hwf c p cd hcd hpin
      have hfuel : s.topo.idxOf p ≤ s.hidx :=
        le_trans (le_of_lt (List.idxOf_lt_length_of_mem hpt)) (topo_length_le s hwf)
      rw [hD c hc, d4 hk, firstNonZero_eq_pri v st hflag cd.parents 0 k hsel, hf]
      exact (D_plain s hwf phase ta v i st D hD p (hmp c cd hcd hk p hpin) hpt s.hidx hfuel).symm
  · rw [feederM_nonmux s v st c cd hcd hk] at hf
    cases hp : cd.parents with
    | nil => rw [hp] at hf; cases hf
    | cons q rest =>
      rw [hp] at hf
      simp only [List.head?_cons, Option.some.injEq] at hf
      subst hf
      have hns : cd.comp.kind ≠ .source := by
        intro e
        have := (hwf.rootSrc c cd hcd).mpr e
        rw [hp] at this; cases this
      rw [hD c hc, d3 hns hk, startD_cons s D c cd hcd q rest hp]

open Finset in
/-- **Balance of one domain**: the rows attributed to `d` form a sub-forest closed under "is fed by", so
    the power of its un-fed rows equals the power delivered to its loads plus its losses. -/
theorem domain_balance (s : SSys α) (hwf : TreeWF s) (hmp : MuxInputsPlain s) (hok : CompsOK s)
    (phase : String) (ta : α) (v i : Vec α) (st : St) (hst : Steady s phase v i st) (hi : ∀ m, 0 ≤ vget i m)
    (D : Nat → String) (hD : DomSpec s phase ta v i st D) (d : String) :
    ((s.topo.filter fun n => D n == d).map fun n =>
        if feederM s v st n = none then (rowOf s phase ta v i st n).pwr else 0).sum
      = ((s.topo.filter fun n => D n == d).map fun n =>
        if isLoadB s n then (rowOf s phase ta v i st n).pwr + (rowOf s phase ta v i st n).loss
        else (rowOf s phase ta v i st n).loss).sum := by
  have hLn : (s.topo.filter fun n => D n == d).Nodup := hwf.nodup.filter _
  rw [← List.sum_toFinset _ hLn, ← List.sum_toFinset _ hLn]
  have hmemL : ∀ n, n ∈ (s.topo.filter fun n => D n == d).toFinset ↔ n ∈ s.topo ∧ D n = d := by
    intro n; simp [List.mem_filter]
  have hmem : ∀ n, n ∈ (s.topo.filter fun n => D n == d).toFinset → ∃ nd, s.node? n = some nd := fun n hn =>
    node_of_mem s hwf n ((hmemL n).mp hn).1
  have hload : ∀ n nd, s.node? n = some nd → (isLoadB s n = true ↔ nd.comp.kind.ctype = .LOAD) := by
    intro n nd h; unfold isLoadB; rw [h]; simp
  have hrow := fun n nd h => row_ok s hwf hok phase ta v i st hst hi n nd h
  have hfeedD : ∀ c p, c ∈ s.topo → feederM s v st c = some p → D c = D p := fun c p hc hf =>
    D_feeder s hwf hmp phase ta v i st hst.flag D hD c p hc hf
  have hfeedT : ∀ c p, c ∈ s.topo → feederM s v st c = some p → p ∈ s.topo := by
    intro c p hc hf
    obtain ⟨cd, hcd⟩ := node_of_mem s hwf c hc
    exact (parent_idx_lt s hwf c p cd hcd (feederM_mem s v st c p cd hcd hf)).1
  apply system_balance (s.topo.filter fun n => D n == d).toFinset (feederM s v st) ?_ (isLoadB s)
    (rowOf s phase ta v i st)
  · intro c hc p hp
    obtain ⟨cd, hcd⟩ := hmem c hc
    obtain ⟨_, _, r3, _⟩ := hrow c cd hcd
    obtain ⟨pd, hpd⟩ := Option.isSome_iff_exists.mp (hwf.parLive c cd hcd p (feederM_mem s v st c p cd hcd hp))
    rw [r3 p hp, (hrow p pd hpd).1]
  · intro n hn
    obtain ⟨nd, hnd⟩ := hmem n hn
    obtain ⟨hnt, hnD⟩ := (hmemL n).mp hn
    obtain ⟨_, _, _, _, _, r6⟩ := hrow n nd hnd
    have hk : kidsOf (s.topo.filter fun n => D n == d).toFinset (feederM s v st) n
        = kidsOf s.topo.toFinset (feederM s v st) n := by
      ext c
      simp only [kidsOf, Finset.mem_filter]
      constructor
      · rintro ⟨hc, hf⟩
        exact ⟨List.mem_toFinset.mpr ((hmemL c).mp hc).1, hf⟩
      · rintro ⟨hc, hf⟩
        have hct := List.mem_toFinset.mp hc
        exact ⟨(hmemL c).mpr ⟨hct, (hfeedD c n hct hf).trans hnD⟩, hf⟩
    rw [r6, hk, kidsM_eq s hwf v st n nd hnd, Finset.sum_filter, List.sum_toFinset _ (hwf.chNodup n nd hnd)]
    congr 1
    apply List.map_congr_left
    intro c hc
    obtain ⟨cd, hcd⟩ := Option.isSome_iff_exists.mp (hwf.chLive n nd hnd c hc)
    rw [(hrow c cd hcd).2.1]
  · intro n hn hl
    obtain ⟨nd, hnd⟩ := hmem n hn
    have hnl : nd.comp.kind.ctype ≠ .LOAD := by
      intro e; rw [(hload n nd hnd).mpr e] at hl; cases hl
    exact ((hrow n nd hnd).2.2.2.1 hnl).1
  · intro n hn hl hp
    obtain ⟨nd, hnd⟩ := hmem n hn
    have hnl : nd.comp.kind.ctype ≠ .LOAD := by
      intro e; rw [(hload n nd hnd).mpr e] at hl; cases hl
    exact ((hrow n nd hnd).2.2.2.1 hnl).2.1 hp
  · intro n hn hl
    obtain ⟨nd, hnd⟩ := hmem n hn
    exact (hrow n nd hnd).2.2.2.2.1 ((hload n nd hnd).mp hl)
  · intro c hc p hp
    obtain ⟨hct, hcD⟩ := (hmemL c).mp hc
    exact (hmemL p).mpr ⟨hfeedT c p hct hp, (hfeedD c p hct hp).symm.trans hcD⟩

/-- **(4) Every "Subsystem" row: 0 ≤ Loss ≤ Power.**  Hypotheses of (2) with all component names
    distinct, plus `MuxInputsPlain` (no PMux above a PMux; needed: `subsystem_loss_le_power_full_fails`). -/
theorem subsystem_loss_le_power_partial (s : SSys α) (hwf : TreeWF s) (hnames : NamesDistinct s)
    (hmp : MuxInputsPlain s) (hok : CompsOK s)
    (phase : String) (hpv : ∀ n nd, s.node? n = some nd → PhaseValOK (nd.pconf.ctx phase))
    (ta : α) (v i : Vec α) (st : St) (hst : Steady s phase v i st) :
    ∀ sub ∈ (s.phaseTable phase ta v i st).subs,
      ∃ P L, sub.pwr = some P ∧ sub.loss = some L ∧ 0 ≤ L ∧ L ≤ P := by
  intro sub hsub
  have hi := steady_currents_nonneg s hwf hok.phys phase hpv v i st hst.back
  obtain ⟨d, _, _, hloss, _, hpwr, _, _⟩ := subs_spec s phase ta v i st sub hsub
  have htopo : ∀ n, n ∈ s.topo ↔ ∃ nd, s.node? n = some nd := fun n =>
    (hwf.live n).trans Option.isSome_iff_exists
  obtain ⟨D, hrows, hDs⟩ := C16R.compRows_spec htopo (tableWF_of s hwf hnames) phase ta v i st
  have hD : DomSpec s phase ta v i st D := hDs
  have hbal := domain_balance s hwf hmp hok phase ta v i st hst hi D hD d
  -- the rows, one per listed node
  have hdom : ∀ n ∈ s.topo, (s.compRow phase ta v i st n (C16R.startD s D n)).1.domain = D n := by
    intro n hn
    obtain ⟨nd, hnd⟩ := node_of_mem s hwf n hn
    rw [(C07aux_domain_step s phase ta v i st n nd hnd _).1, ← hD n hn]
  have hcell : ∀ n, rP (s.compRow phase ta v i st n (C16R.startD s D n)).1 = (rowOf s phase ta v i st n).pwr ∧
      rL (s.compRow phase ta v i st n (C16R.startD s D n)).1 = (rowOf s phase ta v i st n).loss ∧
      (s.compRow phase ta v i st n (C16R.startD s D n)).1.typ = (s.compRow phase ta v i st n "").1.typ := by
    intro n
    have := domainFree_compRow (fun r : Row α => (rP r, rL r, r.typ)) (fun _ _ => rfl) s phase ta v i st n
      (C16R.startD s D n) ""
    simp only [Prod.mk.injEq] at this
    exact ⟨this.1, this.2.1, this.2.2⟩
  have hfilt : ∀ (q : Row α → Bool),
      (s.compRows phase ta v i st).filter (fun r => r.domain == d && q r)
        = ((s.topo.filter fun n => D n == d).filter fun n =>
            q (s.compRow phase ta v i st n (C16R.startD s D n)).1).map
            fun n => (s.compRow phase ta v i st n (C16R.startD s D n)).1 := by
    intro q
    rw [hrows, List.filter_map, List.filter_filter]
    congr 1
    apply List.filter_congr
    intro n hn
    simp only [Function.comp, hdom n hn, Bool.and_comm]
  -- Loss
  have hL : optSum (((s.compRows phase ta v i st).filter (·.domain == d)).map (·.loss))
      = ((s.topo.filter fun n => D n == d).map fun n => (rowOf s phase ta v i st n).loss).sum := by
    have h1 := hfilt (fun _ => true)
    simp only [Bool.and_true, List.filter_true] at h1
    rw [h1, optSum_map, List.map_map]
    congr 1
    apply List.map_congr_left
    intro n _
    exact (hcell n).2.1
  -- Power: at most one source carries the name `d`
  have hP : ((((s.compRows phase ta v i st).filter fun r => r.domain == d && r.typ == "SOURCE").head?).bind
        (·.pwr)).getD 0
      = ((s.topo.filter fun n => D n == d).map fun n =>
          if feederM s v st n = none then (rowOf s phase ta v i st n).pwr else 0).sum := by
    have hterm : ∀ n ∈ (s.topo.filter fun n => D n == d),
        (if feederM s v st n = none then (rowOf s phase ta v i st n).pwr else 0)
          = if ((s.compRow phase ta v i st n (C16R.startD s D n)).1.typ == "SOURCE") = true
              then (rowOf s phase ta v i st n).pwr else 0 := by
      intro n hn
      obtain ⟨nd, hnd⟩ := node_of_mem s hwf n (List.mem_filter.mp hn).1
      have htyp : (s.compRow phase ta v i st n "").1.typ = nd.comp.kind.ctype.name := by
        unfold SSys.compRow; simp only [hnd]
      obtain ⟨_, _, _, r4, r5, _⟩ := row_ok s hwf hok phase ta v i st hst hi n nd hnd
      rw [(hcell n).2.2, htyp, kind_name_source]
      by_cases hk : nd.comp.kind = .source
      · have hf : feederM s v st n = none := by
          rw [feederM_nonmux s v st n nd hnd (by rw [hk]; decide), (hwf.rootSrc n nd hnd).mpr hk]; rfl
        simp [hk, hf]
      · simp only [hk, decide_false, Bool.false_eq_true, if_false]
        by_cases hf : feederM s v st n = none
        · rw [if_pos hf]
          by_cases hl : nd.comp.kind.ctype = .LOAD
          · exact absurd hf (r5 hl).1
          · exact (r4 hl).2.2 hf hk
        · rw [if_neg hf]
    rw [List.map_congr_left hterm, ← sum_filter_map, hfilt (fun r => r.typ == "SOURCE")]
    generalize hS : ((s.topo.filter fun n => D n == d).filter fun n =>
      (s.compRow phase ta v i st n (C16R.startD s D n)).1.typ == "SOURCE") = S
    have hSn : S.Nodup := by rw [← hS]; exact (hwf.nodup.filter _).filter _
    have hSm : ∀ n ∈ S, ∃ nd, s.node? n = some nd ∧ nd.comp.name = d := by
      intro n hn
      rw [← hS] at hn
      obtain ⟨hn1, hn2⟩ := List.mem_filter.mp hn
      obtain ⟨hnt, hnD⟩ := List.mem_filter.mp hn1
      obtain ⟨nd, hnd⟩ := node_of_mem s hwf n hnt
      refine ⟨nd, hnd, ?_⟩
      have htyp : (s.compRow phase ta v i st n "").1.typ = nd.comp.kind.ctype.name := by
        unfold SSys.compRow; simp only [hnd]
      rw [(hcell n).2.2, htyp, kind_name_source] at hn2
      have hk : nd.comp.kind = .source := by simpa using hn2
      have e := hD n hnt
      rw [(C07aux_domain_step s phase ta v i st n nd hnd _).2.1 hk] at e
      rw [← e]; simpa using hnD
    match S, hSn, hSm with
    | [], _, _ => simp
    | [a], _, _ =>
      simp only [List.map_cons, List.map_nil, List.head?_cons, Option.bind_some, List.sum_cons, List.sum_nil,
        add_zero]
      exact (hcell a).1
    | a :: b :: rest, hSn, hSm =>
      exfalso
      obtain ⟨ad, had, hna⟩ := hSm a (by simp)
      obtain ⟨bd, hbd, hnb⟩ := hSm b (by simp)
      have : a = b := hnames a b ad bd had hbd (hna.trans hnb.symm)
      simp [this] at hSn
  refine ⟨_, _, hpwr, hloss, ?_, ?_⟩
  · rw [hL]
    apply List.sum_nonneg
    intro y hy
    obtain ⟨n, hn, rfl⟩ := List.mem_map.mp hy
    obtain ⟨nd, hnd⟩ := node_of_mem s hwf n (List.mem_filter.mp hn).1
    exact (rowOf_nonneg s hwf hok.phys phase ta v i st hst hi n nd hnd).2
  · rw [hL, hP, hbal]
    apply List.sum_le_sum
    intro n hn
    obtain ⟨nd, hnd⟩ := node_of_mem s hwf n (List.mem_filter.mp hn).1
    have := (rowOf_nonneg s hwf hok.phys phase ta v i st hst hi n nd hnd).1
    split_ifs
    · linarith
    · exact le_refl _

/-- (4) for systems with at most one PMux — every system `System` can build -/
theorem subsystem_loss_le_power_oneMux_partial (s : SSys α) (hwf : TreeWF s) (hnames : NamesDistinct s)
    (h1 : OneMux s) (hok : CompsOK s)
    (phase : String) (hpv : ∀ n nd, s.node? n = some nd → PhaseValOK (nd.pconf.ctx phase))
    (ta : α) (v i : Vec α) (st : St) (hst : Steady s phase v i st) :
    ∀ sub ∈ (s.phaseTable phase ta v i st).subs,
      ∃ P L, sub.pwr = some P ∧ sub.loss = some L ∧ 0 ≤ L ∧ L ≤ P :=
  subsystem_loss_le_power_partial s hwf hnames (muxInputsPlain_of_oneMux s hwf h1) hok phase hpv ta v i st hst

/-- **(4′) Every "Subsystem" row: efficiency within [0, 100]** (hypotheses of (4)). -/
theorem subsystem_eff_le_100_partial (s : SSys α) (hwf : TreeWF s) (hnames : NamesDistinct s)
    (hmp : MuxInputsPlain s) (hok : CompsOK s)
    (phase : String) (hpv : ∀ n nd, s.node? n = some nd → PhaseValOK (nd.pconf.ctx phase))
    (ta : α) (v i : Vec α) (st : St) (hst : Steady s phase v i st) :
    ∀ sub ∈ (s.phaseTable phase ta v i st).subs, ∃ e, sub.eff = some e ∧ 0 ≤ e ∧ e ≤ 100 := by
  intro sub hsub
  obtain ⟨P, L, hP, hL, h0, h1⟩ :=
    subsystem_loss_le_power_partial s hwf hnames hmp hok phase hpv ta v i st hst sub hsub
  obtain ⟨d, _, _, _, _, _, heff, _⟩ := subs_spec s phase ta v i st sub hsub
  refine ⟨_, heff P L hP hL, ?_, total_eff_le_100 P L h0 h1⟩
  unfold getEff
  split_ifs
  · rw [nabs_eq_abs]; exact mul_nonneg (by norm_num) (abs_nonneg _)
  · norm_num

/-! ### 5. energies of the multi-phase table -/

/-- energy cell of a phase row: power × 24 h × the phase's share of the cycle (an unknown phase has
    duration 0, as in `_calc_energy`) -/
theorem energy_cell (phases : List (String × α)) (ph : String) (hph : ph ≠ "") (p : α)
    (htot : (phases.map (·.2)).sum ≠ 0) :
    calcEnergy phases ph p = p * 24 * ((phases.lookup ph).getD 0 / (phases.map (·.2)).sum) := by
  unfold calcEnergy
  have h1 : (ph == "") = false := by simpa using hph
  simp only [h1, Bool.false_eq_true, if_false, sumL_eq_sum]
  field_simp

/-- the energy cells of any family of phase rows add up to 24 h × the duration-weighted power -/
theorem energies_sum {β : Type} (phases : List (String × α)) (htot : (phases.map (·.2)).sum ≠ 0)
    (l : List β) (name : β → String) (hne : ∀ x ∈ l, name x ≠ "") (P : β → α) :
    (l.map fun x => calcEnergy phases (name x) (P x)).sum
      = 24 * ((l.map fun x => P x * (phases.lookup (name x)).getD 0).sum / (phases.map (·.2)).sum) := by
  have h : ∀ x ∈ l, calcEnergy phases (name x) (P x)
      = (P x * (phases.lookup (name x)).getD 0) * (24 / (phases.map (·.2)).sum) := by
    intro x hx
    rw [energy_cell phases (name x) (hne x hx) (P x) htot]
    ring
  rw [List.map_congr_left h, List.sum_map_mul_right]
  field_simp

/-- the `k`-th component row of a phase table: name, Power and energy cells -/
theorem compRows_get (s : SSys α) (hlive : ∀ n ∈ s.topo, ∃ nd, s.node? n = some nd)
    (phase : String) (ta : α) (v i : Vec α) (st : St) (k : Nat) (hk : k < s.topo.length) :
    ∃ r p, (s.compRows phase ta v i st)[k]? = some r ∧ r.name = s.nameOf s.topo[k] ∧ r.pwr = some p ∧
      r.ener = some (calcEnergy s.phases phase p) := by
  have hnum := compRows_numeric (fun r : Row α => (r.name, r.pwr, r.ener)) (fun _ _ => rfl) s phase ta v i st
  have hget := congrArg (fun l => l[k]?) hnum
  simp only [List.getElem?_map, List.getElem?_eq_getElem hk, Option.map_some] at hget
  obtain ⟨nd, hnd⟩ := hlive s.topo[k] (List.getElem_mem hk)
  cases hr : (s.compRows phase ta v i st)[k]? with
  | none => rw [hr] at hget; cases hget
  | some r =>
    rw [hr] at hget
    simp only [Option.map_some, Option.some.injEq, Prod.mk.injEq] at hget
    obtain ⟨g1, g2, g3⟩ := hget
    have hc : ∃ p, (s.compRow phase ta v i st s.topo[k] "").1.pwr = some p ∧
        (s.compRow phase ta v i st s.topo[k] "").1.ener = some (calcEnergy s.phases phase p) := by
      unfold SSys.compRow; simp only [hnd]; exact ⟨_, rfl, rfl⟩
    obtain ⟨p, c1, c2⟩ := hc
    refine ⟨r, p, rfl, ?_, g2.trans c1, g3.trans c2⟩
    rw [g1]; unfold SSys.compRow SSys.nameOf; simp only [hnd]

/-- **(5) Per-phase energies of a component add up to the energy of its average power.**
    In the table `assemble`d from the per-phase solver outputs `outs` (every one under a phase name),
    the `k`-th component row of every phase is the row of the same component `_topo_nodes[k]`, its energy
    cell is `_calc_energy(phase, Power)`, and over the phases the energy cells add up to
    `24 h × Σ_p Power_p · d_p / Σ d` — `d_p` the duration of phase `p`, `Σ d` the length of the cycle. -/
theorem table_energies_add_up (s : SSys α) (hlive : ∀ n ∈ s.topo, ∃ nd, s.node? n = some nd) (ta : α)
    (outs : List (String × Vec α × Vec α × St)) (hne : ∀ o ∈ outs, o.1 ≠ "")
    (htot : (s.phases.map (·.2)).sum ≠ 0) (k : Nat) (hk : k < s.topo.length) :
    let tabs := (s.assemble ta outs).phases
    let cell := fun (f : Row α → Option α) (pt : String × PhaseTable α) => ((pt.2.comps[k]?).bind f).getD 0
    (∀ pt ∈ tabs, ∃ r p, pt.2.comps[k]? = some r ∧ r.name = s.nameOf s.topo[k] ∧ r.pwr = some p ∧
        r.ener = some (calcEnergy s.phases pt.1 p)) ∧
    (tabs.map (cell (·.ener))).sum
      = calcEnergy s.phases ""
          ((tabs.map fun pt => cell (·.pwr) pt * (s.phases.lookup pt.1).getD 0).sum / (s.phases.map (·.2)).sum) := by
  intro tabs cell
  have htabs : ∀ pt ∈ tabs, pt.1 ≠ "" ∧ ∃ r p, pt.2.comps[k]? = some r ∧ r.name = s.nameOf s.topo[k] ∧
      r.pwr = some p ∧ r.ener = some (calcEnergy s.phases pt.1 p) := by
    intro pt hpt
    have hpt' : pt ∈ outs.map fun (ph, v, i, st) => (ph, s.phaseTable ph ta v i st) := hpt
    obtain ⟨o, ho, rfl⟩ := List.mem_map.mp hpt'
    obtain ⟨ph, v, i, st⟩ := o
    exact ⟨hne _ ho, compRows_get s hlive ph ta v i st k hk⟩
  refine ⟨fun pt hpt => (htabs pt hpt).2, ?_⟩
  rw [energy_nophase, mul_comm _ (24 : α), ← energies_sum s.phases htot tabs (·.1) (fun pt hpt => (htabs pt hpt).1)]
  congr 1
  apply List.map_congr_left
  intro pt hpt
  obtain ⟨_, r, p, e1, _, e2, e3⟩ := htabs pt hpt
  simp only [cell, e1, Option.bind_some, e2, e3, Option.getD_some]

theorem zipWith_map_right' {β γ δ : Type} (f : β → γ → δ) (g : β → γ) (l : List β) :
    List.zipWith f l (l.map g) = l.map fun x => f x (g x) := by
  induction l with
  | nil => rfl
  | cons a l ih => simp [ih]

/-- **(5′) The "System average" row closes the energy column.**  When the table holds all the phases of
    the system (`solve()` without a `phase` argument: one output per declared phase, in order; phase
    names distinct and non-empty; cycle length ≠ 0; at least two phases), the "System average" row exists
    and its energy cell — `24 h ×` the duration-weighted mean of the per-phase total Power — is the sum
    of the energy cells of the per-phase "System total" rows. -/
theorem table_total_energies_add_up (s : SSys α) (ta : α) (outs : List (String × Vec α × Vec α × St))
    (hphases : outs.map (·.1) = s.phases.map (·.1)) (hn : (s.phases.map (·.1)).Nodup)
    (hne : ∀ pd ∈ s.phases, pd.1 ≠ "") (htot : (s.phases.map (·.2)).sum ≠ 0) (hlen : 1 < outs.length) :
    ∃ a, (s.assemble ta outs).avg = some a ∧ a.name = "System average" ∧
      a.ener = some (((s.assemble ta outs).phases.map fun pt => pt.2.total.ener.getD 0).sum) := by
  have havg : (s.assemble ta outs).avg = some (averageRow s.phases (s.assemble ta outs).phases) := by
    unfold SSys.assemble; simp only [hlen, if_true]
  refine ⟨_, havg, rfl, ?_⟩
  generalize htabs : (s.assemble ta outs).phases = tabs
  have hnames : tabs.map (·.1) = s.phases.map (·.1) := by
    rw [← htabs, ← hphases]
    unfold SSys.assemble
    simp only [List.map_map]
    apply List.map_congr_left
    intro o _
    obtain ⟨ph, v, i, st⟩ := o
    rfl
  have hts : (tabs.map fun pt => (s.phases.lookup pt.1).getD 0) = s.phases.map (·.2) := by
    have : (tabs.map fun pt => (s.phases.lookup pt.1).getD 0)
        = (tabs.map (·.1)).map fun nm => (s.phases.lookup nm).getD 0 := by rw [List.map_map]; rfl
    rw [this, hnames, List.map_map]
    apply List.map_congr_left
    intro pd hpd
    simp only [Function.comp, lookup_self_of_nodup s.phases hn pd hpd, Option.getD_some]
  have hne' : ∀ pt ∈ tabs, pt.1 ≠ "" := by
    intro pt hpt
    have : pt.1 ∈ s.phases.map (·.1) := by rw [← hnames]; exact List.mem_map_of_mem hpt
    obtain ⟨pd, hpd, e⟩ := List.mem_map.mp this
    rw [← e]; exact hne pd hpd
  have hen : ∀ pt ∈ tabs, pt.2.total.ener.getD 0 = calcEnergy s.phases pt.1 (pt.2.total.pwr.getD 0) := by
    intro pt hpt
    rw [← htabs] at hpt
    have hpt' : pt ∈ outs.map fun (ph, v, i, st) => (ph, s.phaseTable ph ta v i st) := hpt
    obtain ⟨o, ho, rfl⟩ := List.mem_map.mp hpt'
    obtain ⟨ph, v, i, st⟩ := o
    rfl
  rw [List.map_congr_left hen, energies_sum s.phases htot tabs (·.1) hne' (fun pt => pt.2.total.pwr.getD 0)]
  unfold averageRow
  simp only [sumL_eq_sum, energy_nophase, zipWith_map_right']
  rw [hts]
  congr 1
  ring

/-! ### non-vacuity: the examples of Props/C02Table -/

theorem tbNames : SrcNamesDistinct tbSys := by
  intro n m nd md hn hm kn km _
  rcases tbNodes n nd hn with ⟨rfl, rfl⟩ | ⟨rfl, rfl⟩ | ⟨rfl, rfl⟩ | ⟨rfl, rfl⟩ <;>
    rcases tbNodes m md hm with ⟨rfl, rfl⟩ | ⟨rfl, rfl⟩ | ⟨rfl, rfl⟩ | ⟨rfl, rfl⟩ <;>
    simp [tbN0, tbN1, tbN2, tbN3, tbSrc, tbRes, tbL1, tbL2] at kn km ⊢

theorem mxNames : SrcNamesDistinct mxSys := by
  intro n m nd md hn hm kn km hnm
  rcases mxNodes n nd hn with ⟨rfl, rfl⟩ | ⟨rfl, rfl⟩ | ⟨rfl, rfl⟩ | ⟨rfl, rfl⟩ <;>
    rcases mxNodes m md hm with ⟨rfl, rfl⟩ | ⟨rfl, rfl⟩ | ⟨rfl, rfl⟩ | ⟨rfl, rfl⟩ <;>
    simp [mxN0, mxN1, mxN2, mxN3, mxS1, mxS2, mxMx, mxLd] at kn km hnm ⊢

/-- Source(10 V, 1 Ω) → { RLoss(1 Ω) → ILoad(1 A), ILoad(2 A) }: every hypothesis of (1)–(3) holds … -/
example : ∀ r ∈ tbSys.compRows "" 25 tbV tbI tbSt, ∃ P L, r.pwr = some P ∧ r.loss = some L ∧ 0 ≤ P ∧ 0 ≤ L :=
  rows_loss_nonneg tbSys tbWF tbOK.phys "" tbPV 25 tbV tbI tbSt tbSteady

example : ∃ P L, (tbSys.phaseTable "" 25 tbV tbI tbSt).total.pwr = some P ∧
    (tbSys.phaseTable "" 25 tbV tbI tbSt).total.loss = some L ∧ 0 ≤ L ∧ L ≤ P :=
  total_loss_le_power_partial tbSys tbWF tbNames tbOK "" tbPV 25 tbV tbI tbSt tbSteady

example : ∃ e, (tbSys.phaseTable "" 25 tbV tbI tbSt).total.eff = some e ∧ 0 ≤ e ∧ e ≤ 100 :=
  total_eff_le_100_table_partial tbSys tbWF tbNames tbOK "" tbPV 25 tbV tbI tbSt tbSteady

/-- … and the total row reads Power 30 W, Loss 10 W (9 W in the source, 1 W in the resistor), 66.7 % -/
example : (tbSys.phaseTable "" 25 tbV tbI tbSt).total.pwr = some 30 ∧
    (tbSys.phaseTable "" 25 tbV tbI tbSt).total.loss = some 10 ∧
    (tbSys.phaseTable "" 25 tbV tbI tbSt).total.eff = some (200 / 3) := by
  decide +kernel

example : (tbSys.phaseTable "" 25 tbV tbI tbSt).total.loss
    = some ((tbSys.compRows "" 25 tbV tbI tbSt).map rL).sum :=
  total_loss_eq_sum tbSys tbWF "" 25 tbV tbI tbSt

example : ∃ P L, (tbSys.phaseTable "" 25 tbV tbI tbSt).total.pwr = some P ∧
    (tbSys.phaseTable "" 25 tbV tbI tbSt).total.loss = some L ∧
    P - L = (((tbSys.compRows "" 25 tbV tbI tbSt).filter (·.typ == "LOAD")).map rP).sum :=
  total_pwr_sub_loss_partial tbSys tbWF tbNames tbOK "" tbPV 25 tbV tbI tbSt tbSteady

/-- the loads report 6 W + 14 W = 30 W − 10 W -/
example : (((tbSys.compRows "" 25 tbV tbI tbSt).filter (·.typ == "LOAD")).map rP) = [6, 14] := by
  decide +kernel

/-- two sources and a mux: Source(10 V), Source(5 V) → PMux(1 Ω) → ILoad(2 A); total 20 W, 4 W, 80 % -/
example : ∀ r ∈ mxSys.compRows "" 25 mxV mxI mxSt, r.domain ∈ srcNames (mxSys.compRows "" 25 mxV mxI mxSt) :=
  rows_domain_covered mxSys mxWF "" 25 mxV mxI mxSt

example : (mxSys.compRows "" 25 mxV mxI mxSt).map (fun r => (r.name, r.domain))
    = [("S2", "S2"), ("S1", "S1"), ("M", "S1"), ("L", "S1")] := by
  decide +kernel

example : ∃ e, (mxSys.phaseTable "" 25 mxV mxI mxSt).total.eff = some e ∧ 0 ≤ e ∧ e ≤ 100 :=
  total_eff_le_100_table_partial mxSys mxWF mxNames mxOK "" mxPV 25 mxV mxI mxSt mxSteady

example : (mxSys.phaseTable "" 25 mxV mxI mxSt).total.pwr = some 20 ∧
    (mxSys.phaseTable "" 25 mxV mxI mxSt).total.loss = some 4 ∧
    (mxSys.phaseTable "" 25 mxV mxI mxSt).total.eff = some 80 ∧
    (mxSys.phaseTable "" 25 mxV mxI mxSt).subs.map (·.name) = ["Subsystem S2", "Subsystem S1"] := by
  decide +kernel

/-! ### non-vacuity of (4): the two-source mux example (its inputs are roots) -/

theorem mxAllNames : NamesDistinct mxSys := by
  intro n m nd md hn hm hnm
  rcases mxNodes n nd hn with ⟨rfl, rfl⟩ | ⟨rfl, rfl⟩ | ⟨rfl, rfl⟩ | ⟨rfl, rfl⟩ <;>
    rcases mxNodes m md hm with ⟨rfl, rfl⟩ | ⟨rfl, rfl⟩ | ⟨rfl, rfl⟩ | ⟨rfl, rfl⟩ <;>
    simp [mxN0, mxN1, mxN2, mxN3, mxS1, mxS2, mxMx, mxLd] at hnm ⊢

theorem mxPlain : MuxInputsPlain mxSys := by
  intro n nd hn hk p hp
  rcases mxNodes n nd hn with ⟨rfl, rfl⟩ | ⟨rfl, rfl⟩ | ⟨rfl, rfl⟩ | ⟨rfl, rfl⟩ <;>
    simp [mxN0, mxN1, mxN2, mxN3, mxS1, mxS2, mxMx, mxLd] at hk hp
  rcases hp with rfl | rfl
  · exact Plain.root 0 mxN0 rfl rfl
  · exact Plain.root 1 mxN1 rfl rfl

theorem mxOneMux : OneMux mxSys := by
  intro n m nd md hn hm kn km
  rcases mxNodes n nd hn with ⟨rfl, rfl⟩ | ⟨rfl, rfl⟩ | ⟨rfl, rfl⟩ | ⟨rfl, rfl⟩ <;>
    rcases mxNodes m md hm with ⟨rfl, rfl⟩ | ⟨rfl, rfl⟩ | ⟨rfl, rfl⟩ | ⟨rfl, rfl⟩ <;>
    simp [mxN0, mxN1, mxN2, mxN3, mxS1, mxS2, mxMx, mxLd] at kn km ⊢

example : MuxInputsPlain mxSys := muxInputsPlain_of_oneMux mxSys mxWF mxOneMux

example : ∀ sub ∈ (mxSys.phaseTable "" 25 mxV mxI mxSt).subs,
    ∃ P L, sub.pwr = some P ∧ sub.loss = some L ∧ 0 ≤ L ∧ L ≤ P :=
  subsystem_loss_le_power_oneMux_partial mxSys mxWF mxAllNames mxOneMux mxOK "" mxPV 25 mxV mxI mxSt mxSteady

example : ∀ sub ∈ (mxSys.phaseTable "" 25 mxV mxI mxSt).subs,
    ∃ P L, sub.pwr = some P ∧ sub.loss = some L ∧ 0 ≤ L ∧ L ≤ P :=
  subsystem_loss_le_power_partial mxSys mxWF mxAllNames mxPlain mxOK "" mxPV 25 mxV mxI mxSt mxSteady

example : ∀ sub ∈ (mxSys.phaseTable "" 25 mxV mxI mxSt).subs, ∃ e, sub.eff = some e ∧ 0 ≤ e ∧ e ≤ 100 :=
  subsystem_eff_le_100_partial mxSys mxWF mxAllNames mxPlain mxOK "" mxPV 25 mxV mxI mxSt mxSteady

/-- "Subsystem S2" (idle 5 V source): 0 W, 0 W, 100 %; "Subsystem S1": 20 W, 4 W, 80 % -/
example : (mxSys.phaseTable "" 25 mxV mxI mxSt).subs.map (fun r => (r.name, r.pwr, r.loss, r.eff))
    = [("Subsystem S2", some 0, some 0, some 100), ("Subsystem S1", some 20, some 4, some 80)] := by
  decide +kernel

/-! ### non-vacuity of (5), (5′): the same tree with two phases "a" (1 s) and "b" (3 s) -/

def enSys : SSys ℚ := { tbSys with phases := [("a", 1), ("b", 3)] }
def enOuts : List (String × Vec ℚ × Vec ℚ × St) := [("a", tbV, tbI, tbSt), ("b", tbV, tbI, tbSt)]

theorem enLive : ∀ n ∈ enSys.topo, ∃ nd, enSys.node? n = some nd := by
  intro n hn
  have : n = 0 ∨ n = 1 ∨ n = 2 ∨ n = 3 := by simpa [enSys, tbSys] using hn
  rcases this with rfl | rfl | rfl | rfl <;> exact ⟨_, rfl⟩

theorem enNe : ∀ pd ∈ enSys.phases, pd.1 ≠ "" := by
  intro pd hpd
  have : pd = ("a", 1) ∨ pd = ("b", 3) := by simpa [enSys] using hpd
  rcases this with rfl | rfl <;> decide

example :
    let tabs := (enSys.assemble 25 enOuts).phases
    let cell := fun (f : Row ℚ → Option ℚ) (pt : String × PhaseTable ℚ) => ((pt.2.comps[0]?).bind f).getD 0
    (∀ pt ∈ tabs, ∃ r p, pt.2.comps[0]? = some r ∧ r.name = enSys.nameOf enSys.topo[0] ∧ r.pwr = some p ∧
        r.ener = some (calcEnergy enSys.phases pt.1 p)) ∧
    (tabs.map (cell (·.ener))).sum
      = calcEnergy enSys.phases ""
          ((tabs.map fun pt => cell (·.pwr) pt * (enSys.phases.lookup pt.1).getD 0).sum
            / (enSys.phases.map (·.2)).sum) :=
  table_energies_add_up enSys enLive 25 enOuts (by decide) (by decide +kernel) 0 (by decide)

example : ∃ a, (enSys.assemble 25 enOuts).avg = some a ∧ a.name = "System average" ∧
    a.ener = some (((enSys.assemble 25 enOuts).phases.map fun pt => pt.2.total.ener.getD 0).sum) :=
  table_total_energies_add_up enSys 25 enOuts (by decide) (by decide) enNe (by decide +kernel) (by decide)

/-- the Source row: 30 W in both phases, 180 Wh + 540 Wh = 720 Wh = 24 h × 30 W; so do the total rows,
    and the "System average" row reports 720 Wh -/
example :
    ((enSys.assemble 25 enOuts).phases.map fun pt => ((pt.2.comps[0]?).bind (·.ener)).getD 0) = [180, 540] ∧
    ((enSys.assemble 25 enOuts).phases.map fun pt => pt.2.total.ener.getD 0) = [180, 540] ∧
    ((enSys.assemble 25 enOuts).avg.bind (·.ener)) = some 720 := by
  decide +kernel

/-! ### the exclusion of the 0 V Converter is needed -/

/-- (2) without the exclusions of `CompsOK` (accepted parameters only) -/
def total_loss_le_power_full : Prop :=
  ∀ (s : SSys ℚ), TreeWF s → SrcNamesDistinct s → (∀ n nd, s.node? n = some nd → nd.comp.Phys) →
    ∀ (phase : String), (∀ n nd, s.node? n = some nd → PhaseValOK (nd.pconf.ctx phase)) →
    ∀ (ta : ℚ) (v i : Vec ℚ) (st : St), Steady s phase v i st →
      ∃ P L, (s.phaseTable phase ta v i st).total.pwr = some P ∧
        (s.phaseTable phase ta v i st).total.loss = some L ∧ 0 ≤ L ∧ L ≤ P

/-- `Source(5 V) → Converter(vo = 0, iq = 0.1 A)`: the constructor accepts the converter, the state
    (5 V, 0 V; 0 A, 0 A) is an exact steady state, and the total row reads Power 0 W, Loss 0.5 W. -/
theorem total_loss_le_power_full_fails : ¬ total_loss_le_power_full := by
  intro h
  obtain ⟨P, L, hP, hL, _, hle⟩ := h c0Sys c0WF (by
    intro n m nd md hn hm kn km _
    rcases c0Nodes n nd hn with ⟨rfl, rfl⟩ | ⟨rfl, rfl⟩ <;>
      rcases c0Nodes m md hm with ⟨rfl, rfl⟩ | ⟨rfl, rfl⟩ <;>
      simp [c0N0, c0N1, c0Src, c0Cv] at kn km ⊢) c0Phys "" c0PV 25 #[5, 0] #[0, 0] #[[false], [false]] c0Steady
  have e1 : (c0Sys.phaseTable "" 25 #[5, 0] #[0, 0] #[[false], [false]]).total.pwr = some 0 := by decide +kernel
  have e2 : (c0Sys.phaseTable "" 25 #[5, 0] #[0, 0] #[[false], [false]]).total.loss = some (1/2) := by
    decide +kernel
  rw [e1] at hP
  rw [e2] at hL
  simp only [Option.some.injEq] at hP hL
  rw [← hP, ← hL] at hle
  norm_num at hle

/-! ### (4) needs "no mux above a mux": the statement without `MuxInputsPlain` fails on the model
  (a tree `System` refuses to build — "a system can only have one PMux" — but which `SSys`, `TreeWF` allow)

  Source A (0 V, idle), Source B (10 V) → PMux M1 [A, B] → PMux M2 (1 Ω) → ILoad (2 A).
  M1 selects B and is attributed to B; M2 looks for the root above M1 along FIRST parents and is
  attributed to A, and so is the load.  "Subsystem A" reads Power 0 W, Loss 4 W. -/

def nmA : Comp ℚ := { name := "A", kind := .source, par := .const 0, vo := 0 }
def nmB : Comp ℚ := { name := "B", kind := .source, par := .const 0, vo := 10 }
def nmM1 : Comp ℚ := { name := "M1", kind := .pmux, par := .const 0, rs := 0 }
def nmM2 : Comp ℚ := { name := "M2", kind := .pmux, par := .const 0, rs := 1 }
def nmL : Comp ℚ := { name := "L", kind := .iload, par := .const 0, ii := 2 }
def nmN0 : SNode ℚ := { comp := nmA, parents := [], childs := [2], pconf := .names [] }
def nmN1 : SNode ℚ := { comp := nmB, parents := [], childs := [2], pconf := .names [] }
def nmN2 : SNode ℚ := { comp := nmM1, parents := [0, 1], childs := [3], pconf := .names [] }
def nmN3 : SNode ℚ := { comp := nmM2, parents := [2], childs := [4], pconf := .names [] }
def nmN4 : SNode ℚ := { comp := nmL, parents := [3], childs := [] }
def nmSys : SSys ℚ :=
  { nodes := #[some nmN0, some nmN1, some nmN2, some nmN3, some nmN4], topo := [0, 1, 2, 3, 4] }
def nmV : Vec ℚ := #[0, 10, 10, 8, 0]
def nmI : Vec ℚ := #[0, 2, 2, 2, 2]
def nmSt : St := #[[true], [false], [false], [false], [false]]

theorem nmNodes (n : Nat) (nd : SNode ℚ) (h : nmSys.node? n = some nd) :
    (n = 0 ∧ nd = nmN0) ∨ (n = 1 ∧ nd = nmN1) ∨ (n = 2 ∧ nd = nmN2) ∨ (n = 3 ∧ nd = nmN3) ∨
      (n = 4 ∧ nd = nmN4) := by
  rcases n with _ | _ | _ | _ | _ | n
  · have h2 : nmSys.node? 0 = some nmN0 := rfl
    rw [h2] at h; exact Or.inl ⟨rfl, (Option.some.inj h).symm⟩
  · have h2 : nmSys.node? 1 = some nmN1 := rfl
    rw [h2] at h; exact Or.inr (Or.inl ⟨rfl, (Option.some.inj h).symm⟩)
  · have h2 : nmSys.node? 2 = some nmN2 := rfl
    rw [h2] at h; exact Or.inr (Or.inr (Or.inl ⟨rfl, (Option.some.inj h).symm⟩))
  · have h2 : nmSys.node? 3 = some nmN3 := rfl
    rw [h2] at h; exact Or.inr (Or.inr (Or.inr (Or.inl ⟨rfl, (Option.some.inj h).symm⟩)))
  · have h2 : nmSys.node? 4 = some nmN4 := rfl
    rw [h2] at h; exact Or.inr (Or.inr (Or.inr (Or.inr ⟨rfl, (Option.some.inj h).symm⟩)))
  · have h2 : nmSys.node? (n + 5) = none := by simp [SSys.node?, nmSys]
    rw [h2] at h; cases h

theorem nmWF : TreeWF nmSys where
  nodup := by decide
  live := by
    intro n
    rcases n with _ | _ | _ | _ | _ | n
    · decide
    · decide
    · decide
    · decide
    · decide
    · have h2 : nmSys.node? (n + 5) = none := by simp [SSys.node?, nmSys]
      rw [h2]; simp [nmSys]
  bound := by decide
  order := by
    intro p c pd h hc
    rcases nmNodes p pd h with ⟨rfl, rfl⟩ | ⟨rfl, rfl⟩ | ⟨rfl, rfl⟩ | ⟨rfl, rfl⟩ | ⟨rfl, rfl⟩ <;>
      simp [nmN0, nmN1, nmN2, nmN3, nmN4] at hc <;> (try subst hc) <;> decide
  parLive := by
    intro n nd h p hp
    rcases nmNodes n nd h with ⟨rfl, rfl⟩ | ⟨rfl, rfl⟩ | ⟨rfl, rfl⟩ | ⟨rfl, rfl⟩ | ⟨rfl, rfl⟩ <;>
      simp [nmN0, nmN1, nmN2, nmN3, nmN4] at hp <;> (try rcases hp with rfl | rfl) <;> (try subst hp) <;> rfl
  chLive := by
    intro n nd h c hc
    rcases nmNodes n nd h with ⟨rfl, rfl⟩ | ⟨rfl, rfl⟩ | ⟨rfl, rfl⟩ | ⟨rfl, rfl⟩ | ⟨rfl, rfl⟩ <;>
      simp [nmN0, nmN1, nmN2, nmN3, nmN4] at hc <;> (try subst hc) <;> rfl
  link := by
    intro p c pd cd hp hc
    rcases nmNodes p pd hp with ⟨rfl, rfl⟩ | ⟨rfl, rfl⟩ | ⟨rfl, rfl⟩ | ⟨rfl, rfl⟩ | ⟨rfl, rfl⟩ <;>
      rcases nmNodes c cd hc with ⟨rfl, rfl⟩ | ⟨rfl, rfl⟩ | ⟨rfl, rfl⟩ | ⟨rfl, rfl⟩ | ⟨rfl, rfl⟩ <;>
      simp [nmN0, nmN1, nmN2, nmN3, nmN4]
  chNodup := by
    intro n nd h
    rcases nmNodes n nd h with ⟨rfl, rfl⟩ | ⟨rfl, rfl⟩ | ⟨rfl, rfl⟩ | ⟨rfl, rfl⟩ | ⟨rfl, rfl⟩ <;>
      simp [nmN0, nmN1, nmN2, nmN3, nmN4]
  parNodup := by
    intro n nd h
    rcases nmNodes n nd h with ⟨rfl, rfl⟩ | ⟨rfl, rfl⟩ | ⟨rfl, rfl⟩ | ⟨rfl, rfl⟩ | ⟨rfl, rfl⟩ <;>
      simp [nmN0, nmN1, nmN2, nmN3, nmN4]
  rootSrc := by
    intro n nd h
    rcases nmNodes n nd h with ⟨rfl, rfl⟩ | ⟨rfl, rfl⟩ | ⟨rfl, rfl⟩ | ⟨rfl, rfl⟩ | ⟨rfl, rfl⟩ <;>
      simp [nmN0, nmN1, nmN2, nmN3, nmN4, nmA, nmB, nmM1, nmM2, nmL]
  muxOnly := by
    intro n nd h hl
    rcases nmNodes n nd h with ⟨rfl, rfl⟩ | ⟨rfl, rfl⟩ | ⟨rfl, rfl⟩ | ⟨rfl, rfl⟩ | ⟨rfl, rfl⟩ <;>
      simp [nmN0, nmN1, nmN2, nmN3, nmN4, nmM1] at hl ⊢
  loadLeaf := by
    intro n nd h hl
    rcases nmNodes n nd h with ⟨rfl, rfl⟩ | ⟨rfl, rfl⟩ | ⟨rfl, rfl⟩ | ⟨rfl, rfl⟩ | ⟨rfl, rfl⟩ <;>
      simp [nmN0, nmN1, nmN2, nmN3, nmN4, nmA, nmB, nmM1, nmM2, nmL, Kind.ctype] at hl ⊢

theorem nmOK : CompsOK nmSys where
  phys := by
    intro n nd h
    rcases nmNodes n nd h with ⟨rfl, rfl⟩ | ⟨rfl, rfl⟩ | ⟨rfl, rfl⟩ | ⟨rfl, rfl⟩ | ⟨rfl, rfl⟩ <;>
      constructor <;>
      simp [nmN0, nmN1, nmN2, nmN3, nmN4, nmA, nmB, nmM1, nmM2, nmL, Comp.muxRs, Param.Nonneg, Param.interp]
  f01 := by
    intro n nd h hk
    rcases nmNodes n nd h with ⟨rfl, rfl⟩ | ⟨rfl, rfl⟩ | ⟨rfl, rfl⟩ | ⟨rfl, rfl⟩ | ⟨rfl, rfl⟩ <;>
      simp [nmN0, nmN1, nmN2, nmN3, nmN4, nmA, nmB, nmM1, nmM2, nmL] at hk ⊢
  conv := by
    intro n nd h hk
    rcases nmNodes n nd h with ⟨rfl, rfl⟩ | ⟨rfl, rfl⟩ | ⟨rfl, rfl⟩ | ⟨rfl, rfl⟩ | ⟨rfl, rfl⟩ <;>
      simp [nmN0, nmN1, nmN2, nmN3, nmN4, nmA, nmB, nmM1, nmM2, nmL] at hk

theorem nmSteady : Steady nmSys "" nmV nmI nmSt where
  fwd := ⟨nmSt, by decide +kernel⟩
  back := by decide +kernel
  flag := by
    intro n h
    rcases n with _ | _ | _ | _ | _ | n
    · decide +kernel
    · revert h; decide
    · revert h; decide
    · revert h; decide
    · revert h; decide
    · simp [sget, nmSt] at h

theorem nmPV : ∀ n nd, nmSys.node? n = some nd → PhaseValOK (nd.pconf.ctx "") := by
  intro n nd h
  rcases nmNodes n nd h with ⟨rfl, rfl⟩ | ⟨rfl, rfl⟩ | ⟨rfl, rfl⟩ | ⟨rfl, rfl⟩ | ⟨rfl, rfl⟩ <;>
    simp [PhaseValOK, PhaseConf.ctx, nmN0, nmN1, nmN2, nmN3, nmN4]

theorem nmAllNames : NamesDistinct nmSys := by
  intro n m nd md hn hm hnm
  rcases nmNodes n nd hn with ⟨rfl, rfl⟩ | ⟨rfl, rfl⟩ | ⟨rfl, rfl⟩ | ⟨rfl, rfl⟩ | ⟨rfl, rfl⟩ <;>
    rcases nmNodes m md hm with ⟨rfl, rfl⟩ | ⟨rfl, rfl⟩ | ⟨rfl, rfl⟩ | ⟨rfl, rfl⟩ | ⟨rfl, rfl⟩ <;>
    simp [nmN0, nmN1, nmN2, nmN3, nmN4, nmA, nmB, nmM1, nmM2, nmL] at hnm ⊢

/-- (4) without `MuxInputsPlain` -/
def subsystem_loss_le_power_full : Prop :=
  ∀ (s : SSys ℚ), TreeWF s → NamesDistinct s → CompsOK s →
    ∀ (phase : String), (∀ n nd, s.node? n = some nd → PhaseValOK (nd.pconf.ctx phase)) →
    ∀ (ta : ℚ) (v i : Vec ℚ) (st : St), Steady s phase v i st →
      ∀ sub ∈ (s.phaseTable phase ta v i st).subs,
        ∃ P L, sub.pwr = some P ∧ sub.loss = some L ∧ 0 ≤ L ∧ L ≤ P

/-- the rows of the nested-mux example: M2 and the load are attributed to the idle source A, the system
    total is still 20 W / 4 W (`total_eff_le_100_table_partial` applies), but "Subsystem A" reads
    Power 0 W, Loss 4 W -/
theorem nm_table :
    (nmSys.compRows "" 25 nmV nmI nmSt).map (fun r => (r.name, r.domain))
      = [("A", "A"), ("B", "B"), ("M1", "B"), ("M2", "A"), ("L", "A")] ∧
    (nmSys.phaseTable "" 25 nmV nmI nmSt).subs.map (fun r => (r.name, r.pwr, r.loss))
      = [("Subsystem A", some 0, some 4), ("Subsystem B", some 20, some 0)] ∧
    (nmSys.phaseTable "" 25 nmV nmI nmSt).total.pwr = some 20 ∧
    (nmSys.phaseTable "" 25 nmV nmI nmSt).total.loss = some 4 := by
  decide +kernel

example : ∃ e, (nmSys.phaseTable "" 25 nmV nmI nmSt).total.eff = some e ∧ 0 ≤ e ∧ e ≤ 100 :=
  total_eff_le_100_table_partial nmSys nmWF nmAllNames.src nmOK "" nmPV 25 nmV nmI nmSt nmSteady

theorem subsystem_loss_le_power_full_fails : ¬ subsystem_loss_le_power_full := by
  intro h
  have hex : ∃ sub ∈ (nmSys.phaseTable "" 25 nmV nmI nmSt).subs, sub.pwr = some 0 ∧ sub.loss = some 4 := by
    decide +kernel
  obtain ⟨sub, hsub, e1, e2⟩ := hex
  obtain ⟨P, L, hP, hL, _, hle⟩ := h nmSys nmWF nmAllNames nmOK "" nmPV 25 nmV nmI nmSt nmSteady sub hsub
  rw [e1] at hP
  rw [e2] at hL
  simp only [Option.some.injEq] at hP hL
  rw [← hP, ← hL] at hle
  norm_num at hle

/-! ### note on the per-subsystem statement (4)

  `0 ≤ Loss ≤ Power` for one "Subsystem d" row needs the rows whose Domain is `d` to be closed under
  "is fed by" (`D_feeder`).  For a PMux the model (like `_find_domain`) takes the Domain from the root
  above the first input at non-zero voltage, following FIRST parents (`SSys.rootOf`; the Python picks a
  root out of `rx.ancestors(...)`), whereas the current — and so the loss — flows through the input the
  mux SELECTED.  In a steady state the two inputs coincide (`firstNonZero_eq_pri`: an off-flag sits on a
  0 V output only), and above that input the first-parent path is THE supply path as long as it passes no
  further PMux.  With a mux above a mux it is not: in `nmSys` the path B → M1 → M2 → L is split into the
  Domains "B" (B, M1) and "A" (M2, L), and the idle source A is charged 4 W — "Subsystem A" reads Power
  0 W, Loss 4 W (`nm_table`).  `System` never builds such a tree (one PMux at most), so this is a
  limit of the solver-view statement, not a defect of the package; `_find_domain` silently relies on the
  one-PMux rule.  The "System total" row does not: every row is attributed to exactly one listed
  subsystem whatever the muxes (`rows_domain_covered`, `total_loss_eq_sum`). -/

end C07
end SysLoss
